import Proofs.ClientC10
/-
  Proofs/ClientC10b.lean — C10: exactly-once delivery of inbound QoS 2 messages against a
  well-behaved broker (client ∥ broker-monitor). (K1)
-/
set_option linter.unusedSimpArgs false
set_option linter.unusedVariables false
set_option linter.unnecessarySimpa false
open Cl Cl.St
namespace ClientK1

/-- the sender's view of one QoS 2 handshake -/
inductive BPhase where
  | idle                    -- nothing in flight for this id
  | pub (m : Message)       -- PUBLISH sent (and possibly resent), PUBREC not yet received
  | rel (m : Message)       -- PUBREC received, PUBREL sent (and possibly resent), PUBCOMP not yet received
  deriving DecidableEq, Repr

def upd {α : Type} (f : UInt16 → α) (id : UInt16) (v : α) : UInt16 → α := fun k => if k = id then v else f k
@[simp] theorem upd_same {α : Type} (f : UInt16 → α) (id : UInt16) (v : α) : upd f id v id = v := by simp [upd]
theorem upd_other {α : Type} (f : UInt16 → α) (id k : UInt16) (v : α) (h : k ≠ id) : upd f id v k = f k := by simp [upd, h]

/-- the broker side (ghost): phase per id, whether a PUBREC / PUBCOMP of the current handshake
    was handed to the connection, and how often the application accepted the message of the
    current handshake -/
structure G where
  ph : UInt16 → BPhase := fun _ => .idle
  recS : UInt16 → Bool := fun _ => false
  compS : UInt16 → Bool := fun _ => false
  n : UInt16 → Nat := fun _ => 0

/-- the incoming store as a function -/
def inc (s : St) (id : UInt16) : Option Packet := s.sess.lookupPacket .incoming id

/-- what a well-behaved broker, an unclean session, the default callback mode and a session that
    does not fail allow the environment to do -/
def Allowed (s : St) (g : G) : Label → Prop
  | .recv (.publish m _ id) => m.qos = 2 → (g.ph id = .idle ∨ g.ph id = .pub m)
  | .recv (.pubrel id) => ∃ m, g.ph id = .rel m
  | .aConnect cp early _ _ => early = false ∧ (match cp with | .connect _ _ _ _ clean _ _ => clean = false | _ => True)
  | .sSave _ _ _ ok => ok = true
  | .sDel _ _ _ ok => ok = true
  | .sLookup _ _ r => r ≠ .fail
  | .sReset _ _ => False
  | _ => True

/-- the ghost update that goes with a label of the client -/
def gstep (s : St) (g : G) : Label → G
  | .recv (.publish m _ id) =>
    if m.qos = 2 ∧ g.ph id = .idle then
      { ph := upd g.ph id (.pub m), recS := upd g.recS id false, compS := upd g.compS id false, n := upd g.n id 0 }
    else g
  | .send .proc _ true =>
    (match s.proc with
     | .pubRec id => { g with recS := upd g.recS id true }
     | .relSend id _ => { g with compS := upd g.compS id true }
     | _ => g)
  | .cb _ true =>
    (match s.proc with
     | .relCb _ id => { g with n := upd g.n id (g.n id + 1) }
     | _ => g)
  | _ => g

/-- client ∥ broker -/
inductive Sys (fx : Fix) : St × G → St × G → Prop where
  | client {s s' : St} {g : G} (l : Label) : step fx s l = some s' → Allowed s g l → Sys fx (s, g) (s', gstep s g l)
  | gotPubrec {s : St} {g : G} (id : UInt16) (m : Message) : g.ph id = .pub m → g.recS id = true →
      Sys fx (s, g) (s, { g with ph := upd g.ph id (.rel m) })
  | gotPubcomp {s : St} {g : G} (id : UInt16) (m : Message) : g.ph id = .rel m → g.compS id = true →
      Sys fx (s, g) (s, { g with ph := upd g.ph id .idle })

inductive SysReach (fx : Fix) : St × G → Prop where
  | init : SysReach fx ({}, {})
  | step {x y : St × G} : SysReach fx x → Sys fx x y → SysReach fx y

/-- the id a program counter of the QoS 2 receive path works on -/
def pcId : Proc → Option UInt16
  | .relCb _ id | .relDel id _ | .relLook id | .relState id | .relSend id _ | .pubSave _ _ id | .pubRec id => some id
  | _ => none

/-- the invariant, per id -/
structure J (s : St) (g : G) (id : UInt16) : Prop where
  le : g.n id ≤ 1
  i : g.ph id = .idle → inc s id = none
  a : ∀ m, g.ph id = .pub m → g.n id = 0 ∧ g.compS id = false ∧
        (g.recS id = true → ∃ d j, inc s id = some (.publish m d j))
  b : ∀ m, g.ph id = .rel m →
        (g.n id = 0 ∧ g.compS id = false ∧ ∃ d j, inc s id = some (.publish m d j)) ∨
        (g.n id = 1 ∧ (inc s id = none ∨ s.proc = .relDel id true))
  c : ∀ m, s.proc = .relCb m id → g.n id = 0 ∧ g.ph id = .rel m
  d : s.proc = .relDel id true → g.n id = 1 ∧ g.compS id = false ∧ ∃ m, g.ph id = .rel m
  f : ∀ m dup, s.proc = .pubSave m dup id → g.ph id = .pub m ∨ (g.ph id = .rel m ∧ g.n id = 0)
  f' : s.proc = .pubRec id → ∃ m d j, (g.ph id = .pub m ∨ (g.ph id = .rel m ∧ g.n id = 0)) ∧
        inc s id = some (.publish m d j)
  k : (s.proc = .relLook id ∨ s.proc = .relState id ∨ s.proc = .relSend id false) →
        g.ph id = .idle ∨ ∃ m, g.ph id = .rel m
  k3 : (s.proc = .relState id ∨ s.proc = .relSend id false) → g.n id = 0 → ∀ m d j, inc s id ≠ some (.publish m d j)

/-- the mode the clause is claimed for: default callback timing, session not clean, and none of
    the program counters that only the found code / the announce mode can reach -/
structure Mode (s : St) : Prop where
  early : s.early = false
  pend : s.pendEarly = false
  clean : s.clean = false
  cpkt : (match s.cpkt with | .connect _ _ _ _ c _ _ => c = false | _ => True)
  x : ∀ id, s.proc ≠ .relSend id true ∧ s.proc ≠ .relDel id false
  y : ∀ m dup id, s.proc = .pubCb m dup id → m.qos ≠ 2

/-- everything about `id` is untouched -/
theorem J_frame {s s' : St} {g g' : G} {id : UInt16} (hj : J s g id)
    (hi : inc s' id = inc s id) (hph : g'.ph id = g.ph id) (hr : g'.recS id = g.recS id)
    (hc : g'.compS id = g.compS id) (hn : g'.n id = g.n id)
    (hp : pcId s.proc ≠ some id) (hp' : pcId s'.proc ≠ some id) : J s' g' id := by
  have np : ∀ {pc : Proc}, pcId pc ≠ some id →
      (∀ m, pc ≠ .relCb m id) ∧ (∀ b, pc ≠ .relDel id b) ∧ pc ≠ .relLook id ∧ pc ≠ .relState id ∧
      (∀ b, pc ≠ .relSend id b) ∧ (∀ m d, pc ≠ .pubSave m d id) ∧ pc ≠ .pubRec id := by
    intro pc h
    refine ⟨?_, ?_, ?_, ?_, ?_, ?_, ?_⟩ <;> (intros; intro e; subst e; simp [pcId] at h)
  obtain ⟨n1, n2, n3, n4, n5, n6, n7⟩ := np hp
  obtain ⟨m1, m2, m3, m4, m5, m6, m7⟩ := np hp'
  refine ⟨by rw [hn]; exact hj.le, ?_, ?_, ?_, ?_, ?_, ?_, ?_, ?_, ?_⟩
  · rw [hph, hi]; exact hj.i
  · intro m hm; rw [hph] at hm; rw [hn, hc, hr, hi]; exact hj.a m hm
  · intro m hm; rw [hph] at hm; rw [hn, hc, hi]
    rcases hj.b m hm with h1 | ⟨h1, h2⟩
    · left; exact h1
    · right; refine ⟨h1, ?_⟩
      rcases h2 with h2 | h2
      · left; exact h2
      · exact absurd h2 (n2 true)
  · intro m hm; exact absurd hm (m1 m)
  · intro hm; exact absurd hm (m2 true)
  · intro m d hm; exact absurd hm (m6 m d)
  · intro hm; exact absurd hm m7
  · intro hm; rcases hm with hm | hm | hm
    · exact absurd hm m3
    · exact absurd hm m4
    · exact absurd hm (m5 false)
  · intro hm; rcases hm with hm | hm
    · exact absurd hm m4
    · exact absurd hm (m5 false)

/-! ### steps that do not concern the QoS 2 receive path -/

@[simp] theorem inc_save_out (σ : MemorySession) (p : Packet) (id : UInt16) :
    (σ.savePacket .outgoing p).lookupPacket .incoming id = σ.lookupPacket .incoming id := by
  simp [MemorySession.savePacket, MemorySession.lookupPacket, MemorySession.store, MemorySession.setStore]
@[simp] theorem inc_delete_out (σ : MemorySession) (k id : UInt16) :
    (σ.deletePacket .outgoing k).lookupPacket .incoming id = σ.lookupPacket .incoming id := by
  simp [MemorySession.deletePacket, MemorySession.lookupPacket, MemorySession.store, MemorySession.setStore]
@[simp] theorem inc_nextID (σ : MemorySession) (id : UInt16) :
    σ.nextID.2.lookupPacket .incoming id = σ.lookupPacket .incoming id := by
  simp [MemorySession.nextID, MemorySession.lookupPacket, MemorySession.store]
@[simp] theorem inc_markDup (s : St) (k id : UInt16) : inc (s.markDup k) id = inc s id := by
  simp [inc, markDup, MemorySession.lookupPacket, MemorySession.store]

theorem cleanStep_inc {s s' : St} {t c l r} (h : cleanStep s t c l = some (s', r)) (hl : ∀ t ok, l ≠ .sReset t ok)
    (id : UInt16) : inc s' id = inc s id := by
  unfold cleanStep at h
  split_all h
  all_goals (first
    | (simp at h; done)
    | (exact absurd rfl (hl _ _))
    | (simp at h; obtain ⟨h1, _⟩ := h; subst h1; simp [inc, resolve, storeClear]; done)
    | skip)

theorem dieStep_inc {s s' : St} {t d l r} (h : dieStep s t d l = some (s', r)) (hl : ∀ t ok, l ≠ .sReset t ok)
    (id : UInt16) : inc s' id = inc s id := by
  unfold dieStep at h
  split_all h
  all_goals (first
    | (simp at h; done)
    | (simp at h; obtain ⟨h1, _⟩ := h; subst h1; simp [inc]; done)
    | (have hc := cleanStep_inc (by assumption) hl id; simp at h; obtain ⟨h1, _⟩ := h; subst h1; exact hc)
    | skip)

@[simp] theorem procAfter_inc (s : St) (a : DAfter) (id : UInt16) : inc (s.procAfter a) id = inc s id := by
  simp [inc]
@[simp] theorem procErr_inc (fx : Fix) (s : St) (id : UInt16) : inc (procErr fx s) id = inc s id := by
  simp [inc]

theorem dieStep_labels {s s1 : St} {t d l r} (h : dieStep s t d l = some (s1, r)) :
    (∀ p, l ≠ .recv p) ∧ (∀ m ok, l ≠ .cb m ok) ∧ (∀ t' p ok, l ≠ .send t' p ok) := by
  obtain ⟨st, cc, af⟩ := d
  refine ⟨?_, ?_, ?_⟩ <;> (intros; intro e; subst e; cases st <;> simp [dieStep] at h)
  all_goals (rename_i c; unfold cleanStep at h; cases c.stage <;> simp at h)

theorem gstep_other (s : St) (g : G) (l : Label) (h1 : ∀ p, l ≠ .recv p) (h2 : ∀ m ok, l ≠ .cb m ok)
    (h3 : ∀ t' p ok, l ≠ .send t' p ok) : gstep s g l = g := by
  cases l <;> simp [gstep] <;> simp_all

/-- from a program counter outside the QoS 2 receive path (and not waiting for a packet) the
    processor stays outside, the incoming store is not touched and the broker ghost does not move -/
theorem stepProc_neutral {s s' : St} {l : Label} (g : G) (hn : pcId s.proc = none) (hm : Mode s)
    (hr : ∀ f, s.proc ≠ .recv f) (hl : ∀ t ok, l ≠ .sReset t ok)
    (h : stepProc Fix.repaired s l = some s') :
    pcId s'.proc = none ∧ (∀ id, inc s' id = inc s id) ∧ gstep s g l = g := by
  have hy := hm.y
  unfold stepProc at h
  split_all h
  all_goals (first
    | (simp at h; done)
    | (exact absurd ‹s.proc = _› (hr _))
    | (rw [‹s.proc = _›] at hn; simp [pcId] at hn; done)
    | (have hpc := ‹s.proc = _›
       simp at h; subst h
       refine ⟨?_, ?_, ?_⟩
       · simp [pcId, procDie, procExit, goroutineExit, sendLog, resolve, storeDel, mkDie]
       · intro id; simp [inc, procDie, procExit, goroutineExit, sendLog, resolve, storeDel]
       · first
           | (simp [gstep, hpc]; done)
           | (simp_all [gstep]; done))
    | skip)
  all_goals (first
    | -- pubCb with a QoS 2 message: only in announce mode
      (exact absurd ‹_ = (2 : UInt8)› (hy _ _ _ ‹s.proc = _›))
    | -- resend of a stored PUBLISH: the duplicate flag is set in the outgoing store
      (have hpc := ‹s.proc = _›
       simp at h; subst h
       refine ⟨?_, ?_, ?_⟩
       · simp [pcId, procDie, sendLog, markDup, mkDie]
       · intro id; simp [inc, procDie, sendLog, markDup, MemorySession.lookupPacket, MemorySession.store]
       · first | (simp [gstep, hpc]; done) | (simp_all [gstep]; done))
    | -- error returns
      (have hpc := ‹s.proc = _›
       simp at h; subst h
       refine ⟨?_, ?_, ?_⟩
       · rw [procErr_proc_eq]; simp [pcId, mkDie, Fix.repaired]
       · intro id; simp [inc, resolve, storeDel]
       · first | (simp [gstep, hpc]; done) | (simp_all [gstep]; done))
    | -- die
      (have hd := dieStep_inc (by assumption) hl
       have hlab := dieStep_labels (by assumption)
       simp at h; subst h
       refine ⟨?_, ?_, ?_⟩
       · first | (simp [pcId]; done) | (rw [procAfter_proc_eq]; split <;> simp [pcId])
       · intro id; simpa [inc] using hd id
       · exact gstep_other _ _ _ hlab.1 hlab.2.1 hlab.2.2)
    | skip)

/-! ### the mode is kept -/

theorem cleanStep_cfg {s s' : St} {t c l r} (h : cleanStep s t c l = some (s', r)) :
    s'.early = s.early ∧ s'.pendEarly = s.pendEarly ∧ s'.clean = s.clean ∧ s'.cpkt = s.cpkt := by
  unfold cleanStep at h
  split_all h
  close_cases h using resolve, storeClear
theorem dieStep_cfg {s s' : St} {t d l r} (h : dieStep s t d l = some (s', r)) :
    s'.early = s.early ∧ s'.pendEarly = s.pendEarly ∧ s'.clean = s.clean ∧ s'.cpkt = s.cpkt := by
  unfold dieStep at h
  split_all h
  close_cases h using resolve
  all_goals (have hc := cleanStep_cfg (by assumption); simp at h; obtain ⟨h1, _⟩ := h; subst h1; exact hc)
theorem procAfter_cfg (s : St) (a : DAfter) :
    (s.procAfter a).early = s.early ∧ (s.procAfter a).pendEarly = s.pendEarly ∧ (s.procAfter a).clean = s.clean ∧
      (s.procAfter a).cpkt = s.cpkt := by
  cases a <;> simp [procAfter, procExit, goroutineExit, resolve] <;> split <;> simp
theorem procErr_cfg (fx : Fix) (s : St) :
    (procErr fx s).early = s.early ∧ (procErr fx s).pendEarly = s.pendEarly ∧ (procErr fx s).clean = s.clean ∧
      (procErr fx s).cpkt = s.cpkt := by
  simp [procErr]; split <;> simp [procDie, procExit, goroutineExit]
theorem stepProc_cfg {fx s s' l} (h : stepProc fx s l = some s') :
    s'.early = s.early ∧ s'.pendEarly = s.pendEarly ∧ s'.clean = s.clean ∧ s'.cpkt = s.cpkt := by
  unfold stepProc at h
  split_all h
  close_cases h using procDie, procExit, goroutineExit, sendLog, markDup, resolve, storeDel, procErr_cfg
  all_goals (first
    | (have hd := dieStep_cfg (by assumption); simp at h; subst h; simpa [procAfter_cfg] using hd)
    | (simp at h; subst h; simpa using procErr_cfg _ _)
    | skip)

/-- the processor (repaired code, default mode) never reaches the program counters of the found
    code / the announce mode -/
theorem mode_stepProc {s s' : St} {l : Label} (hm : Mode s) (h : stepProc Fix.repaired s l = some s') : Mode s' := by
  obtain ⟨c1, c2, c3, c4⟩ := stepProc_cfg h
  refine ⟨by rw [c1]; exact hm.early, by rw [c2]; exact hm.pend, by rw [c3]; exact hm.clean, by rw [c4]; exact hm.cpkt, ?_, ?_⟩
  · intro id
    have he := hm.early
    have hx := hm.x
    unfold stepProc at h
    split_all h
    all_goals (first
      | (simp at h; done)
      | (simp at h; subst h; simp [procDie, procExit, goroutineExit, sendLog, markDup, resolve, storeDel, mkDie]; done)
      | (simp at h; subst h; rw [procErr_proc_eq]; simp [Fix.repaired, mkDie]; done)
      | (simp at h; subst h; rw [procAfter_proc_eq]; split <;> simp; done)
      | (simp at h; subst h; simp_all [Fix.repaired]; done)
      | skip)
  · intro m dup id hp
    have he := hm.early
    unfold stepProc at h
    split_all h
    all_goals (first
      | (simp at h; done)
      | (simp at h; subst h; simp [procDie, procExit, goroutineExit, sendLog, markDup, resolve, storeDel, mkDie] at hp; done)
      | (simp at h; subst h; rw [procErr_proc_eq] at hp; simp [Fix.repaired, mkDie] at hp; done)
      | (simp at h; subst h; rw [procAfter_proc_eq] at hp; split at hp <;> simp at hp; done)
      | (simp at h; subst h; simp at hp; obtain ⟨rfl, _, _⟩ := hp; intro hq; simp_all; done)
      | (simp at h; subst h; exact hm.y m dup id hp)
      | skip)

/-! ### the invariant is kept by the processor -/

theorem Allowed_not_reset {s : St} {g : G} {l : Label} (ha : Allowed s g l) : ∀ t ok, l ≠ .sReset t ok := by
  intro t ok e; subst e; exact ha

/-- neutral step: every id is untouched -/
theorem j_neutral {s s' : St} {g : G} {l : Label} (hm : Mode s) (hj : ∀ id, J s g id) (hn : pcId s.proc = none)
    (hr : ∀ f, s.proc ≠ .recv f) (h : stepProc Fix.repaired s l = some s') (ha : Allowed s g l) :
    ∀ id, J s' (gstep s g l) id := by
  obtain ⟨h1, h2, h3⟩ := stepProc_neutral g hn hm hr (Allowed_not_reset ha) h
  intro id
  rw [h3]
  exact J_frame (hj id) (h2 id) rfl rfl rfl rfl (by rw [hn]; simp) (by rw [h1]; simp)

/-- a new handshake starts: the broker sends a PUBLISH under an id that was idle -/
theorem j_start {s : St} {g : G} {id : UInt16} (m : Message) (hj : J s g id) (hi : g.ph id = .idle)
    (hp : pcId s.proc ≠ some id) :
    J s { ph := upd g.ph id (.pub m), recS := upd g.recS id false, compS := upd g.compS id false, n := upd g.n id 0 } id := by
  have np : (∀ m, s.proc ≠ .relCb m id) ∧ (∀ b, s.proc ≠ .relDel id b) ∧ s.proc ≠ .relLook id ∧ s.proc ≠ .relState id ∧
      (∀ b, s.proc ≠ .relSend id b) ∧ (∀ m d, s.proc ≠ .pubSave m d id) ∧ s.proc ≠ .pubRec id := by
    refine ⟨?_, ?_, ?_, ?_, ?_, ?_, ?_⟩ <;> (intros; intro e; rw [e] at hp; simp [pcId] at hp)
  obtain ⟨n1, n2, n3, n4, n5, n6, n7⟩ := np
  refine ⟨by simp, by simp, ?_, by simp, ?_, ?_, ?_, ?_, ?_, ?_⟩
  · intro m' hm'; simp at hm' ⊢
  · intro m' hm'; exact absurd hm' (n1 m')
  · intro hm'; exact absurd hm' (n2 true)
  · intro m' d hm'; exact absurd hm' (n6 m' d)
  · intro hm'; exact absurd hm' n7
  · intro hm'; rcases hm' with e | e | e
    · exact absurd e n3
    · exact absurd e n4
    · exact absurd e (n5 false)
  · intro hm'; rcases hm' with e | e
    · exact absurd e n4
    · exact absurd e (n5 false)

/-- only the program counter changes, from outside the receive path to `pc'` working on `id` -/
theorem j_enter {s : St} {g : G} {id : UInt16} (pc' : Proc) (hj : J s g id) (hp : pcId s.proc = none)
    (hc : ∀ m, pc' ≠ .relCb m id) (hd : pc' ≠ .relDel id true)
    (hf : ∀ m dup, pc' = .pubSave m dup id → g.ph id = .pub m ∨ (g.ph id = .rel m ∧ g.n id = 0))
    (hf' : pc' ≠ .pubRec id)
    (hk : (pc' = .relLook id ∨ pc' = .relState id ∨ pc' = .relSend id false) → g.ph id = .idle ∨ ∃ m, g.ph id = .rel m)
    (hk3 : (pc' = .relState id ∨ pc' = .relSend id false) → g.n id = 0 → ∀ m d j, inc s id ≠ some (.publish m d j)) :
    J { s with proc := pc' } g id := by
  have n2 : s.proc ≠ .relDel id true := by intro e; rw [e] at hp; simp [pcId] at hp
  refine ⟨hj.le, hj.i, hj.a, ?_, ?_, ?_, ?_, ?_, ?_, ?_⟩
  · intro m hm
    rcases hj.b m hm with h1 | ⟨h1, h2⟩
    · left; exact h1
    · right; refine ⟨h1, ?_⟩
      rcases h2 with h2 | h2
      · left; exact h2
      · exact absurd h2 n2
  · intro m e; exact absurd e (hc m)
  · intro e; exact absurd e hd
  · intro m dup e; exact hf m dup e
  · intro e; exact absurd e hf'
  · intro e; exact hk e
  · intro e; exact hk3 e

/-- the ghost after reading packet `p`, for an id other than the one a new handshake starts on -/
theorem gstep_recv_other (s : St) (g : G) (p : Packet) (id : UInt16)
    (h : ∀ m d, p = .publish m d id → ¬ (m.qos = 2 ∧ g.ph id = .idle)) :
    (gstep s g (.recv p)).ph id = g.ph id ∧ (gstep s g (.recv p)).recS id = g.recS id ∧
    (gstep s g (.recv p)).compS id = g.compS id ∧ (gstep s g (.recv p)).n id = g.n id := by
  cases p <;> simp [gstep]
  rename_i m d id'
  split
  · rename_i hc
    by_cases e : id = id'
    · subst e; exact absurd hc (h m d rfl)
    · simp [upd_other _ _ _ _ e]
  · simp

/-- reading a packet that leads to a program counter outside the receive path -/
theorem j_recv_neutral {s : St} {g : G} {p : Packet} (pc' : Proc) (hj : ∀ id, J s g id) (hn : pcId s.proc = none)
    (hn' : pcId pc' = none) : ∀ id, J { s with proc := pc' } (gstep s g (.recv p)) id := by
  intro id
  by_cases hs : ∃ m d, p = .publish m d id ∧ m.qos = 2 ∧ g.ph id = .idle
  · obtain ⟨m, d, rfl, hq, hi⟩ := hs
    have hg : gstep s g (.recv (.publish m d id)) =
        { ph := upd g.ph id (.pub m), recS := upd g.recS id false, compS := upd g.compS id false, n := upd g.n id 0 } := by
      simp [gstep, hq, hi]
    rw [hg]
    exact J_frame (j_start m (hj id) hi (by rw [hn]; simp)) rfl rfl rfl rfl rfl (by rw [hn]; simp) (by simp [hn'])
  · obtain ⟨e1, e2, e3, e4⟩ := gstep_recv_other s g p id (by
      intro m d e hc; exact hs ⟨m, d, e, hc.1, hc.2⟩)
    exact J_frame (hj id) rfl e1 e2 e3 e4 (by rw [hn]; simp) (by simp [hn'])

/-- the processor reads a packet (or the read fails) -/
theorem j_recv {s s' : St} {g : G} {l : Label} {first : Bool} (hm : Mode s) (hj : ∀ id, J s g id)
    (hp : s.proc = .recv first) (h : stepProc Fix.repaired s l = some s') (ha : Allowed s g l) :
    ∀ id, J s' (gstep s g l) id := by
  have hn : pcId s.proc = none := by rw [hp]; rfl
  have hne := hm.early
  cases l with
  | recvErr =>
    simp [stepProc, hp] at h
    subst h; intro id
    exact J_frame (hj id) rfl rfl rfl rfl rfl (by rw [hn]; simp) (by simp [pcId])
  | recv p =>
    cases first with
    | true =>
      have : ∃ pc', s' = { s with proc := pc' } ∧ pcId pc' = none := by
        cases p <;> simp [stepProc, hp, procDie] at h <;> (subst h; exact ⟨_, rfl, rfl⟩)
      obtain ⟨pc', rfl, hn'⟩ := this
      exact j_recv_neutral pc' hj hn hn'
    | false =>
      by_cases hpub : ∃ m dup id', p = .publish m dup id'
      · obtain ⟨m, dup, id', rfl⟩ := hpub
        have hs' := recv_publish hp h
        by_cases hq : m.qos.toNat ≤ 1
        · rw [if_pos (Or.inl hq)] at hs'
          subst hs'
          exact j_recv_neutral (p := .publish m dup id') (.pubCb m dup id') hj hn rfl
        · rw [if_neg (by simp [hq, hne])] at hs'
          have hq2 : m.qos = 2 := by
            have h' := h
            simp [stepProc, hp] at h'
            have h3 : m.qos.toNat = 2 := by omega
            exact UInt8.toNat_inj.mp (by simpa using h3)
          subst hs'
          intro id
          by_cases e : id = id'
          · subst e
            rcases ha hq2 with hi | hpb
            · have hg : gstep s g (.recv (.publish m dup id)) =
                  { ph := upd g.ph id (.pub m), recS := upd g.recS id false, compS := upd g.compS id false, n := upd g.n id 0 } := by
                simp [gstep, hq2, hi]
              rw [hg]
              refine j_enter (.pubSave m dup id) (j_start m (hj id) hi (by rw [hn]; simp)) hn (by simp) (by simp) ?_ (by simp) (by simp) (by simp)
              intro m' d' e'; simp at e'; obtain ⟨rfl, _⟩ := e'; left; simp
            · have hg : gstep s g (.recv (.publish m dup id)) = g := by
                simp [gstep, hq2, hpb]
              rw [hg]
              refine j_enter (.pubSave m dup id) (hj id) hn (by simp) (by simp) ?_ (by simp) (by simp) (by simp)
              intro m' d' e'; simp at e'; obtain ⟨rfl, _⟩ := e'; left; exact hpb
          · obtain ⟨e1, e2, e3, e4⟩ := gstep_recv_other s g (.publish m dup id') id (by
              intro m' d' e'; simp at e'; exact absurd e'.2.2.symm e)
            exact J_frame (hj id) rfl e1 e2 e3 e4 (by rw [hn]; simp) (by simp [pcId]; exact fun e' => e e'.symm)
      · by_cases hrel : ∃ id', p = .pubrel id'
        · obtain ⟨id', rfl⟩ := hrel
          obtain ⟨hs', _⟩ := recv_pubrel hp h
          subst hs'
          have hg : gstep s g (.recv (.pubrel id')) = g := by simp [gstep]
          rw [hg]
          intro id
          by_cases e : id = id'
          · subst e
            refine j_enter (.relLook id) (hj id) hn (by simp) (by simp) (by simp) (by simp) ?_ (by simp)
            intro _; right; exact ha
          · exact J_frame (hj id) rfl rfl rfl rfl rfl (by rw [hn]; simp) (by simp [pcId]; exact fun e' => e e'.symm)
        · have : ∃ pc', s' = { s with proc := pc' } ∧ pcId pc' = none := by
            cases p <;> simp [stepProc, hp] at h <;> (first
              | (exact absurd ⟨_, _, _, rfl⟩ hpub)
              | (exact absurd ⟨_, rfl⟩ hrel)
              | (obtain ⟨_, h⟩ := h; subst h; exact ⟨_, rfl, rfl⟩)
              | (subst h; exact ⟨s.proc, rfl, hn⟩))
          obtain ⟨pc', rfl, hn'⟩ := this
          exact j_recv_neutral pc' hj hn hn'
  | _ => simp [stepProc, hp] at h

theorem inc_save_in_same (s : St) (p : Packet) (id : UInt16) (h : p.getID = some id) :
    (s.sess.savePacket .incoming p).lookupPacket .incoming id = some p := by
  simp [MemorySession.savePacket, MemorySession.lookupPacket, MemorySession.store, MemorySession.setStore,
    PacketStore.lookup_save _ _ _ _ h]
theorem inc_save_in_other (s : St) (p : Packet) (id k : UInt16) (h : p.getID = some k) (hne : id ≠ k) :
    (s.sess.savePacket .incoming p).lookupPacket .incoming id = s.sess.lookupPacket .incoming id := by
  simp [MemorySession.savePacket, MemorySession.lookupPacket, MemorySession.store, MemorySession.setStore,
    PacketStore.lookup_save _ _ _ _ h, hne]
theorem inc_del_in_same (s : St) (id : UInt16) :
    (s.sess.deletePacket .incoming id).lookupPacket .incoming id = none := by
  simp [MemorySession.deletePacket, MemorySession.lookupPacket, MemorySession.store, MemorySession.setStore,
    PacketStore.lookup_delete]
theorem inc_del_in_other (s : St) (id k : UInt16) (hne : id ≠ k) :
    (s.sess.deletePacket .incoming k).lookupPacket .incoming id = s.sess.lookupPacket .incoming id := by
  simp [MemorySession.deletePacket, MemorySession.lookupPacket, MemorySession.store, MemorySession.setStore,
    PacketStore.lookup_delete, hne]

/-- `pubSave`: the PUBLISH is stored -/
theorem j_pubSave {s s' : St} {g : G} {l : Label} {m : Message} {dup : Bool} {id' : UInt16} (hj : ∀ id, J s g id)
    (hp : s.proc = .pubSave m dup id') (h : stepProc Fix.repaired s l = some s') (ha : Allowed s g l) :
    ∀ id, J s' (gstep s g l) id := by
  obtain ⟨ok, rfl, h1, _⟩ := pubSave_step hp h
  have hok : ok = true := ha
  subst hok
  have hs' := h1 rfl
  subst hs'
  have hg : gstep s g (.sSave .proc .incoming (.publish m dup id') true) = g := rfl
  rw [hg]
  intro id
  by_cases e : id = id'
  · subst e
    have hjj := hj id
    have hf := hjj.f m dup hp
    have hst : inc { s with sess := s.sess.savePacket .incoming (.publish m dup id), proc := Proc.pubRec id } id
        = some (.publish m dup id) := inc_save_in_same s _ id rfl
    refine ⟨hjj.le, ?_, ?_, ?_, ?_, ?_, ?_, ?_, ?_, ?_⟩
    · intro hi; rcases hf with hf | ⟨hf, _⟩ <;> rw [hf] at hi <;> simp at hi
    · intro m' hm'
      obtain ⟨a1, a2, _⟩ := hjj.a m' hm'
      refine ⟨a1, a2, fun _ => ?_⟩
      rcases hf with hf | ⟨hf, _⟩
      · rw [hf] at hm'; simp at hm'; subst hm'; exact ⟨dup, id, hst⟩
      · rw [hf] at hm'; simp at hm'
    · intro m' hm'
      rcases hf with hf | ⟨hf, hn0⟩
      · rw [hf] at hm'; simp at hm'
      · rw [hf] at hm'; simp at hm'; subst hm'
        rcases hjj.b m hf with ⟨b1, b2, _⟩ | ⟨b1, _⟩
        · left; exact ⟨b1, b2, dup, id, hst⟩
        · rw [hn0] at b1; simp at b1
    · intro m' e'; simp at e'
    · intro e'; simp at e'
    · intro m' d' e'; simp at e'
    · intro _; exact ⟨m, dup, id, hf, hst⟩
    · intro e'; simp at e'
    · intro e'; simp at e'
  · refine J_frame (hj id) ?_ rfl rfl rfl rfl (by rw [hp]; simp [pcId]; exact fun e' => e e'.symm)
      (by simp [pcId]; exact fun e' => e e'.symm)
    exact inc_save_in_other s _ id id' rfl e

end ClientK1
