import Model.Broker
import Proofs.Session
import Proofs.SessionFresh
/-
  Proofs/BrokerOut.lean — helper lemmas for the outbound side of the broker model
  (properties C08, C15, C16): association lists, connection / session accessors, membership in
  `Res.bind`, the "view" of a state that the window invariant depends on.
-/

namespace BrokerB3
open BState

/-! ### association lists -/
section AssocLemmas
variable {κ α : Type} [DecidableEq κ]

theorem get_nil (k : κ) : Assoc.get ([] : List (κ × α)) k = none := rfl

theorem get_cons (e : κ × α) (l : List (κ × α)) (k : κ) :
    Assoc.get (e :: l) k = if e.1 = k then some e.2 else Assoc.get l k := by
  unfold Assoc.get
  by_cases h : e.1 = k
  · simp [h]
  · simp [h]

theorem get_append_single (l : List (κ × α)) (k k' : κ) (a : α) :
    Assoc.get (l ++ [(k, a)]) k' = (Assoc.get l k').or (if k = k' then some a else none) := by
  induction l with
  | nil => simp [get_cons, get_nil]
  | cons e l ih =>
    rw [List.cons_append, get_cons, get_cons, ih]
    split <;> simp

theorem any_eq_isSome (l : List (κ × α)) (k : κ) :
    l.any (fun e => decide (e.1 = k)) = (Assoc.get l k).isSome := by
  induction l with
  | nil => rfl
  | cons e l ih =>
    rw [List.any_cons, get_cons, ih]
    by_cases h : e.1 = k <;> simp [h]

theorem get_map_upd (l : List (κ × α)) (k k' : κ) (a : α) :
    Assoc.get (l.map (fun e => if e.1 = k then (k, a) else e)) k' =
      if k' = k then (Assoc.get l k).map (fun _ => a) else Assoc.get l k' := by
  induction l with
  | nil => simp [get_nil]
  | cons e l ih =>
    simp only [List.map_cons, get_cons, ih]
    by_cases h : e.1 = k
    · by_cases h' : k' = k
      · subst h'; simp [h]
      · have : ¬ k = k' := fun e => h' e.symm
        simp [h, h', this]
    · by_cases h' : k' = k
      · subst h'; simp [h]
      · simp [h, h']

theorem get_set_same (l : List (κ × α)) (k : κ) (a : α) :
    Assoc.get (Assoc.set l k a) k = some a := by
  unfold Assoc.set
  rw [any_eq_isSome]
  cases h : Assoc.get l k with
  | none => simp [get_append_single, h]
  | some v => simp [get_map_upd, h]

theorem get_set_other (l : List (κ × α)) (k k' : κ) (a : α) (hne : k' ≠ k) :
    Assoc.get (Assoc.set l k a) k' = Assoc.get l k' := by
  unfold Assoc.set
  have : ¬ k = k' := fun e => hne e.symm
  split
  · simp [get_map_upd, hne]
  · simp [get_append_single, this]

theorem get_set (l : List (κ × α)) (k k' : κ) (a : α) :
    Assoc.get (Assoc.set l k a) k' = if k' = k then some a else Assoc.get l k' := by
  by_cases h : k' = k
  · subst h; simp [get_set_same]
  · simp [h, get_set_other _ _ _ _ h]

theorem get_del (l : List (κ × α)) (k k' : κ) :
    Assoc.get (Assoc.del l k) k' = if k' = k then none else Assoc.get l k' := by
  induction l with
  | nil => simp [Assoc.del, get_nil]
  | cons e l ih =>
    unfold Assoc.del at ih ⊢
    by_cases he : e.1 = k
    · rw [List.filter_cons_of_neg (by simp [he]), ih, get_cons]
      by_cases hk : k' = k
      · simp [hk]
      · have : ¬ e.1 = k' := fun h => hk (h ▸ he)
        simp [hk, this]
    · rw [List.filter_cons_of_pos (by simp [he]), get_cons, get_cons, ih]
      by_cases hk : k' = k
      · subst hk; simp [he]
      · simp [hk]

theorem get_del_same (l : List (κ × α)) (k : κ) : Assoc.get (Assoc.del l k) k = none := by
  simp [get_del]

theorem get_del_other (l : List (κ × α)) (k k' : κ) (hne : k' ≠ k) :
    Assoc.get (Assoc.del l k) k' = Assoc.get l k' := by
  simp [get_del, hne]

end AssocLemmas

/-! ### `Res` -/

/-- every possible successor satisfies `P` (nothing is claimed for `unsupported`) -/
def RAll (P : BState → Prop) (r : Res) : Prop := ∀ ss, r = .ok ss → ∀ s' ∈ ss, P s'

theorem RAll_one {P : BState → Prop} {s : BState} (h : P s) : RAll P (Res.one s) := by
  intro ss e s' hm
  simp only [Res.one, Res.ok.injEq] at e
  subst e
  simp only [List.mem_singleton] at hm
  exact hm ▸ h

theorem RAll_unsupported {P : BState → Prop} (w : String) : RAll P (.unsupported w) := by
  intro ss e; cases e

theorem RAll_ok {P : BState → Prop} {l : List BState} (h : ∀ s ∈ l, P s) : RAll P (.ok l) := by
  intro ss e s' hm
  simp only [Res.ok.injEq] at e
  subst e
  exact h s' hm

theorem RAll_ok_iff {P : BState → Prop} {l : List BState} : RAll P (.ok l) ↔ ∀ s ∈ l, P s :=
  ⟨fun h s hs => h l rfl s hs, RAll_ok⟩

theorem RAll_mono {P Q : BState → Prop} {r : Res} (h : RAll P r) (hpq : ∀ s, P s → Q s) : RAll Q r :=
  fun ss e s' hm => hpq s' (h ss e s' hm)

/-- the folding step of `Res.bind` -/
def bindStep (f : BState → Res) (acc : Res) (s : BState) : Res :=
  match acc, f s with
  | .unsupported w, _ => .unsupported w
  | _, .unsupported w => .unsupported w
  | .ok a, .ok b => .ok (a ++ b)

theorem bind_ok_eq (ss : List BState) (f : BState → Res) :
    Res.bind (.ok ss) f = ss.foldl (bindStep f) (.ok []) := rfl

private theorem foldl_unsupported (f : BState → Res) (l : List BState) (w : String) :
    l.foldl (bindStep f) (.unsupported w) = .unsupported w := by
  induction l with
  | nil => rfl
  | cons a l ih => rw [List.foldl_cons]; exact ih

private theorem foldl_ok (f : BState → Res) (l : List BState) :
    ∀ (acc ss : List BState), l.foldl (bindStep f) (.ok acc) = .ok ss →
      ∀ s', s' ∈ ss ↔ (s' ∈ acc ∨ ∃ s0 ∈ l, ∃ ss1, f s0 = .ok ss1 ∧ s' ∈ ss1) := by
  induction l with
  | nil =>
    intro acc ss h s'
    simp only [List.foldl_nil, Res.ok.injEq] at h
    subst h
    simp
  | cons a l ih =>
    intro acc ss h s'
    rw [List.foldl_cons] at h
    cases hf : f a with
    | unsupported w =>
      simp only [bindStep, hf, foldl_unsupported] at h
      cases h
    | ok b =>
      simp only [bindStep, hf] at h
      rw [ih _ _ h s']
      simp only [List.mem_append, List.mem_cons, exists_eq_or_imp, hf, Res.ok.injEq,
        exists_eq_left']
      constructor
      · rintro ((h1 | h1) | h1)
        · exact Or.inl h1
        · exact Or.inr (Or.inl h1)
        · exact Or.inr (Or.inr h1)
      · rintro (h1 | h1 | h1)
        · exact Or.inl (Or.inl h1)
        · exact Or.inl (Or.inr h1)
        · exact Or.inr h1

/-- the successors of `r.bind f` are exactly the successors of `f` at the successors of `r` -/
theorem mem_bind {r : Res} {f : BState → Res} {ss : List BState} (h : Res.bind r f = .ok ss) :
    ∃ ss0, r = .ok ss0 ∧ ∀ s', s' ∈ ss ↔ ∃ s0 ∈ ss0, ∃ ss1, f s0 = .ok ss1 ∧ s' ∈ ss1 := by
  cases r with
  | unsupported w => cases h
  | ok ss0 =>
    refine ⟨ss0, rfl, fun s' => ?_⟩
    rw [bind_ok_eq] at h
    have := foldl_ok f ss0 [] ss h s'
    simpa using this

theorem RAll_bind {P Q : BState → Prop} {r : Res} {f : BState → Res}
    (hr : RAll Q r) (hf : ∀ s, Q s → RAll P (f s)) : RAll P (r.bind f) := by
  intro ss e s' hm
  obtain ⟨ss0, e0, hmem⟩ := mem_bind e
  obtain ⟨s0, h0, ss1, e1, h1⟩ := (hmem s').1 hm
  exact hf s0 (hr ss0 e0 s0 h0) ss1 e1 s' h1

/-! ### connections and sessions -/

theorem conn?_setConn (s : BState) (c c' : ConnId) (x : BConn) :
    (s.setConn c x).conn? c' = if c' = c then some x else s.conn? c' :=
  get_set _ _ _ _

theorem conn?_setConn_same (s : BState) (c : ConnId) (x : BConn) :
    (s.setConn c x).conn? c = some x := get_set_same _ _ _

theorem conn?_setConn_other (s : BState) (c c' : ConnId) (x : BConn) (h : c' ≠ c) :
    (s.setConn c x).conn? c' = s.conn? c' := get_set_other _ _ _ _ h

theorem updConn_some {s : BState} {c : ConnId} {x : BConn} (f : BConn → BConn)
    (h : s.conn? c = some x) : s.updConn c f = s.setConn c (f x) := by
  unfold updConn; rw [h]

theorem updConn_none {s : BState} {c : ConnId} (f : BConn → BConn)
    (h : s.conn? c = none) : s.updConn c f = s := by
  unfold updConn; rw [h]

/-- the session a reference points to -/
def sessAt (s : BState) (c : ConnId) : SessRef → Option BSess
  | .none => none
  | .temp => Assoc.get s.temp c
  | .stored id => Assoc.get s.stored id

theorem sessOf_some {s : BState} {c : ConnId} {x : BConn} (h : s.conn? c = some x) :
    s.sessOf c = sessAt s c x.sref := by
  unfold sessOf; rw [h]; simp only []; split <;> simp_all [sessAt]

theorem sessOf_none {s : BState} {c : ConnId} (h : s.conn? c = none) : s.sessOf c = none := by
  unfold sessOf; rw [h]

theorem sessOf_conn {s : BState} {c : ConnId} {b : BSess} (h : s.sessOf c = some b) :
    ∃ x, s.conn? c = some x ∧ sessAt s c x.sref = some b := by
  cases hx : s.conn? c with
  | none => rw [sessOf_none hx] at h; cases h
  | some x => exact ⟨x, rfl, by rw [← sessOf_some hx]; exact h⟩

/-- write a session through a reference -/
def setSessAt (s : BState) (c : ConnId) (b : BSess) : SessRef → BState
  | .none => s
  | .temp => { s with temp := Assoc.set s.temp c b }
  | .stored id => { s with stored := Assoc.set s.stored id b }

theorem setSessOf_some {s : BState} {c : ConnId} {x : BConn} (b : BSess) (h : s.conn? c = some x) :
    s.setSessOf c b = setSessAt s c b x.sref := by
  unfold setSessOf; rw [h]; simp only []; split <;> simp_all [setSessAt]

theorem setSessOf_none {s : BState} {c : ConnId} (b : BSess) (h : s.conn? c = none) :
    s.setSessOf c b = s := by
  unfold setSessOf; rw [h]

@[simp] theorem setSessAt_conns (s : BState) (c : ConnId) (b : BSess) (r : SessRef) :
    (setSessAt s c b r).conns = s.conns := by cases r <;> rfl
@[simp] theorem setSessAt_cfg (s : BState) (c : ConnId) (b : BSess) (r : SessRef) :
    (setSessAt s c b r).cfg = s.cfg := by cases r <;> rfl

@[simp] theorem setSessOf_conns (s : BState) (c : ConnId) (b : BSess) :
    (s.setSessOf c b).conns = s.conns := by
  cases h : s.conn? c with
  | none => rw [setSessOf_none b h]
  | some x => rw [setSessOf_some b h, setSessAt_conns]

@[simp] theorem setSessOf_cfg (s : BState) (c : ConnId) (b : BSess) :
    (s.setSessOf c b).cfg = s.cfg := by
  cases h : s.conn? c with
  | none => rw [setSessOf_none b h]
  | some x => rw [setSessOf_some b h, setSessAt_cfg]

@[simp] theorem setSessOf_conn? (s : BState) (c c' : ConnId) (b : BSess) :
    (s.setSessOf c b).conn? c' = s.conn? c' := by
  unfold conn?; rw [setSessOf_conns]

@[simp] theorem setConn_cfg (s : BState) (c : ConnId) (x : BConn) : (s.setConn c x).cfg = s.cfg := rfl
@[simp] theorem setConn_stored (s : BState) (c : ConnId) (x : BConn) : (s.setConn c x).stored = s.stored := rfl
@[simp] theorem setConn_temp (s : BState) (c : ConnId) (x : BConn) : (s.setConn c x).temp = s.temp := rfl

@[simp] theorem updConn_cfg (s : BState) (c : ConnId) (f : BConn → BConn) : (s.updConn c f).cfg = s.cfg := by
  unfold updConn; split <;> rfl
@[simp] theorem updConn_stored (s : BState) (c : ConnId) (f : BConn → BConn) :
    (s.updConn c f).stored = s.stored := by
  unfold updConn; split <;> rfl
@[simp] theorem updConn_temp (s : BState) (c : ConnId) (f : BConn → BConn) :
    (s.updConn c f).temp = s.temp := by
  unfold updConn; split <;> rfl

theorem conn?_updConn (s : BState) (c c' : ConnId) (f : BConn → BConn) :
    (s.updConn c f).conn? c' = if c' = c then (s.conn? c).map f else s.conn? c' := by
  cases h : s.conn? c with
  | none =>
    rw [updConn_none f h]
    by_cases hc : c' = c
    · subst hc; simp [h]
    · simp [hc]
  | some x =>
    rw [updConn_some f h, conn?_setConn]
    by_cases hc : c' = c <;> simp [hc]

/-- the session of `c` read after `c`'s own session was written -/
theorem sessOf_setSessOf_same {s : BState} {c : ConnId} {b0 : BSess} (b : BSess)
    (h : s.sessOf c = some b0) : (s.setSessOf c b).sessOf c = some b := by
  obtain ⟨x, hx, hb⟩ := sessOf_conn h
  have hx' : (s.setSessOf c b).conn? c = some x := by rw [setSessOf_conn?]; exact hx
  rw [sessOf_some hx', setSessOf_some b hx]
  cases hr : x.sref with
  | none => rw [hr] at hb; cases hb
  | temp => exact get_set_same _ _ _
  | stored id => exact get_set_same _ _ _

/-! ### the dequeuer: `acceptDelivery` decomposed -/

/-- the dequeuer pops a message that, capped with the subscription in force, equals `m`: the head
    of the stored queue, or a member of the first group of the temporary queue -/
inductive Pop (b : BSess) (m : Message) : BSess → Prop where
  | stored (h : Message) (rest : List Message) : b.storedQ = h :: rest → applyQOS b h = m →
      Pop b m { b with storedQ := rest }
  | temp (g : Nat) (m0 : Message) (tl : List (Nat × Message)) (e : Nat × Message) :
      b.tempQ = (g, m0) :: tl → e ∈ b.tempQ.takeWhile (fun e => decide (e.1 = g)) →
      applyQOS b e.2 = m → Pop b m { b with tempQ := b.tempQ.erase e }

/-- state after delivering a QoS 0 message: token put back (non-blocking), next one taken -/
def finishQ0 (s : BState) (c : ConnId) (x : BConn) (bq : BSess) : BState :=
  (s.setSessOf c bq).setConn c
    (retake { x with deqHand := false, deqChan := min s.cfg.window (x.deqChan + 1) })

/-- state after delivering a QoS 1/2 message: id allocated, packet saved, token kept -/
def finishQ12 (s : BState) (c : ConnId) (x : BConn) (bq : BSess) (m : Message) (id : UInt16) : BState :=
  (s.setSessOf c { bq with sess := (bq.sess.freshID.2).savePacket .outgoing (.publish m false id) }).setConn c
    (retake { x with deqHand := false })

/-- outcome of the dequeuer's bookkeeping after the pop -/
def Finished (s : BState) (c : ConnId) (x : BConn) (bq : BSess) (m : Message) (id : UInt16)
    (s' : BState) : Prop :=
  (m.qos = 0 ∧ id = 0 ∧ s' = finishQ0 s c x bq) ∨
  (m.qos ≠ 0 ∧ (bq.sess.freshID.1 ≠ 0 ∧ bq.sess.freshID.1 = id) ∧ s' = finishQ12 s c x bq m id)

theorem acceptDelivery_cases {s : BState} {c : ConnId} {x : BConn} {b : BSess} {m : Message}
    {id : UInt16} {s' : BState} (h : acceptDelivery s c x b m id = some s') :
    x.deqHand = true ∧ ∃ bq, Pop b m bq ∧ Finished s c x bq m id s' := by
  unfold acceptDelivery at h
  cases hh : x.deqHand
  · simp [hh] at h
  refine ⟨rfl, ?_⟩
  simp only [hh, Bool.not_true, Bool.false_eq_true, if_false] at h
  -- the bookkeeping
  have fin : ∀ bq : BSess,
      (if m.qos = 0 then
        if id ≠ 0 then none
        else some ((s.setSessOf c bq).setConn c
          (retake { x with deqHand := false, deqChan := min s.cfg.window (x.deqChan + 1) }))
      else
        if bq.sess.freshID.1 = 0 then none else
        if bq.sess.freshID.1 ≠ id then none
        else some ((s.setSessOf c { bq with sess := (bq.sess.freshID.2).savePacket .outgoing (.publish m false id) }).setConn c
          (retake { x with deqHand := false }))) = some s' → Finished s c x bq m id s' := by
    intro bq hf
    by_cases hq : m.qos = 0
    · rw [if_pos hq] at hf
      by_cases hi : id = 0
      · simp only [hi, ne_eq, not_true_eq_false, if_false, Option.some.injEq] at hf
        exact Or.inl ⟨hq, hi, hf.symm⟩
      · simp [hi] at hf
    · rw [if_neg hq] at hf
      by_cases hz : bq.sess.freshID.1 = 0
      · rw [if_pos hz] at hf; cases hf
      rw [if_neg hz] at hf
      by_cases hi : bq.sess.freshID.1 = id
      · simp only [hi, ne_eq, not_true_eq_false, if_false, Option.some.injEq] at hf
        exact Or.inr ⟨hq, ⟨hz, hi⟩, hf.symm⟩
      · simp [hi] at hf
  split at h
  · -- from the stored queue
    rename_i s1 hs1
    cases h
    split at hs1
    · rename_i hd rest hq
      split at hs1
      · rename_i ha
        exact ⟨_, Pop.stored hd rest hq ha, fin _ hs1⟩
      · cases hs1
    · cases hs1
  · -- from the temporary queue
    split at h
    · cases h
    · rename_i g m0 tl hq
      split at h
      · rename_i e he
        have hmem := List.mem_of_find?_eq_some he
        have hp := List.find?_some he
        simp only [decide_eq_true_eq] at hp
        rw [hq] at hmem
        exact ⟨_, Pop.temp g m0 tl e hq (hq ▸ hmem) hp, fin _ h⟩
      · cases h

/-! ### `observeSent` decomposed -/

theorem popIf_some {l rest : List Packet} {p : Packet} (h : popIf l p = some rest) : l = p :: rest := by
  unfold popIf at h
  split at h
  · split at h
    · rename_i hd tl he
      cases h
      rw [he]
    · cases h
  · cases h

/-- the three ways a written packet is accounted for: processor output, acker output, dequeuer -/
inductive SentBy (s : BState) (c : ConnId) (p : Packet) (x : BConn) (s' : BState) : Prop where
  | proc (rest : List Packet) : x.procOut = p :: rest → s' = s.setConn c { x with procOut := rest } →
      SentBy s c p x s'
  | ack (rest : List Packet) : x.ackOut = p :: rest →
      s' = s.setConn c (ackSent { x with ackOut := rest } s.cfg p) → SentBy s c p x s'
  | deq (m : Message) (id : UInt16) (b : BSess) : p = .publish m false id → s.sessOf c = some b →
      x.alive = true → acceptDelivery s c x b m id = some s' → SentBy s c p x s'

theorem observeSent_cases {s : BState} {c : ConnId} {p : Packet} {s' : BState}
    (h : observeSent s c p = some s') :
    ∃ x, s.conn? c = some x ∧ x.closedSeen = false ∧ SentBy s c p x s' := by
  unfold observeSent at h
  split at h
  · cases h
  · rename_i x hx
    rcases Bool.eq_false_or_eq_true x.closedSeen with hcs | hcs
    · rw [if_pos hcs] at h; cases h
    refine ⟨x, hx, hcs, ?_⟩
    rw [if_neg (by simp [hcs])] at h
    split at h
    · rename_i rest hp
      cases h
      exact SentBy.proc rest (popIf_some hp) rfl
    · split at h
      · rename_i rest hp
        cases h
        exact SentBy.ack rest (popIf_some hp) rfl
      · split at h
        · rename_i m id b hb _ _
          split at h
          · rename_i ha
            exact SentBy.deq m id b rfl hb ha h
          · cases h
        · cases h

/-! ### the dying dequeuer, `cleanup`, `kill` decomposed -/

/-- bookkeeping of the dying dequeuer for the message it popped -/
def lastTake (s : BState) (c : ConnId) (bq : BSess) (out : Message) : BState :=
  if out.qos = 0 then s.setSessOf c bq
  else if bq.sess.freshID.1 = 0 then s.setSessOf c { bq with sess := bq.sess.freshID.2 }
  else s.setSessOf c { bq with sess :=
    (bq.sess.freshID.2).savePacket .outgoing (.publish out false bq.sess.freshID.1) }

theorem lastDequeue_cases {s : BState} {c : ConnId} {x : BConn} {s1 : BState}
    (h : s1 ∈ lastDequeue s c x) :
    s1 = s ∨ (x.running = true ∧ x.deqHand = true ∧
      ∃ b out bq, s.sessOf c = some b ∧ Pop b out bq ∧ s1 = lastTake s c bq out) := by
  unfold lastDequeue at h
  split at h
  · exact Or.inl (List.mem_singleton.1 h)
  · rename_i hrun
    simp only [Bool.not_eq_true', Bool.decide_and, Bool.decide_eq_true, Bool.and_eq_false_imp,
      Bool.not_eq_false, Classical.not_imp] at hrun
    split at h
    · exact Or.inl (List.mem_singleton.1 h)
    · rename_i b hb
      simp only [List.mem_cons, List.mem_append] at h
      rcases h with h | h | h
      · exact Or.inl h
      · refine Or.inr ⟨hrun.1, hrun.2, b, ?_⟩
        split at h
        · rename_i hd rest hq
          simp only [List.mem_singleton] at h
          exact ⟨applyQOS b hd, _, hb, Pop.stored hd rest hq rfl, h⟩
        · cases h
      · refine Or.inr ⟨hrun.1, hrun.2, b, ?_⟩
        split at h
        · cases h
        · rename_i g m0 tl hq
          simp only [List.mem_map] at h
          obtain ⟨e, he, rfl⟩ := h
          exact ⟨applyQOS b e.2, _, hb, Pop.temp g m0 tl e hq (hq ▸ he) rfl, rfl⟩

/-- the will part of `cleanup` -/
def WillPublished (s : BState) (c : ConnId) (x : BConn) (s1 : BState) : Prop :=
  s1 = s ∨ (x.phase = .connected ∧ ∃ w, x.will = some w ∧
    (backendPublish s c w = .ok s1 ∨ backendPublish s c w = .queueFull s1))

theorem cleanup_cases {s : BState} {c : ConnId} {x : BConn} {ss : List BState} {s' : BState}
    (h : cleanup s c x = .ok ss) (hm : s' ∈ ss) :
    ∃ s1, WillPublished s c x s1 ∧
      s' = if x.phase ≠ .connecting then backendTerminate s1 c else s1 := by
  unfold cleanup at h
  obtain ⟨ss0, e0, hmem⟩ := mem_bind h
  obtain ⟨s1, h1, ss1, e1, hs'⟩ := (hmem s').1 hm
  refine ⟨s1, ?_, ?_⟩
  · split at e0
    · rename_i w hph hw
      split at e0
      · rename_i s2 hp
        simp only [Res.one, Res.ok.injEq] at e0
        subst e0
        simp only [List.mem_singleton] at h1
        subst h1
        exact Or.inr ⟨hph, w, hw, Or.inl hp⟩
      · rename_i s2 hp
        simp only [Res.one, Res.ok.injEq] at e0
        subst e0
        simp only [List.mem_singleton] at h1
        subst h1
        exact Or.inr ⟨hph, w, hw, Or.inr hp⟩
      · cases e0
    · simp only [Res.one, Res.ok.injEq] at e0
      subst e0
      simp only [List.mem_singleton] at h1
      exact Or.inl h1
  · split at e1
    · rename_i hph
      simp only [Res.one, Res.ok.injEq] at e1
      subst e1
      simp only [List.mem_singleton] at hs'
      rw [if_pos hph]; exact hs'
    · rename_i hph
      simp only [Res.one, Res.ok.injEq] at e1
      subst e1
      simp only [List.mem_singleton] at hs'
      rw [if_neg hph]; exact hs'

/-- the successors of `kill` -/
inductive Killed (s : BState) (c : ConnId) (s' : BState) : Prop where
  | noop : (s.conn? c = none ∨ ∃ x, s.conn? c = some x ∧ x.alive = false) → s' = s → Killed s c s'
  | zombie (x : BConn) (s1 : BState) : s.conn? c = some x → x.alive = true → s1 ∈ lastDequeue s c x →
      x.stalled = true →
      s' = s1.setConn c { x with alive := false, running := false, zombie := true } → Killed s c s'
  | dead (x : BConn) (s1 s2 : BState) : s.conn? c = some x → x.alive = true → s1 ∈ lastDequeue s c x →
      x.stalled = false →
      WillPublished (s1.setConn c { x with alive := false, running := false }) c x s2 →
      s' = (if x.phase ≠ .connecting then backendTerminate s2 c else s2) → Killed s c s'

theorem kill_cases {s : BState} {c : ConnId} {ss : List BState} {s' : BState}
    (h : kill s c = .ok ss) (hm : s' ∈ ss) : Killed s c s' := by
  unfold kill at h
  split at h
  · rename_i hx
    simp only [Res.one, Res.ok.injEq] at h
    subst h
    exact Killed.noop (Or.inl hx) (List.mem_singleton.1 hm)
  · rename_i x hx
    cases ha : x.alive
    · simp only [ha, Bool.not_false, if_true, Res.one, Res.ok.injEq] at h
      subst h
      exact Killed.noop (Or.inr ⟨x, hx, ha⟩) (List.mem_singleton.1 hm)
    · simp only [ha, Bool.not_true, Bool.false_eq_true, if_false] at h
      obtain ⟨ss0, e0, hmem⟩ := mem_bind h
      obtain ⟨s1, h1, ss1, e1, hs'⟩ := (hmem s').1 hm
      simp only [Res.ok.injEq] at e0
      subst e0
      rcases Bool.eq_false_or_eq_true x.stalled with hst | hst
      · rw [if_pos hst] at e1
        simp only [Res.one, Res.ok.injEq] at e1
        subst e1
        exact Killed.zombie x s1 hx ha h1 hst (List.mem_singleton.1 hs')
      · rw [if_neg (by simp [hst])] at e1
        obtain ⟨s2, hw, he⟩ := cleanup_cases e1 hs'
        exact Killed.dead x s1 s2 hx ha h1 hst hw he

/-! ### fan-out of a publish -/

/-- what a completed fan-out does to one session: a matching session gets the message appended to
    the queue of its class if there is room (a full queue that did not stop the fan-out belongs to
    an offline session: the message is dropped) -/
def fanOne (cfg : Cfg) (m : Message) (g : Nat) (b : BSess) : BSess :=
  if (subQos b m.topic).isSome then
    match enqueue cfg b m g with
    | .ok b' => b'
    | .full => b
  else b

def fanMap {κ : Type} (cfg : Cfg) (m : Message) (g : Nat) (l : List (κ × BSess)) : List (κ × BSess) :=
  l.map (fun e => (e.1, fanOne cfg m g e.2))

theorem get_fanMap {κ : Type} [DecidableEq κ] (cfg : Cfg) (m : Message) (g : Nat)
    (l : List (κ × BSess)) (k : κ) :
    Assoc.get (fanMap cfg m g l) k = (Assoc.get l k).map (fanOne cfg m g) := by
  induction l with
  | nil => rfl
  | cons e l ih =>
    unfold fanMap at ih ⊢
    rw [List.map_cons, get_cons, get_cons, ih]
    split <;> rfl

/-- a fan-out that may have stopped early (own queue full): a prefix was processed -/
def FanPrefix {κ : Type} (cfg : Cfg) (m : Message) (g : Nat) (l l' : List (κ × BSess)) : Prop :=
  ∃ pre post, l = pre ++ post ∧ l' = fanMap cfg m g pre ++ post

theorem FanPrefix.get {κ : Type} [DecidableEq κ] {cfg : Cfg} {m : Message} {g : Nat}
    {l l' : List (κ × BSess)} (h : FanPrefix cfg m g l l') (k : κ) :
    Assoc.get l' k = Assoc.get l k ∨ Assoc.get l' k = (Assoc.get l k).map (fanOne cfg m g) := by
  obtain ⟨pre, post, rfl, rfl⟩ := h
  induction pre with
  | nil => exact Or.inl rfl
  | cons e pre ih =>
    simp only [fanMap, List.map_cons, List.cons_append, get_cons] at ih ⊢
    by_cases hk : e.1 = k
    · simp [hk]
    · simpa [hk] using ih

theorem fanStored_spec (cfg : Cfg) (c : ConnId) (m : Message) (g : Nat) :
    ∀ (l acc l' : List (ClientId × BSess)) (fl : Bool), fanStored cfg c m g l acc = .ok (l', fl) →
      (fl = false → l' = acc.reverse ++ fanMap cfg m g l) ∧
      ∃ pre post, l = pre ++ post ∧ l' = acc.reverse ++ fanMap cfg m g pre ++ post := by
  intro l
  induction l with
  | nil =>
    intro acc l' fl h
    simp only [fanStored, Except.ok.injEq, Prod.mk.injEq] at h
    obtain ⟨rfl, rfl⟩ := h
    exact ⟨fun _ => by simp [fanMap], [], [], rfl, by simp [fanMap]⟩
  | cons e rest ih =>
    intro acc l' fl h
    obtain ⟨k, b⟩ := e
    simp only [fanStored] at h
    have step : ∀ b', fanOne cfg m g b = b' → fanStored cfg c m g rest ((k, b') :: acc) = .ok (l', fl) →
        (fl = false → l' = acc.reverse ++ fanMap cfg m g ((k, b) :: rest)) ∧
        ∃ pre post, (k, b) :: rest = pre ++ post ∧ l' = acc.reverse ++ fanMap cfg m g pre ++ post := by
      intro b' hb' hr
      obtain ⟨h1, pre, post, h2, h3⟩ := ih _ _ _ hr
      refine ⟨fun hf => ?_, (k, b) :: pre, post, by rw [h2]; rfl, ?_⟩
      · rw [h1 hf]; simp [fanMap, hb']
      · rw [h3]; simp [fanMap, hb']
    split at h
    · rename_i hs
      split at h
      · rename_i b' he
        exact step b' (by simp [fanOne, hs, he]) h
      · rename_i he
        split at h
        · simp only [Except.ok.injEq, Prod.mk.injEq] at h
          obtain ⟨rfl, rfl⟩ := h
          exact ⟨fun hf => (by cases hf), [], (k, b) :: rest, rfl, by simp [fanMap]⟩
        · split at h
          · cases h
          · exact step b (by simp [fanOne, hs, he]) h
    · rename_i hs
      exact step b (by simp [fanOne, hs]) h

theorem fanTemp_spec (cfg : Cfg) (c : ConnId) (m : Message) (g : Nat) :
    ∀ (l acc l' : List (ConnId × BSess)) (fl : Bool), fanTemp cfg c m g l acc = .ok (l', fl) →
      (fl = false → l' = acc.reverse ++ fanMap cfg m g l) ∧
      ∃ pre post, l = pre ++ post ∧ l' = acc.reverse ++ fanMap cfg m g pre ++ post := by
  intro l
  induction l with
  | nil =>
    intro acc l' fl h
    simp only [fanTemp, Except.ok.injEq, Prod.mk.injEq] at h
    obtain ⟨rfl, rfl⟩ := h
    exact ⟨fun _ => by simp [fanMap], [], [], rfl, by simp [fanMap]⟩
  | cons e rest ih =>
    intro acc l' fl h
    obtain ⟨k, b⟩ := e
    simp only [fanTemp] at h
    have step : ∀ b', fanOne cfg m g b = b' → fanTemp cfg c m g rest ((k, b') :: acc) = .ok (l', fl) →
        (fl = false → l' = acc.reverse ++ fanMap cfg m g ((k, b) :: rest)) ∧
        ∃ pre post, (k, b) :: rest = pre ++ post ∧ l' = acc.reverse ++ fanMap cfg m g pre ++ post := by
      intro b' hb' hr
      obtain ⟨h1, pre, post, h2, h3⟩ := ih _ _ _ hr
      refine ⟨fun hf => ?_, (k, b) :: pre, post, by rw [h2]; rfl, ?_⟩
      · rw [h1 hf]; simp [fanMap, hb']
      · rw [h3]; simp [fanMap, hb']
    split at h
    · rename_i hs
      split at h
      · rename_i b' he
        exact step b' (by simp [fanOne, hs, he]) h
      · rename_i he
        split at h
        · simp only [Except.ok.injEq, Prod.mk.injEq] at h
          obtain ⟨rfl, rfl⟩ := h
          exact ⟨fun hf => (by cases hf), [], (k, b) :: rest, rfl, by simp [fanMap]⟩
        · cases h
    · rename_i hs
      exact step b (by simp [fanOne, hs]) h

/-- the state in which the fan-out of `backendPublish` runs -/
def pubPre (s : BState) (c : ConnId) (m : Message) : BState :=
  let s := { s with bevents := s.bevents ++ [BEvent.publish c m] }
  let s := if m.retain then
      (if m.payload.length > 0 then
        { s with retained := Tree.set m.topic s.rmsgs.length s.retained, rmsgs := s.rmsgs ++ [m] }
      else { s with retained := Tree.emptyTopic m.topic s.retained })
    else s
  { s with nextGroup := s.nextGroup + 1 }

theorem pubPre_conns (s : BState) (c : ConnId) (m : Message) : (pubPre s c m).conns = s.conns := by
  unfold pubPre; simp only []; split
  · split <;> rfl
  · rfl
theorem pubPre_cfg (s : BState) (c : ConnId) (m : Message) : (pubPre s c m).cfg = s.cfg := by
  unfold pubPre; simp only []; split
  · split <;> rfl
  · rfl
theorem pubPre_stored (s : BState) (c : ConnId) (m : Message) : (pubPre s c m).stored = s.stored := by
  unfold pubPre; simp only []; split
  · split <;> rfl
  · rfl
theorem pubPre_temp (s : BState) (c : ConnId) (m : Message) : (pubPre s c m).temp = s.temp := by
  unfold pubPre; simp only []; split
  · split <;> rfl
  · rfl
theorem pubPre_nextGroup (s : BState) (c : ConnId) (m : Message) :
    (pubPre s c m).nextGroup = s.nextGroup + 1 := by
  unfold pubPre; simp only []; split
  · split <;> rfl
  · rfl

theorem backendPublish_eq (s : BState) (c : ConnId) (m : Message) :
    backendPublish s c m =
      (match fanTemp s.cfg c { m with retain := false } s.nextGroup s.temp [] with
       | .error e => .unsupported e
       | .ok (temp', full1) =>
         if full1 then .queueFull { pubPre s c m with temp := temp' } else
         match fanStored s.cfg c { m with retain := false } s.nextGroup s.stored [] with
         | .error e => .unsupported e
         | .ok (stored', full2) =>
           if full2 then .queueFull { pubPre s c m with temp := temp', stored := stored' }
           else .ok { pubPre s c m with temp := temp', stored := stored' }) := by
  unfold backendPublish pubPre
  by_cases hr : m.retain = true
  · by_cases hp : m.payload.length > 0
    · simp only [hr, hp, if_true]; rfl
    · simp only [hr, hp, if_true, if_false]; rfl
  · simp only [hr]; rfl

/-- `backendPublish` decomposed: the message (retain flag cleared) is fanned out with the group
    number `s.nextGroup` over the temporary, then the stored sessions; a fan-out that completed
    processed every session -/
theorem backendPublish_cases {s : BState} {c : ConnId} {m : Message} {s' : BState} {full : Bool}
    (h : backendPublish s c m = (if full then Res1.queueFull s' else Res1.ok s')) :
    ∃ temp' stored', s' = { pubPre s c m with temp := temp', stored := stored' } ∧
      FanPrefix s.cfg { m with retain := false } s.nextGroup s.temp temp' ∧
      FanPrefix s.cfg { m with retain := false } s.nextGroup s.stored stored' ∧
      (full = false → temp' = fanMap s.cfg { m with retain := false } s.nextGroup s.temp ∧
        stored' = fanMap s.cfg { m with retain := false } s.nextGroup s.stored) := by
  rw [backendPublish_eq] at h
  split at h
  · cases full <;> cases h
  · rename_i temp' full1 ht
    obtain ⟨ht1, pre, post, ht2, ht3⟩ := fanTemp_spec _ _ _ _ _ _ _ _ ht
    have hft : FanPrefix s.cfg { m with retain := false } s.nextGroup s.temp temp' :=
      ⟨pre, post, ht2, by simpa using ht3⟩
    cases full1
    · simp only [Bool.false_eq_true, if_false] at h
      split at h
      · cases full <;> cases h
      · rename_i stored' full2 hs
        obtain ⟨hs1, pre', post', hs2, hs3⟩ := fanStored_spec _ _ _ _ _ _ _ _ hs
        have hfs : FanPrefix s.cfg { m with retain := false } s.nextGroup s.stored stored' :=
          ⟨pre', post', hs2, by simpa using hs3⟩
        cases full2
        · cases full
          · simp only [Bool.false_eq_true, if_false, Res1.ok.injEq] at h
            refine ⟨temp', stored', h.symm, hft, hfs, fun _ => ⟨by simpa using ht1 rfl, by simpa using hs1 rfl⟩⟩
          · simp at h
        · cases full
          · simp at h
          · simp only [if_true, Res1.queueFull.injEq] at h
            exact ⟨temp', stored', h.symm, hft, hfs, fun hf => by cases hf⟩
    · cases full
      · simp at h
      · simp only [if_true, Res1.queueFull.injEq] at h
        refine ⟨temp', s.stored, ?_, hft, ⟨[], s.stored, rfl, rfl⟩, fun hf => by cases hf⟩
        rw [← h, pubPre_stored]

/-! ### frames for sessions -/

theorem sessAt_setConn (s : BState) (c c2 : ConnId) (x : BConn) (r : SessRef) :
    sessAt (s.setConn c x) c2 r = sessAt s c2 r := by cases r <;> rfl

/-- replacing a connection record by one with the same session reference changes no session -/
theorem sessOf_setConn_same_sref {s : BState} {c : ConnId} {x x' : BConn} (hx : s.conn? c = some x)
    (hs : x'.sref = x.sref) (c2 : ConnId) : (s.setConn c x').sessOf c2 = s.sessOf c2 := by
  by_cases h : c2 = c
  · subst h
    rw [sessOf_some (conn?_setConn_same s c2 x'), sessOf_some hx, sessAt_setConn, hs]
  · cases h2 : s.conn? c2 with
    | none =>
      rw [sessOf_none h2, sessOf_none (by rw [conn?_setConn_other _ _ _ _ h]; exact h2)]
    | some x2 =>
      rw [sessOf_some h2, sessOf_some (by rw [conn?_setConn_other _ _ _ _ h]; exact h2), sessAt_setConn]

theorem get_stored_setSessOf {s : BState} {c : ConnId} {x : BConn} (b' : BSess)
    (hx : s.conn? c = some x) (cid : ClientId) :
    Assoc.get (s.setSessOf c b').stored cid =
      if x.sref = .stored cid then some b' else Assoc.get s.stored cid := by
  rw [setSessOf_some b' hx]
  cases hr : x.sref with
  | none => simp [setSessAt]
  | temp => simp [setSessAt]
  | stored id =>
    simp only [setSessAt, get_set, SessRef.stored.injEq]
    by_cases h : cid = id
    · subst h; simp
    · have : ¬ id = cid := fun e => h e.symm
      simp [h, this]

theorem get_temp_setSessOf {s : BState} {c : ConnId} {x : BConn} (b' : BSess)
    (hx : s.conn? c = some x) (k : ConnId) :
    Assoc.get (s.setSessOf c b').temp k =
      if x.sref = .temp ∧ k = c then some b' else Assoc.get s.temp k := by
  rw [setSessOf_some b' hx]
  cases hr : x.sref with
  | none => simp [setSessAt]
  | stored id => simp [setSessAt]
  | temp =>
    simp only [setSessAt, get_set, true_and]

/-- the session of `c` after its session and then its connection record (same reference) were written -/
theorem sessOf_upd_same {s : BState} {c : ConnId} {x x' : BConn} {b0 : BSess} (b' : BSess)
    (hx : s.conn? c = some x) (hb : s.sessOf c = some b0) (hs : x'.sref = x.sref) :
    ((s.setSessOf c b').setConn c x').sessOf c = some b' := by
  have hx' : (s.setSessOf c b').conn? c = some x := by rw [setSessOf_conn?]; exact hx
  rw [sessOf_setConn_same_sref hx' hs]
  exact sessOf_setSessOf_same b' hb

/-! ### packet store -/

theorem mem_erase (l : List (UInt16 × Packet)) (id : UInt16) (e : UInt16 × Packet) :
    e ∈ PacketStore.erase l id ↔ e ∈ l ∧ e.1 ≠ id := by
  simp [PacketStore.erase]

theorem length_erase_le (l : List (UInt16 × Packet)) (id : UInt16) :
    (PacketStore.erase l id).length ≤ l.length := List.length_filter_le _ _

theorem length_erase_lt (l : List (UInt16 × Packet)) (id : UInt16) (h : id ∈ l.map (·.1)) :
    (PacketStore.erase l id).length < l.length := by
  obtain ⟨e, he, rfl⟩ := List.mem_map.1 h
  unfold PacketStore.erase
  apply List.length_filter_lt_length_iff_exists.2
  exact ⟨e, he, by simp⟩

/-- with unique keys, deleting a present id removes exactly one entry -/
theorem length_erase_of_nodup (l : List (UInt16 × Packet)) (id : UInt16) (hn : (l.map (·.1)).Nodup)
    (h : id ∈ l.map (·.1)) : (PacketStore.erase l id).length + 1 = l.length := by
  induction l with
  | nil => cases h
  | cons e l ih =>
    rw [List.map_cons, List.nodup_cons] at hn
    unfold PacketStore.erase at ih ⊢
    by_cases he : e.1 = id
    · rw [List.filter_cons_of_neg (by simp [he])]
      have : List.filter (fun e => e.1 != id) l = l := by
        apply List.filter_eq_self.2
        intro a ha
        have : a.1 ≠ id := by
          intro e'
          exact hn.1 (by rw [he, ← e']; exact List.mem_map.2 ⟨a, ha, rfl⟩)
        simpa using this
      rw [this]; rfl
    · rw [List.filter_cons_of_pos (by simp [he])]
      simp only [List.map_cons, List.mem_cons] at h
      rcases h with h | h
      · exact absurd h.symm he
      · have := ih hn.2 h
        simp only [List.length_cons]
        omega

theorem erase_eq_self (l : List (UInt16 × Packet)) (id : UInt16) (h : id ∉ l.map (·.1)) :
    PacketStore.erase l id = l := by
  unfold PacketStore.erase
  apply List.filter_eq_self.2
  intro a ha
  have : a.1 ≠ id := fun e => h (e ▸ List.mem_map.2 ⟨a, ha, rfl⟩)
  simpa using this

@[simp] theorem nextID_outgoing (ms : MemorySession) : ms.nextID.2.outgoing = ms.outgoing := rfl
@[simp] theorem nextID_incoming (ms : MemorySession) : ms.nextID.2.incoming = ms.incoming := rfl
@[simp] theorem savePacket_outgoing (ms : MemorySession) (p : Packet) :
    (ms.savePacket .outgoing p).outgoing = ms.outgoing.save p := rfl
@[simp] theorem savePacket_incoming_outgoing (ms : MemorySession) (p : Packet) :
    (ms.savePacket .incoming p).outgoing = ms.outgoing := rfl
@[simp] theorem deletePacket_outgoing (ms : MemorySession) (id : UInt16) :
    (ms.deletePacket .outgoing id).outgoing = ms.outgoing.delete id := rfl
@[simp] theorem deletePacket_incoming_outgoing (ms : MemorySession) (id : UInt16) :
    (ms.deletePacket .incoming id).outgoing = ms.outgoing := rfl

theorem save_publish_entries (st : PacketStore) (m : Message) (d : Bool) (id : UInt16) :
    (st.save (.publish m d id)).entries = PacketStore.erase st.entries id ++ [(id, .publish m d id)] := rfl

theorem save_pubrel_entries (st : PacketStore) (id : UInt16) :
    (st.save (.pubrel id)).entries = PacketStore.erase st.entries id ++ [(id, .pubrel id)] := rfl

theorem delete_entries (st : PacketStore) (id : UInt16) :
    (st.delete id).entries = PacketStore.erase st.entries id := rfl

/-- consecutive allocations hand out different ids -/
theorem nextID_twice_ne (ms : MemorySession) : ms.nextID.2.nextID.1 ≠ ms.nextID.1 := by
  intro h
  have h1 : (ms.counter.nextID.2.nextID.1).toNat = ms.counter.nextID.2.normNat :=
    IDCounter.nextID_fst_toNat _
  have h2 := IDCounter.nextID_snd_normNat ms.counter
  have h3 : (ms.counter.nextID.1).toNat = ms.counter.normNat := IDCounter.nextID_fst_toNat _
  have h4 := ms.counter.normNat_pos
  have h5 := ms.counter.normNat_le
  have h' : ms.counter.nextID.2.nextID.1 = ms.counter.nextID.1 := h
  rw [h'] at h1
  omega

/-! ### the core of a state: what the outbound properties depend on -/

structure CView where
  alive : Bool
  running : Bool
  zombie : Bool
  deqHand : Bool
  sref : SessRef
  deqChan : Nat

def cview (x : BConn) : CView := ⟨x.alive, x.running, x.zombie, x.deqHand, x.sref, x.deqChan⟩

structure SView where
  out : PacketStore
  counter : IDCounter
  active : Option ConnId

def sview (b : BSess) : SView := ⟨b.sess.outgoing, b.sess.counter, b.active⟩

theorem sview_eq {b b' : BSess} (h : sview b' = sview b) :
    b'.sess.outgoing = b.sess.outgoing ∧ b'.sess.counter = b.sess.counter ∧ b'.active = b.active := by
  simp only [sview, SView.mk.injEq] at h
  exact h

theorem cview_eq {x x' : BConn} (h : cview x' = cview x) :
    x'.alive = x.alive ∧ x'.running = x.running ∧ x'.zombie = x.zombie ∧ x'.deqHand = x.deqHand ∧
      x'.sref = x.sref ∧ x'.deqChan = x.deqChan := by
  simp only [cview, CView.mk.injEq] at h
  exact h

/-- two states agree on everything the window / no-loss statements look at: per connection the
    liveness flags, session reference and dequeue tokens; per session the outgoing store, the id
    counter and the active client -/
structure CoreEq (s s' : BState) : Prop where
  cfg : s'.cfg = s.cfg
  conn : ∀ c, (s'.conn? c).map cview = (s.conn? c).map cview
  stored : ∀ k, (Assoc.get s'.stored k).map sview = (Assoc.get s.stored k).map sview
  temp : ∀ k, (Assoc.get s'.temp k).map sview = (Assoc.get s.temp k).map sview

theorem CoreEq.refl (s : BState) : CoreEq s s := ⟨rfl, fun _ => rfl, fun _ => rfl, fun _ => rfl⟩

theorem CoreEq.trans {s s' s'' : BState} (h : CoreEq s s') (h' : CoreEq s' s'') : CoreEq s s'' :=
  ⟨h'.cfg.trans h.cfg, fun c => (h'.conn c).trans (h.conn c), fun k => (h'.stored k).trans (h.stored k),
    fun k => (h'.temp k).trans (h.temp k)⟩

theorem CoreEq.symm {s s' : BState} (h : CoreEq s s') : CoreEq s' s :=
  ⟨h.cfg.symm, fun c => (h.conn c).symm, fun k => (h.stored k).symm, fun k => (h.temp k).symm⟩

theorem map_eq_some {α β : Type} {f : α → β} {o o' : Option α} {a : α}
    (h : o'.map f = o.map f) (ha : o = some a) : ∃ a', o' = some a' ∧ f a' = f a := by
  subst ha
  cases o' with
  | none => simp at h
  | some a' => exact ⟨a', rfl, by simpa using h⟩

theorem CoreEq.conn_some {s s' : BState} (h : CoreEq s s') {c : ConnId} {x : BConn}
    (hx : s.conn? c = some x) : ∃ x', s'.conn? c = some x' ∧ cview x' = cview x :=
  map_eq_some (h.conn c) hx

theorem CoreEq.sessOf {s s' : BState} (h : CoreEq s s') (c : ConnId) :
    (s'.sessOf c).map sview = (s.sessOf c).map sview := by
  cases hx : s.conn? c with
  | none =>
    have : s'.conn? c = none := by
      have := h.conn c
      rw [hx] at this
      cases h' : s'.conn? c with
      | none => rfl
      | some x' => rw [h'] at this; simp at this
    rw [sessOf_none hx, sessOf_none this]
  | some x =>
    obtain ⟨x', hx', hv⟩ := h.conn_some hx
    rw [sessOf_some hx, sessOf_some hx', (cview_eq hv).2.2.2.2.1]
    cases x.sref with
    | none => rfl
    | temp => exact h.temp c
    | stored id => exact h.stored id

theorem CoreEq.sessOf_some {s s' : BState} (h : CoreEq s s') {c : ConnId} {b : BSess}
    (hb : s.sessOf c = some b) : ∃ b', s'.sessOf c = some b' ∧ sview b' = sview b :=
  map_eq_some (h.sessOf c) hb

/-- core-preserving updates -/
theorem CoreEq.of_setConn {s : BState} {c : ConnId} {x x' : BConn} (hx : s.conn? c = some x)
    (hv : cview x' = cview x) : CoreEq s (s.setConn c x') := by
  refine ⟨rfl, fun c' => ?_, fun _ => rfl, fun _ => rfl⟩
  rw [conn?_setConn]
  by_cases h : c' = c
  · subst h; simp [hx, hv]
  · simp [h]

theorem CoreEq.of_updConn {s : BState} {c : ConnId} {f : BConn → BConn}
    (hf : ∀ x, cview (f x) = cview x) : CoreEq s (s.updConn c f) := by
  cases hx : s.conn? c with
  | none => rw [updConn_none f hx]; exact CoreEq.refl s
  | some x => rw [updConn_some f hx]; exact CoreEq.of_setConn hx (hf x)

theorem CoreEq.of_setSessOf {s : BState} {c : ConnId} {b b' : BSess} (hb : s.sessOf c = some b)
    (hv : sview b' = sview b) : CoreEq s (s.setSessOf c b') := by
  obtain ⟨x, hx, hb'⟩ := sessOf_conn hb
  refine ⟨setSessOf_cfg _ _ _, fun c' => by rw [setSessOf_conn?], fun k => ?_, fun k => ?_⟩
  · rw [get_stored_setSessOf b' hx]
    split
    · rename_i hs
      rw [hs] at hb'
      simp only [sessAt] at hb'
      rw [hb']; simp [hv]
    · rfl
  · rw [get_temp_setSessOf b' hx]
    split
    · rename_i hs
      rw [hs.1] at hb'
      simp only [sessAt] at hb'
      rw [hs.2, hb']; simp [hv]
    · rfl

theorem fanOne_sview (cfg : Cfg) (m : Message) (g : Nat) (b : BSess) :
    sview (fanOne cfg m g b) = sview b := by
  unfold fanOne
  split
  · split
    · rename_i b' he
      unfold enqueue at he
      split at he <;> split at he <;> first | (cases he; rfl) | cases he
    · rfl
  · rfl

theorem FanPrefix.sview {κ : Type} [DecidableEq κ] {cfg : Cfg} {m : Message} {g : Nat}
    {l l' : List (κ × BSess)} (h : FanPrefix cfg m g l l') (k : κ) :
    (Assoc.get l' k).map sview = (Assoc.get l k).map sview := by
  rcases h.get k with e | e
  · rw [e]
  · rw [e, Option.map_map]
    congr 1
    funext b
    exact fanOne_sview cfg m g b

theorem CoreEq.of_publish {s : BState} {c : ConnId} {m : Message} {s' : BState} {full : Bool}
    (h : backendPublish s c m = (if full then Res1.queueFull s' else Res1.ok s')) : CoreEq s s' := by
  obtain ⟨temp', stored', rfl, ht, hs, _⟩ := backendPublish_cases h
  refine ⟨pubPre_cfg s c m, fun c' => ?_, fun k => hs.sview k, fun k => ht.sview k⟩
  show (Assoc.get (pubPre s c m).conns c').map cview = _
  rw [pubPre_conns]; rfl

theorem CoreEq.of_publish_ok {s : BState} {c : ConnId} {m : Message} {s' : BState}
    (h : backendPublish s c m = .ok s') : CoreEq s s' :=
  CoreEq.of_publish (full := false) h

theorem CoreEq.of_publish_full {s : BState} {c : ConnId} {m : Message} {s' : BState}
    (h : backendPublish s c m = .queueFull s') : CoreEq s s' :=
  CoreEq.of_publish (full := true) h

theorem CoreEq.of_will {s : BState} {c : ConnId} {x : BConn} {s1 : BState}
    (h : WillPublished s c x s1) : CoreEq s s1 := by
  rcases h with rfl | ⟨_, w, _, h | h⟩
  · exact CoreEq.refl _
  · exact CoreEq.of_publish_ok h
  · exact CoreEq.of_publish_full h

theorem CoreEq.of_forgetIncoming (s : BState) (c : ConnId) (id : UInt16) :
    CoreEq s (forgetIncoming c id s) := by
  unfold BState.forgetIncoming
  split
  · rename_i b hb
    exact CoreEq.of_setSessOf hb rfl
  · exact CoreEq.refl s

theorem CoreEq.of_ackPre (s : BState) (c : ConnId) (p : Packet) : CoreEq s (ackPre c p s) := by
  unfold BState.ackPre
  split
  · exact CoreEq.of_forgetIncoming s c _
  · exact CoreEq.refl s

theorem CoreEq.of_ackVia (s : BState) (c : ConnId) (p : Packet) (pre : BState → BState)
    (hpre : ∀ s, CoreEq s (pre s)) : CoreEq s (ackVia s c p pre) := by
  unfold BState.ackVia
  split
  · exact CoreEq.refl s
  · split
    · exact ⟨rfl, fun _ => rfl, fun _ => rfl, fun _ => rfl⟩
    · refine (hpre s).trans (CoreEq.of_updConn ?_)
      intro x
      split <;> rfl

/-! ### `setupAndConnack` in named pieces -/

/-- the connection that currently uses the session of client `id` (stored session first, else the
    temporary session of the active client) -/
def existingOf (s : BState) (id : ClientId) : Option ConnId :=
  match Assoc.get s.stored id with
  | some b => b.active
  | none => (match Assoc.get s.activeClients id with
             | some oc => (match Assoc.get s.temp oc with | some b => b.active | none => none)
             | none => none)

/-- the old connection did not finish dying within `KillTimeout` -/
def takeoverFailed (s : BState) (ex : Option ConnId) : Bool :=
  match ex with
  | some oc => (match s.conn? oc with | some ox => ox.zombie | none => false)
  | none => false

/-- empty client id: a temporary session -/
def tempFinal (s : BState) (c : ConnId) (x : BConn) (will : Option Message) : BState :=
  ({ s with temp := Assoc.set s.temp c (newSess c), bevents := s.bevents ++ [BEvent.setup c false] }).setConn c
    (retake (startConn s.cfg { x with sref := .temp, will := will, running := true,
                                      procOut := x.procOut ++ [Packet.connack false 0] }))

/-- clean session: stored state discarded, a temporary session -/
def cleanFinal (s : BState) (c : ConnId) (x : BConn) (id : ClientId) (will : Option Message) : BState :=
  ({ s with stored := Assoc.del s.stored id, temp := Assoc.set s.temp c (newSess c),
            activeClients := Assoc.set s.activeClients id c,
            bevents := s.bevents ++ [BEvent.setup c false] }).setConn c
    (retake (startConn s.cfg { x with sref := .temp, will := will, running := true,
                                      procOut := x.procOut ++ [Packet.connack false 0] }))

/-- the session as `Setup` hands it to the resuming client -/
def resumedSess (c : ConnId) (b : BSess) : BSess := { b with tempQ := [], active := some c }

/-- the connection record just before the resend loop -/
def resumedConn (cfg : Cfg) (x : BConn) (id : ClientId) (will : Option Message) : BConn :=
  startConn cfg { x with sref := .stored id, will := will, running := true,
                         procOut := x.procOut ++ [Packet.connack true 0] }

/-- resumed stored session: CONNACK(session present), resend -/
def resumeFinal (s : BState) (c : ConnId) (x : BConn) (id : ClientId) (will : Option Message)
    (b : BSess) : BState :=
  ({ s with stored := Assoc.set s.stored id (resend (resumedSess c b) (resumedConn s.cfg x id will)).1,
            activeClients := Assoc.set s.activeClients id c,
            bevents := s.bevents ++ [BEvent.setup c true] }).setConn c
    (retake (resend (resumedSess c b) (resumedConn s.cfg x id will)).2)

/-- no stored session: a new stored session -/
def newFinal (s : BState) (c : ConnId) (x : BConn) (id : ClientId) (will : Option Message) : BState :=
  ({ s with stored := Assoc.set s.stored id (newSess c),
            activeClients := Assoc.set s.activeClients id c,
            bevents := s.bevents ++ [BEvent.setup c false] }).setConn c
    (retake (startConn s.cfg { x with sref := .stored id, will := will, running := true,
                                      procOut := x.procOut ++ [Packet.connack false 0] }))

def afterTakeover (s : BState) (c : ConnId) (x : BConn) (id : ClientId) (clean : Bool)
    (will : Option Message) : BState :=
  if clean then cleanFinal s c x id will
  else match Assoc.get s.stored id with
    | some b => resumeFinal s c x id will b
    | none => newFinal s c x id will

def afterTakeoverR (s : BState) (c : ConnId) (x : BConn) (id : ClientId) (clean : Bool)
    (will : Option Message) : Res :=
  if clean then .one (cleanFinal s c x id will)
  else match Assoc.get s.stored id with
    | some b => .one (resumeFinal s c x id will b)
    | none => .one (newFinal s c x id will)

theorem afterTakeoverR_eq (s : BState) (c : ConnId) (x : BConn) (id : ClientId) (clean : Bool)
    (will : Option Message) :
    afterTakeoverR s c x id clean will = .one (afterTakeover s c x id clean will) := by
  unfold afterTakeoverR afterTakeover
  split
  · rfl
  · split <;> rfl

theorem setupAndConnack_eq (s : BState) (c : ConnId) (x : BConn) (id : ClientId) (clean : Bool)
    (will : Option Message) :
    setupAndConnack s c x id clean will =
      (let x1 : BConn := { x with phase := .connected, id := id }
       let s1 := s.setConn c x1
       if s1.closing then kill s1 c else
       if id.length = 0 then .one (tempFinal s1 c x1 will) else
       Res.bind (match existingOf s1 id with | some oc => kill s1 oc | none => .one s1) fun s3 =>
         if takeoverFailed s3 (existingOf s1 id) then kill s3 c
         else .one (afterTakeover s3 c x1 id clean will)) := by
  have : setupAndConnack s c x id clean will =
      (let x1 : BConn := { x with phase := .connected, id := id }
       let s1 := s.setConn c x1
       if s1.closing then kill s1 c else
       if id.length = 0 then .one (tempFinal s1 c x1 will) else
       Res.bind (match existingOf s1 id with | some oc => kill s1 oc | none => .one s1) fun s3 =>
         if takeoverFailed s3 (existingOf s1 id) then kill s3 c
         else afterTakeoverR s3 c x1 id clean will) := rfl
  rw [this]
  simp only [afterTakeoverR_eq]

end BrokerB3
