import Proofs.ServiceStop
/-
  Proofs/ServiceSurvive.lean — futures survive reconnects: the shared store is protected while a
  supervisor exists, so the `Clear` in every client's `cleanup` does nothing; failures, timers,
  Start/Stop calls and the peer's hang-ups change neither the store nor any command future.
-/
set_option linter.unusedSimpArgs false
namespace SvcK2
open Svc Svc.SState

/-- store and command futures -/
structure SameF (s s' : SState) : Prop where
  store : s'.store = s.store
  futs : s'.futs = s.futs

theorem SameF.rfl' (s : SState) : SameF s s := ⟨rfl, rfl⟩

theorem die_sameF {s : SState} (hp : s.protected = true) (c : Client) (b : Bool) : SameF s (s.die c b).1 := by
  unfold SState.die
  rw [clearStore_of_protected _ (by simpa using hp)]
  constructor <;> simp

theorem closeSt_sameF {s : SState} (hp : s.protected = true) : SameF s s.closeSt := by
  unfold SState.closeSt
  split
  · exact SameF.rfl' s
  · rw [clearStore_of_protected _ (by simpa using hp)]
    constructor <;> simp

theorem leaveDispatcher_sameF {s : SState} (hp : s.protected = true) (pre : List Obs) :
    SameF s (leaveDispatcher s pre).1 := by
  have := closeSt_sameF hp
  constructor <;> simp [leaveDispatcher, this.store, this.futs]

theorem failAttempt_sameF {s : SState} (hp : s.protected = true) (pre : List Obs) (sys : Sys) :
    SameF s (failAttempt s pre sys).1 := by
  have := closeSt_sameF hp
  constructor <;> simp [failAttempt, this.store, this.futs]

theorem supDisconnect_sameF {s : SState} (hp : s.protected = true) (c : Client) :
    SameF s (supDisconnect s c).1 := by
  have := closeSt_sameF hp
  constructor <;> simp [supDisconnect, this.store, this.futs]

theorem supConnect_sameF (s : SState) : SameF s (supConnect s).1 := by
  unfold supConnect
  dsimp only
  repeat' split
  all_goals (constructor <;> simp)

theorem dropStep_sameF {s : SState} (hp : s.protected = true) (c : Client) : SameF s (dropStep s c).1 := by
  unfold dropStep
  split
  · have := die_sameF (s := s.setCl c.hangup) (by simpa using hp) c.hangup false
    constructor
    · rw [this.store]; simp
    · rw [this.futs]; simp
  · constructor <;> simp

/-- connection failures, timers, the peer's hang-up, Start / Stop calls -/
def Ev.isFailure : Ev → Bool
  | .plan _ | .drop _ | .failNext _ | .procFail _ | .fire | .sup .kill | .sup .dying | .start | .stopCall _ => true
  | _ => false

theorem protected_of_client {s : SState} (hi : PhaseInv s) {c : Client} (hc : s.cl = some c) : s.protected = true := by
  apply hi.prot
  intro hph
  have := hi.client
  rw [hc, hph] at this
  simp [Phase.hasClient] at this

theorem failure_sameF {s s' : SState} {e : Ev} {o : List Obs} (hi : PhaseInv s) (he : Ev.isFailure e = true)
    (h : step s e = some (s', o)) : SameF s s' := by
  cases e with
  | fire =>
    rw [step_fire] at h
    unfold fireStep at h
    repeat' split at h
    step_subst h
    all_goals first
      | exact failAttempt_sameF (hi.prot (ne_exited_of_eq ‹s.phase = _› (by simp))) _ _
      | exact supDisconnect_sameF (hi.prot (ne_exited_of_eq ‹s.phase = _› (by simp))) _
      | (constructor <;> simp)
  | sup ch =>
    cases ch with
    | run => simp [Ev.isFailure] at he
    | take => simp [Ev.isFailure] at he
    | kill =>
      rw [step_sup] at h
      unfold supStep at h
      repeat' split at h
      all_goals (try contradiction)
      step_subst h
      all_goals exact leaveDispatcher_sameF (hi.prot (ne_exited_of_eq ‹s.phase = _› (by simp))) _
    | dying =>
      rw [step_sup] at h
      unfold supStep at h
      repeat' split at h
      all_goals (try contradiction)
      step_subst h
      all_goals first
        | exact leaveDispatcher_sameF (hi.prot (ne_exited_of_eq ‹s.phase = _› (by simp))) _
        | exact supDisconnect_sameF (hi.prot (ne_exited_of_eq ‹s.phase = _› (by simp))) _
        | (constructor <;> simp)
  | drop c =>
    step_cases h
    all_goals first
      | exact SameF.rfl' s
      | exact SameF.rfl' _
      | exact dropStep_sameF (protected_of_client hi (by assumption)) _
  | stopRet => simp [Ev.isFailure] at he
  | call c => simp [Ev.isFailure] at he
  | callTimeout => simp [Ev.isFailure] at he
  | recv c p => simp [Ev.isFailure] at he
  | _ =>
    step_cases h
    all_goals first
      | exact SameF.rfl' s
      | (constructor <;> simp [startSt, stopSt])

/-! ### acknowledgements -/

/-- the packet id an inbound packet acknowledges (SUBACK, UNSUBACK, PUBACK, PUBCOMP) -/
def ackedId : Packet → Option UInt16
  | .suback _ id => some id
  | .unsuback id => some id
  | .puback id => some id
  | .pubcomp id => some id
  | _ => none

theorem die_store_get {s : SState} (hp : s.protected = true) (c : Client) (b : Bool) :
    (s.die c b).1.store = s.store := (die_sameF hp c b).store

theorem procReply_sameF {s : SState} (hp : s.protected = true) (c : Client) (o : List Obs) :
    SameF s (procReply s c o).1 := by
  unfold procReply
  split
  · exact SameF.rfl' s
  · exact die_sameF hp _ _

theorem procRefuse_sameF {s : SState} (hp : s.protected = true) (c : Client) (m : Message) :
    SameF s (procRefuse s c m).1 := die_sameF hp _ _

/-- a packet that does not acknowledge `id` leaves the future stored under `id` where it is -/
theorem procRecv_keeps {s : SState} (hp : s.protected = true) (c : Client) (p : Packet) (id : UInt16)
    (hne : ackedId p ≠ some id) : storeGet (procRecv s c p).1.store id = storeGet s.store id := by
  unfold procRecv
  repeat' split
  · rfl
  · -- first packet
    unfold procFirst
    repeat' split
    all_goals first
      | rfl
      | (rw [die_store_get (by simpa using hp)])
      | simp
  · unfold procLater
    split
    · -- suback
      rename_i codes id'
      have hid : id ≠ id' := fun hh => hne (by simp [ackedId, hh])
      unfold procSuback
      dsimp only
      repeat' split
      all_goals first
        | (simp; done)
        | (rw [die_store_get (by simpa using hp)]; simp [delStore, storeGet_storeDel_other _ _ _ hid]; done)
        | (simp [delStore, storeGet_storeDel_other _ _ _ hid]; done)
    all_goals first
      | (-- unsuback / puback / pubcomp
         rename_i id'
         have hid : id ≠ id' := fun hh => hne (by simp [ackedId, hh])
         unfold procAck SState.ackId
         split <;> simp [delStore, storeGet_storeDel_other _ _ _ hid]; done)
      | (-- pubrec
         rw [(procReply_sameF (by simpa using hp) c _).store]; simp; done)
      | (-- publish
         unfold procPublish
         repeat' split
         all_goals first
           | (rw [(procRefuse_sameF (by simpa using hp) c _).store]; simp; done)
           | (rw [(procReply_sameF (by simpa using hp) c _).store]; simp; done)
           | (simp; done))
      | (-- pubrel
         unfold procPubrel
         repeat' split
         all_goals first
           | (rw [(procRefuse_sameF (by simpa using hp) c _).store]; simp; done)
           | (rw [(procReply_sameF (by simpa using hp) c _).store]; simp; done)
           | (simp; done))
      | (simp; done)

/-- the acknowledgement arrives (on whatever connection is current): every command future
    attached to the stored future is completed, the future leaves the store -/
theorem ack_completes {s : SState} (id : UInt16) (f : SFut) (hget : storeGet s.store id = some f)
    (n : Nat) (hn : n ∈ f.attached) (hpend : futOf s.futs n = some .pending) :
    futOf (procAck s id).1.futs n = some .completed ∧ storeGet (procAck s id).1.store id = none := by
  unfold procAck SState.ackId
  simp only [setSess_store, hget]
  constructor
  · simp only [finish, delStore, setSess_futs]
    exact futOf_resolveAll_mem _ _ _ _ (by simp) hn (by simpa using hpend)
  · simp [finish, delStore, storeGet_storeDel_self]

end SvcK2
