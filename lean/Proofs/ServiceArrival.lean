import Proofs.ServiceInv
/-
  Proofs/ServiceArrival.lean — the processor hands messages to the application in the order in
  which the packets that release them arrive: one packet is handled at a time, it appends at
  most one message to the callback history, and which message that is depends on the packet
  (QoS 0/1: the PUBLISH itself; QoS 2: the PUBLISH stored under the id of the PUBREL).
-/
set_option linter.unusedSimpArgs false
namespace SvcK2
open Svc Svc.SState

/-- the message a packet releases to the application, given the session at its arrival -/
def released (ss : MemorySession) : Packet → Option Message
  | .publish m _ _ => if m.qos ≤ 1 then some m else none
  | .pubrel id =>
    (match ss.lookupPacket .incoming id with
     | some (.publish m _ _) => some m
     | _ => none)
  | _ => none

/-- callback history and arrival history after one packet -/
structure ArrStep (s s' : SState) (p : Packet) : Prop where
  arrivals : s'.arrivals = s.arrivals ++ [p]
  callbacks : s'.callbacks = s.callbacks ++ (released s.sess p).toList

@[simp] theorem pushArrival_arrivals' (s : SState) (p : Packet) : (s.pushArrival p).arrivals = s.arrivals ++ [p] := rfl
@[simp] theorem pushCallback_callbacks' (s : SState) (m : Message) : (s.pushCallback m).callbacks = s.callbacks ++ [m] := rfl

theorem procReply_callbacks (s : SState) (c : Client) (o : List Obs) : (procReply s c o).1.callbacks = s.callbacks := by
  unfold procReply; split <;> simp
theorem procReply_arrivals (s : SState) (c : Client) (o : List Obs) : (procReply s c o).1.arrivals = s.arrivals := by
  unfold procReply; split <;> simp
theorem procRefuse_callbacks (s : SState) (c : Client) (m : Message) : (procRefuse s c m).1.callbacks = s.callbacks := by
  simp [procRefuse]
theorem procRefuse_arrivals (s : SState) (c : Client) (m : Message) : (procRefuse s c m).1.arrivals = s.arrivals := by
  simp [procRefuse]

theorem procSuback_hist (s : SState) (c : Client) (codes : List UInt8) (id : UInt16) :
    (procSuback s c codes id).1.callbacks = s.callbacks ∧ (procSuback s c codes id).1.arrivals = s.arrivals := by
  unfold procSuback
  dsimp only
  repeat' split
  all_goals simp

theorem procAck_hist (s : SState) (id : UInt16) :
    (procAck s id).1.callbacks = s.callbacks ∧ (procAck s id).1.arrivals = s.arrivals := by
  unfold procAck; simp

/-- a packet handled after the CONNACK -/
theorem procLater_hist (s : SState) (c : Client) (p : Packet) :
    (procLater s c p).1.arrivals = s.arrivals
    ∧ (procLater s c p).1.callbacks = s.callbacks ++ (released s.sess p).toList := by
  unfold procLater
  split
  · simp [(procSuback_hist s c _ _).1, (procSuback_hist s c _ _).2, released]
  · simp [(procAck_hist s _).1, (procAck_hist s _).2, released]
  · simp [(procAck_hist s _).1, (procAck_hist s _).2, released]
  · simp [(procAck_hist s _).1, (procAck_hist s _).2, released]
  · simp [procReply_callbacks, procReply_arrivals, released]
  · -- publish
    unfold procPublish
    repeat' split
    all_goals simp_all [procReply_callbacks, procReply_arrivals, procRefuse_callbacks, procRefuse_arrivals, released]
  · -- pubrel
    unfold procPubrel
    repeat' split
    all_goals simp_all [procReply_callbacks, procReply_arrivals, procRefuse_callbacks, procRefuse_arrivals, released]
  · rename_i h1 h2 h3 h4 h5 h6 h7
    cases p with
    | suback cs id => exact absurd rfl (h1 cs id)
    | unsuback id => exact absurd rfl (h2 id)
    | puback id => exact absurd rfl (h3 id)
    | pubcomp id => exact absurd rfl (h4 id)
    | pubrec id => exact absurd rfl (h5 id)
    | publish m d id => exact absurd rfl (h6 m d id)
    | pubrel id => exact absurd rfl (h7 id)
    | _ => simp [released]

theorem procLater_arrStep (s : SState) (c : Client) (p : Packet) :
    (procLater (s.pushArrival p) c p).1.arrivals = s.arrivals ++ [p]
    ∧ (procLater (s.pushArrival p) c p).1.callbacks = s.callbacks ++ (released s.sess p).toList := by
  have := procLater_hist (s.pushArrival p) c p
  simpa using this

theorem procFirst_hist (s : SState) (c : Client) (p : Packet) :
    (procFirst s c p).1.callbacks = s.callbacks ∧ (procFirst s c p).1.arrivals = s.arrivals := by
  unfold procFirst
  repeat' split
  all_goals simp

/-- one inbound packet: either it is not handled as a message-carrying arrival at all (the
    processor is gone, or it is the first packet of the connection), or it is appended to the
    arrival history and releases at most the one message it stands for -/
theorem procRecv_arr (s : SState) (c : Client) (p : Packet) :
    ((procRecv s c p).1.callbacks = s.callbacks ∧ (procRecv s c p).1.arrivals = s.arrivals)
    ∨ ArrStep s (procRecv s c p).1 p := by
  unfold procRecv
  repeat' split
  · exact Or.inl ⟨rfl, rfl⟩
  · exact Or.inl (procFirst_hist s c p)
  · exact Or.inr ⟨(procLater_arrStep s c p).1, (procLater_arrStep s c p).2⟩

/-- both histories -/
structure SameH (s s' : SState) : Prop where
  callbacks : s'.callbacks = s.callbacks
  arrivals : s'.arrivals = s.arrivals

theorem clientCall_sameH (s : SState) (c : Client) (cmd : Cmd) : SameH s (clientCall s c cmd).1 := by
  unfold clientCall
  dsimp only
  repeat' split
  all_goals (constructor <;> simp [leaveDispatcher])

theorem supStep_sameH {s s' : SState} {ch : SupChoice} {o : List Obs} (h : supStep s ch = some (s', o)) : SameH s s' := by
  unfold supStep at h
  repeat' split at h
  step_subst h
  all_goals first
    | (constructor <;> simp [failAttempt, leaveDispatcher, supDisconnect]; done)
    | skip
  · unfold supConnect; dsimp only; repeat' split
    all_goals (constructor <;> simp)
  · unfold supOnline; repeat' split
    all_goals (constructor <;> simp [failAttempt])
  · have := clientCall_sameH (applySubs (dequeue s ‹Cmd› ‹List Cmd›) (‹Cmd›).kind) ‹Client› ‹Cmd›
    constructor
    · simp [supTake, this.callbacks]
    · simp [supTake, this.arrivals]
  · rename_i b _
    have := clientCall_sameH (applySubs (handOver s b) b.kind) ‹Client› b
    constructor
    · simp [this.callbacks]
    · simp [this.arrivals]

theorem fireStep_sameH {s s' : SState} {o : List Obs} (h : fireStep s = some (s', o)) : SameH s s' := by
  unfold fireStep at h
  repeat' split at h
  step_subst h
  all_goals (constructor <;> simp [failAttempt, supDisconnect])

/-- only an inbound packet handled by the processor adds to the histories, and it adds itself
    and the one message it releases -/
theorem step_arr {s s' : SState} {e : Ev} {o : List Obs} (h : step s e = some (s', o)) :
    SameH s s' ∨ ∃ c p, e = .recv c p ∧ ArrStep s s' p := by
  cases e with
  | sup ch => exact Or.inl (supStep_sameH h)
  | fire => exact Or.inl (fireStep_sameH h)
  | recv c p =>
    rw [step_recv] at h
    split at h
    · rename_i cl hc
      split at h
      · simp at h
        have hs' : s' = (procRecv s cl p).1 := by rw [h]
        subst hs'
        cases procRecv_arr s cl p with
        | inl h1 => exact Or.inl ⟨h1.1, h1.2⟩
        | inr h1 => exact Or.inr ⟨c, p, rfl, h1⟩
      · simp at h; obtain ⟨rfl, _⟩ := h; exact Or.inl ⟨rfl, rfl⟩
    · simp at h; obtain ⟨rfl, _⟩ := h; exact Or.inl ⟨rfl, rfl⟩
  | stopRet =>
    step_cases h
    left
    unfold stopTail; repeat' split
    all_goals (constructor <;> simp)
  | drop c =>
    step_cases h
    all_goals first
      | exact Or.inl ⟨rfl, rfl⟩
      | (left; unfold dropStep; split <;> constructor <;> simp)
  | _ =>
    step_cases h
    all_goals (left; constructor <;> simp)

end SvcK2
