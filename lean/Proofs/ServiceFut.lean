import Proofs.ServiceInv
/-
  Proofs/ServiceFut.lean — the futures: every pending command future is accounted for (it is
  queued, held by a blocked caller, or attached to a future in the shared store), the store
  holds one future per id.  `ex` names the one command the dispatcher has in its hands.
-/
set_option linter.unusedSimpArgs false
namespace SvcK2
open Svc Svc.SState

def StoreNodup (s : SState) : Prop := (s.store.map (·.1)).Nodup

/-- where a pending command future is accounted for -/
def Tracked (s : SState) (n : Nat) : Prop :=
  (∃ c ∈ s.queue, c.n = n) ∨ (∃ c, s.blocked = some c ∧ c.n = n) ∨ (∃ e ∈ s.store, n ∈ e.2.attached)

def TrackedExc (s : SState) (ex : Option Nat) : Prop :=
  ∀ m, futOf s.futs m = some .pending → some m = ex ∨ Tracked s m

structure FInvX (s : SState) (ex : Option Nat) : Prop where
  nodup : StoreNodup s
  tracked : s.cfg.fix17 = true → TrackedExc s ex

abbrev FInv (s : SState) : Prop := FInvX s none

/-! ### generic transfer lemmas -/

theorem TrackedExc.mono {s s' : SState} {ex : Option Nat} (h : TrackedExc s ex)
    (hq : s'.queue = s.queue) (hb : s'.blocked = s.blocked) (R : List Nat)
    (hf : ∀ m, futOf s'.futs m = some .pending → futOf s.futs m = some .pending ∧ m ∉ R)
    (hs : ∀ e ∈ s.store, e ∈ s'.store ∨ ∀ m ∈ e.2.attached, m ∈ R) : TrackedExc s' ex := by
  intro m hm
  obtain ⟨hp, hR⟩ := hf m hm
  cases h m hp with
  | inl h1 => exact Or.inl h1
  | inr h1 =>
    right
    rcases h1 with ⟨c, hc, rfl⟩ | ⟨c, hc, rfl⟩ | ⟨e, he, hme⟩
    · exact Or.inl ⟨c, hq ▸ hc, rfl⟩
    · exact Or.inr (Or.inl ⟨c, hb ▸ hc, rfl⟩)
    · cases hs e he with
      | inl h2 => exact Or.inr (Or.inr ⟨e, h2, hme⟩)
      | inr h2 => exact absurd (h2 _ hme) hR

theorem FInvX.frame {s s' : SState} {ex : Option Nat} (h : FInvX s ex) (hf : s'.futs = s.futs)
    (hs : s'.store = s.store) (hq : s'.queue = s.queue) (hb : s'.blocked = s.blocked) (hc : s'.cfg = s.cfg) :
    FInvX s' ex := by
  refine ⟨by unfold StoreNodup; rw [hs]; exact h.nodup, ?_⟩
  intro hfix
  rw [hc] at hfix
  exact (h.tracked hfix).mono hq hb [] (fun m hm => ⟨by rw [← hf]; exact hm, by simp⟩)
    (fun e he => Or.inl (by rw [hs]; exact he))

/-- frame goals are closed by the generated projection lemmas -/
macro "fframe" h:term : tactic => `(tactic| (apply FInvX.frame $h <;> simp))

theorem nodup_storeDel {l : List (UInt16 × SFut)} (id : UInt16) (h : (l.map (·.1)).Nodup) :
    ((storeDel l id).map (·.1)).Nodup := by
  unfold storeDel
  exact List.Nodup.sublist (List.Sublist.map _ List.filter_sublist) h

theorem nodup_storePut {l : List (UInt16 × SFut)} (id : UInt16) (f : SFut) (h : (l.map (·.1)).Nodup) :
    ((storePut l id f).map (·.1)).Nodup := by
  unfold storePut
  rw [List.map_append, List.nodup_append]
  refine ⟨nodup_storeDel id h, by simp, ?_⟩
  intro a ha b hb
  simp only [List.map_cons, List.map_nil, List.mem_singleton] at hb
  subst hb
  intro hab
  subst hab
  simp only [List.mem_map] at ha
  obtain ⟨e, he, he1⟩ := ha
  exact (mem_storeDel.mp he).2 he1

/-- with one future per id, `storeGet` finds exactly the members -/
theorem mem_iff_storeGet {l : List (UInt16 × SFut)} (h : (l.map (·.1)).Nodup) (e : UInt16 × SFut) :
    e ∈ l ↔ storeGet l e.1 = some e.2 := by
  induction l with
  | nil => simp [storeGet_nil]
  | cons a l ih =>
    rw [List.map_cons, List.nodup_cons] at h
    rw [storeGet_cons, List.mem_cons]
    by_cases ha : a.1 = e.1
    · rw [if_pos ha]
      constructor
      · rintro (h1 | h1)
        · rw [h1]
        · exact absurd (List.mem_map_of_mem (f := (·.1)) h1) (by rw [← ha]; exact h.1)
      · intro h1
        left
        cases a; cases e; simp_all
    · rw [if_neg ha]
      constructor
      · rintro (h1 | h1)
        · exact absurd (by rw [h1]) ha
        · exact (ih h.2).mp h1
      · intro h1; exact Or.inr ((ih h.2).mpr h1)

/-! ### the primitives that touch futures or the store -/

theorem FInvX.clearStore {s : SState} {ex : Option Nat} (h : FInvX s ex) : FInvX s.clearStore ex := by
  unfold SState.clearStore
  split
  · exact h
  · refine ⟨by simp [StoreNodup], ?_⟩
    intro hfix
    refine (h.tracked hfix).mono rfl rfl (s.store.flatMap (·.2.attached)) ?_ ?_
    · intro m hm
      have := futOf_resolveAll_pending _ _ _ _ (by simp) hm
      exact ⟨this.2, this.1⟩
    · intro e he
      right
      intro m hm
      exact List.mem_flatMap.mpr ⟨e, he, hm⟩

theorem FInvX.ackId {s : SState} {ex : Option Nat} (h : FInvX s ex) (id : UInt16) (ok : Bool) :
    FInvX (s.ackId id ok) ex := by
  unfold SState.ackId
  split
  · exact h
  · rename_i f hget
    refine ⟨by simpa [StoreNodup, delStore] using nodup_storeDel id h.nodup, ?_⟩
    intro hfix
    refine (h.tracked (by simpa using hfix)).mono (by simp) (by simp) f.attached ?_ ?_
    · intro m hm
      have := futOf_resolveAll_pending f.attached s.futs m (if ok then FutSt.completed else FutSt.cancelled)
        (by cases ok <;> simp) (by simpa [finish, delStore] using hm)
      exact ⟨this.2, this.1⟩
    · intro e he
      by_cases hid : e.1 = id
      · right
        have : storeGet s.store e.1 = some e.2 := (mem_iff_storeGet h.nodup e).mp he
        rw [hid, hget] at this
        have : f = e.2 := by simpa using this
        rw [← this]; exact fun m hm => hm
      · left
        simp only [finish_store, delStore]
        exact mem_storeDel.mpr ⟨he, hid⟩

/-- the store part of `finish` after `delStore`, as used by `procSuback` -/
theorem FInvX.finishDel {s : SState} {ex : Option Nat} (h : FInvX s ex) {id : UInt16} {f : SFut}
    (hget : storeGet s.store id = some f) (ok : Bool) : FInvX ((s.delStore id).finish id f ok) ex := by
  have := h.ackId id ok
  unfold SState.ackId at this
  rw [hget] at this
  exact this

theorem FInvX.put {s : SState} {ex : Option Nat} (h : FInvX s ex) (id : UInt16) (f : SFut) :
    FInvX (s.put id f) ex := by
  refine ⟨by simpa [StoreNodup, SState.put] using nodup_storePut id f h.nodup, ?_⟩
  intro hfix
  have hfix' : s.cfg.fix17 = true := by simpa using hfix
  cases hget : storeGet s.store id with
  | none =>
    refine (h.tracked hfix').mono rfl rfl [] ?_ ?_
    · intro m hm
      refine ⟨?_, by simp⟩
      simpa [SState.put, hget] using hm
    · intro e he
      left
      simp only [SState.put]
      refine mem_storePut.mpr (Or.inl ⟨he, ?_⟩)
      intro hid
      have : storeGet s.store e.1 = some e.2 := (mem_iff_storeGet h.nodup e).mp he
      rw [hid, hget] at this; cases this
  | some old =>
    refine (h.tracked hfix').mono rfl rfl old.attached ?_ ?_
    · intro m hm
      have hm' : futOf (resolveAll s.futs old.attached .cancelled) m = some .pending := by
        simpa [SState.put, hget, hfix'] using hm
      have := futOf_resolveAll_pending _ _ _ _ (by simp) hm'
      exact ⟨this.2, this.1⟩
    · intro e he
      by_cases hid : e.1 = id
      · right
        have : storeGet s.store e.1 = some e.2 := (mem_iff_storeGet h.nodup e).mp he
        rw [hid, hget] at this
        have : old = e.2 := by simpa using this
        rw [← this]; exact fun m hm => hm
      · left
        simp only [SState.put]
        exact mem_storePut.mpr (Or.inl ⟨he, hid⟩)

theorem FInvX.resolveCmd {s : SState} {ex : Option Nat} (h : FInvX s ex) (n : Nat) (st : FutSt) (hst : st ≠ .pending) :
    FInvX (s.resolveCmd n st) ex := by
  refine ⟨h.nodup, ?_⟩
  intro hfix
  refine (h.tracked hfix).mono rfl rfl [] ?_ (fun e he => Or.inl he)
  intro m hm
  exact ⟨(futOf_resolve_pending _ _ _ _ hst hm).2, by simp⟩

/-- the command in the dispatcher's hands is resolved: nothing is left over -/
theorem FInvX.resolveHeld {s : SState} {n : Nat} (h : FInvX s (some n)) (st : FutSt) (hst : st ≠ .pending) :
    FInvX (s.resolveCmd n st) none := by
  refine ⟨h.nodup, ?_⟩
  intro hfix m hm
  have := futOf_resolve_pending _ _ _ _ hst hm
  cases h.tracked hfix m this.2 with
  | inl h1 => exact absurd (by simpa using h1) this.1
  | inr h1 => exact Or.inr h1

/-- `Attach`: the held command now hangs on the future stored under `id` (which `Put` had just
    stored there without anything attached) -/
theorem FInvX.attach {s : SState} {n : Nat} (h : FInvX s (some n)) (id : UInt16)
    (hemp : ∀ f, storeGet s.store id = some f → f.attached = []) : FInvX (s.attach id n) none := by
  refine ⟨by simpa [StoreNodup, SState.attach] using nodup_storePut id _ h.nodup, ?_⟩
  intro hfix m hm
  right
  cases h.tracked hfix m hm with
  | inl h1 =>
    have : m = n := by simpa using h1
    subst this
    exact Or.inr (Or.inr ⟨(id, { attached := [m] }), by simp [SState.attach, mem_storePut], by simp⟩)
  | inr h1 =>
    rcases h1 with h2 | h2 | ⟨e, he, hme⟩
    · exact Or.inl h2
    · exact Or.inr (Or.inl h2)
    · refine Or.inr (Or.inr ⟨e, ?_, hme⟩)
      simp only [SState.attach]
      refine mem_storePut.mpr (Or.inl ⟨he, ?_⟩)
      intro hid
      have : storeGet s.store e.1 = some e.2 := (mem_iff_storeGet h.nodup e).mp he
      rw [hid] at this
      rw [hemp _ this] at hme
      cases hme

theorem FInvX.delStoreEmpty {s : SState} {ex : Option Nat} (h : FInvX s ex) (id : UInt16)
    (hemp : ∀ f, storeGet s.store id = some f → f.attached = []) : FInvX (s.delStore id) ex := by
  refine ⟨by simpa [StoreNodup, SState.delStore] using nodup_storeDel id h.nodup, ?_⟩
  intro hfix
  refine (h.tracked hfix).mono rfl rfl [] (fun m hm => ⟨hm, by simp⟩) ?_
  intro e he
  by_cases hid : e.1 = id
  · right
    have : storeGet s.store e.1 = some e.2 := (mem_iff_storeGet h.nodup e).mp he
    rw [hid] at this
    rw [hemp _ this]; simp
  · exact Or.inl (mem_storeDel.mpr ⟨he, hid⟩)

end SvcK2
