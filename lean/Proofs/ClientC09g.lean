import Proofs.ClientC09f
/-
  Proofs/ClientC09g.lean — runs as witnesses: `run` gives `Reach`, a checked run gives `Reach1`. (K1)
-/
set_option linter.unusedVariables false
open Cl Cl.St
namespace ClientK1

theorem reach_of_run {fx : Fix} : ∀ (tr : List Label) (s0 s : St), Reach fx s0 → run fx s0 tr = some s → Reach fx s := by
  intro tr
  induction tr with
  | nil => intro s0 s h0 hr; simp [run] at hr; subst hr; exact h0
  | cons l t ih =>
    intro s0 s h0 hr
    simp only [run] at hr
    cases hs : step fx s0 l with
    | none => simp [hs] at hr
    | some s1 => simp [hs] at hr; exact ih s1 s (.step l h0 hs) hr

/-- decidable form of `Well` -/
def wellB (s : St) (l : Label) : Bool :=
  (match l with | .newClient => false | .aConnect _ _ _ true => false | _ => true) &&
  (match l with
   | .sLookup .outgoing id (.found none) =>
     s.storeGet id == none && (match s.proc with | .aFin _ id' _ => id' != id | _ => true)
   | _ => true)

theorem wellB_sound {s : St} {l : Label} (h : wellB s l = true) : Well s l := by
  unfold wellB at h
  simp only [Bool.and_eq_true] at h
  obtain ⟨h1, h2⟩ := h
  refine ⟨?_, ?_, ?_⟩
  · intro e; subst e; simp at h1
  · intro cp e v ev; subst ev; simp at h1
  · intro id e; subst e
    simp only [Bool.and_eq_true, beq_iff_eq] at h2
    refine ⟨h2.1, ?_⟩
    intro k h hp
    rw [hp] at h2
    simp at h2

/-- a run all of whose steps satisfy `Well` -/
def run1 (fx : Fix) : St → List Label → Option St
  | s, [] => some s
  | s, l :: ls => if wellB s l then (match step fx s l with | some s' => run1 fx s' ls | none => none) else none

theorem reach1_of_run1 {fx : Fix} : ∀ (tr : List Label) (s0 s : St), Reach1 fx s0 → run1 fx s0 tr = some s → Reach1 fx s := by
  intro tr
  induction tr with
  | nil => intro s0 s h0 hr; simp [run1] at hr; subst hr; exact h0
  | cons l t ih =>
    intro s0 s h0 hr
    simp only [run1] at hr
    split at hr
    · rename_i hw
      cases hs : step fx s0 l with
      | none => simp [hs] at hr
      | some s1 => simp [hs] at hr; exact ih s1 s (.step l h0 hs (wellB_sound hw)) hr
    · simp at hr

end ClientK1
