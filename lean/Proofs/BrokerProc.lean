import Model.Broker
import Proofs.SessionFresh
/-
  Proofs/BrokerProc.lean — helper lemmas about the processor / lifecycle part of the broker model
  (`recv`, `kill`, `cleanup`, `ackVia`, `setupAndConnack`) used by Props/C07, C12, C20.
-/

namespace BrokerB2
open BState

/-! ### association lists -/

section Assoc
variable {κ α : Type} [DecidableEq κ]

theorem get_nil (k : κ) : Assoc.get ([] : List (κ × α)) k = none := rfl

theorem get_cons (e : κ × α) (l : List (κ × α)) (k : κ) :
    Assoc.get (e :: l) k = if e.1 = k then some e.2 else Assoc.get l k := by
  unfold Assoc.get
  by_cases h : e.1 = k <;> simp [h]

theorem get_append (l l' : List (κ × α)) (k : κ) :
    Assoc.get (l ++ l') k = (Assoc.get l k).or (Assoc.get l' k) := by
  induction l with
  | nil => simp [get_nil]
  | cons e l ih =>
    rw [List.cons_append, get_cons, get_cons]
    split <;> simp [ih]

theorem get_none_of_not_any (l : List (κ × α)) (k : κ) (h : l.any (·.1 = k) = false) :
    Assoc.get l k = none := by
  induction l with
  | nil => rfl
  | cons e l ih =>
    simp only [List.any_cons, Bool.or_eq_false_iff, decide_eq_false_iff_not] at h
    rw [get_cons, if_neg h.1, ih h.2]

theorem get_map_same (l : List (κ × α)) (k : κ) (a : α) (h : l.any (·.1 = k) = true) :
    Assoc.get (l.map (fun e => if e.1 = k then (k, a) else e)) k = some a := by
  induction l with
  | nil => simp at h
  | cons e l ih =>
    rw [List.map_cons, get_cons]
    by_cases he : e.1 = k
    · simp [he]
    · simp only [he, if_false]
      apply ih
      simpa [he] using h

theorem get_map_other (l : List (κ × α)) (k k' : κ) (a : α) (h : k' ≠ k) :
    Assoc.get (l.map (fun e => if e.1 = k then (k, a) else e)) k' = Assoc.get l k' := by
  induction l with
  | nil => rfl
  | cons e l ih =>
    rw [List.map_cons, get_cons, get_cons, ih]
    by_cases he : e.1 = k
    · have : ¬ e.1 = k' := fun h' => h (h'.symm.trans he)
      simp [he, Ne.symm h]
    · simp [he]

theorem get_set_same (l : List (κ × α)) (k : κ) (a : α) : Assoc.get (Assoc.set l k a) k = some a := by
  unfold Assoc.set
  split
  · rename_i h; exact get_map_same l k a h
  · rename_i h
    rw [get_append, get_none_of_not_any l k ((Bool.not_eq_true _).mp h)]
    simp [get_cons]

theorem get_set_other (l : List (κ × α)) (k k' : κ) (a : α) (h : k' ≠ k) :
    Assoc.get (Assoc.set l k a) k' = Assoc.get l k' := by
  unfold Assoc.set
  split
  · exact get_map_other l k k' a h
  · rw [get_append]
    simp [get_cons, get_nil, Ne.symm h]

theorem get_set (l : List (κ × α)) (k k' : κ) (a : α) :
    Assoc.get (Assoc.set l k a) k' = if k' = k then some a else Assoc.get l k' := by
  by_cases h : k' = k
  · subst h; simp [get_set_same]
  · simp [h, get_set_other l k k' a h]

theorem del_cons (e : κ × α) (l : List (κ × α)) (k : κ) :
    Assoc.del (e :: l) k = if e.1 = k then Assoc.del l k else e :: Assoc.del l k := by
  unfold Assoc.del
  by_cases h : e.1 = k <;> simp [h]

theorem get_del_same (l : List (κ × α)) (k : κ) : Assoc.get (Assoc.del l k) k = none := by
  induction l with
  | nil => rfl
  | cons e l ih =>
    rw [del_cons]
    by_cases he : e.1 = k
    · rw [if_pos he]; exact ih
    · rw [if_neg he, get_cons, if_neg he]; exact ih

theorem get_del_other (l : List (κ × α)) (k k' : κ) (h : k' ≠ k) :
    Assoc.get (Assoc.del l k) k' = Assoc.get l k' := by
  induction l with
  | nil => rfl
  | cons e l ih =>
    rw [del_cons]
    by_cases he : e.1 = k
    · have : ¬ e.1 = k' := fun h' => h (h'.symm.trans he)
      rw [if_pos he, get_cons, if_neg this]; exact ih
    · rw [if_neg he, get_cons, get_cons, ih]

/-- setting a key to the value it already has changes nothing -/
theorem set_get_self (l : List (κ × α)) (k : κ) (a : α) (h : Assoc.get l k = some a)
    (hk : ∀ e ∈ l, e.1 = k → e.2 = a) : Assoc.set l k a = l := by
  unfold Assoc.set
  have hany : l.any (·.1 = k) = true := by
    cases hh : l.any (·.1 = k) with
    | true => rfl
    | false => rw [get_none_of_not_any l k hh] at h; cases h
  rw [if_pos hany]
  conv => rhs; rw [← List.map_id l]
  apply List.map_congr_left
  intro e he
  by_cases hek : e.1 = k
  · simp only [hek, if_true, id]
    have := hk e he hek
    cases e; simp_all
  · simp [hek]

end Assoc

/-! ### connections and sessions -/

@[simp] theorem conn?_setConn_same (s : BState) (c : ConnId) (x : BConn) : (s.setConn c x).conn? c = some x := by
  simp [conn?, setConn, get_set_same]

theorem conn?_setConn_other (s : BState) (c c' : ConnId) (x : BConn) (h : c' ≠ c) :
    (s.setConn c x).conn? c' = s.conn? c' := by
  simp [conn?, setConn, get_set_other _ _ _ _ h]

theorem conn?_setConn (s : BState) (c c' : ConnId) (x : BConn) :
    (s.setConn c x).conn? c' = if c' = c then some x else s.conn? c' := by
  simp [conn?, setConn, get_set]

@[simp] theorem setConn_bevents (s : BState) (c : ConnId) (x : BConn) : (s.setConn c x).bevents = s.bevents := rfl
@[simp] theorem setConn_stored (s : BState) (c : ConnId) (x : BConn) : (s.setConn c x).stored = s.stored := rfl
@[simp] theorem setConn_temp (s : BState) (c : ConnId) (x : BConn) : (s.setConn c x).temp = s.temp := rfl
@[simp] theorem setConn_activeClients (s : BState) (c : ConnId) (x : BConn) : (s.setConn c x).activeClients = s.activeClients := rfl
@[simp] theorem setConn_retained (s : BState) (c : ConnId) (x : BConn) : (s.setConn c x).retained = s.retained := rfl
@[simp] theorem setConn_rmsgs (s : BState) (c : ConnId) (x : BConn) : (s.setConn c x).rmsgs = s.rmsgs := rfl
@[simp] theorem setConn_cfg (s : BState) (c : ConnId) (x : BConn) : (s.setConn c x).cfg = s.cfg := rfl
@[simp] theorem setConn_closing (s : BState) (c : ConnId) (x : BConn) : (s.setConn c x).closing = s.closing := rfl
@[simp] theorem setConn_lateAck (s : BState) (c : ConnId) (x : BConn) : (s.setConn c x).lateAck = s.lateAck := rfl
@[simp] theorem setConn_neverAck (s : BState) (c : ConnId) (x : BConn) : (s.setConn c x).neverAck = s.neverAck := rfl
@[simp] theorem setConn_pendingAcks (s : BState) (c : ConnId) (x : BConn) : (s.setConn c x).pendingAcks = s.pendingAcks := rfl
@[simp] theorem setConn_nextGroup (s : BState) (c : ConnId) (x : BConn) : (s.setConn c x).nextGroup = s.nextGroup := rfl
@[simp] theorem setConn_conns (s : BState) (c : ConnId) (x : BConn) : (s.setConn c x).conns = Assoc.set s.conns c x := rfl

theorem updConn_of_some (s : BState) (c : ConnId) (f : BConn → BConn) (x : BConn) (h : s.conn? c = some x) :
    s.updConn c f = s.setConn c (f x) := by
  simp [updConn, h]

theorem updConn_of_none (s : BState) (c : ConnId) (f : BConn → BConn) (h : s.conn? c = none) :
    s.updConn c f = s := by
  simp [updConn, h]

/-- the session a reference points to -/
def sessAt (s : BState) (r : SessRef) (c : ConnId) : Option BSess :=
  match r with
  | .none => none
  | .temp => Assoc.get s.temp c
  | .stored id => Assoc.get s.stored id

def setSessAt (s : BState) (r : SessRef) (c : ConnId) (b : BSess) : BState :=
  match r with
  | .none => s
  | .temp => { s with temp := Assoc.set s.temp c b }
  | .stored id => { s with stored := Assoc.set s.stored id b }

theorem sessOf_eq (s : BState) (c : ConnId) (x : BConn) (h : s.conn? c = some x) :
    s.sessOf c = sessAt s x.sref c := by
  cases hr : x.sref <;> simp [sessOf, h, sessAt, hr]

theorem setSessOf_eq (s : BState) (c : ConnId) (x : BConn) (b : BSess) (h : s.conn? c = some x) :
    s.setSessOf c b = setSessAt s x.sref c b := by
  cases hr : x.sref <;> simp [setSessOf, h, setSessAt, hr]

theorem setSessOf_none (s : BState) (c : ConnId) (b : BSess) (h : s.conn? c = none) :
    s.setSessOf c b = s := by
  simp only [setSessOf, h]

theorem sessAt_setSessAt (s : BState) (r : SessRef) (c : ConnId) (b : BSess) (h : r ≠ .none) :
    sessAt (setSessAt s r c b) r c = some b := by
  cases r with
  | none => exact absurd rfl h
  | temp => simp [sessAt, setSessAt, get_set_same]
  | stored id => simp [sessAt, setSessAt, get_set_same]

@[simp] theorem setSessAt_conns (s : BState) (r : SessRef) (c : ConnId) (b : BSess) : (setSessAt s r c b).conns = s.conns := by
  cases r <;> rfl
@[simp] theorem setSessAt_bevents (s : BState) (r : SessRef) (c : ConnId) (b : BSess) : (setSessAt s r c b).bevents = s.bevents := by
  cases r <;> rfl
@[simp] theorem setSessAt_activeClients (s : BState) (r : SessRef) (c : ConnId) (b : BSess) : (setSessAt s r c b).activeClients = s.activeClients := by
  cases r <;> rfl
@[simp] theorem setSessAt_retained (s : BState) (r : SessRef) (c : ConnId) (b : BSess) : (setSessAt s r c b).retained = s.retained := by
  cases r <;> rfl
@[simp] theorem setSessAt_rmsgs (s : BState) (r : SessRef) (c : ConnId) (b : BSess) : (setSessAt s r c b).rmsgs = s.rmsgs := by
  cases r <;> rfl
@[simp] theorem setSessAt_cfg (s : BState) (r : SessRef) (c : ConnId) (b : BSess) : (setSessAt s r c b).cfg = s.cfg := by
  cases r <;> rfl
@[simp] theorem setSessAt_closing (s : BState) (r : SessRef) (c : ConnId) (b : BSess) : (setSessAt s r c b).closing = s.closing := by
  cases r <;> rfl
@[simp] theorem setSessAt_lateAck (s : BState) (r : SessRef) (c : ConnId) (b : BSess) : (setSessAt s r c b).lateAck = s.lateAck := by
  cases r <;> rfl
@[simp] theorem setSessAt_neverAck (s : BState) (r : SessRef) (c : ConnId) (b : BSess) : (setSessAt s r c b).neverAck = s.neverAck := by
  cases r <;> rfl
@[simp] theorem setSessAt_pendingAcks (s : BState) (r : SessRef) (c : ConnId) (b : BSess) : (setSessAt s r c b).pendingAcks = s.pendingAcks := by
  cases r <;> rfl
@[simp] theorem setSessAt_nextGroup (s : BState) (r : SessRef) (c : ConnId) (b : BSess) : (setSessAt s r c b).nextGroup = s.nextGroup := by
  cases r <;> rfl

@[simp] theorem setSessOf_conns (s : BState) (c : ConnId) (b : BSess) : (s.setSessOf c b).conns = s.conns := by
  cases hx : s.conn? c with
  | none => rw [setSessOf_none _ _ _ hx]
  | some x => rw [setSessOf_eq _ _ _ _ hx]; simp
@[simp] theorem setSessOf_conn? (s : BState) (c c' : ConnId) (b : BSess) : (s.setSessOf c b).conn? c' = s.conn? c' := by
  simp [conn?]
@[simp] theorem setSessOf_bevents (s : BState) (c : ConnId) (b : BSess) : (s.setSessOf c b).bevents = s.bevents := by
  cases hx : s.conn? c with
  | none => rw [setSessOf_none _ _ _ hx]
  | some x => rw [setSessOf_eq _ _ _ _ hx]; simp
@[simp] theorem setSessOf_activeClients (s : BState) (c : ConnId) (b : BSess) : (s.setSessOf c b).activeClients = s.activeClients := by
  cases hx : s.conn? c with
  | none => rw [setSessOf_none _ _ _ hx]
  | some x => rw [setSessOf_eq _ _ _ _ hx]; simp
@[simp] theorem setSessOf_retained (s : BState) (c : ConnId) (b : BSess) : (s.setSessOf c b).retained = s.retained := by
  cases hx : s.conn? c with
  | none => rw [setSessOf_none _ _ _ hx]
  | some x => rw [setSessOf_eq _ _ _ _ hx]; simp
@[simp] theorem setSessOf_rmsgs (s : BState) (c : ConnId) (b : BSess) : (s.setSessOf c b).rmsgs = s.rmsgs := by
  cases hx : s.conn? c with
  | none => rw [setSessOf_none _ _ _ hx]
  | some x => rw [setSessOf_eq _ _ _ _ hx]; simp
@[simp] theorem setSessOf_cfg (s : BState) (c : ConnId) (b : BSess) : (s.setSessOf c b).cfg = s.cfg := by
  cases hx : s.conn? c with
  | none => rw [setSessOf_none _ _ _ hx]
  | some x => rw [setSessOf_eq _ _ _ _ hx]; simp
@[simp] theorem setSessOf_closing (s : BState) (c : ConnId) (b : BSess) : (s.setSessOf c b).closing = s.closing := by
  cases hx : s.conn? c with
  | none => rw [setSessOf_none _ _ _ hx]
  | some x => rw [setSessOf_eq _ _ _ _ hx]; simp
@[simp] theorem setSessOf_lateAck (s : BState) (c : ConnId) (b : BSess) : (s.setSessOf c b).lateAck = s.lateAck := by
  cases hx : s.conn? c with
  | none => rw [setSessOf_none _ _ _ hx]
  | some x => rw [setSessOf_eq _ _ _ _ hx]; simp
@[simp] theorem setSessOf_neverAck (s : BState) (c : ConnId) (b : BSess) : (s.setSessOf c b).neverAck = s.neverAck := by
  cases hx : s.conn? c with
  | none => rw [setSessOf_none _ _ _ hx]
  | some x => rw [setSessOf_eq _ _ _ _ hx]; simp
@[simp] theorem setSessOf_pendingAcks (s : BState) (c : ConnId) (b : BSess) : (s.setSessOf c b).pendingAcks = s.pendingAcks := by
  cases hx : s.conn? c with
  | none => rw [setSessOf_none _ _ _ hx]
  | some x => rw [setSessOf_eq _ _ _ _ hx]; simp
@[simp] theorem setSessOf_nextGroup (s : BState) (c : ConnId) (b : BSess) : (s.setSessOf c b).nextGroup = s.nextGroup := by
  cases hx : s.conn? c with
  | none => rw [setSessOf_none _ _ _ hx]
  | some x => rw [setSessOf_eq _ _ _ _ hx]; simp

/-- `sessOf` only looks at the connection record and the two session tables -/
theorem sessOf_congr (s s' : BState) (c : ConnId) (hc : s'.conn? c = s.conn? c) (ht : s'.temp = s.temp)
    (hs : s'.stored = s.stored) : s'.sessOf c = s.sessOf c := by
  simp only [sessOf, hc, ht, hs]

theorem sessOf_setSessOf (s : BState) (c : ConnId) (b b0 : BSess) (h : s.sessOf c = some b0) :
    (s.setSessOf c b).sessOf c = some b := by
  cases hx : s.conn? c with
  | none => simp [sessOf, hx] at h
  | some x =>
    have hx' : (s.setSessOf c b).conn? c = some x := by simp [hx]
    rw [sessOf_eq _ _ _ hx', setSessOf_eq _ _ _ _ hx]
    apply sessAt_setSessAt
    intro h0
    rw [sessOf_eq _ _ _ hx, h0] at h
    cases h

/-! ### `Res` -/

/-- `t` is one of the possible successor states of the outcome `r` -/
def Succ (r : Res) (t : BState) : Prop := ∃ ss, r = .ok ss ∧ t ∈ ss

theorem succ_one (s t : BState) : Succ (Res.one s) t ↔ t = s := by
  constructor
  · rintro ⟨ss, h, hm⟩
    simp only [Res.one, Res.ok.injEq] at h
    subst h; simpa using hm
  · rintro rfl; exact ⟨[t], rfl, by simp⟩

theorem succ_ok (ss : List BState) (t : BState) : Succ (Res.ok ss) t ↔ t ∈ ss := by
  constructor
  · rintro ⟨ss', h, hm⟩; cases h; exact hm
  · intro h; exact ⟨ss, rfl, h⟩

theorem not_succ_unsupported (w : String) (t : BState) : ¬ Succ (Res.unsupported w) t := by
  rintro ⟨ss, h, _⟩; cases h

private def bstep (f : BState → Res) (acc : Res) (s : BState) : Res :=
  match acc, f s with
  | .unsupported w, _ => .unsupported w
  | _, .unsupported w => .unsupported w
  | .ok a, .ok b => .ok (a ++ b)

private theorem bind_eq (ss : List BState) (f : BState → Res) :
    Res.bind (.ok ss) f = ss.foldl (bstep f) (.ok []) := rfl

private theorem foldl_unsupported (f : BState → Res) (w : String) :
    ∀ ss : List BState, ss.foldl (bstep f) (.unsupported w) = .unsupported w := by
  intro ss
  induction ss with
  | nil => rfl
  | cons s ss ih => simpa [List.foldl_cons, bstep] using ih

private theorem foldl_succ (f : BState → Res) :
    ∀ (ss : List BState) (acc ts : List BState), ss.foldl (bstep f) (.ok acc) = .ok ts →
      ∀ t ∈ ts, t ∈ acc ∨ ∃ s ∈ ss, Succ (f s) t := by
  intro ss
  induction ss with
  | nil =>
    intro acc ts h t ht
    simp only [List.foldl_nil, Res.ok.injEq] at h
    subst h; exact Or.inl ht
  | cons s ss ih =>
    intro acc ts h t ht
    rw [List.foldl_cons] at h
    cases hf : f s with
    | unsupported w =>
      have : bstep f (.ok acc) s = .unsupported w := by simp [bstep, hf]
      rw [this, foldl_unsupported] at h; cases h
    | ok b =>
      have : bstep f (.ok acc) s = .ok (acc ++ b) := by simp [bstep, hf]
      rw [this] at h
      rcases ih _ _ h t ht with h1 | ⟨s', hs', h2⟩
      · rcases List.mem_append.mp h1 with h1 | h1
        · exact Or.inl h1
        · exact Or.inr ⟨s, by simp, ⟨b, hf, h1⟩⟩
      · exact Or.inr ⟨s', by simp [hs'], h2⟩

/-- a successor of `bind r f` is a successor of `f s` for a successor `s` of `r` -/
theorem succ_bind (r : Res) (f : BState → Res) (t : BState) (h : Succ (Res.bind r f) t) :
    ∃ s, Succ r s ∧ Succ (f s) t := by
  obtain ⟨ts, h, ht⟩ := h
  cases r with
  | unsupported w => simp [Res.bind] at h
  | ok ss =>
    rw [bind_eq] at h
    rcases foldl_succ f ss [] ts h t ht with h1 | ⟨s, hs, h2⟩
    · simp at h1
    · exact ⟨s, ⟨ss, rfl, hs⟩, h2⟩

theorem bind_one (s : BState) (f : BState → Res) : Res.bind (Res.one s) f = f s := by
  simp only [Res.one, bind_eq, List.foldl_cons, List.foldl_nil]
  cases hf : f s <;> simp [bstep, hf]

private theorem foldl_all_ok (f : BState → Res) :
    ∀ (ss : List BState) (acc : List BState), (∀ s ∈ ss, ∃ b, f s = .ok b) →
      ∃ ts, ss.foldl (bstep f) (.ok acc) = .ok ts ∧ ∀ t, (t ∈ acc ∨ ∃ s ∈ ss, Succ (f s) t) → t ∈ ts := by
  intro ss
  induction ss with
  | nil => intro acc _; exact ⟨acc, rfl, by intro t h; rcases h with h | ⟨s, hs, _⟩; exact h; simp at hs⟩
  | cons s ss ih =>
    intro acc hall
    obtain ⟨b, hf⟩ := hall s (by simp)
    have : bstep f (.ok acc) s = .ok (acc ++ b) := by simp [bstep, hf]
    rw [List.foldl_cons, this]
    obtain ⟨ts, h1, h2⟩ := ih (acc ++ b) (fun s' hs' => hall s' (by simp [hs']))
    refine ⟨ts, h1, ?_⟩
    intro t ht
    apply h2
    rcases ht with ht | ⟨s', hs', ht⟩
    · exact Or.inl (by simp [ht])
    · rcases List.mem_cons.mp hs' with rfl | hs'
      · obtain ⟨b', hb', hm⟩ := ht
        rw [hf] at hb'; cases hb'
        exact Or.inl (by simp [hm])
      · exact Or.inr ⟨s', hs', ht⟩

/-- converse of `succ_bind` when no branch is unsupported -/
theorem succ_bind_intro (ss : List BState) (f : BState → Res) (hall : ∀ s ∈ ss, ∃ b, f s = .ok b)
    (s t : BState) (hs : s ∈ ss) (ht : Succ (f s) t) : Succ (Res.bind (.ok ss) f) t := by
  obtain ⟨ts, h1, h2⟩ := foldl_all_ok f ss [] hall
  exact ⟨ts, by rw [bind_eq, h1], h2 t (Or.inr ⟨s, hs, ht⟩)⟩

/-! ### `backendPublish`, `backendTerminate` -/

/-- what a fan-out never touches in a session entry: key, subscriptions, packet stores, owner -/
def proj {κ : Type} (e : κ × BSess) : κ × Node × MemorySession × Option ConnId := (e.1, e.2.subs, e.2.sess, e.2.active)

theorem enqueue_proj (cfg : Cfg) (b b' : BSess) (m : Message) (g : Nat) (h : enqueue cfg b m g = .ok b') :
    b'.subs = b.subs ∧ b'.sess = b.sess ∧ b'.active = b.active := by
  unfold enqueue at h
  split at h <;> split at h <;> first | (injection h with h; subst h; simp) | cases h

theorem fanTemp_proj (cfg : Cfg) (c : ConnId) (m : Message) (g : Nat) :
    ∀ (l acc l' : List (ConnId × BSess)) (fl : Bool), fanTemp cfg c m g l acc = .ok (l', fl) →
      l'.map proj = acc.reverse.map proj ++ l.map proj := by
  intro l
  induction l with
  | nil =>
    intro acc l' fl h
    simp only [fanTemp, Except.ok.injEq, Prod.mk.injEq] at h
    simp [← h.1]
  | cons e rest ih =>
    intro acc l' fl h
    obtain ⟨k, b⟩ := e
    simp only [fanTemp] at h
    split at h
    · split at h
      · rename_i b' he
        have := ih _ _ _ h
        obtain ⟨h1, h2, h3⟩ := enqueue_proj _ _ _ _ _ he
        simp [this, proj, h1, h2, h3]
      · split at h
        · simp only [Except.ok.injEq, Prod.mk.injEq] at h
          simp [← h.1]
        · cases h
    · have := ih _ _ _ h
      simp [this]

theorem fanStored_proj (cfg : Cfg) (c : ConnId) (m : Message) (g : Nat) :
    ∀ (l acc l' : List (ClientId × BSess)) (fl : Bool), fanStored cfg c m g l acc = .ok (l', fl) →
      l'.map proj = acc.reverse.map proj ++ l.map proj := by
  intro l
  induction l with
  | nil =>
    intro acc l' fl h
    simp only [fanStored, Except.ok.injEq, Prod.mk.injEq] at h
    simp [← h.1]
  | cons e rest ih =>
    intro acc l' fl h
    obtain ⟨k, b⟩ := e
    simp only [fanStored] at h
    split at h
    · split at h
      · rename_i b' he
        have := ih _ _ _ h
        obtain ⟨h1, h2, h3⟩ := enqueue_proj _ _ _ _ _ he
        simp [this, proj, h1, h2, h3]
      · split at h
        · simp only [Except.ok.injEq, Prod.mk.injEq] at h
          simp [← h.1]
        · split at h
          · cases h
          · have := ih _ _ _ h
            simp [this]
    · have := ih _ _ _ h
      simp [this]

/-- `Assoc.get` commutes with the projection -/
theorem get_proj {κ : Type} [DecidableEq κ] (l l' : List (κ × BSess)) (h : l'.map proj = l.map proj) (k : κ) :
    (Assoc.get l' k).map (fun b => (b.subs, b.sess, b.active)) = (Assoc.get l k).map (fun b => (b.subs, b.sess, b.active)) := by
  induction l generalizing l' with
  | nil =>
    cases l' with
    | nil => rfl
    | cons _ _ => simp at h
  | cons e l ih =>
    cases l' with
    | nil => simp at h
    | cons e' l' =>
      simp only [List.map_cons, List.cons.injEq] at h
      obtain ⟨h1, h2⟩ := h
      rw [get_cons, get_cons]
      simp only [proj, Prod.mk.injEq] at h1
      obtain ⟨hk, hs, hm, ha⟩ := h1
      rw [hk]
      split
      · simp [hs, hm, ha]
      · exact ih l' h2

/-- what `backendPublish` changes: one backend event, the retained store, queues of sessions -/
structure PubFrame (s s' : BState) (c : ConnId) (m : Message) : Prop where
  bevents : s'.bevents = s.bevents ++ [BEvent.publish c m]
  conns : s'.conns = s.conns
  activeClients : s'.activeClients = s.activeClients
  cfg : s'.cfg = s.cfg
  closing : s'.closing = s.closing
  lateAck : s'.lateAck = s.lateAck
  neverAck : s'.neverAck = s.neverAck
  pendingAcks : s'.pendingAcks = s.pendingAcks
  temp : s'.temp.map proj = s.temp.map proj
  stored : s'.stored.map proj = s.stored.map proj

/-- the part of `backendPublish` before the fan-out: the backend event and the retained store -/
def pubPre (s : BState) (c : ConnId) (m : Message) : BState :=
  let s := { s with bevents := s.bevents ++ [BEvent.publish c m] }
  if m.retain then
    (if m.payload.length > 0 then
      { s with retained := Tree.set m.topic s.rmsgs.length s.retained, rmsgs := s.rmsgs ++ [m] }
    else { s with retained := Tree.emptyTopic m.topic s.retained })
  else s

theorem backendPublish_eq (s : BState) (c : ConnId) (m : Message) : backendPublish s c m =
  (let s1 := pubPre s c m
   let m' := { m with retain := false }
   let g := s1.nextGroup
   let s2 := { s1 with nextGroup := g + 1 }
   match fanTemp s2.cfg c m' g s2.temp [] with
   | .error e => .unsupported e
   | .ok (temp', full1) =>
     let s3 := { s2 with temp := temp' }
     if full1 then .queueFull s3 else
     match fanStored s3.cfg c m' g s3.stored [] with
     | .error e => .unsupported e
     | .ok (stored', full2) =>
       let s4 := { s3 with stored := stored' }
       if full2 then .queueFull s4 else .ok s4) := rfl

theorem pubPre_frame (s : BState) (c : ConnId) (m : Message) :
    (pubPre s c m).bevents = s.bevents ++ [BEvent.publish c m] ∧ (pubPre s c m).conns = s.conns ∧
    (pubPre s c m).activeClients = s.activeClients ∧ (pubPre s c m).cfg = s.cfg ∧
    (pubPre s c m).closing = s.closing ∧ (pubPre s c m).lateAck = s.lateAck ∧
    (pubPre s c m).neverAck = s.neverAck ∧ (pubPre s c m).pendingAcks = s.pendingAcks ∧
    (pubPre s c m).temp = s.temp ∧ (pubPre s c m).stored = s.stored := by
  unfold pubPre
  split
  · split <;> simp
  · simp

theorem backendPublish_frame (s s' : BState) (c : ConnId) (m : Message)
    (h : backendPublish s c m = .ok s' ∨ backendPublish s c m = .queueFull s') : PubFrame s s' c m := by
  rw [backendPublish_eq] at h
  obtain ⟨p1, p2, p3, p4, p5, p6, p7, p8, p9, p10⟩ := pubPre_frame s c m
  generalize pubPre s c m = s1 at h p1 p2 p3 p4 p5 p6 p7 p8 p9 p10
  simp only [] at h
  split at h
  · rcases h with h | h <;> cases h
  · rename_i temp' full1 hft
    have ht := fanTemp_proj _ _ _ _ _ _ _ _ hft
    simp only [List.reverse_nil, List.map_nil, List.nil_append] at ht
    split at h
    · rcases h with h | h
      · cases h
      · injection h with h; subst h
        exact ⟨p1, p2, p3, p4, p5, p6, p7, p8, by rw [← p9]; exact ht, by rw [← p10]⟩
    · split at h
      · rcases h with h | h <;> cases h
      · rename_i stored' full2 hfs
        have hs := fanStored_proj _ _ _ _ _ _ _ _ hfs
        simp only [List.reverse_nil, List.map_nil, List.nil_append] at hs
        have : PubFrame s { s1 with nextGroup := s1.nextGroup + 1, temp := temp', stored := stored' } c m :=
          ⟨p1, p2, p3, p4, p5, p6, p7, p8, by rw [← p9]; exact ht, by rw [← p10]; exact hs⟩
        split at h
        · rcases h with h | h
          · cases h
          · injection h with h; subst h; exact this
        · rcases h with h | h
          · injection h with h; subst h; exact this
          · cases h

/-- the session `c` uses, after a fan-out: same subscriptions, packet stores and owner -/
theorem PubFrame.sessOf {s s' : BState} {c : ConnId} {m : Message} (f : PubFrame s s' c m) (c' : ConnId) :
    (s'.sessOf c').map (fun b => (b.subs, b.sess, b.active)) = (s.sessOf c').map (fun b => (b.subs, b.sess, b.active)) := by
  have hc : s'.conn? c' = s.conn? c' := by simp [conn?, f.conns]
  cases hx : s.conn? c' with
  | none => simp [BState.sessOf, hx, hc]
  | some x =>
    rw [sessOf_eq _ _ _ hx, sessOf_eq _ _ _ (hc.trans hx)]
    cases x.sref with
    | none => rfl
    | temp => exact get_proj _ _ f.temp _
    | stored id => exact get_proj _ _ f.stored _

theorem PubFrame.conn? {s s' : BState} {c : ConnId} {m : Message} (f : PubFrame s s' c m) (c' : ConnId) :
    s'.conn? c' = s.conn? c' := by simp [BState.conn?, f.conns]

/-! ### the incoming packet store of a stored session -/

/-- the QoS 2 PUBLISH packets received but not yet released, of the stored session `cid` -/
def incomingOf (s : BState) (cid : ClientId) : Option PacketStore := (Assoc.get s.stored cid).map (·.sess.incoming)

theorem incomingOf_congr (s t : BState) (h : t.stored = s.stored) (cid : ClientId) : incomingOf t cid = incomingOf s cid := by
  simp [incomingOf, h]

theorem incomingOf_setSessOf (s : BState) (c : ConnId) (b b' : BSess) (h : s.sessOf c = some b)
    (hi : b'.sess.incoming = b.sess.incoming) (cid : ClientId) :
    incomingOf (s.setSessOf c b') cid = incomingOf s cid := by
  cases hx : s.conn? c with
  | none => rw [setSessOf_none _ _ _ hx]
  | some x =>
    rw [setSessOf_eq _ _ _ _ hx]
    rw [sessOf_eq _ _ _ hx] at h
    cases hr : x.sref with
    | none => rfl
    | temp => rfl
    | stored id =>
      rw [hr] at h
      simp only [sessAt] at h
      simp only [incomingOf, setSessAt, get_set]
      split
      · rename_i hc; subst hc; simp [h, hi]
      · rfl

theorem PubFrame.incomingOf {s s' : BState} {c : ConnId} {m : Message} (f : PubFrame s s' c m) (cid : ClientId) :
    incomingOf s' cid = incomingOf s cid := by
  have := get_proj _ _ f.stored cid
  unfold BrokerB2.incomingOf
  cases h1 : Assoc.get s'.stored cid <;> cases h2 : Assoc.get s.stored cid <;> simp_all

/-! ### `backendTerminate` -/

structure TermFrame (s t : BState) (c : ConnId) : Prop where
  bevents : t.bevents = s.bevents ++ [BEvent.terminate c]
  conns : t.conns = s.conns
  cfg : t.cfg = s.cfg
  closing : t.closing = s.closing
  lateAck : t.lateAck = s.lateAck
  neverAck : t.neverAck = s.neverAck
  pendingAcks : t.pendingAcks = s.pendingAcks
  retained : t.retained = s.retained
  rmsgs : t.rmsgs = s.rmsgs
  incoming : ∀ cid, incomingOf t cid = incomingOf s cid

theorem backendTerminate_frame (s : BState) (c : ConnId) : TermFrame s (backendTerminate s c) c := by
  unfold backendTerminate
  simp only []
  generalize hs1 : ({ s with bevents := s.bevents ++ [BEvent.terminate c] } : BState) = s1
  have e1 : s1.bevents = s.bevents ++ [BEvent.terminate c] := by subst hs1; rfl
  have e2 : s1.conns = s.conns := by subst hs1; rfl
  have e3 : s1.cfg = s.cfg := by subst hs1; rfl
  have e4 : s1.closing = s.closing := by subst hs1; rfl
  have e5 : s1.lateAck = s.lateAck := by subst hs1; rfl
  have e6 : s1.neverAck = s.neverAck := by subst hs1; rfl
  have e7 : s1.pendingAcks = s.pendingAcks := by subst hs1; rfl
  have e8 : s1.retained = s.retained := by subst hs1; rfl
  have e9 : s1.rmsgs = s.rmsgs := by subst hs1; rfl
  have e10 : ∀ cid, incomingOf s1 cid = incomingOf s cid := by subst hs1; intro cid; rfl
  split
  · rename_i b hb
    refine ⟨by simp [e1], by simp [e2], by simp [e3], by simp [e4], by simp [e5], by simp [e6], by simp [e7],
      by simp [e8], by simp [e9], ?_⟩
    intro cid
    rw [← e10 cid, ← incomingOf_setSessOf s1 c b { b with active := none } hb rfl cid]
    rfl
  · exact ⟨e1, e2, e3, e4, e5, e6, e7, e8, e9, e10⟩

/-! ### `lastDequeue` -/

theorem savePacket_outgoing_incoming (ms : MemorySession) (p : Packet) :
    (ms.savePacket .outgoing p).incoming = ms.incoming := by
  simp [MemorySession.savePacket, MemorySession.setStore]

theorem nextID_incoming (ms : MemorySession) : ms.nextID.2.incoming = ms.incoming := rfl

/-- an alternative of `lastDequeue` differs from `s` at most in the session of `c`: its queues, its
    outgoing store and its id counter -/
theorem lastDequeue_mem (s s1 : BState) (c : ConnId) (x : BConn) (h : s1 ∈ lastDequeue s c x) :
    s1 = s ∨ ∃ b b', s.sessOf c = some b ∧ s1 = s.setSessOf c b' ∧ b'.sess.incoming = b.sess.incoming ∧
      b'.subs = b.subs ∧ b'.active = b.active ∧ x.running = true ∧ x.deqHand = true := by
  unfold lastDequeue at h
  split at h
  · simp at h; exact Or.inl h
  · rename_i hrd
    have hrd' : x.running = true ∧ x.deqHand = true := by simpa using hrd
    split at h
    · simp at h; exact Or.inl h
    · rename_i b hb
      simp only [List.mem_cons, List.mem_append] at h
      have key : ∀ (sq : List Message) (tq : List (Nat × Message)) (m : Message),
          ∀ s1, s1 = (if (applyQOS b m).qos = 0 then s.setSessOf c ⟨b.subs, sq, tq, b.sess, b.active⟩
                  else if (b.sess.freshID).1 = 0 then s.setSessOf c ⟨b.subs, sq, tq, (b.sess.freshID).2, b.active⟩
                  else s.setSessOf c ⟨b.subs, sq, tq, (b.sess.freshID).2.savePacket .outgoing (.publish (applyQOS b m) false (b.sess.freshID).1), b.active⟩) →
          ∃ b0 b', s.sessOf c = some b0 ∧ s1 = s.setSessOf c b' ∧ b'.sess.incoming = b0.sess.incoming ∧
            b'.subs = b0.subs ∧ b'.active = b0.active ∧ x.running = true ∧ x.deqHand = true := by
        intro sq tq m s1 hs1
        split at hs1
        · exact ⟨b, _, hb, hs1, rfl, rfl, rfl, hrd'⟩
        · split at hs1
          · refine ⟨b, _, hb, hs1, ?_, rfl, rfl, hrd'⟩
            simp only [MemorySession.freshID_incoming]
          · refine ⟨b, _, hb, hs1, ?_, rfl, rfl, hrd'⟩
            simp only [savePacket_outgoing_incoming, MemorySession.freshID_incoming]
      rcases h with h | h | h
      · exact Or.inl h
      · right
        split at h
        · simp only [List.mem_singleton] at h
          exact key _ _ _ s1 h
        · simp at h
      · right
        split at h
        · simp at h
        · simp only [List.mem_map] at h
          obtain ⟨e, _, he⟩ := h
          exact key _ _ _ s1 he.symm

/-! ### `cleanup` and `kill` -/

/-- the will publication of a dying connection -/
def willEv (c : ConnId) (x : BConn) : List BEvent :=
  match x.phase, x.will with
  | .connected, some w => [BEvent.publish c w]
  | _, _ => []

/-- the `Terminate` call of a dying connection -/
def termEv (c : ConnId) (x : BConn) : List BEvent :=
  if x.phase = .connecting then [] else [BEvent.terminate c]

/-- what the death of a connection leaves alone -/
structure DieFrame (s t : BState) (ev : List BEvent) : Prop where
  bevents : t.bevents = s.bevents ++ ev
  conns : t.conns = s.conns
  cfg : t.cfg = s.cfg
  closing : t.closing = s.closing
  lateAck : t.lateAck = s.lateAck
  neverAck : t.neverAck = s.neverAck
  pendingAcks : t.pendingAcks = s.pendingAcks
  incoming : ∀ cid, incomingOf t cid = incomingOf s cid

theorem DieFrame.refl (s : BState) : DieFrame s s [] := ⟨by simp, rfl, rfl, rfl, rfl, rfl, rfl, fun _ => rfl⟩

theorem DieFrame.trans {s t u : BState} {e1 e2 : List BEvent} (h1 : DieFrame s t e1) (h2 : DieFrame t u e2) :
    DieFrame s u (e1 ++ e2) :=
  ⟨by rw [h2.bevents, h1.bevents, List.append_assoc], h2.conns.trans h1.conns, h2.cfg.trans h1.cfg,
   h2.closing.trans h1.closing, h2.lateAck.trans h1.lateAck, h2.neverAck.trans h1.neverAck,
   h2.pendingAcks.trans h1.pendingAcks, fun cid => (h2.incoming cid).trans (h1.incoming cid)⟩

theorem PubFrame.die {s s' : BState} {c : ConnId} {m : Message} (f : PubFrame s s' c m) :
    DieFrame s s' [BEvent.publish c m] :=
  ⟨f.bevents, f.conns, f.cfg, f.closing, f.lateAck, f.neverAck, f.pendingAcks, f.incomingOf⟩

theorem TermFrame.die {s t : BState} {c : ConnId} (f : TermFrame s t c) : DieFrame s t [BEvent.terminate c] :=
  ⟨f.bevents, f.conns, f.cfg, f.closing, f.lateAck, f.neverAck, f.pendingAcks, f.incoming⟩

theorem DieFrame.conn? {s t : BState} {ev : List BEvent} (f : DieFrame s t ev) (c : ConnId) : t.conn? c = s.conn? c := by
  simp [BState.conn?, f.conns]

theorem cleanup_succ (s t : BState) (c : ConnId) (x : BConn) (h : Succ (cleanup s c x) t) :
    DieFrame s t (willEv c x ++ termEv c x) := by
  unfold cleanup at h
  simp only [] at h
  obtain ⟨s1, h1, h2⟩ := succ_bind _ _ _ h
  have f1 : DieFrame s s1 (willEv c x) := by
    unfold willEv
    split at h1
    · rename_i w hp hw
      split at h1
      · rename_i s' hbp
        rw [succ_one] at h1; subst h1
        rw [hp, hw]
        exact (backendPublish_frame _ _ _ _ (Or.inl hbp)).die
      · rename_i s' hbp
        rw [succ_one] at h1; subst h1
        rw [hp, hw]
        exact (backendPublish_frame _ _ _ _ (Or.inr hbp)).die
      · exact absurd h1 (not_succ_unsupported _ _)
    · rename_i hn
      rw [succ_one] at h1; subst h1
      split
      · rename_i w hp hw; exact absurd hw (hn _ hp)
      · exact DieFrame.refl _
  have f2 : DieFrame s1 t (termEv c x) := by
    unfold termEv
    split at h2
    · rename_i hp
      rw [succ_one] at h2; subst h2
      rw [if_neg hp]
      exact (backendTerminate_frame _ _).die
    · rename_i hp
      rw [succ_one] at h2; subst h2
      rw [if_pos (by simpa using hp)]
      exact DieFrame.refl _
  exact f1.trans f2

theorem lastDequeue_frame (s s1 : BState) (c : ConnId) (x : BConn) (h : s1 ∈ lastDequeue s c x) :
    DieFrame s s1 [] := by
  rcases lastDequeue_mem s s1 c x h with rfl | ⟨b, b', hb, rfl, hi, _, _, _, _⟩
  · exact DieFrame.refl _
  · exact ⟨by simp, by simp, by simp, by simp, by simp, by simp, by simp, incomingOf_setSessOf s c b b' hb hi⟩

theorem lastDequeue_not_running (s : BState) (c : ConnId) (x : BConn) (h : x.running = false) :
    lastDequeue s c x = [s] := by
  simp [lastDequeue, h]

/-- the record of a connection after `die`/`Close`: a stalled connection cannot run `cleanup` yet -/
def closedRec (x : BConn) : BConn :=
  if x.stalled then { x with alive := false, running := false, zombie := true }
  else { x with alive := false, running := false }

@[simp] theorem closedRec_alive (x : BConn) : (closedRec x).alive = false := by unfold closedRec; split <;> rfl
@[simp] theorem closedRec_phase (x : BConn) : (closedRec x).phase = x.phase := by unfold closedRec; split <;> rfl
@[simp] theorem closedRec_procOut (x : BConn) : (closedRec x).procOut = x.procOut := by unfold closedRec; split <;> rfl
@[simp] theorem closedRec_ackOut (x : BConn) : (closedRec x).ackOut = x.ackOut := by unfold closedRec; split <;> rfl
@[simp] theorem closedRec_will (x : BConn) : (closedRec x).will = x.will := by unfold closedRec; split <;> rfl
@[simp] theorem closedRec_sref (x : BConn) : (closedRec x).sref = x.sref := by unfold closedRec; split <;> rfl
@[simp] theorem closedRec_id (x : BConn) : (closedRec x).id = x.id := by unfold closedRec; split <;> rfl
@[simp] theorem closedRec_stalled (x : BConn) : (closedRec x).stalled = x.stalled := by unfold closedRec; split <;> rfl
@[simp] theorem closedRec_running (x : BConn) : (closedRec x).running = false := by unfold closedRec; split <;> rfl
theorem closedRec_zombie (x : BConn) : (closedRec x).zombie = (x.stalled || x.zombie) := by
  unfold closedRec; split <;> simp_all

theorem kill_none (s : BState) (c : ConnId) (h : s.conn? c = none) : kill s c = .one s := by
  simp [kill, h]

theorem kill_dead (s : BState) (c : ConnId) (x : BConn) (h : s.conn? c = some x) (ha : x.alive = false) :
    kill s c = .one s := by
  simp [kill, h, ha]

theorem kill_alive (s : BState) (c : ConnId) (x : BConn) (h : s.conn? c = some x) (ha : x.alive = true) :
    kill s c = Res.bind (.ok (lastDequeue s c x)) fun s1 =>
      if x.stalled then .one (s1.setConn c { x with alive := false, running := false, zombie := true })
      else cleanup (s1.setConn c { x with alive := false, running := false }) c x := by
  simp [kill, h, ha]

/-- the events a dying connection causes at once -/
def dieEv (c : ConnId) (x : BConn) : List BEvent := if x.stalled then [] else willEv c x ++ termEv c x

/-- effect of `kill` on a live connection -/
structure KillFrame (s t : BState) (c : ConnId) (x : BConn) : Prop where
  bevents : t.bevents = s.bevents ++ dieEv c x
  conns : t.conns = Assoc.set s.conns c (closedRec x)
  cfg : t.cfg = s.cfg
  closing : t.closing = s.closing
  lateAck : t.lateAck = s.lateAck
  neverAck : t.neverAck = s.neverAck
  pendingAcks : t.pendingAcks = s.pendingAcks
  incoming : ∀ cid, incomingOf t cid = incomingOf s cid

theorem kill_frame (s t : BState) (c : ConnId) (x : BConn) (h : s.conn? c = some x) (ha : x.alive = true)
    (ht : Succ (kill s c) t) : KillFrame s t c x := by
  rw [kill_alive s c x h ha] at ht
  obtain ⟨s1, hs1, ht⟩ := succ_bind _ _ _ ht
  rw [succ_ok] at hs1
  have f1 := lastDequeue_frame s s1 c x hs1
  by_cases hst : x.stalled = true
  · rw [if_pos hst, succ_one] at ht
    subst ht
    have hd : dieEv c x = [] := by simp [dieEv, hst]
    have hc : closedRec x = { x with alive := false, running := false, zombie := true } := by simp [closedRec, hst]
    exact ⟨by rw [hd]; simpa using f1.bevents, by rw [hc]; simp [f1.conns], by simp [f1.cfg], by simp [f1.closing], by simp [f1.lateAck],
      by simp [f1.neverAck], by simp [f1.pendingAcks], fun cid => (incomingOf_congr s1 _ rfl cid).trans (f1.incoming cid)⟩
  · rw [if_neg hst] at ht
    have f2 := cleanup_succ _ _ _ _ ht
    have hd : dieEv c x = willEv c x ++ termEv c x := by simp [dieEv, hst]
    have hc : closedRec x = { x with alive := false, running := false } := by simp [closedRec, hst]
    exact ⟨by rw [hd, f2.bevents]; simp [f1.bevents], by rw [hc, f2.conns]; simp [f1.conns], by rw [f2.cfg]; simp [f1.cfg],
      by rw [f2.closing]; simp [f1.closing], by rw [f2.lateAck]; simp [f1.lateAck], by rw [f2.neverAck]; simp [f1.neverAck],
      by rw [f2.pendingAcks]; simp [f1.pendingAcks],
      fun cid => (f2.incoming cid).trans ((incomingOf_congr s1 _ rfl cid).trans (f1.incoming cid))⟩

theorem KillFrame.conn?_same {s t : BState} {c : ConnId} {x : BConn} (f : KillFrame s t c x) :
    t.conn? c = some (closedRec x) := by
  simp [BState.conn?, f.conns, get_set_same]

theorem KillFrame.conn?_other {s t : BState} {c : ConnId} {x : BConn} (f : KillFrame s t c x) (c' : ConnId)
    (h : c' ≠ c) : t.conn? c' = s.conn? c' := by
  simp [BState.conn?, f.conns, get_set_other _ _ _ _ h]

/-- a connection that is still waiting for its CONNECT and never started its dequeuer dies silently -/
theorem kill_connecting (s : BState) (c : ConnId) (x : BConn) (h : s.conn? c = some x) (ha : x.alive = true)
    (hp : x.phase = .connecting) (hr : x.running = false) : kill s c = .one (s.setConn c (closedRec x)) := by
  rw [kill_alive s c x h ha, lastDequeue_not_running s c x hr]
  show Res.bind (Res.one s) _ = _
  rw [bind_one]
  by_cases hst : x.stalled = true
  · simp [hst, closedRec]
  · simp only [hst, closedRec]
    simp [cleanup, hp, bind_one]

/-- after `kill` the connection is closed; what it had queued for sending is as before -/
theorem kill_conn_after (s t : BState) (c : ConnId) (x : BConn) (h : s.conn? c = some x) (ht : Succ (kill s c) t) :
    ∃ x', t.conn? c = some x' ∧ x'.alive = false ∧ x'.procOut = x.procOut ∧ x'.ackOut = x.ackOut ∧
      x'.phase = x.phase ∧ x'.will = x.will ∧ x'.sref = x.sref ∧ x'.id = x.id := by
  cases ha : x.alive with
  | false =>
    rw [kill_dead s c x h ha, succ_one] at ht
    subst ht
    exact ⟨x, h, ha, rfl, rfl, rfl, rfl, rfl, rfl⟩
  | true =>
    have f := kill_frame s t c x h ha ht
    exact ⟨closedRec x, f.conn?_same, by simp, by simp, by simp, by simp, by simp, by simp, by simp⟩

/-- `kill c` leaves every other connection record alone -/
theorem kill_conn_other (s t : BState) (c c' : ConnId) (hc : c' ≠ c) (ht : Succ (kill s c) t) :
    t.conn? c' = s.conn? c' := by
  cases h : s.conn? c with
  | none => rw [kill_none s c h, succ_one] at ht; subst ht; rfl
  | some x =>
    cases ha : x.alive with
    | false => rw [kill_dead s c x h ha, succ_one] at ht; subst ht; rfl
    | true => exact (kill_frame s t c x h ha ht).conn?_other c' hc

/-! ### more frames -/

theorem sessAt_setConn (s : BState) (c c' : ConnId) (x : BConn) (r : SessRef) :
    sessAt (s.setConn c x) r c' = sessAt s r c' := by
  cases r <;> rfl

theorem sessOf_setConn_same (s : BState) (c : ConnId) (x x1 : BConn) (h : s.conn? c = some x)
    (hr : x1.sref = x.sref) : (s.setConn c x1).sessOf c = s.sessOf c := by
  rw [sessOf_eq _ _ _ (conn?_setConn_same s c x1), sessOf_eq _ _ _ h, hr, sessAt_setConn]

theorem sessOf_setConn_other (s : BState) (c c' : ConnId) (x1 : BConn) (h : c' ≠ c) :
    (s.setConn c x1).sessOf c' = s.sessOf c' := by
  cases hx : s.conn? c' with
  | none => simp [sessOf, conn?_setConn_other _ _ _ _ h, hx]
  | some x =>
    rw [sessOf_eq _ _ _ ((conn?_setConn_other _ _ _ _ h).trans hx), sessOf_eq _ _ _ hx, sessAt_setConn]

theorem queueRetained_sess (cfg : Cfg) (ms : List Message) (g : Nat) :
    ∀ (b b' : BSess), queueRetained cfg b ms g = some b' → b'.sess = b.sess ∧ b'.subs = b.subs ∧ b'.active = b.active := by
  induction ms with
  | nil => intro b b' h; simp [queueRetained] at h; subst h; exact ⟨rfl, rfl, rfl⟩
  | cons m rest ih =>
    intro b b' h
    simp only [queueRetained] at h
    split at h
    · have := ih _ _ h; exact this
    · cases h

/-- `subscribeRetained` only appends to the temporary queue of `c`'s session -/
structure SubFrame (s t : BState) : Prop where
  bevents : t.bevents = s.bevents
  conns : t.conns = s.conns
  activeClients : t.activeClients = s.activeClients
  cfg : t.cfg = s.cfg
  closing : t.closing = s.closing
  lateAck : t.lateAck = s.lateAck
  neverAck : t.neverAck = s.neverAck
  pendingAcks : t.pendingAcks = s.pendingAcks
  retained : t.retained = s.retained
  rmsgs : t.rmsgs = s.rmsgs
  incoming : ∀ cid, incomingOf t cid = incomingOf s cid

theorem SubFrame.refl (s : BState) : SubFrame s s := ⟨rfl, rfl, rfl, rfl, rfl, rfl, rfl, rfl, rfl, rfl, fun _ => rfl⟩

theorem subscribeRetained_frame (c : ConnId) (subs : List Subscription) :
    ∀ (s s' : BState), (subscribeRetained s c subs = .ok s' ∨ subscribeRetained s c subs = .queueFull s') →
      SubFrame s s' := by
  induction subs with
  | nil =>
    intro s s' h
    simp only [subscribeRetained] at h
    rcases h with h | h
    · injection h with h; subst h; exact SubFrame.refl _
    · cases h
  | cons sub rest ih =>
    intro s s' h
    simp only [subscribeRetained] at h
    split at h
    · rcases h with h | h
      · injection h with h; subst h; exact SubFrame.refl _
      · cases h
    · rename_i b hb
      split at h
      · rename_i b' hq
        have f := ih _ _ h
        obtain ⟨q1, _, _⟩ := queueRetained_sess _ _ _ _ _ hq
        exact ⟨by simpa using f.bevents, by simpa using f.conns, by simpa using f.activeClients,
          by simpa using f.cfg, by simpa using f.closing, by simpa using f.lateAck, by simpa using f.neverAck,
          by simpa using f.pendingAcks, by simpa using f.retained, by simpa using f.rmsgs,
          fun cid => (f.incoming cid).trans ((incomingOf_congr (s.setSessOf c b') _ rfl cid).trans
            (incomingOf_setSessOf s c b b' hb (by rw [q1]) cid))⟩
      · rcases h with h | h
        · cases h
        · injection h with h; subst h; exact SubFrame.refl _

theorem SubFrame.conn? {s t : BState} (f : SubFrame s t) (c : ConnId) : t.conn? c = s.conn? c := by
  simp [BState.conn?, f.conns]

/-! ### `ackVia` -/

/-- the acker's queue gets the packet (if the connection still lives) -/
def pushAck (p : Packet) (x : BConn) : BConn := if x.alive then { x with ackOut := x.ackOut ++ [p] } else x

theorem ackVia_sync (s : BState) (c : ConnId) (p : Packet) (pre : BState → BState)
    (hl : s.lateAck = false) (hn : s.neverAck = false) :
    ackVia s c p pre = (pre s).updConn c (pushAck p) := by
  simp only [ackVia, hl, hn, Bool.false_eq_true, if_false]
  rfl

theorem ackVia_late (s : BState) (c : ConnId) (p : Packet) (pre : BState → BState)
    (hl : s.lateAck = true) (hn : s.neverAck = false) :
    ackVia s c p pre = { s with pendingAcks := s.pendingAcks ++ [⟨c, p⟩] } := by
  simp [ackVia, hl, hn]

theorem ackVia_never (s : BState) (c : ConnId) (p : Packet) (pre : BState → BState)
    (hn : s.neverAck = true) : ackVia s c p pre = s := by
  simp [ackVia, hn]

/-! ### what is queued for sending; closed connections stay closed -/

/-- the packets the processor / the acker of connection `c` still have to write -/
def outsOf (s : BState) (c : ConnId) : Option (List Packet × List Packet) :=
  (s.conn? c).map fun x => (x.procOut, x.ackOut)

/-- a closed connection stays closed -/
def DeadStayAt (s t : BState) (c : ConnId) : Prop :=
  ∀ x, s.conn? c = some x → x.alive = false → ∃ x', t.conn? c = some x' ∧ x'.alive = false

theorem DeadStayAt.of_eq {s t : BState} {c : ConnId} (h : t.conn? c = s.conn? c) : DeadStayAt s t c :=
  fun x hx ha => ⟨x, h.trans hx, ha⟩

theorem DeadStayAt.trans {s t u : BState} {c : ConnId} (h1 : DeadStayAt s t c) (h2 : DeadStayAt t u c) :
    DeadStayAt s u c := by
  intro x hx ha
  obtain ⟨x', hx', ha'⟩ := h1 x hx ha
  exact h2 x' hx' ha'

/-- no connection got anything new to send, and none came back to life -/
def OutsSame (s t : BState) : Prop := ∀ c, outsOf t c = outsOf s c ∧ DeadStayAt s t c

theorem OutsSame.refl (s : BState) : OutsSame s s := fun _ => ⟨rfl, DeadStayAt.of_eq rfl⟩

theorem OutsSame.trans {s t u : BState} (h1 : OutsSame s t) (h2 : OutsSame t u) : OutsSame s u :=
  fun c => ⟨(h2 c).1.trans (h1 c).1, (h1 c).2.trans (h2 c).2⟩

theorem OutsSame.of_conns {s t : BState} (h : t.conns = s.conns) : OutsSame s t := by
  intro c
  have : t.conn? c = s.conn? c := by simp [conn?, h]
  exact ⟨by simp [outsOf, this], DeadStayAt.of_eq this⟩

theorem kill_outsSame (s t : BState) (c : ConnId) (ht : Succ (kill s c) t) : OutsSame s t := by
  intro c'
  by_cases hc : c' = c
  · subst hc
    cases h : s.conn? c' with
    | none => rw [kill_none s c' h, succ_one] at ht; subst ht; exact ⟨rfl, DeadStayAt.of_eq rfl⟩
    | some x =>
      obtain ⟨x', hx', hal, h1, h2, _⟩ := kill_conn_after s t c' x h ht
      exact ⟨by simp [outsOf, hx', h, h1, h2], fun _ _ _ => ⟨x', hx', hal⟩⟩
  · have := kill_conn_other s t c c' hc ht
    exact ⟨by simp [outsOf, this], DeadStayAt.of_eq this⟩

/-- connection `c` got `lp` appended to what its processor writes and `la` to its acknowledgement
    queue; no other connection got anything; no closed connection came back to life -/
structure OutsPush (s t : BState) (c : ConnId) (lp la : List Packet) : Prop where
  other : ∀ c', c' ≠ c → outsOf t c' = outsOf s c' ∧ DeadStayAt s t c'
  same : ∃ x x', s.conn? c = some x ∧ t.conn? c = some x' ∧ x'.procOut = x.procOut ++ lp ∧
    x'.ackOut = x.ackOut ++ la ∧ (x.alive = false → x'.alive = false)

theorem OutsPush.of_setConn (s : BState) (c : ConnId) (x x' : BConn) (lp la : List Packet) (h : s.conn? c = some x)
    (hp : x'.procOut = x.procOut ++ lp) (hq : x'.ackOut = x.ackOut ++ la) (hal : x'.alive = x.alive) :
    OutsPush s (s.setConn c x') c lp la :=
  ⟨fun c' hc => ⟨by simp [outsOf, conn?_setConn_other _ _ _ _ hc], DeadStayAt.of_eq (conn?_setConn_other _ _ _ _ hc)⟩,
   x, x', h, conn?_setConn_same _ _ _, hp, hq, fun h => hal.trans h⟩

theorem OutsSame.toPush {s t : BState} (h : OutsSame s t) (c : ConnId) (x : BConn) (hx : s.conn? c = some x) :
    OutsPush s t c [] [] := by
  refine ⟨fun c' _ => h c', ?_⟩
  obtain ⟨this, hd⟩ := h c
  simp only [outsOf, hx, Option.map_some] at this
  cases ht : t.conn? c with
  | none => simp [ht] at this
  | some x' =>
    simp only [ht, Option.map_some, Option.some.injEq, Prod.mk.injEq] at this
    refine ⟨x, x', hx, rfl, by simp [this.1], by simp [this.2], ?_⟩
    intro ha
    obtain ⟨x'', hx'', ha''⟩ := hd x hx ha
    rw [ht] at hx''; cases hx''; exact ha''

theorem OutsSame.push {s s1 t : BState} {c : ConnId} {lp la : List Packet} (h1 : OutsSame s s1)
    (h2 : OutsPush s1 t c lp la) : OutsPush s t c lp la := by
  refine ⟨fun c' hc => ⟨((h2.other c' hc).1).trans (h1 c').1, (h1 c').2.trans (h2.other c' hc).2⟩, ?_⟩
  obtain ⟨x1, x', e1, e2, e3, e4, e5⟩ := h2.same
  obtain ⟨this, hd⟩ := h1 c
  simp only [outsOf, e1, Option.map_some] at this
  cases hs : s.conn? c with
  | none => simp [hs] at this
  | some x =>
    simp only [hs, Option.map_some, Option.some.injEq, Prod.mk.injEq] at this
    refine ⟨x, x', rfl, e2, by rw [e3, this.1], by rw [e4, this.2], ?_⟩
    intro ha
    obtain ⟨x1', hx1', ha1⟩ := hd x hs ha
    rw [e1] at hx1'; cases hx1'; exact e5 ha1

theorem OutsPush.thenSame {s s1 t : BState} {c : ConnId} {lp la : List Packet} (h1 : OutsPush s s1 c lp la)
    (h2 : OutsSame s1 t) : OutsPush s t c lp la := by
  refine ⟨fun c' hc => ⟨(h2 c').1.trans (h1.other c' hc).1, (h1.other c' hc).2.trans (h2 c').2⟩, ?_⟩
  obtain ⟨x, x1, e1, e2, e3, e4, e5⟩ := h1.same
  obtain ⟨this, hd⟩ := h2 c
  simp only [outsOf, e2, Option.map_some] at this
  cases ht : t.conn? c with
  | none => simp [ht] at this
  | some x' =>
    simp only [ht, Option.map_some, Option.some.injEq, Prod.mk.injEq] at this
    refine ⟨x, x', e1, rfl, by rw [this.1, e3], by rw [this.2, e4], ?_⟩
    intro ha
    obtain ⟨x'', hx'', ha''⟩ := hd x1 e2 (e5 ha)
    rw [ht] at hx''; cases hx''; exact ha''

theorem OutsPush.thenPush {s s1 t : BState} {c : ConnId} {lp la lp' la' : List Packet} (h1 : OutsPush s s1 c lp la)
    (h2 : OutsPush s1 t c lp' la') : OutsPush s t c (lp ++ lp') (la ++ la') := by
  refine ⟨fun c' hc => ⟨(h2.other c' hc).1.trans (h1.other c' hc).1, (h1.other c' hc).2.trans (h2.other c' hc).2⟩, ?_⟩
  obtain ⟨x, x1, e1, e2, e3, e4, e5⟩ := h1.same
  obtain ⟨x1', x', f1, f2, f3, f4, f5⟩ := h2.same
  rw [e2] at f1; cases f1
  exact ⟨x, x', e1, f2, by rw [f3, e3, List.append_assoc], by rw [f4, e4, List.append_assoc], fun ha => f5 (e5 ha)⟩

/-- what `OutsPush` says about any connection at all -/
theorem OutsPush.deadStay {s t : BState} {c : ConnId} {lp la : List Packet} (h : OutsPush s t c lp la) (c' : ConnId) :
    DeadStayAt s t c' := by
  by_cases hc : c' = c
  · subst hc
    obtain ⟨x, x', e1, e2, _, _, e5⟩ := h.same
    intro x0 hx0 ha
    rw [e1] at hx0; cases hx0
    exact ⟨x', e2, e5 ha⟩
  · exact (h.other c' hc).2

theorem OutsSame.setSessOf (s : BState) (c : ConnId) (b : BSess) : OutsSame s (s.setSessOf c b) :=
  OutsSame.of_conns (by simp)

theorem forgetIncoming_conns (c : ConnId) (id : UInt16) (s : BState) : (forgetIncoming c id s).conns = s.conns := by
  unfold forgetIncoming; split <;> simp

theorem ackPre_conns (c : ConnId) (p : Packet) (s : BState) : (ackPre c p s).conns = s.conns := by
  unfold ackPre; split
  · exact forgetIncoming_conns _ _ _
  · rfl

/-- `ackVia` queues at most the one acknowledgement, for `c` only -/
theorem ackVia_push (s : BState) (c : ConnId) (x : BConn) (p : Packet) (pre : BState → BState)
    (hx : s.conn? c = some x) (hpre : (pre s).conns = s.conns) :
    ∃ la, (la = [] ∨ la = [p]) ∧ OutsPush s (ackVia s c p pre) c [] la := by
  unfold ackVia
  split
  · exact ⟨[], Or.inl rfl, (OutsSame.refl s).toPush c x hx⟩
  · split
    · exact ⟨[], Or.inl rfl, (OutsSame.of_conns (s := s) (t := { s with pendingAcks := s.pendingAcks ++ [⟨c, p⟩] }) rfl).toPush c x hx⟩
    · have hx' : (pre s).conn? c = some x := by simp [conn?, hpre]; exact hx
      rw [updConn_of_some _ _ _ _ hx']
      have h0 : OutsSame s (pre s) := OutsSame.of_conns hpre
      cases ha : x.alive with
      | false =>
        refine ⟨[], Or.inl rfl, h0.push (OutsPush.of_setConn _ _ x _ _ _ hx' ?_ ?_ ?_)⟩ <;> simp
      | true =>
        refine ⟨[p], Or.inr rfl, h0.push (OutsPush.of_setConn _ _ x _ _ _ hx' ?_ ?_ ?_)⟩ <;> simp [ha]

/-- the two ways `publishThen` can go on -/
theorem publishThen_succ (s t : BState) (c : ConnId) (m : Message) (k : BState → Res)
    (ht : Succ (publishThen s c m k) t) :
    ∃ s', PubFrame s s' c m ∧
      ((backendPublish s c m = .ok s' ∧ Succ (k s') t) ∨ (backendPublish s c m = .queueFull s' ∧ Succ (kill s' c) t)) := by
  unfold publishThen at ht
  split at ht
  · rename_i s' hb
    exact ⟨s', backendPublish_frame _ _ _ _ (Or.inl hb), Or.inl ⟨hb, ht⟩⟩
  · rename_i s' hb
    exact ⟨s', backendPublish_frame _ _ _ _ (Or.inr hb), Or.inr ⟨hb, ht⟩⟩
  · exact absurd ht (not_succ_unsupported _ _)

theorem PubFrame.outsSame {s s' : BState} {c : ConnId} {m : Message} (f : PubFrame s s' c m) : OutsSame s s' :=
  OutsSame.of_conns f.conns

theorem SubFrame.outsSame {s t : BState} (f : SubFrame s t) : OutsSame s t := OutsSame.of_conns f.conns

theorem OutsSame.of_setConn (s : BState) (c : ConnId) (x x1 : BConn) (h : s.conn? c = some x)
    (hp : x1.procOut = x.procOut) (ha : x1.ackOut = x.ackOut) (hal : x1.alive = x.alive) :
    OutsSame s (s.setConn c x1) := by
  intro c'
  by_cases hc : c' = c
  · subst hc
    refine ⟨by simp [outsOf, h, hp, ha], ?_⟩
    intro x0 hx0 ha0
    rw [h] at hx0; cases hx0
    exact ⟨x1, conn?_setConn_same _ _ _, hal.trans ha0⟩
  · exact ⟨by simp [outsOf, conn?_setConn_other _ _ _ _ hc], DeadStayAt.of_eq (conn?_setConn_other _ _ _ _ hc)⟩

/-- the packets the broker may queue in answer to packet `p` on an accepted connection -/
def respOf : Packet → List Packet
  | .subscribe subs id => [.suback (subs.map (·.qos)) id]
  | .unsubscribe _ id => [.unsuback id]
  | .publish m _ id => if m.qos = 0 then [] else if m.qos = 1 then [.puback id] else [.pubrec id]
  | .pubrel id => [.pubcomp id]
  | .pubrec id => [.pubrel id]
  | .pingreq => [.pingresp]
  | _ => []

/-- On an accepted connection one packet makes the broker queue at most one packet, for the same
    connection, and that packet is the response the protocol prescribes. -/
theorem recv_connected_outs (s t : BState) (c : ConnId) (x : BConn) (p : Packet)
    (h : s.conn? c = some x) (ha : x.alive = true) (hp : x.phase = .connected) (ht : Succ (recv s c p) t) :
    ∃ lp la, OutsPush s t c lp la ∧ (lp ++ la = [] ∨ ∃ q, q ∈ respOf p ∧ lp ++ la = [q]) := by
  obtain ⟨ph, al, xid, xw, xs, xp, xa, pt, st, dc, dh, rn, cs, stl, zb⟩ := x
  simp only at ha hp
  subst ha hp
  have killed : ∀ s', OutsSame s s' → Succ (kill s' c) t →
      ∃ lp la, OutsPush s t c lp la ∧ (lp ++ la = [] ∨ ∃ q, q ∈ respOf p ∧ lp ++ la = [q]) :=
    fun s' h1 h2 => ⟨[], [], (h1.trans (kill_outsSame _ _ _ h2)).toPush c _ h, Or.inl rfl⟩
  unfold recv at ht
  simp only [h] at ht
  simp only [Bool.not_true, Bool.false_eq_true, if_false] at ht
  cases p with
  | connect => exact killed s (OutsSame.refl _) ht
  | connack => exact killed s (OutsSame.refl _) ht
  | suback => exact killed s (OutsSame.refl _) ht
  | unsuback => exact killed s (OutsSame.refl _) ht
  | pingresp => exact killed s (OutsSame.refl _) ht
  | disconnect =>
    simp only [] at ht
    exact killed _ (OutsSame.of_setConn s c _ ⟨.disconnected, true, xid, none, xs, xp, xa, pt, st, dc, dh, rn, cs, stl, zb⟩ h rfl rfl rfl) ht
  | pingreq =>
    simp only [] at ht
    rw [updConn_of_some _ _ _ _ h, succ_one] at ht; subst ht
    exact ⟨[.pingresp], [], OutsPush.of_setConn s c _ _ _ _ h rfl (by simp) rfl, Or.inr ⟨_, by simp [respOf], rfl⟩⟩
  | pubrec id =>
    simp only [] at ht
    split at ht
    · exact absurd ht (not_succ_unsupported _ _)
    · rw [updConn_of_some _ _ _ _ (by rw [setSessOf_conn?]; exact h), succ_one] at ht; subst ht
      exact ⟨[.pubrel id], [], (OutsSame.setSessOf s c _).push (OutsPush.of_setConn _ c _ _ _ _ (by rw [setSessOf_conn?]; exact h) rfl (by simp) rfl),
        Or.inr ⟨_, by simp [respOf], rfl⟩⟩
  | puback id =>
    simp only [] at ht
    split at ht
    · exact absurd ht (not_succ_unsupported _ _)
    · rw [updConn_of_some _ _ _ _ (by rw [setSessOf_conn?]; exact h), succ_one] at ht; subst ht
      refine ⟨[], [], ((OutsSame.setSessOf s c _).trans (OutsSame.of_setConn _ c _ _ (by rw [setSessOf_conn?]; exact h) ?_ ?_ ?_)).toPush c _ h, Or.inl rfl⟩
      · unfold putDeq retake; split <;> split <;> rfl
      · unfold putDeq retake; split <;> split <;> rfl
      · unfold putDeq retake; split <;> split <;> rfl
  | pubcomp id =>
    simp only [] at ht
    split at ht
    · exact absurd ht (not_succ_unsupported _ _)
    · rw [updConn_of_some _ _ _ _ (by rw [setSessOf_conn?]; exact h), succ_one] at ht; subst ht
      refine ⟨[], [], ((OutsSame.setSessOf s c _).trans (OutsSame.of_setConn _ c _ _ (by rw [setSessOf_conn?]; exact h) ?_ ?_ ?_)).toPush c _ h, Or.inl rfl⟩
      · unfold putDeq retake; split <;> split <;> rfl
      · unfold putDeq retake; split <;> split <;> rfl
      · unfold putDeq retake; split <;> split <;> rfl
  | pubrel id =>
    simp only [] at ht
    split at ht
    · exact absurd ht (not_succ_unsupported _ _)
    · split at ht
      · rename_i m _ _ _
        obtain ⟨s', f, hk | hk⟩ := publishThen_succ _ _ _ _ _ ht
        · obtain ⟨_, hk⟩ := hk
          rw [succ_one] at hk; subst hk
          obtain ⟨la, hla, hpush⟩ := ackVia_push s' c _ (.pubcomp id) (ackPre c (.pubcomp id)) ((f.conn? c).trans h) (ackPre_conns _ _ _)
          refine ⟨[], la, f.outsSame.push hpush, ?_⟩
          rcases hla with rfl | rfl
          · exact Or.inl rfl
          · exact Or.inr ⟨_, by simp [respOf], rfl⟩
        · exact killed s' f.outsSame hk.2
      · rw [updConn_of_some _ _ _ _ h, succ_one] at ht; subst ht
        exact ⟨[.pubcomp id], [], OutsPush.of_setConn s c _ _ _ _ h rfl (by simp) rfl, Or.inr ⟨_, by simp [respOf], rfl⟩⟩
  | unsubscribe topics id =>
    simp only [] at ht
    split at ht
    · exact absurd ht (not_succ_unsupported _ _)
    · split at ht
      · exact absurd ht (not_succ_unsupported _ _)
      · rename_i b _
        rw [succ_one] at ht; subst ht
        have h1 := OutsSame.of_setConn s c _ ⟨.connected, true, xid, xw, xs, xp, xa, pt, st - 1, dc, dh, rn, cs, stl, zb⟩ h rfl rfl rfl
        have h2 := OutsSame.setSessOf (s.setConn c ⟨.connected, true, xid, xw, xs, xp, xa, pt, st - 1, dc, dh, rn, cs, stl, zb⟩) c
        obtain ⟨la, hla, hpush⟩ := ackVia_push _ c _ (.unsuback id) (fun s => s)
          (show BState.conn? ((s.setConn c ⟨.connected, true, xid, xw, xs, xp, xa, pt, st - 1, dc, dh, rn, cs, stl, zb⟩).setSessOf c
            (topics.foldl (fun b t => { b with subs := Tree.emptyTopic t b.subs }) b)) c = some _ by
            rw [setSessOf_conn?]; exact conn?_setConn_same _ _ _) rfl
        refine ⟨[], la, (h1.trans (h2 _)).push hpush, ?_⟩
        rcases hla with rfl | rfl
        · exact Or.inl rfl
        · exact Or.inr ⟨_, by simp [respOf], rfl⟩
  | subscribe subs id =>
    simp only [] at ht
    split at ht
    · exact absurd ht (not_succ_unsupported _ _)
    · split at ht
      · exact absurd ht (not_succ_unsupported _ _)
      · have h1 := OutsSame.of_setConn s c _ ⟨.connected, true, xid, xw, xs, xp, xa, pt, st - 1, dc, dh, rn, cs, stl, zb⟩ h rfl rfl rfl
        have h2 := OutsSame.setSessOf (s.setConn c ⟨.connected, true, xid, xw, xs, xp, xa, pt, st - 1, dc, dh, rn, cs, stl, zb⟩) c
        rename_i b _
        obtain ⟨la, hla, hpush⟩ := ackVia_push _ c _ (.suback (subs.map (·.qos)) id) (fun s => s)
          (show BState.conn? ((s.setConn c ⟨.connected, true, xid, xw, xs, xp, xa, pt, st - 1, dc, dh, rn, cs, stl, zb⟩).setSessOf c
            (subs.foldl (fun b sub => { b with subs := Tree.set sub.topic sub.qos.toNat b.subs }) b)) c = some _ by
            rw [setSessOf_conn?]; exact conn?_setConn_same _ _ _) rfl
        have h3 := (h1.trans (h2 _)).push hpush
        have hq : la = [] ∨ ∃ q, q ∈ respOf (.subscribe subs id) ∧ la = [q] := by
          rcases hla with rfl | rfl
          · exact Or.inl rfl
          · exact Or.inr ⟨_, by simp [respOf], rfl⟩
        split at ht
        · rename_i s4 hsr
          rw [succ_one] at ht; subst ht
          exact ⟨[], la, h3.thenSame (subscribeRetained_frame _ _ _ _ (Or.inl hsr)).outsSame, by simpa using hq⟩
        · rename_i s4 hsr
          exact ⟨[], la, h3.thenSame ((subscribeRetained_frame _ _ _ _ (Or.inr hsr)).outsSame.trans (kill_outsSame _ _ _ ht)), by simpa using hq⟩
        · exact absurd ht (not_succ_unsupported _ _)
  | publish m dup id =>
    simp only [] at ht
    split at ht
    · rename_i hq0
      obtain ⟨s', f, hk | hk⟩ := publishThen_succ _ _ _ _ _ ht
      · obtain ⟨_, hk⟩ := hk
        rw [succ_one] at hk; subst hk
        exact ⟨[], [], f.outsSame.toPush c _ h, Or.inl rfl⟩
      · exact killed s' f.outsSame hk.2
    · rename_i hq0
      split at ht
      · exact absurd ht (not_succ_unsupported _ _)
      · have h1 := OutsSame.of_setConn s c _ ⟨.connected, true, xid, xw, xs, xp, xa, pt - 1, st, dc, dh, rn, cs, stl, zb⟩ h rfl rfl rfl
        split at ht
        · rename_i hq1
          obtain ⟨s', f, hk | hk⟩ := publishThen_succ _ _ _ _ _ ht
          · obtain ⟨_, hk⟩ := hk
            rw [succ_one] at hk; subst hk
            obtain ⟨la, hla, hpush⟩ := ackVia_push s' c _ (.puback id) (fun s => s) ((f.conn? c).trans (conn?_setConn_same _ _ _)) rfl
            refine ⟨[], la, (h1.trans f.outsSame).push hpush, ?_⟩
            rcases hla with rfl | rfl
            · exact Or.inl rfl
            · exact Or.inr ⟨_, by simp [respOf, hq1], rfl⟩
          · exact killed s' (h1.trans f.outsSame) hk.2
        · rename_i hq1
          split at ht
          · exact absurd ht (not_succ_unsupported _ _)
          · rw [updConn_of_some _ _ _ _ (by rw [setSessOf_conn?]; exact conn?_setConn_same _ _ _), succ_one] at ht; subst ht
            refine ⟨[.pubrec id], [], (h1.trans (OutsSame.setSessOf _ c _)).push
              (OutsPush.of_setConn _ c _ _ _ _ (by rw [setSessOf_conn?]; exact conn?_setConn_same _ _ _) rfl (by simp) rfl), Or.inr ⟨_, ?_, rfl⟩⟩
            simp [respOf, hq0, hq1]

end BrokerB2
