import Proofs.ServiceFut
/-
  Proofs/ServiceFut2.lean — the future invariant `FInvX` along every transition.
-/
set_option linter.unusedSimpArgs false
namespace SvcK2
open Svc Svc.SState

theorem FInvX.die {s : SState} {ex : Option Nat} (h : FInvX s ex) (c : Client) (b : Bool) : FInvX (s.die c b).1 ex := by
  unfold SState.die
  exact FInvX.clearStore (by fframe h)

theorem FInvX.closeSt {s : SState} {ex : Option Nat} (h : FInvX s ex) : FInvX s.closeSt ex := by
  unfold SState.closeSt
  split
  · exact h
  · exact FInvX.clearStore (by fframe h)

theorem FInvX.toLoop {s : SState} {ex : Option Nat} (h : FInvX s ex) : FInvX s.toLoop ex := by fframe h

theorem FInvX.leaveDispatcher {s : SState} {ex : Option Nat} (h : FInvX s ex) (pre : List Obs) :
    FInvX (leaveDispatcher s pre).1 ex := h.closeSt.toLoop

theorem FInvX.failAttempt {s : SState} {ex : Option Nat} (h : FInvX s ex) (pre : List Obs) (sys : Sys) :
    FInvX (failAttempt s pre sys).1 ex := h.closeSt.toLoop

theorem FInvX.supDisconnect {s : SState} {ex : Option Nat} (h : FInvX s ex) (c : Client) :
    FInvX (supDisconnect s c).1 ex := h.closeSt.toLoop

theorem FInvX.supConnect {s : SState} {ex : Option Nat} (h : FInvX s ex) : FInvX (supConnect s).1 ex := by
  unfold Svc.supConnect
  dsimp only
  repeat' split
  all_goals fframe h

theorem FInvX.supOnline {s : SState} {ex : Option Nat} (h : FInvX s ex) (c : Client) (sp : Bool) :
    FInvX (supOnline s c sp).1 ex := by
  have h1 : FInvX s.nextID.2 ex := by fframe h
  unfold Svc.supOnline
  repeat' split
  · fframe h
  · exact h.failAttempt _ _
  · exact h1.failAttempt _ _
  · exact FInvX.frame (h1.put s.nextID.1 { resub := true }) (by simp) (by simp) (by simp) (by simp) (by simp)
  · exact (h1.put s.nextID.1 { resub := true }).failAttempt _ _

theorem FInvX.procReply {s : SState} {ex : Option Nat} (h : FInvX s ex) (c : Client) (o : List Obs) :
    FInvX (procReply s c o).1 ex := by
  unfold Svc.procReply
  split
  · exact h
  · exact h.die _ _

theorem FInvX.procRefuse {s : SState} {ex : Option Nat} (h : FInvX s ex) (c : Client) (m : Message) :
    FInvX (procRefuse s c m).1 ex := h.die _ _

theorem FInvX.procFirst {s : SState} {ex : Option Nat} (h : FInvX s ex) (c : Client) (p : Packet) :
    FInvX (procFirst s c p).1 ex := by
  unfold Svc.procFirst
  repeat' split
  all_goals first
    | exact h.die _ _
    | fframe h

theorem FInvX.procSuback {s : SState} {ex : Option Nat} (h : FInvX s ex) (c : Client) (codes : List UInt8) (id : UInt16) :
    FInvX (procSuback s c codes id).1 ex := by
  have h1 : FInvX (s.setSess (s.sess.deletePacket .outgoing id)) ex := by fframe h
  unfold Svc.procSuback
  dsimp only
  split
  · exact h1
  · rename_i f hget
    repeat' split
    · exact (h1.finishDel hget false).die _ _
    · exact FInvX.frame (h1.finishDel hget false) (by simp) (by simp) (by simp) (by simp) (by simp)
    · exact h1.finishDel hget true

theorem FInvX.procAck {s : SState} {ex : Option Nat} (h : FInvX s ex) (id : UInt16) : FInvX (procAck s id).1 ex := by
  unfold Svc.procAck
  exact FInvX.ackId (by fframe h) id true

theorem FInvX.procPublish {s : SState} {ex : Option Nat} (h : FInvX s ex) (c : Client) (m : Message) (id : UInt16) :
    FInvX (procPublish s c m id).1 ex := by
  have h1 : FInvX (s.pushCallback m) ex := by fframe h
  unfold Svc.procPublish
  repeat' split
  · exact h1.procRefuse _ _
  · exact h1.procReply _ _
  · exact h1
  · exact FInvX.procReply (by fframe h) _ _

theorem FInvX.procPubrel {s : SState} {ex : Option Nat} (h : FInvX s ex) (c : Client) (id : UInt16) :
    FInvX (procPubrel s c id).1 ex := by
  unfold Svc.procPubrel
  repeat' split
  all_goals first
    | exact h
    | exact FInvX.procRefuse (by fframe h) _ _
    | exact FInvX.procReply (by fframe h) _ _
    | fframe h

theorem FInvX.procLater {s : SState} {ex : Option Nat} (h : FInvX s ex) (c : Client) (p : Packet) :
    FInvX (procLater s c p).1 ex := by
  unfold Svc.procLater
  split
  all_goals first
    | exact h
    | exact h.procSuback _ _ _
    | exact h.procAck _
    | exact h.procPublish _ _ _
    | exact h.procPubrel _ _
    | exact FInvX.procReply (by fframe h) _ _

theorem FInvX.procRecv {s : SState} {ex : Option Nat} (h : FInvX s ex) (c : Client) (p : Packet) :
    FInvX (procRecv s c p).1 ex := by
  unfold Svc.procRecv
  repeat' split
  · exact h
  · exact h.procFirst _ _
  · exact FInvX.procLater (by fframe h) _ _

theorem FInvX.dropStep {s : SState} {ex : Option Nat} (h : FInvX s ex) (c : Client) : FInvX (dropStep s c).1 ex := by
  unfold Svc.dropStep
  split
  · exact FInvX.die (by fframe h) _ _
  · fframe h

/-- the dispatcher has taken `cmd` out of the queue: it is the one future not accounted for -/
theorem FInvX.dequeue {s : SState} (h : FInv s) {cmd : Cmd} {rest : List Cmd} (hq : s.queue = cmd :: rest) :
    FInvX (dequeue s cmd rest) (some cmd.n) := by
  refine ⟨by simpa [StoreNodup] using h.nodup, ?_⟩
  intro hfix m hm
  have hfix' : s.cfg.fix17 = true := by simpa using hfix
  have hm' : futOf s.futs m = some .pending := by simpa using hm
  cases h.tracked hfix' m hm' with
  | inl h1 => cases h1
  | inr h1 =>
    rcases h1 with ⟨c, hc, rfl⟩ | ⟨c, hc, rfl⟩ | ⟨e, he, hme⟩
    · rw [hq] at hc
      cases hc with
      | head => exact Or.inl rfl
      | tail _ hc' =>
        right; left
        refine ⟨c, ?_, rfl⟩
        unfold Svc.dequeue; split
        · exact List.mem_append_left _ hc'
        · exact hc'
    · right; left
      refine ⟨c, ?_, rfl⟩
      unfold Svc.dequeue; simp [hc]
    · right; right; right
      exact ⟨e, by simpa using he, hme⟩

theorem FInvX.handOver {s : SState} (h : FInv s) {b : Cmd} (hb : s.blocked = some b) (hq : s.queue = []) :
    FInvX (handOver s b) (some b.n) := by
  refine ⟨by simpa [StoreNodup] using h.nodup, ?_⟩
  intro hfix m hm
  have hfix' : s.cfg.fix17 = true := by simpa using hfix
  have hm' : futOf s.futs m = some .pending := by simpa using hm
  cases h.tracked hfix' m hm' with
  | inl h1 => cases h1
  | inr h1 =>
    rcases h1 with ⟨c, hc, rfl⟩ | ⟨c, hc, rfl⟩ | ⟨e, he, hme⟩
    · rw [hq] at hc; cases hc
    · rw [hb] at hc
      have : b = c := by simpa using hc
      subst this
      exact Or.inl rfl
    · right; right; right
      exact ⟨e, by simpa using he, hme⟩

theorem storeGet_put_self (s : SState) (id : UInt16) (f : SFut) : storeGet (s.put id f).store id = some f := by
  simp [SState.put, storeGet_storePut]

theorem FInvX.clientCall {s : SState} {cmd : Cmd} (h : FInvX s (some cmd.n)) (c : Client) :
    FInvX (clientCall s c cmd).1 none := by
  have h0 : FInvX (allocID s cmd.kind).2 (some cmd.n) := by fframe h
  have h1 := h0.put (allocID s cmd.kind).1 {}
  have h2 : FInvX (saveOutgoing ((allocID s cmd.kind).2.put (allocID s cmd.kind).1 {}) cmd.kind (allocID s cmd.kind).1)
      (some cmd.n) := by fframe h1
  have hemp : ∀ f, storeGet (saveOutgoing ((allocID s cmd.kind).2.put (allocID s cmd.kind).1 {}) cmd.kind
      (allocID s cmd.kind).1).store (allocID s cmd.kind).1 = some f → f.attached = [] := by
    intro f hf
    rw [saveOutgoing_store, storeGet_put_self] at hf
    cases hf; rfl
  unfold Svc.clientCall
  dsimp only
  repeat' split
  · exact (h.resolveHeld .cancelled (by simp)).leaveDispatcher _
  · exact (h0.resolveHeld .cancelled (by simp)).leaveDispatcher _
  · -- QoS 0: completed at once, the future is taken out of the store again
    have h3 : FInvX ((saveOutgoing ((allocID s cmd.kind).2.put (allocID s cmd.kind).1 {}) cmd.kind
        (allocID s cmd.kind).1).pushHanded c.conn cmd.n) (some cmd.n) := by fframe h2
    exact (h3.resolveHeld .completed (by simp)).delStoreEmpty _ (by simpa using hemp)
  · have h3 : FInvX ((saveOutgoing ((allocID s cmd.kind).2.put (allocID s cmd.kind).1 {}) cmd.kind
        (allocID s cmd.kind).1).pushHanded c.conn cmd.n) (some cmd.n) := by fframe h2
    exact h3.attach _ (by simpa using hemp)
  · exact (h2.resolveHeld .cancelled (by simp)).leaveDispatcher _

theorem FInvX.applySubs {s : SState} {ex : Option Nat} (h : FInvX s ex) (k : CmdKind) : FInvX (applySubs s k) ex := by
  fframe h

theorem supStep_finv {s s' : SState} {ch : SupChoice} {o : List Obs} (hf : FInv s)
    (h : supStep s ch = some (s', o)) : FInv s' := by
  unfold supStep at h
  repeat' split at h
  step_subst h
  all_goals first
    | exact hf
    | exact hf.supConnect
    | exact hf.supOnline _ _
    | exact hf.failAttempt _ _
    | exact hf.leaveDispatcher _
    | exact hf.supDisconnect _
    | (fframe hf; done)
    | skip
  · rename_i cmd rest _ hq
    exact ((FInvX.dequeue hf hq).applySubs _).clientCall _
  · rename_i hq _ b hb
    exact ((FInvX.handOver hf hb hq).applySubs _).clientCall _

theorem fireStep_finv {s s' : SState} {o : List Obs} (hf : FInv s) (h : fireStep s = some (s', o)) : FInv s' := by
  unfold fireStep at h
  repeat' split at h
  step_subst h
  all_goals first
    | exact hf.failAttempt _ _
    | exact hf.supDisconnect _
    | (fframe hf; done)

/-- `Stop(true)`, repaired: the queue is drained and the futures of its commands are cancelled -/
theorem FInvX.drainQueue {s : SState} (h : FInv s) : FInv (drainQueue s) := by
  refine ⟨by simpa [StoreNodup] using h.nodup, ?_⟩
  intro hfix m hm
  have hm' := futOf_resolveAll_pending (s.queue.map (·.n)) s.futs m .cancelled (by simp) (by simpa [Svc.drainQueue] using hm)
  cases h.tracked (by simpa using hfix) m hm'.2 with
  | inl h1 => cases h1
  | inr h1 =>
    rcases h1 with ⟨c, hc, rfl⟩ | h2 | ⟨e, he, hme⟩
    · exact absurd (List.mem_map_of_mem (f := (·.n)) hc) hm'.1
    · exact Or.inr (Or.inr (Or.inl (by simpa using h2)))
    · exact Or.inr (Or.inr (Or.inr ⟨e, by simpa using he, hme⟩))

theorem stopTail_finv {s : SState} (hf : FInv s) (clear : Bool) : FInv (stopTail s clear) := by
  have h1 : FInv (unprotect (stopDone s)).clearStore := FInvX.clearStore (by fframe hf)
  unfold stopTail
  repeat' split
  · exact FInvX.drainQueue h1
  · exact h1
  · fframe hf

theorem step_finv {s s' : SState} {e : Ev} {o : List Obs} (hf : FInv s) (h : step s e = some (s', o)) : FInv s' := by
  cases e with
  | sup ch => exact supStep_finv hf h
  | fire => exact fireStep_finv hf h
  | call c =>
    step_cases h
    all_goals
      rename_i hm0 hfresh _
      have hfresh' : futOf s.futs c.n = none := by simpa using hfresh
      have hbl : s.blocked = none := by
        have := hm0; simp [mutexFree] at this; exact this.2
      refine ⟨by simpa [StoreNodup] using hf.nodup, ?_⟩
      intro hfix m hm
      have hm' : futOf (s.futs ++ [(c.n, FutSt.pending)]) m = some .pending := by simpa [newFut] using hm
      rw [futOf_append_fresh _ _ _ _ hfresh'] at hm'
      right
      by_cases hmc : m = c.n
      · subst hmc
        first
          | (left; exact ⟨c, List.mem_append_right _ (List.mem_singleton.mpr rfl), rfl⟩)
          | (right; left; exact ⟨c, rfl, rfl⟩)
      · rw [if_neg hmc] at hm'
        cases hf.tracked (by simpa using hfix) m hm' with
        | inl h1 => cases h1
        | inr h1 =>
          rcases h1 with ⟨c', hc', rfl⟩ | ⟨c', hc', _⟩ | ⟨e, he, hme⟩
          · first
              | exact Or.inl ⟨c', List.mem_append_left _ hc', rfl⟩
              | exact Or.inl ⟨c', hc', rfl⟩
          · rw [hbl] at hc'; cases hc'
          · exact Or.inr (Or.inr ⟨e, by simpa using he, hme⟩)
  | callTimeout =>
    step_cases h
    rename_i b hb
    refine ⟨by simpa [StoreNodup] using hf.nodup, ?_⟩
    intro hfix m hm
    have hm' := futOf_resolve_pending s.futs b.n m .cancelled (by simp) (by simpa [resolveCmd, unblock] using hm)
    cases hf.tracked (by simpa using hfix) m hm'.2 with
    | inl h1 => cases h1
    | inr h1 =>
      rcases h1 with ⟨c', hc', rfl⟩ | ⟨c', hc', rfl⟩ | ⟨e, he, hme⟩
      · exact Or.inr (Or.inl ⟨c', by simpa using hc', rfl⟩)
      · rw [hb] at hc'
        have : b = c' := by simpa using hc'
        subst this
        exact absurd rfl hm'.1
      · exact Or.inr (Or.inr (Or.inr ⟨e, by simpa using he, hme⟩))
  | stopRet =>
    step_cases h
    exact stopTail_finv hf _
  | _ =>
    step_cases h
    all_goals first
      | exact hf
      | exact hf.procRecv _ _
      | exact hf.dropStep _
      | (fframe hf; done)

theorem reachable_finv {cfg : Cfg} {s : SState} (h : Reachable cfg s) : FInv s := by
  induction h with
  | init => exact ⟨by simp [StoreNodup], fun _ m hm => by simp [futOf_nil] at hm⟩
  | step _ hs ih => exact step_finv ih hs

end SvcK2
