import Proofs.ClientC10d
/-
  Proofs/ClientC10e.lean — C10: the exactly-once theorem and executable witnesses of client ∥ broker. (K1)
-/
set_option linter.unusedVariables false
open Cl Cl.St
namespace ClientK1

theorem sysInv_reach {x : St × G} (h : SysReach Fix.repaired x) : SysInv x := by
  induction h with
  | init => exact sysInv_init
  | step _ hs ih => exact sysInv_step ih hs

/-- a step of client ∥ broker as data -/
inductive SLabel where
  | cl (l : Label)
  | gotPubrec (id : UInt16)
  | gotPubcomp (id : UInt16)

def allowedB (s : St) (g : G) : Label → Bool
  | .recv (.publish m _ id) => if m.qos = 2 then (match g.ph id with | .idle => true | .pub m' => m' == m | _ => false) else true
  | .recv (.pubrel id) => (match g.ph id with | .rel _ => true | _ => false)
  | .aConnect cp early _ _ => early == false && (match cp with | .connect _ _ _ _ clean _ _ => clean == false | _ => true)
  | .sSave _ _ _ ok => ok
  | .sDel _ _ _ ok => ok
  | .sLookup _ _ r => (match r with | .fail => false | _ => true)
  | .sReset _ _ => false
  | _ => true

theorem allowedB_sound {s : St} {g : G} {l : Label} (h : allowedB s g l = true) : Allowed s g l := by
  cases l <;> simp [allowedB, Allowed] at h ⊢
  case recv p =>
    cases p <;> simp [allowedB, Allowed] at h ⊢
    case publish m d id =>
      intro hq
      simp [hq] at h
      split at h <;> simp_all
    case pubrel id =>
      split at h <;> simp_all
  case aConnect cp e v k =>
    refine ⟨h.1, ?_⟩
    cases cp <;> simp_all
  case sSave => exact h
  case sDel => exact h
  case sLookup d id r => cases r <;> simp_all

def sysStepB (x : St × G) : SLabel → Option (St × G)
  | .cl l => if allowedB x.1 x.2 l then (match step Fix.repaired x.1 l with
      | some s' => some (s', gstep x.1 x.2 l) | none => none) else none
  | .gotPubrec id => (match x.2.ph id with
      | .pub m => if x.2.recS id then some (x.1, { x.2 with ph := upd x.2.ph id (.rel m) }) else none
      | _ => none)
  | .gotPubcomp id => (match x.2.ph id with
      | .rel _ => if x.2.compS id then some (x.1, { x.2 with ph := upd x.2.ph id .idle }) else none
      | _ => none)

def sysRun : St × G → List SLabel → Option (St × G)
  | x, [] => some x
  | x, l :: ls => match sysStepB x l with
    | some y => sysRun y ls
    | none => none

theorem sysStepB_sound {x y : St × G} {l : SLabel} (h : sysStepB x l = some y) : Sys Fix.repaired x y := by
  obtain ⟨s, g⟩ := x
  cases l with
  | cl l =>
    simp only [sysStepB] at h
    split at h
    · rename_i ha
      cases hs : step Fix.repaired s l with
      | none => simp [hs] at h
      | some s' => simp [hs] at h; subst h; exact .client l hs (allowedB_sound ha)
    · simp at h
  | gotPubrec id =>
    simp only [sysStepB] at h
    split at h
    · rename_i m hm
      split at h
      · rename_i hr; simp at h; subst h; exact .gotPubrec id m hm hr
      · simp at h
    · simp at h
  | gotPubcomp id =>
    simp only [sysStepB] at h
    split at h
    · rename_i m hm
      split at h
      · rename_i hr; simp at h; subst h; exact .gotPubcomp id m hm hr
      · simp at h
    · simp at h

theorem sysReach_of_run : ∀ (ls : List SLabel) (x y : St × G), SysReach Fix.repaired x → sysRun x ls = some y →
    SysReach Fix.repaired y := by
  intro ls
  induction ls with
  | nil => intro x y hx h; simp [sysRun] at h; subst h; exact hx
  | cons l t ih =>
    intro x y hx h
    simp only [sysRun] at h
    cases hs : sysStepB x l with
    | none => simp [hs] at h
    | some z => simp [hs] at h; exact ih z y (.step hx (sysStepB_sound hs)) h

end ClientK1
