import Proofs.BaseConn
/-
  Proofs/BaseConnInv.lean — the invariant of the BaseConn LTS (C19) and its preservation.
-/
namespace BaseConn
namespace Pf

def isOk (r : SendRec) : Bool := r.res == .ok

def okPart (h : List SendRec) : List SendRec := h.filter isOk
def bytesAll (h : List SendRec) : Bytes := (h.map (·.bytes)).flatten
/-- the bytes of the first send that did not return nil -/
def firstErr (h : List SendRec) : Bytes :=
  match h.find? (fun r => !isOk r) with
  | some r => r.bytes
  | none => []
def AllOk (h : List SendRec) : Prop := ∀ r ∈ h, isOk r = true

theorem bytesAll_append (h : List SendRec) (x : SendRec) : bytesAll (h ++ [x]) = bytesAll h ++ x.bytes := by
  simp [bytesAll]

theorem okPart_allOk {h : List SendRec} (a : AllOk h) : okPart h = h := by
  unfold okPart; exact List.filter_eq_self.mpr a

theorem firstErr_allOk {h : List SendRec} (a : AllOk h) : firstErr h = [] := by
  unfold firstErr
  have : h.find? (fun r => !isOk r) = none := by
    apply List.find?_eq_none.mpr; intro r hr; simp [a r hr]
  rw [this]

theorem okPart_snoc_ok (h : List SendRec) {x : SendRec} (hx : isOk x = true) : okPart (h ++ [x]) = okPart h ++ [x] := by
  simp [okPart, List.filter_append, hx]

theorem okPart_snoc_err (h : List SendRec) {x : SendRec} (hx : isOk x = false) : okPart (h ++ [x]) = okPart h := by
  simp [okPart, List.filter_append, hx]

theorem firstErr_snoc_ok (h : List SendRec) {x : SendRec} (hx : isOk x = true) : firstErr (h ++ [x]) = firstErr h := by
  unfold firstErr
  rw [List.find?_append]
  cases hf : h.find? (fun r => !isOk r) <;> simp [hx]

theorem firstErr_snoc_err (h : List SendRec) {x : SendRec} (hx : isOk x = false) :
    ∃ t, firstErr (h ++ [x]) = firstErr h ++ t := by
  unfold firstErr
  rw [List.find?_append]
  cases hf : h.find? (fun r => !isOk r)
  · exact ⟨x.bytes, by simp [hx]⟩
  · exact ⟨[], by simp⟩

theorem firstErr_snoc_err_allOk {h : List SendRec} (a : AllOk h) {x : SendRec} (hx : isOk x = false) :
    firstErr (h ++ [x]) = x.bytes := by
  unfold firstErr
  rw [List.find?_append]
  have : h.find? (fun r => !isOk r) = none := by
    apply List.find?_eq_none.mpr; intro r hr; simp [a r hr]
  simp [this, hx]

theorem AllOk_snoc {h : List SendRec} (a : AllOk h) {x : SendRec} (hx : isOk x = true) : AllOk (h ++ [x]) := by
  intro r hr
  rcases List.mem_append.mp hr with h1 | h1
  · exact a r h1
  · simp at h1; subst h1; exact hx

/-- the invariant: parked error implies failed writer; a healthy writer has accepted exactly the
    bytes of the sends that returned nil, in event order; a failed writer's wire is a prefix of
    them (plus the head of the first failing packet); buffered data always has a timer -/
structure Inv (s : State) : Prop where
  werr_berr : s.werr = true → s.berr = true
  healthy : s.berr = false → AllOk s.hist ∧ s.wire ++ s.buf = bytesAll s.hist
  failed : s.berr = true → ∃ t, s.wire ++ t = bytesAll (okPart s.hist) ++ firstErr s.hist
  timer : s.buf ≠ [] → s.timerArmed = true ∨ s.berr = true

theorem Inv.congr {s s' : State} (w : WSame s s') (i : Inv s) : Inv s' := by
  refine ⟨?_, ?_, ?_, ?_⟩
  · rw [w.werr, w.berr]; exact i.werr_berr
  · rw [w.berr, w.hist, w.wire, w.buf]; exact i.healthy
  · rw [w.berr, w.hist, w.wire]; exact i.failed
  · rw [w.buf, w.timerArmed, w.berr]; exact i.timer

theorem inv_init : Inv init := by
  refine ⟨?_, ?_, ?_, ?_⟩ <;> simp [init, AllOk, bytesAll]

/-- the prefix statement in one form for both regimes -/
theorem Inv.prefix {s : State} (i : Inv s) : ∃ t, s.wire ++ t = bytesAll (okPart s.hist) ++ firstErr s.hist := by
  cases hb : s.berr
  · obtain ⟨a, e⟩ := i.healthy hb
    exact ⟨s.buf, by rw [okPart_allOk a, firstErr_allOk a, e]; simp⟩
  · exact i.failed hb

/-- effect of a successful writer call on the invariant's ingredients -/
theorem inv_mercWrite_ok {C : Cfg} {s s1 : State} {p : Bytes} {fl : Bool} (i : Inv s)
    (h : mercWrite C s p fl = (s1, true)) :
    s1.werr = false ∧ s1.hist = s.hist
      ∧ (s1.berr = false → AllOk s.hist ∧ s1.wire ++ s1.buf = bytesAll s.hist ++ p)
      ∧ (s1.berr = true → p = [] ∧ ∃ t, s1.wire ++ t = bytesAll (okPart s.hist) ++ firstErr s.hist)
      ∧ (s1.buf ≠ [] → s1.timerArmed = true) := by
  obtain ⟨m1, m2, m3, m4, m5, m6, m7, m8, m9, m10⟩ := mercWrite_ok h
  refine ⟨m4, m9.hist, fun hb => ?_, fun hb => ?_, m7⟩
  · rw [m3] at hb
    obtain ⟨a, e⟩ := i.healthy hb
    exact ⟨a, by rw [m5, e]⟩
  · rw [m3] at hb
    have hp : p = [] := by
      apply Classical.byContradiction; intro hne
      have := m2 hne; rw [hb] at this; simp at this
    obtain ⟨t, ht⟩ := i.failed hb
    exact ⟨hp, t, by rw [(m10 hb).1]; exact ht⟩

/-- effect of a failing writer call -/
theorem inv_mercWrite_fail {C : Cfg} {s s1 : State} {p : Bytes} {fl : Bool} (i : Inv s)
    (h : mercWrite C s p fl = (s1, false)) :
    s1.werr = false ∧ s1.hist = s.hist ∧ s1.berr = true
      ∧ (s.berr = true → ∃ t, s1.wire ++ t = bytesAll (okPart s.hist) ++ firstErr s.hist)
      ∧ (s.berr = false → AllOk s.hist ∧ ∃ t, s1.wire ++ t = bytesAll s.hist ++ p) := by
  obtain ⟨w, m1, m2, m3⟩ := mercWrite_fail h
  rcases m3 with ⟨a1, a2, a3, a4⟩ | ⟨b1, b2, ⟨r, b3⟩, b4⟩
  · have hb := i.werr_berr a1
    refine ⟨m1, w.hist, by rw [a4]; exact hb, fun _ => ?_, fun hn => by rw [hb] at hn; simp at hn⟩
    obtain ⟨t, ht⟩ := i.failed hb
    exact ⟨t, by rw [a2]; exact ht⟩
  · refine ⟨m1, w.hist, b2, fun hb => ?_, fun hb => ?_⟩
    · obtain ⟨t, ht⟩ := i.failed hb
      exact ⟨t, by rw [(b4 hb).1]; exact ht⟩
    · obtain ⟨a, e⟩ := i.healthy hb
      exact ⟨a, r, by rw [b3, e]⟩

theorem isOk_ok (g : Nat) (bs : Bytes) (a : Bool) : isOk ⟨g, bs, a, .ok⟩ = true := rfl
theorem isOk_err (g : Nat) (bs : Bytes) (a : Bool) (b : Bool) :
    isOk ⟨g, bs, a, if b then .rejected else .failed⟩ = false := by cases b <;> rfl

theorem inv_send {C : Cfg} {s : State} (i : Inv s) (g : Nat) (bs : Bytes) (a : Bool) :
    Inv (sendStep C s g bs a).1 := by
  unfold sendStep
  split
  · rename_i s1 h
    obtain ⟨k1, k2, k3, k4, k5⟩ := inv_mercWrite_ok i h
    refine ⟨fun hw => ?_, fun hb => ?_, fun hb => ?_, fun hn => Or.inl (k5 hn)⟩
    · simp [k1] at hw
    · obtain ⟨al, e⟩ := k3 hb
      simp only [k2]
      exact ⟨AllOk_snoc al (isOk_ok g bs a), by rw [bytesAll_append]; exact e⟩
    · obtain ⟨hp, t, ht⟩ := k4 hb
      simp only [k2]
      refine ⟨t, ?_⟩
      rw [okPart_snoc_ok _ (isOk_ok g bs a), firstErr_snoc_ok _ (isOk_ok g bs a), bytesAll_append]
      simp [hp]; exact ht
  · rename_i s1 h
    obtain ⟨k1, k2, k3, k4, k5⟩ := inv_mercWrite_fail i h
    have w := closeCarrier_wsame s1
    refine ⟨fun hw => ?_, fun hb => ?_, fun _ => ?_, fun _ => Or.inr ?_⟩
    · simp [w.werr, k1] at hw
    · simp [w.berr, k3] at hb
    · simp only [w.wire, w.hist, k2]
      have he := isOk_err g bs a s.berr
      rw [okPart_snoc_err _ he]
      by_cases hb : s.berr = true
      case neg =>
        have hb : s.berr = false := by simpa using hb
        obtain ⟨al, t, ht⟩ := k5 hb
        refine ⟨t, ?_⟩
        rw [okPart_allOk al, firstErr_snoc_err_allOk al he]
        exact ht
      case pos =>
        obtain ⟨t, ht⟩ := k4 hb
        obtain ⟨t', ht'⟩ := firstErr_snoc_err s.hist he
        exact ⟨t ++ t', by rw [ht', ← List.append_assoc, ht, List.append_assoc]⟩
    · simp [w.berr, k3]

theorem inv_close {C : Cfg} {s : State} (i : Inv s) : Inv (closeStep C s).1 := by
  unfold closeStep closeFlush
  split
  rename_i s1 ok1 h
  split
  rename_i s2 ok2 h2
  have w : WSame s1 s2 := by
    have := (carrierClose_spec s1).2.1; rw [h2] at this; exact this
  apply Inv.congr w
  cases ok1
  · obtain ⟨k1, k2, k3, k4, k5⟩ := inv_mercWrite_fail i h
    refine ⟨fun hw => by simp [k1] at hw, fun hb => by simp [k3] at hb, fun _ => ?_, fun _ => Or.inr k3⟩
    rw [k2]
    cases hb : s.berr
    · obtain ⟨al, t, ht⟩ := k5 hb
      exact ⟨t, by rw [okPart_allOk al, firstErr_allOk al]; simpa using ht⟩
    · exact k4 hb
  · obtain ⟨k1, k2, k3, k4, k5⟩ := inv_mercWrite_ok i h
    refine ⟨fun hw => by simp [k1] at hw, fun hb => ?_, fun hb => ?_, fun hn => Or.inl (k5 hn)⟩
    · rw [k2]; simpa using k3 hb
    · rw [k2]; exact (k4 hb).2

theorem inv_timer {s : State} (i : Inv s) : Inv (mercTimer s) := by
  obtain ⟨t1, w, t3⟩ := mercTimer_spec s
  rcases t3 with ⟨a1, a2, a3, a4, a5, a6⟩ | ⟨b1, b2, b3, b4⟩
  · refine ⟨fun hw => ?_, fun _ => ?_, fun hb => by simp [a2] at hb, fun hn => absurd a3 hn⟩
    · rw [a5] at hw; have := i.werr_berr hw; simp [a1] at this
    · obtain ⟨al, e⟩ := i.healthy a1
      rw [w.hist]; exact ⟨al, by rw [a3, a4]; simpa using e⟩
  · refine ⟨fun _ => b1, fun hb => by simp [b1] at hb, fun _ => ?_, fun _ => Or.inr b1⟩
    rw [b3, w.hist]; exact i.prefix

end Pf
end BaseConn
