import Proofs.BrokerQos
/-
  Proofs/BrokerInc.lean — the incoming packet store of a stored session learns a packet id only
  through a QoS 2 PUBLISH with that id: every other step of the model keeps `Lacks`.
-/

namespace BrokerB2
open BState

/-- no stored session that lacked packet id `pid` holds it afterwards -/
def IncMono (pid : UInt16) (s t : BState) : Prop := ∀ cid, Lacks s cid pid → Lacks t cid pid

theorem IncMono.refl (pid : UInt16) (s : BState) : IncMono pid s s := fun _ h => h

theorem IncMono.trans {pid : UInt16} {s t u : BState} (h1 : IncMono pid s t) (h2 : IncMono pid t u) : IncMono pid s u :=
  fun cid h => h2 cid (h1 cid h)

theorem IncMono.of_eq {pid : UInt16} {s t : BState} (h : ∀ cid, incomingOf t cid = incomingOf s cid) : IncMono pid s t :=
  fun cid hl => Lacks.of_eq (h cid) hl

theorem IncMono.of_stored {pid : UInt16} {s t : BState} (h : t.stored = s.stored) : IncMono pid s t :=
  IncMono.of_eq (fun cid => incomingOf_congr s t h cid)

theorem incMono_setSessOf (pid : UInt16) (s : BState) (c : ConnId) (b b' : BSess) (hs : s.sessOf c = some b)
    (hm : b.sess.incoming.lookup pid = none → b'.sess.incoming.lookup pid = none) :
    IncMono pid s (s.setSessOf c b') := by
  cases hx : s.conn? c with
  | none => rw [setSessOf_none _ _ _ hx]; exact IncMono.refl _ _
  | some x =>
    rw [setSessOf_eq _ _ _ _ hx]
    rw [sessOf_eq _ _ _ hx] at hs
    cases hr : x.sref with
    | none => exact IncMono.refl _ _
    | temp => exact IncMono.of_stored rfl
    | stored id =>
      rw [hr] at hs
      simp only [sessAt] at hs
      intro cid hl st hst
      simp only [incomingOf, setSessAt, get_set] at hst
      split at hst
      · rename_i hc; subst hc
        simp only [Option.map_some, Option.some.injEq] at hst
        subst hst
        exact hm (hl _ (by simp [incomingOf, hs]))
      · exact hl st hst

theorem forgetIncoming_incMono (pid : UInt16) (c : ConnId) (id : UInt16) (s : BState) :
    IncMono pid s (forgetIncoming c id s) := by
  unfold forgetIncoming
  split
  · rename_i b hb
    refine incMono_setSessOf pid s c b _ hb ?_
    intro h
    simp only [MemorySession.deletePacket, MemorySession.setStore, MemorySession.store, PacketStore.lookup_delete]
    split
    · rfl
    · exact h
  · exact IncMono.refl _ _

theorem ackPre_incMono (pid : UInt16) (c : ConnId) (p : Packet) (s : BState) : IncMono pid s (ackPre c p s) := by
  unfold ackPre; split
  · exact forgetIncoming_incMono _ _ _ _
  · exact IncMono.refl _ _

theorem updConn_incMono (pid : UInt16) (s : BState) (c : ConnId) (f : BConn → BConn) : IncMono pid s (s.updConn c f) :=
  IncMono.of_stored (by simp)

theorem ackVia_incMono (pid : UInt16) (s : BState) (c : ConnId) (p : Packet) (pre : BState → BState)
    (hpre : IncMono pid s (pre s)) : IncMono pid s (ackVia s c p pre) := by
  unfold ackVia
  split
  · exact IncMono.refl _ _
  · split
    · exact IncMono.of_stored rfl
    · exact hpre.trans (updConn_incMono _ _ _ _)

theorem kill_incMono (pid : UInt16) (s t : BState) (c : ConnId) (ht : Succ (kill s c) t) : IncMono pid s t :=
  IncMono.of_eq (kill_incoming s t c ht)

theorem PubFrame.incMono {pid : UInt16} {s s' : BState} {c : ConnId} {m : Message} (f : PubFrame s s' c m) :
    IncMono pid s s' := IncMono.of_eq f.incomingOf

theorem publishThen_incMono (pid : UInt16) (s t : BState) (c : ConnId) (m : Message) (k : BState → Res)
    (hk : ∀ s' u, Succ (k s') u → IncMono pid s' u) (ht : Succ (publishThen s c m k) t) : IncMono pid s t := by
  obtain ⟨s', f, h | h⟩ := publishThen_succ _ _ _ _ _ ht
  · exact f.incMono.trans (hk s' t h.2)
  · exact f.incMono.trans (kill_incMono pid _ _ _ h.2)

theorem incMono_stored_set (pid : UInt16) (s t : BState) (id : ClientId) (b' : BSess)
    (h : t.stored = Assoc.set s.stored id b') (hm : Lacks s id pid → b'.sess.incoming.lookup pid = none) :
    IncMono pid s t := by
  intro cid hl st hst
  simp only [incomingOf, h, get_set] at hst
  split at hst
  · rename_i hc; subst hc
    simp only [Option.map_some, Option.some.injEq] at hst
    subst hst
    exact hm hl
  · exact hl st hst

theorem incMono_stored_del (pid : UInt16) (s t : BState) (id : ClientId) (h : t.stored = Assoc.del s.stored id) :
    IncMono pid s t := by
  intro cid hl st hst
  by_cases hc : cid = id
  · subst hc
    simp [incomingOf, h, get_del_same] at hst
  · simp only [incomingOf, h, get_del_other _ _ _ hc] at hst
    exact hl st hst

theorem setup_incMono (pid : UInt16) (av : Option ConnId) (s t : BState) (c : ConnId) (x : BConn) (id : ClientId)
    (clean : Bool) (will : Option Message) (hc : SetupCase av s t c x id clean will) : IncMono pid s t := by
  have h1 : IncMono pid s (s.setConn c { x with phase := .connected, id := id }) := IncMono.of_stored rfl
  cases hc with
  | closing _ hk => exact h1.trans (kill_incMono pid _ _ _ hk)
  | timeout s2 _ hto hk => exact h1.trans ((IncMono.of_eq hto.incoming).trans (kill_incMono pid _ _ _ hk))
  | accepted s2 s3 xa sp extra _ hto he a1 a2 a3 a4 a5 a6 a7 e1 e2 e3 e4 e5 e6 e7 hsc =>
    subst he
    refine h1.trans ((IncMono.of_eq hto.incoming).trans (IncMono.trans ?_ (IncMono.of_stored rfl)))
    cases hsc with
    | temp _ _ _ _ _ hst =>
      rcases hst with hst | hst
      · exact IncMono.of_stored hst
      · exact incMono_stored_del pid s2 s3 id hst
    | fresh _ _ _ _ _ hst _ => exact incMono_stored_set pid s2 s3 id _ hst (fun _ => rfl)
    | resumed b _ _ _ hb _ hst _ =>
      obtain ⟨b', hst, hi, _⟩ := hst
      refine incMono_stored_set pid s2 s3 id b' hst ?_
      intro hl
      rw [hi]
      exact hl _ (by simp [incomingOf, hb])

theorem SubFrame.incMono {pid : UInt16} {s t : BState} (f : SubFrame s t) : IncMono pid s t := IncMono.of_eq f.incoming

/-- handling a packet other than a QoS 2 PUBLISH with packet id `pid` never makes a stored session
    hold `pid` -/
theorem recv_incMono (pid : UInt16) (s t : BState) (c : ConnId) (p : Packet)
    (hnp : ∀ m d, p = .publish m d pid → m.qos = 0 ∨ m.qos = 1) (ht : Succ (recv s c p) t) : IncMono pid s t := by
  cases h : s.conn? c with
  | none => simp [recv, h] at ht; exact absurd ht (not_succ_unsupported _ _)
  | some x =>
    cases ha : x.alive with
    | false =>
      have : recv s c p = .one s := by simp [recv, h, ha]
      rw [this, succ_one] at ht; subst ht
      exact IncMono.refl _ _
    | true =>
      cases hp : x.phase with
      | disconnected =>
        have : recv s c p = .one s := by simp [recv, h, ha, hp]
        rw [this, succ_one] at ht; subst ht
        exact IncMono.refl _ _
      | connecting =>
        obtain ⟨ph, al, xid, xw, xs, xp, xa, pt, st, dc, dh, rn, cs, stl, zb⟩ := x
        simp only at ha hp
        subst ha hp
        unfold recv at ht
        simp only [h] at ht
        simp only [Bool.not_true, Bool.false_eq_true, if_false] at ht
        cases p with
        | connect id ka u pw clean will v =>
          simp only [setConn_closing] at ht
          have viaKill : ∀ s', Succ (kill s' c) t → s'.stored = s.stored → IncMono pid s t :=
            fun s' hk hs => (IncMono.of_stored hs).trans (kill_incMono pid _ _ _ hk)
          rcases succ_ite_prop _ _ _ _ ht with ⟨_, ht⟩ | ⟨_, ht⟩
          · exact viaKill _ ht rfl
          · rcases succ_ite_prop _ _ _ _ ht with ⟨_, ht⟩ | ⟨_, ht⟩
            · exact viaKill _ ht rfl
            · refine IncMono.trans ?_
                (setup_incMono pid none _ t c _ id clean will (setup_cases_av none _ t c _ id clean will (Or.inl rfl) ht))
              exact IncMono.of_stored rfl
        | connack => exact kill_incMono pid _ _ _ ht
        | publish => exact kill_incMono pid _ _ _ ht
        | puback => exact kill_incMono pid _ _ _ ht
        | pubrec => exact kill_incMono pid _ _ _ ht
        | pubrel => exact kill_incMono pid _ _ _ ht
        | pubcomp => exact kill_incMono pid _ _ _ ht
        | subscribe => exact kill_incMono pid _ _ _ ht
        | suback => exact kill_incMono pid _ _ _ ht
        | unsubscribe => exact kill_incMono pid _ _ _ ht
        | unsuback => exact kill_incMono pid _ _ _ ht
        | pingreq => exact kill_incMono pid _ _ _ ht
        | pingresp => exact kill_incMono pid _ _ _ ht
        | disconnect => exact kill_incMono pid _ _ _ ht
      | connected =>
        obtain ⟨ph, al, xid, xw, xs, xp, xa, pt, st, dc, dh, rn, cs, stl, zb⟩ := x
        simp only at ha hp
        subst ha hp
        unfold recv at ht
        simp only [h] at ht
        simp only [Bool.not_true, Bool.false_eq_true, if_false] at ht
        cases p with
        | connect => exact kill_incMono pid _ _ _ ht
        | connack => exact kill_incMono pid _ _ _ ht
        | suback => exact kill_incMono pid _ _ _ ht
        | unsuback => exact kill_incMono pid _ _ _ ht
        | pingresp => exact kill_incMono pid _ _ _ ht
        | disconnect =>
          simp only [] at ht
          refine IncMono.trans ?_ (kill_incMono pid _ _ _ ht)
          exact IncMono.of_stored rfl
        | pingreq =>
          simp only [] at ht
          rw [succ_one] at ht; subst ht
          exact updConn_incMono _ _ _ _
        | pubrec id =>
          simp only [] at ht
          split at ht
          · exact absurd ht (not_succ_unsupported _ _)
          · rename_i b hb
            rw [succ_one] at ht; subst ht
            refine IncMono.trans ?_ (updConn_incMono _ _ _ _)
            exact incMono_setSessOf pid s c b _ hb (by intro hh; simpa [savePacket_outgoing_incoming] using hh)
        | puback id =>
          simp only [] at ht
          split at ht
          · exact absurd ht (not_succ_unsupported _ _)
          · rename_i b hb
            rw [succ_one] at ht; subst ht
            refine IncMono.trans ?_ (updConn_incMono _ _ _ _)
            exact incMono_setSessOf pid s c b _ hb (fun hh => hh)
        | pubcomp id =>
          simp only [] at ht
          split at ht
          · exact absurd ht (not_succ_unsupported _ _)
          · rename_i b hb
            rw [succ_one] at ht; subst ht
            refine IncMono.trans ?_ (updConn_incMono _ _ _ _)
            exact incMono_setSessOf pid s c b _ hb (fun hh => hh)
        | pubrel id =>
          simp only [] at ht
          split at ht
          · exact absurd ht (not_succ_unsupported _ _)
          · split at ht
            · refine publishThen_incMono pid _ _ _ _ _ ?_ ht
              intro s' u hu
              rw [succ_one] at hu; subst hu
              exact ackVia_incMono pid s' c _ _ (ackPre_incMono _ _ _ _)
            · rw [succ_one] at ht; subst ht
              exact updConn_incMono _ _ _ _
        | unsubscribe topics id =>
          simp only [] at ht
          split at ht
          · exact absurd ht (not_succ_unsupported _ _)
          · split at ht
            · exact absurd ht (not_succ_unsupported _ _)
            · rename_i b hb
              rw [succ_one] at ht; subst ht
              refine (IncMono.of_stored rfl).trans ((incMono_setSessOf pid _ c b _ hb ?_).trans
                (ackVia_incMono pid _ c _ _ (IncMono.refl _ _)))
              have : ∀ (l : List Bytes) (b0 : BSess),
                  (l.foldl (fun b t => { b with subs := Tree.emptyTopic t b.subs }) b0).sess = b0.sess := by
                intro l; induction l with
                | nil => intro _; rfl
                | cons a l ih => intro b0; rw [List.foldl_cons, ih]
              rw [this]; exact fun hh => hh
        | subscribe subs id =>
          simp only [] at ht
          split at ht
          · exact absurd ht (not_succ_unsupported _ _)
          · split at ht
            · exact absurd ht (not_succ_unsupported _ _)
            · rename_i b hb
              have hfold : ∀ (l : List Subscription) (b0 : BSess),
                  (l.foldl (fun b sub => { b with subs := Tree.set sub.topic sub.qos.toNat b.subs }) b0).sess = b0.sess := by
                intro l; induction l with
                | nil => intro _; rfl
                | cons a l ih => intro b0; rw [List.foldl_cons, ih]
              have h3 : IncMono pid s (((s.setConn c ⟨.connected, true, xid, xw, xs, xp, xa, pt, st - 1, dc, dh, rn, cs, stl, zb⟩).setSessOf c
                  (subs.foldl (fun b sub => { b with subs := Tree.set sub.topic sub.qos.toNat b.subs }) b)).ackVia c
                  (.suback (subs.map (·.qos)) id) (fun s => s)) :=
                (IncMono.of_stored rfl).trans ((incMono_setSessOf pid _ c b _ hb (by rw [hfold]; exact fun hh => hh)).trans
                  (ackVia_incMono pid _ c _ _ (IncMono.refl _ _)))
              split at ht
              · rename_i s4 hsr
                rw [succ_one] at ht; subst ht
                exact h3.trans (subscribeRetained_frame _ _ _ _ (Or.inl hsr)).incMono
              · rename_i s4 hsr
                exact h3.trans ((subscribeRetained_frame _ _ _ _ (Or.inr hsr)).incMono.trans (kill_incMono pid _ _ _ ht))
              · exact absurd ht (not_succ_unsupported _ _)
        | publish m dup id =>
          simp only [] at ht
          split at ht
          · refine publishThen_incMono pid _ _ _ _ _ ?_ ht
            intro s' u hu; rw [succ_one] at hu; subst hu; exact IncMono.refl _ _
          · rename_i hq0
            split at ht
            · exact absurd ht (not_succ_unsupported _ _)
            · split at ht
              · refine IncMono.trans ?_ (publishThen_incMono pid _ _ _ _ _ ?_ ht)
                · exact IncMono.of_stored rfl
                · intro s' u hu; rw [succ_one] at hu; subst hu
                  exact ackVia_incMono pid s' c _ _ (IncMono.refl _ _)
              · rename_i hq1
                split at ht
                · exact absurd ht (not_succ_unsupported _ _)
                · rename_i b hb
                  rw [succ_one] at ht; subst ht
                  refine (IncMono.of_stored rfl).trans ((incMono_setSessOf pid _ c b _ hb ?_).trans (updConn_incMono _ _ _ _))
                  intro hh
                  have hne : pid ≠ id := by
                    intro he; subst he
                    rcases hnp m dup rfl with h0 | h1
                    · exact hq0 h0
                    · exact hq1 h1
                  simp only [MemorySession.savePacket, MemorySession.setStore, MemorySession.store]
                  rw [PacketStore.lookup_save _ _ id pid rfl, if_neg hne]
                  exact hh

theorem killAll_incMono (pid : UInt16) : ∀ (cs : List ConnId) (s t : BState), Succ (killAll s cs) t → IncMono pid s t := by
  intro cs
  induction cs with
  | nil => intro s t ht; rw [killAll, succ_one] at ht; subst ht; exact IncMono.refl _ _
  | cons c rest ih =>
    intro s t ht
    rw [killAll] at ht
    obtain ⟨s1, h1, h2⟩ := succ_bind _ _ _ ht
    exact (kill_incMono pid _ _ _ h1).trans (ih _ _ h2)

theorem ackRelease_incMono (pid : UInt16) : ∀ (l : List PendingAck) (s : BState),
    IncMono pid s (l.foldl (fun s a =>
      (ackPre a.conn a.pkt s).updConn a.conn (fun x => if x.alive then { x with ackOut := x.ackOut ++ [a.pkt] } else x)) s) := by
  intro l
  induction l with
  | nil => intro s; exact IncMono.refl _ _
  | cons a rest ih =>
    intro s
    rw [List.foldl_cons]
    exact ((ackPre_incMono pid _ _ _).trans (updConn_incMono _ _ _ _)).trans (ih _)

/-- no stimulus other than a QoS 2 PUBLISH with packet id `pid` makes a stored session hold `pid` -/
theorem stim_incMono (pid : UInt16) (s t : BState) (st : Stim)
    (hnp : ∀ c m d, st = .send c (.publish m d pid) → m.qos = 0 ∨ m.qos = 1)
    (ht : Succ (stim s st) t) : IncMono pid s t := by
  cases st with
  | conn c => rw [stim, succ_one] at ht; subst ht; exact IncMono.of_stored rfl
  | send c p =>
    refine recv_incMono pid s t c p ?_ ht
    intro m d hp; exact hnp c m d (by rw [hp])
  | drop c => exact kill_incMono pid s t c ht
  | ackRelease =>
    simp only [stim] at ht
    rw [succ_one] at ht; subst ht
    exact (ackRelease_incMono pid s.pendingAcks s).trans (IncMono.of_stored rfl)
  | backendClose =>
    simp only [stim] at ht
    refine IncMono.trans ?_ (killAll_incMono pid _ _ _ ht)
    exact IncMono.of_stored rfl
  | stall c => rw [stim, succ_one] at ht; subst ht; exact updConn_incMono _ _ _ _
  | unstall c =>
    simp only [stim] at ht
    split at ht
    · split at ht
      · have f := cleanup_succ _ _ _ _ ht
        refine IncMono.trans ?_ (IncMono.of_eq f.incoming)
        exact IncMono.of_stored rfl
      · rw [succ_one] at ht; subst ht; exact IncMono.of_stored rfl
    · exact absurd ht (not_succ_unsupported _ _)
  | tokenTimeout c =>
    simp only [stim] at ht
    split at ht
    · split at ht
      · exact kill_incMono pid s t c ht
      · exact absurd ht (not_succ_unsupported _ _)
    · exact absurd ht (not_succ_unsupported _ _)

theorem observeSent_incMono (pid : UInt16) (s s' : BState) (c : ConnId) (p : Packet)
    (h : observeSent s c p = some s') : IncMono pid s s' := by
  unfold observeSent at h
  split at h
  · cases h
  · rename_i x hx
    split at h
    · cases h
    · split at h
      · injection h with h; subst h; exact IncMono.of_stored rfl
      · split at h
        · injection h with h; subst h; exact IncMono.of_stored rfl
        · split at h
          · rename_i m id b hb _ _
            split at h
            · unfold acceptDelivery at h
              simp only [] at h
              have fin : ∀ (b1 : BSess) (out : Message) (s1 : BState),
                  (if out.qos = 0 then
                    if id ≠ 0 then none else
                      some ((s.setSessOf c b1).setConn c (retake { x with deqHand := false, deqChan := min s.cfg.window (x.deqChan + 1) }))
                  else
                    if (b1.sess.freshID).1 = 0 then none else
                    if (b1.sess.freshID).1 ≠ id then none else
                      some ((s.setSessOf c { b1 with sess := (b1.sess.freshID).2.savePacket .outgoing (.publish out false id) }).setConn c
                        (retake { x with deqHand := false }))) = some s1 → b1.sess = b.sess → IncMono pid s s1 := by
                intro b1 out s1 hs1 hb1
                split at hs1
                · split at hs1
                  · cases hs1
                  · injection hs1 with hs1; subst hs1
                    refine IncMono.trans (incMono_setSessOf pid s c b b1 hb ?_) (IncMono.of_stored rfl)
                    rw [hb1]; exact fun hh => hh
                · split at hs1
                  · cases hs1
                  · split at hs1
                    · cases hs1
                    · injection hs1 with hs1; subst hs1
                      refine IncMono.trans (incMono_setSessOf pid s c b _ hb ?_) (IncMono.of_stored rfl)
                      simp only [savePacket_outgoing_incoming, MemorySession.freshID_incoming, hb1]; exact fun hh => hh
              split at h
              · cases h
              · split at h
                · rename_i s1 hs1
                  injection h with h; subst h
                  split at hs1
                  · split at hs1
                    · exact fin _ _ _ hs1 rfl
                    · cases hs1
                  · cases hs1
                · split at h
                  · cases h
                  · split at h
                    · exact fin _ _ _ h rfl
                    · cases h
            · cases h
          · cases h

/-- no observation makes a stored session hold `pid` -/
theorem observe_incMono (pid : UInt16) (s t : BState) (o : Obs) (ht : t ∈ observe s o) : IncMono pid s t := by
  cases o with
  | backend e =>
    simp only [observe] at ht
    split at ht
    · simp only [List.mem_singleton] at ht; subst ht; exact IncMono.of_stored rfl
    · simp at ht
  | closed c =>
    simp only [observe] at ht
    split at ht
    · split at ht
      · simp only [List.mem_singleton] at ht; subst ht; exact IncMono.of_stored rfl
      · simp at ht
    · simp at ht
  | sent c p =>
    simp only [observe, Option.mem_toList] at ht
    exact observeSent_incMono pid s t c p ht
  | sendFail c p =>
    simp only [observe] at ht
    split at ht
    · rename_i s1 hs1
      split at ht
      · rename_i ss hk
        simp only [List.mem_map] at ht
        obtain ⟨s2, hs2, rfl⟩ := ht
        exact (observeSent_incMono pid s s1 c p hs1).trans
          ((kill_incMono pid s1 s2 c ⟨ss, hk, hs2⟩).trans (updConn_incMono _ _ _ _))
      · simp at ht
    · simp at ht

end BrokerB2
