import Proofs.BrokerSetup
import Proofs.Session
/-
  Proofs/BrokerQos.lean — helper lemmas for C07: where an acknowledgement goes (`ackVia`), the
  incoming store of the publisher's session (`savePacket` / `forgetIncoming`).
-/

namespace BrokerB2
open BState

/-- where the acknowledgement `p` of connection `c` (record `x` before) is after the step from `s`
    to `t`, depending on how the backend acknowledges: queued for the acker at once (synchronous),
    among the pending acknowledgements (late), nowhere (never). No other connection gets anything. -/
structure AckPlaced (s t : BState) (c : ConnId) (x : BConn) (p : Packet) : Prop where
  other : ∀ c', c' ≠ c → outsOf t c' = outsOf s c'
  same : ∃ x', t.conn? c = some x' ∧ x'.alive = true ∧ x'.procOut = x.procOut ∧
    (if s.neverAck then x'.ackOut = x.ackOut ∧ t.pendingAcks = s.pendingAcks
     else if s.lateAck then x'.ackOut = x.ackOut ∧ t.pendingAcks = s.pendingAcks ++ [⟨c, p⟩]
     else x'.ackOut = x.ackOut ++ [p] ∧ t.pendingAcks = s.pendingAcks)

theorem ackVia_placed (s : BState) (c : ConnId) (x : BConn) (p : Packet) (pre : BState → BState)
    (hx : s.conn? c = some x) (ha : x.alive = true) (hc : (pre s).conns = s.conns)
    (hpa : (pre s).pendingAcks = s.pendingAcks) : AckPlaced s (ackVia s c p pre) c x p := by
  unfold ackVia
  cases hn : s.neverAck with
  | true =>
    simp only [if_true]
    exact ⟨fun _ _ => rfl, x, hx, ha, rfl, by simp [hn]⟩
  | false =>
    cases hl : s.lateAck with
    | true =>
      simp only [Bool.false_eq_true, if_false, if_true]
      exact ⟨fun _ _ => rfl, x, hx, ha, rfl, by simp [hn, hl]⟩
    | false =>
      simp only [Bool.false_eq_true, if_false]
      have hx' : (pre s).conn? c = some x := by simp [conn?, hc]; exact hx
      rw [updConn_of_some _ _ _ _ hx']
      refine ⟨fun c' hne => ?_, _, conn?_setConn_same _ _ _, ?_, ?_, ?_⟩
      · rw [outsOf, conn?_setConn_other _ _ _ _ hne]; simp [outsOf, conn?, hc]
      · simp [ha]
      · simp [ha]
      · simp [hn, hl, ha, hpa]

/-- `updConn` with a function that keeps the session reference does not change which session is used -/
theorem sessOf_updConn (s : BState) (c c' : ConnId) (f : BConn → BConn) (hf : ∀ x, (f x).sref = x.sref) :
    (s.updConn c f).sessOf c' = s.sessOf c' := by
  cases h : s.conn? c with
  | none => rw [updConn_of_none _ _ _ h]
  | some x =>
    rw [updConn_of_some _ _ _ _ h]
    by_cases hc : c' = c
    · subst hc; exact sessOf_setConn_same s c' x _ h (hf x)
    · exact sessOf_setConn_other s c c' _ hc

theorem lookup_deletePacket (ms : MemorySession) (id : UInt16) :
    (ms.deletePacket .incoming id).lookupPacket .incoming id = none := by
  simp [MemorySession.deletePacket, MemorySession.lookupPacket, MemorySession.setStore, MemorySession.store,
    PacketStore.lookup_delete]

theorem lookup_savePacket (ms : MemorySession) (p : Packet) (id : UInt16) (h : p.getID = some id) :
    (ms.savePacket .incoming p).lookupPacket .incoming id = some p := by
  simp [MemorySession.savePacket, MemorySession.lookupPacket, MemorySession.setStore, MemorySession.store,
    PacketStore.lookup_save _ _ _ _ h]

/-- after `forgetIncoming` the session of `c` no longer holds `id` -/
theorem forgetIncoming_lookup (s : BState) (c : ConnId) (id : UInt16) (b' : BSess)
    (h : (forgetIncoming c id s).sessOf c = some b') : b'.sess.lookupPacket .incoming id = none := by
  unfold forgetIncoming at h
  split at h
  · rename_i b hb
    rw [sessOf_setSessOf s c _ b hb] at h
    injection h with h; subst h
    exact lookup_deletePacket _ _
  · rename_i hb
    rw [hb] at h; cases h

theorem forgetIncoming_pendingAcks (c : ConnId) (id : UInt16) (s : BState) :
    (forgetIncoming c id s).pendingAcks = s.pendingAcks := by
  unfold forgetIncoming; split <;> simp

theorem forgetIncoming_bevents (c : ConnId) (id : UInt16) (s : BState) :
    (forgetIncoming c id s).bevents = s.bevents := by
  unfold forgetIncoming; split <;> simp

theorem AckPlaced.transport {s s' t : BState} {c : ConnId} {x x1 : BConn} {p : Packet} (h : AckPlaced s' t c x1 p)
    (ho : ∀ c', c' ≠ c → outsOf s' c' = outsOf s c') (hp : x1.procOut = x.procOut) (ha : x1.ackOut = x.ackOut)
    (hn : s'.neverAck = s.neverAck) (hl : s'.lateAck = s.lateAck) (hpa : s'.pendingAcks = s.pendingAcks) :
    AckPlaced s t c x p := by
  refine ⟨fun c' hc => (h.other c' hc).trans (ho c' hc), ?_⟩
  obtain ⟨x', e1, e2, e3, e4⟩ := h.same
  refine ⟨x', e1, e2, e3.trans hp, ?_⟩
  rw [hn, hl, hpa, ha] at e4
  exact e4

@[simp] theorem updConn_bevents (s : BState) (c : ConnId) (f : BConn → BConn) : (s.updConn c f).bevents = s.bevents := by
  unfold updConn; split <;> rfl

@[simp] theorem updConn_stored (s : BState) (c : ConnId) (f : BConn → BConn) : (s.updConn c f).stored = s.stored := by
  unfold updConn; split <;> rfl

@[simp] theorem updConn_temp (s : BState) (c : ConnId) (f : BConn → BConn) : (s.updConn c f).temp = s.temp := by
  unfold updConn; split <;> rfl

theorem ackVia_bevents (s : BState) (c : ConnId) (p : Packet) (pre : BState → BState)
    (hpre : (pre s).bevents = s.bevents) : (ackVia s c p pre).bevents = s.bevents := by
  unfold ackVia
  split
  · rfl
  · split
    · rfl
    · simp [hpre]

/-! ### the incoming store across connection loss and session resumption -/

/-- the stored session `cid` does not hold an incoming PUBLISH with packet id `pid` -/
def Lacks (s : BState) (cid : ClientId) (pid : UInt16) : Prop :=
  ∀ st, incomingOf s cid = some st → st.lookup pid = none

theorem Lacks.of_eq {s t : BState} {cid : ClientId} {pid : UInt16} (h : incomingOf t cid = incomingOf s cid)
    (hl : Lacks s cid pid) : Lacks t cid pid := by
  intro st hst; rw [h] at hst; exact hl st hst

theorem kill_incoming (s t : BState) (c : ConnId) (ht : Succ (kill s c) t) (cid : ClientId) :
    incomingOf t cid = incomingOf s cid := by
  cases h : s.conn? c with
  | none => rw [kill_none s c h, succ_one] at ht; subst ht; rfl
  | some x =>
    cases ha : x.alive with
    | false => rw [kill_dead s c x h ha, succ_one] at ht; subst ht; rfl
    | true => exact (kill_frame s t c x h ha ht).incoming cid

theorem TakeOver.incoming {s1 s2 : BState} {av : Option ConnId} (h : TakeOver s1 s2 av) (cid : ClientId) :
    incomingOf s2 cid = incomingOf s1 cid := by
  rcases h with rfl | ⟨oc, _, hk⟩
  · rfl
  · exact kill_incoming _ _ _ hk cid

/-- the session a stored-session connection uses is the stored session -/
theorem sessOf_stored (s : BState) (c : ConnId) (x : BConn) (cid : ClientId) (h : s.conn? c = some x)
    (hr : x.sref = .stored cid) : (s.sessOf c).map (·.sess.incoming) = incomingOf s cid := by
  rw [sessOf_eq s c x h, hr]; rfl

/-- An accepted CONNECT gives the connection either the stored session with its incoming store as it
    was (session resumed), or a new session with an empty incoming store. -/
theorem setup_incoming (s t : BState) (c : ConnId) (x : BConn) (id : ClientId) (clean : Bool) (will : Option Message)
    (hc : SetupCase (some c) s t c x id clean will) (x' : BConn) (hx' : t.conn? c = some x') (hal : x'.alive = true) :
    ∃ b', t.sessOf c = some b' ∧
      ((clean = false ∧ x'.sref = .stored id ∧ incomingOf s id = some b'.sess.incoming) ∨ b'.sess.incoming = {}) := by
  have dead : ∀ s', (∃ y, s'.conn? c = some y) → Succ (kill s' c) t → False := by
    intro s' ⟨y, hy⟩ hk
    obtain ⟨y', b1, b2, _⟩ := kill_conn_after s' t c y hy hk
    rw [hx'] at b1; cases b1
    rw [hal] at b2; cases b2
  cases hc with
  | closing _ hk => exact (dead _ ⟨_, conn?_setConn_same _ _ _⟩ hk).elim
  | timeout s2 _ hto hk => exact (dead s2 ⟨_, hto.conn?.trans (conn?_setConn_same _ _ _)⟩ hk).elim
  | accepted s2 s3 xa sp extra _ hto he a1 a2 a3 a4 a5 a6 a7 e1 e2 e3 e4 e5 e6 e7 hsc =>
    subst he
    rw [conn?_setConn_same] at hx'
    injection hx' with hx'; subst hx'
    rw [sessOf_eq _ c _ (conn?_setConn_same _ _ _), retake_sref, sessAt_setConn]
    cases hsc with
    | temp hr _ _ _ hg _ =>
      rw [hr]
      exact ⟨newSess c, hg, Or.inr rfl⟩
    | fresh hr _ _ _ _ hst _ =>
      rw [hr]
      refine ⟨newSess c, ?_, Or.inr rfl⟩
      simp [sessAt, hst, get_set_same]
    | resumed b hr _ hcl hb _ hst _ =>
      obtain ⟨b', hst, hi, _⟩ := hst
      rw [hr]
      refine ⟨b', ?_, Or.inl ⟨hcl, by simp, ?_⟩⟩
      · simp [sessAt, hst, get_set_same]
      · have : incomingOf s id = incomingOf s2 id := by
          rw [hto.incoming id]; rfl
        rw [this, hi]
        simp [incomingOf, hb]

end BrokerB2
