import Proofs.BrokerProc
/-
  Proofs/BrokerSetup.lean — `setupAndConnack` (processConnect after authentication: Setup with
  takeover, CONNACK, resend) taken apart into its three outcomes.
-/

namespace BrokerB2
open BState

/-! ### `processConnect` after authentication -/

@[simp] theorem retake_alive (x : BConn) : (retake x).alive = x.alive := by unfold retake; split <;> rfl
@[simp] theorem retake_phase (x : BConn) : (retake x).phase = x.phase := by unfold retake; split <;> rfl
@[simp] theorem retake_will (x : BConn) : (retake x).will = x.will := by unfold retake; split <;> rfl
@[simp] theorem retake_id (x : BConn) : (retake x).id = x.id := by unfold retake; split <;> rfl
@[simp] theorem retake_sref (x : BConn) : (retake x).sref = x.sref := by unfold retake; split <;> rfl
@[simp] theorem retake_procOut (x : BConn) : (retake x).procOut = x.procOut := by unfold retake; split <;> rfl
@[simp] theorem retake_ackOut (x : BConn) : (retake x).ackOut = x.ackOut := by unfold retake; split <;> rfl
@[simp] theorem retake_running (x : BConn) : (retake x).running = x.running := by unfold retake; split <;> rfl
@[simp] theorem retake_stalled (x : BConn) : (retake x).stalled = x.stalled := by unfold retake; split <;> rfl
@[simp] theorem retake_zombie (x : BConn) : (retake x).zombie = x.zombie := by unfold retake; split <;> rfl

/-- the stored outgoing packets as `processConnect` sends them again: PUBLISH flagged dup -/
def resendPkts (b : BSess) : List Packet :=
  b.sess.outgoing.entries.map (fun e =>
    match e.2 with
    | .publish m _ id => Packet.publish m true id
    | p => p)

theorem resend_fst (b : BSess) (x : BConn) :
    (resend b x).1.sess.incoming = b.sess.incoming ∧ (resend b x).1.subs = b.subs ∧ (resend b x).1.active = b.active ∧
    (resend b x).1.storedQ = b.storedQ ∧ (resend b x).1.tempQ = b.tempQ := ⟨rfl, rfl, rfl, rfl, rfl⟩

theorem resend_snd (b : BSess) (x : BConn) :
    (resend b x).2.procOut = x.procOut ++ resendPkts b ∧ (resend b x).2.ackOut = x.ackOut ∧
    (resend b x).2.alive = x.alive ∧ (resend b x).2.phase = x.phase ∧ (resend b x).2.will = x.will ∧
    (resend b x).2.id = x.id ∧ (resend b x).2.sref = x.sref ∧ (resend b x).2.running = x.running := by
  refine ⟨?_, rfl, rfl, rfl, rfl, rfl, rfl, rfl⟩
  simp only [resend, resendPkts, List.map_map]
  congr 1
  apply List.map_congr_left
  intro e _
  obtain ⟨k, q⟩ := e
  cases q <;> rfl

/-- how the old connection with the same client id was displaced (`av`: a connection known not to be
    the displaced one) -/
def TakeOver (s1 s2 : BState) (av : Option ConnId) : Prop := s2 = s1 ∨ ∃ oc, some oc ≠ av ∧ Succ (kill s1 oc) s2

/-- which session the accepted connection got -/
inductive SessCase (s2 s3 : BState) (c : ConnId) (id : ClientId) (clean : Bool) (r : SessRef) (sp : Bool)
    (extra : List Packet) : Prop where
  | temp : r = .temp → sp = false → extra = [] → (id.length = 0 ∨ clean = true) →
      Assoc.get s3.temp c = some (newSess c) → (s3.stored = s2.stored ∨ s3.stored = Assoc.del s2.stored id) →
      SessCase s2 s3 c id clean r sp extra
  | fresh : r = .stored id → sp = false → extra = [] → clean = false → Assoc.get s2.stored id = none →
      s3.stored = Assoc.set s2.stored id (newSess c) → s3.temp = s2.temp → SessCase s2 s3 c id clean r sp extra
  | resumed (b : BSess) : r = .stored id → sp = true → clean = false → Assoc.get s2.stored id = some b →
      extra = resendPkts b → (∃ b', s3.stored = Assoc.set s2.stored id b' ∧ b'.sess.incoming = b.sess.incoming ∧
        b'.subs = b.subs ∧ b'.storedQ = b.storedQ ∧ b'.active = some c) → s3.temp = s2.temp →
      SessCase s2 s3 c id clean r sp extra

/-- the three ways `processConnect` can end after successful authentication -/
inductive SetupCase (av : Option ConnId) (s t : BState) (c : ConnId) (x : BConn) (id : ClientId) (clean : Bool) (will : Option Message) : Prop where
  | closing : s.closing = true → Succ (kill (s.setConn c { x with phase := .connected, id := id }) c) t →
      SetupCase av s t c x id clean will
  | timeout (s2 : BState) : s.closing = false → TakeOver (s.setConn c { x with phase := .connected, id := id }) s2 av →
      Succ (kill s2 c) t → SetupCase av s t c x id clean will
  | accepted (s2 s3 : BState) (xa : BConn) (sp : Bool) (extra : List Packet) : s.closing = false →
      TakeOver (s.setConn c { x with phase := .connected, id := id }) s2 av →
      t = s3.setConn c (retake xa) →
      xa.alive = x.alive → xa.phase = .connected → xa.will = will → xa.id = id → xa.ackOut = x.ackOut →
      xa.procOut = x.procOut ++ .connack sp 0 :: extra → xa.running = true →
      s3.conns = s2.conns → s3.bevents = s2.bevents ++ [.setup c sp] → s3.cfg = s2.cfg → s3.closing = s2.closing →
      s3.lateAck = s2.lateAck → s3.neverAck = s2.neverAck → s3.pendingAcks = s2.pendingAcks →
      SessCase s2 s3 c id clean xa.sref sp extra →
      SetupCase av s t c x id clean will

/-- connection `c` does not own a session -/
def NotOwner (s : BState) (c : ConnId) : Prop :=
  (∀ e ∈ s.stored, e.2.active ≠ some c) ∧ (∀ e ∈ s.temp, e.2.active ≠ some c)

theorem get_mem {κ α : Type} [DecidableEq κ] (l : List (κ × α)) (k : κ) (a : α) (h : Assoc.get l k = some a) :
    (k, a) ∈ l := by
  induction l with
  | nil => simp [get_nil] at h
  | cons e l ih =>
    rw [get_cons] at h
    split at h
    · rename_i he
      simp only [Option.some.injEq] at h
      obtain ⟨k', a'⟩ := e
      simp only at he h
      subst he h; simp
    · exact List.mem_cons_of_mem _ (ih h)

theorem existing_ne (s : BState) (c : ConnId) (id : ClientId) (hown : NotOwner s c) :
    (match Assoc.get s.stored id with
      | some b => b.active
      | none => (match Assoc.get s.activeClients id with
                 | some oc => (match Assoc.get s.temp oc with | some b => b.active | none => none)
                 | none => none)) ≠ some c := by
  split
  · rename_i b hb
    exact hown.1 _ (get_mem _ _ _ hb)
  · split
    · split
      · rename_i b hb
        exact hown.2 _ (get_mem _ _ _ hb)
      · simp
    · simp

theorem succ_ite (b : Bool) (r1 r2 : Res) (t : BState) (h : Succ (if b = true then r1 else r2) t) :
    Succ r1 t ∨ Succ r2 t := by
  cases b
  · exact Or.inr (by simpa using h)
  · exact Or.inl (by simpa using h)

theorem succ_ite_prop (p : Prop) [Decidable p] (r1 r2 : Res) (t : BState) (h : Succ (if p then r1 else r2) t) :
    (p ∧ Succ r1 t) ∨ (¬ p ∧ Succ r2 t) := by
  by_cases hp : p
  · exact Or.inl ⟨hp, by simpa [hp] using h⟩
  · exact Or.inr ⟨hp, by simpa [hp] using h⟩

theorem setup_cases_av (av : Option ConnId) (s t : BState) (c : ConnId) (x : BConn) (id : ClientId) (clean : Bool)
    (will : Option Message) (hav : av = none ∨ (av = some c ∧ NotOwner s c))
    (ht : Succ (setupAndConnack s c x id clean will) t) :
    SetupCase av s t c x id clean will := by
  unfold setupAndConnack at ht
  simp only [setConn_closing] at ht
  split at ht
  · rename_i hcl
    exact SetupCase.closing hcl ht
  · rename_i hcl
    have hcl' : s.closing = false := by simpa using hcl
    split at ht
    · rename_i hid
      rw [succ_one] at ht
      refine SetupCase.accepted (s.setConn c { x with phase := .connected, id := id }) _ _ false [] hcl' (Or.inl rfl) ht
        rfl rfl rfl rfl rfl (by simp [startConn]) rfl rfl rfl rfl rfl rfl rfl rfl ?_
      exact SessCase.temp rfl rfl rfl (Or.inl hid) (get_set_same _ _ _) (Or.inl rfl)
    · rename_i hid
      obtain ⟨s2, hs2, ht⟩ := succ_bind _ _ _ ht
      have hto : TakeOver (s.setConn c { x with phase := .connected, id := id }) s2 av := by
        split at hs2
        · rename_i oc hoc
          refine Or.inr ⟨oc, ?_, hs2⟩
          rcases hav with rfl | ⟨rfl, hown⟩
          · simp
          · intro h; injection h with h; subst h; exact existing_ne s oc id hown hoc
        · rw [succ_one] at hs2; exact Or.inl hs2
      clear hs2
      rcases succ_ite _ _ _ _ ht with ht | ht
      · exact SetupCase.timeout s2 hcl' hto ht
      · split at ht
        · rename_i hclean
          rw [succ_one] at ht
          refine SetupCase.accepted s2 _ _ false [] hcl' hto ht
            rfl rfl rfl rfl rfl (by simp [startConn]) rfl rfl rfl rfl rfl rfl rfl rfl ?_
          exact SessCase.temp rfl rfl rfl (Or.inr hclean) (get_set_same _ _ _) (Or.inr rfl)
        · rename_i hclean
          have hclean' : clean = false := by simpa using hclean
          split at ht
          · rename_i b hb
            rw [succ_one] at ht
            refine SetupCase.accepted s2 _ _ true (resendPkts { b with tempQ := [], active := some c }) hcl' hto ht
              ?_ ?_ ?_ ?_ ?_ ?_ ?_ rfl rfl rfl rfl rfl rfl rfl ?_
            · exact (resend_snd _ _).2.2.1
            · exact (resend_snd _ _).2.2.2.1
            · exact (resend_snd _ _).2.2.2.2.1
            · exact (resend_snd _ _).2.2.2.2.2.1
            · exact (resend_snd _ _).2.1
            · rw [(resend_snd _ _).1]; simp [startConn]
            · exact (resend_snd _ _).2.2.2.2.2.2.2
            · refine SessCase.resumed b ?_ rfl hclean' hb rfl ⟨_, rfl, rfl, rfl, rfl, rfl⟩ rfl
              exact (resend_snd _ _).2.2.2.2.2.2.1
          · rename_i hb
            rw [succ_one] at ht
            refine SetupCase.accepted s2 _ _ false [] hcl' hto ht
              rfl rfl rfl rfl rfl (by simp [startConn]) rfl rfl rfl rfl rfl rfl rfl rfl ?_
            exact SessCase.fresh rfl rfl rfl hclean' hb rfl rfl

/-- with the connection known not to own a session: the displaced connection is another one -/
theorem setup_cases (s t : BState) (c : ConnId) (x : BConn) (id : ClientId) (clean : Bool) (will : Option Message)
    (hown : NotOwner s c) (ht : Succ (setupAndConnack s c x id clean will) t) :
    SetupCase (some c) s t c x id clean will := setup_cases_av (some c) s t c x id clean will (Or.inr ⟨rfl, hown⟩) ht

theorem TakeOver.outsSame {s1 s2 : BState} {c : Option ConnId} (h : TakeOver s1 s2 c) : OutsSame s1 s2 := by
  rcases h with rfl | ⟨oc, _, hk⟩
  · exact OutsSame.refl _
  · exact kill_outsSame _ _ _ hk

theorem TakeOver.conn? {s1 s2 : BState} {c : ConnId} (h : TakeOver s1 s2 (some c)) : s2.conn? c = s1.conn? c := by
  rcases h with rfl | ⟨oc, hne, hk⟩
  · rfl
  · exact kill_conn_other _ _ _ _ (fun h => hne (by rw [h])) hk

/-- what `processConnect` queues: nothing (closed), or the CONNACK followed by the stored outgoing
    packets of the resumed session -/
theorem setup_outs (s t : BState) (c : ConnId) (x : BConn) (id : ClientId) (clean : Bool) (will : Option Message)
    (h : s.conn? c = some x) (hc : SetupCase (some c) s t c x id clean will) :
    ∃ lp, OutsPush s t c lp [] ∧
      (lp = [] ∨ ∃ sp extra, lp = .connack sp 0 :: extra ∧
        (extra = [] ∨ ∃ s2 b, TakeOver (s.setConn c { x with phase := .connected, id := id }) s2 (some c) ∧
          Assoc.get s2.stored id = some b ∧ extra = resendPkts b)) := by
  have h1 : OutsSame s (s.setConn c { x with phase := .connected, id := id }) := OutsSame.of_setConn s c x _ h rfl rfl rfl
  cases hc with
  | closing hcl hk => exact ⟨[], (h1.trans (kill_outsSame _ _ _ hk)).toPush c x h, Or.inl rfl⟩
  | timeout s2 hcl hto hk => exact ⟨[], (h1.trans (hto.outsSame.trans (kill_outsSame _ _ _ hk))).toPush c x h, Or.inl rfl⟩
  | accepted s2 s3 xa sp extra hcl hto ht a1 a2 a3 a4 a5 a6 a7 e1 e2 e3 e4 e5 e6 e7 hsc =>
    have h23 : OutsSame s2 s3 := OutsSame.of_conns e1
    have hx3 : s3.conn? c = some { x with phase := .connected, id := id } := by
      have : s3.conn? c = s2.conn? c := by simp [BState.conn?, e1]
      rw [this, hto.conn?]; exact conn?_setConn_same _ _ _
    refine ⟨.connack sp 0 :: extra, ?_, Or.inr ⟨sp, extra, rfl, ?_⟩⟩
    · subst ht
      exact (h1.trans (hto.outsSame.trans h23)).push
        (OutsPush.of_setConn s3 c _ (retake xa) _ _ hx3 (by simp [a6]) (by simp [a5]) (by simp [a1]))
    · cases hsc with
      | temp _ _ hex _ _ _ => exact Or.inl hex
      | fresh _ _ hex _ _ _ _ => exact Or.inl hex
      | resumed b _ _ _ hb hex _ _ => exact Or.inr ⟨s2, b, hto, hb, hex⟩

/-- the backend calls `kill oc` makes are about `oc` only -/
theorem kill_bevents (s t : BState) (oc : ConnId) (ht : Succ (kill s oc) t) :
    ∃ ev, t.bevents = s.bevents ++ ev ∧ ∀ e ∈ ev, e = BEvent.terminate oc ∨ ∃ w, e = BEvent.publish oc w := by
  cases h : s.conn? oc with
  | none => rw [kill_none s oc h, succ_one] at ht; subst ht; exact ⟨[], by simp, by simp⟩
  | some x =>
    cases ha : x.alive with
    | false => rw [kill_dead s oc x h ha, succ_one] at ht; subst ht; exact ⟨[], by simp, by simp⟩
    | true =>
      refine ⟨dieEv oc x, (kill_frame s t oc x h ha ht).bevents, ?_⟩
      intro e he
      unfold dieEv at he
      split at he
      · simp at he
      · rcases List.mem_append.mp he with he | he
        · unfold willEv at he
          split at he
          · simp only [List.mem_singleton] at he; exact Or.inr ⟨_, he⟩
          · simp at he
        · unfold termEv at he
          split at he
          · simp at he
          · simp only [List.mem_singleton] at he; exact Or.inl he

theorem TakeOver.bevents {s1 s2 : BState} {c : ConnId} (h : TakeOver s1 s2 (some c)) :
    ∃ ev, s2.bevents = s1.bevents ++ ev ∧ ∀ e ∈ ev, ∃ oc, oc ≠ c ∧ (e = BEvent.terminate oc ∨ ∃ w, e = BEvent.publish oc w) := by
  rcases h with rfl | ⟨oc, hne, hk⟩
  · exact ⟨[], by simp, by simp⟩
  · obtain ⟨ev, h1, h2⟩ := kill_bevents _ _ _ hk
    exact ⟨ev, h1, fun e he => ⟨oc, fun h => hne (by rw [h]), h2 e he⟩⟩

/-- `processConnect` leaves closed connections closed (no assumption on who owns which session) -/
theorem setup_deadStay (s t : BState) (c : ConnId) (x : BConn) (id : ClientId) (clean : Bool) (will : Option Message)
    (h : s.conn? c = some x) (ht : Succ (setupAndConnack s c x id clean will) t) (c' : ConnId) (hc : c' ≠ c) :
    DeadStayAt s t c' := by
  have h1 : OutsSame s (s.setConn c { x with phase := .connected, id := id }) := OutsSame.of_setConn s c x _ h rfl rfl rfl
  cases setup_cases_av none s t c x id clean will (Or.inl rfl) ht with
  | closing hcl hk => exact ((h1.trans (kill_outsSame _ _ _ hk)) c').2
  | timeout s2 hcl hto hk => exact ((h1.trans (hto.outsSame.trans (kill_outsSame _ _ _ hk))) c').2
  | accepted s2 s3 xa sp extra hcl hto ht a1 a2 a3 a4 a5 a6 a7 e1 =>
    subst ht
    have h23 : OutsSame s2 s3 := OutsSame.of_conns e1
    exact ((h1.trans (hto.outsSame.trans h23)) c').2.trans (DeadStayAt.of_eq (conn?_setConn_other _ _ _ _ hc))

/-- handling one packet never brings a closed connection back to life -/
theorem recv_deadStay (s t : BState) (c : ConnId) (p : Packet) (ht : Succ (recv s c p) t) (c' : ConnId) :
    DeadStayAt s t c' := by
  cases h : s.conn? c with
  | none => simp [recv, h] at ht; exact absurd ht (not_succ_unsupported _ _)
  | some x =>
    cases ha : x.alive with
    | false =>
      have : recv s c p = .one s := by simp [recv, h, ha]
      rw [this, succ_one] at ht; subst ht
      exact DeadStayAt.of_eq rfl
    | true =>
      by_cases hc : c' = c
      · subst hc
        intro x0 hx0 ha0
        rw [h] at hx0; cases hx0
        rw [ha] at ha0; cases ha0
      · cases hp : x.phase with
        | disconnected =>
          have : recv s c p = .one s := by simp [recv, h, ha, hp]
          rw [this, succ_one] at ht; subst ht
          exact DeadStayAt.of_eq rfl
        | connected =>
          obtain ⟨lp, la, hpush, _⟩ := recv_connected_outs s t c x p h ha hp ht
          exact (hpush.other c' hc).2
        | connecting =>
          obtain ⟨ph, al, xid, xw, xs, xp, xa, pt, st, dc, dh, rn, cs, stl, zb⟩ := x
          simp only at ha hp
          subst ha hp
          have killed : ∀ s', DeadStayAt s s' c' → Succ (kill s' c) t → DeadStayAt s t c' :=
            fun s' h1 h2 => h1.trans ((kill_outsSame _ _ _ h2) c').2
          unfold recv at ht
          simp only [h] at ht
          simp only [Bool.not_true, Bool.false_eq_true, if_false] at ht
          cases p with
          | connect id ka u pw clean will v =>
            simp only [setConn_closing] at ht
            rcases succ_ite_prop _ _ _ _ ht with ⟨_, ht⟩ | ⟨_, ht⟩
            · exact killed _ (DeadStayAt.of_eq (conn?_setConn_other _ _ _ _ hc)) ht
            · rcases succ_ite_prop _ _ _ _ ht with ⟨_, ht⟩ | ⟨_, ht⟩
              · refine killed _ (DeadStayAt.of_eq ?_) ht
                rw [conn?_setConn_other _ _ _ _ hc, conn?_setConn_other _ _ _ _ hc]
              · exact (DeadStayAt.of_eq (conn?_setConn_other _ _ _ _ hc)).trans
                  (setup_deadStay _ t c _ id clean will (conn?_setConn_same _ _ _) ht c' hc)
          | connack => exact killed s (DeadStayAt.of_eq rfl) ht
          | publish => exact killed s (DeadStayAt.of_eq rfl) ht
          | puback => exact killed s (DeadStayAt.of_eq rfl) ht
          | pubrec => exact killed s (DeadStayAt.of_eq rfl) ht
          | pubrel => exact killed s (DeadStayAt.of_eq rfl) ht
          | pubcomp => exact killed s (DeadStayAt.of_eq rfl) ht
          | subscribe => exact killed s (DeadStayAt.of_eq rfl) ht
          | suback => exact killed s (DeadStayAt.of_eq rfl) ht
          | unsubscribe => exact killed s (DeadStayAt.of_eq rfl) ht
          | unsuback => exact killed s (DeadStayAt.of_eq rfl) ht
          | pingreq => exact killed s (DeadStayAt.of_eq rfl) ht
          | pingresp => exact killed s (DeadStayAt.of_eq rfl) ht
          | disconnect => exact killed s (DeadStayAt.of_eq rfl) ht

/-! ### closed connections stay closed: the other stimuli and the observations -/

theorem setConn_deadStay (s : BState) (c c' : ConnId) (x x1 : BConn) (h : s.conn? c = some x)
    (hal : x1.alive = x.alive) : DeadStayAt s (s.setConn c x1) c' := by
  by_cases hc : c' = c
  · subst hc
    intro x0 hx0 ha0
    rw [h] at hx0; cases hx0
    exact ⟨x1, conn?_setConn_same _ _ _, hal.trans ha0⟩
  · exact DeadStayAt.of_eq (conn?_setConn_other _ _ _ _ hc)

theorem updConn_deadStay (s : BState) (c c' : ConnId) (f : BConn → BConn) (hf : ∀ x, (f x).alive = x.alive) :
    DeadStayAt s (s.updConn c f) c' := by
  cases h : s.conn? c with
  | none => rw [updConn_of_none _ _ _ h]; exact DeadStayAt.of_eq rfl
  | some x => rw [updConn_of_some _ _ _ _ h]; exact setConn_deadStay s c c' x _ h (hf x)

theorem conns_deadStay {s t : BState} (h : t.conns = s.conns) (c' : ConnId) : DeadStayAt s t c' :=
  ((OutsSame.of_conns h) c').2

theorem killAll_outsSame : ∀ (cs : List ConnId) (s t : BState), Succ (killAll s cs) t → OutsSame s t := by
  intro cs
  induction cs with
  | nil => intro s t ht; rw [killAll, succ_one] at ht; subst ht; exact OutsSame.refl _
  | cons c rest ih =>
    intro s t ht
    rw [killAll] at ht
    obtain ⟨s1, h1, h2⟩ := succ_bind _ _ _ ht
    exact (kill_outsSame _ _ _ h1).trans (ih _ _ h2)

theorem ackRelease_deadStay (c' : ConnId) : ∀ (l : List PendingAck) (s : BState),
    DeadStayAt s (l.foldl (fun s a =>
      (ackPre a.conn a.pkt s).updConn a.conn (fun x => if x.alive then { x with ackOut := x.ackOut ++ [a.pkt] } else x)) s) c' := by
  intro l
  induction l with
  | nil => intro s; exact DeadStayAt.of_eq rfl
  | cons a rest ih =>
    intro s
    rw [List.foldl_cons]
    refine DeadStayAt.trans ?_ (ih _)
    refine (conns_deadStay (ackPre_conns _ _ _) c').trans (updConn_deadStay _ _ _ _ ?_)
    intro x; split <;> rfl

/-- no stimulus other than a new connection with the same number revives a closed connection -/
theorem stim_deadStay (s t : BState) (st : Stim) (c' : ConnId) (hst : ∀ c, st = .conn c → c ≠ c')
    (ht : Succ (stim s st) t) : DeadStayAt s t c' := by
  cases st with
  | conn c =>
    rw [stim, succ_one] at ht; subst ht
    exact DeadStayAt.of_eq (conn?_setConn_other _ _ _ _ (Ne.symm (hst c rfl)))
  | send c p => exact recv_deadStay s t c p ht c'
  | drop c => exact ((kill_outsSame s t c ht) c').2
  | ackRelease =>
    simp only [stim] at ht
    rw [succ_one] at ht; subst ht
    exact (ackRelease_deadStay c' s.pendingAcks s).trans (conns_deadStay rfl c')
  | backendClose =>
    simp only [stim] at ht
    exact (conns_deadStay (s := s) (t := { s with closing := true }) rfl c').trans ((killAll_outsSame _ _ _ ht) c').2
  | stall c =>
    rw [stim, succ_one] at ht; subst ht
    exact updConn_deadStay _ _ _ _ (fun _ => rfl)
  | unstall c =>
    simp only [stim] at ht
    split at ht
    · rename_i x hx
      split at ht
      · have f := cleanup_succ _ _ _ _ ht
        exact (setConn_deadStay s c c' x { x with stalled := false, zombie := false } hx rfl).trans (conns_deadStay f.conns c')
      · rw [succ_one] at ht; subst ht
        exact setConn_deadStay s c c' x _ hx rfl
    · exact absurd ht (not_succ_unsupported _ _)
  | tokenTimeout c =>
    simp only [stim] at ht
    split at ht
    · split at ht
      · exact ((kill_outsSame s t c ht) c').2
      · exact absurd ht (not_succ_unsupported _ _)
    · exact absurd ht (not_succ_unsupported _ _)

theorem observeSent_deadStay (s s' : BState) (c : ConnId) (p : Packet) (c' : ConnId)
    (h : observeSent s c p = some s') : DeadStayAt s s' c' := by
  unfold observeSent at h
  split at h
  · cases h
  · rename_i x hx
    split at h
    · cases h
    · split at h
      · injection h with h; subst h
        exact setConn_deadStay s c c' x _ hx rfl
      · split at h
        · injection h with h; subst h
          refine setConn_deadStay s c c' x _ hx ?_
          unfold ackSent; split <;> rfl
        · split at h
          · rename_i m id b hb _ _
            split at h
            · rename_i hal
              unfold acceptDelivery at h
              simp only [] at h
              have fin : ∀ (b1 : BSess) (out : Message) (s1 : BState),
                  (if out.qos = 0 then
                    if id ≠ 0 then none else
                      some ((s.setSessOf c b1).setConn c (retake { x with deqHand := false, deqChan := min s.cfg.window (x.deqChan + 1) }))
                  else
                    if (b1.sess.freshID).1 = 0 then none else
                    if (b1.sess.freshID).1 ≠ id then none else
                      some ((s.setSessOf c { b1 with sess := (b1.sess.freshID).2.savePacket .outgoing (.publish out false id) }).setConn c
                        (retake { x with deqHand := false }))) = some s1 → DeadStayAt s s1 c' := by
                intro b1 out s1 hs1
                have hx1 : ∀ b2, (s.setSessOf c b2).conn? c = some x := fun b2 => by rw [setSessOf_conn?]; exact hx
                split at hs1
                · split at hs1
                  · cases hs1
                  · injection hs1 with hs1; subst hs1
                    exact (conns_deadStay (setSessOf_conns _ _ _) c').trans
                      (setConn_deadStay _ c c' x _ (hx1 _) (by simp))
                · split at hs1
                  · cases hs1
                  · split at hs1
                    · cases hs1
                    · injection hs1 with hs1; subst hs1
                      exact (conns_deadStay (setSessOf_conns _ _ _) c').trans
                        (setConn_deadStay _ c c' x _ (hx1 _) (by simp))
              split at h
              · cases h
              · split at h
                · rename_i s1 hs1
                  injection h with h; subst h
                  split at hs1
                  · split at hs1
                    · exact fin _ _ _ hs1
                    · cases hs1
                  · cases hs1
                · split at h
                  · cases h
                  · split at h
                    · exact fin _ _ _ h
                    · cases h
            · cases h
          · cases h

/-- no observation revives a closed connection -/
theorem observe_deadStay (s t : BState) (o : Obs) (c' : ConnId) (ht : t ∈ observe s o) : DeadStayAt s t c' := by
  cases o with
  | backend e =>
    simp only [observe] at ht
    split at ht
    · simp only [List.mem_singleton] at ht; subst ht; exact conns_deadStay rfl c'
    · simp at ht
  | closed c =>
    simp only [observe] at ht
    split at ht
    · rename_i x hx
      split at ht
      · simp only [List.mem_singleton] at ht; subst ht
        exact setConn_deadStay s c c' x _ hx rfl
      · simp at ht
    · simp at ht
  | sent c p =>
    simp only [observe, Option.mem_toList] at ht
    exact observeSent_deadStay s t c p c' ht
  | sendFail c p =>
    simp only [observe] at ht
    split at ht
    · rename_i s1 hs1
      split at ht
      · rename_i ss hk
        simp only [List.mem_map] at ht
        obtain ⟨s2, hs2, rfl⟩ := ht
        exact (observeSent_deadStay s s1 c p c' hs1).trans
          (((kill_outsSame s1 s2 c ⟨ss, hk, hs2⟩) c').2.trans (updConn_deadStay _ _ _ _ (fun _ => rfl)))
      · simp at ht
    · simp at ht

end BrokerB2
