import Proofs.ClientC09g
/-
  Proofs/ClientC10.lean — C10: what the processor does with inbound PUBLISH / PUBREL. (K1)
-/
set_option linter.unusedSimpArgs false
set_option linter.unusedVariables false
set_option linter.unnecessarySimpa false
open Cl Cl.St
namespace ClientK1

/-- a PUBLISH as the decoder delivers it -/
def ValidPub (m : Message) (id : UInt16) : Prop :=
  m.qos.toNat ≤ 2 ∧ (m.qos = 0 → id = 0) ∧ (m.qos ≠ 0 → id ≠ 0)

/-! ### dispatch -/

theorem recv_publish {fx s s' m dup id} (hp : s.proc = .recv false)
    (h : stepProc fx s (.recv (.publish m dup id)) = some s') :
    s' = { s with proc := if m.qos.toNat ≤ 1 ∨ s.early then .pubCb m dup id else .pubSave m dup id } := by
  simp [stepProc, hp] at h
  obtain ⟨_, _, _, h⟩ := h
  split at h
  · rename_i hc; simp at h; subst h; rw [if_pos hc]
  · rename_i hc; simp at h; subst h; rw [if_neg hc]

theorem recv_publish_enabled {fx s m dup id} (hp : s.proc = .recv false) (hv : ValidPub m id) :
    ∃ s', stepProc fx s (.recv (.publish m dup id)) = some s' := by
  obtain ⟨h1, h2, h3⟩ := hv
  by_cases hq : m.qos = 0
  · have := h2 hq; subst this
    simp [stepProc, hp, hq]
  · have := h3 hq
    have h2' : ¬ m.qos.toNat > 2 := by omega
    simp [stepProc, hp, hq, this, h2']
    split <;> simp

theorem recv_pubrel {fx s s' id} (hp : s.proc = .recv false) (h : stepProc fx s (.recv (.pubrel id)) = some s') :
    s' = { s with proc := .relLook id } ∧ id ≠ 0 := by
  simp [stepProc, hp] at h
  exact ⟨h.2.symm, h.1⟩

/-! ### QoS 0 / 1: callback, then PUBACK -/

/-- in `pubCb` the only thing the processor can do is invoke the callback with that very message;
    accepted: the message is appended to what the application got, then QoS 1 → PUBACK is due,
    QoS 2 (announce mode) → the store, QoS 0 → next packet; rejected: `die(err, true)`, nothing
    else changes -/
theorem pubCb_step {fx s s' l m dup id} (hp : s.proc = .pubCb m dup id) (h : stepProc fx s l = some s') :
    ∃ ok, l = .cb m ok ∧
      (ok = true → s'.cbs = s.cbs ++ [m] ∧ s'.out = s.out ∧ s'.sess = s.sess ∧
        s'.proc = (if m.qos = 1 then Proc.pubAck id else if m.qos = 2 then Proc.pubSave m dup id else Proc.recv false)) ∧
      (ok = false → s' = s.procDie true) := by
  cases l <;> simp [stepProc, hp] at h
  rename_i m' ok
  obtain ⟨rfl, h⟩ := h
  refine ⟨ok, rfl, ?_, ?_⟩
  · intro hok; subst hok; simp at h
    split at h
    · simp at h; subst h; simp [*]
    · split at h <;> (simp at h; subst h; simp [*])
  · intro hok; subst hok; simp at h; exact h.symm

theorem pubAck_step {fx s s' l id} (hp : s.proc = .pubAck id) (h : stepProc fx s l = some s') :
    ∃ ok, l = .send .proc (.puback id) ok ∧ s'.out = s.out ++ [(.puback id, ok)] ∧ s'.cbs = s.cbs ∧
      (ok = true → s'.proc = .recv false) := by
  cases l <;> simp [stepProc, hp] at h
  rename_i t q ok
  cases t <;> simp at h
  obtain ⟨rfl, h⟩ := h
  refine ⟨ok, rfl, ?_⟩
  cases ok <;> simp at h <;> subst h <;> simp [sendLog, procDie]

/-! ### QoS 2 inbound: store, PUBREC -/

theorem pubSave_step {fx s s' l m dup id} (hp : s.proc = .pubSave m dup id) (h : stepProc fx s l = some s') :
    ∃ ok, l = .sSave .proc .incoming (.publish m dup id) ok ∧
      (ok = true → s' = { s with sess := s.sess.savePacket .incoming (.publish m dup id), proc := .pubRec id }) ∧
      (ok = false → s' = s.procDie true) := by
  cases l <;> simp [stepProc, hp] at h
  rename_i t d q ok
  cases t <;> cases d <;> simp at h
  obtain ⟨rfl, h⟩ := h
  refine ⟨ok, rfl, ?_, ?_⟩
  · intro hok; subst hok; simp at h; exact h.symm
  · intro hok; subst hok; simp at h; exact h.symm

theorem pubRec_step {fx s s' l id} (hp : s.proc = .pubRec id) (h : stepProc fx s l = some s') :
    ∃ ok, l = .send .proc (.pubrec id) ok ∧ s'.out = s.out ++ [(.pubrec id, ok)] ∧
      (ok = true → s'.proc = .recv false) := by
  cases l <;> simp [stepProc, hp] at h
  rename_i t q ok
  cases t <;> simp at h
  obtain ⟨rfl, h⟩ := h
  refine ⟨ok, rfl, ?_⟩
  cases ok <;> simp at h <;> subst h <;> simp [sendLog, procDie]

/-! ### PUBREL -/

theorem relLook_step {fx s s' l id} (hp : s.proc = .relLook id) (h : stepProc fx s l = some s') :
    (l = .sLookup .incoming id .fail ∧ s' = s.procDie true) ∨
    (∃ o, l = .sLookup .incoming id (.found o) ∧ o = s.sess.lookupPacket .incoming id ∧
      ((∃ m d i, o = some (.publish m d i) ∧
          s' = { s with proc := (if s.early then (if fx.f10 then Proc.relDel id true else Proc.relSend id true)
                                  else Proc.relCb m id) }) ∨
       ((∀ m d i, o ≠ some (.publish m d i)) ∧
          s' = { s with proc := (if fx.f10 then Proc.relState id else Proc.recv false) }))) := by
  cases l <;> simp [stepProc, hp] at h
  rename_i d id' r
  cases d <;> simp at h
  obtain ⟨rfl, h⟩ := h
  cases r with
  | fail => left; simp at h; exact ⟨rfl, h.symm⟩
  | found o =>
    right
    simp at h
    obtain ⟨ho, h⟩ := h
    refine ⟨o, rfl, ho, ?_⟩
    split at h
    · rename_i m d i
      left
      refine ⟨m, d, i, rfl, ?_⟩
      split at h
      · rename_i he; split at h <;> (simp at h; subst h; simp [he, *])
      · rename_i he; simp at h; subst h; simp [he]
    · rename_i hne
      right
      refine ⟨fun m d i e => hne m d i e, ?_⟩
      split at h <;> (simp at h; subst h; simp [*])

theorem relState_step {fx s s' l id} (hp : s.proc = .relState id) (h : stepProc fx s l = some s') :
    l = .tau .proc ∧ s' = { s with proc := (if s.state = .connected then Proc.relSend id false else Proc.recv false) } := by
  cases l <;> simp [stepProc, hp] at h
  obtain ⟨rfl, h⟩ := h
  refine ⟨rfl, ?_⟩
  split at h <;> (simp at h; subst h; simp [*])

theorem relCb_step {fx s s' l m id} (hp : s.proc = .relCb m id) (h : stepProc fx s l = some s') :
    ∃ ok, l = .cb m ok ∧
      (ok = true → s'.cbs = s.cbs ++ [m] ∧ s'.out = s.out ∧ s'.sess = s.sess ∧
        s'.proc = (if fx.f10 then Proc.relDel id true else Proc.relSend id true)) ∧
      (ok = false → s' = s.procDie true) := by
  cases l <;> simp [stepProc, hp] at h
  rename_i m' ok
  obtain ⟨rfl, h⟩ := h
  refine ⟨ok, rfl, ?_, ?_⟩
  · intro hok; subst hok; simp at h
    split at h <;> (simp at h; subst h; simp [*])
  · intro hok; subst hok; simp at h; exact h.symm

theorem relDel_step {fx s s' l id b} (hp : s.proc = .relDel id b) (h : stepProc fx s l = some s') :
    ∃ ok, l = .sDel .proc .incoming id ok ∧
      (ok = true → s'.sess = s.sess.deletePacket .incoming id ∧ s'.out = s.out ∧ s'.cbs = s.cbs ∧
        s'.proc = (if b then Proc.relSend id false else Proc.recv false)) ∧
      (ok = false → s' = s.procDie true) := by
  cases l <;> simp [stepProc, hp] at h
  rename_i t d id' ok
  cases t <;> cases d <;> simp at h
  obtain ⟨rfl, h⟩ := h
  refine ⟨ok, rfl, ?_, ?_⟩
  · intro hok; subst hok; simp at h
    split at h <;> (simp at h; subst h; simp [*])
  · intro hok; subst hok; simp at h; exact h.symm

theorem relSend_step {fx s s' l id b} (hp : s.proc = .relSend id b) (h : stepProc fx s l = some s') :
    ∃ ok, l = .send .proc (.pubcomp id) ok ∧ s'.out = s.out ++ [(.pubcomp id, ok)] ∧ s'.cbs = s.cbs ∧
      s'.sess = s.sess ∧ (ok = true → s'.proc = (if b then Proc.relDel id false else Proc.recv false)) := by
  cases l <;> simp [stepProc, hp] at h
  rename_i t q ok
  cases t <;> simp at h
  obtain ⟨rfl, h⟩ := h
  refine ⟨ok, rfl, ?_⟩
  cases ok <;> simp at h
  · subst h; simp [sendLog, procDie]
  · split at h <;> (simp at h; subst h; simp [sendLog, *])

/-! ### after a callback error: no acknowledgement, the connection is closed -/

theorem cleanStep_not_send {s : St} {t c t' p ok} : cleanStep s t c (.send t' p ok) = none := by
  unfold cleanStep; cases c.stage <;> simp

theorem cleanStep_out {s s' : St} {t c l r} (h : cleanStep s t c l = some (s', r)) :
    s'.out = s.out ∧ s'.cbs = s.cbs := by
  unfold cleanStep at h
  split_all h
  close_cases h using resolve, storeClear

theorem dieStep_shape {s s1 : St} {t d l r} (h : dieStep s t d l = some (s1, r)) :
    s1.out = s.out ∧ s1.cbs = s.cbs ∧
      (match r with
       | .inl d' => d'.after = d.after ∧ d'.closeConn = d.closeConn
       | .inr a => a = d.after) := by
  unfold dieStep at h
  split_all h
  all_goals (first
    | (simp at h; done)
    | (simp at h; obtain ⟨h1, h2⟩ := h; subst h1; subst h2; simp; done)
    | (have hc := cleanStep_out (by assumption); simp at h; obtain ⟨h1, h2⟩ := h; subst h1; subst h2; simp [hc]; done)
    | skip)

/-- inside `die()` the processor hands nothing to the connection and invokes no message callback;
    a `die(…)` whose result is returned (`after = exit`) ends with the processor gone -/
theorem die_no_send {fx s s' l d} (hp : s.proc = .die d) (h : stepProc fx s l = some s') :
    (∀ p ok, l ≠ .send .proc p ok) ∧ (∀ m ok, l ≠ .cb m ok) ∧ s'.out = s.out ∧ s'.cbs = s.cbs ∧
      (d.after = .exit → s'.proc = .exited true ∨ ∃ d', s'.proc = .die d' ∧ d'.after = .exit ∧ d'.closeConn = d.closeConn) := by
  simp only [stepProc, hp] at h
  split at h
  · rename_i s1 d' hd
    have hsh := dieStep_shape hd
    simp at h; subst h
    refine ⟨?_, ?_, hsh.1, hsh.2.1, ?_⟩
    · intro p ok e; subst e
      obtain ⟨st, cc, af⟩ := d
      cases st <;> simp [dieStep, cleanStep_not_send] at hd
    · intro m ok e; subst e
      obtain ⟨st, cc, af⟩ := d
      cases st <;> simp [dieStep] at hd
      rename_i c; unfold cleanStep at hd; cases c.stage <;> simp at hd
    · intro ha; right
      exact ⟨d', rfl, by rw [hsh.2.2.1, ha], hsh.2.2.2⟩
  · rename_i s1 a hd
    have hsh := dieStep_shape hd
    simp at h; subst h
    refine ⟨?_, ?_, ?_, ?_, ?_⟩
    · intro p ok e; subst e
      obtain ⟨st, cc, af⟩ := d
      cases st <;> simp [dieStep, cleanStep_not_send] at hd
    · intro m ok e; subst e
      obtain ⟨st, cc, af⟩ := d
      cases st <;> simp [dieStep] at hd
      rename_i c; unfold cleanStep at hd; cases c.stage <;> simp at hd
    · cases a <;> simp [procAfter, procExit, goroutineExit, hsh.1] <;> split <;> simp [resolve, hsh.1]
    · cases a <;> simp [procAfter, procExit, goroutineExit, hsh.2.1] <;> split <;> simp [resolve, hsh.2.1]
    · intro ha; left
      have : a = .exit := by rw [hsh.2.2, ha]
      subst this; simp [procAfter, procExit, goroutineExit]
  · simp at h

theorem at_closeConn {fx s s'' l c cc af} (hp : s.proc = .die ⟨.clean c, cc, af⟩) (hc : c.stage = .closeConn)
    (h : stepProc fx s l = some s'') : ∃ ok, l = .close .proc ok ∧ s''.conn = .closed := by
  have key : ∀ s1 r, cleanStep s .proc c l = some (s1, r) → (∃ ok, l = .close .proc ok) ∧ s1.conn = .closed := by
    intro s1 r hr
    unfold cleanStep at hr
    rw [hc] at hr
    cases l <;> simp at hr
    rename_i t ok
    obtain ⟨rfl, _, rfl, _⟩ := hr
    exact ⟨⟨ok, rfl⟩, rfl⟩
  simp only [stepProc, hp, dieStep] at h
  cases hcs : cleanStep s .proc c l with
  | none => simp [hcs] at h
  | some r =>
    obtain ⟨s1, r'⟩ := r
    obtain ⟨⟨ok, hl⟩, hconn⟩ := key s1 r' hcs
    refine ⟨ok, hl, ?_⟩
    cases r' <;> (simp [hcs] at h; subst h; simpa using hconn)

/-- `die(err, true)` entered first (nobody else is dying): three hidden statements later the only
    thing the processor can do is close the connection -/
theorem die_closes {fx s} (hp : s.proc = .die (mkDie true .exit)) (hf : s.finishClaimed = false) :
    ∃ s', run fx s [.tau .proc, .tau .proc, .tau .proc] = some s' ∧
      (∃ c, s'.proc = .die ⟨.clean c, true, .exit⟩ ∧ c.stage = .closeConn) ∧ s'.state = .disconnected ∧
      ∀ l s'', stepProc fx s' l = some s'' → ∃ ok, l = .close .proc ok ∧ s''.conn = .closed := by
  let s1 : St := { s with finishClaimed := true, proc := .die ⟨.clean (startCleanup true false true), true, .exit⟩ }
  have e1 : step fx s (.tau .proc) = some s1 := by
    simp [step, threadOf, stepProc, hp, dieStep, mkDie, hf, s1]
  have e2 : ∃ s2, step fx s1 (.tau .proc) = some s2 ∧ s2.proc = .die ⟨.clean ⟨.setState, true, false, true⟩, true, .exit⟩ := by
    cases hcf : s.cfut with
    | none => simp [step, threadOf, stepProc, dieStep, cleanStep, startCleanup, s1, hcf]
    | some h0 =>
      by_cases hlt : s.state.toNat < CS.connacked.toNat
      · simp [step, threadOf, stepProc, dieStep, cleanStep, startCleanup, s1, hcf, hlt, resolve]
      · simp [step, threadOf, stepProc, dieStep, cleanStep, startCleanup, s1, hcf, hlt]
  obtain ⟨s2, e2, hp2⟩ := e2
  let s3 : St := { s2 with state := .disconnected, proc := .die ⟨.clean ⟨.closeConn, true, false, true⟩, true, .exit⟩ }
  have e3 : step fx s2 (.tau .proc) = some s3 := by
    simp [step, threadOf, stepProc, hp2, dieStep, cleanStep, afterSetState, s3]
  refine ⟨s3, by simp [run, e1, e2, e3], ⟨_, rfl, rfl⟩, rfl, ?_⟩
  intro l s'' h
  exact at_closeConn (s := s3) (c := ⟨.closeConn, true, false, true⟩) rfl rfl h

end ClientK1
