import Proofs.BrokerInv
/-
  Proofs/BrokerTotal.lean — where the model answers `unsupported` (C14 `model_total`).
  Namespace `BrokerB4`.
-/
namespace BrokerB4
open BState

def blockMsg : String := "publish would block on a full queue of an online client"

/-- every `unsupported` reason of `r` satisfies `W` -/
def RWhy (W : String → Prop) (r : Res) : Prop := ∀ w, r = .unsupported w → W w

theorem RWhy_one {W : String → Prop} (s : BState) : RWhy W (Res.one s) := by
  intro w h; cases h

theorem RWhy_ok {W : String → Prop} (ss : List BState) : RWhy W (.ok ss) := by
  intro w h; cases h

theorem RWhy_bind {W : String → Prop} {r : Res} {f : BState → Res} (h1 : RWhy W r) (h2 : ∀ s, RWhy W (f s)) :
    RWhy W (Res.bind r f) := by
  intro w h
  rcases bind_unsupported h with h | ⟨_, s, _, _, hf⟩
  · exact h1 w h
  · exact h2 s w hf

theorem RWhy_mono {W W' : String → Prop} {r : Res} (h : RWhy W r) (hw : ∀ w, W w → W' w) : RWhy W' r :=
  fun w hr => hw w (h w hr)

theorem fanTemp_err (cfg : Cfg) (c : ConnId) (m : Message) (g : Nat) :
    ∀ (l acc : List (ConnId × BSess)) (e : String), fanTemp cfg c m g l acc = .error e →
      e = blockMsg ∧ ∃ k b, (k, b) ∈ l ∧ (subQos b m.topic).isSome ∧ enqueue cfg b m g = .full ∧ b.active ≠ some c := by
  intro l
  induction l with
  | nil => intro acc e h; simp [fanTemp] at h
  | cons x rest ih =>
    intro acc e h
    obtain ⟨k, b⟩ := x
    simp only [fanTemp] at h
    split at h
    · rename_i hs
      split at h
      · obtain ⟨h1, k', b', hm, h2⟩ := ih _ _ h
        exact ⟨h1, k', b', List.mem_cons_of_mem _ hm, h2⟩
      · rename_i hq
        split at h
        · cases h
        · rename_i hact
          cases h
          exact ⟨rfl, k, b, by simp, hs, hq, hact⟩
    · obtain ⟨h1, k', b', hm, h2⟩ := ih _ _ h
      exact ⟨h1, k', b', List.mem_cons_of_mem _ hm, h2⟩

theorem fanStored_err (cfg : Cfg) (c : ConnId) (m : Message) (g : Nat) :
    ∀ (l acc : List (ClientId × BSess)) (e : String), fanStored cfg c m g l acc = .error e →
      e = blockMsg ∧ ∃ k b, (k, b) ∈ l ∧ (subQos b m.topic).isSome ∧ enqueue cfg b m g = .full ∧
        b.active ≠ some c ∧ b.active.isSome := by
  intro l
  induction l with
  | nil => intro acc e h; simp [fanStored] at h
  | cons x rest ih =>
    intro acc e h
    obtain ⟨k, b⟩ := x
    simp only [fanStored] at h
    split at h
    · rename_i hs
      split at h
      · obtain ⟨h1, k', b', hm, h2⟩ := ih _ _ h
        exact ⟨h1, k', b', List.mem_cons_of_mem _ hm, h2⟩
      · rename_i hq
        split at h
        · cases h
        · rename_i hact
          split at h
          · rename_i hsome
            cases h
            exact ⟨rfl, k, b, by simp, hs, hq, hact, hsome⟩
          · obtain ⟨h1, k', b', hm, h2⟩ := ih _ _ h
            exact ⟨h1, k', b', List.mem_cons_of_mem _ hm, h2⟩
    · obtain ⟨h1, k', b', hm, h2⟩ := ih _ _ h
      exact ⟨h1, k', b', List.mem_cons_of_mem _ hm, h2⟩

/-- a publish would block: some *other* client's session (online, for a stored session) subscribes
    to the topic and its queue for this QoS class is full -/
def WouldBlock (s : BState) (c : ConnId) (m : Message) : Prop :=
  (∃ k b, (k, b) ∈ s.temp ∧ (subQos b m.topic).isSome ∧
      enqueue s.cfg b { m with retain := false } s.nextGroup = .full ∧ b.active ≠ some c) ∨
  (∃ temp' k b, (k, b) ∈ s.stored ∧ (subQos b m.topic).isSome ∧
      enqueue s.cfg b { m with retain := false } s.nextGroup = .full ∧ b.active ≠ some c ∧ b.active.isSome ∧
      fanTemp s.cfg c { m with retain := false } s.nextGroup s.temp [] = .ok (temp', false))

/-- `Backend.Publish` is `unsupported` only for the documented reason -/
theorem backendPublish_why (s : BState) (c : ConnId) (m : Message) (e : String)
    (h : backendPublish s c m = .unsupported e) : e = blockMsg ∧ WouldBlock s c m := by
  rw [backendPublish_eq] at h
  split at h
  · rename_i e' he
    cases h
    obtain ⟨h1, k, b, hm, h2⟩ := fanTemp_err _ _ _ _ _ _ _ he
    exact ⟨h1, Or.inl ⟨k, b, hm, h2⟩⟩
  · rename_i temp' full1 hft
    split at h
    · cases h
    · rename_i hfull
      split at h
      · rename_i e' he
        cases h
        obtain ⟨h1, k, b, hm, h2, h3, h4, h5⟩ := fanStored_err _ _ _ _ _ _ _ he
        have : full1 = false := by simpa using hfull
        subst this
        exact ⟨h1, Or.inr ⟨temp', k, b, hm, h2, h3, h4, h5, hft⟩⟩
      · split at h <;> cases h

theorem cleanup_why (s : BState) (c : ConnId) (x : BConn) : RWhy (· = blockMsg) (cleanup s c x) := by
  unfold cleanup
  apply RWhy_bind
  · intro w h
    split at h
    · rename_i wl _ _
      cases hb : backendPublish s c wl with
      | ok s' => rw [hb] at h; cases h
      | queueFull s' => rw [hb] at h; cases h
      | unsupported e => rw [hb] at h; cases h; exact (backendPublish_why s c wl _ hb).1
    · cases h
  · intro s2; split <;> exact RWhy_one _

theorem kill_why (s : BState) (c : ConnId) : RWhy (· = blockMsg) (kill s c) := by
  unfold kill
  split
  · exact RWhy_one _
  · split
    · exact RWhy_one _
    · refine RWhy_bind (RWhy_ok _) (fun s1 => ?_)
      split
      · exact RWhy_one _
      · exact cleanup_why _ _ _

theorem killAll_why : ∀ (l : List ConnId) (s : BState), RWhy (· = blockMsg) (killAll s l) := by
  intro l
  induction l with
  | nil => intro s; exact RWhy_one _
  | cons d rest ih => intro s; simp only [killAll]; exact RWhy_bind (kill_why s d) (fun s1 => ih s1)

theorem setup_why (s : BState) (c : ConnId) (x : BConn) (id : ClientId) (clean : Bool) (will : Option Message) :
    RWhy (· = blockMsg) (setupAndConnack s c x id clean will) := by
  rw [setupAndConnack_eq]
  simp only []
  split
  · exact kill_why _ _
  · split
    · exact RWhy_one _
    · apply RWhy_bind
      · split
        · exact kill_why _ _
        · exact RWhy_one _
      · intro s2
        split
        · exact kill_why _ _
        · split
          · exact RWhy_one _
          · split <;> exact RWhy_one _

theorem subscribeRetained_supp (c : ConnId) : ∀ (subs : List Subscription) (s : BState) (e : String),
    subscribeRetained s c subs ≠ .unsupported e := by
  intro subs
  induction subs with
  | nil => intro s e h; simp [subscribeRetained] at h
  | cons sub rest ih =>
    intro s e h
    simp only [subscribeRetained] at h
    split at h
    · cases h
    · split at h
      · exact ih _ _ h
      · cases h

theorem publishThen_why {W : String → Prop} (s : BState) (c : ConnId) (m : Message) {k : BState → Res}
    (hb : W blockMsg) (hk : ∀ s', RWhy W (k s')) : RWhy W (publishThen s c m k) := by
  unfold BState.publishThen
  intro w h
  cases hp : backendPublish s c m with
  | ok s' => rw [hp] at h; exact hk s' w h
  | queueFull s' => rw [hp] at h; rw [kill_why _ _ w h]; exact hb
  | unsupported e => rw [hp] at h; cases h; rw [(backendPublish_why s c m _ hp).1]; exact hb

def isSubUnsub : Packet → Bool
  | .subscribe .. | .unsubscribe .. => true
  | _ => false

/-- the documented situations in which the model has no answer -/
inductive Documented (s : BState) : Stim → String → Prop where
  | unknown_send (c : ConnId) (p : Packet) : s.conn? c = none → Documented s (.send c p) "unknown connection"
  | unknown_unstall (c : ConnId) : s.conn? c = none → Documented s (.unstall c) "unknown connection"
  | unknown_timeout (c : ConnId) : s.conn? c = none → Documented s (.tokenTimeout c) "unknown connection"
  | not_blocked (c : ConnId) (x : BConn) : s.conn? c = some x →
      ¬ (x.alive ∧ x.running ∧ !x.deqHand ∧ x.deqChan = 0) → Documented s (.tokenTimeout c) "dequeuer not blocked"
  | sub_tokens (c : ConnId) (x : BConn) (p : Packet) : s.conn? c = some x → x.alive = true →
      x.phase = .connected → x.subTok = 0 → isSubUnsub p = true →
      Documented s (.send c p) "subscribe tokens exhausted"
  | pub_tokens (c : ConnId) (x : BConn) (m : Message) (dup : Bool) (id : UInt16) : s.conn? c = some x →
      x.alive = true → x.phase = .connected → x.pubTok = 0 → m.qos ≠ 0 →
      Documented s (.send c (.publish m dup id)) "publish tokens exhausted"
  | no_session (c : ConnId) (x : BConn) (p : Packet) : s.conn? c = some x → x.alive = true →
      x.phase = .connected → s.sessOf c = none → Documented s (.send c p) "no session"
  | would_block (st : Stim) : Documented s st blockMsg

theorem sessOf_setConn_same {s : BState} {c : ConnId} {x x' : BConn} (hc : s.conn? c = some x)
    (hs : x'.sref = x.sref) : (s.setConn c x').sessOf c = s.sessOf c := by
  rw [sessOf_of_conn hc, sessOf_of_conn (s := s.setConn c x') (x := x') (by simp), hs]
  rfl

theorem recv_why (s : BState) (c : ConnId) (p : Packet) (w : String) (h : recv s c p = .unsupported w) :
    Documented s (.send c p) w := by
  have blk : ∀ {r : Res}, RWhy (· = blockMsg) r → r = .unsupported w → Documented s (.send c p) w := by
    intro r hr he; rw [hr w he]; exact .would_block _
  cases hc : s.conn? c with
  | none =>
    unfold recv at h; simp only [hc] at h; cases h; exact .unknown_send c p hc
  | some x =>
    cases ha : x.alive with
    | false => unfold recv at h; simp only [hc, ha, Bool.not_false, if_true] at h; cases h
    | true =>
      cases hp : x.phase with
      | disconnected =>
        unfold recv at h; simp only [hc, ha, hp, Bool.not_true, Bool.false_eq_true, if_false] at h; cases h
      | connecting =>
        cases p with
        | connect id ka u pw clean will v =>
          unfold recv at h; simp only [hc, ha, hp, Bool.not_true, Bool.false_eq_true, if_false] at h
          split at h
          · exact blk (kill_why _ _) h
          · split at h
            · exact blk (kill_why _ _) h
            · exact blk (setup_why _ _ _ _ _ _) h
        | connack => unfold recv at h; simp only [hc, ha, hp, Bool.not_true, Bool.false_eq_true, if_false] at h; exact blk (kill_why _ _) h
        | publish => unfold recv at h; simp only [hc, ha, hp, Bool.not_true, Bool.false_eq_true, if_false] at h; exact blk (kill_why _ _) h
        | puback => unfold recv at h; simp only [hc, ha, hp, Bool.not_true, Bool.false_eq_true, if_false] at h; exact blk (kill_why _ _) h
        | pubrec => unfold recv at h; simp only [hc, ha, hp, Bool.not_true, Bool.false_eq_true, if_false] at h; exact blk (kill_why _ _) h
        | pubrel => unfold recv at h; simp only [hc, ha, hp, Bool.not_true, Bool.false_eq_true, if_false] at h; exact blk (kill_why _ _) h
        | pubcomp => unfold recv at h; simp only [hc, ha, hp, Bool.not_true, Bool.false_eq_true, if_false] at h; exact blk (kill_why _ _) h
        | subscribe => unfold recv at h; simp only [hc, ha, hp, Bool.not_true, Bool.false_eq_true, if_false] at h; exact blk (kill_why _ _) h
        | suback => unfold recv at h; simp only [hc, ha, hp, Bool.not_true, Bool.false_eq_true, if_false] at h; exact blk (kill_why _ _) h
        | unsubscribe => unfold recv at h; simp only [hc, ha, hp, Bool.not_true, Bool.false_eq_true, if_false] at h; exact blk (kill_why _ _) h
        | unsuback => unfold recv at h; simp only [hc, ha, hp, Bool.not_true, Bool.false_eq_true, if_false] at h; exact blk (kill_why _ _) h
        | pingreq => unfold recv at h; simp only [hc, ha, hp, Bool.not_true, Bool.false_eq_true, if_false] at h; exact blk (kill_why _ _) h
        | pingresp => unfold recv at h; simp only [hc, ha, hp, Bool.not_true, Bool.false_eq_true, if_false] at h; exact blk (kill_why _ _) h
        | disconnect => unfold recv at h; simp only [hc, ha, hp, Bool.not_true, Bool.false_eq_true, if_false] at h; exact blk (kill_why _ _) h
      | connected =>
        have nos : ∀ (x' : BConn), x'.sref = x.sref → (s.setConn c x').sessOf c = none →
            Documented s (.send c p) "no session" := by
          intro x' hs hn
          rw [sessOf_setConn_same hc hs] at hn
          exact .no_session c x p hc ha hp hn
        cases p with
        | connect => unfold recv at h; simp only [hc, ha, hp, Bool.not_true, Bool.false_eq_true, if_false] at h; exact blk (kill_why _ _) h
        | connack => unfold recv at h; simp only [hc, ha, hp, Bool.not_true, Bool.false_eq_true, if_false] at h; exact blk (kill_why _ _) h
        | suback => unfold recv at h; simp only [hc, ha, hp, Bool.not_true, Bool.false_eq_true, if_false] at h; exact blk (kill_why _ _) h
        | unsuback => unfold recv at h; simp only [hc, ha, hp, Bool.not_true, Bool.false_eq_true, if_false] at h; exact blk (kill_why _ _) h
        | pingresp => unfold recv at h; simp only [hc, ha, hp, Bool.not_true, Bool.false_eq_true, if_false] at h; exact blk (kill_why _ _) h
        | disconnect => unfold recv at h; simp only [hc, ha, hp, Bool.not_true, Bool.false_eq_true, if_false] at h; exact blk (kill_why _ _) h
        | pingreq => unfold recv at h; simp only [hc, ha, hp, Bool.not_true, Bool.false_eq_true, if_false] at h; cases h
        | pubrec id =>
          unfold recv at h; simp only [hc, ha, hp, Bool.not_true, Bool.false_eq_true, if_false] at h
          split at h
          · rename_i hn; cases h; exact .no_session c x _ hc ha hp hn
          · cases h
        | puback id =>
          unfold recv at h; simp only [hc, ha, hp, Bool.not_true, Bool.false_eq_true, if_false] at h
          split at h
          · rename_i hn; cases h; exact .no_session c x _ hc ha hp hn
          · cases h
        | pubcomp id =>
          unfold recv at h; simp only [hc, ha, hp, Bool.not_true, Bool.false_eq_true, if_false] at h
          split at h
          · rename_i hn; cases h; exact .no_session c x _ hc ha hp hn
          · cases h
        | pubrel id =>
          unfold recv at h; simp only [hc, ha, hp, Bool.not_true, Bool.false_eq_true, if_false] at h
          split at h
          · rename_i hn; cases h; exact .no_session c x _ hc ha hp hn
          · split at h
            · exact blk (publishThen_why _ _ _ rfl (fun _ => RWhy_one _)) h
            · cases h
        | unsubscribe topics id =>
          unfold recv at h; simp only [hc, ha, hp, Bool.not_true, Bool.false_eq_true, if_false] at h
          split at h
          · rename_i ht; cases h; exact .sub_tokens c x _ hc ha hp ht rfl
          · split at h
            · rename_i hn; cases h; exact nos _ (by rfl) hn
            · cases h
        | subscribe subs id =>
          unfold recv at h; simp only [hc, ha, hp, Bool.not_true, Bool.false_eq_true, if_false] at h
          split at h
          · rename_i ht; cases h; exact .sub_tokens c x _ hc ha hp ht rfl
          · split at h
            · rename_i hn; cases h; exact nos _ (by rfl) hn
            · split at h
              · cases h
              · exact blk (kill_why _ _) h
              · rename_i e he; exact absurd he (subscribeRetained_supp c _ _ e)
        | publish m dup id =>
          unfold recv at h; simp only [hc, ha, hp, Bool.not_true, Bool.false_eq_true, if_false] at h
          split at h
          · exact blk (publishThen_why _ _ _ rfl (fun _ => RWhy_one _)) h
          · rename_i hq
            split at h
            · rename_i ht; cases h; exact .pub_tokens c x m dup id hc ha hp ht hq
            · split at h
              · exact blk (publishThen_why _ _ _ rfl (fun _ => RWhy_one _)) h
              · split at h
                · rename_i hn; cases h; exact nos _ (by rfl) hn
                · cases h

/-- `stim` answers `unsupported` only in the documented situations -/
theorem stim_why (s : BState) (st : Stim) (w : String) (h : stim s st = .unsupported w) : Documented s st w := by
  cases st with
  | conn c => simp [stim, Res.one] at h
  | send c p => exact recv_why s c p w h
  | drop c => rw [kill_why s c w h]; exact .would_block _
  | ackRelease => simp [stim, Res.one] at h
  | backendClose => simp only [stim] at h; rw [killAll_why _ _ w h]; exact .would_block _
  | stall c => simp [stim, Res.one] at h
  | unstall c =>
    simp only [stim] at h
    split at h
    · split at h
      · rw [cleanup_why _ _ _ w h]; exact .would_block _
      · cases h
    · rename_i hn; cases h; exact .unknown_unstall c hn
  | tokenTimeout c =>
    simp only [stim] at h
    split at h
    · rename_i x hx
      split at h
      · rw [kill_why _ _ w h]; exact .would_block _
      · rename_i hnb; cases h; exact .not_blocked c x hx hnb
    · rename_i hn; cases h; exact .unknown_timeout c hn

end BrokerB4
