import Model.Broker
import Props.C04
import Props.C05
/-
  Proofs/BrokerFan.lean — helper lemmas for C06 (fan-out of a publish) and C11 (retained store).
-/

/-- element-wise relation between two lists of equal length (core Lean has no `Forall₂`) -/
inductive Rel2 {α β : Type} (R : α → β → Prop) : List α → List β → Prop where
  | nil : Rel2 R [] []
  | cons {a : α} {b : β} {l : List α} {l' : List β} : R a b → Rel2 R l l' → Rel2 R (a :: l) (b :: l')

namespace BrokerFan
open BState Node

/-! ### `applyQOS` only reads the subscription tree -/

theorem applyQOS_congr {b1 b2 : BSess} (h : b1.subs = b2.subs) (m : Message) : applyQOS b1 m = applyQOS b2 m := by
  unfold applyQOS subQos
  rw [h]

/-! ### `enqueue` -/

theorem enqueue_ok (cfg : Cfg) (b b' : BSess) (m : Message) (g : Nat) (h : enqueue cfg b m g = .ok b') :
    (if m.qos = 0 then b'.tempQ = b.tempQ ++ [(g, applyQOS b m)] ∧ b'.storedQ = b.storedQ
     else b'.storedQ = b.storedQ ++ [applyQOS b m] ∧ b'.tempQ = b.tempQ)
    ∧ b'.subs = b.subs ∧ b'.sess = b.sess ∧ b'.active = b.active := by
  unfold enqueue at h
  by_cases hq : m.qos = 0
  · rw [if_pos hq] at h
    rw [if_pos hq]
    split at h
    · injection h with h; subst h; simp
    · cases h
  · rw [if_neg hq] at h
    rw [if_neg hq]
    split at h
    · injection h with h; subst h; simp
    · cases h

/-! ### fan-out -/

/-- what one fan-out does to one session entry (the body of `C06.FanRel`) -/
def FanRel0 {κ : Type} (cfg : Cfg) (m : Message) (g : Nat) (e e' : κ × BSess) : Prop :=
  e'.1 = e.1 ∧
  (if (subQos e.2 m.topic).isSome then
     (enqueue cfg e.2 m g = .ok e'.2) ∨ (enqueue cfg e.2 m g = .full ∧ e.2.active = none ∧ e'.2 = e.2)
   else e'.2 = e.2)

theorem fanStored_gen (cfg : Cfg) (c : ConnId) (m : Message) (g : Nat) :
    ∀ (l acc l' : List (ClientId × BSess)), fanStored cfg c m g l acc = .ok (l', false) →
      ∃ l'', l' = acc.reverse ++ l'' ∧ Rel2 (FanRel0 cfg m g) l l'' := by
  intro l
  induction l with
  | nil =>
    intro acc l' h
    simp only [fanStored, Except.ok.injEq, Prod.mk.injEq, and_true] at h
    exact ⟨[], by simp [h], Rel2.nil⟩
  | cons e rest ih =>
    intro acc l' h
    obtain ⟨k, b⟩ := e
    simp only [fanStored] at h
    split at h
    · rename_i hs
      split at h
      · rename_i b' he
        obtain ⟨l'', h1, h2⟩ := ih _ _ h
        refine ⟨(k, b') :: l'', by simp [h1], Rel2.cons ⟨rfl, ?_⟩ h2⟩
        simp only [hs, if_true]
        exact Or.inl he
      · rename_i he
        split at h
        · simp at h
        · split at h
          · cases h
          · rename_i _ hact
            obtain ⟨l'', h1, h2⟩ := ih _ _ h
            refine ⟨(k, b) :: l'', by simp [h1], Rel2.cons ⟨rfl, ?_⟩ h2⟩
            have ha : b.active = none := by
              cases ha : b.active with
              | none => rfl
              | some x => simp [ha] at hact
            show (if (subQos b m.topic).isSome = true then _ else _)
            rw [if_pos hs]
            exact Or.inr ⟨he, ha, rfl⟩
    · rename_i hs
      obtain ⟨l'', h1, h2⟩ := ih _ _ h
      refine ⟨(k, b) :: l'', by simp [h1], Rel2.cons ⟨rfl, ?_⟩ h2⟩
      simp only [hs]
      simp

theorem fanTemp_gen (cfg : Cfg) (c : ConnId) (m : Message) (g : Nat) :
    ∀ (l acc l' : List (ConnId × BSess)), fanTemp cfg c m g l acc = .ok (l', false) →
      ∃ l'', l' = acc.reverse ++ l'' ∧ Rel2 (FanRel0 cfg m g) l l'' := by
  intro l
  induction l with
  | nil =>
    intro acc l' h
    simp only [fanTemp, Except.ok.injEq, Prod.mk.injEq, and_true] at h
    exact ⟨[], by simp [h], Rel2.nil⟩
  | cons e rest ih =>
    intro acc l' h
    obtain ⟨k, b⟩ := e
    simp only [fanTemp] at h
    split at h
    · rename_i hs
      split at h
      · rename_i b' he
        obtain ⟨l'', h1, h2⟩ := ih _ _ h
        refine ⟨(k, b') :: l'', by simp [h1], Rel2.cons ⟨rfl, ?_⟩ h2⟩
        simp only [hs, if_true]
        exact Or.inl he
      · split at h
        · simp at h
        · cases h
    · rename_i hs
      obtain ⟨l'', h1, h2⟩ := ih _ _ h
      refine ⟨(k, b) :: l'', by simp [h1], Rel2.cons ⟨rfl, ?_⟩ h2⟩
      simp only [hs]
      simp

end BrokerFan
