import Model.Basic
import Model.Varint
import Model.Codec
import Model.Ref
import Model.Wire
