import Model.Basic
import Model.Varint
import Model.Codec
import Model.Ref
import Model.Wire
import Model.Topic
import Model.TopicSpec
import Model.Session
