import Model.Topic
import Model.Session
/-
  Model/Broker.lean — broker/client.go + broker/backend.go (MemoryBackend) as one labelled
  transition system at the granularity of *stimuli at quiescence*.

  The correspondence harness drives the real broker inside a `testing/synctest` bubble: it
  injects one stimulus (a packet from a scripted peer, a dropped connection, a failing send, a
  deferred backend acknowledgement, a backend shutdown), waits until every goroutine of the
  broker is durably blocked, and reports everything the broker did, in the order it happened, as
  observations.  Here:

    * `stim`     applies a stimulus: everything the code does up to quiescence whose effect is
                 determined (state changes, packets queued for sending by the processor / the
                 acker, backend calls);
    * `observe`  accepts one observation iff it is an enabled next output.  The freedom the real
                 code has is freedom here: the dequeuer may pick the temporary or the stored
                 queue, retained messages found by one filter come in Go map order, processor /
                 acker / dequeuer of one connection interleave freely;
    * `settle`   checks that nothing that had to be sent is still pending.

  Not modelled (the generator stays inside, the model answers `unsupported` otherwise): a publish
  that would block on the full queue of another *online* client, a processor blocked on an
  exhausted publish/subscribe token, wall-clock timeouts other than through the explicit
  `tokenTimeout` stimulus; a live dequeuer that finds every one of the 65535 packet ids in use by a
  stored outgoing packet dies with `ErrPacketIDsExhausted` — the model accepts no delivery in such a
  state (`acceptDelivery`) but has no transition for that death (it takes 65535 stored packets:
  `MemorySession.freshID_ne_zero_of_lt`).
-/

abbrev ConnId := Nat
abbrev ClientId := Bytes

structure Cfg where
  window : Nat := 10      -- ClientInflightMessages
  parPub : Nat := 10      -- ClientParallelPublishes
  parSub : Nat := 10      -- ClientParallelSubscribes
  queue : Nat := 100      -- SessionQueueSize
  creds : Option (List (Bytes × Bytes)) := none
  deriving Repr

inductive Phase where
  | connecting | connected | disconnected
  deriving DecidableEq, Repr

/-- which session a connection uses -/
inductive SessRef where
  | none | temp | stored (id : ClientId)
  deriving DecidableEq, Repr

structure BSess where
  subs : Node := Node.empty             -- filter ↦ [granted qos]
  storedQ : List Message := []
  tempQ : List (Nat × Message) := []    -- (group, message); one group = one unordered batch
  sess : MemorySession := {}
  active : Option ConnId := none
  deriving Repr

/-- what the backend was asked to do (observed through the wrapping backend) -/
inductive BEvent where
  | publish (c : ConnId) (m : Message)      -- Backend.Publish(c, m, _)
  | terminate (c : ConnId)
  | setup (c : ConnId) (resumed : Bool)
  deriving DecidableEq, Repr

/-- an acknowledgement the backend has been handed but has not invoked yet (late-ack mode) -/
structure PendingAck where
  conn : ConnId
  pkt : Packet                 -- SUBACK / UNSUBACK / PUBACK / PUBCOMP to be queued
  deriving Repr

structure BConn where
  phase : Phase := .connecting
  alive : Bool := true
  id : ClientId := []
  will : Option Message := none
  sref : SessRef := .none
  procOut : List Packet := []     -- written by the processor goroutine, in order
  ackOut : List Packet := []      -- the ack queue, FIFO
  pubTok : Nat := 0
  subTok : Nat := 0
  deqChan : Nat := 0              -- tokens in the dequeue channel
  deqHand : Bool := false         -- the dequeuer holds one token and waits for a message
  running : Bool := false         -- dequeuer and acker were started
  closedSeen : Bool := false      -- the `closed` observation was consumed
  stalled : Bool := false         -- the connection's goroutines are held up (cannot finish dying)
  zombie : Bool := false          -- closed, but `cleanup` has not run yet
  deriving Repr

structure BState where
  cfg : Cfg := {}
  conns : List (ConnId × BConn) := []
  stored : List (ClientId × BSess) := []
  temp : List (ConnId × BSess) := []
  activeClients : List (ClientId × ConnId) := []
  retained : Node := Node.empty          -- topic ↦ [index into `rmsgs`]
  rmsgs : List Message := []
  closing : Bool := false
  lateAck : Bool := false
  neverAck : Bool := false
  pendingAcks : List PendingAck := []
  bevents : List BEvent := []            -- expected, not yet observed backend calls
  nextGroup : Nat := 0
  deriving Repr

namespace Assoc
def get [DecidableEq κ] (l : List (κ × α)) (k : κ) : Option α := (l.find? (·.1 = k)).map (·.2)
def set [DecidableEq κ] (l : List (κ × α)) (k : κ) (a : α) : List (κ × α) :=
  if l.any (·.1 = k) then l.map (fun e => if e.1 = k then (k, a) else e) else l ++ [(k, a)]
def del [DecidableEq κ] (l : List (κ × α)) (k : κ) : List (κ × α) := l.filter (·.1 ≠ k)
end Assoc

namespace BState

def conn? (s : BState) (c : ConnId) : Option BConn := Assoc.get s.conns c
def setConn (s : BState) (c : ConnId) (x : BConn) : BState := { s with conns := Assoc.set s.conns c x }
def updConn (s : BState) (c : ConnId) (f : BConn → BConn) : BState :=
  match s.conn? c with
  | some x => s.setConn c (f x)
  | none => s

def sessOf (s : BState) (c : ConnId) : Option BSess :=
  match s.conn? c with
  | some x =>
    (match x.sref with
     | .none => none
     | .temp => Assoc.get s.temp c
     | .stored id => Assoc.get s.stored id)
  | none => none

def setSessOf (s : BState) (c : ConnId) (b : BSess) : BState :=
  match s.conn? c with
  | some x =>
    (match x.sref with
     | .none => s
     | .temp => { s with temp := Assoc.set s.temp c b }
     | .stored id => { s with stored := Assoc.set s.stored id b })
  | none => s

/-- `lookupSubscription`: `MatchFirst` on the session's subscription tree -/
def subQos (b : BSess) (topic : Bytes) : Option Nat := Tree.matchFirst topic b.subs

/-- `applyQOS` -/
def applyQOS (b : BSess) (m : Message) : Message :=
  match subQos b m.topic with
  | some q => if m.qos.toNat > q then { m with qos := UInt8.ofNat q } else m
  | none => m

/-- the dequeuer takes a token whenever it holds none and one is available -/
def retake (x : BConn) : BConn :=
  if x.running && x.alive && !x.deqHand && x.deqChan > 0 then { x with deqHand := true, deqChan := x.deqChan - 1 } else x

/-- non-blocking put of a dequeue token -/
def putDeq (cfg : Cfg) (x : BConn) : BConn :=
  retake (if x.deqChan < cfg.window then { x with deqChan := x.deqChan + 1 } else x)

inductive Enq where
  | ok (b : BSess) | full

/-- non-blocking put into the queue the message belongs to: the *published* QoS selects the queue
    (`queue(sess)` is chosen from `msg.QOS` before the fan-out), what is put is the copy capped by
    the grant of the session's matching subscription at this moment (`sess.applyQOS(msg)`) — so a
    QoS-1 publish capped to QoS 0 still travels through the stored queue -/
def enqueue (cfg : Cfg) (b : BSess) (m : Message) (g : Nat) : Enq :=
  if m.qos = 0 then
    (if b.tempQ.length < cfg.queue then .ok { b with tempQ := b.tempQ ++ [(g, applyQOS b m)] } else .full)
  else
    (if b.storedQ.length < cfg.queue then .ok { b with storedQ := b.storedQ ++ [applyQOS b m] } else .full)

/-- outcome of a deterministic piece of code -/
inductive Res1 where
  | ok (s : BState)
  | queueFull (s : BState)          -- `ErrQueueFull` for the calling client
  | unsupported (why : String)

/-- outcome of a stimulus: the possible successor states (the code's own nondeterminism) -/
inductive Res where
  | ok (ss : List BState)
  | unsupported (why : String)

def Res.one (s : BState) : Res := .ok [s]

def Res.bind (r : Res) (f : BState → Res) : Res :=
  match r with
  | .unsupported w => .unsupported w
  | .ok ss =>
    ss.foldl (fun acc s =>
      match acc, f s with
      | .unsupported w, _ => .unsupported w
      | _, .unsupported w => .unsupported w
      | .ok a, .ok b => .ok (a ++ b)) (.ok [])

/-- fan-out over the temporary sessions -/
def fanTemp (cfg : Cfg) (c : ConnId) (m : Message) (g : Nat) :
    List (ConnId × BSess) → List (ConnId × BSess) → Except String (List (ConnId × BSess) × Bool)
  | [], acc => .ok (acc.reverse, false)
  | (k, b) :: rest, acc =>
    if (subQos b m.topic).isSome then
      match enqueue cfg b m g with
      | .ok b' => fanTemp cfg c m g rest ((k, b') :: acc)
      | .full => if b.active = some c then .ok (acc.reverse ++ (k, b) :: rest, true)
                 else .error "publish would block on a full queue of an online client"
    else fanTemp cfg c m g rest ((k, b) :: acc)

/-- fan-out over the stored sessions -/
def fanStored (cfg : Cfg) (c : ConnId) (m : Message) (g : Nat) :
    List (ClientId × BSess) → List (ClientId × BSess) → Except String (List (ClientId × BSess) × Bool)
  | [], acc => .ok (acc.reverse, false)
  | (k, b) :: rest, acc =>
    if (subQos b m.topic).isSome then
      match enqueue cfg b m g with
      | .ok b' => fanStored cfg c m g rest ((k, b') :: acc)
      | .full =>
        if b.active = some c then .ok (acc.reverse ++ (k, b) :: rest, true)
        else if b.active.isSome then .error "publish would block on a full queue of an online client"
        else fanStored cfg c m g rest ((k, b) :: acc)      -- offline: dropped
    else fanStored cfg c m g rest ((k, b) :: acc)

/-- `MemoryBackend.Publish` (the acknowledgement is the caller's business) -/
def backendPublish (s : BState) (c : ConnId) (m : Message) : Res1 :=
  let s := { s with bevents := s.bevents ++ [BEvent.publish c m] }
  -- retained messages
  let s := if m.retain then
      (if m.payload.length > 0 then
        { s with retained := Tree.set m.topic s.rmsgs.length s.retained, rmsgs := s.rmsgs ++ [m] }
      else { s with retained := Tree.emptyTopic m.topic s.retained })
    else s
  let m := { m with retain := false }
  let g := s.nextGroup
  let s := { s with nextGroup := g + 1 }
  match fanTemp s.cfg c m g s.temp [] with
  | .error e => .unsupported e
  | .ok (temp', full1) =>
    let s := { s with temp := temp' }
    if full1 then .queueFull s else
    match fanStored s.cfg c m g s.stored [] with
    | .error e => .unsupported e
    | .ok (stored', full2) =>
      let s := { s with stored := stored' }
      if full2 then .queueFull s else .ok s

/-- `Terminate` -/
def backendTerminate (s : BState) (c : ConnId) : BState :=
  let s := { s with bevents := s.bevents ++ [BEvent.terminate c] }
  let s := match s.sessOf c with
    | some b => s.setSessOf c { b with active := none }
    | none => s
  let id : ClientId := match s.conn? c with | some x => x.id | none => []
  -- the saved client is removed only if the id has not been taken by another client since
  { s with temp := Assoc.del s.temp c,
           activeClients := if Assoc.get s.activeClients id = some c then Assoc.del s.activeClients id
                            else s.activeClients }

/-- A dying dequeuer that holds a token may still take one queued message (Go `select` picks
    freely between a ready queue and `Closing()`): it is stored as outgoing under an unused packet id
    (QoS > 0 after capping; the write then fails, so it shows up as a resend later) or lost (QoS 0). -/
def lastDequeue (s : BState) (c : ConnId) (x : BConn) : List BState :=
  if !(x.running ∧ x.deqHand) then [s] else
  match s.sessOf c with
  | none => [s]
  | some b =>
    let take (b' : BSess) (m : Message) : BState :=
      let out := applyQOS b m
      if out.qos = 0 then s.setSessOf c b'
      else
        let (nid, ms) := b'.sess.freshID
        -- no unused packet id (`ErrPacketIDsExhausted`): nothing is recorded, the message is lost like a QoS 0 one
        if nid = 0 then s.setSessOf c { b' with sess := ms }
        else s.setSessOf c { b' with sess := ms.savePacket .outgoing (.publish out false nid) }
    let fromStored : List BState :=
      match b.storedQ with
      | h :: rest => [take { b with storedQ := rest } h]
      | [] => []
    let fromTemp : List BState :=
      match b.tempQ with
      | [] => []
      | (g, _) :: _ => (b.tempQ.takeWhile (·.1 = g)).map (fun e => take { b with tempQ := b.tempQ.erase e } e.2)
    s :: (fromStored ++ fromTemp)

/-- `cleanup`: the will is published if the client had been accepted and did not disconnect,
    the backend is told -/
def cleanup (s : BState) (c : ConnId) (x : BConn) : Res :=
  let r : Res := match x.phase, x.will with
    | .connected, some w =>
      (match backendPublish s c w with
       | .ok s' => .one s'
       | .queueFull s' => .one s'         -- error is only logged
       | .unsupported e => .unsupported e)
    | _, _ => .one s
  Res.bind r fun s => if x.phase ≠ .connecting then .one (backendTerminate s c) else .one s

/-- `die` / `Close` followed by `cleanup`: the connection is closed, the will is published if
    the client had been accepted and did not disconnect, the backend is told. -/
def kill (s : BState) (c : ConnId) : Res :=
  match s.conn? c with
  | none => .one s
  | some x =>
    if !x.alive then .one s else
    let alts := lastDequeue s c x
    Res.bind (.ok alts) fun s =>
      if x.stalled then
        -- closed, but its goroutines cannot finish: `cleanup` (will, Terminate) has to wait
        .one (s.setConn c { x with alive := false, running := false, zombie := true })
      else cleanup (s.setConn c { x with alive := false, running := false }) c x

/-- run `backendPublish` for client `c`; `ErrQueueFull` kills the client -/
def publishThen (s : BState) (c : ConnId) (m : Message) (k : BState → Res) : Res :=
  match backendPublish s c m with
  | .ok s' => k s'
  | .queueFull s' => kill s' c
  | .unsupported e => .unsupported e

/-- queue an acknowledgement: immediately (synchronous backend) or later / never -/
def ackVia (s : BState) (c : ConnId) (p : Packet) (pre : BState → BState) : BState :=
  if s.neverAck then s
  else if s.lateAck then { s with pendingAcks := s.pendingAcks ++ [⟨c, p⟩] }
  else (pre s).updConn c (fun x => if x.alive then { x with ackOut := x.ackOut ++ [p] } else x)

/-- effect of invoking the acknowledgement of a PUBCOMP: the stored PUBLISH is forgotten first -/
def forgetIncoming (c : ConnId) (id : UInt16) (s : BState) : BState :=
  match s.sessOf c with
  | some b => s.setSessOf c { b with sess := b.sess.deletePacket .incoming id }
  | none => s

def ackPre (c : ConnId) (p : Packet) : BState → BState :=
  match p with
  | .pubcomp id => forgetIncoming c id
  | _ => fun s => s

def newSess (c : ConnId) : BSess := { active := some c }

def authenticate (s : BState) (u p : Bytes) : Bool :=
  match s.cfg.creds with
  | none => true
  | some l => l.any (fun e => e.1 = u ∧ e.2 = p)

def startConn (cfg : Cfg) (x : BConn) : BConn :=
  { x with pubTok := cfg.parPub, subTok := cfg.parSub, deqChan := cfg.window, deqHand := false }

/-- the resend loop of `processConnect`: every stored outgoing packet, PUBLISH flagged dup;
    each takes a dequeue token if one is there -/
def resend (b : BSess) (x : BConn) : BSess × BConn :=
  let pkts := b.sess.outgoing.entries.map (fun e =>
    match e.2 with
    | .publish m _ id => (e.1, Packet.publish m true id)
    | p => (e.1, p))
  let b' := { b with sess := { b.sess with outgoing := ⟨pkts⟩ } }
  (b', { x with procOut := x.procOut ++ pkts.map (·.2), deqChan := x.deqChan - pkts.length })

/-- `processConnect` after successful authentication: `Setup`, CONNACK, resend, start goroutines -/
def setupAndConnack (s : BState) (c : ConnId) (x : BConn) (id : ClientId) (clean : Bool)
    (will : Option Message) : Res :=
  let x := { x with phase := .connected, id := id }
  let s := s.setConn c x
  if s.closing then kill s c else
  if id.length = 0 then
    let b := newSess c
    let s := { s with temp := Assoc.set s.temp c b, bevents := s.bevents ++ [BEvent.setup c false] }
    let x := startConn s.cfg { x with sref := .temp, will := will, running := true,
                                      procOut := x.procOut ++ [.connack false 0] }
    .one (s.setConn c (retake x))
  else
    -- the existing session: stored first, else the temporary session of the active client
    let existing : Option ConnId :=
      match Assoc.get s.stored id with
      | some b => b.active
      | none => (match Assoc.get s.activeClients id with
                 | some oc => (match Assoc.get s.temp oc with | some b => b.active | none => none)
                 | none => none)
    -- take over: close the old connection and wait for its cleanup
    let r : Res := match existing with
      | some oc => kill s oc
      | none => .one s
    Res.bind r fun s =>
    -- the old connection did not finish dying within `KillTimeout`: `Setup` fails, the newcomer
    -- is closed (it was already marked connected, so the backend is told about its termination)
    if (match existing with
        | some oc => (match s.conn? oc with | some ox => ox.zombie | none => false)
        | none => false) then kill s c else
    if clean then
      let b := newSess c
      let s := { s with stored := Assoc.del s.stored id, temp := Assoc.set s.temp c b,
                        activeClients := Assoc.set s.activeClients id c,
                        bevents := s.bevents ++ [BEvent.setup c false] }
      let x := startConn s.cfg { x with sref := .temp, will := will, running := true,
                                        procOut := x.procOut ++ [.connack false 0] }
      .one (s.setConn c (retake x))
    else
      match Assoc.get s.stored id with
      | some b =>
        let b := { b with tempQ := [], active := some c }
        let x := startConn s.cfg { x with sref := .stored id, will := will, running := true,
                                          procOut := x.procOut ++ [.connack true 0] }
        let (b, x) := resend b x
        let s := { s with stored := Assoc.set s.stored id b,
                          activeClients := Assoc.set s.activeClients id c,
                          bevents := s.bevents ++ [BEvent.setup c true] }
        .one (s.setConn c (retake x))
      | none =>
        let b := newSess c
        let s := { s with stored := Assoc.set s.stored id b,
                          activeClients := Assoc.set s.activeClients id c,
                          bevents := s.bevents ++ [BEvent.setup c false] }
        let x := startConn s.cfg { x with sref := .stored id, will := will, running := true,
                                          procOut := x.procOut ++ [.connack false 0] }
        .one (s.setConn c (retake x))

/-- retained messages for one filter, queued as one unordered group; `none` = own queue full.
    Each is capped by the grant of the session's matching subscription at this moment — all the
    subscriptions of the SUBSCRIBE are already in the tree — (`sess.applyQOS(value)`), always on the
    temporary queue -/
def queueRetained (cfg : Cfg) (b : BSess) (ms : List Message) (g : Nat) : Option BSess :=
  match ms with
  | [] => some b
  | m :: rest =>
    if b.tempQ.length < cfg.queue then queueRetained cfg { b with tempQ := b.tempQ ++ [(g, applyQOS b m)] } rest g
    else none

def subscribeRetained (s : BState) (c : ConnId) : List Subscription → Res1
  | [] => .ok s
  | sub :: rest =>
    match s.sessOf c with
    | none => .ok s
    | some b =>
      let idxs := Tree.search sub.topic s.retained
      let ms := idxs.filterMap (fun i => s.rmsgs[i]?)
      match queueRetained s.cfg b ms s.nextGroup with
      | some b' => subscribeRetained { (s.setSessOf c b') with nextGroup := s.nextGroup + 1 } c rest
      | none => .queueFull s

/-- one packet from the peer, processed by the processor goroutine -/
def recv (s : BState) (c : ConnId) (p : Packet) : Res :=
  match s.conn? c with
  | none => .unsupported "unknown connection"
  | some x =>
    if !x.alive then .one s else
    match x.phase with
    | .disconnected => .one s
    | .connecting =>
      (match p with
       | .connect id _ka u pw clean will _v =>
         let x := { x with id := id }
         let s := s.setConn c x
         if s.closing then kill s c else
         if !authenticate s u pw then
           kill (s.setConn c { x with procOut := x.procOut ++ [.connack false 5] }) c
         else setupAndConnack s c x id clean will
       | _ => kill s c)
    | .connected =>
      (match p with
       | .subscribe subs id =>
         if x.subTok = 0 then .unsupported "subscribe tokens exhausted" else
         let s := s.setConn c { x with subTok := x.subTok - 1 }
         (match s.sessOf c with
          | none => .unsupported "no session"
          | some b =>
            let b := subs.foldl (fun b sub => { b with subs := Tree.set sub.topic sub.qos.toNat b.subs }) b
            let s := s.setSessOf c b
            let s := ackVia s c (.suback (subs.map (·.qos)) id) (fun s => s)
            (match subscribeRetained s c subs with
             | .ok s => .one s
             | .queueFull s => kill s c
             | .unsupported e => .unsupported e))
       | .unsubscribe topics id =>
         if x.subTok = 0 then .unsupported "subscribe tokens exhausted" else
         let s := s.setConn c { x with subTok := x.subTok - 1 }
         (match s.sessOf c with
          | none => .unsupported "no session"
          | some b =>
            let b := topics.foldl (fun b t => { b with subs := Tree.emptyTopic t b.subs }) b
            .one (ackVia (s.setSessOf c b) c (.unsuback id) (fun s => s)))
       | .publish m _dup id =>
         if m.qos = 0 then publishThen s c m .one
         else if x.pubTok = 0 then .unsupported "publish tokens exhausted"
         else
           let s := s.setConn c { x with pubTok := x.pubTok - 1 }
           if m.qos = 1 then
             publishThen s c m fun s => .one (ackVia s c (.puback id) (fun s => s))
           else
             (match s.sessOf c with
              | none => .unsupported "no session"
              | some b =>
                let b := { b with sess := b.sess.savePacket .incoming p }
                .one ((s.setSessOf c b).updConn c fun x => { x with procOut := x.procOut ++ [.pubrec id] }))
       | .pubrel id =>
         (match s.sessOf c with
          | none => .unsupported "no session"
          | some b =>
            (match b.sess.lookupPacket .incoming id with
             | some (.publish m _ _) =>
               publishThen s c m fun s => .one (ackVia s c (.pubcomp id) (ackPre c (.pubcomp id)))
             | _ => .one (s.updConn c fun x => { x with procOut := x.procOut ++ [.pubcomp id] })))
       | .puback id | .pubcomp id =>
         (match s.sessOf c with
          | none => .unsupported "no session"
          | some b =>
            let s := s.setSessOf c { b with sess := b.sess.deletePacket .outgoing id }
            .one (s.updConn c (putDeq s.cfg)))
       | .pubrec id =>
         (match s.sessOf c with
          | none => .unsupported "no session"
          | some b =>
            let s := s.setSessOf c { b with sess := b.sess.savePacket .outgoing (.pubrel id) }
            .one (s.updConn c fun x => { x with procOut := x.procOut ++ [.pubrel id] }))
       | .pingreq => .one (s.updConn c fun x => { x with procOut := x.procOut ++ [.pingresp] })
       | .disconnect =>
         kill (s.setConn c { x with will := none, phase := .disconnected }) c
       | _ => kill s c)

/-- stimuli -/
inductive Stim where
  | conn (c : ConnId)                    -- a new connection is handed to the broker
  | send (c : ConnId) (p : Packet)       -- the peer sends a packet
  | drop (c : ConnId)                    -- the peer closes / the transport fails on receive
  | ackRelease                           -- the backend invokes all deferred acknowledgements
  | backendClose                         -- MemoryBackend.Close
  | tokenTimeout (c : ConnId)            -- the token timeout of a blocked dequeuer expires
  | stall (c : ConnId)                   -- the connection's goroutines get stuck (from now on)
  | unstall (c : ConnId)                 -- … and continue

def killAll (s : BState) : List ConnId → Res
  | [] => .one s
  | c :: rest => Res.bind (kill s c) (fun s => killAll s rest)

def stim (s : BState) : Stim → Res
  | .conn c => .one (s.setConn c {})
  | .send c p => recv s c p
  | .drop c => kill s c
  | .ackRelease =>
    let s' := s.pendingAcks.foldl (fun s a =>
      (ackPre a.conn a.pkt s).updConn a.conn (fun x => if x.alive then { x with ackOut := x.ackOut ++ [a.pkt] } else x)) s
    .one { s' with pendingAcks := [] }
  | .backendClose =>
    let s := { s with closing := true }
    killAll s ((s.conns.filter (fun e => e.2.alive ∧ e.2.sref ≠ .none)).map (·.1))
  | .stall c => .one (s.updConn c fun x => { x with stalled := true })
  | .unstall c =>
    (match s.conn? c with
     | some x =>
       if x.zombie then cleanup (s.setConn c { x with stalled := false, zombie := false }) c x
       else .one (s.setConn c { x with stalled := false })
     | none => .unsupported "unknown connection")
  | .tokenTimeout c =>
    match s.conn? c with
    | some x => if x.alive ∧ x.running ∧ !x.deqHand ∧ x.deqChan = 0 then kill s c else .unsupported "dequeuer not blocked"
    | none => .unsupported "unknown connection"

/-- observations -/
inductive Obs where
  | sent (c : ConnId) (p : Packet)        -- the broker wrote a packet to connection c
  | sendFail (c : ConnId) (p : Packet)    -- … and the transport failed that write
  | closed (c : ConnId)                   -- the broker closed connection c
  | backend (e : BEvent)

def isDelivery : Packet → Bool
  | .publish _ dup _ => !dup
  | _ => false

/-- effect of the acker having written one packet: tokens come back -/
def ackSent (x : BConn) (cfg : Cfg) (p : Packet) : BConn :=
  match p with
  | .suback .. | .unsuback _ => { x with subTok := min cfg.parSub (x.subTok + 1) }
  | .puback _ | .pubcomp _ => { x with pubTok := min cfg.parPub (x.pubTok + 1) }
  | _ => x

/-- try to accept a delivery by the dequeuer: the message must be the head of the stored queue or
    a member of the first group of the temporary queue, capped (once more: the queue entry was
    already capped when it was queued, `enqueue` / `queueRetained`) with the subscription in force now,
    carrying the next packet id that no packet of the session's outgoing store uses (`Client.nextID`) -/
def acceptDelivery (s : BState) (c : ConnId) (x : BConn) (b : BSess) (m : Message) (id : UInt16) :
    Option BState :=
  if !x.deqHand then none else
  let finish (b : BSess) (out : Message) : Option BState :=
    if out.qos = 0 then
      if id ≠ 0 then none else
      -- token goes back (non-blocking), the dequeuer takes the next one
      let x := retake { x with deqHand := false, deqChan := min s.cfg.window (x.deqChan + 1) }
      some ((s.setSessOf c b).setConn c x)
    else
      let (nid, ms) := b.sess.freshID
      -- no unused packet id: the dequeuer dies with `ErrPacketIDsExhausted` instead of delivering
      if nid = 0 then none else
      if nid ≠ id then none else
      let ms := ms.savePacket .outgoing (.publish out false id)
      let x := retake { x with deqHand := false }
      some ((s.setSessOf c { b with sess := ms }).setConn c x)
  -- stored queue head
  let fromStored : Option BState :=
    match b.storedQ with
    | h :: rest => if applyQOS b h = m then finish { b with storedQ := rest } m else none
    | [] => none
  match fromStored with
  | some s' => some s'
  | none =>
    match b.tempQ with
    | [] => none
    | (g, _) :: _ =>
      let grp := b.tempQ.takeWhile (·.1 = g)
      match grp.find? (fun e => applyQOS b e.2 = m) with
      | some e => finish { b with tempQ := b.tempQ.erase e } m
      | none => none

def popIf (l : List Packet) (p : Packet) : Option (List Packet) :=
  match l with
  | h :: rest => if h = p then some rest else none
  | [] => none

def observeSent (s : BState) (c : ConnId) (p : Packet) : Option BState :=
  match s.conn? c with
  | none => none
  | some x =>
    if x.closedSeen then none else
    match popIf x.procOut p with
    | some rest => some (s.setConn c { x with procOut := rest })
    | none =>
      match popIf x.ackOut p with
      | some rest => some (s.setConn c (ackSent { x with ackOut := rest } s.cfg p))
      | none =>
        match p, s.sessOf c with
        | .publish m false id, some b => if x.alive then acceptDelivery s c x b m id else none
        | _, _ => none

/-- the states reachable by accepting one observation (empty = not an enabled output) -/
def observe (s : BState) : Obs → List BState
  | .backend e => if s.bevents.contains e then [{ s with bevents := s.bevents.erase e }] else []
  | .closed c =>
    (match s.conn? c with
     | some x => if !x.alive ∧ !x.closedSeen then [s.setConn c { x with closedSeen := true }] else []
     | none => [])
  | .sent c p => (observeSent s c p).toList
  | .sendFail c p =>
    -- the write was attempted (all bookkeeping done), the transport failed, the connection dies
    (match observeSent s c p with
     | some s' =>
       (match kill s' c with
        | .ok ss => ss.map (fun s'' => s''.updConn c fun x => { x with procOut := [], ackOut := [] })
        | .unsupported _ => [])
     | none => [])

/-- at quiescence nothing that had to go out is pending -/
def settleConn (s : BState) (c : ConnId) (x : BConn) : Option String :=
  if !x.alive then
    (if !x.closedSeen then some s!"connection {c} should have been closed" else none)
  else if !x.procOut.isEmpty then some s!"connection {c}: processor output not sent"
  else if !x.ackOut.isEmpty then some s!"connection {c}: acknowledgement not sent"
  else match s.sessOf c with
    | some b => if x.running ∧ x.deqHand ∧ (!b.storedQ.isEmpty ∨ !b.tempQ.isEmpty)
                then some s!"connection {c}: queued message not delivered although the window has room" else none
    | none => none

def settle (s : BState) : Option String :=
  if !s.bevents.isEmpty then some "backend call expected but not observed"
  else s.conns.findSome? (fun e => settleConn s e.1 e.2)

end BState

/-! ### the transition system, for statements about every reachable state -/

/-- one step of the model: a stimulus (any of its possible outcomes), an accepted observation, or
    a change of the backend's acknowledgement mode -/
inductive Step : BState → BState → Prop where
  | stim {s s' : BState} (st : BState.Stim) (ss : List BState) (h : BState.stim s st = .ok ss) (hm : s' ∈ ss) : Step s s'
  | obs {s s' : BState} (o : BState.Obs) (hm : s' ∈ BState.observe s o) : Step s s'
  | ackMode {s : BState} (late never : Bool) : Step s { s with lateAck := late, neverAck := never }

/-- states reachable from the empty broker with configuration `cfg` -/
inductive Reachable (cfg : Cfg) : BState → Prop where
  | init : Reachable cfg { cfg := cfg }
  | step {s s' : BState} : Reachable cfg s → Step s s' → Reachable cfg s'
