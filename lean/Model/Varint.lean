import Model.Basic
/-
  Model/Varint.lean — encoding/binary.{PutUvarint,Uvarint} and packet/coding.go's varint helpers.
  `binary` is re-defined here (it is not part of /repo); the definitions are compared with the real
  functions by the header enumeration of the C02 correspondence.
-/

/-- `binary.PutUvarint` (the bytes it writes; it returns their number). -/
def putUvarint (n : Nat) : Bytes :=
  if n < 128 then [UInt8.ofNat n]
  else UInt8.ofNat (n % 128 + 128) :: putUvarint (n / 128)
termination_by n
decreasing_by omega

/-- The loop of `binary.Uvarint`: accumulator `x`, shift `s`, index `i`.
    Result `(value, n)`: `n > 0` bytes read, `n = 0` buffer too small, `n < 0` 64-bit overflow.
    `x | uint64(b) << s` is written `x + b * 2^s` (the bits are disjoint because `x < 2^s`). -/
def uvarintAux : Bytes → Nat → Nat → Nat → Nat × Int
  | [], _, _, _ => (0, 0)
  | b :: bs, x, s, i =>
    if i = 10 then (0, -((i : Int) + 1))
    else if b.toNat < 128 then
      if i = 9 ∧ b.toNat > 1 then (0, -((i : Int) + 1))
      else (x + b.toNat * 2 ^ s, (i : Int) + 1)
    else uvarintAux bs (x + (b.toNat % 128) * 2 ^ s) (s + 7) (i + 1)

def uvarint (buf : Bytes) : Nat × Int := uvarintAux buf 0 0 0

def maxVarint : Nat := 268435455

/-- `varintLen` of coding.go -/
def varintLen (n : Nat) : Nat :=
  if n < 128 then 1 else if n < 16384 then 2 else if n < 2097152 then 3
  else if n ≤ maxVarint then 4 else 0

/-- `readVarint`: at most four bytes are looked at. -/
def readVarint : Rd Nat := fun buf =>
  match uvarint (buf.take 4) with
  | (num, n) => if n ≤ 0 then .err .err buf else .ok num (buf.drop n.toNat)

/-- Go's `int(x)` for a `uint64` followed by `int` arithmetic: two's complement, 64 bit. -/
def wrapInt64 (x : Int) : Int := (x + 2 ^ 63) % 2 ^ 64 - 2 ^ 63

/-- `DetectPacket`: `(length, type nibble)`; `(0,0)` when undecided. -/
def detectPacket (src : Bytes) : Int × Nat :=
  match src with
  | [] => (0, 0)
  | [_] => (0, 0)
  | b0 :: tl =>
    match uvarint tl with
    | (rl, n) => if n ≤ 0 then (0, 0) else (wrapInt64 (1 + n + (rl : Int)), b0.toNat / 16)
