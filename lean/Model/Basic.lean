/-
  Model/Basic.lean — Go-level basics shared by all models.

  * `Bytes`  : Go `[]byte` / `string` as a value (`List UInt8`); the code never validates UTF-8.
  * `GoErr`  : the two abnormal outcomes a modelled Go function can have: it returns an
               `error` (`err`) or it panics (`panic`).  Every slice expression whose bounds are
               computed (not established by a preceding length check in the same function) goes
               through `slice?`, so "does not panic" is a theorem, not an artefact.
  * `R α`    : result of a reader working on the front of a byte slice; both outcomes carry the
               unread rest, so the Go functions' "bytes consumed" count exists on success *and*
               on error (`consumed src r = src.length - r.rest.length`).
-/

abbrev Bytes := List UInt8

inductive GoErr where
  | err
  | panic
  deriving DecidableEq, Repr, Inhabited

abbrev GoM := Except GoErr

/-- Go `s[i:j]` on a slice of length `s.length` (capacity = length): panics unless `i ≤ j ≤ len`. -/
def slice? (s : List α) (i j : Nat) : GoM (List α) :=
  if i ≤ j ∧ j ≤ s.length then .ok ((s.drop i).take (j - i)) else .error .panic

/-- Go `s[i]`. -/
def index? (s : List α) (i : Nat) : GoM α :=
  match s[i]? with
  | some a => .ok a
  | none => .error .panic

inductive R (α : Type) where
  | ok (a : α) (rest : Bytes)
  | err (e : GoErr) (rest : Bytes)
  deriving Repr

namespace R
def rest : R α → Bytes
  | ok _ r => r
  | err _ r => r

def isOk : R α → Bool
  | ok _ _ => true
  | err _ _ => false

def isPanic : R α → Bool
  | err .panic _ => true
  | _ => false

def map (f : α → β) : R α → R β
  | ok a r => ok (f a) r
  | err e r => err e r
end R

/-- A reader: consumes a prefix of its input. -/
def Rd (α : Type) := Bytes → R α

@[inline] def Rd.pure (a : α) : Rd α := fun bs => .ok a bs
@[inline] def Rd.bind (m : Rd α) (f : α → Rd β) : Rd β := fun bs =>
  match m bs with
  | .ok a rest => f a rest
  | .err e rest => .err e rest

instance : Monad Rd where
  pure := Rd.pure
  bind := Rd.bind

/-- fail here: the reported position is the current one -/
def Rd.fail (e : GoErr := .err) : Rd α := fun bs => .err e bs

theorem Rd.bind_apply (m : Rd α) (f : α → Rd β) (bs : Bytes) :
    (m >>= f) bs = match m bs with
      | .ok a rest => f a rest
      | .err e rest => .err e rest := rfl

theorem Rd.pure_apply (a : α) (bs : Bytes) : (pure a : Rd α) bs = .ok a bs := rfl

/-- big-endian 16 bit -/
def be16 (n : Nat) : Bytes := [UInt8.ofNat (n / 256), UInt8.ofNat (n % 256)]

def hexDigit (n : Nat) : Char :=
  if n < 10 then Char.ofNat (48 + n) else Char.ofNat (87 + n)

def toHex (bs : Bytes) : String :=
  String.ofList (bs.flatMap fun b => [hexDigit (b.toNat / 16), hexDigit (b.toNat % 16)])

def hexVal (c : Char) : Option Nat :=
  if '0' ≤ c ∧ c ≤ '9' then some (c.toNat - 48)
  else if 'a' ≤ c ∧ c ≤ 'f' then some (c.toNat - 87)
  else if 'A' ≤ c ∧ c ≤ 'F' then some (c.toNat - 55)
  else none

def fromHexAux : List Char → Bytes → Option Bytes
  | [], acc => some acc.reverse
  | [_], _ => none
  | a :: b :: rest, acc =>
    match hexVal a, hexVal b with
    | some x, some y => fromHexAux rest (UInt8.ofNat (x * 16 + y) :: acc)
    | _, _ => none

def fromHex (s : String) : Option Bytes := fromHexAux s.toList []
