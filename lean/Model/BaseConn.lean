import Model.Basic
/-
  Model/BaseConn.lean — `transport.BaseConn` (transport/base_conn.go) over an abstract carrier,
  together with `packet.Encoder` → `mercury.Writer` (v0.2.0) → `bufio.Writer` on the way out and
  `packet.Decoder` → `bufio.Reader` on the way in.  (C19)

  A labelled transition system.  One event = one atomic region of the real code:

  * `send g bs async` — `BaseConn.Send` (whole body under `sendMutex`): `Encoder.Write` →
    `mercury.Writer.write(bs, !async)` (under the writer's own mutex) and, on error,
    `carrier.Close()`.  `bs = enc p` is opaque and non-empty for a real packet.
  * `sendInvalid g`   — `Send` of a packet whose `Encode` fails: mercury is not touched, the
    error closes the carrier all the same (base_conn.go:47-53).
  * `timerFire`       — mercury's `time.AfterFunc` callback `flush()`; it takes the *writer's*
    mutex, not `sendMutex`.  It is enabled in every state (a callback that lost the race against
    `timer.Stop()` still runs); it clears `timer`, flushes, and parks the error in `w.err`.
  * `close`           — `BaseConn.Close` under `sendMutex`: `Flush` (= `write(nil,true)`) and then
    `carrier.Close()`.  The callback can only slip in between the two when the buffer is empty or
    the writer has failed, where it commutes with the carrier close (`C19.close_atomic_wrt_timer`,
    `C19.send_error_atomic_wrt_timer`).
  * `receive`         — `BaseConn.Receive` under `receiveMutex`: `Decoder.Read`, `resetTimeout`,
    on either error `carrier.Close()`.  A call that would wait for the peer has outcome `block`
    (the state keeps what the reader already pulled in); the pending call is the same call
    issued again later — the decoder keeps no state besides the reader's buffer.
  * `setReadTimeout`, `setDelay` — the two setters.
  * environment: `peerData`, `peerClose`, `carrierFail kind k` (the k-th next call of that kind,
    and every later one, fails), `deadlineExpire`.

  One region is NOT covered by a mutex shared with the senders: the `carrier.Close()` on
  `Receive`'s error path.  It can land between two carrier writes of one `Send` (a packet that does
  not fit the buffer space goes out in two writes) or between the flush and the carrier close of
  `Close`.  For the writer side this is indistinguishable from the carrier refusing the next write /
  the close call from that moment on, which the LTS has as the environment events
  `carrierFail write k` / `carrierFail close 0` placed right before the call (the `receive` itself
  returns `err` either way); the theorems quantify over all environment events, so these schedules
  are covered, and the group acceptor of the driver uses exactly this reading.

  What is abstracted: packets are opaque byte strings; the split of inbound bytes into packets is
  a parameter (`Cfg.frame`; the driver instantiates it with the MQTT fixed header and the codec
  model; the details of `Decoder.Read` are C03's model).  A carrier read hands over everything
  that is available (true of the in-memory carrier, and of `bufio.Reader.fill` whenever the data
  fits the 4096-byte reader buffer).  Carrier writes are all-or-nothing (no partial writes).
-/

namespace BaseConn

/-- outcome of cutting the next packet off the reader's buffer (`Decoder.Read` minus the I/O) -/
inductive FrameRes where
  | need (held : Bool)            -- the decoder asks the reader for more bytes; `held`: it knows the
                                  -- packet length and has moved what was buffered into its own buffer
                                  -- (`io.ReadFull`), so a read error loses these bytes
  | bad (rest : Bytes)            -- detection overflow / unknown type / decode error
  | pkt (p rest : Bytes)          -- a whole packet `p`, `rest` stays buffered
  deriving Repr, DecidableEq

structure Cfg where
  /-- size of the `bufio.Writer` (4096 in the real code) -/
  cap : Nat
  /-- `SetReadDeadline` on a closed carrier fails (true of `net.Conn` and of gorilla's websocket
      connection; a hand-made carrier may differ) -/
  dlClosedFails : Bool
  /-- the framing of inbound bytes -/
  frame : Bytes → FrameRes

inductive SendRes where
  | ok        -- `Send` returned nil
  | failed    -- the writer was healthy when the call started, and the call failed
  | rejected  -- the writer had already failed; nothing of this packet was touched
  deriving Repr, DecidableEq

structure SendRec where
  g : Nat
  bytes : Bytes
  async : Bool
  res : SendRes
  deriving Repr, DecidableEq

structure State where
  -- bufio.Writer + mercury.Writer
  buf : Bytes := []             -- bytes accepted and not yet handed to the carrier
  berr : Bool := false          -- bufio.Writer's sticky error
  werr : Bool := false          -- mercury's parked error of an asynchronous flush (handed out once)
  timerArmed : Bool := false    -- `w.timer != nil`
  delay0 : Bool := true         -- maximum write delay is zero (the default of `NewEncoder`)
  -- carrier, outbound
  wire : Bytes := []            -- bytes the carrier accepted, in order
  closed : Bool := false
  wfailIn : Option Nat := none  -- `some k`: k more writes succeed, then every write fails
  cfailIn : Option Nat := none  -- same for `Close` (a failing close still closes)
  -- carrier, inbound
  inbox : Bytes := []           -- bytes the peer made available, not yet read
  peerClosed : Bool := false
  rfailIn : Option Nat := none
  dfailIn : Option Nat := none  -- `SetReadDeadline`
  deadlineArmed : Bool := false
  expired : Bool := false
  -- bufio.Reader + BaseConn
  rbuf : Bytes := []            -- bytes buffered in the reader
  readTimeout : Bool := false   -- `c.readTimeout > 0`
  -- ghost: every `send` event in the order of occurrence
  hist : List SendRec := []
  deriving Repr, DecidableEq

inductive FailKind where
  | write | read | deadline | close
  deriving Repr, DecidableEq

inductive Event where
  | send (g : Nat) (bytes : Bytes) (async : Bool)
  | sendInvalid (g : Nat)
  | timerFire
  | close
  | receive
  | setReadTimeout (on : Bool)
  | setDelay (zero : Bool)
  | peerData (bs : Bytes)
  | peerClose
  | carrierFail (k : FailKind) (after : Nat)
  | deadlineExpire
  deriving Repr, DecidableEq

inductive Outcome where
  | ok
  | err
  | pkt (p : Bytes)
  | block      -- only `receive`: the call waits for the environment
  deriving Repr, DecidableEq

/-- a fault counter: `(fails now, counter afterwards)` -/
def tick : Option Nat → Bool × Option Nat
  | none => (false, none)
  | some 0 => (true, some 0)
  | some (k + 1) => (false, some k)

/-! ### the carrier -/

/-- `carrier.Write(bs)`; `true` = success -/
def carrierWrite (s : State) (bs : Bytes) : State × Bool :=
  if s.closed then (s, false)
  else match tick s.wfailIn with
    | (true, c) => ({ s with wfailIn := c }, false)
    | (false, c) => ({ s with wire := s.wire ++ bs, wfailIn := c }, true)

/-- `carrier.Close()`; closing twice is an error (as on a `net.Conn`), a failing close closes -/
def carrierClose (s : State) : State × Bool :=
  if s.closed then (s, false)
  else match tick s.cfailIn with
    | (true, c) => ({ s with closed := true, cfailIn := c }, false)
    | (false, c) => ({ s with closed := true, cfailIn := c }, true)

/-- `carrier.SetReadDeadline(t)`; `armed` = `t` is not the zero time -/
def carrierSetDeadline (C : Cfg) (s : State) (armed : Bool) : State × Bool :=
  if s.closed && C.dlClosedFails then (s, false)
  else match tick s.dfailIn with
    | (true, c) => ({ s with dfailIn := c }, false)
    | (false, c) => ({ s with dfailIn := c, deadlineArmed := armed, expired := false }, true)

inductive ReadRes where
  | data | err | block
  deriving Repr, DecidableEq

/-- `carrier.Read`: closed, injected failure, expired deadline (checked before the data, as the
    Go poller does), data (everything available moves into the reader), end of stream, wait -/
def carrierRead (s : State) : State × ReadRes :=
  if s.closed then (s, .err)
  else match tick s.rfailIn with
    | (true, c) => ({ s with rfailIn := c }, .err)
    | (false, c) =>
      if s.expired then ({ s with rfailIn := c }, .err)
      else if s.inbox ≠ [] then ({ s with rfailIn := c, rbuf := s.rbuf ++ s.inbox, inbox := [] }, .data)
      else if s.peerClosed then ({ s with rfailIn := c }, .err)
      else (s, .block)     -- a waiting read has not returned: the fault counter is untouched

/-! ### bufio.Writer -/

/-- `bufio.Writer.Flush` -/
def bufFlush (s : State) : State × Bool :=
  if s.berr then (s, false)
  else if s.buf = [] then (s, true)
  else match carrierWrite s s.buf with
    | (s', true) => ({ s' with buf := [] }, true)
    | (s', false) => ({ s' with berr := true }, false)

/-- a write that bypasses the buffer ("large write, empty buffer") -/
def directWrite (s : State) (p : Bytes) : State × Bool :=
  match carrierWrite s p with
  | (s', true) => (s', true)
  | (s', false) => ({ s' with berr := true }, false)

/-- `bufio.Writer.Write(p)` for non-empty `p`.  The Go loop runs at most twice: fits → copy;
    empty buffer → direct write; otherwise fill the buffer, flush it, and then the rest either
    fits the (now empty) buffer or goes out directly. -/
def bufWrite (C : Cfg) (s : State) (p : Bytes) : State × Bool :=
  if s.berr then (s, false)
  else if p.length ≤ C.cap - s.buf.length then ({ s with buf := s.buf ++ p }, true)
  else if s.buf = [] then directWrite s p
  else
    let k := C.cap - s.buf.length
    match bufFlush { s with buf := s.buf ++ p.take k } with
    | (s1, false) => (s1, false)
    | (s1, true) =>
      let r := p.drop k
      if r.length ≤ C.cap then ({ s1 with buf := r }, true)
      else directWrite s1 r

/-! ### mercury.Writer -/

/-- the timer bookkeeping at the end of a successful `write` -/
def timerAdjust (s : State) : State :=
  if s.buf ≠ [] && !s.timerArmed then { s with timerArmed := true }
  else if s.buf = [] && s.timerArmed then { s with timerArmed := false }
  else s

/-- "write data if available" -/
def bufWriteOpt (C : Cfg) (s : State) (p : Bytes) : State × Bool :=
  if p = [] then (s, true) else bufWrite C s p

/-- "flush immediately if requested or delay is zero" -/
def flushIf (s : State) (b : Bool) : State × Bool :=
  if b then bufFlush s else (s, true)

/-- `mercury.Writer.write(p, flush)` -/
def mercWrite (C : Cfg) (s : State) (p : Bytes) (flush : Bool) : State × Bool :=
  if s.werr then ({ s with werr := false }, false)
  else
    match bufWriteOpt C s p with
    | (s1, false) => (s1, false)
    | (s1, true) =>
      match flushIf s1 (flush || s1.delay0) with
      | (s2, false) => (s2, false)
      | (s2, true) => (timerAdjust s2, true)

/-- `mercury.Writer.flush` (the timer callback) -/
def mercTimer (s : State) : State :=
  match bufFlush { s with timerArmed := false } with
  | (s', true) => s'
  | (s', false) => if s'.werr then s' else { s' with werr := true }

/-! ### BaseConn -/

def closeCarrier (s : State) : State := (carrierClose s).1

def sendStep (C : Cfg) (s : State) (g : Nat) (bs : Bytes) (async : Bool) : State × Outcome :=
  match mercWrite C s bs (!async) with
  | (s1, true) =>
    ({ s1 with hist := s1.hist ++ [⟨g, bs, async, .ok⟩] }, .ok)
  | (s1, false) =>
    let s2 := closeCarrier s1
    ({ s2 with hist := s2.hist ++ [⟨g, bs, async, if s.berr then .rejected else .failed⟩] }, .err)

/-- `Close`: the state after the flush, then the carrier close; the first error wins -/
def closeFlush (C : Cfg) (s : State) : State × Bool := mercWrite C s [] true

def closeStep (C : Cfg) (s : State) : State × Outcome :=
  match closeFlush C s with
  | (s1, ok1) =>
    match carrierClose s1 with
    | (s2, ok2) => (s2, if ok1 && ok2 then .ok else .err)

/-- `resetTimeout` -/
def resetTimeout (C : Cfg) (s : State) : State × Bool := carrierSetDeadline C s s.readTimeout

/-- the tail of `Receive` once the decoder has cut a packet off the reader -/
def recvDeliver (C : Cfg) (s : State) (p rest : Bytes) : State × Outcome :=
  match resetTimeout C { s with rbuf := rest } with
  | (s1, true) => (s1, .pkt p)
  | (s1, false) => (closeCarrier s1, .err)

/-- a failing read loses what the decoder had already taken out of the reader -/
def dropHeld (s : State) (held : Bool) : State := if held then { s with rbuf := [] } else s

def recvStep (C : Cfg) (s : State) : State × Outcome :=
  match C.frame s.rbuf with
  | .pkt p rest => recvDeliver C s p rest
  | .bad rest => (closeCarrier { s with rbuf := rest }, .err)
  | .need held =>
    match carrierRead s with
    | (s1, .err) => (closeCarrier (dropHeld s1 held), .err)
    | (s1, .block) => (s1, .block)
    | (s1, .data) =>
      match C.frame s1.rbuf with
      | .pkt p rest => recvDeliver C s1 p rest
      | .bad rest => (closeCarrier { s1 with rbuf := rest }, .err)
      | .need held1 =>
        -- the decoder asks again; the inbox is empty now
        match carrierRead s1 with
        | (s2, .err) => (closeCarrier (dropHeld s2 held1), .err)
        | (s2, .block) => (s2, .block)
        | (s2, .data) => (s2, .block)   -- unreachable: the inbox is empty

def setFail (s : State) (k : FailKind) (n : Nat) : State :=
  match k with
  | .write => { s with wfailIn := some n }
  | .read => { s with rfailIn := some n }
  | .deadline => { s with dfailIn := some n }
  | .close => { s with cfailIn := some n }

def step (C : Cfg) (s : State) : Event → State × Outcome
  | .send g bs async => sendStep C s g bs async
  | .sendInvalid _ => (closeCarrier s, .err)
  | .timerFire => (mercTimer s, .ok)
  | .close => closeStep C s
  | .receive => recvStep C s
  | .setReadTimeout on => ((resetTimeout C { s with readTimeout := on }).1, .ok)
  | .setDelay z => ({ s with delay0 := z }, .ok)
  | .peerData bs => (if s.peerClosed then s else { s with inbox := s.inbox ++ bs }, .ok)
  | .peerClose => ({ s with peerClosed := true }, .ok)
  | .carrierFail k n => (setFail s k n, .ok)
  | .deadlineExpire => (if s.deadlineArmed then { s with expired := true } else s, .ok)

/-- run a whole event sequence, collecting the outcomes -/
def run (C : Cfg) (s : State) : List Event → State × List Outcome
  | [] => (s, [])
  | e :: es =>
    let r := step C s e
    let rr := run C r.1 es
    (rr.1, r.2 :: rr.2)

def init : State := {}

def Reachable (C : Cfg) (s : State) : Prop := ∃ evs, (run C init evs).1 = s

/-! ### what a trace says by itself (no ghost state) -/

/-- the `(sender, bytes)` of the sends that returned nil, in event order -/
def okSends : List Event → List Outcome → List (Nat × Bytes)
  | .send g bs _ :: es, .ok :: os => (g, bs) :: okSends es os
  | _ :: es, _ :: os => okSends es os
  | _, _ => []

/-- the bytes of the first send that returned an error (`[]` when there is none) -/
def firstErrBytes : List Event → List Outcome → Bytes
  | .send _ bs _ :: _, .err :: _ => bs
  | _ :: es, _ :: os => firstErrBytes es os
  | _, _ => []

def flat (l : List (Nat × Bytes)) : Bytes := (l.map (·.2)).flatten

end BaseConn
