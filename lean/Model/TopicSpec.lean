import Model.Topic
/-
  Model/TopicSpec.lean — the specification side of C04 / C05.

  * `tmatches filter name` is MQTT 3.1.1 §4.7 on level lists, in five lines.
  * `TopicMap` is "a plain map from topic to a duplicate-free value list" (association list keyed
    by the topic's level list); its operations are the obvious ones.  Queries by matching are
    defined by filtering the map with `tmatches` — no trie, no recursion over a tree.
-/

/-- does `filter` match `name`?  `+` = exactly one level, a trailing `#` = zero or more levels
    (including the parent level), everything else byte-exact; levels may be empty. -/
def tmatches : List Level → List Level → Bool
  | [], [] => true
  | [], _ :: _ => false
  | f :: fs, ns =>
    if f = wildSome ∧ fs = [] then true
    else match ns with
      | [] => false
      | n :: ns' => (f = wildOne || (f ≠ wildSome && f == n)) && tmatches fs ns'

abbrev TopicMap := List (List Level × List Val)

namespace TopicMap

def lookup (m : TopicMap) (k : List Level) : List Val :=
  match m with
  | [] => []
  | (k', vs) :: rest => if k' = k then vs else lookup rest k

def put (m : TopicMap) (k : List Level) (vs : List Val) : TopicMap :=
  match m with
  | [] => if vs.isEmpty then [] else [(k, vs)]
  | (k', vs') :: rest => if k' = k then (if vs.isEmpty then rest else (k, vs) :: rest) else (k', vs') :: put rest k vs

def add (m : TopicMap) (k : List Level) (v : Val) : TopicMap :=
  let vs := m.lookup k
  if vs.contains v then m else m.put k (vs ++ [v])

def set (m : TopicMap) (k : List Level) (v : Val) : TopicMap := m.put k [v]
def remove (m : TopicMap) (k : List Level) (v : Val) : TopicMap := m.put k ((m.lookup k).filter (· != v))
def emptyTopic (m : TopicMap) (k : List Level) : TopicMap := m.put k []
def clear (m : TopicMap) (v : Val) : TopicMap :=
  (m.map fun (k, vs) => (k, vs.filter (· != v))).filter fun (_, vs) => !vs.isEmpty

/-- values stored under filters that match the name -/
def matchName (m : TopicMap) (name : List Level) : List Val :=
  (m.filter fun (f, _) => tmatches f name).flatMap (·.2)

/-- values stored under names that the filter matches -/
def searchFilter (m : TopicMap) (filter : List Level) : List Val :=
  (m.filter fun (n, _) => tmatches filter n).flatMap (·.2)

def all (m : TopicMap) : List Val := m.flatMap (·.2)
def count (m : TopicMap) : Nat := (m.map (·.2.length)).sum

end TopicMap
