import Model.Codec
/-
  Model/Ref.lean — an independent reference codec written from the OASIS MQTT 3.1.1 text
  (sections 2.2, 2.3, 3.1–3.14), deliberately in a different style from Model/Codec.lean:
  * fixed header = `type * 16 + flags`, remaining length by the div/mod algorithm of §2.2.3,
  * every variable header / payload field through one generic `lp` (UTF-8 string or binary data,
    §1.5.3) and `u16`,
  * decoding with a small `Option` parser over the *body* (the remaining-length many bytes),
    which must be consumed exactly.
  Leniencies of the library that the property allows ("documented leniencies") are explicit:
  * `lenientVarint`: a remaining length may be encoded non-minimally (`binary.Uvarint` accepts
     e.g. `80 00`), still at most four bytes;
  * `connectTrailing`: bytes of a CONNECT body after the last field are ignored;
  * protocol level 3 ("MQIsdp") is accepted next to level 4.
-/
namespace Ref

/-- §2.2.3 encoding algorithm -/
def encRL (x : Nat) : Bytes :=
  let d := x % 128
  let x' := x / 128
  if x' > 0 then UInt8.ofNat (d + 128) :: encRL x' else [UInt8.ofNat d]
termination_by x
decreasing_by omega

def u16 (n : Nat) : Bytes := [UInt8.ofNat (n >>> 8), UInt8.ofNat (n &&& 0xff)]
def lp (b : Bytes) : Bytes := u16 b.length ++ b

def fixedFlags : Packet → Nat
  | .publish m dup _ => (if dup then 8 else 0) ||| (m.qos.toNat <<< 1) ||| (if m.retain then 1 else 0)
  | .pubrel _ => 2 | .subscribe .. => 2 | .unsubscribe .. => 2
  | _ => 0

def str16 (b : Bytes) : Bool := b.length ≤ 65535
def validQoS (q : UInt8) : Bool := q.toNat ≤ 2

/-- what MQTT 3.1.1 (and the library's API contract) allow to be sent -/
def wellFormed : Packet → Bool
  | .connect c _ u p clean w v =>
      (v == 0 || v == 3 || v == 4) && str16 c && str16 u && str16 p
      && (match w with
          | some m => validQoS m.qos && str16 m.topic && str16 m.payload && m.topic.length > 0
          | none => true)
      && (c.length > 0 || clean) && (p.length == 0 || u.length > 0)
  | .connack _ code => code.toNat ≤ 5
  | .publish m _ id => validQoS m.qos && str16 m.topic && m.topic.length > 0 && (m.qos == 0 || id != 0)
  | .puback id | .pubrec id | .pubrel id | .pubcomp id | .unsuback id => id != 0
  | .subscribe ss id => id != 0 && !ss.isEmpty && ss.all (fun s => str16 s.topic && validQoS s.qos)
  | .suback cs id => id != 0 && !cs.isEmpty && cs.all (fun c => validQoS c || c == 0x80)
  | .unsubscribe ts id => id != 0 && !ts.isEmpty && ts.all str16
  | _ => true

def body : Packet → Bytes
  | .connect c ka u p clean w v =>
      let level : UInt8 := if v == 3 then 3 else 4
      let name := if v == 3 then "MQIsdp".toUTF8.toList else "MQTT".toUTF8.toList
      let flags : Nat :=
        (if u.length > 0 then 0x80 else 0) ||| (if p.length > 0 then 0x40 else 0)
        ||| (match w with
             | some m => (if m.retain then 0x20 else 0) ||| (m.qos.toNat <<< 3) ||| 0x04
             | none => 0)
        ||| (if clean then 0x02 else 0)
      lp name ++ [level, UInt8.ofNat flags] ++ u16 ka.toNat ++ lp c
        ++ (match w with | some m => lp m.topic ++ lp m.payload | none => [])
        ++ (if u.length > 0 then lp u else []) ++ (if p.length > 0 then lp p else [])
  | .connack sp code => [if sp then 1 else 0, code]
  | .publish m _ id => lp m.topic ++ (if m.qos.toNat > 0 then u16 id.toNat else []) ++ m.payload
  | .puback id | .pubrec id | .pubrel id | .pubcomp id | .unsuback id => u16 id.toNat
  | .subscribe ss id => u16 id.toNat ++ ss.flatMap (fun s => lp s.topic ++ [s.qos])
  | .suback cs id => u16 id.toNat ++ cs
  | .unsubscribe ts id => u16 id.toNat ++ ts.flatMap lp
  | .pingreq | .pingresp | .disconnect => []

def encode (p : Packet) : Option Bytes :=
  let b := body p
  if wellFormed p && b.length ≤ 268435455
  then some (UInt8.ofNat (p.type.code * 16 + fixedFlags p) :: encRL b.length ++ b)
  else none

/-! decoding -/

abbrev P := StateT Bytes Option

def byte : P UInt8 := fun bs => match bs with | b :: r => some (b, r) | [] => none
def word : P Nat := do let a ← byte; let b ← byte; pure (a.toNat * 256 + b.toNat)
def takeN (n : Nat) : P Bytes := fun bs => if n ≤ bs.length then some (bs.take n, bs.drop n) else none
def field : P Bytes := do let n ← word; takeN n
def guard' (b : Bool) : P Unit := if b then pure () else failure
def remaining : P Bytes := fun bs => some (bs, [])
def atEnd : P Bool := fun bs => some (bs.isEmpty, bs)

/-- §2.2.3 decoding algorithm, at most four bytes; non-minimal encodings accepted (leniency). -/
def decRL : Nat → Nat → Nat → P Nat
  | 0, _, _ => failure
  | fuel + 1, mult, acc => do
    let b ← byte
    let acc := acc + (b.toNat % 128) * mult
    if b.toNat < 128 then pure acc else decRL fuel (mult * 128) acc

/-- repeat `p` until the body is used up (each `p` used here consumes at least one byte) -/
def many (fuel : Nat) (p : P α) : P (List α) :=
  let rec go : Nat → List α → P (List α)
    | 0, _ => failure
    | f + 1, acc => do
      if (← atEnd) then pure acc.reverse else
      let a ← p
      go f (a :: acc)
  go fuel []

def identified (mk : UInt16 → Packet) : P Packet := do
  let id ← word; guard' (id != 0); pure (mk (UInt16.ofNat id))

def bodyParser (t : PType) (flags : Nat) : P Packet :=
  match t with
  | .connect => do
    let name ← field; let level ← byte
    guard' ((level == 4 && name == "MQTT".toUTF8.toList) || (level == 3 && name == "MQIsdp".toUTF8.toList))
    let cf ← byte; let cf := cf.toNat
    guard' (cf &&& 1 == 0)
    let willFlag := cf &&& 4 != 0
    let willQoS := (cf >>> 3) &&& 3
    let willRetain := cf &&& 0x20 != 0
    guard' (willQoS ≤ 2)
    guard' (willFlag || (willQoS == 0 && !willRetain))
    let userFlag := cf &&& 0x80 != 0
    let passFlag := cf &&& 0x40 != 0
    guard' (userFlag || !passFlag)
    let clean := cf &&& 2 != 0
    let ka ← word
    let cid ← field
    guard' (cid.length > 0 || clean)
    let will ← (if willFlag then do
        let t ← field; guard' (t.length > 0); let pl ← field
        pure (some (Message.mk t pl (UInt8.ofNat willQoS) willRetain)) else pure none)
    let user ← (if userFlag then field else pure [])
    let pass ← (if passFlag then field else pure [])
    let _ ← remaining      -- leniency `connectTrailing`
    pure (.connect cid (UInt16.ofNat ka) user pass clean will level)
  | .connack => do
    let fl ← byte; guard' (fl.toNat ≤ 1); let code ← byte; guard' (code.toNat ≤ 5)
    pure (.connack (fl == 1) code)
  | .publish => do
    let qos := (flags >>> 1) &&& 3
    guard' (qos ≤ 2)
    let topic ← field; guard' (topic.length > 0)
    let id ← (if qos > 0 then do let i ← word; guard' (i != 0); pure i else pure 0)
    let payload ← remaining
    pure (.publish ⟨topic, payload, UInt8.ofNat qos, flags &&& 1 != 0⟩ (flags &&& 8 != 0) (UInt16.ofNat id))
  | .puback => identified .puback
  | .pubrec => identified .pubrec
  | .pubrel => identified .pubrel
  | .pubcomp => identified .pubcomp
  | .unsuback => identified .unsuback
  | .subscribe => do
    let id ← word; guard' (id != 0)
    let ss ← (fun bs => many (bs.length + 1) (do let t ← field; let q ← byte; guard' (q.toNat ≤ 2); pure (Subscription.mk t q)) bs)
    guard' (!ss.isEmpty)
    pure (.subscribe ss (UInt16.ofNat id))
  | .suback => do
    let id ← word; guard' (id != 0)
    let cs ← remaining
    guard' (!cs.isEmpty && cs.all (fun c => c.toNat ≤ 2 || c == 0x80))
    pure (.suback cs (UInt16.ofNat id))
  | .unsubscribe => do
    let id ← word; guard' (id != 0)
    let ts ← (fun bs => many (bs.length + 1) field bs)
    guard' (!ts.isEmpty)
    pure (.unsubscribe ts (UInt16.ofNat id))
  | .pingreq => pure .pingreq
  | .pingresp => pure .pingresp
  | .disconnect => pure .disconnect

/-- decode a buffer that holds exactly one packet of the statically expected type -/
def decode (t : PType) (bs : Bytes) : Option Packet := do
  let (b0, r1) ← byte bs
  guard (b0.toNat / 16 == t.code)
  let flags := b0.toNat % 16
  guard (t == .publish || flags == (match t with | .pubrel | .subscribe | .unsubscribe => 2 | _ => 0))
  let (rl, bodyBytes) ← decRL 4 1 0 r1
  guard (rl == bodyBytes.length)
  let (p, rest) ← bodyParser t flags bodyBytes
  guard rest.isEmpty
  pure p

end Ref
