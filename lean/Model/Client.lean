import Model.Codec
import Model.Wire
import Model.Session
/-
  Model/Client.lean — client/client.go (+ futures.go, future/future.go, future/store.go) as a
  labelled transition system at the granularity of the real lock coverage.

  Threads: `api` (the goroutine inside an exported method; the methods exclude each other through
  `Client.mutex`, so there is at most one), `proc` (the processor goroutine) and `ping` (the
  pinger).  `die()/cleanup()` take NO mutex, hence every exported method and every handler of the
  processor is a sequence of micro-steps, each containing at most one access to shared state
  (the atomic `state`, the future store, a future, the session, the connection, the tomb), and
  the steps of different threads interleave freely.

  Labels are
    * visible events, observed by the conformance harness through the scripted connection, the
      wrapping session, the callback and the return values of the API: they carry the *outcome*
      the environment chose (send ok/fail, session operation ok/fail, callback nil/error);
    * `tau t`: the next hidden micro-step of thread `t` (deterministic given the state);
    * `kMissing`: the pinger decides that the pong is overdue.

  `step fx s l = none` means "label `l` is not an enabled next step in `s`".  Everything a Go
  function can do wrong is an explicit outcome: an error return that skips `die()` ends in
  `Proc.exited false` (processor gone, no cleanup), `tomb.Wait` on a tomb that never ran a
  goroutine ends in `Api.blocked`, a type assertion on a nil result is `Acc.panic`.

  `Fix` selects between the code as it was found (`Fix.legacy`) and the repairs proposed for
  defects 9, 10+11, 14, 15 (`Fix.repaired`, the model of the code in /repo once the patches are in).

  Packet ids (patch 02-client-unused-packet-id, not switchable by `Fix`): the exported methods take
  their id from `Client.nextID()` — `Session.NextID()`, then `Session.LookupPacket(Outgoing, id)`,
  again while a packet is found, at most 65535 times, else `ErrPacketIDsExhausted` (returned without
  `cleanup`); a failing lookup is a session failure like the others (`cleanup(err, true, false)`).
  States `Api.rID r n` / `Api.rLook r id n`, labels `sNextID id` / `sLookup .outgoing id res`.  The
  only lookups of the outgoing store are these, the only lookups of the incoming store are those of
  `processPubrel`: `threadOf` attributes `sLookup` by its direction.
-/
namespace Cl

inductive CS where
  | initialized | connecting | connacked | connected | disconnecting | disconnected
  deriving DecidableEq, Repr, Inhabited

def CS.toNat : CS → Nat
  | .initialized => 0 | .connecting => 1 | .connacked => 2 | .connected => 3
  | .disconnecting => 4 | .disconnected => 5

/-- the value a future was completed / cancelled with -/
inductive FRes where
  | nil
  | connack (sp : Bool) (code : UInt8)
  | suback (codes : List UInt8)
  deriving DecidableEq, Repr, Inhabited

inductive FSt where
  | pending
  | completed (r : FRes)
  | cancelled (r : FRes)
  deriving DecidableEq, Repr, Inhabited

/-- outcome of calling an accessor -/
inductive Acc where
  | bool (b : Bool) | code (c : UInt8) | codes (l : Option (List UInt8)) | panic
  deriving DecidableEq, Repr

def FSt.result : FSt → FRes
  | .pending => .nil | .completed r => r | .cancelled r => r

/-- `connectFuture.SessionPresent()` (comma-ok assertion: `fix:` 37c0610) -/
def accSessionPresent (f : FSt) : Acc :=
  match f.result with | .connack sp _ => .bool sp | _ => .bool false
/-- `connectFuture.ReturnCode()` -/
def accReturnCode (f : FSt) : Acc :=
  match f.result with | .connack _ c => .code c | _ => .code 0
/-- `subscribeFuture.ReturnCodes()` -/
def accReturnCodes (f : FSt) : Acc :=
  match f.result with | .suback cs => .codes (some cs) | _ => .codes none
/-- the accessors before 37c0610: an unchecked type assertion on the stored result -/
def accSessionPresentUnchecked (f : FSt) : Acc :=
  match f.result with | .connack sp _ => .bool sp | _ => .panic

structure Fix where
  f9 : Bool     -- `end()` does not wait for a tomb that never ran a goroutine
  f10 : Bool    -- PUBREL: forget the message before PUBCOMP; answer unknown ids while connected
  f14 : Bool    -- Publish/Subscribe/Unsubscribe look at the state again after `Put`
  f15 : Bool    -- the processor's error returns go through `die()`
  deriving DecidableEq, Repr

def Fix.legacy : Fix := ⟨false, false, false, false⟩
def Fix.repaired : Fix := ⟨true, true, true, true⟩

inductive Th where | api | proc | ping
  deriving DecidableEq, Repr

inductive Conn where | none | opened | closed
  deriving DecidableEq, Repr

/-- the statements of `cleanup()`, in order -/
inductive CStage where
  | cancelConn | setState | closeConn | resetSess | clear
  deriving DecidableEq, Repr

structure Cleanup where
  stage : CStage
  closeConn : Bool
  possiblyClosed : Bool
  err : Bool              -- the error to return is non-nil
  deriving DecidableEq, Repr

inductive Req where
  | pub (m : Message) | sub (subs : List Subscription) | unsub (topics : List Bytes)
  deriving DecidableEq, Repr

def Req.needsID : Req → Bool
  | .pub m => m.qos != 0
  | _ => true

def Req.stored : Req → Bool
  | .pub m => m.qos != 0
  | _ => false

def Req.pkt (r : Req) (id : UInt16) : Packet :=
  match r with
  | .pub m => .publish m false id
  | .sub subs => .subscribe subs id
  | .unsub ts => .unsubscribe ts id

/-- what an exported method returns -/
inductive RetV where
  | fut (h : Nat)            -- a future, nil error
  | ok                       -- nil error (Disconnect, Close)
  | errAlready | errDial | errNotConnected
  | err                      -- any other error (send / session / close)
  | errExhausted             -- `ErrPacketIDsExhausted`: every packet id has a stored outgoing packet
  deriving DecidableEq, Repr

inductive RetK where
  | fut | ok | errAlready | errDial | errNotConnected | err | errExhausted
  deriving DecidableEq, Repr

def RetV.kind : RetV → RetK
  | .fut _ => .fut | .ok => .ok | .errAlready => .errAlready | .errDial => .errDial
  | .errNotConnected => .errNotConnected | .err => .err | .errExhausted => .errExhausted

inductive After where | ret | endKill
  deriving DecidableEq, Repr

inductive Api where
  | idle
  | cChk | cDial | cReset | cFut | cSend | cGo
  | rChk (r : Req)
  -- `Client.nextID()`: `n` iterations of the loop are left (this one included); `rLook`: `NextID`
  -- returned `id`, `LookupPacket(Outgoing, id)` is next
  | rID (r : Req) (n : Nat) | rLook (r : Req) (id : UInt16) (n : Nat)
  | rPut (r : Req) (id : UInt16) | rCheck (r : Req) (id : UInt16) (h : Nat)
  | rSave (r : Req) (id : UInt16) (h : Nat) | rSend (r : Req) (id : UInt16) (h : Nat)
  | rDone (r : Req) (id : UInt16) (h : Nat)
  | dChk (await : Bool) | dAwait | dSet | dSend
  | xChk
  | clean (c : Cleanup) (k : After)
  | kill (err : Bool) | wait (err : Bool)
  | ret (v : RetV)
  | blocked
  deriving DecidableEq, Repr

/-- where a goroutine continues after `die()` returned -/
inductive DAfter where
  | exit                                   -- `return c.die(…)`
  | cont                                   -- `processConnack` error is dropped: back to `Receive`
  | contCancel (sp : Bool) (code : UInt8)  -- … after `connectFuture.Cancel(connack)`
  deriving DecidableEq, Repr

inductive DStage where
  | enter | clean (c : Cleanup) | cb | wait
  deriving DecidableEq, Repr

structure Die where
  stage : DStage
  closeConn : Bool
  after : DAfter
  deriving DecidableEq, Repr

inductive AckK where
  | sub (codes : List UInt8) | unsub | pub
  deriving DecidableEq, Repr

inductive Proc where
  | notStarted
  | recv (first : Bool)
  | rerr
  | ck1 (sp : Bool) (code : UInt8) | ck2 (sp : Bool) (code : UInt8) | ck3 (sp : Bool) (code : UInt8)
  | ck4 (sp : Bool) (code : UInt8) | ckAll | ckResend (l : List Packet)
  | aDel (k : AckK) (id : UInt16) | aGet (k : AckK) (id : UInt16) | aFin (k : AckK) (id : UInt16) (h : Nat)
  | pubCb (m : Message) (dup : Bool) (id : UInt16) | pubAck (id : UInt16)
  | pubSave (m : Message) (dup : Bool) (id : UInt16) | pubRec (id : UInt16)
  | recSave (id : UInt16) | recSend (id : UInt16)
  | relLook (id : UInt16) | relState (id : UInt16) | relCb (m : Message) (id : UInt16)
  | relDel (id : UInt16) (thenSend : Bool) | relSend (id : UInt16) (thenDel : Bool)
  | die (d : Die)
  | exited (cleanly : Bool)               -- false: returned an error without `die()`
  deriving DecidableEq, Repr

inductive Ping where
  | notStarted | run | die (d : Die) | exited
  deriving DecidableEq, Repr

inductive LookRes where
  | fail | found (p : Option Packet)
  deriving DecidableEq, Repr

inductive Label where
  | aConnect (cp : Packet) (early validate keepAlive : Bool)
  | dial (ok : Bool)
  | aReq (r : Req)
  | aDisconnect (await : Bool) | aClose
  | aRet (k : RetK)
  | sNextID (id : UInt16)
  | sSave (t : Th) (d : Direction) (p : Packet) (ok : Bool)
  | sLookup (d : Direction) (id : UInt16) (r : LookRes)
  | sDel (t : Th) (d : Direction) (id : UInt16) (ok : Bool)
  | sAll (ok : Bool)
  | sReset (t : Th) (ok : Bool)
  | send (t : Th) (p : Packet) (ok : Bool)
  | close (t : Th) (ok : Bool)
  | recv (p : Packet)
  | recvErr
  | cb (m : Message) (ok : Bool)
  | cbErr (t : Th)
  | kMissing
  | tau (t : Th)
  | newClient
  deriving DecidableEq, Repr

deriving instance DecidableEq for PacketStore
deriving instance DecidableEq for MemorySession

structure St where
  state : CS := .initialized
  sess : MemorySession := {}
  futs : List FSt := []                  -- every future ever created; handle = index
  fstore : List (UInt16 × Nat) := []     -- the future store: packet id ↦ handle
  cfut : Option Nat := none              -- `connectFuture`
  tombStarted : Bool := false
  tombDying : Bool := false
  finishClaimed : Bool := false          -- `finish.Do` entered
  finishDone : Bool := false             -- … and returned
  conn : Conn := .none
  clean : Bool := false
  early : Bool := false                  -- `AlwaysAnnounceOnPublish`
  validate : Bool := true                -- `ValidateSubs`
  keepAlive : Bool := false              -- a pinger is started
  pendEarly : Bool := false              -- values of the config handed to `Connect`
  pendKA : Bool := false
  cpkt : Packet := .disconnect           -- the CONNECT packet to send
  api : Api := .idle
  proc : Proc := .notStarted
  ping : Ping := .notStarted
  out : List (Packet × Bool) := []       -- ghost: packets handed to the connection, with result
  cbs : List Message := []               -- ghost: messages the application accepted
  rets : List Nat := []                  -- ghost: handles of the futures returned to callers, in order
  deriving DecidableEq, Repr

namespace St

/-! ### futures -/

/-- `future.New()`: the new future's handle is `s.futs.length` -/
def addFut (s : St) : St := { s with futs := s.futs ++ [.pending] }

/-- `Complete` / `Cancel` on future `h`: only the first resolution counts -/
def resolveF : List FSt → Nat → FSt → List FSt
  | [], _, _ => []
  | .pending :: t, 0, v => v :: t
  | x :: t, 0, _ => x :: t
  | x :: t, n + 1, v => x :: resolveF t n v

def resolve (s : St) (h : Nat) (v : FSt) : St := { s with futs := resolveF s.futs h v }

def storeGet (s : St) (id : UInt16) : Option Nat := (s.fstore.find? (·.1 == id)).map (·.2)
def storeDel (s : St) (id : UInt16) : St := { s with fstore := s.fstore.filter (·.1 != id) }
/-- cancel the future with handle `o`, if there is one -/
def cancelOpt (f : List FSt) (o : Option Nat) : List FSt :=
  match o with
  | some old => resolveF f old (.cancelled .nil)
  | none => f

/-- `Store.Put`: a future that is displaced (same id still in the store) is cancelled
    (`fix:` 62d967a) -/
def storePut (s : St) (id : UInt16) (h : Nat) : St :=
  { s with futs := cancelOpt s.futs (s.storeGet id), fstore := s.fstore.filter (·.1 != id) ++ [(id, h)] }

/-- `futureStore.Clear()`: every stored future is cancelled, the map is replaced -/
def clearF (store : List (UInt16 × Nat)) (futs : List FSt) : List FSt :=
  store.foldl (fun f e => resolveF f e.2 (.cancelled .nil)) futs

def storeClear (s : St) : St := { s with futs := clearF s.fstore s.futs, fstore := [] }

/-! ### cleanup -/

def afterSetState (s : St) (c : Cleanup) : Cleanup :=
  if c.closeConn then { c with stage := .closeConn }
  else if s.clean then { c with stage := .resetSess } else { c with stage := .clear }

def afterClose (s : St) (c : Cleanup) : Cleanup :=
  if s.clean then { c with stage := .resetSess } else { c with stage := .clear }

/-- one statement of `cleanup()` run by thread `t`; `none` as next stage = `cleanup` returned -/
def cleanStep (s : St) (t : Th) (c : Cleanup) (l : Label) : Option (St × Option Cleanup) :=
  match c.stage, l with
  | .cancelConn, .tau t' =>
    if t' ≠ t then none else
    let s := match s.cfut with
      | some h => if s.state.toNat < CS.connacked.toNat then s.resolve h (.cancelled .nil) else s
      | none => s
    some (s, some { c with stage := .setState })
  | .setState, .tau t' =>
    if t' ≠ t then none else
    let s := { s with state := .disconnected }
    some (s, some (afterSetState s c))
  | .closeConn, .close t' ok =>
    if t' ≠ t then none else
    -- `Close` of the scripted connection fails iff it was closed before
    if ok ≠ (s.conn == .opened) then none else
    let c := { c with err := c.err || (!ok && !c.possiblyClosed) }
    let s := { s with conn := .closed }
    some (s, some (afterClose s c))
  | .resetSess, .sReset t' ok =>
    if t' ≠ t then none else
    let s := if ok then { s with sess := s.sess.reset } else s
    some (s, some { c with stage := .clear, err := c.err || !ok })
  | .clear, .tau t' =>
    if t' ≠ t then none else some (s.storeClear, none)
  | _, _ => none

def startCleanup (closeConn possiblyClosed err : Bool) : Cleanup :=
  ⟨.cancelConn, closeConn, possiblyClosed, err⟩

/-! ### die -/

def mkDie (closeConn : Bool) (after : DAfter) : Die := ⟨.enter, closeConn, after⟩

/-- a step of `die()` run by thread `t`; result: new state and either the continuing `Die` or the
    continuation to take -/
def dieStep (s : St) (t : Th) (d : Die) (l : Label) : Option (St × (Die ⊕ DAfter)) :=
  match d.stage with
  | .enter =>
    if l ≠ .tau t then none else
    if s.finishClaimed then some (s, .inl { d with stage := .wait })
    else some ({ s with finishClaimed := true },
               .inl { d with stage := .clean (startCleanup d.closeConn false true) })
  | .clean c =>
    (match cleanStep s t c l with
     | some (s', some c') => some (s', .inl { d with stage := .clean c' })
     | some (s', none) => some (s', .inl { d with stage := .cb })
     | none => none)
  | .cb =>
    if l ≠ .cbErr t then none else some ({ s with finishDone := true }, .inr d.after)
  | .wait =>
    -- the second caller of `finish.Do` returns when the first one is through
    if l ≠ .tau t then none else
    if s.finishDone then some (s, .inr d.after) else none

/-- the tomb after a goroutine returned (`err`: with a non-nil error) -/
def goroutineExit (s : St) (err : Bool) (otherGone : Bool) : St :=
  { s with tombDying := s.tombDying || err || otherGone }

def pingGone (s : St) : Bool := s.ping == .notStarted || s.ping == .exited
def procGone (s : St) : Bool := match s.proc with | .exited _ => true | _ => false

def procExit (s : St) (cleanly : Bool) (err : Bool) : St :=
  goroutineExit { s with proc := .exited cleanly } err s.pingGone

def procAfter (s : St) (a : DAfter) : St :=
  match a with
  | .exit => s.procExit true true
  | .cont => { s with proc := .recv false }
  | .contCancel sp code =>
    let s := match s.cfut with
      | some h => s.resolve h (.cancelled (.connack sp code))
      | none => s
    { s with proc := .recv false }

def procDie (s : St) (closeConn : Bool) (after : DAfter := .exit) : St :=
  { s with proc := .die (mkDie closeConn after) }

/-- an error return of the processor that the found code does not route through `die()` -/
def procErr (fx : Fix) (s : St) : St :=
  if fx.f15 then s.procDie true else s.procExit false true

def sendLog (s : St) (p : Packet) (ok : Bool) : St := { s with out := s.out ++ [(p, ok)] }

/-- mark the stored object of a resent PUBLISH as duplicate (the loop mutates the stored packet) -/
def markDup (s : St) (id : UInt16) : St :=
  { s with sess := { s.sess with outgoing := ⟨s.sess.outgoing.entries.map (fun e =>
      if e.1 == id then (match e.2 with | .publish m _ i => (e.1, .publish m true i) | p => (e.1, p)) else e)⟩ } }

def dupOf : Packet → Packet
  | .publish m _ id => .publish m true id
  | p => p

/-! ### the processor goroutine -/

def stepProc (fx : Fix) (s : St) (l : Label) : Option St :=
  match s.proc with
  | .notStarted => none
  | .exited _ => none
  | .recv first =>
    (match l with
     | .recvErr => some { s with proc := .rerr }
     | .recv p =>
       if first then
         (match p with
          | .connack sp code => some { s with proc := .ck1 sp code }
          | _ => some (s.procDie true))
       else
         (match p with
          | .suback codes id => if id = 0 then none else some { s with proc := .aDel (.sub codes) id }
          | .unsuback id => if id = 0 then none else some { s with proc := .aDel .unsub id }
          | .puback id => if id = 0 then none else some { s with proc := .aDel .pub id }
          | .pubcomp id => if id = 0 then none else some { s with proc := .aDel .pub id }
          | .pubrec id => if id = 0 then none else some { s with proc := .recSave id }
          | .pubrel id => if id = 0 then none else some { s with proc := .relLook id }
          | .publish m dup id =>
            if m.qos.toNat > 2 then none
            else if m.qos = 0 ∧ id ≠ 0 then none
            else if m.qos ≠ 0 ∧ id = 0 then none
            else if m.qos.toNat ≤ 1 ∨ s.early then some { s with proc := .pubCb m dup id }
            else some { s with proc := .pubSave m dup id }
          | _ => some s)      -- PINGRESP and every other type: nothing shared is touched
     | _ => none)
  | .rerr =>
    if l ≠ .tau .proc then none else
    if s.state.toNat ≥ CS.disconnecting.toNat then some (s.procExit true false)
    else some (s.procDie false)
  -- processConnack
  | .ck1 sp code =>
    if l ≠ .tau .proc then none else
    if s.state ≠ .connecting then some { s with proc := .recv false }
    else some { s with proc := .ck2 sp code }
  | .ck2 sp code =>
    if l ≠ .tau .proc then none else
    let s := { s with state := .connacked }
    if code ≠ 0 then some (s.procDie true (.contCancel sp code))
    else some { s with proc := .ck3 sp code }
  | .ck3 sp code =>
    if l ≠ .tau .proc then none else some { s with state := .connected, proc := .ck4 sp code }
  | .ck4 sp code =>
    if l ≠ .tau .proc then none else
    let s := match s.cfut with
      | some h => s.resolve h (.completed (.connack sp code))
      | none => s
    some { s with proc := .ckAll }
  | .ckAll =>
    (match l with
     | .sAll true => some { s with proc := .ckResend (s.sess.allPackets .outgoing) }
     | .sAll false => some (s.procDie true .cont)
     | _ => none)
  | .ckResend [] =>
    if l ≠ .tau .proc then none else some { s with proc := .recv false }
  | .ckResend (p :: rest) =>
    (match l with
     | .send .proc q ok =>
       if q ≠ dupOf p then none else
       let s := match p with | .publish _ _ id => s.markDup id | _ => s
       let s := s.sendLog q ok
       if ok then some { s with proc := .ckResend rest } else some (s.procDie false .cont)
     | _ => none)
  -- processSuback / processUnsuback / processPubackAndPubcomp
  | .aDel k id =>
    (match l with
     | .sDel .proc .outgoing id' ok =>
       if id' ≠ id then none else
       if ok then some { s with sess := s.sess.deletePacket .outgoing id, proc := .aGet k id }
       else some (procErr fx s)
     | _ => none)
  | .aGet k id =>
    if l ≠ .tau .proc then none else
    (match s.storeGet id with
     | some h => some { s with proc := .aFin k id h }
     | none => some { s with proc := .recv false })
  | .aFin k id h =>
    if l ≠ .tau .proc then none else
    let s := s.storeDel id
    (match k with
     | .sub codes =>
       if s.validate ∧ codes.contains 0x80 then
         some (procErr fx (s.resolve h (.cancelled .nil)))
       else some { s.resolve h (.completed (.suback codes)) with proc := .recv false }
     | _ => some { s.resolve h (.completed .nil) with proc := .recv false })
  -- processPublish
  | .pubCb m dup id =>
    (match l with
     | .cb m' ok =>
       if m' ≠ m then none else
       if !ok then some (s.procDie true) else
       let s := { s with cbs := s.cbs ++ [m] }
       if m.qos = 1 then some { s with proc := .pubAck id }
       else if m.qos = 2 then some { s with proc := .pubSave m dup id }
       else some { s with proc := .recv false }
     | _ => none)
  | .pubAck id =>
    (match l with
     | .send .proc q ok =>
       if q ≠ .puback id then none else
       let s := s.sendLog q ok
       if ok then some { s with proc := .recv false } else some (s.procDie false)
     | _ => none)
  | .pubSave m dup id =>
    (match l with
     | .sSave .proc .incoming q ok =>
       if q ≠ .publish m dup id then none else
       if ok then some { s with sess := s.sess.savePacket .incoming q, proc := .pubRec id }
       else some (s.procDie true)
     | _ => none)
  | .pubRec id =>
    (match l with
     | .send .proc q ok =>
       if q ≠ .pubrec id then none else
       let s := s.sendLog q ok
       if ok then some { s with proc := .recv false } else some (s.procDie false)
     | _ => none)
  -- processPubrec
  | .recSave id =>
    (match l with
     | .sSave .proc .outgoing q ok =>
       if q ≠ .pubrel id then none else
       if ok then some { s with sess := s.sess.savePacket .outgoing q, proc := .recSend id }
       else some (s.procDie true)
     | _ => none)
  | .recSend id =>
    (match l with
     | .send .proc q ok =>
       if q ≠ .pubrel id then none else
       let s := s.sendLog q ok
       if ok then some { s with proc := .recv false } else some (s.procDie false)
     | _ => none)
  -- processPubrel
  | .relLook id =>
    (match l with
     | .sLookup .incoming id' r =>
       if id' ≠ id then none else
       (match r with
        | .fail => some (s.procDie true)
        | .found o =>
          if o ≠ s.sess.lookupPacket .incoming id then none else
          (match o with
           | some (.publish m _ _) =>
             if s.early then
               (if fx.f10 then some { s with proc := .relDel id true }
                else some { s with proc := .relSend id true })
             else some { s with proc := .relCb m id }
           | _ =>
             -- not stored (or not a PUBLISH): ignored by the found code
             if fx.f10 then some { s with proc := .relState id }
             else some { s with proc := .recv false }))
     | _ => none)
  | .relState id =>
    if l ≠ .tau .proc then none else
    if s.state = .connected then some { s with proc := .relSend id false }
    else some { s with proc := .recv false }
  | .relCb m id =>
    (match l with
     | .cb m' ok =>
       if m' ≠ m then none else
       if !ok then some (s.procDie true) else
       let s := { s with cbs := s.cbs ++ [m] }
       if fx.f10 then some { s with proc := .relDel id true }
       else some { s with proc := .relSend id true }
     | _ => none)
  | .relDel id thenSend =>
    (match l with
     | .sDel .proc .incoming id' ok =>
       if id' ≠ id then none else
       if !ok then some (s.procDie true) else
       let s := { s with sess := s.sess.deletePacket .incoming id }
       if thenSend then some { s with proc := .relSend id false }
       else some { s with proc := .recv false }
     | _ => none)
  | .relSend id thenDel =>
    (match l with
     | .send .proc q ok =>
       if q ≠ .pubcomp id then none else
       let s := s.sendLog q ok
       if !ok then some (s.procDie false)
       else if thenDel then some { s with proc := .relDel id false }
       else some { s with proc := .recv false }
     | _ => none)
  | .die d =>
    (match dieStep s .proc d l with
     | some (s', .inl d') => some { s' with proc := .die d' }
     | some (s', .inr a) => some (s'.procAfter a)
     | none => none)

/-! ### the pinger goroutine (keep-alive timing abstracted) -/

def pingExit (s : St) : St := goroutineExit { s with ping := .exited } true s.procGone

def stepPing (s : St) (l : Label) : Option St :=
  match s.ping with
  | .notStarted => none
  | .exited => none
  | .run =>
    (match l with
     | .send .ping q ok =>
       if q ≠ .pingreq then none else
       let s := s.sendLog q ok
       if ok then some s else some { s with ping := .die (mkDie false .exit) }
     | .kMissing => some { s with ping := .die (mkDie true .exit) }
     | .tau .ping => if s.tombDying then some s.pingExit else none
     | _ => none)
  | .die d =>
    (match dieStep s .ping d l with
     | some (s', .inl d') => some { s' with ping := .die d' }
     | some (s', .inr _) => some s'.pingExit
     | none => none)

/-! ### the exported methods -/

def apiFail (s : St) (closeConn : Bool) : St :=
  { s with api := .clean (startCleanup closeConn false true) .ret }

def stepApi (fx : Fix) (s : St) (l : Label) : Option St :=
  match s.api with
  | .blocked => none
  | .idle =>
    (match l with
     | .aConnect cp early validate ka =>
       (match cp with
        | .connect .. =>
          -- `c.config = config` happens before anything can fail; the flags are used later
          some { s with cpkt := cp, pendEarly := early, validate := validate, pendKA := ka, api := .cChk }
        | _ => none)
     | .aReq r => some { s with api := .rChk r }
     | .aDisconnect aw => some { s with api := .dChk aw }
     | .aClose => some { s with api := .xChk }
     | _ => none)
  | .cChk =>
    if l ≠ .tau .api then none else
    if s.state.toNat ≥ CS.connecting.toNat then some { s with api := .ret .errAlready }
    else some { s with api := .cDial }
  | .cDial =>
    (match l with
     | .dial false => some { s with api := .ret .errDial }
     | .dial true =>
       let clean := match s.cpkt with | .connect _ _ _ _ c _ _ => c | _ => false
       some { s with state := .connecting, conn := .opened, clean := clean, early := s.pendEarly,
                     keepAlive := s.pendKA, api := if clean then .cReset else .cFut }
     | _ => none)
  | .rChk r =>
    if l ≠ .tau .api then none else
    if s.state ≠ .connected then some { s with api := .ret .errNotConnected }
    else if r.needsID then some { s with api := .rID r 65535 } else some { s with api := .rPut r 0 }
  | .dChk aw =>
    if l ≠ .tau .api then none else
    if s.state ≠ .connected then some { s with api := .ret .errNotConnected }
    else some { s with api := if aw then .dAwait else .dSet }
  | .dAwait =>
    -- `futureStore.Await(timeout)`: returns when the store is empty, a future was cancelled, or
    -- the timeout expired — i.e. at any time
    if l ≠ .tau .api then none else some { s with api := .dSet }
  | .xChk =>
    if l ≠ .tau .api then none else
    if s.state.toNat < CS.connecting.toNat then some { s with api := .ret .errNotConnected }
    else some { s with api := .clean (startCleanup true false false) .endKill }
  -- Connect
  | .cReset =>
    (match l with
     | .sReset .api true => some { s with sess := s.sess.reset, api := .cFut }
     | .sReset .api false => some (s.apiFail true)
     | _ => none)
  | .cFut =>
    if l ≠ .tau .api then none else
    some { s.addFut with cfut := some s.futs.length, api := .cSend }
  | .cSend =>
    (match l with
     | .send .api q ok =>
       if q ≠ s.cpkt then none else
       let s := s.sendLog q ok
       if ok then some { s with api := .cGo } else some (s.apiFail false)
     | _ => none)
  | .cGo =>
    if l ≠ .tau .api then none else
    (match s.cfut with
     | some h =>
       some { s with tombStarted := true, proc := .recv true,
                     ping := if s.keepAlive then .run else .notStarted, api := .ret (.fut h) }
     | none => none)
  -- Publish / Subscribe / Unsubscribe
  -- `Client.nextID()`: `for i := 0; i < 65535; i++ { id := NextID(); pkt, err := LookupPacket(Outgoing, id); … }`
  | .rID r n =>
    (match l with
     | .sNextID id =>
       if id ≠ s.sess.nextID.1 then none else some { s with sess := s.sess.nextID.2, api := .rLook r id n }
     | _ => none)
  | .rLook r id n =>
    (match l with
     | .sLookup .outgoing id' res =>
       if id' ≠ id then none else
       (match res with
        | .fail => some (s.apiFail true)                       -- `return 0, c.cleanup(err, true, false)`
        | .found o =>
          if o ≠ s.sess.lookupPacket .outgoing id then none else
          (match o with
           | none => some { s with api := .rPut r id }         -- the id is not in use
           | some _ =>
             -- still in use: next iteration, or `ErrPacketIDsExhausted` (no cleanup) after the last one
             if n ≤ 1 then some { s with api := .ret .errExhausted } else some { s with api := .rID r (n - 1) }))
     | _ => none)
  | .rPut r id =>
    if l ≠ .tau .api then none else
    let h := s.futs.length
    if fx.f14 then some { s.addFut.storePut id h with api := .rCheck r id h }
    else if r.stored then some { s.addFut.storePut id h with api := .rSave r id h }
    else some { s.addFut.storePut id h with api := .rSend r id h }
  | .rCheck r id h =>
    if l ≠ .tau .api then none else
    if s.state ≠ .connected then
      some { (s.storeDel id).resolve h (.cancelled .nil) with api := .ret .errNotConnected }
    else if r.stored then some { s with api := .rSave r id h } else some { s with api := .rSend r id h }
  | .rSave r id h =>
    (match l with
     | .sSave .api .outgoing q ok =>
       if q ≠ r.pkt id then none else
       if ok then some { s with sess := s.sess.savePacket .outgoing q, api := .rSend r id h }
       else some (s.apiFail true)
     | _ => none)
  | .rSend r id h =>
    (match l with
     | .send .api q ok =>
       if q ≠ r.pkt id then none else
       let s := s.sendLog q ok
       if !ok then some (s.apiFail false)
       else if r.needsID then some { s with api := .ret (.fut h) } else some { s with api := .rDone r id h }
     | _ => none)
  | .rDone _ id h =>
    if l ≠ .tau .api then none else
    some { (s.resolve h (.completed .nil)).storeDel id with api := .ret (.fut h) }
  -- Disconnect
  | .dSet =>
    if l ≠ .tau .api then none else some { s with state := .disconnecting, api := .dSend }
  | .dSend =>
    (match l with
     | .send .api q ok =>
       if q ≠ .disconnect then none else
       let s := s.sendLog q ok
       some { s with api := .clean (startCleanup true true (!ok)) .endKill }
     | _ => none)
  | .clean c k =>
    (match cleanStep s .api c l with
     | some (s', some c') => some { s' with api := .clean c' k }
     | some (s', none) =>
       (match k with
        | .ret => some { s' with api := .ret .err }
        | .endKill => some { s' with api := .kill c.err })
     | none => none)
  | .kill err =>
    if l ≠ .tau .api then none else some { s with tombDying := true, api := .wait err }
  | .wait err =>
    if l ≠ .tau .api then none else
    let v : RetV := if err then .err else .ok
    if s.tombStarted then
      (if s.procGone ∧ s.pingGone then some { s with api := .ret v } else none)
    else if fx.f9 then some { s with api := .ret v }
    else some { s with api := .blocked }            -- `tomb.Wait` never returns
  | .ret v =>
    (match l with
     | .aRet k =>
       if k ≠ v.kind then none else
       (match v with
        | .fut h => some { s with api := .idle, rets := s.rets ++ [h] }
        | _ => some { s with api := .idle })
     | _ => none)

/-- no goroutine of this client is running and no call is in progress -/
def threadsDone (s : St) : Bool :=
  (s.api == .idle || s.api == .blocked) && (s.proc == .notStarted || s.procGone) && s.pingGone

/-- a fresh `client.New()` that is given the same session object -/
def renew (s : St) : St := { sess := s.sess, out := s.out, cbs := s.cbs, futs := s.futs, rets := s.rets }

def threadOf : Label → Option Th
  | .aConnect .. | .dial _ | .aReq _ | .aDisconnect _ | .aClose | .aRet _ | .sNextID _ => some .api
  | .sSave t .. | .sDel t .. | .sReset t _ | .send t .. | .close t _ | .cbErr t | .tau t => some t
  -- the outgoing store is looked up by the exported methods only (`Client.nextID`), the incoming
  -- store by the processor only (`processPubrel`)
  | .sLookup .outgoing _ _ => some .api
  | .sLookup .incoming _ _ | .sAll _ | .recv _ | .recvErr | .cb .. => some .proc
  | .kMissing => some .ping
  | .newClient => none

end St

/-- the transition function -/
def step (fx : Fix) (s : St) (l : Label) : Option St :=
  match St.threadOf l with
  | some .api => s.stepApi fx l
  | some .proc => s.stepProc fx l
  | some .ping => s.stepPing l
  | none => if s.threadsDone then some s.renew else none

def run (fx : Fix) : St → List Label → Option St
  | s, [] => some s
  | s, l :: ls => match step fx s l with
    | some s' => run fx s' ls
    | none => none

/-- states reachable from a fresh client with a fresh session -/
inductive Reach (fx : Fix) : St → Prop where
  | init : Reach fx {}
  | step {s s' : St} (l : Label) : Reach fx s → step fx s l = some s' → Reach fx s'

/-! ### acceptor support: hidden closure, quiescence -/

def hiddenLabels : List Label := [.tau .api, .tau .proc, .tau .ping, .kMissing]

/-- all states reachable through hidden steps only (each thread's hidden progress is bounded, so
    `fuel` = 64 rounds is far more than ever needed) -/
def closure (fx : Fix) (fuel : Nat) (front acc : List St) : List St :=
  match fuel with
  | 0 => acc
  | fuel + 1 =>
    let next := front.flatMap (fun s => hiddenLabels.filterMap (step fx s))
    let fresh := next.foldl (fun (a : List St) s => if acc.contains s || a.contains s then a else a ++ [s]) []
    if fresh.isEmpty then acc else closure fx fuel fresh (acc ++ fresh)

def closureOf (fx : Fix) (ss : List St) : List St :=
  let ss := ss.foldl (fun (a : List St) s => if a.contains s then a else a ++ [s]) []
  closure fx 64 ss ss

/-- does thread `t` wait for its environment (a packet, a call, another goroutine)? -/
def blockedThread (fx : Fix) (s : St) (t : Th) : Bool :=
  match t with
  | .api => (s.api == .idle || s.api == .blocked || (s.api == .dAwait && !s.fstore.isEmpty) ||
             (match s.api with | .wait _ => (step fx s (.tau .api)).isNone | _ => false))
  | .proc => (match s.proc with
              | .notStarted | .recv _ | .exited _ => true
              | .die d => d.stage == .wait && !s.finishDone
              | _ => false)
  | .ping => (match s.ping with
              | .notStarted | .exited => true
              | .run => !s.tombDying
              | .die d => d.stage == .wait && !s.finishDone)

end Cl

