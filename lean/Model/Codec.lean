import Model.Varint
/-
  Model/Codec.lean — packet/*.go : the 14 packet types, `Len`, `Encode`, `Decode`.

  Follows the Go code statement by statement (same order of checks, same early returns).
  * A packet value is immutable here; `Connect.Encode`'s in-place `Version 0 ⇒ 4` shows up as
    `Packet.norm`.
  * `encode` models `Encode(dst)` for `len(dst) ≥ Len()` (what `Encoder.Write` supplies);
    `encodeInto` adds the up-front buffer check of `encodeHeader`.
  * `decode` models `Decode(src)` on a freshly constructed packet (`Type.New()`), which is how
    `Decoder.Read` and every caller in the repository use it.
-/

structure Message where
  topic : Bytes
  payload : Bytes
  qos : UInt8
  retain : Bool
  deriving DecidableEq, Repr, Inhabited

structure Subscription where
  topic : Bytes
  qos : UInt8
  deriving DecidableEq, Repr, Inhabited

inductive PType where
  | connect | connack | publish | puback | pubrec | pubrel | pubcomp
  | subscribe | suback | unsubscribe | unsuback | pingreq | pingresp | disconnect
  deriving DecidableEq, Repr, Inhabited

namespace PType
def code : PType → Nat
  | connect => 1 | connack => 2 | publish => 3 | puback => 4 | pubrec => 5 | pubrel => 6
  | pubcomp => 7 | subscribe => 8 | suback => 9 | unsubscribe => 10 | unsuback => 11
  | pingreq => 12 | pingresp => 13 | disconnect => 14

def all : List PType := [connect, connack, publish, puback, pubrec, pubrel, pubcomp,
  subscribe, suback, unsubscribe, unsuback, pingreq, pingresp, disconnect]

/-- `Type.New()` succeeds exactly for codes 1..14 -/
def ofCode? (n : Nat) : Option PType := all.find? (fun t => t.code == n)

/-- `Type.defaultFlags` -/
def defaultFlags : PType → Nat
  | pubrel => 2 | subscribe => 2 | unsubscribe => 2 | _ => 0
end PType

inductive Packet where
  | connect (clientID : Bytes) (keepAlive : UInt16) (username password : Bytes)
      (clean : Bool) (will : Option Message) (version : UInt8)
  | connack (sessionPresent : Bool) (code : UInt8)
  | publish (msg : Message) (dup : Bool) (id : UInt16)
  | puback (id : UInt16)
  | pubrec (id : UInt16)
  | pubrel (id : UInt16)
  | pubcomp (id : UInt16)
  | subscribe (subs : List Subscription) (id : UInt16)
  | suback (codes : List UInt8) (id : UInt16)
  | unsubscribe (topics : List Bytes) (id : UInt16)
  | unsuback (id : UInt16)
  | pingreq
  | pingresp
  | disconnect
  deriving DecidableEq, Repr, Inhabited

namespace Packet

def type : Packet → PType
  | connect .. => .connect | connack .. => .connack | publish .. => .publish
  | puback _ => .puback | pubrec _ => .pubrec | pubrel _ => .pubrel | pubcomp _ => .pubcomp
  | subscribe .. => .subscribe | suback .. => .suback | unsubscribe .. => .unsubscribe
  | unsuback _ => .unsuback | pingreq => .pingreq | pingresp => .pingresp
  | disconnect => .disconnect

/-- `GetID` -/
def getID : Packet → Option UInt16
  | publish _ _ id => some id
  | puback id => some id | pubrec id => some id | pubrel id => some id | pubcomp id => some id
  | subscribe _ id => some id | suback _ id => some id | unsubscribe _ id => some id
  | unsuback id => some id
  | _ => none

/-- what `Encode` leaves behind in the packet value (CONNECT: version 0 becomes 4) -/
def norm : Packet → Packet
  | connect c k u p cl w v => connect c k u p cl w (if v = 0 then 4 else v)
  | p => p

def subsLen : List Subscription → Nat
  | [] => 0
  | s :: ss => 2 + s.topic.length + 1 + subsLen ss

def topicsLen : List Bytes → Nat
  | [] => 0
  | t :: ts => 2 + t.length + topicsLen ts

/-- the unexported `len()` : remaining length -/
def rlen : Packet → Nat
  | connect c _ u p _ w v =>
      (if v = 3 then 2 + 6 + 1 else 2 + 4 + 1) + (1 + 2) + (2 + c.length)
      + (match w with | some m => 2 + m.topic.length + 2 + m.payload.length | none => 0)
      + (if u.length > 0 then 2 + u.length else 0)
      + (if p.length > 0 then 2 + p.length else 0)
  | connack .. => 2
  | publish m _ _ => 2 + m.topic.length + m.payload.length + (if m.qos ≠ 0 then 2 else 0)
  | puback _ => 2 | pubrec _ => 2 | pubrel _ => 2 | pubcomp _ => 2 | unsuback _ => 2
  | subscribe ss _ => 2 + subsLen ss
  | suback cs _ => 2 + cs.length
  | unsubscribe ts _ => 2 + topicsLen ts
  | pingreq => 0 | pingresp => 0 | disconnect => 0

/-- `headerLen` -/
def headerLen (rl : Nat) : Nat := 1 + varintLen rl

/-- exported `Len()` -/
def len (p : Packet) : Nat := headerLen p.rlen + p.rlen

end Packet

def qosOK (q : UInt8) : Bool := q == 0 || q == 1 || q == 2        -- `QOS.Successful`
def subackCodeOK (q : UInt8) : Bool := qosOK q || q == 0x80

/-! ### encoding -/

/-- `encodeHeader` (after its buffer check): type/flags byte and remaining length. -/
def encodeHeader (t : PType) (flags : Nat) (rl : Nat) : GoM Bytes :=
  if rl > maxVarint then .error .err
  else .ok (UInt8.ofNat (t.code * 16 + (t.defaultFlags + flags)) :: putUvarint rl)

/-- `writeLPBytes` -/
def writeLP (b : Bytes) : GoM Bytes :=
  if b.length > 65535 then .error .err else .ok (be16 b.length ++ b)

def encSubs : List Subscription → GoM Bytes
  | [] => .ok []
  | s :: ss => do
    let t ← writeLP s.topic
    if !qosOK s.qos then .error .err
    let r ← encSubs ss
    pure (t ++ [s.qos] ++ r)

def encCodes : List UInt8 → GoM Bytes
  | [] => .ok []
  | c :: cs => do
    if !subackCodeOK c then .error .err
    let r ← encCodes cs
    pure (c :: r)

def encTopics : List Bytes → GoM Bytes
  | [] => .ok []
  | t :: ts => do
    let a ← writeLP t
    let r ← encTopics ts
    pure (a ++ r)

def versionName (v : UInt8) : Bytes :=
  if v = 3 then "MQIsdp".toUTF8.toList else if v = 4 then "MQTT".toUTF8.toList else []

def connectFlags (u p : Bytes) (clean : Bool) (w : Option Message) : Nat :=
  (if u.length > 0 then 128 else 0) + (if p.length > 0 then 64 else 0)
  + (match w with
     | some m => 4 + m.qos.toNat * 8 + (if m.retain then 32 else 0)
     | none => 0)
  + (if clean then 2 else 0)

def encodeIdentified (t : PType) (id : UInt16) : GoM Bytes := do
  if id = 0 then .error .err
  let h ← encodeHeader t 0 2
  pure (h ++ be16 id.toNat)

/-- `Encode(dst)` with `len(dst) ≥ Len()` -/
def encode (pkt : Packet) : GoM Bytes :=
  match pkt with
  | .connect c ka u p clean w v => do
    let h ← encodeHeader .connect 0 pkt.rlen
    let v := if v = 0 then 4 else v
    if v ≠ 4 ∧ v ≠ 3 then .error .err
    let name ← writeLP (versionName v)
    match w with
      | some m => (if m.topic.length = 0 then .error .err else if !qosOK m.qos then .error .err else pure ())
      | none => pure ()
    if c.length = 0 ∧ !clean then .error .err
    let cid ← writeLP c
    let wb ← (match w with
      | some m => do
        let t ← writeLP m.topic
        let pl ← writeLP m.payload
        pure (t ++ pl)
      | none => pure [])
    if u.length = 0 ∧ p.length > 0 then .error .err
    let ub ← (if u.length > 0 then writeLP u else pure [])
    let pb ← (if p.length > 0 then writeLP p else pure [])
    pure (h ++ name ++ [v] ++ [UInt8.ofNat (connectFlags u p clean w)] ++ be16 ka.toNat ++ cid ++ wb ++ ub ++ pb)
  | .connack sp code => do
    let h ← encodeHeader .connack 0 2
    if code > 5 then .error .err
    pure (h ++ [if sp then 1 else 0] ++ [code])
  | .publish m dup id => do
    if m.topic.length = 0 then .error .err
    if !qosOK m.qos then .error .err
    if m.qos > 0 ∧ id = 0 then .error .err
    let flags := (if dup then 8 else 0) + (if m.retain then 1 else 0) + m.qos.toNat * 2
    let h ← encodeHeader .publish flags pkt.rlen
    let t ← writeLP m.topic
    pure (h ++ t ++ (if m.qos ≠ 0 then be16 id.toNat else []) ++ m.payload)
  | .puback id => encodeIdentified .puback id
  | .pubrec id => encodeIdentified .pubrec id
  | .pubrel id => encodeIdentified .pubrel id
  | .pubcomp id => encodeIdentified .pubcomp id
  | .unsuback id => encodeIdentified .unsuback id
  | .subscribe ss id => do
    if id = 0 then .error .err
    let h ← encodeHeader .subscribe 0 pkt.rlen
    let b ← encSubs ss
    pure (h ++ be16 id.toNat ++ b)
  | .suback cs id => do
    let h ← encodeHeader .suback 0 pkt.rlen
    if id = 0 then .error .err
    let b ← encCodes cs
    pure (h ++ be16 id.toNat ++ b)
  | .unsubscribe ts id => do
    let h ← encodeHeader .unsubscribe 0 pkt.rlen
    if id = 0 then .error .err
    let b ← encTopics ts
    pure (h ++ be16 id.toNat ++ b)
  | .pingreq => encodeHeader .pingreq 0 0
  | .pingresp => encodeHeader .pingresp 0 0
  | .disconnect => encodeHeader .disconnect 0 0

/-- `Encode(dst)` for a buffer of `cap` bytes: `encodeHeader` refuses a buffer shorter than the
    header or than `Len()`; what is written occupies a prefix of `dst`. -/
def encodeInto (cap : Nat) (pkt : Packet) : GoM Bytes :=
  match pkt with
  | .publish m _ id =>
    -- PUBLISH checks its fields before the header
    if m.topic.length = 0 ∨ !qosOK m.qos ∨ (m.qos > 0 ∧ id = 0) then .error .err
    else if cap < Packet.headerLen pkt.rlen ∨ cap < pkt.len then .error .err else encode pkt
  | _ => if cap < Packet.headerLen pkt.rlen ∨ cap < pkt.len then .error .err else encode pkt

/-! ### decoding -/

def Rd.getLen : Rd Nat := fun bs => .ok bs.length bs

def readU8 : Rd UInt8 := fun bs =>
  match bs with
  | b :: rest => .ok b rest
  | [] => .err .err bs

/-- `readUint(buf, 2)` -/
def readU16 : Rd Nat := fun bs =>
  match bs with
  | a :: b :: rest => .ok (a.toNat * 256 + b.toNat) rest
  | _ => .err .err bs

/-- `readLPBytes`: on a short body the two length bytes count as consumed -/
def readLP : Rd Bytes := fun bs =>
  match readU16 bs with
  | .err e r => .err e r
  | .ok l rest => if rest.length < l then .err .err rest else .ok (rest.take l) (rest.drop l)

/-- `decodeHeader`: yields `(flags, remaining length)`; the rest starts after the header. -/
def decodeHeader (t : PType) : Rd (Nat × Nat) := fun src =>
  match src with
  | [] => .err .err src
  | [_] => .err .err src
  | b0 :: tl =>
    if b0.toNat / 16 ≠ t.code then .err .err tl
    else if t ≠ .publish ∧ b0.toNat % 16 ≠ t.defaultFlags then .err .err tl
    else match readVarint tl with
      | .err e r => .err e r
      | .ok rl rest => if rl > rest.length then .err .err rest else .ok (b0.toNat % 16, rl) rest

/-- `src = src[:hl+rl]` expressed on the unread rest: keep `rl` bytes (a computed slice bound). -/
def Rd.limit (rl : Nat) : Rd Bytes := fun bs =>
  match slice? bs 0 rl with
  | .ok body => .ok (bs.drop rl) body      -- result: the bytes after the packet; continue on `body`
  | .error e => .err e bs

def decodeIdentified (t : PType) (mk : UInt16 → Packet) : Rd Packet := do
  let (_, rl) ← decodeHeader t
  if rl ≠ 2 then Rd.fail
  let pid ← readU16
  if pid = 0 then Rd.fail
  pure (mk (UInt16.ofNat pid))

def decodeNaked (t : PType) (p : Packet) : Rd Packet := do
  let (_, rl) ← decodeHeader t
  if rl ≠ 0 then Rd.fail
  pure p

theorem readLP_ok_length {buf t rest : Bytes} (h : readLP buf = .ok t rest) :
    rest.length + 2 + t.length = buf.length := by
  unfold readLP readU16 at h
  match buf, h with
  | [], h => simp at h
  | [_], h => simp at h
  | a :: b :: r, h =>
    simp only at h
    split at h
    · cases h
    · cases h
      simp [List.length_take, List.length_drop] at *
      omega

/-- the SUBSCRIBE loop `for sl > 0 { … sl -= 2 + len(topic) + 1 }` -/
def decSubs (sl : Int) (buf : Bytes) (acc : List Subscription) : R (List Subscription) :=
  if sl ≤ 0 then .ok acc.reverse buf else
  match h : readLP buf with
  | .err e r => .err e r
  | .ok topic rest =>
    match rest with
    | [] => .err .err rest
    | q :: rest' =>
      if !qosOK q then .err .err rest'
      else decSubs (sl - (2 + topic.length + 1)) rest' (⟨topic, q⟩ :: acc)
termination_by buf.length
decreasing_by
  have := readLP_ok_length h
  simp at this ⊢
  omega

/-- the UNSUBSCRIBE loop `for tl > 0 { … tl -= n }` -/
def decTopics (tl : Int) (buf : Bytes) (acc : List Bytes) : R (List Bytes) :=
  if tl ≤ 0 then .ok acc.reverse buf else
  match h : readLP buf with
  | .err e r => .err e r
  | .ok topic rest => decTopics (tl - (2 + topic.length)) rest (topic :: acc)
termination_by buf.length
decreasing_by
  have := readLP_ok_length h
  simp at this ⊢
  omega

/-- the SUBACK loop `for i := 0; i < rcl; i++` -/
def decCodes : Nat → Bytes → List UInt8 → R (List UInt8)
  | 0, buf, acc => .ok acc.reverse buf
  | n + 1, buf, acc =>
    match buf with
    | [] => .err .err buf
    | c :: rest => if !subackCodeOK c then .err .err rest else decCodes n rest (c :: acc)

/-- run `m` on the first `rl` bytes only (Go: `src = src[:hl+rl]`); the reported rest is what `m`
    left of those bytes followed by everything after the packet. -/
def Rd.within (rl : Nat) (m : Rd α) : Rd α := fun bs =>
  match slice? bs 0 rl with
  | .error e => .err e bs
  | .ok body =>
    match m body with
    | .ok a r => .ok a (r ++ bs.drop rl)
    | .err e r => .err e (r ++ bs.drop rl)

def decodeConnect : Rd Packet := do
  let _ ← decodeHeader .connect
  let protoName ← readLP
  let version ← readU8
  if version ≠ 4 ∧ version ≠ 3 then Rd.fail
  if protoName ≠ versionName version then Rd.fail
  let cf ← readU8
  let cf := cf.toNat
  let usernameFlag := (cf / 128) % 2 == 1
  let passwordFlag := (cf / 64) % 2 == 1
  let willFlag := (cf / 4) % 2 == 1
  let willRetain := (cf / 32) % 2 == 1
  let willQOS := (cf / 8) % 4
  let clean := (cf / 2) % 2 == 1
  if cf % 2 ≠ 0 then Rd.fail
  if willQOS > 2 then Rd.fail
  if !willFlag ∧ (willRetain ∨ willQOS ≠ 0) then Rd.fail
  if !usernameFlag ∧ passwordFlag then Rd.fail
  let ka ← readU16
  let cid ← readLP
  if cid.length = 0 ∧ !clean then Rd.fail
  let will ← (if willFlag then do
      let t ← readLP
      if t.length = 0 then Rd.fail
      let pl ← readLP
      pure (some (Message.mk t pl (UInt8.ofNat willQOS) willRetain))
    else pure none)
  let user ← (if usernameFlag then readLP else pure [])
  let pass ← (if passwordFlag then readLP else pure [])
  pure (.connect cid (UInt16.ofNat ka) user pass clean will version)

def decodeConnack : Rd Packet := do
  let (_, rl) ← decodeHeader .connack
  if rl ≠ 2 then Rd.fail
  let fl ← readU8
  if fl.toNat / 2 ≠ 0 then Rd.fail
  let rc ← readU8
  if rc > 5 then Rd.fail
  pure (.connack (fl.toNat % 2 == 1) rc)

def decodePublishBody (flags rl : Nat) : Rd Packet := do
  let dup := (flags / 8) % 2 == 1
  let retain := flags % 2 == 1
  let qos := (flags / 2) % 4
  if qos > 2 then Rd.fail
  let topic ← readLP
  if topic.length = 0 then Rd.fail
  let id ← (if qos ≠ 0 then do
      let pid ← readU16
      if pid = 0 then Rd.fail
      pure pid
    else pure 0)
  -- `l := rl - (total - hl)`; inside `within rl` that is exactly what is left
  let l ← Rd.getLen
  let payload ← (fun bs => match slice? bs 0 l with
      | .ok pl => R.ok pl (bs.drop l)
      | .error e => R.err e bs)
  let _ := rl
  pure (.publish ⟨topic, payload, UInt8.ofNat qos, retain⟩ dup (UInt16.ofNat id))

def decodePublish : Rd Packet := do
  let (flags, rl) ← decodeHeader .publish
  Rd.within rl (decodePublishBody flags rl)

def decodeSubscribe : Rd Packet := do
  let (_, rl) ← decodeHeader .subscribe
  Rd.within rl (do
    let pid ← readU16
    if pid = 0 then Rd.fail
    let subs ← (fun bs => decSubs ((rl : Int) - 2) bs [])
    if subs.length = 0 then Rd.fail
    pure (.subscribe subs (UInt16.ofNat pid)))

def decodeSuback : Rd Packet := do
  let (_, rl) ← decodeHeader .suback
  let pid ← readU16
  if pid = 0 then Rd.fail
  if (rl : Int) - 2 < 1 then Rd.fail
  let codes ← (fun bs => decCodes (rl - 2) bs [])
  pure (.suback codes (UInt16.ofNat pid))

def decodeUnsubscribe : Rd Packet := do
  let (_, rl) ← decodeHeader .unsubscribe
  Rd.within rl (do
    let pid ← readU16
    if pid = 0 then Rd.fail
    let ts ← (fun bs => decTopics ((rl : Int) - 2) bs [])
    if ts.length = 0 then Rd.fail
    pure (.unsubscribe ts (UInt16.ofNat pid)))

/-- `t.New()` followed by `Decode(src)` -/
def decode (t : PType) : Rd Packet :=
  match t with
  | .connect => decodeConnect
  | .connack => decodeConnack
  | .publish => decodePublish
  | .puback => decodeIdentified .puback .puback
  | .pubrec => decodeIdentified .pubrec .pubrec
  | .pubrel => decodeIdentified .pubrel .pubrel
  | .pubcomp => decodeIdentified .pubcomp .pubcomp
  | .subscribe => decodeSubscribe
  | .suback => decodeSuback
  | .unsubscribe => decodeUnsubscribe
  | .unsuback => decodeIdentified .unsuback .unsuback
  | .pingreq => decodeNaked .pingreq .pingreq
  | .pingresp => decodeNaked .pingresp .pingresp
  | .disconnect => decodeNaked .disconnect .disconnect

/-- bytes reported as consumed -/
def consumed (src : Bytes) (r : R α) : Nat := src.length - r.rest.length

/-! ### well-formedness: exactly the packets that `Encode` followed by `Decode` accepts -/

def lp16 (b : Bytes) : Bool := b.length ≤ 65535

def Message.WF (m : Message) : Bool := qosOK m.qos && lp16 m.topic && m.topic.length > 0

def Packet.WF : Packet → Bool
  | .connect c _ u p clean w v =>
      (v == 0 || v == 3 || v == 4) && lp16 c && lp16 u && lp16 p
      && (match w with | some m => m.WF && lp16 m.payload | none => true)
      && (c.length > 0 || clean) && (p.length == 0 || u.length > 0)
  | .connack _ code => code ≤ 5
  | .publish m _ id => m.WF && (if m.qos == 0 then id == 0 else id != 0)
      && 2 + m.topic.length + m.payload.length + (if m.qos ≠ 0 then 2 else 0) ≤ maxVarint
  | .puback id | .pubrec id | .pubrel id | .pubcomp id | .unsuback id => id != 0
  | .subscribe ss id => id != 0 && !ss.isEmpty && ss.all (fun s => lp16 s.topic && qosOK s.qos)
      && 2 + Packet.subsLen ss ≤ maxVarint
  | .suback cs id => id != 0 && !cs.isEmpty && cs.all subackCodeOK && 2 + cs.length ≤ maxVarint
  | .unsubscribe ts id => id != 0 && !ts.isEmpty && ts.all lp16 && 2 + Packet.topicsLen ts ≤ maxVarint
  | .pingreq | .pingresp | .disconnect => true

/-- Go `Decode` never produces a nil/empty distinction the model could see; `R.toOption` forgets
    the unread rest. -/
def R.toOption : R α → Option α
  | .ok a _ => some a
  | .err _ _ => none

/-- `bs` is exactly one packet according to its own fixed header (type/flags byte, remaining
    length of at most four bytes, exactly that many bytes after it). -/
def framed (bs : Bytes) : Bool :=
  match bs with
  | _ :: tl =>
    match readVarint tl with
    | .ok rl rest => rest.length == rl
    | .err _ _ => false
  | [] => false
