import Model.Codec
/-
  Model/Wire.lean — canonical one-line text form of packets, shared by the Go harness
  (go/internal/wire) and the Lean driver.  Bytes are `x<hex>`; lists are comma separated,
  the empty list is `-`.
-/
namespace Wire

def hx (b : Bytes) : String := "x" ++ toHex b
def bool (b : Bool) : String := if b then "1" else "0"

def commaList (l : List String) : String := if l.isEmpty then "-" else ",".intercalate l

def showMessage (m : Message) : String :=
  s!"{hx m.topic}:{hx m.payload}:{m.qos.toNat}:{bool m.retain}"

def showPacket : Packet → String
  | .connect c ka u p clean w v =>
    let ws := match w with | some m => showMessage m | none => "-"
    s!"connect {hx c} {ka.toNat} {hx u} {hx p} {bool clean} {ws} {v.toNat}"
  | .connack sp code => s!"connack {bool sp} {code.toNat}"
  | .publish m dup id => s!"publish {showMessage m} {bool dup} {id.toNat}"
  | .puback id => s!"puback {id.toNat}"
  | .pubrec id => s!"pubrec {id.toNat}"
  | .pubrel id => s!"pubrel {id.toNat}"
  | .pubcomp id => s!"pubcomp {id.toNat}"
  | .unsuback id => s!"unsuback {id.toNat}"
  | .subscribe ss id => s!"subscribe {id.toNat} {commaList (ss.map fun s => s!"{hx s.topic}:{s.qos.toNat}")}"
  | .suback cs id => s!"suback {id.toNat} {commaList (cs.map fun c => toString c.toNat)}"
  | .unsubscribe ts id => s!"unsubscribe {id.toNat} {commaList (ts.map hx)}"
  | .pingreq => "pingreq"
  | .pingresp => "pingresp"
  | .disconnect => "disconnect"

def pHx (s : String) : Option Bytes :=
  if s.startsWith "x" then fromHex (s.drop 1).toString else none

def pBool (s : String) : Option Bool :=
  if s == "1" then some true else if s == "0" then some false else none

def pU8 (s : String) : Option UInt8 := do
  let n ← s.toNat?; if n < 256 then some (UInt8.ofNat n) else none

def pU16 (s : String) : Option UInt16 := do
  let n ← s.toNat?; if n < 65536 then some (UInt16.ofNat n) else none

def pList (f : String → Option α) (s : String) : Option (List α) :=
  if s == "-" then some [] else (s.splitOn ",").mapM f

def pMessage (s : String) : Option Message :=
  match s.splitOn ":" with
  | [t, p, q, r] => do some ⟨← pHx t, ← pHx p, ← pU8 q, ← pBool r⟩
  | _ => none

def pSub (s : String) : Option Subscription :=
  match s.splitOn ":" with
  | [t, q] => do some ⟨← pHx t, ← pU8 q⟩
  | _ => none

def pType (s : String) : Option PType :=
  match s with
  | "connect" => some .connect | "connack" => some .connack | "publish" => some .publish
  | "puback" => some .puback | "pubrec" => some .pubrec | "pubrel" => some .pubrel
  | "pubcomp" => some .pubcomp | "subscribe" => some .subscribe | "suback" => some .suback
  | "unsubscribe" => some .unsubscribe | "unsuback" => some .unsuback | "pingreq" => some .pingreq
  | "pingresp" => some .pingresp | "disconnect" => some .disconnect
  | _ => none

def typeName (t : PType) : String :=
  match t with
  | .connect => "connect" | .connack => "connack" | .publish => "publish"
  | .puback => "puback" | .pubrec => "pubrec" | .pubrel => "pubrel"
  | .pubcomp => "pubcomp" | .subscribe => "subscribe" | .suback => "suback"
  | .unsubscribe => "unsubscribe" | .unsuback => "unsuback" | .pingreq => "pingreq"
  | .pingresp => "pingresp" | .disconnect => "disconnect"

def parsePacket (toks : List String) : Option Packet :=
  match toks with
  | ["connect", c, ka, u, p, clean, w, v] => do
    let will ← (if w == "-" then some none else (pMessage w).map some)
    some (.connect (← pHx c) (← pU16 ka) (← pHx u) (← pHx p) (← pBool clean) will (← pU8 v))
  | ["connack", sp, code] => do some (.connack (← pBool sp) (← pU8 code))
  | ["publish", m, dup, id] => do some (.publish (← pMessage m) (← pBool dup) (← pU16 id))
  | ["puback", id] => do some (.puback (← pU16 id))
  | ["pubrec", id] => do some (.pubrec (← pU16 id))
  | ["pubrel", id] => do some (.pubrel (← pU16 id))
  | ["pubcomp", id] => do some (.pubcomp (← pU16 id))
  | ["unsuback", id] => do some (.unsuback (← pU16 id))
  | ["subscribe", id, ss] => do some (.subscribe (← pList pSub ss) (← pU16 id))
  | ["suback", id, cs] => do some (.suback (← pList pU8 cs) (← pU16 id))
  | ["unsubscribe", id, ts] => do some (.unsubscribe (← pList pHx ts) (← pU16 id))
  | ["pingreq"] => some .pingreq
  | ["pingresp"] => some .pingresp
  | ["disconnect"] => some .disconnect
  | _ => none

end Wire
