import Model.Codec
/-
  Model/Stream.lean — packet/stream.go (`Decoder.Read`, `Encoder.Write`), the mercury v0.2.0
  `Writer`, and transport/websocket_conn.go (`wsStream.Read`).

  Receiving side
  * `Reader` = `bufio.Reader` over an underlying `io.Reader`.  The underlying reader is given by what
    its successive `Read` calls return: `chunks` (an empty chunk is a `(0, nil)` read), then the
    terminal error `fin` (`io.EOF` or some other error) on every later call; `dataFin` says that the
    terminal error is delivered together with the LAST chunk (`iotest.DataErrReader`, `(n>0, EOF)`).
    `pend` is `bufio.Reader.err`: an error recorded by a read and not yet reported (`readErr()`
    clears it).  The fixed buffer size (4096) only bounds how much one underlying `Read` may return;
    since the chunks ARE what the reads returned it does not appear (`Peek(n)` has `n ≤ 5`, so
    `ErrBufferFull` is impossible).  Not modelled: `io.ErrNoProgress` after 100 consecutive empty reads.
  * `Reader.peek`, `Reader.readFull` follow `bufio.Reader.Peek`, `io.ReadFull`∘`bufio.Reader.Read`
    call by call.  That their results depend only on the concatenated byte stream is a THEOREM
    (`Props/C03.lean`: `peek_chunk_invariant`, `readFull_chunk_invariant`), not built in.
  * `read` = `Decoder.Read`; `readAll` = call it until the first error.

  Sending side
  * `Writer` = mercury `Writer` around a `bufio.Writer` of `cap` bytes around the carrier; `wire` is
    the list of `Write` calls the carrier received, in order (one WebSocket message each).
  * `Ev`/`step`/`run`: `Encoder.Write(p, async)`, `Flush`, the timer firing, `SetMaxWriteDelay`, and the
    carrier starting to fail.

  WebSocket
  * `Ws.read` = `wsStream.Read` over the list of messages still to arrive.
-/
namespace Framing

/-! ## receiving -/

/-- terminal outcome of the underlying reader -/
inductive Fin where
  | eof      -- io.EOF
  | other    -- any other error (closed connection, ErrNotBinary, timeout …)
  deriving DecidableEq, Repr, Inhabited

structure Reader where
  buf : Bytes := []
  pend : Bool := false
  chunks : List Bytes
  fin : Fin := .eof
  dataFin : Bool := false
  deriving DecidableEq, Repr

/-- a fresh `bufio.NewReader(rd)` -/
def Reader.new (chunks : List Bytes) (fin : Fin := .eof) (dataFin : Bool := false) : Reader :=
  { chunks := chunks, fin := fin, dataFin := dataFin }

/-- every byte not yet handed out -/
def Reader.stream (r : Reader) : Bytes := r.buf ++ r.chunks.flatten

/-- `for b.w-b.r < n && b.err == nil { b.fill() }` on the fields; one iteration per underlying
    `Read` (`fill` retries empty reads itself, which is the same loop).  A read past the last chunk
    returns `(0, fin)`; the last chunk sets `b.err` at once when `dataFin`. -/
def pullAux (n : Nat) (dataFin : Bool) : Bytes → Bool → List Bytes → Bytes × Bool × List Bytes
  | buf, pend, [] =>
    if buf.length < n ∧ pend = false then (buf, true, []) else (buf, pend, [])
  | buf, pend, c :: cs =>
    if buf.length < n ∧ pend = false then pullAux n dataFin (buf ++ c) (cs.isEmpty && dataFin) cs
    else (buf, pend, c :: cs)

def Reader.pull (n : Nat) (r : Reader) : Reader :=
  match pullAux n r.dataFin r.buf r.pend r.chunks with
  | (b, p, cs) => { r with buf := b, pend := p, chunks := cs }

/-- `bufio.Reader.Peek(n)` for `n` below the buffer size: the bytes, whether an error comes with
    them (then it is `r.fin`, and fewer than `n` bytes), the reader afterwards. -/
def Reader.peek (n : Nat) (r : Reader) : Bytes × Bool × Reader :=
  let r' := r.pull n
  if r'.buf.length < n then (r'.buf, true, { r' with pend := false })
  else (r'.buf.take n, false, r')

/-- result of `io.ReadFull` -/
inductive RF where
  | ok (bs : Bytes)
  | eof              -- io.EOF: no byte at all
  | unexpectedEOF    -- io.ErrUnexpectedEOF: some, not all
  | other            -- the underlying reader's own error
  deriving DecidableEq, Repr

/-- the error of a short `io.ReadFull`; `got` = at least one byte had been copied -/
def rfErr (fin : Fin) (got : Bool) : RF :=
  match fin with
  | .other => .other
  | .eof => if got then .unexpectedEOF else .eof

/-- `io.ReadFull(b, p)` with `len(p) = need`: `for n < min && err == nil { nn, err = b.Read(p[n:]) }`.
    One iteration here = the `Read` served from the buffer (it copies `min(need, buffered)` bytes) plus,
    if still short, what `Read` does on an empty buffer: report a pending error, otherwise perform
    ONE underlying read (into the buffer or, for a large `p`, directly — indistinguishable here).
    `got`: some byte was copied by an earlier iteration. -/
def rfAux (fin : Fin) (dataFin : Bool) :
    Nat → Bool → Bytes → Bool → List Bytes → RF × Bytes × Bool × List Bytes
  | need, got, buf, pend, [] =>
    if need ≤ buf.length then (.ok (buf.take need), buf.drop need, pend, [])
    else (rfErr fin (got || !buf.isEmpty), [], false, [])
  | need, got, buf, pend, c :: cs =>
    if need ≤ buf.length then (.ok (buf.take need), buf.drop need, pend, c :: cs)
    else if pend then (rfErr fin (got || !buf.isEmpty), [], false, c :: cs)
    else
      match rfAux fin dataFin (need - buf.length) (got || !buf.isEmpty) c (cs.isEmpty && dataFin) cs with
      | (.ok bs, rest) => (.ok (buf ++ bs), rest)
      | (e, rest) => (e, rest)

def Reader.readFull (n : Nat) (r : Reader) : RF × Reader :=
  match rfAux r.fin r.dataFin n false r.buf r.pend r.chunks with
  | (res, b, p, cs) => (res, { r with buf := b, pend := p, chunks := cs })

/-- the errors `Decoder.Read` can return, as the harness canonicalises them -/
inductive Err where
  | eof                 -- io.EOF: the stream ended at a packet boundary
  | unexpectedEOF       -- io.ErrUnexpectedEOF
  | detectionOverflow   -- ErrDetectionOverflow
  | readLimit           -- ErrReadLimitExceeded
  | invalidType         -- ErrInvalidPacketType (`Type.New()`)
  | decodeErr           -- any error of `pkt.Decode`
  | ioErr               -- the underlying reader's own (non-EOF) error
  | panic               -- `Decode` panicked (excluded by C02.decode_no_panic, see `read_no_panic`)
  | noFuel              -- artefact of `readAll`'s fuel; never produced (`readAll_fuel`)
  deriving DecidableEq, Repr, Inhabited

inductive Res where
  | pkt (p : Packet)
  | err (e : Err)
  deriving DecidableEq, Repr

/-- the `for` loop of `Decoder.Read`; `fuel = 6 - detectionLength` (`detectionLength > 5` ⇔ no fuel).
    `limit = 0`: no read limit. -/
def readLoop (limit : Nat) : Nat → Nat → Reader → Res × Reader
  | 0, _, r => (.err .detectionOverflow, r)
  | fuel + 1, dl, r =>
    match r.peek dl with
    | (hdr, true, r') =>
      -- `err == io.EOF && len(header) != 0` ⇒ ErrUnexpectedEOF; else the error itself
      (match r.fin with
       | .eof => if hdr.length ≠ 0 then .err .unexpectedEOF else .err .eof
       | .other => .err .ioErr, r')
    | (hdr, false, r') =>
      match detectPacket hdr with
      | (pl, pt) =>
        if pl ≤ 0 then readLoop limit fuel (dl + 1) r'
        else if limit > 0 ∧ pl > (limit : Int) then (.err .readLimit, r')
        else match PType.ofCode? pt with
          | none => (.err .invalidType, r')
          | some t =>
            match r'.readFull pl.toNat with
            | (.ok body, r'') =>
              (match decode t body with
               | .ok p _ => .pkt p
               | .err .err _ => .err .decodeErr
               | .err .panic _ => .err .panic, r'')
            | (.eof, r'') => (.err .eof, r'')
            | (.unexpectedEOF, r'') => (.err .unexpectedEOF, r'')
            | (.other, r'') => (.err .ioErr, r'')

/-- `Decoder.Read` -/
def read (limit : Nat) (r : Reader) : Res × Reader := readLoop limit 4 2 r

def readAllAux (limit : Nat) : Nat → Reader → List Packet × Err × Reader
  | 0, r => ([], .noFuel, r)
  | fuel + 1, r =>
    match read limit r with
    | (.err e, r') => ([], e, r')
    | (.pkt p, r') =>
      match readAllAux limit fuel r' with
      | (ps, e, r'') => (p :: ps, e, r'')

/-- call `Decoder.Read` until the first error; every successful call consumes at least one byte,
    so `stream.length + 1` calls suffice (`readAll_fuel`). -/
def readAll (limit : Nat) (r : Reader) : List Packet × Err :=
  match readAllAux limit (r.stream.length + 1) r with
  | (ps, e, _) => (ps, e)

/-! ## sending -/

structure Writer where
  cap : Nat := 4096
  buf : Bytes := []
  wire : List Bytes := []
  bufErr : Bool := false        -- bufio.Writer.err (sticky for ever)
  pendErr : Bool := false       -- mercury Writer.err: error of a timer flush, returned (and cleared) by the next call
  timer : Bool := false         -- w.timer != nil
  delay0 : Bool := true         -- the maximum delay is zero
  down : Bool := false          -- the carrier fails every Write (writing nothing)
  deriving DecidableEq, Repr

/-- `b.wr.Write(p)` -/
def Writer.carrier (w : Writer) (p : Bytes) : Writer × Bool :=
  if w.down then (w, false) else ({ w with wire := w.wire ++ [p] }, true)

/-- `bufio.Writer.Flush` -/
def Writer.bflush (w : Writer) : Writer × Bool :=
  if w.bufErr then (w, false)
  else if w.buf.isEmpty then (w, true)
  else match w.carrier w.buf with
    | (w', true) => ({ w' with buf := [] }, true)
    | (w', false) => ({ w' with bufErr := true }, false)

/-- `bufio.Writer.Write(p)`: `for len(p) > b.Available() && b.err == nil { … }` unrolled (after one
    fill-and-flush the buffer is empty, so the loop runs at most twice). -/
def Writer.bwrite (w : Writer) (p : Bytes) : Writer × Bool :=
  if w.bufErr then (w, false)
  else if p.length ≤ w.cap - w.buf.length then ({ w with buf := w.buf ++ p }, true)
  else if w.buf.isEmpty then
    -- large write, empty buffer: straight to the carrier
    match w.carrier p with
    | (w', true) => (w', true)
    | (w', false) => ({ w' with bufErr := true }, false)
  else
    let k := w.cap - w.buf.length
    match ({ w with buf := w.buf ++ p.take k }).bflush with
    | (w', false) => (w', false)
    | (w', true) =>
      let p' := p.drop k
      if p'.length ≤ w'.cap then ({ w' with buf := p' }, true)
      else match w'.carrier p' with
        | (w'', true) => (w'', true)
        | (w'', false) => ({ w'' with bufErr := true }, false)

/-- mercury `Writer.write(p, flush)` -/
def Writer.mwrite (w : Writer) (p : Bytes) (flush : Bool) : Writer × Bool :=
  if w.pendErr then ({ w with pendErr := false }, false)
  else
    match (if p.length > 0 then w.bwrite p else (w, true)) with
    | (w, false) => (w, false)
    | (w, true) =>
      match (if flush || w.delay0 then w.bflush else (w, true)) with
      | (w, false) => (w, false)
      | (w, true) =>
        let w := if w.buf.length > 0 && !w.timer then { w with timer := true } else w
        let w := if w.buf.length == 0 && w.timer then { w with timer := false } else w
        (w, true)

/-- mercury `Writer.flush()`: what the timer runs.  (A stopped timer may already have fired, so this
    can happen whatever `timer` says; it is therefore enabled in every state.) -/
def Writer.timerFire (w : Writer) : Writer :=
  match ({ w with timer := false }).bflush with
  | (w', true) => w'
  | (w', false) => if w'.pendErr then w' else { w' with pendErr := true }

/-- `Encoder.Write(pkt, async)`: encode into a pooled buffer of exactly `Len()` bytes, hand it to the
    writer. -/
def Writer.encWrite (w : Writer) (p : Packet) (async : Bool) : Writer × Bool :=
  match encodeInto p.len p with
  | .error _ => (w, false)
  | .ok bs => w.mwrite bs (!async)

inductive Ev where
  | write (p : Packet) (async : Bool)
  | flush                      -- Encoder.Flush
  | timerFire
  | setDelay (zero : Bool)     -- SetMaxWriteDelay
  | carrierFail                -- from now on the carrier's Write fails
  deriving Repr

/-- one event; the Bool is "the call returned nil" (`true` for events that return nothing) -/
def step (w : Writer) : Ev → Writer × Bool
  | .write p async => w.encWrite p async
  | .flush => w.mwrite [] true
  | .timerFire => (w.timerFire, true)
  | .setDelay z => ({ w with delay0 := z }, true)
  | .carrierFail => ({ w with down := true }, true)

def run (w : Writer) : List Ev → Writer × List Bool
  | [] => (w, [])
  | e :: es =>
    match step w e with
    | (w', ok) =>
      match run w' es with
      | (w'', oks) => (w'', ok :: oks)

/-- the packets of the write events, in order -/
def written : List Ev → List Packet
  | [] => []
  | .write p _ :: es => p :: written es
  | _ :: es => written es

def noFail : List Ev → Bool
  | [] => true
  | .carrierFail :: _ => false
  | _ :: es => noFail es

/-! ## WebSocket stitching -/
namespace Ws

structure Msg where
  binary : Bool := true
  /-- the payload as the message reader hands it out at most per `Read` (frame / segment
      boundaries); empty pieces are skipped as gorilla's reader skips empty frames -/
  frames : List Bytes
  /-- the reader reports `io.EOF` together with the last bytes — NOT what gorilla v1.4.1 does over
      TCP (it returns `(0, io.EOF)` on the next call), kept to model the accumulate-and-`continue`
      path of `wsStream.Read` -/
  eofWithData : Bool := false
  deriving DecidableEq, Repr

def Msg.payload (m : Msg) : Bytes := m.frames.flatten

/-- how `NextReader` fails once no message is left -/
inductive End where
  | close    -- *websocket.CloseError ⇒ wsStream.Read returns io.EOF
  | error    -- anything else ⇒ returned as is
  deriving DecidableEq, Repr, Inhabited

inductive Out where
  | ok            -- err == nil
  | eof
  | notBinary
  | error
  deriving DecidableEq, Repr, Inhabited

structure Conn where
  /-- `s.reader`: the unread frames of the current message and its `eofWithData` -/
  cur : Option (List Bytes × Bool) := none
  msgs : List Msg
  fin : End := .close
  deriving DecidableEq, Repr

/-- one `Read(buf)` with `len(buf) = size` of a message reader: bytes, `err == io.EOF`, the frames left -/
def msgRead (size : Nat) (ewd : Bool) : List Bytes → Bytes × Bool × List Bytes
  | [] => ([], true, [])
  | f :: fs =>
    if f.isEmpty then msgRead size ewd fs
    else if f.length ≤ size then (f, ewd && fs.flatten.isEmpty, fs)
    else (f.take size, false, f.drop size :: fs)

/-- the loop of `wsStream.Read` from a point where `s.reader == nil`; `size = len(buf)` left,
    `total` the bytes already copied. -/
def next (fin : End) : Nat → Bytes → List Msg → Bytes × Out × Option (List Bytes × Bool) × List Msg
  | _, _, [] =>
    -- NextReader fails: `return 0, io.EOF` / `return 0, err` — `total` is dropped
    ([], (match fin with | .close => .eof | .error => .error), none, [])
  | size, total, m :: ms =>
    if !m.binary then ([], .notBinary, none, ms)
    else match msgRead size m.eofWithData m.frames with
      | (bs, true, _) => next fin (size - bs.length) (total ++ bs) ms
      | (bs, false, rest) => (total ++ bs, .ok, some (rest, m.eofWithData), ms)

/-- `wsStream.Read(buf)`, `len(buf) = size` -/
def read (size : Nat) (c : Conn) : Bytes × Out × Conn :=
  match c.cur with
  | none =>
    match next c.fin size [] c.msgs with
    | (bs, o, cur, ms) => (bs, o, { c with cur := cur, msgs := ms })
  | some (frames, ewd) =>
    match msgRead size ewd frames with
    | (bs, false, rest) => (bs, .ok, { c with cur := some (rest, ewd) })
    | (bs, true, _) =>
      match next c.fin (size - bs.length) bs c.msgs with
      | (bs', o, cur, ms) => (bs', o, { c with cur := cur, msgs := ms })

/-- payload bytes not yet returned -/
def Conn.pending (c : Conn) : Bytes :=
  (match c.cur with | some (fr, _) => fr.flatten | none => []) ++ (c.msgs.map Msg.payload).flatten

/-- successive `Read` calls with the given buffer sizes, up to the first error: the chunks returned
    with `err == nil`, the final outcome (`ok` = sizes exhausted), the connection afterwards -/
def drain : List Nat → Conn → List Bytes × Out × Conn
  | [], c => ([], .ok, c)
  | s :: ss, c =>
    match read s c with
    | (bs, .ok, c') =>
      (match drain ss c' with
       | (cs, o, c'') => (bs :: cs, o, c''))
    | (_, o, c') => ([], o, c')

/-- the gorilla contract and binary messages only -/
def clean (c : Conn) : Bool :=
  (match c.cur with | some (_, ewd) => !ewd | none => true)
  && c.msgs.all (fun m => m.binary && !m.eofWithData)

end Ws

end Framing
