import Model.Codec
/-
  Model/Session.lean — session/id_counter.go, session/packet_store.go, session/memory_session.go.
  * `IDCounter` over `UInt16` exactly as `NextID` (skip 0, post-increment with wrap-around).
  * `PacketStore`: the Go map plus the `order` slice = an insertion-ordered association list
    with unique keys (re-saving an id moves it to the end).
-/

structure IDCounter where
  next : UInt16
  deriving DecidableEq, Repr

namespace IDCounter
def new : IDCounter := ⟨1⟩
/-- `NextID` -/
def nextID (c : IDCounter) : UInt16 × IDCounter :=
  let n := if c.next = 0 then c.next + 1 else c.next
  (n, ⟨n + 1⟩)
/-- `Reset` -/
def reset (_ : IDCounter) : IDCounter := ⟨1⟩
end IDCounter

structure PacketStore where
  entries : List (UInt16 × Packet) := []
  deriving Repr

namespace PacketStore
def erase (l : List (UInt16 × Packet)) (id : UInt16) : List (UInt16 × Packet) :=
  l.filter (fun e => e.1 != id)
/-- `Save`: packets without an id are ignored -/
def save (s : PacketStore) (p : Packet) : PacketStore :=
  match p.getID with
  | some id => ⟨erase s.entries id ++ [(id, p)]⟩
  | none => s
/-- `Lookup` (Go: nil when absent) -/
def lookup (s : PacketStore) (id : UInt16) : Option Packet :=
  (s.entries.find? (fun e => e.1 == id)).map (·.2)
/-- `Delete` -/
def delete (s : PacketStore) (id : UInt16) : PacketStore := ⟨erase s.entries id⟩
/-- `All`: in the order saved -/
def all (s : PacketStore) : List Packet := s.entries.map (·.2)
def reset (_ : PacketStore) : PacketStore := ⟨[]⟩
end PacketStore

inductive Direction where | incoming | outgoing
  deriving DecidableEq, Repr

structure MemorySession where
  counter : IDCounter := IDCounter.new
  incoming : PacketStore := {}
  outgoing : PacketStore := {}
  deriving Repr

namespace MemorySession
def store (s : MemorySession) : Direction → PacketStore
  | .incoming => s.incoming
  | .outgoing => s.outgoing
def setStore (s : MemorySession) (d : Direction) (st : PacketStore) : MemorySession :=
  match d with
  | .incoming => { s with incoming := st }
  | .outgoing => { s with outgoing := st }
def nextID (s : MemorySession) : UInt16 × MemorySession :=
  let (id, c) := s.counter.nextID
  (id, { s with counter := c })
def savePacket (s : MemorySession) (d : Direction) (p : Packet) : MemorySession := s.setStore d ((s.store d).save p)
def lookupPacket (s : MemorySession) (d : Direction) (id : UInt16) : Option Packet := (s.store d).lookup id
/-- the loop of the broker's `Client.nextID` with `n` tries left: `NextID` until an id comes up that the
    outgoing store does not hold.  Out of tries: `(0, ErrPacketIDsExhausted)` — 0 is never a packet id. -/
def freshIDAux : Nat → MemorySession → UInt16 × MemorySession
  | 0, s => (0, s)
  | n + 1, s =>
    if (s.lookupPacket .outgoing (s.nextID).1).isNone then s.nextID else freshIDAux n (s.nextID).2
/-- broker/client.go `Client.nextID`: the next packet id that no stored outgoing packet uses (at most
    65535 tries: every id there is); the id 0 stands for `ErrPacketIDsExhausted` -/
def freshID (s : MemorySession) : UInt16 × MemorySession := freshIDAux 65535 s
def deletePacket (s : MemorySession) (d : Direction) (id : UInt16) : MemorySession := s.setStore d ((s.store d).delete id)
def allPackets (s : MemorySession) (d : Direction) : List Packet := (s.store d).all
def reset (_ : MemorySession) : MemorySession := {}
end MemorySession
