import Model.Basic
/-
  Model/Topic.lean — topic/tree.go.

  * `walk` is the sequence of segments the Go recursion visits for a topic string: it uses
    `topicSegment` / `topicShorten` and stops at the sentinel `topicEnd = "\x00"` exactly as the
    code does (so `"a/\x00"` walks like `"a"`; for NUL-free topics it is plain splitting on the
    separator — theorem `walk_eq_split`).
  * `Node` is the trie: a value slice (order matters: append / swap-delete) and the children map
    as an association list with unique keys.  Go map iteration order is the only nondeterminism
    of the package; results that depend on it (`Search`, `All`, `Clear` order) are compared as
    sorted lists by the correspondence check.
  * Every exported method is one function on `Node` (the root); the mutex is not modelled here
    (see `Model/Locked.lean` for the atomicity argument).
-/

abbrev Level := Bytes
abbrev Val := Nat

def sepByte : UInt8 := 47      -- "/"
def wildOne : Level := [43]    -- "+"
def wildSome : Level := [35]   -- "#"
def topicEnd : Bytes := [0]    -- "\x00"

/-- `topicSegment` : up to the first separator -/
def topicSegment (t : Bytes) : Level := t.takeWhile (· != sepByte)

/-- `topicShorten` : after the first separator, or the sentinel -/
def topicShorten (t : Bytes) : Bytes :=
  match t.dropWhile (· != sepByte) with
  | [] => topicEnd
  | _ :: rest => rest

theorem dropWhile_length_le (p : α → Bool) (l : List α) : (l.dropWhile p).length ≤ l.length := by
  induction l with
  | nil => simp
  | cons a l ih => simp only [List.dropWhile]; split <;> simp <;> omega

/-- the segments visited by the Go recursion (`fuel` = an upper bound on the number of levels) -/
def walkAux : Nat → Bytes → List Level
  | 0, _ => []
  | n + 1, t => if t = topicEnd then [] else topicSegment t :: walkAux n (topicShorten t)

def walk (t : Bytes) : List Level := walkAux (t.length + 2) t

/-- plain MQTT level splitting -/
def splitLevels (t : Bytes) : List Level :=
  let rec go : Bytes → Level → List Level
    | [], cur => [cur.reverse]
    | b :: rest, cur => if b = sepByte then cur.reverse :: go rest [] else go rest (b :: cur)
  go t []

inductive Node where
  | mk (values : List Val) (children : List (Level × Node))
  deriving Repr, Inhabited

namespace Node

def values : Node → List Val | mk v _ => v
def children : Node → List (Level × Node) | mk _ c => c
def empty : Node := mk [] []

def child? (cs : List (Level × Node)) (k : Level) : Option Node :=
  match cs with
  | [] => none
  | (k', n) :: rest => if k' = k then some n else child? rest k

def setChild (cs : List (Level × Node)) (k : Level) (n : Node) : List (Level × Node) :=
  match cs with
  | [] => [(k, n)]
  | (k', n') :: rest => if k' = k then (k, n) :: rest else (k', n') :: setChild rest k n

def delChild (cs : List (Level × Node)) (k : Level) : List (Level × Node) :=
  match cs with
  | [] => []
  | (k', n') :: rest => if k' = k then rest else (k', n') :: delChild rest k

/-- `node.removeValue`: overwrite the first occurrence with the last element, shrink by one -/
def removeValue (vs : List Val) (v : Val) : List Val :=
  match vs.idxOf? v with
  | none => vs
  | some i => (vs.set i (vs.getLast?.getD v)).dropLast

def isEmptyNode (n : Node) : Bool := n.values.isEmpty && n.children.isEmpty

/-- `add` -/
def add (v : Val) : List Level → Node → Node
  | [], mk vs cs => if vs.contains v then mk vs cs else mk (vs ++ [v]) cs
  | l :: ls, mk vs cs =>
    let c := (child? cs l).getD empty
    mk vs (setChild cs l (add v ls c))

/-- `set` -/
def set (v : Val) : List Level → Node → Node
  | [], mk _ cs => mk [v] cs
  | l :: ls, mk vs cs =>
    let c := (child? cs l).getD empty
    mk vs (setChild cs l (set v ls c))

/-- `get`: `none` = Go's nil for a missing path -/
def get : List Level → Node → Option (List Val)
  | [], n => some n.values
  | l :: ls, mk _ cs =>
    match child? cs l with
    | none => none
    | some c => get ls c

/-- `remove` (value = `some v`) / `Empty` (value = `none`): new node and the "prune me" flag -/
def remove (v : Option Val) : List Level → Node → Node × Bool
  | [], mk vs cs =>
    let vs' := match v with | none => [] | some x => removeValue vs x
    (mk vs' cs, vs'.isEmpty && cs.isEmpty)
  | l :: ls, mk vs cs =>
    match child? cs l with
    | none => (mk vs cs, false)
    | some c =>
      let (c', prune) := remove v ls c
      let cs' := if prune then delChild cs l else setChild cs l c'
      (mk vs cs', vs.isEmpty && cs'.isEmpty)

mutual
/-- `clear`: remove the value everywhere, prune emptied branches -/
def clear (v : Val) : Node → Node × Bool
  | mk vs cs =>
    let vs' := removeValue vs v
    let cs' := clearList v cs
    (mk vs' cs', vs'.isEmpty && cs'.isEmpty)
def clearList (v : Val) : List (Level × Node) → List (Level × Node)
  | [] => []
  | (k, c) :: rest =>
    let (c', prune) := clear v c
    if prune then clearList v rest else (k, c') :: clearList v rest
end

mutual
/-- all values below and at a node (`all`, and `search` below a `#`) -/
def subtreeVals : Node → List Val
  | mk vs cs => vs ++ subtreeValsList cs
def subtreeValsList : List (Level × Node) → List Val
  | [] => []
  | (_, c) :: rest => subtreeVals c ++ subtreeValsList rest
end

mutual
def count : Node → Nat
  | mk vs cs => vs.length + countList cs
def countList : List (Level × Node) → Nat
  | [] => 0
  | (_, c) :: rest => count c + countList rest
end

/-- the callback-driven `match`, collecting every emitted value slice -/
def matchAll : List Level → Node → List Val
  | ls, mk vs cs =>
    let hash := match child? cs wildSome with
      | some c => c.values
      | none => []
    match ls with
    | [] => hash ++ vs
    | l :: rest =>
      hash
      ++ (match child? cs wildOne with | some c => matchAll rest c | none => [])
      ++ (if l ≠ wildOne ∧ l ≠ wildSome then
            (match child? cs l with | some c => matchAll rest c | none => [])
          else [])

/-- `MatchFirst`: the callback stores `values[0]` and returns false, which ends only the frame
    it was called from; later frames overwrite the stored value. -/
def matchFirst : List Level → Node → Option Val → Option Val
  | ls, mk vs cs, cur =>
    match (match child? cs wildSome with | some c => c.values.head? | none => none) with
    | some v => some v
    | none =>
      match ls with
      | [] => (match vs.head? with | some v => some v | none => cur)
      | l :: rest =>
        let cur1 := match child? cs wildOne with | some c => matchFirst rest c cur | none => cur
        if l ≠ wildOne ∧ l ≠ wildSome then
          (match child? cs l with | some c => matchFirst rest c cur1 | none => cur1)
        else cur1

mutual
/-- the callback-driven `search`, collecting everything emitted (children in list order) -/
def searchAll : List Level → Node → List Val
  | [], n => n.values
  | l :: rest, mk vs cs =>
    if l = wildSome then subtreeVals (mk vs cs)
    else if l = wildOne then searchKids rest cs
    else match child? cs l with
      | some c => searchAll rest c
      | none => []
def searchKids : List Level → List (Level × Node) → List Val
  | _, [] => []
  | ls, (_, c) :: rest => searchAll ls c ++ searchKids ls rest
end

/-- `clean`: remove duplicates keeping the first occurrence -/
def clean (l : List Val) : List Val := l.eraseDups

end Node

/-! ### the exported API on topic strings -/

namespace Tree
open Node

def add (t : Bytes) (v : Val) (root : Node) : Node := Node.add v (walk t) root
def set (t : Bytes) (v : Val) (root : Node) : Node := Node.set v (walk t) root
def get (t : Bytes) (root : Node) : List Val := (Node.get (walk t) root).getD []
def remove (t : Bytes) (v : Val) (root : Node) : Node := (Node.remove (some v) (walk t) root).1
def emptyTopic (t : Bytes) (root : Node) : Node := (Node.remove none (walk t) root).1
def clear (v : Val) (root : Node) : Node := (Node.clear v root).1
def «match» (t : Bytes) (root : Node) : List Val := clean (matchAll (walk t) root)
def matchFirst (t : Bytes) (root : Node) : Option Val := Node.matchFirst (walk t) root none
def search (t : Bytes) (root : Node) : List Val := clean (searchAll (walk t) root)
def all (root : Node) : List Val := clean (subtreeVals root)
def count (root : Node) : Nat := Node.count root

end Tree
