import Model.Topic
import Model.Session
/-
  Model/Service.lean — client/service.go (`Service`) as a labelled transition system over an
  abstract client connection (client/client.go is K1's model; here only what the service sees).

  One supervisor goroutine (`supervisor → connect → resubscribe → dispatcher`), the processor
  goroutine of the current client (everything it does with one inbound packet is one atomic
  step: the shared state it touches is behind the store's / the futures' mutexes) and the API
  callers (mutually exclusive through `Service.mutex`; `Stop` holds it until the supervisor
  has ended).  The supervisor's program counter is `Phase`; *waiting* phases are left through
    `sup …`  (the thing waited for happened: a future resolved, a command / Dying / kill ready)
    `fire`   (the timer of that wait elapsed; durations live in the driver, not here),
  *runnable* phases (`connecting`, `online`) through `sup run`.  Everything the supervisor does
  between two waits is one step; the observations it produces on the way (packets handed to
  the connection, callbacks) are the step's output, in program order.

  Variants: `Cfg.fix9/15/16/17` switch between today's code and the proposed repairs
    fix9   `Client.Close` returns after an unsendable CONNECT (today: waits for goroutines
           that were never started — the supervisor is `wedged` for good)
    fix15  a rejected SUBACK (`ValidateSubs`) ends the client through `die` (today: the
           processor just returns — client stays `connected`, nobody reads any more)
    fix16  `Stop(true)` also cancels the futures of commands still queued
    fix17  `future.Store.Put` cancels a future it displaces (today: a clean-session reconnect
           restarts the id counter while the protected store keeps the old futures — the
           displaced one is lost for good)
-/
namespace Svc

inductive PlanKind where | ok | refuse | sendfail
  deriving DecidableEq, Repr

inductive Sys where
  | connect | callback | resubscribe | subscribe | unsubscribe | publish | disconnect
  deriving DecidableEq, Repr

inductive FutSt where | pending | completed | cancelled
  deriving DecidableEq, Repr

structure Cfg where
  cap : Nat := 100          -- capacity of `commandQueue`
  resubAll : Bool := true   -- ResubscribeAllSubscriptions
  validate : Bool := true   -- Config.ValidateSubs
  clean : Bool := true      -- Config.CleanSession
  clientID : Bytes := []
  fix9 : Bool := false
  fix15 : Bool := false
  fix16 : Bool := false
  fix17 : Bool := false
  deriving Repr

inductive CmdKind where
  | publish (m : Message)
  | subscribe (subs : List Subscription)
  | unsubscribe (topics : List Bytes)
  deriving DecidableEq, Repr

/-- a queued command; `n` names its future (chosen by the caller, unique) -/
structure Cmd where
  n : Nat
  kind : CmdKind
  deriving DecidableEq, Repr

inductive Obs where
  | dial (c : Nat) (k : PlanKind)
  | sent (c : Nat) (p : Packet)
  | sendfail (c : Nat) (p : Packet)
  | closed (c : Nat)
  | online (sp : Bool)
  | offline
  | error (sys : Sys)
  | msg (m : Message)
  | stopret (b : Bool)
  | ret (n : Nat) (queued : Bool)
  deriving DecidableEq, Repr

/-- a future in the shared `future.Store`: the command futures attached to it, and whether it
    is the one `resubscribe` waits for -/
structure SFut where
  attached : List Nat := []
  resub : Bool := false
  deriving DecidableEq, Repr

inductive CState where
  | connecting      -- CONNECT sent, no CONNACK yet
  | connected
  | zombie          -- state still `connected`, processor gone without `die` (row 15)
  | dead            -- `cleanup` ran (state `disconnected`)
  deriving DecidableEq, Repr

structure Client where
  conn : Nat
  st : CState := .connecting
  proc : Bool := true               -- processor goroutine running
  gotFirst : Bool := false
  connRes : Option (Option Bool) := none   -- connectFuture: completed sp / cancelled
  killed : Bool := false            -- the service's `kill` channel was closed
  closed : Bool := false            -- `conn.Close()` was called
  peerGone : Bool := false          -- the peer hung up
  broken : Bool := false            -- a send failed: every later send fails too
  failNext : Bool := false          -- fail the next send of the supervisor
  procFail : Bool := false          -- fail the next send of the processor
  deriving Repr

inductive Phase where
  | exited                      -- no supervisor goroutine
  | backoff                     -- select { time.After(d), Dying }
  | connecting                  -- about to call connect()
  | connWait                    -- connectFuture.Wait(ConnectTimeout)
  | online (sp : Bool)          -- connected: OnlineCallback, resubscribe next
  | resubWait (id : UInt16)     -- subscribeFuture.Wait(ResubscribeTimeout)
  | dispatching                 -- select { commandQueue, Dying, kill }
  | discAwait                   -- Stop: client.Disconnect → futureStore.Await(DisconnectTimeout)
  | wedged                      -- client.Close() waiting for a tomb without goroutines (row 9)
  deriving DecidableEq, Repr

structure SState where
  cfg : Cfg := {}
  started : Bool := false
  stopping : Option Bool := none        -- `Stop(clear)` is waiting for the supervisor
  blocked : Option Cmd := none          -- an API caller waits for room in the queue
  «protected» : Bool := false
  subs : Node := Node.empty             -- `subscriptions`: topic ↦ [index into `subTab`]
  subTab : List Subscription := []
  queue : List Cmd := []
  futs : List (Nat × FutSt) := []       -- command futures
  store : List (UInt16 × SFut) := []    -- the shared future store
  sess : MemorySession := {}
  phase : Phase := .exited
  cl : Option Client := none
  plan : PlanKind := .ok                -- what the next Dial will meet
  ndial : Nat := 0
  attempt : Nat := 0                    -- backoff attempt counter
  epoch : Nat := 0                      -- bumped whenever the supervisor starts a timed wait
  resubRes : Option Bool := none        -- the awaited resubscribe future resolved
  -- history variables (never read by the transitions)
  issued : List Cmd := []               -- commands accepted into the queue, in order
  handled : List Cmd := []              -- commands removed from the queue, in order
  taken : List Cmd := []                -- … by a dispatcher
  handed : List (Nat × Nat) := []       -- (conn, n): packets of commands written to a connection
  callbacks : List Message := []        -- MessageCallback invocations, in order
  arrivals : List Packet := []          -- packets the processor handled after the CONNACK, in order
  deriving Repr

/-! ### futures and the store -/

def resolve (l : List (Nat × FutSt)) (n : Nat) (st : FutSt) : List (Nat × FutSt) :=
  l.map fun e => if e.1 = n ∧ e.2 = .pending then (n, st) else e

def resolveAll (l : List (Nat × FutSt)) (ns : List Nat) (st : FutSt) : List (Nat × FutSt) :=
  ns.foldl (fun l n => resolve l n st) l

def futOf (l : List (Nat × FutSt)) (n : Nat) : Option FutSt := (l.find? (·.1 = n)).map (·.2)

def storeGet (st : List (UInt16 × SFut)) (id : UInt16) : Option SFut := (st.find? (·.1 = id)).map (·.2)
def storeDel (st : List (UInt16 × SFut)) (id : UInt16) : List (UInt16 × SFut) := st.filter (·.1 ≠ id)
def storePut (st : List (UInt16 × SFut)) (id : UInt16) (f : SFut) : List (UInt16 × SFut) :=
  storeDel st id ++ [(id, f)]

def isBad (m : Message) : Bool := m.payload.take 3 = [98, 97, 100]   -- "bad…": the callback fails

/-- lexicographic byte order = Go's `<` on strings -/
def bytesLe : Bytes → Bytes → Bool
  | [], _ => true
  | _ :: _, [] => false
  | a :: as, b :: bs => if a < b then true else if a = b then bytesLe as bs else false

def subLe (a b : Subscription) : Bool := bytesLe a.topic b.topic

namespace Client
def usable (c : Client) : Bool := !c.closed && !c.peerGone && !c.broken
/-- a send of the supervisor goroutine succeeds -/
def sendOk (c : Client) : Bool := c.usable && !c.failNext
/-- a send of the processor goroutine succeeds -/
def psendOk (c : Client) : Bool := c.usable && !c.procFail
/-- … it failed: the connection is broken from now on -/
def pfailed (c : Client) : Client := if c.usable then { c with procFail := false, broken := true } else c
def first (c : Client) : Client := { c with gotFirst := true }
def accepted (c : Client) (sp : Bool) : Client := { c with st := .connected, connRes := some (some sp) }
/-- `cleanup` + error callback on the processor goroutine, which then returns -/
def died (c : Client) (closeConn : Bool) : Client :=
  { c with st := .dead, proc := false, killed := true, closed := c.closed || closeConn,
           connRes := if c.connRes.isNone then some none else c.connRes }
/-- the processor returns without `die` (row 15) -/
def zombify (c : Client) : Client := { c with st := (if c.st == .connected then .zombie else c.st), proc := false }
def hangup (c : Client) : Client := { c with peerGone := true }
def procGone (c : Client) : Client := { c with proc := false }
end Client

namespace SState

/-! primitive updates (one field group each; the transitions below are compositions of these) -/
def setCl (s : SState) (c : Client) : SState := { s with cl := some c }
def noCl (s : SState) : SState := { s with cl := none }
def setPhase (s : SState) (p : Phase) : SState := { s with phase := p }
/-- enter a timed wait -/
def wait (s : SState) (p : Phase) : SState := { s with phase := p, epoch := s.epoch + 1 }
def setSess (s : SState) (ss : MemorySession) : SState := { s with sess := ss }
def setResub (s : SState) (r : Option Bool) : SState := { s with resubRes := r }
def resolveCmd (s : SState) (n : Nat) (st : FutSt) : SState := { s with futs := resolve s.futs n st }
def delStore (s : SState) (id : UInt16) : SState := { s with store := storeDel s.store id }
/-- `Attach`: the command future hangs on the client future stored under `id` -/
def attach (s : SState) (id : UInt16) (n : Nat) : SState := { s with store := storePut s.store id { attached := [n] } }
def pushCallback (s : SState) (m : Message) : SState := { s with callbacks := s.callbacks ++ [m] }
def pushArrival (s : SState) (p : Packet) : SState := { s with arrivals := s.arrivals ++ [p] }
def pushHanded (s : SState) (c n : Nat) : SState := { s with handed := s.handed ++ [(c, n)] }
def dialed (s : SState) : SState := { s with ndial := s.ndial + 1 }
def setPlan (s : SState) (k : PlanKind) : SState := { s with plan := k }

/-- `Store.Put` -/
def put (s : SState) (id : UInt16) (f : SFut) : SState :=
  let futs := match storeGet s.store id with
    | some old => if s.cfg.fix17 then resolveAll s.futs old.attached .cancelled else s.futs
    | none => s.futs
  { s with futs := futs, store := storePut s.store id f }

/-- a future taken out of the store is completed / cancelled -/
def finish (s : SState) (id : UInt16) (f : SFut) (ok : Bool) : SState :=
  { s with futs := resolveAll s.futs f.attached (if ok then .completed else .cancelled),
           resubRes := if f.resub && s.phase == .resubWait id && s.resubRes.isNone then some ok else s.resubRes }

/-- an acknowledgement for `id`: look the future up, delete it, resolve it -/
def ackId (s : SState) (id : UInt16) (ok : Bool) : SState :=
  match storeGet s.store id with
  | none => s
  | some f => (s.delStore id).finish id f ok

/-- `Store.Clear`: a no-op on a protected store -/
def clearStore (s : SState) : SState :=
  if s.protected then s
  else { s with futs := resolveAll s.futs (s.store.flatMap (·.2.attached)) .cancelled, store := [] }

/-- the session part of `Client.cleanup` -/
def cleanSess (s : SState) : SState := if s.cfg.clean then { s with sess := {} } else s

/-- `Client.nextID` (client/client.go): the next packet id no stored outgoing packet uses — `NextID`,
    repeated while `LookupPacket(Outgoing, id)` finds a packet, at most 65535 times; the id 0 stands for
    `ErrPacketIDsExhausted` (`MemorySession.freshID`, Model/Session.lean; the step-level client model runs
    the same loop label by label: `C09.allocation_is_freshID`) -/
def nextID (s : SState) : UInt16 × SState := (s.sess.freshID.1, { s with sess := s.sess.freshID.2 })

def dieObs (c : Client) (closeConn : Bool) : List Obs :=
  (if closeConn && !c.closed then [Obs.closed c.conn] else []) ++ [Obs.error .callback]

/-- `die(err, closeConn)` on the processor goroutine: cleanup, error callback (which closes the
    service's kill channel), processor returns -/
def die (s : SState) (c : Client) (closeConn : Bool) : SState × List Obs :=
  (((s.setCl (c.died closeConn)).cleanSess).clearStore, dieObs c closeConn)

/-- `client.Close()` by the supervisor (the client is dropped afterwards) -/
def closeSt (s : SState) : SState :=
  match s.cl with
  | none => s
  | some _ => (s.noCl.cleanSess).clearStore

def closeObs (s : SState) : List Obs :=
  match s.cl with
  | none => []
  | some c => if c.closed then [] else [Obs.closed c.conn]

/-- back to the top of the supervisor loop: `select { time.After(d), Dying }` -/
def toLoop (s : SState) : SState :=
  if s.stopping.isSome then { s with phase := .exited, attempt := s.attempt + 1, resubRes := none }
  else { s with phase := .backoff, attempt := s.attempt + 1, epoch := s.epoch + 1, resubRes := none }

/-- `resubscribe`'s request: all stored subscriptions, sorted by topic -/
def resubList (s : SState) : List Subscription :=
  ((Tree.all s.subs).filterMap (s.subTab[·]?)).mergeSort subLe

def addSub (s : SState) (sub : Subscription) : SState :=
  { s with subs := Tree.set sub.topic s.subTab.length s.subs, subTab := s.subTab ++ [sub] }

def delSub (s : SState) (t : Bytes) : SState := { s with subs := Tree.emptyTopic t s.subs }

end SState

/-! ### the processor: one inbound packet -/

open SState

/-- a reply of the processor goroutine: written, or `die(err, false)` -/
def procReply (s : SState) (c : Client) (obs : List Obs) : SState × List Obs :=
  if c.psendOk then (s, obs) else ((s.die c.pfailed false).1, obs ++ (s.die c.pfailed false).2)

/-- the application's callback refuses the message: `die(err, true)` -/
def procRefuse (s : SState) (c : Client) (m : Message) : SState × List Obs :=
  ((s.die c true).1, Obs.msg m :: (s.die c true).2)

/-- the first packet of a connection -/
def procFirst (s : SState) (c : Client) (p : Packet) : SState × List Obs :=
  match p with
  | .connack sp code =>
    if c.st != CState.connecting then (s.setCl c.first, [])
    else if code != 0 then s.die c.first true
    -- accepted; stored packets are sent again (processor sends; not observed here)
    else if (s.sess.allPackets .outgoing).isEmpty || c.psendOk then (s.setCl (c.first.accepted sp), [])
    else s.die (c.first.accepted sp).pfailed false
  | _ => s.die c.first true

def procSuback (s : SState) (c : Client) (codes : List UInt8) (id : UInt16) : SState × List Obs :=
  let s := s.setSess (s.sess.deletePacket .outgoing id)
  match storeGet s.store id with
  | none => (s, [])
  | some f =>
    if s.cfg.validate && codes.contains 128 then
      if s.cfg.fix15 then ((s.delStore id).finish id f false).die c true
      else (((s.delStore id).finish id f false).setCl c.zombify, [])
    else ((s.delStore id).finish id f true, [])

def procAck (s : SState) (id : UInt16) : SState × List Obs :=
  ((s.setSess (s.sess.deletePacket .outgoing id)).ackId id true, [])

def procPublish (s : SState) (c : Client) (m : Message) (id : UInt16) : SState × List Obs :=
  if m.qos ≤ 1 then
    if isBad m then procRefuse (s.pushCallback m) c m
    else if m.qos = 1 then procReply (s.pushCallback m) c [Obs.msg m]
    else (s.pushCallback m, [Obs.msg m])
  else procReply (s.setSess (s.sess.savePacket .incoming (.publish m false id))) c []

def procPubrel (s : SState) (c : Client) (id : UInt16) : SState × List Obs :=
  match s.sess.lookupPacket .incoming id with
  | some (.publish m _ _) =>
    if isBad m then procRefuse (s.pushCallback m) c m
    else if c.psendOk then ((s.pushCallback m).setSess (s.sess.deletePacket .incoming id), [Obs.msg m])
    else procReply (s.pushCallback m) c [Obs.msg m]
  | _ => (s, [])

def procLater (s : SState) (c : Client) (p : Packet) : SState × List Obs :=
  match p with
  | .suback codes id => procSuback s c codes id
  | .unsuback id => procAck s id
  | .puback id => procAck s id
  | .pubcomp id => procAck s id
  | .pubrec id => procReply (s.setSess (s.sess.savePacket .outgoing (.pubrel id))) c []
  | .publish m _ id => procPublish s c m id
  | .pubrel id => procPubrel s c id
  | _ => (s, [])

def procRecv (s : SState) (c : Client) (p : Packet) : SState × List Obs :=
  if !c.proc || c.closed || c.peerGone then (s, [])
  else if !c.gotFirst then procFirst s c p
  else procLater (s.pushArrival p) c p

/-! ### the supervisor -/

inductive SupChoice where | run | take | dying | kill
  deriving DecidableEq, Repr

inductive Ev where
  | start
  | stopCall (clear : Bool)
  | stopRet
  | call (c : Cmd)
  | callTimeout
  | plan (k : PlanKind)
  | recv (c : Nat) (p : Packet)
  | drop (c : Nat)
  | failNext (c : Nat)
  | procFail (c : Nat)
  | fire
  | sup (ch : SupChoice)
  deriving DecidableEq, Repr

def connectPacket (cfg : Cfg) : Packet := .connect cfg.clientID 0 [] [] cfg.clean none 4

/-- the dispatcher returned: close the client, OfflineCallback, loop -/
def leaveDispatcher (s : SState) (pre : List Obs) : SState × List Obs :=
  (s.closeSt.toLoop, pre ++ s.closeObs ++ [Obs.offline])

/-- a failed attempt (no OfflineCallback).  `connect` closes the client and then reports the
    error; `resubscribe` reports and the supervisor closes afterwards -/
def failAttempt (s : SState) (pre : List Obs) (sys : Sys) : SState × List Obs :=
  (s.closeSt.toLoop, pre ++ (if sys == .connect then s.closeObs ++ [Obs.error sys] else Obs.error sys :: s.closeObs))

/-- `connect()` up to `connectFuture.Wait` -/
def supConnect (s : SState) : SState × List Obs :=
  let c := s.ndial + 1
  match s.plan with
  | .refuse => (s.dialed.toLoop, [.dial c .refuse, .error .connect])
  | .sendfail =>
    -- Connect: (clean: Session.Reset) send fails → cleanup(err, false, false); Close(): conn closed, then tomb.Wait
    if s.cfg.fix9 then
      (s.dialed.cleanSess.toLoop, [.dial c .sendfail, .sendfail c (connectPacket s.cfg), .closed c, .error .connect])
    else (s.dialed.cleanSess.setPhase .wedged, [.dial c .sendfail, .sendfail c (connectPacket s.cfg), .closed c])
  | .ok =>
    ((s.dialed.cleanSess.setCl { conn := c }).wait .connWait, [.dial c .ok, .sent c (connectPacket s.cfg)])

/-- OnlineCallback, then `resubscribe` up to `subscribeFuture.Wait` -/
def supOnline (s : SState) (c : Client) (sp : Bool) : SState × List Obs :=
  if !s.cfg.resubAll || s.resubList.isEmpty then (s.setPhase .dispatching, [.online sp])
  else if c.st == CState.dead then
    -- ErrClientNotConnected; the client is closed without OfflineCallback
    failAttempt s [.online sp] .resubscribe
  else if s.nextID.1 == 0 then
    -- ErrPacketIDsExhausted (no cleanup inside the client); reported, the supervisor closes the client
    failAttempt s.nextID.2 [.online sp] .resubscribe
  else if c.sendOk then
    (((s.nextID.2.put s.nextID.1 { resub := true }).setResub none).wait (.resubWait s.nextID.1),
     [.online sp, .sent c.conn (.subscribe s.resubList s.nextID.1)])
  else
    -- cleanup(err, false, false), then Close()
    failAttempt (s.nextID.2.put s.nextID.1 { resub := true })
      [.online sp, .sendfail c.conn (.subscribe s.resubList s.nextID.1)] .resubscribe

def cmdSys : CmdKind → Sys
  | .publish _ => .publish | .subscribe _ => .subscribe | .unsubscribe _ => .unsubscribe

def cmdNeedsID : CmdKind → Bool
  | .publish m => m.qos != 0
  | _ => true

def cmdQos0 : CmdKind → Bool
  | .publish m => m.qos == 0
  | _ => false

def cmdPacket (k : CmdKind) (id : UInt16) : Packet :=
  match k with
  | .publish m => .publish m false id
  | .subscribe subs => .subscribe subs id
  | .unsubscribe ts => .unsubscribe ts id

/-- the receive from the channel; a blocked sender gets its value in at once -/
def dequeue (s : SState) (cmd : Cmd) (rest : List Cmd) : SState :=
  match s.blocked with
  | some b => { s with queue := rest ++ [b], blocked := none, issued := s.issued ++ [b],
                       handled := s.handled ++ [cmd], taken := s.taken ++ [cmd] }
  | none => { s with queue := rest, handled := s.handled ++ [cmd], taken := s.taken ++ [cmd] }

def dequeueObs (s : SState) : List Obs :=
  match s.blocked with
  | some b => [Obs.ret b.n true]
  | none => []

/-- the subscriptions are updated before the client is called -/
def applySubs (s : SState) : CmdKind → SState
  | .subscribe subs => subs.foldl addSub s
  | .unsubscribe ts => ts.foldl delSub s
  | .publish _ => s

/-- `Client.nextID` (QoS 0 publishes use id 0) -/
def allocID (s : SState) (k : CmdKind) : UInt16 × SState := if cmdNeedsID k then s.nextID else (0, s)

/-- `SavePacket` for QoS ≥ 1 publishes -/
def saveOutgoing (s : SState) (k : CmdKind) (id : UInt16) : SState :=
  match k with
  | .publish m => if m.qos != 0 then s.setSess (s.sess.savePacket .outgoing (cmdPacket k id)) else s
  | _ => s

/-- the client call of the dispatcher for a dequeued command -/
def clientCall (s : SState) (c : Client) (cmd : Cmd) : SState × List Obs :=
  if c.st == CState.dead then
    -- ErrClientNotConnected
    leaveDispatcher (s.resolveCmd cmd.n .cancelled) [Obs.error (cmdSys cmd.kind)]
  else
    let id := (allocID s cmd.kind).1
    if cmdNeedsID cmd.kind && id == 0 then
      -- ErrPacketIDsExhausted: the client leaves everything as it is; error callback, the command future is
      -- cancelled, the dispatcher returns and the supervisor closes the client
      leaveDispatcher ((allocID s cmd.kind).2.resolveCmd cmd.n .cancelled) [Obs.error (cmdSys cmd.kind)]
    else
    let s1 := saveOutgoing ((allocID s cmd.kind).2.put id {}) cmd.kind id
    if c.sendOk then
      if cmdQos0 cmd.kind then
        (((s1.pushHanded c.conn cmd.n).resolveCmd cmd.n .completed).delStore id, [Obs.sent c.conn (cmdPacket cmd.kind id)])
      else ((s1.pushHanded c.conn cmd.n).attach id cmd.n, [Obs.sent c.conn (cmdPacket cmd.kind id)])
    else
      -- cleanup(err, false, false); the command future is cancelled; the dispatcher returns
      leaveDispatcher (s1.resolveCmd cmd.n .cancelled)
        [Obs.sendfail c.conn (cmdPacket cmd.kind id), Obs.error (cmdSys cmd.kind)]

/-- the dispatcher takes one command -/
def supTake (s : SState) (c : Client) (cmd : Cmd) (rest : List Cmd) : SState × List Obs :=
  ((clientCall (applySubs (dequeue s cmd rest) cmd.kind) c cmd).1,
   dequeueObs s ++ (clientCall (applySubs (dequeue s cmd rest) cmd.kind) c cmd).2)

/-- nothing buffered, but a sender is waiting (queue capacity 0): direct hand-over -/
def handOver (s : SState) (b : Cmd) : SState :=
  { s with blocked := none, issued := s.issued ++ [b], handled := s.handled ++ [b], taken := s.taken ++ [b] }

/-- `client.Disconnect` after `Await`: DISCONNECT, end(), OfflineCallback, supervisor returns -/
def supDisconnect (s : SState) (c : Client) : SState × List Obs :=
  (s.closeSt.toLoop,
   (if c.sendOk then [Obs.sent c.conn .disconnect] else [Obs.sendfail c.conn .disconnect]) ++ s.closeObs
     ++ (if c.sendOk then [] else [Obs.error .disconnect]) ++ [Obs.offline])

def supStep (s : SState) (ch : SupChoice) : Option (SState × List Obs) :=
  match s.phase, ch with
  | .backoff, .dying => if s.stopping.isSome then some (s.setPhase .exited, []) else none
  | .connecting, .run => some (supConnect s)
  | .connWait, .run =>
    (match s.cl with
     | some c =>
       (match c.connRes with
        | some (some sp) => some (s.setPhase (.online sp), [])
        | some none => some (failAttempt s [] .connect)
        | none => none)
     | none => none)
  | .online sp, .run =>
    (match s.cl with
     | some c => some (supOnline s c sp)
     | none => none)
  | .resubWait _, .run =>
    (match s.resubRes with
     | some true => some ((s.setResub none).setPhase .dispatching, [])
     | some false => some (failAttempt s [] .resubscribe)
     | none => none)
  | .dispatching, .take =>
    (match s.cl, s.queue with
     | some c, cmd :: rest => some (supTake s c cmd rest)
     | some c, [] =>
       (match s.blocked with
        | some b =>
          some ((clientCall (applySubs (handOver s b) b.kind) c b).1,
                Obs.ret b.n true :: (clientCall (applySubs (handOver s b) b.kind) c b).2)
        | none => none)
     | none, _ => none)
  | .dispatching, .kill =>
    (match s.cl with
     | some c => if c.killed then some (leaveDispatcher s []) else none
     | none => none)
  | .dispatching, .dying =>
    if s.stopping.isSome then
      (match s.cl with
       | some c =>
         if c.st == CState.dead then some (leaveDispatcher s [.error .disconnect])   -- ErrClientNotConnected
         else if s.store.isEmpty then some (supDisconnect s c)
         else some (s.wait .discAwait, [])
       | none => none)
    else none
  | .discAwait, .run =>
    (match s.cl with
     | some c => if s.store.isEmpty then some (supDisconnect s c) else none
     | none => none)
  | _, _ => none

/-- a timed wait of the supervisor runs out -/
def fireStep (s : SState) : Option (SState × List Obs) :=
  match s.phase with
  | .backoff => some (s.setPhase .connecting, [])
  | .connWait => some (failAttempt s [] .connect)
  | .resubWait _ => some (failAttempt s [] .resubscribe)
  | .discAwait =>
    (match s.cl with
     | some c => some (supDisconnect s c)
     | none => none)
  | _ => none

def mutexFree (s : SState) : Bool := s.stopping.isNone && s.blocked.isNone

/-- `Stop(true)`, repaired: the futures of commands still queued are cancelled as well -/
def drainQueue (s : SState) : SState :=
  { s with futs := resolveAll s.futs (s.queue.map (·.n)) .cancelled, handled := s.handled ++ s.queue, queue := [] }

def unprotect (s : SState) : SState := { s with «protected» := false }
def stopDone (s : SState) : SState := { s with stopping := none }

/-- `Stop`'s tail after `tomb.Wait()` -/
def stopTail (s : SState) (clear : Bool) : SState :=
  if clear then
    if s.cfg.fix16 then drainQueue (unprotect (stopDone s)).clearStore else (unprotect (stopDone s)).clearStore
  else stopDone s

def startSt (s : SState) : SState := { s with started := true, «protected» := true, attempt := 0, phase := .connecting }
def stopSt (s : SState) (clear : Bool) : SState := { s with started := false, stopping := some clear }
def newFut (s : SState) (n : Nat) : SState := { s with futs := s.futs ++ [(n, FutSt.pending)] }
def enqueue (s : SState) (c : Cmd) : SState := { s with queue := s.queue ++ [c], issued := s.issued ++ [c] }
def block (s : SState) (c : Cmd) : SState := { s with blocked := some c }
def unblock (s : SState) : SState := { s with blocked := none }

/-- the peer hangs up: `Receive` fails — ignored when the client is already (being) shut down,
    else `die(err, false)` -/
def dropStep (s : SState) (c : Client) : SState × List Obs :=
  if c.proc && !c.closed && c.st != CState.dead then (s.setCl c.hangup).die c.hangup false
  else (s.setCl c.hangup.procGone, [])

def step (s : SState) (e : Ev) : Option (SState × List Obs) :=
  match e with
  | .start =>
    if !mutexFree s then none
    else if s.started then some (s, [])
    else some (startSt s, [])
  | .stopCall clear =>
    if !mutexFree s then none
    else if !s.started then some (s, [.stopret false])
    else some (stopSt s clear, [])
  | .stopRet =>
    (match s.stopping with
     | some clear => if s.phase == .exited then some (stopTail s clear, [.stopret true]) else none
     | none => none)
  | .call c =>
    if !mutexFree s then none
    else if (futOf s.futs c.n).isSome then none          -- future names are unique
    else if s.queue.length < s.cfg.cap then some (enqueue (newFut s c.n) c, [.ret c.n true])
    else some (block (newFut s c.n) c, [])
  | .callTimeout =>
    (match s.blocked with
     | some c => some (resolveCmd (unblock s) c.n .cancelled, [.ret c.n false])
     | none => none)
  | .plan k => some (s.setPlan k, [])
  | .recv conn p =>
    (match s.cl with
     | some c => if c.conn = conn then some (procRecv s c p) else some (s, [])
     | none => some (s, []))
  | .drop conn =>
    (match s.cl with
     | some c => if c.conn = conn && !c.peerGone then some (dropStep s c) else some (s, [])
     | none => some (s, []))
  | .failNext conn =>
    (match s.cl with
     | some c => if c.conn = conn then some (s.setCl { c with failNext := true }, []) else some (s, [])
     | none => some (s, []))
  | .procFail conn =>
    (match s.cl with
     | some c => if c.conn = conn then some (s.setCl { c with procFail := true }, []) else some (s, [])
     | none => some (s, []))
  | .fire => fireStep s
  | .sup ch => supStep s ch

/-- states reachable from a fresh service -/
inductive Reachable (cfg : Cfg) : SState → Prop where
  | init : Reachable cfg { cfg := cfg }
  | step {s s' : SState} {e : Ev} {o : List Obs} : Reachable cfg s → step s e = some (s', o) → Reachable cfg s'

/-- run a list of events (rejecting as soon as one is not enabled), collecting the output -/
def run (s : SState) : List Ev → Option (SState × List Obs)
  | [] => some (s, [])
  | e :: es =>
    match step s e with
    | none => none
    | some (s', o) =>
      match run s' es with
      | none => none
      | some (s'', o') => some (s'', o ++ o')

end Svc
