import Drv
/-
  Driver.lean — the model side of the correspondence check.
  One operation per input line, one canonical line out.  `# …` lines and empty lines are echoed
  unchanged (the harness writes case separators that way).  An operation the model does not
  know is answered with `bad-op` (never defaulted).
-/

def dispatch (line : String) : String :=
  let toks := (line.splitOn " ").filter (· ≠ "")
  match toks with
  | "codec" :: rest => (Drv.Codec.handle rest).getD "bad-op"
  | _ => "bad-op"

partial def loop (hin : IO.FS.Stream) (hout : IO.FS.Stream) : IO Unit := do
  let line ← hin.getLine
  if line.isEmpty then return ()
  let l := String.ofList (line.toList.filter (fun c => c != (Char.ofNat 10) && c != (Char.ofNat 13)))
  if l.isEmpty || l.startsWith "#" then hout.putStrLn l
  else hout.putStrLn (dispatch l)
  loop hin hout

def main : IO Unit := do
  let hin ← IO.getStdin
  let hout ← IO.getStdout
  loop hin hout
  hout.flush
