import Drv
/-
  Driver.lean — the model side of the correspondence check.
  One operation per input line, one canonical line out.  `# …` lines and empty lines are echoed
  unchanged (the harness writes case separators that way).  An operation the model does not
  know is answered with `bad-op` (never defaulted).
-/

structure DState where
  topic : Drv.Topic.St := {}
  session : Drv.Session.St := {}
  broker : Drv.Broker.St := {}
  bc : Drv.BC.St := {}
  service : Drv.Service.St := {}
  client : Drv.Client.CSt := {}

def dispatch (st : DState) (line : String) : DState × String :=
  let toks := (line.splitOn " ").filter (· ≠ "")
  match toks with
  | "codec" :: rest => (st, (Drv.Codec.handle rest).getD "bad-op")
  | "stream" :: rest => (st, (Drv.Stream.handle rest).getD "bad-op")
  | "tree" :: rest =>
    match Drv.Topic.handle st.topic rest with
    | some (t, out) => ({ st with topic := t }, out)
    | none => (st, "bad-op")
  | "br" :: rest =>
    match Drv.Broker.handle st.broker rest with
    | some (t, out) => ({ st with broker := t }, out)
    | none => (st, "bad-op")
  | "bc" :: rest =>
    match Drv.BC.handle st.bc rest with
    | some (t, out) => ({ st with bc := t }, out)
    | none => (st, "bad-op")
  | "sv" :: rest =>
    match Drv.Service.handle st.service rest with
    | some (t, out) => ({ st with service := t }, out)
    | none => (st, "bad-op")
  | "cl" :: rest =>
    match Drv.Client.handle st.client rest with
    | some (t, out) => ({ st with client := t }, out)
    | none => (st, "bad-op")
  | "sess" :: rest =>
    match Drv.Session.handle st.session rest with
    | some (t, out) => ({ st with session := t }, out)
    | none => (st, "bad-op")
  | _ => (st, "bad-op")

partial def loop (hin : IO.FS.Stream) (hout : IO.FS.Stream) (st : DState) : IO Unit := do
  let line ← hin.getLine
  if line.isEmpty then return ()
  let l := String.ofList (line.toList.filter (fun c => c != (Char.ofNat 10) && c != (Char.ofNat 13)))
  if l.isEmpty || l.startsWith "#" then
    hout.putStrLn l
    loop hin hout st
  else
    let (st', out) := dispatch st l
    hout.putStrLn out
    loop hin hout st'

def main : IO Unit := do
  let hin ← IO.getStdin
  let hout ← IO.getStdout
  loop hin hout {}
  hout.flush
