import Model.Broker
import Props.C04
import Props.C05
import Proofs.BrokerFan
import Proofs.BrokerB1
import Proofs.BrokerB5Wf
import Proofs.BrokerOut
/-
  Props/C06.lean — property C06: a published message reaches exactly the sessions holding a
  matching subscription, one copy each, intact, retain flag cleared, QoS capped by the grant of
  one matching subscription; a repeated subscription replaces the grant (each filter of one
  SUBSCRIBE keeps its own); an unsubscribed filter no longer attracts messages.
  Statements are about `MemoryBackend.Publish` / `applyQOS` / the SUBSCRIBE and UNSUBSCRIBE
  branches of the processor / the dequeuer as modelled in Model/Broker.lean, for EVERY broker state.
  The QoS is capped TWICE: when the copy is put on the session's queue (`enqueue`, grant in force
  when the broker processes the publish — `enqueued_copy_capped`, `publish_appends_only_capped`) and
  again when it is taken off (`delivered_qos`, grant in force then); capping never raises a QoS
  (`applyQOS_le`), so the delivered QoS is ≤ min(published, grant at publish time) whatever happens
  to the subscriptions in between (`delivered_capped_by_publish_grant`).
  `Rel2` (Proofs/BrokerFan.lean) is the element-wise relation of two lists of equal length.
-/
namespace C06
open BState Node

/-- what one fan-out does to one session entry -/
def FanRel {κ : Type} (cfg : Cfg) (m : Message) (g : Nat) (e e' : κ × BSess) : Prop :=
  e'.1 = e.1 ∧
  (if (subQos e.2 m.topic).isSome then
     (enqueue cfg e.2 m g = .ok e'.2) ∨ (enqueue cfg e.2 m g = .full ∧ e.2.active = none ∧ e'.2 = e.2)
   else e'.2 = e.2)

/-- `enqueue` appends exactly one copy — capped by the session's grant at that moment, `applyQOS` —
    to the queue of the message's class (chosen by the PUBLISHED QoS) and touches nothing else -/
theorem enqueue_one_copy (cfg : Cfg) (b b' : BSess) (m : Message) (g : Nat) (h : enqueue cfg b m g = .ok b') :
    (if m.qos = 0 then b'.tempQ = b.tempQ ++ [(g, applyQOS b m)] ∧ b'.storedQ = b.storedQ
     else b'.storedQ = b.storedQ ++ [applyQOS b m] ∧ b'.tempQ = b.tempQ)
    ∧ b'.subs = b.subs ∧ b'.sess = b.sess ∧ b'.active = b.active :=
  BrokerFan.enqueue_ok cfg b b' m g h

/-- fan-out over the stored sessions: exactly the sessions with a matching subscription get the
    copy (an offline session whose queue is full drops it), in place, nothing else changes -/
theorem fanStored_exact (cfg : Cfg) (c : ConnId) (m : Message) (g : Nat)
    (l l' : List (ClientId × BSess)) (h : fanStored cfg c m g l [] = .ok (l', false)) :
    Rel2 (FanRel cfg m g) l l' := by
  obtain ⟨l'', h1, h2⟩ := BrokerFan.fanStored_gen cfg c m g l [] l' h
  simp only [List.reverse_nil, List.nil_append] at h1
  subst h1
  exact h2

theorem fanTemp_exact (cfg : Cfg) (c : ConnId) (m : Message) (g : Nat)
    (l l' : List (ConnId × BSess)) (h : fanTemp cfg c m g l [] = .ok (l', false)) :
    Rel2 (FanRel cfg m g) l l' := by
  obtain ⟨l'', h1, h2⟩ := BrokerFan.fanTemp_gen cfg c m g l [] l' h
  simp only [List.reverse_nil, List.nil_append] at h1
  subst h1
  exact h2

/-- `Backend.Publish`: every session is related by `FanRel` for the message with the retain flag
    cleared; connections are not touched -/
theorem publish_fanout (s s' : BState) (c : ConnId) (m : Message) (h : backendPublish s c m = .ok s') :
    Rel2 (FanRel s.cfg { m with retain := false } s.nextGroup) s.stored s'.stored ∧
    Rel2 (FanRel s.cfg { m with retain := false } s.nextGroup) s.temp s'.temp ∧
    s'.conns = s.conns := by
  obtain ⟨h1, h2, _⟩ := BrokerB1.backendPublish_ok s s' c m h
  exact ⟨fanStored_exact _ _ _ _ _ _ h2, fanTemp_exact _ _ _ _ _ _ h1,
    BrokerB1.backendPublish_conns s s' c m (Or.inl h)⟩

/-- "holds a matching subscription" is exactly MQTT §4.7 matching against the stored filters -/
theorem subQos_iff (b : BSess) (hw : b.subs.WF) (t : Bytes) (hn : NoWild (walk t)) :
    (subQos b t).isSome ↔ ∃ f q, q ∈ stored b.subs f ∧ tmatches f (walk t) = true := by
  unfold subQos Tree.matchFirst
  rw [C04.matchFirst_some_iff]
  constructor
  · intro h
    cases hm : matchAll (walk t) b.subs with
    | nil => simp [hm] at h
    | cons q rest =>
      obtain ⟨f, h1, h2⟩ := (C04.match_correct b.subs hw (walk t) hn q).1 (by rw [hm]; simp)
      exact ⟨f, q, h1, h2⟩
  · rintro ⟨f, q, h1, h2⟩
    have := (C04.match_correct b.subs hw (walk t) hn q).2 ⟨f, h1, h2⟩
    cases hm : matchAll (walk t) b.subs with
    | nil => rw [hm] at this; cases this
    | cons _ _ => rfl

/-- … and the grant used for capping belongs to one of the matching subscriptions -/
theorem subQos_sound (b : BSess) (hw : b.subs.WF) (t : Bytes) (hn : NoWild (walk t)) (q : Nat)
    (h : subQos b t = some q) : ∃ f, q ∈ stored b.subs f ∧ tmatches f (walk t) = true :=
  (C04.match_correct b.subs hw (walk t) hn q).1 (C04.matchFirst_mem (walk t) b.subs q h)

/-- delivery QoS = the lower of published and granted; topic, payload, retain untouched -/
theorem applyQOS_min (b : BSess) (m : Message) (q : Nat) (h : subQos b m.topic = some q) :
    (applyQOS b m).qos.toNat = min m.qos.toNat q ∧ (applyQOS b m).topic = m.topic ∧
    (applyQOS b m).payload = m.payload ∧ (applyQOS b m).retain = m.retain := by
  unfold applyQOS
  rw [h]
  simp only
  split
  · rename_i hgt
    refine ⟨?_, rfl, rfl, rfl⟩
    have hlt : m.qos.toNat < 256 := m.qos.toNat_lt
    have hq : q < 256 := by omega
    simp only [UInt8.toNat_ofNat']
    rw [Nat.mod_eq_of_lt hq]
    omega
  · rename_i hgt
    refine ⟨?_, rfl, rfl, rfl⟩
    omega

theorem applyQOS_none (b : BSess) (m : Message) (h : subQos b m.topic = none) : applyQOS b m = m := by
  unfold applyQOS
  rw [h]

/-- capping never raises the QoS and never touches topic, payload, retain flag — whatever the
    session's subscriptions are (matching or not) -/
theorem applyQOS_le (b : BSess) (m : Message) :
    (applyQOS b m).qos.toNat ≤ m.qos.toNat ∧ (applyQOS b m).topic = m.topic ∧
    (applyQOS b m).payload = m.payload ∧ (applyQOS b m).retain = m.retain := by
  cases hq : subQos b m.topic with
  | none => rw [applyQOS_none b m hq]; exact ⟨Nat.le_refl _, rfl, rfl, rfl⟩
  | some q =>
    obtain ⟨a1, a2, a3, a4⟩ := applyQOS_min b m q hq
    exact ⟨by rw [a1]; exact Nat.min_le_left _ _, a2, a3, a4⟩

/-- the last subscription of one SUBSCRIBE packet naming a filter decides its grant; filters the
    packet does not name keep what they had -/
theorem subscribe_last_wins (n : Node) (subs : List Subscription) (p : List Level) :
    stored (subs.foldl (fun n s => Tree.set s.topic s.qos.toNat n) n) p =
      (match BrokerB1.lastGrant subs p with
       | some q => [q]
       | none => stored n p) :=
  BrokerB1.stored_foldl_set subs p n

/-- one SUBSCRIBE with pairwise different filters: every filter ends up with its OWN granted QoS
    (the seed's hypothesis `n.WF` is not needed) -/
theorem subscribe_each_own_qos (n : Node) (subs : List Subscription)
    (hd : (subs.map (fun s => walk s.topic)).Nodup) (sub : Subscription) (hm : sub ∈ subs) :
    stored (subs.foldl (fun n s => Tree.set s.topic s.qos.toNat n) n) (walk sub.topic) = [sub.qos.toNat] := by
  rw [subscribe_last_wins]
  have : BrokerB1.lastGrant subs (walk sub.topic) = some sub.qos.toNat := by
    unfold BrokerB1.lastGrant
    cases hf : subs.reverse.find? (fun s => walk s.topic = walk sub.topic) with
    | none =>
      rw [List.find?_eq_none] at hf
      have := hf sub (by simpa using hm)
      simp at this
    | some s' =>
      have h1 := List.mem_of_find?_eq_some hf
      have h2 := List.find?_some hf
      simp only [decide_eq_true_eq] at h2
      have h1' : s' ∈ subs := by simpa using h1
      -- two members with the same path are the same member
      have : s' = sub := by
        clear hf h1
        induction subs with
        | nil => cases hm
        | cons a rest ih =>
          simp only [List.map_cons, List.nodup_cons, List.mem_map, not_exists, not_and] at hd
          rcases List.mem_cons.1 hm with e1 | e1 <;> rcases List.mem_cons.1 h1' with e2 | e2
          · rw [e1, e2]
          · exact absurd (h2.trans (by rw [e1])) (hd.1 s' e2)
          · exact absurd (h2.symm.trans (by rw [e2])) (hd.1 sub e1)
          · exact ih hd.2 e1 e2
      rw [this]; rfl
  rw [this]

/-- a repeated subscription replaces the grant -/
theorem subscribe_replaces (n : Node) (t : Bytes) (q : Nat) :
    stored (Tree.set t q n) (walk t) = [q] := by
  unfold Tree.set
  rw [BrokerB1.stored_set, if_pos rfl]

/-- after UNSUBSCRIBE nothing is stored under that filter any more, every other filter keeps its
    grant (the seed's hypothesis `n.NoDupVals` is not needed) -/
theorem unsubscribe_removes (n : Node) (hw : n.WF) (t : Bytes) :
    stored (Tree.emptyTopic t n) (walk t) = [] ∧
    ∀ p, p ≠ walk t → stored (Tree.emptyTopic t n) p = stored n p := by
  unfold Tree.emptyTopic
  refine ⟨by rw [BrokerB1.stored_remove_none _ _ hw, if_pos rfl], ?_⟩
  intro p hp
  rw [BrokerB1.stored_remove_none _ _ hw, if_neg hp]

/-- … and for a whole UNSUBSCRIBE packet -/
theorem unsubscribe_all_removed (n : Node) (hw : n.WF) (ts : List Bytes) (p : List Level) :
    stored (ts.foldl (fun n t => Tree.emptyTopic t n) n) p = if p ∈ ts.map walk then [] else stored n p :=
  BrokerB1.stored_foldl_empty ts p n hw

/-! ### what is delivered -/

/-- the dequeuer delivers a queued message — the head of the stored queue or a member of the first
    group of the temporary queue — capped with the subscription in force at that moment (hence
    topic and payload intact, `applyQOS_min`) -/
theorem delivery_is_capped_head (s s' : BState) (c : ConnId) (x : BConn) (b : BSess) (m : Message) (id : UInt16)
    (h : acceptDelivery s c x b m id = some s') :
    ∃ hd, (b.storedQ.head? = some hd ∨
           ∃ g, (b.tempQ.head?.map (·.1)) = some g ∧ (g, hd) ∈ b.tempQ.takeWhile (·.1 = g)) ∧
      m = applyQOS b hd :=
  BrokerB1.acceptDelivery_head s s' c x b m id h

/-- `delivered_qos`: the delivered message is a queued one with topic, payload and retain flag
    intact; its QoS is the lower of the queued QoS and the grant `MatchFirst` finds at that moment —
    by `subQos_sound` the grant of one of the matching subscriptions — or the queued QoS when no
    subscription matches any more.  The queued QoS is itself already capped by the grant in force
    when the copy was queued (`enqueued_copy_capped`; `delivered_capped_by_publish_grant` combines
    the two) -/
theorem delivered_qos (s s' : BState) (c : ConnId) (x : BConn) (b : BSess) (m : Message) (id : UInt16)
    (h : acceptDelivery s c x b m id = some s') :
    ∃ hd, (b.storedQ.head? = some hd ∨
           ∃ g, (b.tempQ.head?.map (·.1)) = some g ∧ (g, hd) ∈ b.tempQ.takeWhile (·.1 = g)) ∧
      m.topic = hd.topic ∧ m.payload = hd.payload ∧ m.retain = hd.retain ∧
      (match subQos b hd.topic with
       | some q => m.qos.toNat = min hd.qos.toNat q
       | none => m.qos = hd.qos) := by
  obtain ⟨hd, h1, h2⟩ := delivery_is_capped_head s s' c x b m id h
  refine ⟨hd, h1, ?_⟩
  subst h2
  cases hq : subQos b hd.topic with
  | none => rw [applyQOS_none b hd hq]; exact ⟨rfl, rfl, rfl, rfl⟩
  | some q =>
    obtain ⟨a1, a2, a3, a4⟩ := applyQOS_min b hd q hq
    exact ⟨a2, a3, a4, a1⟩

/-! ### SUBSCRIBE / UNSUBSCRIBE as processed by the client's processor goroutine -/

/-- how the acknowledgement `p` of connection `c` is handed on (`x` before, `x'` after the step):
    queued at once by a synchronous backend, parked by a late one, dropped by a silent one -/
def AckEffect (s s' : BState) (c : ConnId) (x x' : BConn) (p : Packet) : Prop :=
  if s.neverAck then x'.ackOut = x.ackOut ∧ s'.pendingAcks = s.pendingAcks
  else if s.lateAck then x'.ackOut = x.ackOut ∧ s'.pendingAcks = s.pendingAcks ++ [⟨c, p⟩]
  else x'.ackOut = x.ackOut ++ [p] ∧ s'.pendingAcks = s.pendingAcks

/-- SUBSCRIBE: in every successor state in which the connection is still alive the session's
    subscription tree is the fold of `Set` over the packet, and the SUBACK is queued in that very
    step (synchronous backend) or parked (late) — never before the tree was updated -/
theorem recv_subscribe_subs (s : BState) (c : ConnId) (x : BConn) (b : BSess) (subs : List Subscription)
    (id : UInt16) (hc : s.conn? c = some x) (ha : x.alive = true) (hp : x.phase = .connected)
    (ht : x.subTok ≠ 0) (hb : s.sessOf c = some b) (ss : List BState)
    (h : recv s c (.subscribe subs id) = .ok ss) (s' : BState) (hm : s' ∈ ss) (x' : BConn)
    (hc' : s'.conn? c = some x') (ha' : x'.alive = true) :
    ∃ b', s'.sessOf c = some b' ∧
      b'.subs = subs.foldl (fun n sub => Tree.set sub.topic sub.qos.toNat n) b.subs ∧
      AckEffect s s' c x x' (.suback (subs.map (·.qos)) id) ∧
      (s.lateAck = false ∧ s.neverAck = false → x'.ackOut = x.ackOut ++ [.suback (subs.map (·.qos)) id]) := by
  obtain ⟨b', h1, h2, _, _, _, _, h7⟩ := BrokerB1.recv_subscribe s c x b subs id hc ha hp ht hb ss h s' hm x' hc' ha'
  refine ⟨b', h1, h2, h7, ?_⟩
  rintro ⟨hl, hn⟩
  unfold BrokerB1.AckEffect at h7
  simp only [hl, hn, Bool.false_eq_true, if_false] at h7
  exact h7.1

/-- UNSUBSCRIBE (`unsubscribe_before_ack`): the step has exactly one successor; in it the
    session's tree is the fold of `Empty` over the packet and the UNSUBACK is queued in that very
    step (synchronous backend) or parked (late) — never before the filters were removed -/
theorem recv_unsubscribe_subs (s : BState) (c : ConnId) (x : BConn) (b : BSess) (topics : List Bytes)
    (id : UInt16) (hc : s.conn? c = some x) (ha : x.alive = true) (hp : x.phase = .connected)
    (ht : x.subTok ≠ 0) (hb : s.sessOf c = some b) :
    ∃ s', recv s c (.unsubscribe topics id) = .ok [s'] ∧
    ∃ b' x', s'.sessOf c = some b' ∧ s'.conn? c = some x' ∧ x'.alive = true ∧
      b'.subs = topics.foldl (fun n t => Tree.emptyTopic t n) b.subs ∧
      b'.tempQ = b.tempQ ∧ b'.storedQ = b.storedQ ∧
      AckEffect s s' c x x' (.unsuback id) ∧
      (s.lateAck = false ∧ s.neverAck = false → x'.ackOut = x.ackOut ++ [.unsuback id]) := by
  obtain ⟨s', h0, b', x', h1, h2, h3, h4, h5, h6, _, _, h9⟩ :=
    BrokerB1.recv_unsubscribe s c x b topics id hc ha hp ht hb
  refine ⟨s', h0, b', x', h1, h2, h3, h4, h5, h6, h9, ?_⟩
  rintro ⟨hl, hn⟩
  unfold BrokerB1.AckEffect at h9
  simp only [hl, hn, Bool.false_eq_true, if_false] at h9
  exact h9.1

/-! ### one publish seen from one session -/

/-- exactly one copy of `m` — capped by the grant of `b`, the session at that moment — was appended
    to the queue of the class of `m` (its published QoS), nothing else changed -/
def OneCopy (g : Nat) (m : Message) (b b' : BSess) : Prop :=
  (if m.qos = 0 then b'.tempQ = b.tempQ ++ [(g, applyQOS b m)] ∧ b'.storedQ = b.storedQ
   else b'.storedQ = b.storedQ ++ [applyQOS b m] ∧ b'.tempQ = b.tempQ)
  ∧ b'.subs = b.subs ∧ b'.sess = b.sess ∧ b'.active = b.active

/-- a stored session (online or offline) across `Backend.Publish` -/
theorem publish_stored_session (s s' : BState) (c : ConnId) (m : Message)
    (h : backendPublish s c m = .ok s') (k : ClientId) (b : BSess) (hg : Assoc.get s.stored k = some b) :
    ∃ b', Assoc.get s'.stored k = some b' ∧
      FanRel s.cfg { m with retain := false } s.nextGroup (k, b) (k, b') :=
  BrokerB1.Rel2.get (fun _ _ h => h.1) (publish_fanout s s' c m h).1 k b hg

/-- a temporary session across `Backend.Publish` -/
theorem publish_temp_session (s s' : BState) (c : ConnId) (m : Message)
    (h : backendPublish s c m = .ok s') (k : ConnId) (b : BSess) (hg : Assoc.get s.temp k = some b) :
    ∃ b', Assoc.get s'.temp k = some b' ∧
      FanRel s.cfg { m with retain := false } s.nextGroup (k, b) (k, b') :=
  BrokerB1.Rel2.get (fun _ _ h => h.1) (publish_fanout s s' c m h).2.1 k b hg

/-- the session of a connection across `Backend.Publish` -/
theorem publish_session (s s' : BState) (c : ConnId) (m : Message)
    (h : backendPublish s c m = .ok s') (c' : ConnId) (b : BSess) (hb : s.sessOf c' = some b) :
    ∃ b', s'.sessOf c' = some b' ∧
      FanRel s.cfg { m with retain := false } s.nextGroup (c', b) (c', b') := by
  cases hc : s.conn? c' with
  | none => simp [sessOf, hc] at hb
  | some x =>
    have hc' : s'.conn? c' = some x := by
      unfold conn?; rw [(publish_fanout s s' c m h).2.2]; exact hc
    rw [BrokerB1.sessOf_eq s c' x hc] at hb
    rw [BrokerB1.sessOf_eq s' c' x hc']
    cases hr : x.sref with
    | none => rw [hr] at hb; cases hb
    | temp =>
      rw [hr] at hb
      exact publish_temp_session s s' c m h c' b hb
    | stored id =>
      rw [hr] at hb
      obtain ⟨b', h1, h2⟩ := publish_stored_session s s' c m h id b hb
      exact ⟨b', h1, rfl, h2.2⟩

/-- a session without a matching subscription is not touched by the publish: nothing is ever
    queued on account of a filter that is not (or no longer) in the tree -/
theorem no_match_no_copy (s s' : BState) (c : ConnId) (m : Message) (h : backendPublish s c m = .ok s') :
    (∀ k b, Assoc.get s.stored k = some b → subQos b m.topic = none → Assoc.get s'.stored k = some b) ∧
    (∀ k b, Assoc.get s.temp k = some b → subQos b m.topic = none → Assoc.get s'.temp k = some b) ∧
    (∀ c' b, s.sessOf c' = some b → subQos b m.topic = none → s'.sessOf c' = some b) := by
  refine ⟨?_, ?_, ?_⟩
  · intro k b hg hn
    obtain ⟨b', h1, _, h2⟩ := publish_stored_session s s' c m h k b hg
    have : subQos b ({ m with retain := false } : Message).topic = none := hn
    simp only [this, Option.isSome_none, Bool.false_eq_true, if_false] at h2
    rw [h1, h2]
  · intro k b hg hn
    obtain ⟨b', h1, _, h2⟩ := publish_temp_session s s' c m h k b hg
    have : subQos b ({ m with retain := false } : Message).topic = none := hn
    simp only [this, Option.isSome_none, Bool.false_eq_true, if_false] at h2
    rw [h1, h2]
  · intro k b hg hn
    obtain ⟨b', h1, _, h2⟩ := publish_session s s' c m h k b hg
    have : subQos b ({ m with retain := false } : Message).topic = none := hn
    simp only [this, Option.isSome_none, Bool.false_eq_true, if_false] at h2
    rw [h1, h2]

/-- a session with a matching subscription gets exactly one copy — topic and payload of the
    publish, retain flag cleared, QoS capped by the session's grant (`enqueued_copy_capped`) — or,
    if it is offline and its queue is full, nothing -/
theorem match_one_copy (s s' : BState) (c : ConnId) (m : Message) (h : backendPublish s c m = .ok s')
    (c' : ConnId) (b : BSess) (hb : s.sessOf c' = some b) (hs : (subQos b m.topic).isSome) :
    ∃ b', s'.sessOf c' = some b' ∧
      (OneCopy s.nextGroup { m with retain := false } b b' ∨
       (b' = b ∧ b.active = none ∧ enqueue s.cfg b { m with retain := false } s.nextGroup = .full)) := by
  obtain ⟨b', h1, _, h2⟩ := publish_session s s' c m h c' b hb
  refine ⟨b', h1, ?_⟩
  have : (subQos b ({ m with retain := false } : Message).topic).isSome = true := hs
  simp only [this, if_true] at h2
  rcases h2 with h2 | ⟨h2, h3, h4⟩
  · exact Or.inl (enqueue_one_copy _ _ _ _ _ h2)
  · exact Or.inr ⟨h4, h3, h2⟩

/-! ### the cap at enqueue time (`queue(sess) <- sess.applyQOS(msg)`) -/

/-- `cp` is a copy of the publish `m` capped by the grant `q`: QoS = min(published, granted), topic
    and payload intact, retain flag cleared -/
def CappedCopy (m : Message) (q : Nat) (cp : Message) : Prop :=
  cp.qos.toNat = min m.qos.toNat q ∧ cp.topic = m.topic ∧ cp.payload = m.payload ∧ cp.retain = false

/-- the copy `Backend.Publish` makes for a session whose `MatchFirst` grant is `q` -/
theorem applyQOS_cappedCopy (b : BSess) (m : Message) (q : Nat) (hq : subQos b m.topic = some q) :
    CappedCopy m q (applyQOS b { m with retain := false }) := by
  obtain ⟨a1, a2, a3, a4⟩ := applyQOS_min b { m with retain := false } q hq
  exact ⟨a1, a2, a3, a4⟩

/-- session `b` became `b'` by getting exactly the message `cp` appended to the queue of the class
    of the publish `m` (its published QoS selects the queue), under group `g`; nothing else changed -/
def Appended (g : Nat) (m cp : Message) (b b' : BSess) : Prop :=
  (if m.qos = 0 then b'.tempQ = b.tempQ ++ [(g, cp)] ∧ b'.storedQ = b.storedQ
   else b'.storedQ = b.storedQ ++ [cp] ∧ b'.tempQ = b.tempQ)
  ∧ b'.subs = b.subs ∧ b'.sess = b.sess ∧ b'.active = b.active

/-- CAP AT ENQUEUE, a completed publish seen from the session of one connection: if `MatchFirst`
    finds the grant `q` in the session's tree when the broker processes the publish, the one copy put
    on its queue has QoS = min(published, q) — in particular ≤ q —, topic and payload intact, retain
    flag cleared (or nothing is queued: offline and full) -/
theorem enqueued_copy_capped (s s' : BState) (c : ConnId) (m : Message) (h : backendPublish s c m = .ok s')
    (c' : ConnId) (b : BSess) (hb : s.sessOf c' = some b) (q : Nat) (hq : subQos b m.topic = some q) :
    ∃ b', s'.sessOf c' = some b' ∧
      ((∃ cp, Appended s.nextGroup m cp b b' ∧ CappedCopy m q cp ∧ cp = applyQOS b { m with retain := false }) ∨
       (b' = b ∧ b.active = none ∧ enqueue s.cfg b { m with retain := false } s.nextGroup = .full)) := by
  obtain ⟨b', h1, h2⟩ := match_one_copy s s' c m h c' b hb (by rw [hq]; rfl)
  refine ⟨b', h1, ?_⟩
  rcases h2 with h2 | h2
  · exact Or.inl ⟨_, h2, applyQOS_cappedCopy b m q hq, rfl⟩
  · exact Or.inr h2

/-- what a fan-out that got as far as session `b` did to it: nothing (no matching subscription, or
    no room), or exactly one copy capped by the grant `MatchFirst` finds in `b` -/
def AppendedCapped (g : Nat) (m : Message) (b b' : BSess) : Prop :=
  b' = b ∨ ∃ q cp, subQos b m.topic = some q ∧ CappedCopy m q cp ∧ Appended g m cp b b'

theorem fanOne_appendedCapped (cfg : Cfg) (m : Message) (g : Nat) (b : BSess) :
    AppendedCapped g m b (BrokerB3.fanOne cfg { m with retain := false } g b) := by
  unfold BrokerB3.fanOne
  cases hq : subQos b ({ m with retain := false } : Message).topic with
  | none => exact Or.inl (by simp)
  | some q =>
    simp only [Option.isSome_some, if_true]
    cases he : enqueue cfg b { m with retain := false } g with
    | full => exact Or.inl rfl
    | ok b1 =>
      exact Or.inr ⟨q, _, hq, applyQOS_cappedCopy b m q hq, enqueue_one_copy cfg b b1 _ g he⟩

/-- CAP AT ENQUEUE, every session, every outcome that returns (completed, or stopped at the
    publisher's own full queue): `Backend.Publish` changes a stored / temporary session by at most
    one appended message, and that message is a copy of the publish capped by the grant `MatchFirst`
    finds in that session at that moment.  Nothing with a higher QoS is ever put on a queue. -/
theorem publish_appends_only_capped (s s' : BState) (c : ConnId) (m : Message)
    (h : backendPublish s c m = .ok s' ∨ backendPublish s c m = .queueFull s') :
    (∀ k b, Assoc.get s.stored k = some b →
      ∃ b', Assoc.get s'.stored k = some b' ∧ AppendedCapped s.nextGroup m b b') ∧
    (∀ k b, Assoc.get s.temp k = some b →
      ∃ b', Assoc.get s'.temp k = some b' ∧ AppendedCapped s.nextGroup m b b') := by
  have key : ∃ temp' stored', s' = { BrokerB3.pubPre s c m with temp := temp', stored := stored' } ∧
      BrokerB3.FanPrefix s.cfg { m with retain := false } s.nextGroup s.temp temp' ∧
      BrokerB3.FanPrefix s.cfg { m with retain := false } s.nextGroup s.stored stored' := by
    rcases h with h | h
    · obtain ⟨t, st, e, f1, f2, _⟩ := BrokerB3.backendPublish_cases (full := false) h
      exact ⟨t, st, e, f1, f2⟩
    · obtain ⟨t, st, e, f1, f2, _⟩ := BrokerB3.backendPublish_cases (full := true) h
      exact ⟨t, st, e, f1, f2⟩
  obtain ⟨temp', stored', rfl, f1, f2⟩ := key
  refine ⟨?_, ?_⟩
  · intro k b hg
    rcases f2.get k with e | e
    · exact ⟨b, by show Assoc.get stored' k = some b; rw [e, hg], Or.inl rfl⟩
    · exact ⟨_, by show Assoc.get stored' k = some _; rw [e, hg]; rfl, fanOne_appendedCapped _ _ _ _⟩
  · intro k b hg
    rcases f1.get k with e | e
    · exact ⟨b, by show Assoc.get temp' k = some b; rw [e, hg], Or.inl rfl⟩
    · exact ⟨_, by show Assoc.get temp' k = some _; rw [e, hg]; rfl, fanOne_appendedCapped _ _ _ _⟩

/-! ### both caps together: what is delivered is bounded by the grant at PUBLISH time -/

/-- A copy capped at enqueue stays capped: let `cp` be the copy queued for a session whose tree was
    `b₀.subs` and granted `q` when the broker processed the publish `m₀`; whatever the session's
    subscriptions are when the copy is taken off the queue (`b` is ANY session state: the filter
    may have been removed, replaced by a higher or a lower grant, …), what goes out has
    QoS ≤ min(published, q), topic and payload of the publish, retain flag cleared. -/
theorem capped_at_enqueue_stays_capped (b₀ b : BSess) (m₀ : Message) (q : Nat)
    (hq : subQos b₀ m₀.topic = some q) :
    (applyQOS b (applyQOS b₀ { m₀ with retain := false })).qos.toNat ≤ min m₀.qos.toNat q ∧
    (applyQOS b (applyQOS b₀ { m₀ with retain := false })).topic = m₀.topic ∧
    (applyQOS b (applyQOS b₀ { m₀ with retain := false })).payload = m₀.payload ∧
    (applyQOS b (applyQOS b₀ { m₀ with retain := false })).retain = false := by
  obtain ⟨c1, c2, c3, c4⟩ := applyQOS_cappedCopy b₀ m₀ q hq
  obtain ⟨d1, d2, d3, d4⟩ := applyQOS_le b (applyQOS b₀ { m₀ with retain := false })
  exact ⟨by rw [← c1]; exact d1, d2.trans c2, d3.trans c3, d4.trans c4⟩

/-- the delivered message never has a higher QoS than the queue entry it was made from —
    unconditionally (no hypothesis on the subscriptions in force at delivery time) -/
theorem delivered_le_queued (s s' : BState) (c : ConnId) (x : BConn) (b : BSess) (m : Message) (id : UInt16)
    (h : acceptDelivery s c x b m id = some s') :
    ∃ hd, (b.storedQ.head? = some hd ∨
           ∃ g, (b.tempQ.head?.map (·.1)) = some g ∧ (g, hd) ∈ b.tempQ.takeWhile (·.1 = g)) ∧
      m = applyQOS b hd ∧
      m.qos.toNat ≤ hd.qos.toNat ∧ m.topic = hd.topic ∧ m.payload = hd.payload ∧ m.retain = hd.retain := by
  obtain ⟨hd, h1, h2⟩ := delivery_is_capped_head s s' c x b m id h
  subst h2
  exact ⟨hd, h1, rfl, applyQOS_le b hd⟩

/-- END TO END: the dequeuer delivers `m` made from the queue entry `hd`.  If `hd` is the copy that
    `Backend.Publish` queued for this session on account of the publish `m₀` when the session's tree
    (`b₀`, any earlier state of the session) granted `q` (`enqueued_copy_capped` /
    `publish_appends_only_capped`: every entry a publish puts on a queue is of this form), then the
    delivered QoS is ≤ min(published, q) — the grant in force when the broker processed the publish
    — with topic and payload of the publish and the retain flag cleared: NO MATTER how the
    subscriptions changed in between (`b`, the session now, is not related to `b₀` in any way). -/
theorem delivered_capped_by_publish_grant (s s' : BState) (c : ConnId) (x : BConn) (b : BSess)
    (m : Message) (id : UInt16) (h : acceptDelivery s c x b m id = some s') :
    ∃ hd, (b.storedQ.head? = some hd ∨
           ∃ g, (b.tempQ.head?.map (·.1)) = some g ∧ (g, hd) ∈ b.tempQ.takeWhile (·.1 = g)) ∧
      m.qos.toNat ≤ hd.qos.toNat ∧
      ∀ (b₀ : BSess) (m₀ : Message) (q : Nat), subQos b₀ m₀.topic = some q →
        hd = applyQOS b₀ { m₀ with retain := false } →
        m.qos.toNat ≤ min m₀.qos.toNat q ∧ m.topic = m₀.topic ∧ m.payload = m₀.payload ∧ m.retain = false := by
  obtain ⟨hd, h1, h2, h3, _⟩ := delivered_le_queued s s' c x b m id h
  refine ⟨hd, h1, h3, ?_⟩
  intro b₀ m₀ q hq he
  subst h2; subst he
  exact capped_at_enqueue_stays_capped b₀ b m₀ q hq

/-- the same for the dying dequeuer (`lastDequeue` inside `kill`): what it records as outgoing is
    `applyQOS` of the entry it popped, hence bounded in the same way -/
theorem lastDequeue_capped_by_publish_grant {s : BState} {c : ConnId} {x : BConn} {s1 : BState}
    (h : s1 ∈ lastDequeue s c x) :
    s1 = s ∨ ∃ b hd bq, s.sessOf c = some b ∧
      (b.storedQ.head? = some hd ∨
       ∃ g, (b.tempQ.head?.map (·.1)) = some g ∧ (g, hd) ∈ b.tempQ.takeWhile (·.1 = g)) ∧
      s1 = BrokerB3.lastTake s c bq (applyQOS b hd) ∧
      ∀ (b₀ : BSess) (m₀ : Message) (q : Nat), subQos b₀ m₀.topic = some q →
        hd = applyQOS b₀ { m₀ with retain := false } →
        (applyQOS b hd).qos.toNat ≤ min m₀.qos.toNat q := by
  rcases BrokerB3.lastDequeue_cases h with h | ⟨_, _, b, out, bq, hb, hp, e⟩
  · exact Or.inl h
  · right
    cases hp with
    | stored hd rest hq ho =>
      subst ho
      refine ⟨b, hd, _, hb, Or.inl (by rw [hq]; rfl), e, ?_⟩
      intro b₀ m₀ q h0 he; subst he
      exact (capped_at_enqueue_stays_capped b₀ b m₀ q h0).1
    | temp g m0 tl en hq hm ho =>
      subst ho
      refine ⟨b, en.2, _, hb, Or.inr ⟨g, by rw [hq]; rfl, ?_⟩, e, ?_⟩
      · have hg : en.1 = g := by
          simpa using List.all_eq_true.1
            (List.all_takeWhile (l := b.tempQ) (p := fun e => decide (e.1 = g))) en hm
        have : (g, en.2) = en := by rw [← hg]
        rw [this]; exact hm
      · intro b₀ m₀ q h0 he; rw [he]
        exact (capped_at_enqueue_stays_capped b₀ b m₀ q h0).1

/-- overlapping subscriptions: a session holding several filters that all match still gets one
    copy — its queues grow by exactly one entry (or by none: offline and full) -/
theorem one_copy_even_if_overlapping (s s' : BState) (c : ConnId) (m : Message)
    (h : backendPublish s c m = .ok s') (c' : ConnId) (b : BSess) (hb : s.sessOf c' = some b)
    (hw : b.subs.WF) (hn : NoWild (walk m.topic)) (f₁ f₂ : List Level) (q₁ q₂ : Nat) (_hne : f₁ ≠ f₂)
    (h₁ : q₁ ∈ stored b.subs f₁) (m₁ : tmatches f₁ (walk m.topic) = true)
    (_h₂ : q₂ ∈ stored b.subs f₂) (_m₂ : tmatches f₂ (walk m.topic) = true) :
    ∃ b', s'.sessOf c' = some b' ∧
      (b'.tempQ.length + b'.storedQ.length = b.tempQ.length + b.storedQ.length + 1 ∨
       (b' = b ∧ b.active = none)) := by
  have hs : (subQos b m.topic).isSome := (subQos_iff b hw m.topic hn).2 ⟨f₁, q₁, h₁, m₁⟩
  obtain ⟨b', h1, h2⟩ := match_one_copy s s' c m h c' b hb hs
  refine ⟨b', h1, ?_⟩
  rcases h2 with h2 | h2
  · left
    obtain ⟨h2, _⟩ := h2
    split at h2
    · rw [h2.1, h2.2]; simp; omega
    · rw [h2.1, h2.2]; simp; omega
  · exact Or.inr ⟨h2.1, h2.2.1⟩

/-- after an UNSUBSCRIBE a session attracts nothing on account of the removed filters: if every
    filter of the session that matches the topic was named in the packet, the session holds no
    matching subscription any more (so, by `no_match_no_copy`, a publish leaves it untouched) -/
theorem unsubscribed_attracts_nothing (b : BSess) (hw : b.subs.WF) (topics : List Bytes) (t : Bytes)
    (hn : NoWild (walk t))
    (hall : ∀ f q, q ∈ stored b.subs f → tmatches f (walk t) = true → f ∈ topics.map walk) :
    subQos { b with subs := topics.foldl (fun n u => Tree.emptyTopic u n) b.subs } t = none := by
  have hw' := BrokerB1.WF_foldl_empty topics b.subs hw
  cases hs : subQos { b with subs := topics.foldl (fun n u => Tree.emptyTopic u n) b.subs } t with
  | none => rfl
  | some q =>
    exfalso
    have := (subQos_iff { b with subs := topics.foldl (fun n u => Tree.emptyTopic u n) b.subs } hw' t hn).1
      (by rw [hs]; rfl)
    obtain ⟨f, q', h1, h2⟩ := this
    simp only [unsubscribe_all_removed b.subs hw topics f] at h1
    split at h1
    · cases h1
    · rename_i hf
      exact hf (hall f q' h1 h2)

/-! ### non-vacuity: a concrete broker state satisfying the hypotheses used above -/

/-- "a/+" ↦ QoS 1 and "a/#" ↦ QoS 0: two overlapping filters -/
def exSubs : Node := Tree.set [97, 47, 43] 1 (Tree.set [97, 47, 35] 0 Node.empty)
/-- connection 0 holds the two overlapping filters, connection 1 holds none -/
def exState : BState :=
  { conns := [(0, { phase := .connected, sref := .temp, running := true, subTok := 10, pubTok := 10 }),
              (1, { phase := .connected, sref := .temp, running := true, subTok := 10, pubTok := 10 })],
    temp := [(0, { subs := exSubs, active := some 0 }), (1, { active := some 1 })] }
/-- a retained QoS-1 publish to "a/b" -/
def exMsg : Message := ⟨[97, 47, 98], [1], 1, true⟩

example : ∃ s', backendPublish exState 1 exMsg = .ok s' := ⟨_, rfl⟩
example : exSubs.WF := WF_set _ _ _ (WF_set _ _ _ WF_empty)
example : NoWild (walk exMsg.topic) := by unfold NoWild; decide
example : (1 : Nat) ∈ stored exSubs [[97], wildOne] ∧ (0 : Nat) ∈ stored exSubs [[97], wildSome] ∧
    tmatches [[97], wildOne] (walk exMsg.topic) = true ∧ tmatches [[97], wildSome] (walk exMsg.topic) = true := by
  decide
example : exState.sessOf 0 = some { subs := exSubs, active := some 0 } := rfl
example : subQos { subs := exSubs, active := some 0 } exMsg.topic = some 0 := by decide
example : subQos ({ active := some 1 } : BSess) exMsg.topic = none := by decide

/-- SUBSCRIBE ["a/b" @ 2, "c" @ 0] on connection 1: accepted, the connection stays alive, SUBACK queued -/
example : ∃ s', recv exState 1 (.subscribe [⟨[97, 47, 98], 2⟩, ⟨[99], 0⟩] 7) = .ok [s'] ∧
    ∃ x', s'.conn? 1 = some x' ∧ x'.alive = true ∧ x'.ackOut = [.suback [2, 0] 7] := by
  simp [recv, exState, conn?, Assoc.get, Assoc.set, setConn, sessOf, setSessOf, ackVia, updConn,
    subscribeRetained, BrokerB1.search_empty, queueRetained, Res.one]
example : ∃ x b, exState.conn? 1 = some x ∧ x.alive = true ∧ x.phase = .connected ∧ x.subTok ≠ 0 ∧
    exState.sessOf 1 = some b := ⟨_, _, rfl, rfl, rfl, by decide, rfl⟩
/-- a delivery is accepted: QoS-0 message at the head of the temporary queue of connection 0 -/
example : ∃ s', acceptDelivery
    { exState with temp := [(0, { subs := exSubs, active := some 0, tempQ := [(0, ⟨[97, 47, 98], [1], 0, false⟩)] })] }
    0 { phase := .connected, sref := .temp, running := true, deqHand := true }
    { subs := exSubs, active := some 0, tempQ := [(0, ⟨[97, 47, 98], [1], 0, false⟩)] }
    ⟨[97, 47, 98], [1], 0, false⟩ 0 = some s' := ⟨_, rfl⟩

/-- cap at enqueue, concretely: the retained QoS-1 publish to "a/b" is queued for connection 0 —
    whose `MatchFirst` grant is 0 ("a/#" @ 0 wins over "a/+" @ 1) — on the STORED queue (published
    QoS 1) as a QoS-0 copy with the retain flag cleared -/
def exCopy : Message := ⟨[97, 47, 98], [1], 0, false⟩
example : ∃ s', backendPublish exState 1 exMsg = .ok s' ∧
    s'.sessOf 0 = some { subs := exSubs, active := some 0, storedQ := [exCopy] } := ⟨_, rfl, rfl⟩
example : CappedCopy exMsg 0 exCopy := by unfold CappedCopy; decide
example : Appended exState.nextGroup exMsg exCopy { subs := exSubs, active := some 0 }
    { subs := exSubs, active := some 0, storedQ := [exCopy] } := by
  refine ⟨?_, rfl, rfl, rfl⟩
  rw [if_neg (by decide)]
  exact ⟨rfl, rfl⟩
/-- … and stays capped: after the subscriptions have been removed (empty tree) the dequeuer of
    connection 0 delivers the QoS-0 copy (packet id 0), NOT a QoS-1 message as published -/
example : ∃ s', acceptDelivery
    { exState with temp := [(0, { active := some 0, storedQ := [exCopy] })] }
    0 { phase := .connected, sref := .temp, running := true, deqHand := true }
    { active := some 0, storedQ := [exCopy] } exCopy 0 = some s' := ⟨_, rfl⟩
example : ∀ id, acceptDelivery
    { exState with temp := [(0, { active := some 0, storedQ := [exCopy] })] }
    0 { phase := .connected, sref := .temp, running := true, deqHand := true }
    { active := some 0, storedQ := [exCopy] } { exMsg with retain := false } id = none := by
  intro id; rfl
/-- the hypotheses of `delivered_capped_by_publish_grant`'s inner implication are satisfiable:
    `exCopy` is the copy made for a session granting 0 -/
example : subQos { subs := exSubs, active := some 0 } exMsg.topic = some 0 ∧
    exCopy = applyQOS { subs := exSubs, active := some 0 } { exMsg with retain := false } := by decide

/-- the hypotheses of `recv_subscribe_subs` hold in a REACHABLE state: connection 0 after CONNECT -/
example : ∃ s x b, Reachable {} s ∧ s.conn? 0 = some x ∧ x.alive = true ∧ x.phase = .connected ∧
    x.subTok ≠ 0 ∧ s.sessOf 0 = some b := by
  have r0 : Reachable {} ({ cfg := {} } : BState) := .init
  have r1 := Reachable.step r0 (Step.stim (.conn 0) _ rfl (List.mem_singleton.2 rfl))
  have r2 := Reachable.step r1 (Step.stim (.send 0 (.connect [] 0 [] [] true none 4)) _ rfl (List.mem_singleton.2 rfl))
  exact ⟨_, _, _, r2, rfl, rfl, rfl, by decide, rfl⟩

/-! ### the `Node.WF` hypothesis is discharged for reachable states (global invariant) -/

/-- Every subscription trie of every stored and every temporary session of every reachable broker
    state is well formed: a session starts with the empty trie, which is only ever changed by
    `Tree.set` (SUBSCRIBE) and `Tree.emptyTopic` (UNSUBSCRIBE).  Stated for the members of the two
    session lists (not only for the entries `Assoc.get` finds). -/
theorem reachable_subs_wf {cfg : Cfg} {s : BState} (h : Reachable cfg s) :
    (∀ e ∈ s.stored, e.2.subs.WF) ∧ (∀ e ∈ s.temp, e.2.subs.WF) := BrokerB5.reachable_wf h

/-- … in particular the session a connection uses -/
theorem reachable_sessOf_wf {cfg : Cfg} {s : BState} (h : Reachable cfg s) {c : ConnId} {b : BSess}
    (hb : s.sessOf c = some b) : b.subs.WF := (BrokerB5.reachable_wf h).sessOf hb

/-- `subQos_iff` without the `WF` hypothesis, for any session of a reachable state -/
theorem reachable_subQos_iff {cfg : Cfg} {s : BState} (h : Reachable cfg s) (b : BSess)
    (hb : (∃ k, (k, b) ∈ s.stored) ∨ (∃ k, (k, b) ∈ s.temp)) (t : Bytes) (hn : NoWild (walk t)) :
    (subQos b t).isSome ↔ ∃ f q, q ∈ stored b.subs f ∧ tmatches f (walk t) = true := by
  refine subQos_iff b ?_ t hn
  rcases hb with ⟨k, hk⟩ | ⟨k, hk⟩
  · exact (reachable_subs_wf h).1 _ hk
  · exact (reachable_subs_wf h).2 _ hk

/-- `subQos_sound` without the `WF` hypothesis, for any session of a reachable state -/
theorem reachable_subQos_sound {cfg : Cfg} {s : BState} (h : Reachable cfg s) (b : BSess)
    (hb : (∃ k, (k, b) ∈ s.stored) ∨ (∃ k, (k, b) ∈ s.temp)) (t : Bytes) (hn : NoWild (walk t)) (q : Nat)
    (hq : subQos b t = some q) : ∃ f, q ∈ stored b.subs f ∧ tmatches f (walk t) = true := by
  refine subQos_sound b ?_ t hn q hq
  rcases hb with ⟨k, hk⟩ | ⟨k, hk⟩
  · exact (reachable_subs_wf h).1 _ hk
  · exact (reachable_subs_wf h).2 _ hk

/-- the same two facts for the session a connection of a reachable state uses -/
theorem reachable_conn_subQos_iff {cfg : Cfg} {s : BState} (h : Reachable cfg s) {c : ConnId} {b : BSess}
    (hb : s.sessOf c = some b) (t : Bytes) (hn : NoWild (walk t)) :
    (subQos b t).isSome ↔ ∃ f q, q ∈ stored b.subs f ∧ tmatches f (walk t) = true :=
  subQos_iff b (reachable_sessOf_wf h hb) t hn

theorem reachable_conn_subQos_sound {cfg : Cfg} {s : BState} (h : Reachable cfg s) {c : ConnId} {b : BSess}
    (hb : s.sessOf c = some b) (t : Bytes) (hn : NoWild (walk t)) (q : Nat) (hq : subQos b t = some q) :
    ∃ f, q ∈ stored b.subs f ∧ tmatches f (walk t) = true :=
  subQos_sound b (reachable_sessOf_wf h hb) t hn q hq


/-- `unsubscribe_removes` / `unsubscribe_all_removed` / `unsubscribed_attracts_nothing` without the `WF`
    hypothesis, for the session a connection of a reachable state uses -/
theorem reachable_unsubscribe_all_removed {cfg : Cfg} {s : BState} (h : Reachable cfg s) {c : ConnId} {b : BSess}
    (hb : s.sessOf c = some b) (ts : List Bytes) (p : List Level) :
    stored (ts.foldl (fun n t => Tree.emptyTopic t n) b.subs) p = if p ∈ ts.map walk then [] else stored b.subs p :=
  unsubscribe_all_removed b.subs (reachable_sessOf_wf h hb) ts p

theorem reachable_unsubscribed_attracts_nothing {cfg : Cfg} {s : BState} (h : Reachable cfg s) {c : ConnId}
    {b : BSess} (hb : s.sessOf c = some b) (topics : List Bytes) (t : Bytes) (hn : NoWild (walk t))
    (hall : ∀ f q, q ∈ stored b.subs f → tmatches f (walk t) = true → f ∈ topics.map walk) :
    subQos { b with subs := topics.foldl (fun n u => Tree.emptyTopic u n) b.subs } t = none :=
  unsubscribed_attracts_nothing b (reachable_sessOf_wf h hb) topics t hn hall


/-! non-vacuity -/

/-- connection 0 after an accepted CONNECT (anonymous, clean session) … -/
def exUp : BState :=
  { conns := [(0, { phase := .connected, sref := .temp, procOut := [.connack false 0], pubTok := 10, subTok := 10,
                    deqChan := 9, deqHand := true, running := true })],
    temp := [(0, { active := some 0 })], bevents := [.setup 0 false] }

/-- … is a reachable state -/
theorem exUp_reachable : Reachable {} exUp := by
  have r0 : Reachable {} ({ cfg := {} } : BState) := .init
  have r1 := Reachable.step r0 (Step.stim (.conn 0) _ rfl (List.mem_singleton.2 rfl))
  exact Reachable.step r1 (Step.stim (.send 0 (.connect [] 0 [] [] true none 4)) [exUp] rfl (List.mem_singleton.2 rfl))

def exSub : BSess := { subs := Tree.set [97, 47, 43] 1 Node.empty, active := some 0 }

theorem exUp_subscribe : ∃ s', stim exUp (.send 0 (.subscribe [⟨[97, 47, 43], 1⟩] 1)) = .ok [s'] ∧
    s'.temp = [(0, exSub)] ∧ s'.sessOf 0 = some exSub := by
  simp [stim, recv, exUp, exSub, conn?, Assoc.get, Assoc.set, setConn, sessOf, setSessOf, ackVia, updConn,
    subscribeRetained, BrokerB1.search_empty, queueRetained, Res.one]

/-- non-vacuity of `reachable_subQos_iff` / `reachable_conn_subQos_iff`: a reachable state with a session
    holding the subscription "a/+" @ 1 (made by a SUBSCRIBE after an accepted CONNECT), which matches "a/b" -/
example : ∃ s b, Reachable {} s ∧ s.sessOf 0 = some b ∧ (∃ k, (k, b) ∈ s.temp) ∧
    (1 : Nat) ∈ stored b.subs [[97], wildOne] ∧ subQos b [97, 47, 98] = some 1 := by
  obtain ⟨s', h1, h2, h3⟩ := exUp_subscribe
  refine ⟨s', exSub, Reachable.step exUp_reachable (Step.stim _ _ h1 (List.mem_singleton.2 rfl)), h3,
    ⟨0, by rw [h2]; exact List.mem_singleton.2 rfl⟩, by decide, by decide⟩

end C06
