import Model.Broker
import Proofs.BrokerProc
import Proofs.BrokerSetup
import Proofs.BrokerB5Will
/-
  Props/C12.lean — property C12: the will is published exactly once iff an accepted client ends
  without DISCONNECT.  In the model every way a connection can end goes through `BState.kill`
  (`die`/`Close` followed by `cleanup`); the backend calls made are the list `bevents`.
  `BrokerB2.Succ r t`: `t` is one of the possible successor states of the outcome `r`.
  `BrokerB2.willEv c x` / `termEv c x`: the will publication / the Terminate call `cleanup` makes
  for a connection whose record is `x` (characterised by the first three theorems).
-/
namespace C12
open BState BrokerB2

/-! ### what `cleanup` publishes -/

/-- the will is published iff the client had been accepted (phase `connected`: CONNECT accepted, no
    DISCONNECT) and a will is stored; the message is the stored one, all four fields -/
theorem willEv_eq_iff (c : ConnId) (x : BConn) (w : Message) :
    willEv c x = [BEvent.publish c w] ↔ x.phase = .connected ∧ x.will = some w := by
  unfold willEv
  constructor
  · intro h
    split at h
    · rename_i w' hp hw
      simp only [List.cons.injEq, BEvent.publish.injEq, true_and, and_true] at h
      subst h; exact ⟨hp, hw⟩
    · cases h
  · rintro ⟨hp, hw⟩
    rw [hp, hw]

theorem willEv_nil_iff (c : ConnId) (x : BConn) :
    willEv c x = [] ↔ (x.phase ≠ .connected ∨ x.will = none) := by
  unfold willEv
  constructor
  · intro h
    split at h
    · cases h
    · rename_i hn
      cases hw : x.will with
      | none => exact Or.inr rfl
      | some w => exact Or.inl (fun hp => hn w hp hw)
  · intro h
    split
    · rename_i w hp hw
      rcases h with h | h
      · exact absurd hp h
      · rw [hw] at h; cases h
    · rfl

theorem termEv_eq (c : ConnId) (x : BConn) :
    termEv c x = if x.phase = .connecting then [] else [BEvent.terminate c] := rfl

/-! ### every way to end goes through `kill`, which publishes the will exactly when it must -/

/-- Closing a live connection whose goroutines can finish: the backend sees the will (iff accepted,
    not disconnected, will present — exactly the stored message) and then Terminate (iff the
    CONNECT had got as far as `Setup`), nothing else.  Which message the dying dequeuer may still
    take (`lastDequeue`) makes no difference. -/
theorem kill_will_events (s t : BState) (c : ConnId) (x : BConn)
    (h : s.conn? c = some x) (ha : x.alive = true) (hst : x.stalled = false) (ht : Succ (kill s c) t) :
    t.bevents = s.bevents ++ willEv c x ++ termEv c x := by
  have f := kill_frame s t c x h ha ht
  rw [f.bevents]
  simp [dieEv, hst, List.append_assoc]

/-- A connection whose goroutines are held up is closed, but `cleanup` has to wait: no backend
    call yet, the connection is marked `zombie`. -/
theorem kill_stalled_defers (s t : BState) (c : ConnId) (x : BConn)
    (h : s.conn? c = some x) (ha : x.alive = true) (hst : x.stalled = true) (ht : Succ (kill s c) t) :
    t.bevents = s.bevents ∧
    t.conn? c = some { x with alive := false, running := false, zombie := true } := by
  have f := kill_frame s t c x h ha ht
  refine ⟨by rw [f.bevents]; simp [dieEv, hst], ?_⟩
  rw [f.conn?_same]
  simp [closedRec, hst]

/-- … and when they continue, `cleanup` makes exactly the calls it would have made at once. -/
theorem unstall_will_events (s t : BState) (c : ConnId) (x : BConn)
    (h : s.conn? c = some x) (hz : x.zombie = true) (ht : Succ (stim s (.unstall c)) t) :
    t.bevents = s.bevents ++ willEv c x ++ termEv c x ∧
    t.conn? c = some { x with stalled := false, zombie := false } := by
  simp only [stim, h, hz, if_true] at ht
  have f := cleanup_succ _ _ _ _ ht
  refine ⟨by rw [f.bevents]; simp [List.append_assoc], ?_⟩
  rw [f.conn?]; exact conn?_setConn_same _ _ _

/-- `unstall` of a connection that is not waiting for its `cleanup` makes no backend call. -/
theorem unstall_not_zombie (s : BState) (c : ConnId) (x : BConn) (h : s.conn? c = some x) (hz : x.zombie = false) :
    stim s (.unstall c) = .one (s.setConn c { x with stalled := false }) := by
  simp [stim, h, hz]

/-! ### at most once -/

/-- `die` on a connection that is already closed does nothing. -/
theorem kill_dead_noop (s : BState) (c : ConnId) (x : BConn) (h : s.conn? c = some x) (ha : x.alive = false) :
    kill s c = .one s := kill_dead s c x h ha

/-- After `kill` the connection is closed … -/
theorem kill_not_alive (s t : BState) (c : ConnId) (x : BConn) (h : s.conn? c = some x) (ht : Succ (kill s c) t) :
    ∃ x', t.conn? c = some x' ∧ x'.alive = false ∧ x'.phase = x.phase ∧ x'.will = x.will := by
  obtain ⟨x', h1, h2, _, _, h3, h4, _⟩ := kill_conn_after s t c x h ht
  exact ⟨x', h1, h2, h3, h4⟩

/-- … so a second `kill` (any further termination cause) is a no-op: `cleanup` runs once. -/
theorem cleanup_once (s t : BState) (c : ConnId) (ht : Succ (kill s c) t) : kill t c = .one t := by
  cases h : s.conn? c with
  | none =>
    rw [kill_none s c h, succ_one] at ht; subst ht
    exact kill_none _ _ h
  | some x =>
    obtain ⟨x', h1, h2, _⟩ := kill_conn_after s t c x h ht
    exact kill_dead t c x' h1 h2

/-- `kill c` does not touch the record of any other connection. -/
theorem kill_other_untouched (s t : BState) (c c' : ConnId) (hc : c' ≠ c) (ht : Succ (kill s c) t) :
    t.conn? c' = s.conn? c' := kill_conn_other s t c c' hc ht

/-! ### DISCONNECT -/

/-- DISCONNECT: the will is discarded, the backend only sees Terminate. -/
theorem disconnect_no_will (s t : BState) (c : ConnId) (x : BConn)
    (h : s.conn? c = some x) (ha : x.alive = true) (hp : x.phase = .connected) (hst : x.stalled = false)
    (ht : Succ (recv s c .disconnect) t) :
    t.bevents = s.bevents ++ [BEvent.terminate c] ∧
    ∃ x', t.conn? c = some x' ∧ x'.alive = false ∧ x'.will = none ∧ x'.phase = .disconnected := by
  obtain ⟨ph, al, xid, xw, xs, xp, xa, pt, st, dc, dh, rn, cs, stl, zb⟩ := x
  simp only at ha hp hst
  subst ha hp hst
  unfold recv at ht
  simp only [h] at ht
  simp only [Bool.not_true, Bool.false_eq_true, if_false] at ht
  have h1 := conn?_setConn_same s c ⟨.disconnected, true, xid, none, xs, xp, xa, pt, st, dc, dh, rn, cs, false, zb⟩
  have e := kill_will_events _ t c _ h1 rfl rfl ht
  obtain ⟨x', a1, a2, a3, a4⟩ := kill_not_alive _ t c _ h1 ht
  exact ⟨by simpa [willEv, termEv] using e, x', a1, a2, a4, a3⟩

/-- … also when the connection's goroutines are held up: the deferred `cleanup` finds no will. -/
theorem disconnect_no_will_stalled (s t : BState) (c : ConnId) (x : BConn)
    (h : s.conn? c = some x) (ha : x.alive = true) (hp : x.phase = .connected)
    (ht : Succ (recv s c .disconnect) t) :
    ∃ x', t.conn? c = some x' ∧ x'.alive = false ∧ willEv c x' = [] := by
  obtain ⟨ph, al, xid, xw, xs, xp, xa, pt, st, dc, dh, rn, cs, stl, zb⟩ := x
  simp only at ha hp
  subst ha hp
  unfold recv at ht
  simp only [h] at ht
  simp only [Bool.not_true, Bool.false_eq_true, if_false] at ht
  have h1 := conn?_setConn_same s c ⟨.disconnected, true, xid, none, xs, xp, xa, pt, st, dc, dh, rn, cs, stl, zb⟩
  obtain ⟨x', a1, a2, a3, a4⟩ := kill_not_alive _ t c _ h1 ht
  exact ⟨x', a1, a2, (willEv_nil_iff c x').mpr (Or.inr a4)⟩

/-! ### CONNECT: which will is stored; a rejected connection has none -/

/-- After an accepted CONNECT the stored will is the will of the CONNECT packet (hence, by
    `kill_will_events`, the message published at the end is that one, field for field). -/
theorem will_is_connect_will (s t : BState) (c : ConnId) (x x' : BConn)
    (id : Bytes) (ka : UInt16) (u pw : Bytes) (clean : Bool) (will : Option Message) (v : UInt8)
    (h : s.conn? c = some x) (ha : x.alive = true) (hp : x.phase = .connecting) (hown : NotOwner s c)
    (ht : Succ (recv s c (.connect id ka u pw clean will v)) t)
    (hx' : t.conn? c = some x') (ha' : x'.alive = true) :
    x'.phase = .connected ∧ x'.will = will ∧ x'.id = id := by
  have dead : ∀ s', (∃ y, s'.conn? c = some y) → Succ (kill s' c) t → False := by
    intro s' ⟨y, hy⟩ hk
    obtain ⟨y', b1, b2, _⟩ := kill_conn_after s' t c y hy hk
    rw [hx'] at b1; cases b1
    rw [ha'] at b2; cases b2
  obtain ⟨ph, al, xid, xw, xs, xp, xa, pt, st, dc, dh, rn, cs, stl, zb⟩ := x
  simp only at ha hp
  subst ha hp
  unfold recv at ht
  simp only [h, setConn_closing] at ht
  simp only [Bool.not_true, Bool.false_eq_true, if_false] at ht
  split at ht
  · exact (dead _ ⟨_, conn?_setConn_same _ _ _⟩ ht).elim
  · split at ht
    · exact (dead _ ⟨_, conn?_setConn_same _ _ _⟩ ht).elim
    · have hown' : NotOwner (s.setConn c ⟨.connecting, true, id, xw, xs, xp, xa, pt, st, dc, dh, rn, cs, stl, zb⟩) c := hown
      cases setup_cases _ t c _ id clean will hown' ht with
      | closing _ hk => exact (dead _ ⟨_, conn?_setConn_same _ _ _⟩ hk).elim
      | timeout s2 _ hto hk =>
        exact (dead s2 ⟨_, hto.conn?.trans (conn?_setConn_same _ _ _)⟩ hk).elim
      | accepted s2 s3 xa' sp extra _ hto he a1 a2 a3 a4 =>
        subst he
        rw [conn?_setConn_same] at hx'
        cases hx'
        simp [a2, a3, a4]

/-- closing a connection that has no will to publish (not accepted, or none stored) makes no
    `Publish` call on its behalf — now or, if it is stalled, later -/
theorem kill_no_will (s t : BState) (c : ConnId) (y : BConn) (h : s.conn? c = some y)
    (hw : y.phase ≠ .connected ∨ y.will = none) (ht : Succ (kill s c) t) :
    (∃ ev, t.bevents = s.bevents ++ ev ∧ ∀ m, BEvent.publish c m ∉ ev) ∧
    ∃ y', t.conn? c = some y' ∧ y'.alive = false ∧ willEv c y' = [] ∧ y'.will = y.will := by
  obtain ⟨y', b1, b2, _, _, b3, b4, _⟩ := kill_conn_after s t c y h ht
  refine ⟨?_, y', b1, b2, (willEv_nil_iff c y').mpr (by rw [b3, b4]; exact hw), b4⟩
  cases ha : y.alive with
  | false => rw [kill_dead s c y h ha, succ_one] at ht; subst ht; exact ⟨[], by simp, by simp⟩
  | true =>
    refine ⟨dieEv c y, (kill_frame s t c y h ha ht).bevents, ?_⟩
    intro m hm
    unfold dieEv at hm
    split at hm
    · simp at hm
    · rw [(willEv_nil_iff c y).mpr hw] at hm
      simp only [List.nil_append, termEv] at hm
      split at hm <;> simp at hm

/-- A connection that is not accepted — first packet not a CONNECT, backend closing, authentication
    failed, `Setup` failed (kill timeout of the displaced connection) — publishes no will: not in
    this step, and the closed connection holds no will that a later `cleanup` could publish. -/
theorem rejected_no_will (s t : BState) (c : ConnId) (x : BConn) (p : Packet)
    (h : s.conn? c = some x) (ha : x.alive = true) (hp : x.phase = .connecting) (hw : x.will = none)
    (hown : NotOwner s c) (ht : Succ (recv s c p) t) :
    (∃ ev, t.bevents = s.bevents ++ ev ∧ ∀ m, BEvent.publish c m ∉ ev) ∧
    ∀ x', t.conn? c = some x' → x'.alive = false → willEv c x' = [] := by
  have fromKill : ∀ s' y, Succ (kill s' c) t → s'.bevents = s.bevents → s'.conn? c = some y →
      (y.phase ≠ .connected ∨ y.will = none) →
      (∃ ev, t.bevents = s.bevents ++ ev ∧ ∀ m, BEvent.publish c m ∉ ev) ∧
      ∀ x', t.conn? c = some x' → x'.alive = false → willEv c x' = [] := by
    intro s' y hk hb hy hyw
    obtain ⟨⟨ev, e1, e2⟩, y', b1, _, b3, _⟩ := kill_no_will s' t c y hy hyw hk
    refine ⟨⟨ev, by rw [e1, hb], e2⟩, ?_⟩
    intro x' hx' _
    rw [b1] at hx'; cases hx'; exact b3
  obtain ⟨ph, al, xid, xw, xs, xp, xa, pt, st, dc, dh, rn, cs, stl, zb⟩ := x
  simp only at ha hp hw
  subst ha hp hw
  unfold recv at ht
  simp only [h] at ht
  simp only [Bool.not_true, Bool.false_eq_true, if_false] at ht
  cases p with
  | connect id ka u pw clean will v =>
    simp only [setConn_closing] at ht
    rcases succ_ite_prop _ _ _ _ ht with ⟨_, ht⟩ | ⟨_, ht⟩
    · exact fromKill _ _ ht rfl (conn?_setConn_same _ _ _) (Or.inr rfl)
    · rcases succ_ite_prop _ _ _ _ ht with ⟨_, ht⟩ | ⟨_, ht⟩
      · exact fromKill _ _ ht rfl (conn?_setConn_same _ _ _) (Or.inr rfl)
      · have hown' : NotOwner (s.setConn c ⟨.connecting, true, id, none, xs, xp, xa, pt, st, dc, dh, rn, cs, stl, zb⟩) c := hown
        cases setup_cases _ t c _ id clean will hown' ht with
        | closing _ hk => exact fromKill _ _ hk rfl (conn?_setConn_same _ _ _) (Or.inr rfl)
        | timeout s2 _ hto hk =>
          obtain ⟨ev1, g1, g2⟩ := hto.bevents
          obtain ⟨⟨ev, e1, e2⟩, y', b1, _, b3, _⟩ :=
            kill_no_will s2 t c _ (hto.conn?.trans (conn?_setConn_same _ _ _)) (Or.inr rfl) hk
          refine ⟨⟨ev1 ++ ev, by rw [e1, g1]; simp, ?_⟩, ?_⟩
          · intro m hm
            rcases List.mem_append.mp hm with hm | hm
            · obtain ⟨oc, hne, hoc⟩ := g2 _ hm
              rcases hoc with hoc | ⟨w, hoc⟩
              · cases hoc
              · injection hoc with hoc; exact hne hoc.symm
            · exact e2 m hm
          · intro x' hx' _
            rw [b1] at hx'; cases hx'; exact b3
        | accepted s2 s3 xa' sp extra _ hto he a1 a2 a3 a4 a5 a6 a7 e1 e2 =>
          subst he
          obtain ⟨ev1, g1, g2⟩ := hto.bevents
          refine ⟨⟨ev1 ++ [.setup c sp], by simp [e2, g1], ?_⟩, ?_⟩
          · intro m hm
            rcases List.mem_append.mp hm with hm | hm
            · obtain ⟨oc, hne, hoc⟩ := g2 _ hm
              rcases hoc with hoc | ⟨w, hoc⟩
              · cases hoc
              · injection hoc with hoc; exact hne hoc.symm
            · simp at hm
          · intro x' hx' hal
            rw [conn?_setConn_same] at hx'; cases hx'
            simp [a1] at hal
  | connack => exact fromKill s _ ht rfl h (Or.inl (by simp))
  | publish => exact fromKill s _ ht rfl h (Or.inl (by simp))
  | puback => exact fromKill s _ ht rfl h (Or.inl (by simp))
  | pubrec => exact fromKill s _ ht rfl h (Or.inl (by simp))
  | pubrel => exact fromKill s _ ht rfl h (Or.inl (by simp))
  | pubcomp => exact fromKill s _ ht rfl h (Or.inl (by simp))
  | subscribe => exact fromKill s _ ht rfl h (Or.inl (by simp))
  | suback => exact fromKill s _ ht rfl h (Or.inl (by simp))
  | unsubscribe => exact fromKill s _ ht rfl h (Or.inl (by simp))
  | unsuback => exact fromKill s _ ht rfl h (Or.inl (by simp))
  | pingreq => exact fromKill s _ ht rfl h (Or.inl (by simp))
  | pingresp => exact fromKill s _ ht rfl h (Or.inl (by simp))
  | disconnect => exact fromKill s _ ht rfl h (Or.inl (by simp))

/-! ### every termination cause goes through `kill` -/

/-- the peer closes / the transport fails on receive (also: read timeout = 1.5 × keep-alive) -/
theorem cause_drop (s : BState) (c : ConnId) : stim s (.drop c) = kill s c := rfl

/-- the token timeout of a blocked dequeuer expires -/
theorem cause_tokenTimeout (s : BState) (c : ConnId) (x : BConn) (h : s.conn? c = some x)
    (hg : x.alive = true ∧ x.running = true ∧ x.deqHand = false ∧ x.deqChan = 0) :
    stim s (.tokenTimeout c) = kill s c := by
  obtain ⟨h1, h2, h3, h4⟩ := hg
  simp [stim, h, h1, h2, h3, h4]

/-- a first packet that is not a CONNECT -/
theorem cause_unexpected_first (s : BState) (c : ConnId) (x : BConn) (p : Packet)
    (h : s.conn? c = some x) (ha : x.alive = true) (hp : x.phase = .connecting)
    (hn : ∀ id ka u pw cl w v, p ≠ .connect id ka u pw cl w v) : recv s c p = kill s c := by
  unfold recv
  simp only [h, ha, hp]
  cases p <;> simp_all

/-- a second CONNECT, or a packet only a server sends -/
theorem cause_unexpected_packet (s : BState) (c : ConnId) (x : BConn) (p : Packet)
    (h : s.conn? c = some x) (ha : x.alive = true) (hp : x.phase = .connected)
    (hu : (∃ id ka u pw cl w v, p = .connect id ka u pw cl w v) ∨ (∃ sp code, p = .connack sp code) ∨
          (∃ codes id, p = .suback codes id) ∨ (∃ id, p = .unsuback id) ∨ p = .pingresp) :
    recv s c p = kill s c := by
  unfold recv
  simp only [h, ha, hp]
  rcases hu with ⟨_, _, _, _, _, _, _, rfl⟩ | ⟨_, _, rfl⟩ | ⟨_, _, rfl⟩ | ⟨_, rfl⟩ | rfl <;> simp

/-- DISCONNECT: the will is cleared and the client marked cleanly disconnected, then `kill` -/
theorem cause_disconnect (s : BState) (c : ConnId) (x : BConn)
    (h : s.conn? c = some x) (ha : x.alive = true) (hp : x.phase = .connected) :
    recv s c .disconnect = kill (s.setConn c { x with will := none, phase := .disconnected }) c := by
  unfold recv
  simp [h, ha, hp]

/-- the backend refuses a publish (the client's own queue is full) -/
theorem cause_queue_full (s s' : BState) (c : ConnId) (m : Message) (k : BState → Res)
    (h : backendPublish s c m = .queueFull s') : publishThen s c m k = kill s' c := by
  simp [publishThen, h]

/-- backend shutdown: every live connection that has a session is closed in turn -/
theorem cause_backendClose (s : BState) :
    stim s .backendClose = killAll { s with closing := true }
      ((s.conns.filter (fun e => e.2.alive ∧ e.2.sref ≠ .none)).map (·.1)) := rfl

theorem killAll_cons (s : BState) (c : ConnId) (rest : List ConnId) :
    killAll s (c :: rest) = Res.bind (kill s c) (fun s => killAll s rest) := rfl

/-- displacement by a newer connection with the same client id, and the three ways `processConnect`
    can end after that (`SetupCase`: backend closing / kill timeout, both `kill` of the newcomer;
    or accepted) -/
theorem cause_takeover (s t : BState) (c : ConnId) (x : BConn) (id : ClientId) (clean : Bool) (will : Option Message)
    (hown : NotOwner s c) (ht : Succ (setupAndConnack s c x id clean will) t) :
    SetupCase (some c) s t c x id clean will := setup_cases s t c x id clean will hown ht

/-- a failed write: all bookkeeping of the write is done, then `kill` -/
theorem cause_sendFail (s t : BState) (c : ConnId) (p : Packet) (ht : t ∈ observe s (.sendFail c p)) :
    ∃ s1 s2, observeSent s c p = some s1 ∧ Succ (kill s1 c) s2 ∧
      t = s2.updConn c (fun x => { x with procOut := [], ackOut := [] }) ∧ t.bevents = s2.bevents := by
  simp only [observe] at ht
  split at ht
  · rename_i s1 hs1
    split at ht
    · rename_i ss hk
      simp only [List.mem_map] at ht
      obtain ⟨s2, hs2, rfl⟩ := ht
      refine ⟨s1, s2, hs1, ⟨ss, hk, hs2⟩, rfl, ?_⟩
      unfold updConn; split <;> rfl
    · simp at ht
  · simp at ht

/-! ### a closed connection stays closed -/

/-- No step of the model sets `alive` back to true for an existing connection: after any step a
    closed connection is still closed — unless the step was the stimulus `conn c` that hands a
    *new* connection with that number to the broker (a fresh record). Together with
    `kill_dead_noop` and `unstall_not_zombie`: `cleanup`, hence the will, happens at most once. -/
theorem closed_stays_closed (s t : BState) (c : ConnId) (x : BConn) (hstep : Step s t)
    (h : s.conn? c = some x) (ha : x.alive = false) :
    (∃ x', t.conn? c = some x' ∧ x'.alive = false) ∨ t = s.setConn c {} := by
  cases hstep with
  | stim st ss hs hm =>
    by_cases hc : st = .conn c
    · subst hc
      right
      simp only [stim, Res.one, Res.ok.injEq] at hs
      subst hs; simpa using hm
    · left
      refine stim_deadStay s t st c ?_ ⟨ss, hs, hm⟩ x h ha
      intro c0 h0 hcc; subst hcc; exact hc h0
  | obs o hm => exact Or.inl (observe_deadStay s t o c hm x h ha)
  | ackMode late never => exact Or.inl ⟨x, h, ha⟩

/-! ### non-vacuity: a concrete run of the model -/

/-- first successor of a stimulus (the runs below are deterministic) -/
def run1 (s : BState) (st : Stim) : BState :=
  match stim s st with
  | .ok (t :: _) => t
  | _ => s

def w0 : Message := ⟨[116], [1], 1, true⟩
/-- connection 0 was handed to the broker -/
def sConn : BState := run1 {} (.conn 0)
/-- … and sent CONNECT(client id "a", clean session, will `w0`), which was accepted -/
def sUp : BState := run1 sConn (.send 0 (.connect [97] 0 [] [] true (some w0) 4))
/-- … then its goroutines got stuck -/
def sStalled : BState := run1 sUp (.stall 0)
/-- … and the peer went away -/
def sZombie : BState := run1 sStalled (.drop 0)

example : stim {} (.conn 0) = .one sConn := rfl
example : stim sConn (.send 0 (.connect [97] 0 [] [] true (some w0) 4)) = .one sUp := rfl

/-- `sUp` satisfies the hypotheses of `kill_will_events` with a will present … -/
example : ∃ x, sUp.conn? 0 = some x ∧ x.alive = true ∧ x.stalled = false ∧ x.phase = .connected ∧ x.will = some w0 :=
  ⟨_, rfl, rfl, rfl, rfl, rfl⟩

/-- … so dropping the connection publishes exactly `w0` (all four fields), then Terminate -/
example (t : BState) (ht : Succ (stim sUp (.drop 0)) t) :
    t.bevents = [.setup 0 false, .publish 0 w0, .terminate 0] := by
  exact (kill_will_events sUp t 0 _ rfl rfl rfl ht).trans rfl

/-- after DISCONNECT instead: no will -/
example (t : BState) (ht : Succ (stim sUp (.send 0 .disconnect)) t) :
    t.bevents = [.setup 0 false, .terminate 0] :=
  (disconnect_no_will sUp t 0 _ rfl rfl rfl rfl ht).1

/-- the stalled variant: nothing at the drop, will and Terminate at `unstall` -/
example : sZombie.bevents = [.setup 0 false] ∧ (sZombie.conn? 0).map (·.zombie) = some true := ⟨rfl, rfl⟩
example (t : BState) (ht : Succ (stim sZombie (.unstall 0)) t) :
    t.bevents = [.setup 0 false, .publish 0 w0, .terminate 0] := by
  exact (unstall_will_events sZombie t 0 _ rfl rfl ht).1.trans rfl

/-- `sConn` satisfies the hypotheses of `rejected_no_will` / `will_is_connect_will` -/
theorem sConn_notOwner : NotOwner sConn 0 := by
  constructor
  · intro e he; have : sConn.stored = [] := rfl; rw [this] at he; cases he
  · intro e he; have : sConn.temp = [] := rfl; rw [this] at he; cases he

example : ∃ x, sConn.conn? 0 = some x ∧ x.alive = true ∧ x.phase = .connecting ∧ x.will = none ∧ NotOwner sConn 0 :=
  ⟨_, rfl, rfl, rfl, rfl, sConn_notOwner⟩

/-- the accepted CONNECT stored exactly its will -/
example : (sUp.conn? 0).map (·.will) = some (some w0) := rfl

/-- `closed_stays_closed` is not vacuous: `sZombie` has a closed connection -/
example : ∃ x, sZombie.conn? 0 = some x ∧ x.alive = false := ⟨_, rfl, rfl⟩

/-! ### global form: the will is published exactly once iff accepted and no DISCONNECT, over every history

  The backend sees `Publish(c, m)` for two reasons: the processor forwards a PUBLISH / PUBREL of the peer
  (`publishThen`), or `cleanup` publishes the will.  A client may publish an ordinary message equal to
  its will, so counting `.publish c w` events would count the wrong thing.  The model is therefore
  instrumented (Proofs/BrokerB5Ghost.lean): `BrokerB5.stimG` / `observeG` are `stim` / `observe` — text
  copied — that additionally return, with every successor state, the backend calls made on the way,
  each TAGGED with its origin (`BrokerB5.Origin.processor` | `.cleanup`); `cleanup` is the only caller
  of `backendPublish` with the will.  `BrokerB5.RunW cfg s log`: `s` is reached from the empty broker by
  steps of the instrumented model, connection identifiers never reused (the assumption of C14
  `terminate_once`), `log` = all tagged backend calls ever made.

  The instrumentation is validated by `ghost_erase_stim` / `ghost_erase_observe` (forgetting the ghost
  output gives exactly the model: same successors, same `unsupported`) and `ghost_log_is_backend_log` /
  `every_history_instrumented` (the tagged log, tags forgotten, is B4's log of everything ever appended
  to `bevents`, for exactly the histories of the model).

  The counting definition: `BrokerB5.cwills log c` (below, `cleanup_wills_def`) is the list of messages
  in cleanup-tagged `Publish` calls of connection `c`. -/

/-- the counting definition, spelled out -/
theorem cleanup_wills_def (log : List BrokerB5.GEvent) (c : ConnId) :
    BrokerB5.cwills log c =
      log.filterMap (fun e =>
        match e with
        | ⟨.cleanup, .publish c' m⟩ => if c' = c then some m else none
        | _ => none) := rfl

/-- "closed and cleaned up" and "what `cleanup` has to publish", spelled out -/
theorem cleaned_def (o : Option BConn) :
    BrokerB5.isCl o = (match o with | some x => !x.alive && !x.zombie | none => false) := rfl
theorem willOf_def (o : Option BConn) :
    BrokerB5.willOf o = (match o with
      | some x => (match x.phase, x.will with | .connected, some w => [w] | _, _ => [])
      | none => []) := rfl

/-- forgetting the ghost output of the instrumented model gives the model -/
theorem ghost_erase_stim (s : BState) (st : Stim) : (BrokerB5.stimG s st).erase = stim s st :=
  BrokerB5.stimG_erase s st
theorem ghost_erase_observe (s : BState) (o : Obs) : (BrokerB5.observeG s o).map (·.1) = observe s o :=
  BrokerB5.observeG_erase s o

/-- the tagged log, tags forgotten, is the log of all backend calls ever appended to `bevents` (B4's
    `RunG`, C14), so `RunW` histories are histories of the model: the state is reachable … -/
theorem ghost_log_is_backend_log {cfg : Cfg} {s : BState} {log : List BrokerB5.GEvent} (h : BrokerB5.RunW cfg s log) :
    BrokerB4.RunG cfg s (log.map (·.ev)) ∧ Reachable cfg s :=
  ⟨(BrokerB5.runW_inv h).1, h.reachable⟩

/-- … and every history of the model is one of the instrumented model, same backend calls, same order -/
theorem every_history_instrumented {cfg : Cfg} {s : BState} {l : List BEvent} (h : BrokerB4.RunG cfg s l) :
    ∃ log, BrokerB5.RunW cfg s log ∧ log.map (·.ev) = l := BrokerB5.runW_of_runG h

/-- **C12, trace form.** Over every history and for every connection `c`: the messages `cleanup` has
    published on behalf of `c` are exactly
      * `[w]` — once — if `c` is closed, its `cleanup` has run (it is no zombie), it had been accepted and
        did not DISCONNECT (phase `connected`; DISCONNECT sets `disconnected`, a connection never
        accepted stays `connecting`) and `w` is the will stored from its CONNECT;
      * nothing in every other case: still alive, `cleanup` still pending, never accepted, no will, or
        ended by DISCONNECT. -/
theorem will_exactly_once {cfg : Cfg} {s : BState} {log : List BrokerB5.GEvent} (h : BrokerB5.RunW cfg s log)
    (c : ConnId) :
    BrokerB5.cwills log c =
      (match s.conn? c with
       | some x =>
         if x.alive = false ∧ x.zombie = false then
           (match x.phase, x.will with
            | .connected, some w => [w]
            | _, _ => [])
         else []
       | none => []) := by
  rw [BrokerB5.will_exactly_once h c]
  cases s.conn? c with
  | none => rfl
  | some x =>
    cases ha : x.alive <;> cases hz : x.zombie <;> cases hp : x.phase <;> cases hw : x.will <;>
      simp [BrokerB5.isCl, BrokerB5.willOf, ha, hz, hp, hw]

/-- at all times at most one will has been published for a connection -/
theorem will_at_most_once {cfg : Cfg} {s : BState} {log : List BrokerB5.GEvent} (h : BrokerB5.RunW cfg s log)
    (c : ConnId) : (BrokerB5.cwills log c).length ≤ 1 := BrokerB5.will_at_most_once h c

/-- exactly once, with exactly the stored message, iff closed, cleaned up, accepted, not disconnected -/
theorem will_once_iff {cfg : Cfg} {s : BState} {log : List BrokerB5.GEvent} (h : BrokerB5.RunW cfg s log)
    (c : ConnId) (w : Message) :
    BrokerB5.cwills log c = [w] ↔
      ∃ x, s.conn? c = some x ∧ x.alive = false ∧ x.zombie = false ∧ x.phase = .connected ∧ x.will = some w := by
  rw [will_exactly_once h c]
  cases hc : s.conn? c with
  | none => simp
  | some x =>
    simp only [Option.some.injEq, exists_eq_left']
    by_cases hcl : x.alive = false ∧ x.zombie = false
    · rw [if_pos hcl]
      cases hp : x.phase <;> cases hw : x.will <;> simp [hcl.1, hcl.2]
    · rw [if_neg hcl]
      constructor
      · intro h0; cases h0
      · rintro ⟨h1, h2, _⟩; exact absurd ⟨h1, h2⟩ hcl

/-- never: not accepted (phase `connecting`), or DISCONNECT (phase `disconnected`), or no will stored -/
theorem will_never {cfg : Cfg} {s : BState} {log : List BrokerB5.GEvent} (h : BrokerB5.RunW cfg s log)
    (c : ConnId) (x : BConn) (hx : s.conn? c = some x)
    (hno : x.phase = .connecting ∨ x.phase = .disconnected ∨ x.will = none) : BrokerB5.cwills log c = [] := by
  rw [will_exactly_once h c, hx]
  simp only []
  split
  · rcases hno with hp | hp | hw
    · rw [hp]
    · rw [hp]
    · rw [hw]; cases x.phase <;> rfl
  · rfl

/-- not yet: the connection is alive, or closed with its `cleanup` still to come (zombie) -/
theorem will_not_before_cleanup {cfg : Cfg} {s : BState} {log : List BrokerB5.GEvent} (h : BrokerB5.RunW cfg s log)
    (c : ConnId) (x : BConn) (hx : s.conn? c = some x) (hp : x.alive = true ∨ x.zombie = true) :
    BrokerB5.cwills log c = [] := by
  rw [will_exactly_once h c, hx]
  simp only []
  rw [if_neg]
  rintro ⟨h1, h2⟩
  rcases hp with hp | hp
  · rw [h1] at hp; cases hp
  · rw [h2] at hp; cases hp


/-- the count form: the number of wills published for `c` so far is 1 if `c` is closed, cleaned up,
    was accepted, did not DISCONNECT and had a will — 0 otherwise -/
theorem will_count {cfg : Cfg} {s : BState} {log : List BrokerB5.GEvent} (h : BrokerB5.RunW cfg s log) (c : ConnId) :
    (BrokerB5.cwills log c).length =
      (match s.conn? c with
       | some x =>
         if x.alive = false ∧ x.zombie = false ∧ x.phase = .connected ∧ x.will.isSome = true then 1 else 0
       | none => 0) := by
  rw [will_exactly_once h c]
  cases s.conn? c with
  | none => rfl
  | some x =>
    cases ha : x.alive <;> cases hz : x.zombie <;> cases hp : x.phase <;> cases hw : x.will <;> simp [ha, hz, hp, hw]

/-! non-vacuity of the trace form: a history in which the client also publishes an ordinary message
    equal to its will — the backend sees `Publish(0, wq)` twice, `cleanup` published it once -/

/-- first successor with its ghost output (the runs below are deterministic) -/
def runG1 (s : BState) (st : Stim) : BState × List BrokerB5.GEvent :=
  match BrokerB5.stimG s st with
  | .ok (p :: _) => p
  | _ => (s, [])

def wq : Message := ⟨[116], [1], 0, false⟩
/-- connection 0, CONNECT (will `wq`) accepted -/
def tUp : BState := (runG1 sConn (.send 0 (.connect [97] 0 [] [] true (some wq) 4))).1
/-- … publishes the ordinary message `wq` -/
def tPub : BState := (runG1 tUp (.send 0 (.publish wq false 0))).1
/-- … and drops -/
def tEnd : BState := (runG1 tPub (.drop 0)).1

def tLog : List BrokerB5.GEvent :=
  [⟨.processor, .setup 0 false⟩, ⟨.processor, .publish 0 wq⟩, ⟨.cleanup, .publish 0 wq⟩, ⟨.cleanup, .terminate 0⟩]

theorem tEnd_run : BrokerB5.RunW {} tEnd tLog := by
  have r0 : BrokerB5.RunW {} ({ cfg := {} } : BState) [] := .init
  have r1 := BrokerB5.RunW.step r0 (BrokerB5.StepG.stim (s' := sConn) (g := []) (.conn 0) (fun _ _ => rfl) _ rfl
    (List.mem_singleton.2 rfl))
  have r2 := BrokerB5.RunW.step r1 (BrokerB5.StepG.stim (s' := tUp) (g := [⟨.processor, .setup 0 false⟩])
    (.send 0 (.connect [97] 0 [] [] true (some wq) 4)) (fun _ h => by cases h) _ rfl (List.mem_singleton.2 rfl))
  have r3 := BrokerB5.RunW.step r2 (BrokerB5.StepG.stim (s' := tPub) (g := [⟨.processor, .publish 0 wq⟩])
    (.send 0 (.publish wq false 0)) (fun _ h => by cases h) _ rfl (List.mem_singleton.2 rfl))
  exact BrokerB5.RunW.step r3 (BrokerB5.StepG.stim (s' := tEnd)
    (g := [⟨.cleanup, .publish 0 wq⟩, ⟨.cleanup, .terminate 0⟩]) (.drop 0) (fun _ h => by cases h) _ rfl
    (List.mem_singleton.2 rfl))

/-- the backend saw `Publish(0, wq)` twice, `cleanup` published the will once; the connection is closed,
    cleaned up, in phase `connected` with the will `wq` stored: the right-hand side of `will_once_iff` -/
example : (tLog.map (·.ev)).count (.publish 0 wq) = 2 ∧ BrokerB5.cwills tLog 0 = [wq] ∧
    ∃ x, tEnd.conn? 0 = some x ∧ x.alive = false ∧ x.zombie = false ∧ x.phase = .connected ∧ x.will = some wq :=
  ⟨by decide, by decide, _, rfl, rfl, rfl, rfl, rfl⟩

/-- after DISCONNECT instead of the drop: nothing is published for connection 0 -/
example : ∃ t log, BrokerB5.RunW {} t log ∧ BrokerB5.cwills log 0 = [] ∧
    ∃ x, t.conn? 0 = some x ∧ x.alive = false ∧ x.phase = .disconnected := by
  have r0 : BrokerB5.RunW {} ({ cfg := {} } : BState) [] := .init
  have r1 := BrokerB5.RunW.step r0 (BrokerB5.StepG.stim (s' := sConn) (g := []) (.conn 0) (fun _ _ => rfl) _ rfl
    (List.mem_singleton.2 rfl))
  have r2 := BrokerB5.RunW.step r1 (BrokerB5.StepG.stim (s' := tUp) (g := [⟨.processor, .setup 0 false⟩])
    (.send 0 (.connect [97] 0 [] [] true (some wq) 4)) (fun _ h => by cases h) _ rfl (List.mem_singleton.2 rfl))
  have r3 := BrokerB5.RunW.step r2 (BrokerB5.StepG.stim (s' := (runG1 tUp (.send 0 .disconnect)).1)
    (g := [⟨.cleanup, .terminate 0⟩]) (.send 0 .disconnect) (fun _ h => by cases h) _ rfl (List.mem_singleton.2 rfl))
  exact ⟨_, _, r3, by decide, _, rfl, rfl, rfl⟩

end C12
