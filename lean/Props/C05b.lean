import Props.C04
import Props.C05
/-
  Props/C05b.lean — the part of C05 that speaks about `Match` / `Search`: these queries answer as
  the plain map does, and tries holding the same contents answer alike (history independence).
  The two matching-correctness facts of C04 (`C04.match_correct`, `C04.search_correct`) enter as
  the explicit hypotheses `hmatch` / `hsearch`, so this file does not depend on Props/C04.lean.
-/
namespace C05
open Node

theorem match_eq_of
    (hmatch : ∀ (n : Node), n.WF → ∀ name, NoWild name → ∀ v,
      (v ∈ matchAll name n ↔ ∃ f, v ∈ stored n f ∧ tmatches f name = true))
    (n : Node) (m : TopicMap) (h : Refines n m) (name : List Level) (hn : NoWild name) (v : Val) :
    v ∈ matchAll name n ↔ v ∈ m.matchName name := by
  obtain ⟨hw, _, hk, hs⟩ := h
  rw [hmatch n hw name hn v, TopicMap.mem_matchName hk]
  constructor
  · rintro ⟨f, h1, h2⟩; exact ⟨f, (hs f v).mp h1, h2⟩
  · rintro ⟨f, h1, h2⟩; exact ⟨f, (hs f v).mpr h1, h2⟩

theorem search_eq_of
    (hsearch : ∀ (n : Node), n.WF → ∀ filter, ValidFilter filter → ∀ v,
      (v ∈ searchAll filter n ↔ ∃ nm, v ∈ stored n nm ∧ tmatches filter nm = true))
    (n : Node) (m : TopicMap) (h : Refines n m) (f : List Level) (hf : ValidFilter f) (v : Val) :
    v ∈ searchAll f n ↔ v ∈ m.searchFilter f := by
  obtain ⟨hw, _, hk, hs⟩ := h
  rw [hsearch n hw f hf v, TopicMap.mem_searchFilter hk]
  constructor
  · rintro ⟨nm, h1, h2⟩; exact ⟨nm, (hs nm v).mp h1, h2⟩
  · rintro ⟨nm, h1, h2⟩; exact ⟨nm, (hs nm v).mpr h1, h2⟩

/-- history independence: two tries holding the same contents answer every query alike -/
theorem canonical_of
    (hmatch : ∀ (n : Node), n.WF → ∀ name, NoWild name → ∀ v,
      (v ∈ matchAll name n ↔ ∃ f, v ∈ stored n f ∧ tmatches f name = true))
    (hsearch : ∀ (n : Node), n.WF → ∀ filter, ValidFilter filter → ∀ v,
      (v ∈ searchAll filter n ↔ ∃ nm, v ∈ stored n nm ∧ tmatches filter nm = true))
    (n₁ n₂ : Node) (h₁ : n₁.WF) (h₂ : n₂.WF)
    (heq : ∀ p v, v ∈ stored n₁ p ↔ v ∈ stored n₂ p) :
    (∀ name, NoWild name → ∀ v, v ∈ matchAll name n₁ ↔ v ∈ matchAll name n₂) ∧
    (∀ f, ValidFilter f → ∀ v, v ∈ searchAll f n₁ ↔ v ∈ searchAll f n₂) ∧
    (∀ v, v ∈ subtreeVals n₁ ↔ v ∈ subtreeVals n₂) := by
  refine ⟨?_, ?_, ?_⟩
  · intro name hn v
    rw [hmatch n₁ h₁ name hn v, hmatch n₂ h₂ name hn v]
    constructor
    · rintro ⟨f, h1, h2⟩; exact ⟨f, (heq f v).mp h1, h2⟩
    · rintro ⟨f, h1, h2⟩; exact ⟨f, (heq f v).mpr h1, h2⟩
  · intro f hf v
    rw [hsearch n₁ h₁ f hf v, hsearch n₂ h₂ f hf v]
    constructor
    · rintro ⟨nm, h1, h2⟩; exact ⟨nm, (heq nm v).mp h1, h2⟩
    · rintro ⟨nm, h1, h2⟩; exact ⟨nm, (heq nm v).mpr h1, h2⟩
  · intro v
    rw [mem_subtreeVals_o n₁ h₁, mem_subtreeVals_o n₂ h₂]
    constructor
    · rintro ⟨p, h1⟩; exact ⟨p, (heq p v).mp h1⟩
    · rintro ⟨p, h1⟩; exact ⟨p, (heq p v).mpr h1⟩

/-- queries by matching answer as the map does -/
theorem match_eq (n : Node) (m : TopicMap) (h : Refines n m) (name : List Level) (hn : NoWild name) (v : Val) :
    v ∈ matchAll name n ↔ v ∈ m.matchName name :=
  match_eq_of (fun n hw name hn v => C04.match_correct n hw name hn v) n m h name hn v

theorem search_eq (n : Node) (m : TopicMap) (h : Refines n m) (f : List Level) (hf : ValidFilter f) (v : Val) :
    v ∈ searchAll f n ↔ v ∈ m.searchFilter f :=
  search_eq_of (fun n hw f hf v => C04.search_correct n hw f hf v) n m h f hf v

/-- history independence: two tries holding the same contents answer every query alike -/
theorem canonical (n₁ n₂ : Node) (h₁ : n₁.WF) (h₂ : n₂.WF)
    (heq : ∀ p v, v ∈ stored n₁ p ↔ v ∈ stored n₂ p) :
    (∀ name, NoWild name → ∀ v, v ∈ matchAll name n₁ ↔ v ∈ matchAll name n₂) ∧
    (∀ f, ValidFilter f → ∀ v, v ∈ searchAll f n₁ ↔ v ∈ searchAll f n₂) ∧
    (∀ v, v ∈ subtreeVals n₁ ↔ v ∈ subtreeVals n₂) :=
  canonical_of (fun n hw name hn v => C04.match_correct n hw name hn v)
    (fun n hw f hf v => C04.search_correct n hw f hf v) n₁ n₂ h₁ h₂ heq

end C05
