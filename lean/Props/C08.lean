import Model.Broker
import Proofs.BrokerOut
import Proofs.BrokerOutKeep
import Proofs.BrokerOldAlloc
import Props.C18
/-
  Props/C08.lean — property C08: an accepted QoS ≥ 1 message for a persistent subscriber is recorded
  before it is transmitted, stays recorded until PUBACK / PUBCOMP, is retransmitted on resume (PUBLISH
  flagged dup, PUBREL after PUBREC) — wherever the connection was lost; offline messages are queued up
  to the capacity; CONNACK session-present ⇔ stored state resumed; clean session discards it.

  Packet ids: the dequeuer hands a new delivery the next packet id that no packet of the session's
  outgoing store uses (`MemorySession.freshID` = the broker's `Client.nextID`; MQTT 3.1.1 §2.3.1), so a
  delivery never overwrites a record (`fresh_id_unused`) and the frame theorems read plainly "kept"
  (`Kept`).  Before the repair the id was the bare wrapping counter and a delivery could overwrite an
  unacknowledged record after a wrap-around: `old_allocator_overwrites` (old allocator kept in
  Proofs/BrokerOldAlloc.lean) against `id_reuse_repaired` on the same state.
-/
namespace C08
open BState BrokerB3

/-- stored session `cid` holds packet `p` under id `k` in its outgoing store -/
def Holds (s : BState) (cid : ClientId) (k : UInt16) (p : Packet) : Prop :=
  ∃ b, Assoc.get s.stored cid = some b ∧ (k, p) ∈ b.sess.outgoing.entries

/-! ### recorded before transmitted -/

/-- The model accepts the transmission of a QoS>0 delivery only into a state in which the packet is
    recorded: it carries the session's next unused id (`freshID`), and afterwards the outgoing store of
    the session holds exactly this packet under that id, as its newest entry. -/
theorem saved_before_sent {s : BState} {c : ConnId} {x : BConn} {b : BSess} {m : Message}
    {id : UInt16} {s' : BState} (hx : s.conn? c = some x) (hb : s.sessOf c = some b)
    (h : acceptDelivery s c x b m id = some s') (hq : m.qos ≠ 0) :
    id = b.sess.freshID.1 ∧
    ∃ b', s'.sessOf c = some b' ∧
      b'.sess.lookupPacket .outgoing id = some (.publish m false id) ∧
      b'.sess.outgoing.entries =
        PacketStore.erase b.sess.outgoing.entries id ++ [(id, .publish m false id)] := by
  obtain ⟨_, bq, hp, hf⟩ := acceptDelivery_cases h
  obtain ⟨e1, _, _⟩ := hp.frame
  rcases hf with ⟨hq', _, _⟩ | ⟨_, hid, rfl⟩
  · exact absurd hq' hq
  · refine ⟨by rw [← hid.2, e1], _, sessOf_upd_same _ hx hb (retake_sref _), ?_, ?_⟩
    · show ((bq.sess.freshID.2).savePacket .outgoing (.publish m false id)).outgoing.lookup id = _
      rw [savePacket_outgoing, PacketStore.lookup_save _ _ id id rfl]
      simp
    · simp only [savePacket_outgoing, MemorySession.freshID_outgoing, save_publish_entries, e1]

/-- The packet id of a fresh QoS>0 delivery is not in use: it is not 0 and it is the key of no packet of
    the session's outgoing store (MQTT 3.1.1 §2.3.1) — so saving the delivery removes nothing: the store
    afterwards is the old store with the new PUBLISH appended.  No hypothesis on the state: when every id
    is in use the model accepts no delivery at all (the real dequeuer dies with `ErrPacketIDsExhausted`;
    by `MemorySession.freshID_ne_zero_of_lt` that needs 65535 stored packets). -/
theorem fresh_id_unused {s : BState} {c : ConnId} {x : BConn} {b : BSess} {m : Message}
    {id : UInt16} {s' : BState} (hx : s.conn? c = some x) (hb : s.sessOf c = some b)
    (h : acceptDelivery s c x b m id = some s') (hq : m.qos ≠ 0) :
    id ≠ 0 ∧ b.sess.lookupPacket .outgoing id = none ∧ id ∉ b.sess.outgoing.entries.map (·.1) ∧
    ∃ b', s'.sessOf c = some b' ∧
      b'.sess.outgoing.entries = b.sess.outgoing.entries ++ [(id, .publish m false id)] := by
  obtain ⟨_, bq, hp, hf⟩ := acceptDelivery_cases h
  obtain ⟨e1, _, _⟩ := hp.frame
  obtain ⟨hid, b', hb', _, he⟩ := saved_before_sent hx hb h hq
  rcases hf with ⟨hq', _, _⟩ | ⟨_, ⟨hz, hid'⟩, _⟩
  · exact absurd hq' hq
  · rw [e1] at hz hid'
    have hl : b.sess.outgoing.lookup id = none := by
      rw [← hid']; exact MemorySession.freshID_unused _ hz
    have hn : id ∉ b.sess.outgoing.entries.map (·.1) := by
      intro hmem
      obtain ⟨e, he', hk⟩ := List.mem_map.1 hmem
      exact PacketStore.not_mem_of_lookup_none hl (k := e.1) (p := e.2) he' hk
    refine ⟨by rw [← hid']; exact hz, hl, hn, b', hb', ?_⟩
    rw [he, erase_eq_self _ _ hn]

/-- the same at the level of observations: a non-dup PUBLISH that is not pending processor / acker
    output is accepted only together with its record -/
theorem sent_implies_saved {s : BState} {c : ConnId} {m : Message} {id : UInt16} {s' : BState} {x : BConn}
    (h : s' ∈ observe s (.sent c (.publish m false id))) (hq : m.qos ≠ 0)
    (hx : s.conn? c = some x)
    (hp : x.procOut.head? ≠ some (.publish m false id))
    (ha : x.ackOut.head? ≠ some (.publish m false id)) :
    ∃ b', s'.sessOf c = some b' ∧ (id, Packet.publish m false id) ∈ b'.sess.outgoing.entries := by
  simp only [observe, Option.mem_toList] at h
  obtain ⟨x', hx', _, hs⟩ := observeSent_cases h
  rw [hx] at hx'
  cases hx'
  cases hs with
  | proc rest e _ => rw [e] at hp; exact absurd rfl hp
  | ack rest e _ => rw [e] at ha; exact absurd rfl ha
  | deq m' id' b e hb _ hd =>
    cases e
    obtain ⟨_, b', hb', _, he⟩ := saved_before_sent hx hb hd hq
    exact ⟨b', hb', by rw [he]; exact List.mem_append_right _ (List.mem_singleton.2 rfl)⟩

/-- … and when the transport fails that write: in every successor the packet is STILL recorded in the
    stored session and the connection is closed — so the next resume retransmits it
    (`resend_on_resume`).  The dying dequeuer may deliver one more message; it gets an id the store
    does not use, so the record stays (`Take1.kept`). -/
theorem sendFail_still_saved {s : BState} {c : ConnId} {m : Message} {id : UInt16} {s'' : BState}
    {x : BConn} {cid : ClientId}
    (h : s'' ∈ observe s (.sendFail c (.publish m false id))) (hq : m.qos ≠ 0)
    (hx : s.conn? c = some x) (hs : x.sref = .stored cid)
    (hp : x.procOut.head? ≠ some (.publish m false id))
    (ha : x.ackOut.head? ≠ some (.publish m false id)) :
    Holds s'' cid id (.publish m false id) ∧ ∀ x'', s''.conn? c = some x'' → x''.alive = false := by
  simp only [observe] at h
  split at h
  · rename_i s1 hs1
    split at h
    · rename_i ss hk
      obtain ⟨s2, hs2, rfl⟩ := List.mem_map.1 h
      have hkill := kill_cases hk hs2
      obtain ⟨x', hx', _, hsent⟩ := observeSent_cases hs1
      rw [hx] at hx'
      cases hx'
      cases hsent with
      | proc rest e _ => rw [e] at hp; exact absurd rfl hp
      | ack rest e _ => rw [e] at ha; exact absurd rfl ha
      | deq m' id' b e hb _ hd =>
        cases e
        obtain ⟨_, bq, hpop, hf⟩ := acceptDelivery_cases hd
        obtain ⟨e1, _, _⟩ := hpop.frame
        rcases hf with ⟨hq', _, _⟩ | ⟨_, hid, rfl⟩
        · exact absurd hq' hq
        · -- the stored session right after the delivery
          have hb1 : Assoc.get (finishQ12 s c x bq m id).stored cid =
              some { bq with sess := (bq.sess.freshID.2).savePacket .outgoing (.publish m false id) } := by
            unfold finishQ12
            rw [setConn_stored, get_stored_setSessOf _ hx, if_pos hs]
          obtain ⟨b2, hb2, ht⟩ := kill_grow hkill cid _ hb1
          refine ⟨⟨b2, ?_, ?_⟩, ?_⟩
          · rw [updConn_stored]; exact hb2
          · refine ht.kept ?_
            simp only [savePacket_outgoing, MemorySession.freshID_outgoing, save_publish_entries]
            exact List.mem_append_right _ (List.mem_singleton.2 rfl)
          · intro x'' hx''
            rw [conn?_updConn, if_pos rfl] at hx''
            cases h2 : s2.conn? c with
            | none => rw [h2] at hx''; cases hx''
            | some x2 =>
              rw [h2] at hx''
              simp only [Option.map_some, Option.some.injEq] at hx''
              subst hx''
              exact killed_dead hkill x2 h2
    · cases h
  · cases h

/-! ### kept until acknowledged: where the outgoing store of a stored session can shrink -/

/-- every observation (a delivery, the write of any packet, a failing write with the death of the
    connection, `closed`, a backend call): every entry of every stored session is kept -/
theorem observe_keeps {s : BState} {o : Obs} {s' : BState} (h : s' ∈ observe s o) : Kept s s' := by
  cases o with
  | backend e =>
    simp only [observe] at h
    split at h
    · rw [List.mem_singleton.1 h]; exact fun cid => KeptAt.refl cid _
    · cases h
  | closed c =>
    simp only [observe] at h
    split at h
    · split at h
      · rw [List.mem_singleton.1 h]; exact fun cid => KeptAt.refl cid _
      · cases h
    · cases h
  | sent c p =>
    simp only [observe, Option.mem_toList] at h
    exact (observeSent_grow h).kept
  | sendFail c p =>
    simp only [observe] at h
    split at h
    · rename_i s1 hs1
      split at h
      · rename_i ss hk
        obtain ⟨s2, hs2, rfl⟩ := List.mem_map.1 h
        refine ((observeSent_grow hs1).kept.trans (kill_grow (kill_cases hk hs2)).kept).trans ?_
        intro cid b k p hb hm
        exact ⟨b, by rw [updConn_stored]; exact hb, hm⟩
      · cases h
    · cases h

/-- a successfully written packet: at most one delivery, under an id the store does not use, so every
    entry is kept as it is (before the repair of the allocator: only entries whose id was not the
    session's next id) -/
theorem sent_keeps_fresh {s : BState} {c : ConnId} {p : Packet} {s' : BState}
    (h : s' ∈ observe s (.sent c p)) {cid : ClientId} {b : BSess} {k : UInt16} {q : Packet}
    (hb : Assoc.get s.stored cid = some b) (hm : (k, q) ∈ b.sess.outgoing.entries) :
    Holds s' cid k q := by
  simp only [observe, Option.mem_toList] at h
  obtain ⟨b', hb', ht⟩ := observeSent_grow h cid b hb
  exact ⟨b', hb', ht.kept hm⟩

/-- the processor on SUBSCRIBE, UNSUBSCRIBE, PUBLISH, PUBREL, PINGREQ, DISCONNECT or a protocol
    violation (including the death of the connection that may follow): every stored session keeps
    its outgoing store, up to one last delivery by a dying dequeuer -/
theorem recv_plain_keeps {s : BState} {c : ConnId} {p : Packet} (hp : Plain p) {ss : List BState}
    {s' : BState} (h : recv s c p = .ok ss) (hm : s' ∈ ss) : SGrow1 s s' :=
  (recv_plain_shape hp ss h s' hm).grow

theorem recv_plain_keeps_fresh {s : BState} {c : ConnId} {p : Packet} (hp : Plain p)
    {ss : List BState} {s' : BState} (h : recv s c p = .ok ss) (hm : s' ∈ ss)
    {cid : ClientId} {b : BSess} {k : UInt16} {q : Packet}
    (hb : Assoc.get s.stored cid = some b) (hq : (k, q) ∈ b.sess.outgoing.entries) :
    Holds s' cid k q := by
  obtain ⟨b', hb', ht⟩ := recv_plain_keeps hp h hm cid b hb
  exact ⟨b', hb', ht.kept hq⟩

/-- a dying connection (`drop`, token timeout, failed write, takeover, backend shutdown) -/
theorem kill_keeps {s : BState} {c : ConnId} {ss : List BState} {s' : BState}
    (h : kill s c = .ok ss) (hm : s' ∈ ss) : SGrow1 s s' := kill_grow (kill_cases h hm)

theorem kill_keeps_fresh {s : BState} {c : ConnId} {ss : List BState} {s' : BState}
    (h : kill s c = .ok ss) (hm : s' ∈ ss) {cid : ClientId} {b : BSess} {k : UInt16} {q : Packet}
    (hb : Assoc.get s.stored cid = some b) (hq : (k, q) ∈ b.sess.outgoing.entries) :
    Holds s' cid k q := by
  obtain ⟨b', hb', ht⟩ := kill_keeps h hm cid b hb
  exact ⟨b', hb', ht.kept hq⟩

/-- a publish by anybody: no outgoing store changes -/
theorem backendPublish_keeps {s : BState} {c : ConnId} {m : Message} {s' : BState}
    (h : backendPublish s c m = .ok s' ∨ backendPublish s c m = .queueFull s') : SSame s s' := by
  rcases h with h | h
  · exact SSame.of_coreEq (CoreEq.of_publish_ok h)
  · exact SSame.of_coreEq (CoreEq.of_publish_full h)

/-- PUBACK / PUBCOMP `id` deletes exactly the entries under `id` of the acknowledging client's
    session; every other stored session is untouched -/
theorem ack_deletes_exactly {s : BState} {c : ConnId} {x : BConn} {b : BSess} (id : UInt16)
    (hx : s.conn? c = some x) (cid : ClientId) (b0 : BSess)
    (hb0 : Assoc.get s.stored cid = some b0) :
    ∃ b', Assoc.get (afterAck s c b id).stored cid = some b' ∧
      b'.sess.outgoing.entries =
        if x.sref = .stored cid then PacketStore.erase b.sess.outgoing.entries id
        else b0.sess.outgoing.entries := by
  rw [afterAck_eq b id hx, setConn_stored, get_stored_setSessOf _ hx]
  split
  · exact ⟨_, rfl, rfl⟩
  · exact ⟨b0, hb0, rfl⟩

/-- PUBREC `id` replaces the entry under `id` by the PUBREL (as the newest entry); nothing else
    changes -/
theorem pubrec_replaces_by_pubrel {s : BState} {c : ConnId} {x : BConn} {b : BSess} (id : UInt16)
    (hx : s.conn? c = some x) (cid : ClientId) (b0 : BSess)
    (hb0 : Assoc.get s.stored cid = some b0) :
    ∃ b', Assoc.get (afterPubrec s c b id).stored cid = some b' ∧
      b'.sess.outgoing.entries =
        if x.sref = .stored cid then PacketStore.erase b.sess.outgoing.entries id ++ [(id, .pubrel id)]
        else b0.sess.outgoing.entries := by
  unfold afterPubrec
  rw [updConn_stored, get_stored_setSessOf _ hx]
  split
  · exact ⟨_, rfl, rfl⟩
  · exact ⟨b0, hb0, rfl⟩

/-- the three acknowledgement packets, tied to `recv` -/
theorem recv_puback_eq {s : BState} {c : ConnId} {x : BConn} {b : BSess} (id : UInt16)
    (hx : s.conn? c = some x) (ha : x.alive = true) (hp : x.phase = .connected)
    (hb : s.sessOf c = some b) :
    recv s c (.puback id) = .one (afterAck s c b id) ∧
    recv s c (.pubcomp id) = .one (afterAck s c b id) ∧
    recv s c (.pubrec id) = .one (afterPubrec s c b id) := by
  refine ⟨?_, ?_, ?_⟩
  · unfold recv afterAck
    simp only [hx, ha, hp, hb, Bool.not_true, Bool.false_eq_true, if_false, setSessOf_cfg]
  · unfold recv afterAck
    simp only [hx, ha, hp, hb, Bool.not_true, Bool.false_eq_true, if_false, setSessOf_cfg]
  · unfold recv afterPubrec
    simp only [hx, ha, hp, hb, Bool.not_true, Bool.false_eq_true, if_false]

/-! ### resume: CONNACK, then every stored packet, in store order -/

/-- what the resend loop writes for a stored packet -/
def markDup : Packet → Packet
  | .publish m _ id => .publish m true id
  | p => p

/-- the packets a resume retransmits: `outgoing` in store order, PUBLISH flagged dup, PUBREL as is -/
def resendList (b : BSess) : List Packet := b.sess.outgoing.entries.map (fun e => markDup e.2)

theorem retake_procOut (x : BConn) : (retake x).procOut = x.procOut := by
  unfold retake; split <;> rfl

theorem resend_procOut (b : BSess) (x : BConn) :
    (resend b x).2.procOut = x.procOut ++ resendList b := by
  simp only [resend, resendList, List.map_map]
  congr 1
  apply List.map_congr_left
  intro e _
  obtain ⟨k, p⟩ := e
  cases p <;> rfl

theorem resend_entries (b : BSess) (x : BConn) :
    (resend b x).1.sess.outgoing.entries = b.sess.outgoing.entries.map (fun e => (e.1, markDup e.2)) := by
  simp only [resend]
  apply List.map_congr_left
  intro e _
  obtain ⟨k, p⟩ := e
  cases p <;> rfl

/-- Resuming the stored session `b`: the processor queues CONNACK(session present) and then every
    stored packet in store order — PUBLISH flagged dup, PUBREL as is; the store keeps them (with the
    dup flag), and the stored queue and the subscriptions survive. -/
theorem resend_on_resume (s : BState) (c : ConnId) (x : BConn) (id : ClientId) (will : Option Message)
    (b : BSess) :
    ∃ x' b', (resumeFinal s c x id will b).conn? c = some x' ∧
      x'.procOut = x.procOut ++ [.connack true 0] ++ resendList b ∧
      Assoc.get (resumeFinal s c x id will b).stored id = some b' ∧
      (resumeFinal s c x id will b).sessOf c = some b' ∧
      b'.sess.outgoing.entries = b.sess.outgoing.entries.map (fun e => (e.1, markDup e.2)) ∧
      b'.storedQ = b.storedQ ∧ b'.subs = b.subs ∧ b'.active = some c := by
  have hc : (resumeFinal s c x id will b).conn? c =
      some (retake (resend (resumedSess c b) (resumedConn s.cfg x id will)).2) := conn?_setConn_same _ _ _
  have hst : Assoc.get (resumeFinal s c x id will b).stored id =
      some (resend (resumedSess c b) (resumedConn s.cfg x id will)).1 := get_set_same _ _ _
  refine ⟨_, _, hc, ?_, hst, ?_, ?_, rfl, rfl, rfl⟩
  · rw [retake_procOut, resend_procOut]; rfl
  · rw [sessOf_some hc, retake_sref, resend_snd_sref]
    exact hst
  · rw [resend_entries]; rfl

/-- every retransmitted PUBLISH carries dup = true: a stored QoS 2 message is never re-offered as a
    fresh delivery by the resend loop -/
theorem resend_all_dup (b : BSess) (m : Message) (d : Bool) (id : UInt16)
    (h : Packet.publish m d id ∈ resendList b) : d = true := by
  obtain ⟨e, _, he⟩ := List.mem_map.1 h
  cases hp : e.2 <;> rw [hp] at he <;> simp only [markDup] at he <;> cases he
  rfl

/-- A fresh (non-dup) delivery only ever carries a message that the same step pops from a queue:
    the head of `storedQ` (which becomes the tail) or a member of the first group of `tempQ`.  A
    QoS>0 message thus leaves `storedQ` in the very step in which it enters `outgoing`; from then on
    it exists only as a stored packet, which is re-offered with dup = true (`resend_all_dup`) or as
    PUBREL — never a second time as a fresh delivery. -/
theorem qos2_no_second_fresh_offer {s : BState} {c : ConnId} {x : BConn} {b : BSess} {m : Message}
    {id : UInt16} {s' : BState} (hx : s.conn? c = some x) (hb : s.sessOf c = some b)
    (h : acceptDelivery s c x b m id = some s') :
    ∃ bq b', Pop b m bq ∧ s'.sessOf c = some b' ∧ b'.storedQ = bq.storedQ ∧ b'.tempQ = bq.tempQ := by
  obtain ⟨_, bq, hp, hf⟩ := acceptDelivery_cases h
  rcases hf with ⟨_, _, rfl⟩ | ⟨_, _, rfl⟩
  · exact ⟨bq, bq, hp, sessOf_upd_same _ hx hb (retake_sref _), rfl, rfl⟩
  · exact ⟨bq, _, hp, sessOf_upd_same _ hx hb (retake_sref _), rfl, rfl⟩

/-- Conservation across a delivery from the stored queue: the head `hd` leaves `storedQ` and its capped
    copy enters `outgoing` in the same step; the allocated id is not in use (`fresh_id_unused`), so
    nothing else changes and `|storedQ| + |outgoing|` is conserved — the message is in exactly one of the
    two places before and after. -/
theorem conservation_step {s : BState} {c : ConnId} {x : BConn} {b : BSess} {hd : Message}
    {rest : List Message} {id : UInt16} {s' : BState}
    (hx : s.conn? c = some x) (hb : s.sessOf c = some b) (hq : b.storedQ = hd :: rest)
    (h : acceptDelivery s c x b (applyQOS b hd) id = some s') (hq0 : (applyQOS b hd).qos ≠ 0) :
    ∃ b', s'.sessOf c = some b' ∧
      b'.sess.outgoing.entries = b.sess.outgoing.entries ++ [(id, .publish (applyQOS b hd) false id)] ∧
      (b'.storedQ = rest ∨ b'.storedQ = b.storedQ) ∧
      (b'.storedQ = rest →
        b'.storedQ.length + b'.sess.outgoing.entries.length = b.storedQ.length + b.sess.outgoing.entries.length) := by
  obtain ⟨_, b1, hb1, _, he⟩ := saved_before_sent hx hb h hq0
  have hfresh := (fresh_id_unused hx hb h hq0).2.2.1
  obtain ⟨bq, b2, hp, hb2, e1, _⟩ := qos2_no_second_fresh_offer hx hb h
  rw [hb1] at hb2
  cases hb2
  rw [erase_eq_self _ _ hfresh] at he
  refine ⟨b1, hb1, he, ?_, ?_⟩
  · rcases hp.queues with ⟨hd', e, _⟩ | ⟨e, _⟩
    · left
      rw [hq] at e
      cases e
      exact e1
    · right
      rw [e1, e]
  · intro hr
    rw [he, hr, hq]
    simp
    omega

/-! ### session present; clean session -/

/-- the state `Setup` leaves behind decides the CONNACK: session-present = true iff the client did not
    ask for a clean session and a stored session existed -/
theorem session_present_iff (s : BState) (c : ConnId) (x : BConn) (id : ClientId) (clean : Bool)
    (will : Option Message) :
    ∃ x' rest, (afterTakeover s c x id clean will).conn? c = some x' ∧
      x'.procOut = x.procOut ++
        [.connack (decide (clean = false ∧ (Assoc.get s.stored id).isSome = true)) 0] ++ rest := by
  unfold afterTakeover
  split
  · rename_i hc
    refine ⟨_, [], conn?_setConn_same _ _ _, ?_⟩
    rw [retake_procOut]
    simp [startConn, hc]
  · rename_i hc
    split
    · rename_i b hb
      obtain ⟨x', _, h1, h2, _⟩ := resend_on_resume s c x id will b
      refine ⟨x', resendList b, h1, ?_⟩
      rw [h2]
      simp [hc, hb]
    · rename_i hb
      refine ⟨_, [], conn?_setConn_same _ _ _, ?_⟩
      rw [retake_procOut]
      simp [startConn, hb]

/-- an empty client id never resumes anything -/
theorem session_present_empty_id (s : BState) (c : ConnId) (x : BConn) (will : Option Message) :
    ∃ x', (tempFinal s c x will).conn? c = some x' ∧ x'.procOut = x.procOut ++ [.connack false 0] :=
  ⟨_, conn?_setConn_same _ _ _, by rw [retake_procOut]; rfl⟩

/-- clean session: the stored session is gone, the client works on a new empty session -/
theorem clean_discards (s : BState) (c : ConnId) (x : BConn) (id : ClientId) (will : Option Message) :
    Assoc.get (afterTakeover s c x id true will).stored id = none ∧
    (afterTakeover s c x id true will).sessOf c = some (newSess c) ∧
    (newSess c).sess.outgoing.entries = [] ∧ (newSess c).storedQ = [] ∧ (newSess c).sess.incoming.entries = [] := by
  have e : afterTakeover s c x id true will = cleanFinal s c x id will := by
    unfold afterTakeover; rfl
  rw [e]
  refine ⟨get_del_same _ _, ?_, rfl, rfl, rfl⟩
  have hc : (cleanFinal s c x id will).conn? c = some _ := conn?_setConn_same _ _ _
  rw [sessOf_some hc, retake_sref]
  exact get_set_same _ _ _

/-- how `processConnect` reaches these states (`SetupOutcome`, Proofs/BrokerOutKeep.lean): closing
    broker / failed takeover kill the newcomer; otherwise the result is `tempFinal` (empty id) or
    `afterTakeover` in the state left by the (possibly killed) previous connection -/
theorem setup_outcomes {s : BState} {c : ConnId} {x : BConn} {id : ClientId} {clean : Bool}
    {will : Option Message} {ss : List BState} {s' : BState}
    (h : setupAndConnack s c x id clean will = .ok ss) (hm : s' ∈ ss) :
    SetupOutcome (s.setConn c { x with phase := .connected, id := id }) c
      { x with phase := .connected, id := id } id clean will s' := setup_cases h hm

/-! ### messages published while the client is offline -/

/-- a completed publish treats every stored session by `fanOne` (message with the retain flag
    cleared, group = the publish's own group number) -/
theorem backendPublish_stored {s : BState} {c : ConnId} {m : Message} {s' : BState}
    (h : backendPublish s c m = .ok s') (cid : ClientId) :
    Assoc.get s'.stored cid =
      (Assoc.get s.stored cid).map (fanOne s.cfg { m with retain := false } s.nextGroup) := by
  obtain ⟨temp', stored', rfl, _, _, hok⟩ := backendPublish_cases (full := false) h
  obtain ⟨_, e⟩ := hok rfl
  show Assoc.get stored' cid = _
  rw [e, get_fanMap]

/-- a QoS>0 message for a matching stored session is appended to its stored queue while there is
    room — whether the client is online or not; the queued copy is capped by the session's grant
    at that moment (`applyQOS`, cap at enqueue) -/
theorem offline_queued {s : BState} {c : ConnId} {m : Message} {s' : BState} {cid : ClientId} {b : BSess}
    (h : backendPublish s c m = .ok s') (hb : Assoc.get s.stored cid = some b)
    (hsub : (subQos b m.topic).isSome = true) (hq : m.qos ≠ 0) (hroom : b.storedQ.length < s.cfg.queue) :
    ∃ b', Assoc.get s'.stored cid = some b' ∧
      b'.storedQ = b.storedQ ++ [applyQOS b { m with retain := false }] ∧
      b'.sess = b.sess ∧ b'.subs = b.subs := by
  rw [backendPublish_stored h, hb]
  refine ⟨_, rfl, ?_⟩
  simp [fanOne, hsub, enqueue, hq, hroom]

/-- beyond the capacity the message is dropped for that session (and for that session only) -/
theorem offline_full_dropped {s : BState} {c : ConnId} {m : Message} {s' : BState} {cid : ClientId}
    {b : BSess} (h : backendPublish s c m = .ok s') (hb : Assoc.get s.stored cid = some b)
    (hq : m.qos ≠ 0) (hfull : ¬ b.storedQ.length < s.cfg.queue) :
    Assoc.get s'.stored cid = some b := by
  rw [backendPublish_stored h, hb]
  simp only [Option.map_some, Option.some.injEq]
  unfold fanOne
  split
  · simp [enqueue, hq, hfull]
  · rfl

/-- a non-matching session is not touched -/
theorem publish_skips_unsubscribed {s : BState} {c : ConnId} {m : Message} {s' : BState} {cid : ClientId}
    {b : BSess} (h : backendPublish s c m = .ok s') (hb : Assoc.get s.stored cid = some b)
    (hsub : (subQos b m.topic).isSome = false) : Assoc.get s'.stored cid = some b := by
  rw [backendPublish_stored h, hb]
  simp [fanOne, hsub]

/-! ### non-vacuity -/

/-- a stored session of client "a" (offline) subscribed to topic "t" with one unacknowledged PUBLISH
    and one PUBREL -/
def exSess : BSess :=
  { subs := Tree.set [116] 1 Node.empty,
    sess := { outgoing := ⟨[(1, .publish ⟨[116], [1], 1, false⟩ false 1), (2, .pubrel 2)]⟩,
              counter := ⟨3⟩ } }

def exState : BState := { stored := [([97], exSess)], conns := [(0, {})] }

/-- resume in `exState`: CONNACK(session present), then PUBLISH(dup) id 1, PUBREL 2 -/
example :
    resendList exSess = [.publish ⟨[116], [1], 1, false⟩ true 1, .pubrel 2] := by decide

example : ∃ ss, setupAndConnack exState 0 {} [97] false none = .ok ss ∧ ss.length = 1 := ⟨_, rfl, rfl⟩

/-- `saved_before_sent` / `qos2_no_second_fresh_offer` are about real deliveries: a connection with a
    token in hand and a queued QoS 1 message -/
def exLive : BState :=
  { conns := [(0, { phase := .connected, sref := .stored [97], running := true, deqChan := 9, deqHand := true })],
    stored := [([97], { exSess with storedQ := [⟨[116], [2], 1, false⟩], active := some 0 })] }

example : ∃ x b s', exLive.conn? 0 = some x ∧ exLive.sessOf 0 = some b ∧
    acceptDelivery exLive 0 x b ⟨[116], [2], 1, false⟩ 3 = some s' :=
  ⟨_, _, _, rfl, rfl, rfl⟩

/-- … and `sendFail_still_saved` is about a real outcome: the failing write of that delivery has a
    successor (the connection dies, the packet stays stored) -/
example : (observe exLive (.sendFail 0 (.publish ⟨[116], [2], 1, false⟩ false 3))).length = 1 := by
  decide

/-- The defect the allocator had (`BrokerB6.exWrap`: the id counter has wrapped around to 1 while the
    packet with id 1, message "A", is still unacknowledged; message "B" is queued): the old allocator
    delivers "B" under id 1 and `SavePacket` overwrites the record of "A" — never retransmitted.
    Reproduced on the real broker (gosyn/brokertrace `c08Wrap`, monitors id-reused-while-unacked and
    resend-missing). -/
theorem old_allocator_overwrites :
    ∃ x b s' b', BrokerB6.exWrap.conn? 0 = some x ∧ BrokerB6.exWrap.sessOf 0 = some b ∧
      BrokerB6.acceptDeliveryOld BrokerB6.exWrap 0 x b ⟨[116], [66], 1, false⟩ 1 = some s' ∧
      s'.sessOf 0 = some b' ∧
      b'.sess.outgoing.entries = [(1, .publish ⟨[116], [66], 1, false⟩ false 1)] :=
  BrokerB6.old_id_reuse_overwrites

/-- … and the repaired allocator on the same state: a delivery under id 1 is not an enabled output, "B"
    goes out under id 2 and both records are there -/
theorem id_reuse_repaired :
    ∃ x b s' b', BrokerB6.exWrap.conn? 0 = some x ∧ BrokerB6.exWrap.sessOf 0 = some b ∧
      acceptDelivery BrokerB6.exWrap 0 x b ⟨[116], [66], 1, false⟩ 1 = none ∧
      acceptDelivery BrokerB6.exWrap 0 x b ⟨[116], [66], 1, false⟩ 2 = some s' ∧ s'.sessOf 0 = some b' ∧
      b'.sess.outgoing.entries = [(1, .publish ⟨[116], [65], 1, false⟩ false 1),
                                  (2, .publish ⟨[116], [66], 1, false⟩ false 2)] :=
  ⟨_, _, _, _, rfl, rfl, by decide, rfl, rfl, rfl⟩

/-- `offline_queued` applies: a QoS 1 publish to "t" reaches the offline session -/
example : ∃ s', backendPublish exState 7 ⟨[116], [5], 1, false⟩ = .ok s' ∧
    (subQos exSess [116]).isSome = true ∧ exSess.storedQ.length < exState.cfg.queue :=
  ⟨_, rfl, by decide, by decide⟩

end C08
