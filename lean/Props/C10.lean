import Proofs.ClientC10e
/-
  Props/C10.lean — C10: inbound QoS 2 exactly once, handshakes finish, acknowledgement only if the
  application accepted the message.

  Every statement is about the processor goroutine of `Model/Client.lean`; `s` ranges over ALL
  states with the processor waiting for the next packet (`proc = recv false`), so the statements
  cover every history: duplicated PUBLISH, repeated PUBREL, interleaved ids, resumed sessions.
  Each clause comes as (i) *uniqueness*: at every program point of the handler exactly one visible
  label is enabled, with the outcome chosen by the environment (callback nil/error, send ok/fail,
  session ok/fail) — quoted from `Proofs/ClientC10.lean`; and (ii) *progress*: the run in which
  nothing fails exists and ends with the acknowledgement handed to the connection.
-/
set_option linter.unusedSimpArgs false
open Cl Cl.St ClientK1
namespace C10

theorem lookup_in_save (σ : MemorySession) (p : Packet) (id : UInt16) (h : p.getID = some id) :
    (σ.savePacket .incoming p).lookupPacket .incoming id = some p := by
  simp [MemorySession.savePacket, MemorySession.lookupPacket, MemorySession.store, MemorySession.setStore,
    PacketStore.lookup_save _ _ _ _ h]

theorem lookup_in_delete (σ : MemorySession) (id : UInt16) :
    (σ.deletePacket .incoming id).lookupPacket .incoming id = none := by
  simp [MemorySession.deletePacket, MemorySession.lookupPacket, MemorySession.store, MemorySession.setStore,
    PacketStore.lookup_delete]

/-! ### every QoS 2 PUBLISH is answered with PUBREC -/

/-- Default mode: a QoS 2 PUBLISH (first transmission or duplicate, any id, any stored state) is
    stored — no callback — and answered with PUBREC. -/
theorem pubrec_for_every_qos2_publish {fx : Fix} {s : St} {m : Message} {dup : Bool} {id : UInt16}
    (hp : s.proc = .recv false) (he : s.early = false) (hq : m.qos = 2) (hid : id ≠ 0) :
    ∃ s', run fx s [.recv (.publish m dup id), .sSave .proc .incoming (.publish m dup id) true,
                    .send .proc (.pubrec id) true] = some s' ∧
      s'.proc = .recv false ∧ s'.out = s.out ++ [(.pubrec id, true)] ∧ s'.cbs = s.cbs ∧
      s'.sess.lookupPacket .incoming id = some (.publish m dup id) := by
  have h2 : ¬ (m.qos.toNat > 2) := by rw [hq]; decide
  have h1 : ¬ (m.qos.toNat ≤ 1) := by rw [hq]; decide
  have h0 : m.qos ≠ 0 := by rw [hq]; decide
  refine ⟨{ s with sess := s.sess.savePacket .incoming (.publish m dup id), proc := .recv false, out := s.out ++ [(.pubrec id, true)] }, ?_, rfl, rfl, rfl, ?_⟩
  · simp [run, step, threadOf, stepProc, hp, he, h0, h1, h2, hid, sendLog]
  · exact lookup_in_save _ _ id rfl

/-- the steps in between are forced (uniqueness): after the PUBLISH was read the processor can only
    store it, then only send the PUBREC; a failing store or send ends in `die()` -/
theorem pubrec_path_forced {fx : Fix} {s s' : St} {l : Label} {m : Message} {dup : Bool} {id : UInt16} :
    (s.proc = .pubSave m dup id → stepProc fx s l = some s' →
      ∃ ok, l = .sSave .proc .incoming (.publish m dup id) ok ∧
        (ok = true → s' = { s with sess := s.sess.savePacket .incoming (.publish m dup id), proc := .pubRec id }) ∧
        (ok = false → s' = s.procDie true)) ∧
    (s.proc = .pubRec id → stepProc fx s l = some s' →
      ∃ ok, l = .send .proc (.pubrec id) ok ∧ s'.out = s.out ++ [(.pubrec id, ok)] ∧ (ok = true → s'.proc = .recv false)) :=
  ⟨fun hp h => pubSave_step hp h, fun hp h => pubRec_step hp h⟩

/-! ### every PUBREL is answered with PUBCOMP, also for an unknown id -/

/-- Repaired code, default mode, the message is stored: callback once, the message is forgotten,
    then PUBCOMP. -/
theorem pubcomp_for_known_pubrel {s : St} {m : Message} {d : Bool} {id : UInt16}
    (hp : s.proc = .recv false) (he : s.early = false) (hid : id ≠ 0)
    (hl : s.sess.lookupPacket .incoming id = some (.publish m d id)) :
    ∃ s', run Fix.repaired s [.recv (.pubrel id), .sLookup .incoming id (.found (some (.publish m d id))),
        .cb m true, .sDel .proc .incoming id true, .send .proc (.pubcomp id) true] = some s' ∧
      s'.proc = .recv false ∧ s'.cbs = s.cbs ++ [m] ∧ s'.out = s.out ++ [(.pubcomp id, true)] ∧
      s'.sess.lookupPacket .incoming id = none := by
  refine ⟨{ s with sess := s.sess.deletePacket .incoming id, proc := .recv false, cbs := s.cbs ++ [m], out := s.out ++ [(.pubcomp id, true)] }, ?_, rfl, rfl, rfl, ?_⟩
  · simp [run, step, threadOf, stepProc, hp, he, hid, hl, Fix.repaired, sendLog]
  · exact lookup_in_delete _ _

/-- Repaired code: a PUBREL for an id the client does not know (any more) is answered with PUBCOMP
    while the client is connected — no callback — so the sender's handshake terminates. -/
theorem pubcomp_for_unknown_pubrel {s : St} {id : UInt16}
    (hp : s.proc = .recv false) (hid : id ≠ 0) (hl : s.sess.lookupPacket .incoming id = none)
    (hc : s.state = .connected) :
    ∃ s', run Fix.repaired s [.recv (.pubrel id), .sLookup .incoming id (.found none), .tau .proc,
        .send .proc (.pubcomp id) true] = some s' ∧
      s'.proc = .recv false ∧ s'.cbs = s.cbs ∧ s'.out = s.out ++ [(.pubcomp id, true)] := by
  refine ⟨{ s with proc := .recv false, out := s.out ++ [(.pubcomp id, true)] }, ?_, rfl, rfl, rfl⟩
  simp [run, step, threadOf, stepProc, hp, hid, hl, hc, Fix.repaired, sendLog]

/-- the full clause, for an arbitrary `Fix` -/
def pubcomp_for_every_pubrel_full (fx : Fix) : Prop :=
  ∀ (s : St) (id : UInt16), s.proc = .recv false → id ≠ 0 → s.sess.lookupPacket .incoming id = none →
    s.state = .connected →
    ∃ s', run fx s [.recv (.pubrel id), .sLookup .incoming id (.found none), .tau .proc,
        .send .proc (.pubcomp id) true] = some s' ∧ s'.out = s.out ++ [(.pubcomp id, true)]

theorem pubcomp_for_every_pubrel : pubcomp_for_every_pubrel_full Fix.repaired := by
  intro s id hp hid hl hc
  obtain ⟨s', hr, _, _, ho⟩ := pubcomp_for_unknown_pubrel hp hid hl hc
  exact ⟨s', hr, ho⟩

/-- defect 10 (`Fix.legacy`): the code as it was found ignores such a PUBREL -/
theorem pubcomp_for_every_pubrel_legacy_fails : ¬ pubcomp_for_every_pubrel_full Fix.legacy := by
  intro hall
  obtain ⟨s', hr, _⟩ := hall { proc := .recv false, state := .connected } 7 rfl (by decide) rfl rfl
  have hn : run Fix.legacy { proc := .recv false, state := .connected } [.recv (.pubrel 7), .sLookup .incoming 7 (.found none),
      .tau .proc, .send .proc (.pubcomp 7) true] = none := by decide
  rw [hn] at hr; simp at hr

/-! ### QoS 0 and 1 are passed on as they arrive, QoS 1 followed by PUBACK -/

/-- a QoS 0 PUBLISH is passed to the application before the processor reads anything else -/
theorem qos0_pass_through {fx : Fix} {s : St} {m : Message} {dup : Bool}
    (hp : s.proc = .recv false) (hq : m.qos = 0) :
    ∃ s', run fx s [.recv (.publish m dup 0), .cb m true] = some s' ∧
      s'.proc = .recv false ∧ s'.cbs = s.cbs ++ [m] ∧ s'.out = s.out := by
  have h2 : ¬ (m.qos.toNat > 2) := by rw [hq]; decide
  have h1 : m.qos.toNat ≤ 1 := by rw [hq]; decide
  refine ⟨{ s with proc := .recv false, cbs := s.cbs ++ [m] }, ?_, rfl, rfl, rfl⟩
  simp [run, step, threadOf, stepProc, hp, hq, h1, h2]

/-- a QoS 1 PUBLISH is passed to the application and then, not before, acknowledged with PUBACK -/
theorem qos1_pass_through {fx : Fix} {s : St} {m : Message} {dup : Bool} {id : UInt16}
    (hp : s.proc = .recv false) (hq : m.qos = 1) (hid : id ≠ 0) :
    ∃ s', run fx s [.recv (.publish m dup id), .cb m true, .send .proc (.puback id) true] = some s' ∧
      s'.proc = .recv false ∧ s'.cbs = s.cbs ++ [m] ∧ s'.out = s.out ++ [(.puback id, true)] := by
  have h2 : ¬ (m.qos.toNat > 2) := by rw [hq]; decide
  have h1 : m.qos.toNat ≤ 1 := by rw [hq]; decide
  have h0 : m.qos ≠ 0 := by rw [hq]; decide
  refine ⟨{ s with proc := .recv false, cbs := s.cbs ++ [m], out := s.out ++ [(.puback id, true)] }, ?_, rfl, rfl, rfl⟩
  simp [run, step, threadOf, stepProc, hp, hq, h0, h1, h2, hid, sendLog]

/-- uniqueness: after a QoS 0/1 PUBLISH was read the processor can do nothing but invoke the
    callback with exactly that message (so messages are passed on in the order of arrival: the next
    packet is read only afterwards); after the callback accepted a QoS 1 message it can do nothing
    but send the PUBACK for its id -/
theorem qos01_path_forced {fx : Fix} {s s' : St} {l : Label} {m : Message} {dup : Bool} {id : UInt16} :
    (s.proc = .recv false → stepProc fx s (.recv (.publish m dup id)) = some s' → m.qos.toNat ≤ 1 →
      s' = { s with proc := .pubCb m dup id }) ∧
    (s.proc = .pubCb m dup id → stepProc fx s l = some s' →
      ∃ ok, l = .cb m ok ∧
        (ok = true → s'.cbs = s.cbs ++ [m] ∧ s'.out = s.out ∧ s'.sess = s.sess ∧
          s'.proc = (if m.qos = 1 then Proc.pubAck id else if m.qos = 2 then Proc.pubSave m dup id else Proc.recv false)) ∧
        (ok = false → s' = s.procDie true)) ∧
    (s.proc = .pubAck id → stepProc fx s l = some s' →
      ∃ ok, l = .send .proc (.puback id) ok ∧ s'.out = s.out ++ [(.puback id, ok)] ∧ s'.cbs = s.cbs ∧
        (ok = true → s'.proc = .recv false)) := by
  refine ⟨?_, fun hp h => pubCb_step hp h, fun hp h => pubAck_step hp h⟩
  intro hp h hq
  rw [recv_publish hp h, if_pos (Or.inl hq)]

/-! ### a callback error: no acknowledgement, the connection is closed -/

/-- When the callback returns an error — at a QoS 0/1 PUBLISH, at a QoS 2 PUBLISH in announce
    mode, or at the PUBREL — the processor enters `die(err, true)` and nothing else changes: the
    message is not counted as delivered, nothing was handed to the connection, a stored QoS 2
    message stays stored (the broker will redeliver). -/
theorem callback_error_enters_die {fx : Fix} {s s' : St} {m : Message} :
    (∀ dup id, s.proc = .pubCb m dup id → stepProc fx s (.cb m false) = some s' → s' = s.procDie true) ∧
    (∀ id, s.proc = .relCb m id → stepProc fx s (.cb m false) = some s' → s' = s.procDie true) := by
  constructor
  · intro dup id hp h
    obtain ⟨ok, hl, _, hf⟩ := pubCb_step hp h
    simp at hl; subst hl; exact hf rfl
  · intro id hp h
    obtain ⟨ok, hl, _, hf⟩ := relCb_step hp h
    simp at hl; subst hl; exact hf rfl

/-- Inside `die()` — in every state, whatever the other goroutines do in between — the processor
    hands nothing to the connection and invokes no message callback, and when `die` returns the
    processor is gone: no PUBACK / PUBREC / PUBCOMP for the rejected message is ever sent on this
    connection. -/
theorem callback_error_no_ack {fx : Fix} {s s' : St} {l : Label} {d : Die} (hp : s.proc = .die d)
    (h : stepProc fx s l = some s') :
    (∀ p ok, l ≠ .send .proc p ok) ∧ (∀ m ok, l ≠ .cb m ok) ∧ s'.out = s.out ∧ s'.cbs = s.cbs ∧
      (d.after = .exit → s'.proc = .exited true ∨ ∃ d', s'.proc = .die d' ∧ d'.after = .exit ∧ d'.closeConn = d.closeConn) :=
  die_no_send hp h

/-- … and the connection is closed: unless another goroutine is already tearing the client down,
    three hidden statements after the callback error (`finish.Do`, cancel of the connect future,
    `state := disconnected`) the only thing the processor can do is `conn.Close()`. -/
theorem callback_error_closes {fx : Fix} {s : St} (hp : s.proc = .die (mkDie true .exit))
    (hf : s.finishClaimed = false) :
    ∃ s', run fx s [.tau .proc, .tau .proc, .tau .proc] = some s' ∧
      (∃ c, s'.proc = .die ⟨.clean c, true, .exit⟩ ∧ c.stage = .closeConn) ∧ s'.state = .disconnected ∧
      ∀ l s'', stepProc fx s' l = some s'' → ∃ ok, l = .close .proc ok ∧ s''.conn = .closed :=
  die_closes hp hf

/-! ### exactly once per handshake (default mode)

  `Sys` = the repaired client ∥ a broker monitor (`Proofs/ClientC10b.lean`).  The monitor holds, per
  packet id, the sender's phase `idle | pub m | rel m`, whether a PUBREC / PUBCOMP of the current
  handshake was handed to the connection, and `n` = how often the application accepted the
  message of the current handshake.  `Allowed` is the hypothesis, spelled out:
    * well-behaved broker — a QoS 2 PUBLISH under an id only while that id is idle (new handshake)
      or still in phase `pub` with the same message (duplicate); PUBREL only in phase `rel`;
      the phase moves `pub → rel` only after a PUBREC was sent, `rel → idle` only after a PUBCOMP
      was sent, and each of these may happen arbitrarily late or never (lost acknowledgements,
      retransmissions after reconnects);
    * the session is not clean and its operations do not fail; default callback mode.
  Everything else is unconstrained: interleaving of ids, connection loss at any point, reconnects
  (`newClient`), send failures, callback errors, exported methods running concurrently. -/

/-- In every reachable state of client ∥ broker and for every packet id: the application accepted
    the message of the current handshake at most once; and once a PUBCOMP for the handshake was
    handed to the connection, exactly once. -/
theorem callback_once_per_handshake {s : St} {g : G} (h : SysReach Fix.repaired (s, g)) (id : UInt16) :
    g.n id ≤ 1 ∧ (∀ m, g.ph id = .rel m → g.compS id = true → g.n id = 1) := by
  have inv := (sysInv_reach h).j id
  refine ⟨inv.le, ?_⟩
  intro m hm hc
  rcases inv.b m hm with ⟨_, b2, _⟩ | ⟨b1, _⟩
  · rw [hc] at b2; simp at b2
  · exact b1

/-- … and the message is not lost either: while the sender still waits for the PUBCOMP and the
    application has not got the message, the message is in the session -/
theorem undelivered_is_stored {s : St} {g : G} (h : SysReach Fix.repaired (s, g)) (id : UInt16) (m : Message)
    (hm : g.ph id = .rel m) (hn : g.n id = 0) : ∃ d j, inc s id = some (.publish m d j) := by
  rcases ((sysInv_reach h).j id).b m hm with ⟨_, _, b3⟩ | ⟨b1, _⟩
  · exact b3
  · rw [hn] at b1; simp at b1

def m2 : Message := ⟨[116], [113], 2, false⟩
def cpk : Packet := .connect [99] 0 [] [] false none 4

/-- non-vacuity: a handshake with a duplicated PUBLISH, a PUBCOMP whose send fails, a reconnect
    with the same session and a retransmitted PUBREL is a run of client ∥ broker; the application
    got the message once, the retransmitted PUBREL was answered without a second delivery -/
def lossyHandshake : List SLabel :=
  [.cl (.aConnect cpk false true false), .cl (.tau .api), .cl (.dial true), .cl (.tau .api), .cl (.send .api cpk true),
   .cl (.tau .api), .cl (.aRet .fut),
   .cl (.recv (.connack false 0)), .cl (.tau .proc), .cl (.tau .proc), .cl (.tau .proc), .cl (.tau .proc),
   .cl (.sAll true), .cl (.tau .proc),
   .cl (.recv (.publish m2 false 1)), .cl (.sSave .proc .incoming (.publish m2 false 1) true), .cl (.send .proc (.pubrec 1) true),
   .cl (.recv (.publish m2 true 1)), .cl (.sSave .proc .incoming (.publish m2 true 1) true), .cl (.send .proc (.pubrec 1) true),
   .gotPubrec 1,
   .cl (.recv (.pubrel 1)), .cl (.sLookup .incoming 1 (.found (some (.publish m2 true 1)))), .cl (.cb m2 true),
   .cl (.sDel .proc .incoming 1 true), .cl (.send .proc (.pubcomp 1) false),
   .cl (.tau .proc), .cl (.tau .proc), .cl (.tau .proc), .cl (.tau .proc), .cl (.cbErr .proc),
   .cl .newClient,
   .cl (.aConnect cpk false true false), .cl (.tau .api), .cl (.dial true), .cl (.tau .api), .cl (.send .api cpk true),
   .cl (.tau .api), .cl (.aRet .fut),
   .cl (.recv (.connack true 0)), .cl (.tau .proc), .cl (.tau .proc), .cl (.tau .proc), .cl (.tau .proc),
   .cl (.sAll true), .cl (.tau .proc),
   .cl (.recv (.pubrel 1)), .cl (.sLookup .incoming 1 (.found none)), .cl (.tau .proc), .cl (.send .proc (.pubcomp 1) true),
   .gotPubcomp 1]

theorem lossyHandshake_outcome :
    (sysRun ({}, {}) lossyHandshake).map (fun x => (x.1.cbs, x.2.n 1, x.1.out.filter (fun e => e.1 == .pubcomp 1))) =
      some ([m2], 1, [(.pubcomp 1, false), (.pubcomp 1, true)]) := by decide

example : ∃ x : St × G, SysReach Fix.repaired x ∧ x.1.cbs = [m2] ∧ x.2.n 1 = 1 := by
  have hrun : (sysRun ({}, {}) lossyHandshake).isSome = true := by decide
  obtain ⟨x, hx⟩ := Option.isSome_iff_exists.mp hrun
  have ho := lossyHandshake_outcome
  rw [hx] at ho
  simp at ho
  exact ⟨x, sysReach_of_run _ _ _ .init hx, ho.1, ho.2.1⟩

/-- defect 11 (`Fix.legacy`): the found code deletes the stored message only after the PUBCOMP
    write; when that write fails the retransmitted PUBREL on the resumed session delivers the
    message to the application a second time -/
theorem legacy_callback_twice :
    (run Fix.legacy {}
      [.aConnect cpk false true false, .tau .api, .dial true, .tau .api, .send .api cpk true, .tau .api, .aRet .fut,
       .recv (.connack false 0), .tau .proc, .tau .proc, .tau .proc, .tau .proc, .sAll true, .tau .proc,
       .recv (.publish m2 false 1), .sSave .proc .incoming (.publish m2 false 1) true, .send .proc (.pubrec 1) true,
       .recv (.pubrel 1), .sLookup .incoming 1 (.found (some (.publish m2 false 1))), .cb m2 true,
       .send .proc (.pubcomp 1) false,
       .tau .proc, .tau .proc, .tau .proc, .tau .proc, .cbErr .proc,
       .newClient,
       .aConnect cpk false true false, .tau .api, .dial true, .tau .api, .send .api cpk true, .tau .api, .aRet .fut,
       .recv (.connack true 0), .tau .proc, .tau .proc, .tau .proc, .tau .proc, .sAll true, .tau .proc,
       .recv (.pubrel 1), .sLookup .incoming 1 (.found (some (.publish m2 false 1))), .cb m2 true]).map (·.cbs)
      = some [m2, m2] := by decide

end C10
