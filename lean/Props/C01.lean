import Model.Codec
import Model.Ref
import Proofs.CodecRT
/-
  Props/C01.lean — property C01: the codec round-trips every well-formed packet; Len() equals
  the bytes written; byte layout = the independent reference codec.
  ONLY property theorems and their non-vacuity examples live here; helper lemmas are in
  Proofs/CodecRT.lean.  All statements quantify over every packet value (no size bound).
-/
namespace C01

/-- varint: `binary.Uvarint (binary.PutUvarint n ++ rest) = (n, len)` for every n that fits 64 bit
    groups used by MQTT (all n < 2^63 suffices here; MQTT needs n ≤ 268435455) -/
theorem varint_roundtrip (n : Nat) (hn : n ≤ maxVarint) (rest : Bytes) :
    uvarint (putUvarint n ++ rest) = (n, ((putUvarint n).length : Int)) :=
  uvarint_put n hn rest

theorem varintLen_eq_length (n : Nat) (hn : n ≤ maxVarint) :
    (putUvarint n).length = varintLen n :=
  varintLen_eq_length' n hn

/-- encoding a well-formed packet succeeds and writes exactly `Len()` bytes -/
theorem encode_ok_len (p : Packet) (h : p.WF = true) :
    ∃ bs, encode p = .ok bs ∧ bs.length = p.len :=
  ⟨wire p, encode_wire p h, wire_length p h⟩

/-- the buffer check of `Encode`: any buffer of at least `Len()` bytes gives the same bytes,
    a shorter one is refused -/
theorem encodeInto_ge (p : Packet) (h : p.WF = true) (cap : Nat) (hc : p.len ≤ cap) :
    encodeInto cap p = encode p :=
  encodeInto_ge' p h cap hc

theorem encodeInto_lt (p : Packet) (cap : Nat) (hc : cap < p.len) :
    encodeInto cap p = .error .err :=
  encodeInto_lt' p cap hc

/-- the bytes are those the MQTT 3.1.1 text mandates (independent reference codec) -/
theorem encode_eq_ref (p : Packet) (h : p.WF = true) (bs : Bytes) (he : encode p = .ok bs) :
    Ref.encode p = some bs := by
  rw [encode_wire p h] at he
  cases he
  exact ref_encode_wire p h

/-- decoding consumes exactly the encoding (whatever follows it) and yields the original packet
    (CONNECT: with the version default applied, as `Encode` itself leaves it) -/
theorem decode_encode (p : Packet) (h : p.WF = true) (bs : Bytes) (he : encode p = .ok bs)
    (tail : Bytes) : decode p.type (bs ++ tail) = .ok p.norm tail := by
  rw [encode_wire p h] at he
  cases he
  exact decode_wire p h tail

/-- packets that are not well-formed are refused by the encoder — except that `Encode` does not
    check for an empty subscription / return-code / topic list, nor for a non-zero id on a QoS 0
    PUBLISH (it is simply not written), nor for the total length when `Len()` itself … -/
theorem encode_err_of_not_wf (p : Packet) (h : p.WF = false)
    (hl : match p with
          | .subscribe ss _ => ss ≠ []
          | .suback cs _ => cs ≠ []
          | .unsubscribe ts _ => ts ≠ []
          | .publish m _ id => m.qos = 0 → id = 0
          | _ => True)
    (hlen : p.rlen ≤ maxVarint) :
    encode p = .error .err :=
  encode_err_of_not_wf' p h hl hlen

/-! non-vacuity: a well-formed value of every type with every optional field present
    ("cid" = 99 105 100, "u" = 117, "p" = 112, "w/t" = 119 47 116, "a/b" = 97 47 98,
     "a/#" = 97 47 35, "a" = 97) -/
example : (Packet.connect [99, 105, 100] 30 [117] [112] false
    (some ⟨[119, 47, 116], [1, 2, 3], 2, true⟩) 0).WF = true := by decide
example : (Packet.publish ⟨[97, 47, 98], [0xff], 1, true⟩ true 7).WF = true := by decide
example : (Packet.subscribe [⟨[97, 47, 35], 2⟩, ⟨[], 0⟩] 65535).WF = true := by decide
example : (Packet.suback [0, 1, 2, 0x80] 1).WF = true := by decide
example : (Packet.unsubscribe [[97], []] 256).WF = true := by decide
example : (Packet.connack true 5).WF = true := by decide
example : (Packet.pubrel 1).WF = true ∧ Packet.pingreq.WF = true := by decide

end C01
