import Model.Codec
import Model.Ref
import Proofs.CodecDec
/-
  Props/C02.lean — property C02: the decoder is total, memory-safe, local and spec-faithful on
  arbitrary bytes.  Every theorem quantifies over ALL byte strings `bs` and all 14 static types.
  Helper lemmas live in Proofs/CodecDec.lean.
-/
namespace C02

/-- no Go index / slice expression in any decoder is ever out of bounds -/
theorem decode_no_panic (t : PType) (bs : Bytes) : (decode t bs).isPanic = false :=
  NoPanic.decode t bs

/-- what is reported as unread is a suffix of the input: the consumed count never exceeds the
    bytes supplied — on success and on error -/
theorem decode_rest_suffix (t : PType) (bs : Bytes) : ∃ pre, bs = pre ++ (decode t bs).rest := by
  obtain ⟨pre, h⟩ := Suffix.decode t bs
  exact ⟨pre, h.symm⟩

/-- locality: the outcome (accept/reject and the decoded value) for a packet of header-declared
    extent does not depend on what follows.
    CONNECT is excluded: known finding (its decoder ignores the declared length).
    The originally intended statement also fixed the reported error position (see
    `decode_local_strong`); that is false for SUBACK, whose decoder reads the packet identifier
    before it checks the remaining length: `90 01 00` alone fails at offset 2 (rest `00`), followed
    by `01` it fails at offset 4 (rest empty) — see `decode_local_suback_counterexample`. -/
theorem decode_local_partial (t : PType) (ht : t ≠ .connect) (pkt tail : Bytes)
    (hf : framed pkt = true) :
    (decode t (pkt ++ tail)).toOption = (decode t pkt).toOption :=
  decode_local_opt' t ht pkt tail hf

/-- locality including the reported rest (the consumed count on success and the error position on
    failure), for every type but CONNECT and SUBACK -/
theorem decode_local_strong (t : PType) (ht : t ≠ .connect) (hs : t ≠ .suback) (pkt tail : Bytes)
    (hf : framed pkt = true) :
    decode t (pkt ++ tail) =
      (match decode t pkt with
       | .ok p r => .ok p (r ++ tail)
       | .err e r => .err e (r ++ tail)) := by
  rw [decode_local_strong' t ht hs pkt tail hf]
  cases decode t pkt <;> rfl

/-- SUBACK: the same once the declared remaining length covers the packet identifier -/
theorem decode_local_strong_suback (pkt tail : Bytes) (hf : framed pkt = true) (fl rl : Nat)
    (rest : Bytes) (hh : decodeHeader .suback pkt = .ok (fl, rl) rest) (h2 : 2 ≤ rl) :
    decode .suback (pkt ++ tail) =
      (match decode .suback pkt with
       | .ok p r => .ok p (r ++ tail)
       | .err e r => .err e (r ++ tail)) := by
  rw [decodeSuback_local_hdr pkt tail hf fl rl rest hh h2]
  cases decode .suback pkt <;> rfl

/-- the error position of SUBACK is not local: `90 01 00` is framed; alone it fails with rest `00`,
    followed by `01` it fails with nothing left instead of `00 01` -/
theorem decode_local_suback_counterexample :
    framed [0x90, 0x01, 0x00] = true ∧
    (decode .suback [0x90, 0x01, 0x00]).rest = [0x00] ∧
    (decode .suback ([0x90, 0x01, 0x00] ++ [0x01])).rest = [] ∧
    (decode .suback ([0x90, 0x01, 0x00] ++ [0x01])).rest
      ≠ (decode .suback [0x90, 0x01, 0x00]).rest ++ [0x01] := by
  refine ⟨?_, ?_, ?_, ?_⟩ <;> decide +kernel

/-- full-strength locality, kept visible; false for CONNECT on the current code -/
def decode_local_full : Prop :=
  ∀ (t : PType) (pkt tail : Bytes), framed pkt = true →
    (decode t (pkt ++ tail)).toOption = (decode t pkt).toOption

/-- witness: CONNECT declaring 13 bytes but needing 15: fails framed, succeeds with two more bytes -/
theorem decode_local_connect_fails : ¬ decode_local_full := by
  intro h
  have := h .connect connectWitness [0x7a, 0x6f] connectWitness_framed
  rw [connectWitness_alone, connectWitness_embedded] at this
  cases this

/-- on a framed buffer the decoder accepts exactly what the reference decoder accepts, with the
    same field values -/
theorem decode_framed_eq_ref (t : PType) (bs : Bytes) (hf : framed bs = true) :
    (decode t bs).toOption = Ref.decode t bs :=
  decode_framed_eq_ref' t bs hf

/-- every application message the decoder admits can be encoded again for forwarding -/
theorem decoded_publish_reencodable (bs : Bytes) (m : Message) (d : Bool) (id : UInt16) (r : Bytes)
    (h : decode .publish bs = .ok (.publish m d id) r) :
    ∀ (d' : Bool) (id' : UInt16), id' ≠ 0 → ∃ out, encode (.publish m d' id') = .ok out :=
  decoded_publish_reencodable' bs m d id r h

theorem decoded_will_reencodable (bs : Bytes) (c : Bytes) (ka : UInt16) (u p : Bytes) (cl : Bool)
    (m : Message) (v : UInt8) (r : Bytes)
    (h : decode .connect bs = .ok (.connect c ka u p cl (some m) v) r) :
    ∀ (d' : Bool) (id' : UInt16), id' ≠ 0 → ∃ out, encode (.publish m d' id') = .ok out :=
  decoded_will_reencodable' bs c ka u p cl m v r h

/-- header table: for all 16 x 16 type/flag nibbles the fixed header is accepted iff the type
    matches and the flags are the mandated ones (PUBLISH: any) -/
theorem header_table (t : PType) (ty fl : Nat) (hty : ty < 16) (hfl : fl < 16) (rest : Bytes) :
    (decodeHeader t (UInt8.ofNat (ty * 16 + fl) :: 0 :: rest)).isOk
      = (decide (ty = t.code) && (t == .publish || decide (fl = t.defaultFlags))) :=
  header_table' t ty fl hty hfl rest

/-- the detection length never exceeds what the remaining-length bytes say; DetectPacket is total
    (it has no slice expression with computed bounds) and agrees with decodeHeader on ≤4-byte
    lengths -/
theorem detect_eq_header (b0 : UInt8) (tl : Bytes) (rl : Nat) (rest : Bytes)
    (h : readVarint tl = .ok rl rest) :
    detectPacket (b0 :: tl) = (((1 + (tl.length - rest.length) + rl : Nat) : Int), b0.toNat / 16) :=
  detect_eq_header' b0 tl rl rest h

end C02
