import Model.Broker
import Proofs.BrokerProc
import Proofs.BrokerSetup
import Proofs.BrokerQos
import Proofs.BrokerInc
/-
  Props/C07.lean — property C07: the broker acknowledges a publisher only after the backend has
  accepted the message (PUBACK / PUBCOMP through the backend's acknowledgement, PUBREC after the
  PUBLISH was stored in the publisher's session); every PUBREL is answered; a QoS 2 message is
  handed to the backend exactly once — proved for a backend that acknowledges synchronously, refuted
  (known finding) for one that acknowledges late or never when the connection is lost in between.
  `BrokerB2.Succ r t`: `t` is one of the possible successor states of the outcome `r`;
  `BrokerB2.AckPlaced s t c x p`: where the acknowledgement `p` went (ack queue / pending / nowhere).
-/
namespace C07
open BState BrokerB2

/-- QoS 1: the PUBACK is handed to the backend's acknowledgement only after `Backend.Publish` was
    called for the message and accepted it. If the backend refuses (the client's own queue is full)
    the connection is closed and no PUBACK is queued anywhere, in any mode. Otherwise the PUBACK
    is: in the ack queue of this connection (synchronous backend), among the pending
    acknowledgements and NOT in the ack queue (late), nowhere (never). -/
theorem puback_after_accept (s t : BState) (c : ConnId) (x : BConn) (m : Message) (dup : Bool) (id : UInt16)
    (h : s.conn? c = some x) (ha : x.alive = true) (hp : x.phase = .connected) (hq : m.qos = 1)
    (htok : x.pubTok > 0) (ht : Succ (recv s c (.publish m dup id)) t) :
    (∃ s', backendPublish (s.setConn c { x with pubTok := x.pubTok - 1 }) c m = .queueFull s' ∧
        Succ (kill s' c) t ∧ OutsSame s t ∧ t.pendingAcks = s.pendingAcks) ∨
    (∃ s', backendPublish (s.setConn c { x with pubTok := x.pubTok - 1 }) c m = .ok s' ∧
        t = ackVia s' c (.puback id) (fun s => s) ∧
        t.bevents = s.bevents ++ [.publish c m] ∧ AckPlaced s t c x (.puback id)) := by
  obtain ⟨ph, al, xid, xw, xs, xp, xa, pt, st, dc, dh, rn, cs, stl, zb⟩ := x
  simp only at ha hp htok
  subst ha hp
  unfold recv at ht
  simp only [h, hq, Nat.ne_of_gt htok] at ht
  simp only [Bool.not_true, Bool.false_eq_true, if_false, if_true] at ht
  have h1 := OutsSame.of_setConn s c _ ⟨.connected, true, xid, xw, xs, xp, xa, pt - 1, st, dc, dh, rn, cs, stl, zb⟩ h rfl rfl rfl
  obtain ⟨s', f, hk | hk⟩ := publishThen_succ _ _ _ _ _ ht
  · right
    obtain ⟨hb, hk⟩ := hk
    rw [succ_one] at hk
    refine ⟨s', hb, hk, ?_, ?_⟩
    · rw [hk, ackVia_bevents _ _ _ _ rfl, f.bevents]; rfl
    · rw [hk]
      refine (ackVia_placed s' c _ (.puback id) (fun s => s) ((f.conn? c).trans (conn?_setConn_same _ _ _)) rfl rfl rfl).transport
        ?_ rfl rfl f.neverAck f.lateAck f.pendingAcks
      intro c' hc
      exact ((h1.trans f.outsSame) c').1
  · left
    obtain ⟨hb, hk⟩ := hk
    refine ⟨s', hb, hk, h1.trans (f.outsSame.trans (kill_outsSame _ _ _ hk)), ?_⟩
    have kf := kill_frame s' t c _ ((f.conn? c).trans (conn?_setConn_same _ _ _)) rfl hk
    rw [kf.pendingAcks, f.pendingAcks]; rfl

/-- QoS 1, at least once: whenever this step placed an acknowledgement anywhere (ack queue or pending
    acknowledgements changed), the backend had accepted the message in the same step. -/
theorem qos1_at_least_once (s t : BState) (c : ConnId) (x : BConn) (m : Message) (dup : Bool) (id : UInt16)
    (h : s.conn? c = some x) (ha : x.alive = true) (hp : x.phase = .connected) (hq : m.qos = 1)
    (htok : x.pubTok > 0) (ht : Succ (recv s c (.publish m dup id)) t)
    (hack : t.pendingAcks ≠ s.pendingAcks ∨ ∃ c', outsOf t c' ≠ outsOf s c') :
    (∃ s', backendPublish (s.setConn c { x with pubTok := x.pubTok - 1 }) c m = .ok s') ∧
    t.bevents = s.bevents ++ [.publish c m] := by
  rcases puback_after_accept s t c x m dup id h ha hp hq htok ht with ⟨s', _, _, hs, hpa⟩ | ⟨s', hb, _, he, _⟩
  · rcases hack with hack | ⟨c', hack⟩
    · exact absurd hpa hack
    · exact absurd (hs c').1 hack
  · exact ⟨⟨s', hb⟩, he⟩

/-- QoS 2, first half: the PUBLISH is recorded in the publisher's session, then the PUBREC is written;
    nothing is handed to the backend yet. -/
theorem pubrec_after_saved (s t : BState) (c : ConnId) (x : BConn) (b : BSess) (m : Message) (dup : Bool) (id : UInt16)
    (h : s.conn? c = some x) (ha : x.alive = true) (hp : x.phase = .connected) (hs : s.sessOf c = some b)
    (hq : m.qos = 2) (htok : x.pubTok > 0) (ht : Succ (recv s c (.publish m dup id)) t) :
    t.bevents = s.bevents ∧ t.pendingAcks = s.pendingAcks ∧
    (∃ b', t.sessOf c = some b' ∧ b'.sess.lookupPacket .incoming id = some (.publish m dup id)) ∧
    ∃ x', t.conn? c = some x' ∧ x'.alive = true ∧ x'.procOut = x.procOut ++ [.pubrec id] ∧ x'.ackOut = x.ackOut := by
  obtain ⟨ph, al, xid, xw, xs, xp, xa, pt, st, dc, dh, rn, cs, stl, zb⟩ := x
  simp only at ha hp htok
  subst ha hp
  have hq0 : ¬ m.qos = 0 := by rw [hq]; decide
  have hq1 : ¬ m.qos = 1 := by rw [hq]; decide
  unfold recv at ht
  simp only [h, hq0, hq1, Nat.ne_of_gt htok] at ht
  simp only [Bool.not_true, Bool.false_eq_true, if_false] at ht
  have hs1 := (sessOf_setConn_same s c _ ⟨.connected, true, xid, xw, xs, xp, xa, pt - 1, st, dc, dh, rn, cs, stl, zb⟩ h rfl).trans hs
  rw [hs1] at ht
  simp only [] at ht
  rw [succ_one] at ht
  subst ht
  refine ⟨by simp, ?_, ⟨{ b with sess := b.sess.savePacket .incoming (.publish m dup id) }, ?_, ?_⟩, ?_⟩
  · unfold updConn; split <;> simp
  · refine (sessOf_updConn _ _ _ _ ?_).trans (sessOf_setSessOf _ c _ b hs1)
    intro _; rfl
  · exact lookup_savePacket _ _ _ rfl
  · rw [updConn_of_some _ _ _ _ (by rw [setSessOf_conn?]; exact conn?_setConn_same _ _ _)]
    exact ⟨_, conn?_setConn_same _ _ _, rfl, rfl, rfl⟩

/-- Every PUBREL is answered. Unknown packet id: the PUBCOMP is written at once, nothing is handed
    to the backend. -/
theorem pubrel_unknown_answered (s t : BState) (c : ConnId) (x : BConn) (b : BSess) (id : UInt16)
    (h : s.conn? c = some x) (ha : x.alive = true) (hp : x.phase = .connected) (hs : s.sessOf c = some b)
    (hlk : ∀ m d i, b.sess.lookupPacket .incoming id ≠ some (.publish m d i))
    (ht : Succ (recv s c (.pubrel id)) t) :
    t.bevents = s.bevents ∧ t.pendingAcks = s.pendingAcks ∧
    ∃ x', t.conn? c = some x' ∧ x'.alive = true ∧ x'.procOut = x.procOut ++ [.pubcomp id] ∧ x'.ackOut = x.ackOut := by
  unfold recv at ht
  simp only [h, ha, hp, hs] at ht
  simp only [Bool.not_true, Bool.false_eq_true, if_false] at ht
  rw [updConn_of_some _ _ _ _ h, succ_one] at ht
  subst ht
  exact ⟨rfl, rfl, _, conn?_setConn_same _ _ _, ha, rfl, rfl⟩

/-- Known packet id: the stored message is handed to the backend — once in this step — and the
    PUBCOMP goes through the backend's acknowledgement (`AckPlaced`, as for PUBACK); if the backend
    refuses, the connection is closed and no PUBCOMP is queued. -/
theorem pubrel_known_answered (s t : BState) (c : ConnId) (x : BConn) (b : BSess) (id : UInt16)
    (m : Message) (d : Bool) (i : UInt16)
    (h : s.conn? c = some x) (ha : x.alive = true) (hp : x.phase = .connected) (hs : s.sessOf c = some b)
    (hlk : b.sess.lookupPacket .incoming id = some (.publish m d i))
    (ht : Succ (recv s c (.pubrel id)) t) :
    (∃ s', backendPublish s c m = .queueFull s' ∧ Succ (kill s' c) t ∧ OutsSame s t ∧ t.pendingAcks = s.pendingAcks) ∨
    (∃ s', backendPublish s c m = .ok s' ∧ t = ackVia s' c (.pubcomp id) (forgetIncoming c id) ∧
        t.bevents = s.bevents ++ [.publish c m] ∧ AckPlaced s t c x (.pubcomp id)) := by
  unfold recv at ht
  simp only [h, ha, hp, hs, hlk] at ht
  simp only [Bool.not_true, Bool.false_eq_true, if_false] at ht
  obtain ⟨s', f, hk | hk⟩ := publishThen_succ _ _ _ _ _ ht
  · right
    obtain ⟨hb, hk⟩ := hk
    rw [succ_one] at hk
    have hk' : t = ackVia s' c (.pubcomp id) (forgetIncoming c id) := hk
    refine ⟨s', hb, hk', ?_, ?_⟩
    · rw [hk', ackVia_bevents _ _ _ _ (forgetIncoming_bevents _ _ _), f.bevents]
    · rw [hk']
      refine (ackVia_placed s' c x (.pubcomp id) _ ((f.conn? c).trans h) ha (forgetIncoming_conns _ _ _)
        (forgetIncoming_pendingAcks _ _ _)).transport ?_ rfl rfl f.neverAck f.lateAck f.pendingAcks
      intro c' _
      exact (f.outsSame c').1
  · left
    obtain ⟨hb, hk⟩ := hk
    refine ⟨s', hb, hk, f.outsSame.trans (kill_outsSame _ _ _ hk), ?_⟩
    have kf := kill_frame s' t c x ((f.conn? c).trans h) ha hk
    rw [kf.pendingAcks, f.pendingAcks]

/-! ### QoS 2: handed on exactly once -/

/-- Synchronous backend: once the PUBREL step has handed the message to the backend, the
    publisher's session no longer holds the packet id (the acknowledgement deletes it before the
    PUBCOMP is queued). -/
theorem pubrel_forgets_sync (s t : BState) (c : ConnId) (x : BConn) (b : BSess) (id : UInt16)
    (m : Message) (d : Bool) (i : UInt16)
    (h : s.conn? c = some x) (ha : x.alive = true) (hp : x.phase = .connected) (hs : s.sessOf c = some b)
    (hlk : b.sess.lookupPacket .incoming id = some (.publish m d i))
    (hl : s.lateAck = false) (hn : s.neverAck = false)
    (ht : Succ (recv s c (.pubrel id)) t) (hacc : ∃ s', backendPublish s c m = .ok s') :
    t.bevents = s.bevents ++ [.publish c m] ∧
    ∀ b', t.sessOf c = some b' → b'.sess.lookupPacket .incoming id = none := by
  rcases pubrel_known_answered s t c x b id m d i h ha hp hs hlk ht with ⟨s', hb, _⟩ | ⟨s', hb, he, hev, _⟩
  · obtain ⟨s'', hb'⟩ := hacc
    rw [hb] at hb'; cases hb'
  · refine ⟨hev, ?_⟩
    have f := backendPublish_frame _ _ _ _ (Or.inl hb)
    rw [ackVia_sync _ _ _ _ (f.lateAck.trans hl) (f.neverAck.trans hn)] at he
    intro b' hb'
    rw [he, sessOf_updConn _ _ _ _ (by intro y; unfold pushAck; split <;> rfl)] at hb'
    exact forgetIncoming_lookup s' c id b' hb'

/-- The cause of the known finding: with a backend that acknowledges late (or never) the packet id is
    still in the session after the message has been handed to the backend. -/
theorem late_ack_keeps_stored (s t : BState) (c : ConnId) (x : BConn) (b : BSess) (id : UInt16)
    (m : Message) (d : Bool) (i : UInt16)
    (h : s.conn? c = some x) (ha : x.alive = true) (hp : x.phase = .connected) (hs : s.sessOf c = some b)
    (hlk : b.sess.lookupPacket .incoming id = some (.publish m d i))
    (hmode : s.lateAck = true ∨ s.neverAck = true)
    (ht : Succ (recv s c (.pubrel id)) t) (hacc : ∃ s', backendPublish s c m = .ok s') :
    t.bevents = s.bevents ++ [.publish c m] ∧
    ∃ b', t.sessOf c = some b' ∧ b'.sess.lookupPacket .incoming id = some (.publish m d i) := by
  rcases pubrel_known_answered s t c x b id m d i h ha hp hs hlk ht with ⟨s', hb, _⟩ | ⟨s', hb, he, hev, _⟩
  · obtain ⟨s'', hb'⟩ := hacc
    rw [hb] at hb'; cases hb'
  · refine ⟨hev, ?_⟩
    have f := backendPublish_frame _ _ _ _ (Or.inl hb)
    have hsess : t.sessOf c = s'.sessOf c := by
      cases hnv : s.neverAck with
      | true => rw [he, ackVia_never _ _ _ _ (f.neverAck.trans hnv)]
      | false =>
        have hl : s.lateAck = true := by
          rcases hmode with hm | hm
          · exact hm
          · rw [hnv] at hm; cases hm
        rw [he, ackVia_late _ _ _ _ (f.lateAck.trans hl) (f.neverAck.trans hnv)]
        exact sessOf_congr _ _ _ rfl rfl rfl
    have := f.sessOf c
    rw [hs] at this
    cases hs' : s'.sessOf c with
    | none => rw [hs'] at this; simp at this
    | some b' =>
      rw [hs'] at this
      simp only [Option.map_some, Option.some.injEq, Prod.mk.injEq] at this
      exact ⟨b', hsess.trans hs', by rw [this.2.1]; exact hlk⟩

/-- … hence a second PUBREL for the same id (a retransmission) — on this connection, or on a later
    one that resumed the session, as long as the session does not hold the id — is answered with
    PUBCOMP at once and hands nothing to the backend. -/
theorem second_pubrel_no_publish (s t : BState) (c : ConnId) (x : BConn) (b : BSess) (id : UInt16)
    (h : s.conn? c = some x) (ha : x.alive = true) (hp : x.phase = .connected) (hs : s.sessOf c = some b)
    (hlk : b.sess.lookupPacket .incoming id = none) (ht : Succ (recv s c (.pubrel id)) t) :
    t.bevents = s.bevents ∧
    ∃ x', t.conn? c = some x' ∧ x'.procOut = x.procOut ++ [.pubcomp id] :=
  have := pubrel_unknown_answered s t c x b id h ha hp hs (by intro m d i; rw [hlk]; simp) ht
  ⟨this.1, by obtain ⟨x', a, _, b, _⟩ := this.2.2; exact ⟨x', a, b⟩⟩

/-- Losing the connection does not touch the incoming store of any stored session. -/
theorem conn_loss_keeps_incoming (s t : BState) (c : ConnId) (ht : Succ (kill s c) t) (cid : ClientId) :
    incomingOf t cid = incomingOf s cid := kill_incoming s t c ht cid

/-- Resuming the session keeps its incoming store: if the stored session of client `cid` does not
    hold `pid` and a new connection is accepted for `cid`, its session does not hold `pid` either
    (a resumed session has the incoming store as it was, a new session has an empty one). -/
theorem resume_keeps_incoming (s t : BState) (c : ConnId) (x x' : BConn)
    (cid : Bytes) (ka : UInt16) (u pw : Bytes) (clean : Bool) (will : Option Message) (v : UInt8) (pid : UInt16)
    (h : s.conn? c = some x) (ha : x.alive = true) (hp : x.phase = .connecting) (hown : NotOwner s c)
    (hlacks : Lacks s cid pid)
    (ht : Succ (recv s c (.connect cid ka u pw clean will v)) t)
    (hx' : t.conn? c = some x') (ha' : x'.alive = true) :
    ∃ b', t.sessOf c = some b' ∧ b'.sess.lookupPacket .incoming pid = none := by
  have dead : ∀ s', (∃ y, s'.conn? c = some y) → Succ (kill s' c) t → False := by
    intro s' ⟨y, hy⟩ hk
    obtain ⟨y', b1, b2, _⟩ := kill_conn_after s' t c y hy hk
    rw [hx'] at b1; cases b1
    rw [ha'] at b2; cases b2
  obtain ⟨ph, al, xid, xw, xs, xp, xa, pt, st, dc, dh, rn, cs, stl, zb⟩ := x
  simp only at ha hp
  subst ha hp
  unfold recv at ht
  simp only [h, setConn_closing] at ht
  simp only [Bool.not_true, Bool.false_eq_true, if_false] at ht
  rcases succ_ite_prop _ _ _ _ ht with ⟨_, ht⟩ | ⟨_, ht⟩
  · exact (dead _ ⟨_, conn?_setConn_same _ _ _⟩ ht).elim
  · rcases succ_ite_prop _ _ _ _ ht with ⟨_, ht⟩ | ⟨_, ht⟩
    · exact (dead _ ⟨_, conn?_setConn_same _ _ _⟩ ht).elim
    · have hown' : NotOwner (s.setConn c ⟨.connecting, true, cid, xw, xs, xp, xa, pt, st, dc, dh, rn, cs, stl, zb⟩) c := hown
      have hcase := setup_cases _ t c _ cid clean will hown' ht
      obtain ⟨b', hb', hcs⟩ := setup_incoming _ t c _ cid clean will hcase x' hx' ha'
      refine ⟨b', hb', ?_⟩
      rcases hcs with ⟨_, _, hinc⟩ | hemp
      · exact hlacks _ hinc
      · show (b'.sess.incoming).lookup pid = none
        rw [hemp]; rfl

/-! ### exactly once, for every interleaving (synchronous backend) -/

/-- a step of the model other than the broker receiving a QoS 2 PUBLISH with packet id `pid` -/
inductive StepExcept (pid : UInt16) : BState → BState → Prop where
  | stim {s t : BState} (st : Stim) (ss : List BState) (h : stim s st = .ok ss) (hm : t ∈ ss)
      (hnp : ∀ c m d, st = .send c (.publish m d pid) → m.qos = 0 ∨ m.qos = 1) : StepExcept pid s t
  | obs {s t : BState} (o : Obs) (hm : t ∈ observe s o) : StepExcept pid s t
  | ackMode {s : BState} (late never : Bool) : StepExcept pid s { s with lateAck := late, neverAck := never }

theorem StepExcept.step {pid : UInt16} {s t : BState} (h : StepExcept pid s t) : Step s t := by
  cases h with
  | stim st ss h hm _ => exact .stim st ss h hm
  | obs o hm => exact .obs o hm
  | ackMode l n => exact .ackMode l n

/-- any number of such steps: other packets of any connection, connection losses, reconnects with
    session resumption, deliveries, acknowledgement-mode changes, backend shutdown … -/
inductive RunExcept (pid : UInt16) : BState → BState → Prop where
  | refl {s : BState} : RunExcept pid s s
  | step {s t u : BState} : RunExcept pid s t → StepExcept pid t u → RunExcept pid s u

/-- The incoming store of a stored session learns a packet id only through a QoS 2 PUBLISH with that
    id: every other step keeps "session `cid` does not hold `pid`". -/
theorem lacks_step (pid : UInt16) (cid : ClientId) (s t : BState) (h : StepExcept pid s t) (hl : Lacks s cid pid) :
    Lacks t cid pid := by
  cases h with
  | stim st ss h hm hnp => exact stim_incMono pid s t st hnp ⟨ss, h, hm⟩ cid hl
  | obs o hm => exact observe_incMono pid s t o hm cid hl
  | ackMode l n => exact hl

theorem lacks_run (pid : UInt16) (cid : ClientId) (s t : BState) (h : RunExcept pid s t) (hl : Lacks s cid pid) :
    Lacks t cid pid := by
  induction h with
  | refl => exact hl
  | step _ hs ih => exact lacks_step pid cid _ _ hs ih

/-- QoS 2 exactly once, synchronous backend. The PUBREL step hands the stored message to the backend
    once (`t1`). After ANY further run of the model that contains no new QoS 2 PUBLISH with that packet
    id — retransmitted PUBRELs, other traffic, loss of the connection at any point, reconnects that
    resume the session, by any connections in any order — a PUBREL for the id on any connection that
    uses this session (the same one or a later one) is answered with PUBCOMP at once and hands
    nothing to the backend. (Retransmitted PUBLISH packets before the PUBREL only re-save the
    packet: `pubrec_after_saved`, no backend call.) -/
theorem qos2_exactly_once_sync (s t1 u v : BState) (c c2 : ConnId) (x y : BConn) (b : BSess) (cid : ClientId)
    (pid : UInt16) (m : Message) (d : Bool) (i : UInt16)
    (h : s.conn? c = some x) (ha : x.alive = true) (hp : x.phase = .connected) (hr : x.sref = .stored cid)
    (hs : s.sessOf c = some b) (hlk : b.sess.lookupPacket .incoming pid = some (.publish m d i))
    (hl : s.lateAck = false) (hn : s.neverAck = false)
    (ht1 : Succ (recv s c (.pubrel pid)) t1) (hacc : ∃ s', backendPublish s c m = .ok s')
    (hrun : RunExcept pid t1 u)
    (hy : u.conn? c2 = some y) (hya : y.alive = true) (hyp : y.phase = .connected) (hyr : y.sref = .stored cid)
    (hv : Succ (recv u c2 (.pubrel pid)) v) :
    t1.bevents = s.bevents ++ [.publish c m] ∧ v.bevents = u.bevents := by
  obtain ⟨hev, hforget⟩ := pubrel_forgets_sync s t1 c x b pid m d i h ha hp hs hlk hl hn ht1 hacc
  refine ⟨hev, ?_⟩
  -- the stored session lacks `pid` after the first PUBREL
  have hl1 : Lacks t1 cid pid := by
    rcases pubrel_known_answered s t1 c x b pid m d i h ha hp hs hlk ht1 with ⟨s', hb, _⟩ | ⟨s', hb, he, _, _⟩
    · obtain ⟨s'', hb'⟩ := hacc
      rw [hb] at hb'; cases hb'
    · have f := backendPublish_frame _ _ _ _ (Or.inl hb)
      rw [ackVia_sync _ _ _ _ (f.lateAck.trans hl) (f.neverAck.trans hn)] at he
      have hx' : (forgetIncoming c pid s').conn? c = some x := by
        simp only [BState.conn?, forgetIncoming_conns, f.conns]; exact h
      rw [updConn_of_some _ _ _ _ hx'] at he
      have hsr : (pushAck (.pubcomp pid) x).sref = .stored cid := by unfold pushAck; split <;> exact hr
      have hmap := sessOf_stored t1 c _ cid (by rw [he]; exact conn?_setConn_same _ _ _) hsr
      intro st hst
      rw [← hmap] at hst
      cases hso : t1.sessOf c with
      | none => rw [hso] at hst; cases hst
      | some b' =>
        rw [hso] at hst
        simp only [Option.map_some, Option.some.injEq] at hst
        subst hst
        exact hforget b' hso
  have hlu : Lacks u cid pid := lacks_run pid cid t1 u hrun hl1
  cases hsu : u.sessOf c2 with
  | none =>
    unfold recv at hv
    simp only [hy, hya, hyp, hsu] at hv
    simp only [Bool.not_true, Bool.false_eq_true, if_false] at hv
    exact absurd hv (not_succ_unsupported _ _)
  | some b2 =>
    have hmap := sessOf_stored u c2 y cid hy hyr
    rw [hsu] at hmap
    exact (second_pubrel_no_publish u v c2 y b2 pid hy hya hyp hsu (hlu _ hmap.symm) hv).1

/-! ### the known finding: late / never acknowledging backend + connection loss

  Exactly-once across retransmitted PUBRELs rests on "handed to the backend ⇒ forgotten by the
  session". At full strength (any acknowledgement mode) this is false for the code as it is
  (known_findings.json, C07 `qos2-forwarded-twice/late-ack`): the stored PUBLISH is forgotten only
  when the backend invokes the acknowledgement. -/

/-- full strength: in ANY acknowledgement mode, once the PUBREL step has handed the message to the
    backend, the publisher's session no longer holds the packet id -/
def qos2_exactly_once_full : Prop :=
  ∀ (s t : BState) (c : ConnId) (x : BConn) (b : BSess) (id : UInt16) (m : Message) (d : Bool) (i : UInt16),
    s.conn? c = some x → x.alive = true → x.phase = .connected → s.sessOf c = some b →
    b.sess.lookupPacket .incoming id = some (.publish m d i) →
    Succ (recv s c (.pubrel id)) t → (∃ s', backendPublish s c m = .ok s') →
    ∀ b', t.sessOf c = some b' → b'.sess.lookupPacket .incoming id = none

/-- what is proved: the same with the hypothesis that the backend acknowledges synchronously
    (the shipped `MemoryBackend` does) -/
theorem qos2_exactly_once_partial (s t : BState) (c : ConnId) (x : BConn) (b : BSess) (id : UInt16)
    (m : Message) (d : Bool) (i : UInt16)
    (hsync : s.lateAck = false ∧ s.neverAck = false)
    (h : s.conn? c = some x) (ha : x.alive = true) (hp : x.phase = .connected) (hs : s.sessOf c = some b)
    (hlk : b.sess.lookupPacket .incoming id = some (.publish m d i))
    (ht : Succ (recv s c (.pubrel id)) t) (hacc : ∃ s', backendPublish s c m = .ok s') :
    ∀ b', t.sessOf c = some b' → b'.sess.lookupPacket .incoming id = none :=
  (pubrel_forgets_sync s t c x b id m d i h ha hp hs hlk hsync.1 hsync.2 ht hacc).2

/-- first successor of a stimulus (the runs below are deterministic) -/
def run1 (s : BState) (st : Stim) : BState :=
  match stim s st with
  | .ok (t :: _) => t
  | _ => s

/-- the witness run of the known finding, in the model -/
def m0 : Message := ⟨[116], [1], 2, false⟩
def connectA : Packet := .connect [97] 0 [] [] false none 4
def w1 : BState := run1 {} (.conn 0)
def w2 : BState := run1 w1 (.send 0 connectA)                    -- CONNECT "a", persistent session
def w3 : BState := { w2 with lateAck := true, neverAck := false }  -- the backend acknowledges late
def w4 : BState := run1 w3 (.send 0 (.publish m0 false 1))       -- PUBLISH QoS 2, id 1 → PUBREC
def w5 : BState := run1 w4 (.send 0 (.pubrel 1))                 -- PUBREL 1 → Backend.Publish #1, ack deferred
def w6 : BState := run1 w5 (.drop 0)                             -- connection lost
def w7 : BState := run1 w6 (.conn 1)
def w8 : BState := run1 w7 (.send 1 connectA)                    -- reconnect, session resumed
def w9 : BState := run1 w8 (.send 1 (.pubrel 1))                 -- PUBREL 1 again → Backend.Publish #2

/-- every step of the witness is a step of the model (so `w9` is reachable) -/
theorem witness_reachable : Reachable {} w9 := by
  have r1 : Reachable {} w1 := .step .init (.stim (.conn 0) [w1] rfl (by simp))
  have r2 : Reachable {} w2 := .step r1 (.stim (.send 0 connectA) [w2] rfl (by simp))
  have r3 : Reachable {} w3 := .step r2 (.ackMode true false)
  have r4 : Reachable {} w4 := .step r3 (.stim (.send 0 (.publish m0 false 1)) [w4] rfl (by simp))
  have r5 : Reachable {} w5 := .step r4 (.stim (.send 0 (.pubrel 1)) [w5] rfl (by simp))
  have r6 : Reachable {} w6 := .step r5 (.stim (.drop 0) [w6] rfl (by simp))
  have r7 : Reachable {} w7 := .step r6 (.stim (.conn 1) [w7] rfl (by simp))
  have r8 : Reachable {} w8 := .step r7 (.stim (.send 1 connectA) [w8] rfl (by simp))
  exact .step r8 (.stim (.send 1 (.pubrel 1)) [w9] rfl (by simp))

/-- … and the same QoS 2 message was handed to the backend twice -/
theorem qos2_twice_witness :
    w9.bevents = [.setup 0 false, .publish 0 m0, .terminate 0, .setup 1 true, .publish 1 m0] := rfl

/-- the full-strength statement is false -/
theorem qos2_exactly_once_full_fails : ¬ qos2_exactly_once_full := by
  intro hfull
  have h := hfull w4 w5 0 _ _ 1 m0 false 1 rfl rfl rfl rfl rfl ⟨[w5], rfl, by simp⟩ ⟨_, rfl⟩ _ rfl
  exact absurd h (by decide)

/-! ### a second way to hand a QoS 2 message on twice: the backend refuses after a partial fan-out

  `MemoryBackend.Publish` returns `ErrQueueFull` when the publisher's own queue is full — after it
  has already queued the message for the sessions it visited before. `processPubrel` then closes the
  connection without the acknowledgement, so the stored PUBLISH stays; the PUBREL retransmitted on the
  resumed session calls `Backend.Publish` again and the other subscriber gets the message twice —
  with the synchronous backend. This is why `qos2_exactly_once_sync` / `pubrel_forgets_sync` carry
  the hypothesis that the backend accepted the message. -/

/-- full strength for the synchronous backend, without "the backend accepted": whenever the PUBREL
    step found the stored message, the session no longer holds the id afterwards -/
def qos2_sync_refusal_full : Prop :=
  ∀ (s t : BState) (c : ConnId) (x : BConn) (b : BSess) (id : UInt16) (m : Message) (d : Bool) (i : UInt16),
    s.lateAck = false → s.neverAck = false →
    s.conn? c = some x → x.alive = true → x.phase = .connected → s.sessOf c = some b →
    b.sess.lookupPacket .incoming id = some (.publish m d i) →
    Succ (recv s c (.pubrel id)) t →
    ∀ b', t.sessOf c = some b' → b'.sess.lookupPacket .incoming id = none

def tT : Bytes := [116]
def tU : Bytes := [117]
def mU : Message := ⟨tU, [9], 1, false⟩
def m2 : Message := ⟨tT, [1], 2, false⟩
/-- The situation, written down as a state (queue size 2): S (connection 0, clean session) and P
    (connection 1, persistent session "p") both subscribe to topic `t`; P's own queue is full (two
    QoS 1 messages it has not taken yet); P has sent PUBLISH QoS 2 id 7 on `t` (stored, PUBREC sent).
    The script replays/C07-qos2-queuefull.ops.txt reaches this situation step by step and is accepted
    by the model driver; it is not replayed here because `Tree.search` (used by SUBSCRIBE, via
    `List.eraseDups`) does not reduce in the kernel. -/
def q0 : BState :=
  { cfg := { queue := 2 }
    conns := [(0, { phase := .connected, id := [115], sref := .temp, pubTok := 10, subTok := 10, deqChan := 9,
                    deqHand := true, running := true }),
              (1, { phase := .connected, id := [112], sref := .stored [112], pubTok := 9, subTok := 10, deqChan := 0,
                    deqHand := false, running := true })]
    temp := [(0, { subs := Tree.set tT 2 Node.empty, active := some 0 })]
    stored := [([112], { subs := Tree.set tT 2 Node.empty, storedQ := [mU, mU],
                         sess := { incoming := ⟨[(7, .publish m2 false 7)]⟩ }, active := some 1 })]
    activeClients := [([115], 0), ([112], 1)] }
def q1 : BState := run1 q0 (.send 1 (.pubrel 7))   -- Publish: S gets it; P's own queue full → refused, P closed
def q2 : BState := run1 q1 (.conn 3)
def q3 : BState := run1 q2 (.send 3 (.connect [112] 0 [] [] false none 4))  -- P resumes its session
def q4 : BState := run1 q3 (.send 3 (.pubrel 7))   -- retransmitted PUBREL → Publish again

/-- in the model, with the synchronous backend: `Backend.Publish` is called twice for the message and
    S's queue holds it twice -/
theorem qos2_twice_queue_full_witness :
    q4.lateAck = false ∧ q4.neverAck = false ∧
    q4.temp.map (fun e => (e.1, e.2.storedQ)) = [(0, [m2, m2])] ∧
    q4.bevents = [.publish 1 m2, .terminate 1, .setup 3 true, .publish 3 m2, .terminate 3] := by
  decide

theorem qos2_sync_refusal_full_fails : ¬ qos2_sync_refusal_full := by
  intro hfull
  have h := hfull q0 q1 1 _ _ 7 m2 false 7 rfl rfl rfl rfl rfl rfl (by decide) ⟨_, rfl, List.Mem.head _⟩
    { subs := Tree.set tT 2 Node.empty, storedQ := [mU, mU],
      sess := { incoming := ⟨[(7, .publish m2 false 7)]⟩ }, active := none } rfl
  exact absurd h (by decide)

/-- with the synchronous backend the same script hands the message on once -/
def v4 : BState := run1 w2 (.send 0 (.publish m0 false 1))
def v5 : BState := run1 v4 (.send 0 (.pubrel 1))
def v6 : BState := run1 v5 (.drop 0)
def v7 : BState := run1 v6 (.conn 1)
def v8 : BState := run1 v7 (.send 1 connectA)
def v9 : BState := run1 v8 (.send 1 (.pubrel 1))
example : v9.bevents = [.setup 0 false, .publish 0 m0, .terminate 0, .setup 1 true] := rfl
example : (v9.conn? 1).map (·.procOut) = some [.connack true 0, .pubcomp 1] := rfl

/-! ### non-vacuity of the hypotheses -/

/-- `w2` (sync mode) / `w3` (late mode): connection 0 is accepted, alive, has a session and tokens -/
example : ∃ x b, w2.conn? 0 = some x ∧ x.alive = true ∧ x.phase = .connected ∧ w2.sessOf 0 = some b ∧
    x.pubTok > 0 ∧ w2.lateAck = false ∧ w2.neverAck = false := ⟨_, _, rfl, rfl, rfl, rfl, by decide, rfl, rfl⟩
/-- `v4`: the session holds PUBLISH id 1 (hypotheses of `pubrel_known_answered`, `pubrel_forgets_sync`) -/
example : ∃ x b, v4.conn? 0 = some x ∧ x.alive = true ∧ x.phase = .connected ∧ v4.sessOf 0 = some b ∧
    b.sess.lookupPacket .incoming 1 = some (.publish m0 false 1) ∧ (∃ s', backendPublish v4 0 m0 = .ok s') :=
  ⟨_, _, rfl, rfl, rfl, rfl, by decide, ⟨_, rfl⟩⟩
/-- `w4`: the same in late mode (hypotheses of `late_ack_keeps_stored`) -/
example : ∃ x b, w4.conn? 0 = some x ∧ x.alive = true ∧ x.phase = .connected ∧ w4.sessOf 0 = some b ∧
    b.sess.lookupPacket .incoming 1 = some (.publish m0 false 1) ∧ w4.lateAck = true :=
  ⟨_, _, rfl, rfl, rfl, rfl, by decide, rfl⟩
/-- `v5`: after the PUBREL the id is unknown (hypotheses of `second_pubrel_no_publish`) -/
example : ∃ x b, v5.conn? 0 = some x ∧ x.alive = true ∧ x.phase = .connected ∧ v5.sessOf 0 = some b ∧
    b.sess.lookupPacket .incoming 1 = none := ⟨_, _, rfl, rfl, rfl, rfl, by decide⟩
/-- `v7`: a new connection, the stored session of "a" lacks id 1 (hypotheses of `resume_keeps_incoming`) -/
example : Lacks v7 [97] 1 := by
  intro st hst
  have : incomingOf v7 [97] = some ⟨[]⟩ := rfl
  rw [this] at hst; cases hst; rfl

/-- `qos2_exactly_once_sync` on the concrete run: PUBREL, connection loss, reconnect with session
    resumption, PUBREL again — all hypotheses hold, the second PUBREL hands nothing on -/
example : v5.bevents = v4.bevents ++ [.publish 0 m0] ∧ v9.bevents = v8.bevents := by
  have r6 : RunExcept 1 v5 v6 := .step .refl (.stim (.drop 0) [v6] rfl (by simp) (by intro c m d h; cases h))
  have r7 : RunExcept 1 v5 v7 := .step r6 (.stim (.conn 1) [v7] rfl (by simp) (by intro c m d h; cases h))
  have r8 : RunExcept 1 v5 v8 :=
    .step r7 (.stim (.send 1 connectA) [v8] rfl (by simp) (by intro c m d h; simp [connectA] at h))
  exact qos2_exactly_once_sync v4 v5 v8 v9 0 1 _ _ _ [97] 1 m0 false 1 rfl rfl rfl rfl rfl (by decide) rfl rfl
    ⟨[v5], rfl, by simp⟩ ⟨_, rfl⟩ r8 rfl rfl rfl rfl ⟨[v9], rfl, by simp⟩

end C07
