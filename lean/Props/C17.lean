import Model.Service
import Proofs.ServiceInv
import Proofs.ServiceFut2
import Proofs.ServiceStop
import Proofs.ServiceSurvive
import Proofs.ServiceSubs
import Proofs.ServiceCancel
import Proofs.SessionFresh
/-
  Props/C17.lean — property C17: the service survives any failure sequence — it reconnects,
  re-establishes exactly the subscriptions resulting from the subscribe / unsubscribe calls,
  carries out commands issued offline in order, keeps futures across reconnects, and can always
  be stopped (cancelling all pending futures when asked to) and started again.

  Model: `Svc.step` (Model/Service.lean), all statements are over `Svc.Reachable cfg s`, i.e.
  every sequence of API calls, packets, hang-ups, injected send failures, timers and supervisor
  steps, for every configuration `cfg` (queue capacity, clean session, ValidateSubs, …).
  `cfg.fix9/15/16/17` select today's code or the proposed repairs; a theorem that needs a repair
  says so in its hypotheses, and what goes wrong without it is a theorem as well (`…_fails`).
-/
namespace C17
open Svc Svc.SState SvcK2

/-! ### subscriptions -/

/-- after any history `subscriptions` (and the table of values stored in it) is exactly the fold
    of the subscribe / unsubscribe commands the dispatchers have taken, in that order -/
theorem subs_eq_fold {cfg : Cfg} {s : SState} (h : Reachable cfg s) :
    (s.subs, s.subTab) = subsOf (s.taken.map (·.kind)) := reachable_subsFold h

/-- … and that tree is, through the C05 refinement, the plain map `topic ↦ last subscription
    set, minus unsubscribed topics` (`specSubs`) -/
theorem subs_refine {cfg : Cfg} {s : SState} (h : Reachable cfg s) :
    SubRel s.subs s.subTab (specSubs (s.taken.map (·.kind))) := by
  have := subRel_fold (s.taken.map (·.kind))
  rw [← subs_eq_fold h] at this
  exact this

/-- the resubscribe request holds exactly the subscriptions of that map, sorted by topic -/
theorem resubscribe_exact {cfg : Cfg} {s : SState} (h : Reachable cfg s) :
    (∀ sub, sub ∈ s.resubList ↔ ∃ p, (specSubs (s.taken.map (·.kind))).lookup p = some sub)
    ∧ s.resubList.Pairwise (fun a b => subLe a b = true) := by
  refine ⟨fun sub => ?_, resubList_sorted s⟩
  rw [mem_resubList]
  exact mem_resub_iff (subs_refine h) sub

/-- after a successful connect the first thing written is that request …
    (`s.nextID` is `Client.nextID`: the next packet id no stored outgoing packet uses; `hid`: there is
    one — 0 stands for `ErrPacketIDsExhausted` —, which holds whenever the session stores fewer than
    65535 packets, `resubscribe_request_of_lt`) -/
theorem resubscribe_request {s : SState} {c : Client} {sp : Bool} (hph : s.phase = .online sp) (hcl : s.cl = some c)
    (hre : s.cfg.resubAll = true) (hne : s.resubList ≠ []) (hst : c.st ≠ .dead) (hok : c.sendOk = true)
    (hid : s.nextID.1 ≠ 0) :
    ∃ s', step s (.sup .run) = some (s', [.online sp, .sent c.conn (.subscribe s.resubList s.nextID.1)])
      ∧ s'.phase = .resubWait s.nextID.1 := by
  refine ⟨((s.nextID.2.put s.nextID.1 { resub := true }).setResub none).wait (.resubWait s.nextID.1), ?_, ?_⟩
  · rw [step_sup]
    simp only [supStep, hph, hcl]
    unfold supOnline
    have h1 : s.resubList.isEmpty = false := by cases hl : s.resubList <;> simp_all
    have h2 : (c.st == CState.dead) = false := by simpa using hst
    have h3 : (s.nextID.1 == 0) = false := by simpa using hid
    simp [hre, h1, h2, h3, hok]
  · simp

/-- … for every session that stores fewer than 65535 outgoing packets (pigeonhole over one cycle of
    the id counter, Proofs/SessionFresh) -/
theorem resubscribe_request_of_lt {s : SState} {c : Client} {sp : Bool} (hph : s.phase = .online sp) (hcl : s.cl = some c)
    (hre : s.cfg.resubAll = true) (hne : s.resubList ≠ []) (hst : c.st ≠ .dead) (hok : c.sendOk = true)
    (hlt : s.sess.outgoing.entries.length < 65535) :
    ∃ s', step s (.sup .run) = some (s', [.online sp, .sent c.conn (.subscribe s.resubList s.nextID.1)])
      ∧ s'.phase = .resubWait s.nextID.1 :=
  resubscribe_request hph hcl hre hne hst hok (MemorySession.freshID_ne_zero_of_lt s.sess hlt)

/-- … and nothing is sent when there is nothing to subscribe to -/
theorem resubscribe_skipped {s : SState} {c : Client} {sp : Bool} (hph : s.phase = .online sp) (hcl : s.cl = some c)
    (hemp : s.resubList = []) :
    step s (.sup .run) = some (s.setPhase .dispatching, [.online sp]) := by
  rw [step_sup]
  simp only [supStep, hph, hcl]
  unfold supOnline
  simp [hemp]

/-! ### commands -/

/-- first-in first-out: what was accepted = what has left the queue, in that order, followed
    by what is still queued; dispatchers take in that order; packets are written in that order -/
theorem dispatch_fifo {cfg : Cfg} {s : SState} (h : Reachable cfg s) :
    s.issued = s.handled ++ s.queue ∧ s.taken.Sublist s.handled
      ∧ (s.handed.map (·.2)).Sublist (s.taken.map (·.n)) :=
  ⟨reachable_fifo h, (reachable_orderInv h).taken, (reachable_orderInv h).handed⟩

/-- a dispatcher takes the head of the queue -/
theorem dispatch_takes_head {s s' : SState} {o : List Obs} (h : step s (.sup .take) = some (s', o)) :
    (∃ cmd rest, s.queue = cmd :: rest ∧ s'.taken = s.taken ++ [cmd] ∧
        s'.queue = rest ++ (match s.blocked with | some b => [b] | none => []))
    ∨ (s.queue = [] ∧ ∃ b, s.blocked = some b ∧ s'.taken = s.taken ++ [b] ∧ s'.queue = []) := take_head h

/-- commands issued while offline stay queued: no connection failure, packet, timer or step of
    the supervisor's connection handling touches the queue (or a caller blocked on it) -/
theorem offline_commands_kept {s s' : SState} {e : Ev} {o : List Obs} (he : Ev.leavesQueue e = true)
    (h : step s e = some (s', o)) : s'.queue = s.queue ∧ s'.blocked = s.blocked := step_queue_untouched he h

/-! ### futures -/

/-- the shared future store is protected as long as a supervisor exists (so every client's
    `cleanup` finds `Clear` to be a no-op) -/
theorem store_protected {cfg : Cfg} {s : SState} (h : Reachable cfg s) (hph : s.phase ≠ .exited) :
    s.protected = true ∧ s.clearStore = s :=
  ⟨(reachable_phaseInv h).prot hph, clearStore_of_protected s ((reachable_phaseInv h).prot hph)⟩

/-- futures survive: connection failures, hang-ups, timers, kill / dying, Start and Stop calls
    change neither the store nor any command future -/
theorem futures_survive {cfg : Cfg} {s s' : SState} {e : Ev} {o : List Obs} (h : Reachable cfg s)
    (he : Ev.isFailure e = true) (hs : step s e = some (s', o)) : s'.store = s.store ∧ s'.futs = s.futs :=
  ⟨(failure_sameF (reachable_phaseInv h) he hs).store, (failure_sameF (reachable_phaseInv h) he hs).futs⟩

/-- a packet that is not the acknowledgement for `id` leaves the future stored under `id` alone -/
theorem futures_survive_packets {cfg : Cfg} {s s' : SState} {conn : Nat} {p : Packet} {o : List Obs} (h : Reachable cfg s)
    (id : UInt16) (hne : ackedId p ≠ some id) (hs : step s (.recv conn p) = some (s', o)) :
    storeGet s'.store id = storeGet s.store id := by
  rw [step_recv] at hs
  split at hs
  · rename_i c hc
    split at hs
    · simp at hs
      have hs' : s' = (procRecv s c p).1 := by rw [hs]
      subst hs'
      exact procRecv_keeps (protected_of_client (reachable_phaseInv h) hc) c p id hne
    · simp at hs; obtain ⟨rfl, _⟩ := hs; rfl
  · simp at hs; obtain ⟨rfl, _⟩ := hs; rfl

/-- … and the acknowledgement, through whichever connection it arrives, completes every command
    future attached to it -/
theorem future_completes_at_ack {s : SState} (id : UInt16) (f : SFut) (hget : storeGet s.store id = some f)
    (n : Nat) (hn : n ∈ f.attached) (hpend : futOf s.futs n = some .pending) :
    futOf (procAck s id).1.futs n = some .completed ∧ storeGet (procAck s id).1.store id = none :=
  ack_completes id f hget n hn hpend

/-- every pending command future is accounted for (with the store repair of row 17): queued,
    held by a blocked caller, or attached to a stored future -/
theorem pending_is_tracked {cfg : Cfg} {s : SState} (h : Reachable cfg s) (h17 : cfg.fix17 = true) (n : Nat)
    (hp : futOf s.futs n = some .pending) : Tracked s n := by
  cases (reachable_finv h).tracked (by rw [reachable_cfg h]; exact h17) n hp with
  | inl h1 => cases h1
  | inr h1 => exact h1

/-! ### Stop, Start -/

/-- `Stop` can be called whenever no other API call is in progress; it clears `started` -/
theorem stop_enabled (s : SState) (clear : Bool) (hm : mutexFree s = true) :
    ∃ s' o, step s (.stopCall clear) = some (s', o) ∧ s'.started = false := by
  rw [step_stopCall]
  by_cases hs : s.started = true
  · exact ⟨stopSt s clear, [], by simp [hm, hs], rfl⟩
  · exact ⟨s, [.stopret false], by simp [hm, hs], by simpa using hs⟩

/-- while a Stop is pending, every step of the supervisor brings its end closer, nothing else
    pushes it away, and it can always take a step unless it has ended or is wedged -/
theorem stop_progress {cfg : Cfg} {s : SState} (h : Reachable cfg s) (hst : s.stopping.isSome = true) :
    (∀ e s' o, step s e = some (s', o) → (if Ev.isSup e then mu s' < mu s else mu s' ≤ mu s))
    ∧ (s.phase ≠ .exited → s.phase ≠ .wedged → ∃ e, Ev.isSup e = true ∧ (step s e).isSome = true) := by
  have hi := reachable_phaseInv h
  refine ⟨?_, sup_enabled hi hst⟩
  intro e s' o hs
  cases he : Ev.isSup e with
  | true => simpa using sup_step_decreases hi hst he hs
  | false => simpa using other_step_no_increase hi hst he hs

/-- with the repair of row 9, a pending Stop returns: the supervisor ends by its own steps
    (timeouts, `Dying`) alone, then `Stop` returns with `started = false` -/
theorem stop_returns {cfg : Cfg} (h9 : cfg.fix9 = true) {s : SState} (h : Reachable cfg s) {clear : Bool}
    (hst : s.stopping = some clear) :
    ∃ es s1 o1 s2, (∀ e ∈ es, Ev.isSup e = true) ∧ run s es = some (s1, o1)
      ∧ step s1 .stopRet = some (s2, [.stopret true]) ∧ s2.started = false ∧ s2.stopping = none := by
  obtain ⟨es, s1, o1, hes, hrun, hph, hstp⟩ := winds_down h9 (mu s) s h (by simp [hst]) (Nat.le_refl _)
  have hr1 := reachable_run es h hrun
  have hi1 := reachable_phaseInv hr1
  refine ⟨es, s1, o1, stopTail s1 clear, hes, hrun, ?_, ?_, ?_⟩
  · rw [step_stopRet, hstp, hst]; simp [hph]
  · have : s1.started = false := (hi1.stop (by simp [hstp, hst])).2
    unfold stopTail; repeat' split
    all_goals simp [this]
  · unfold stopTail; repeat' split
    all_goals simp [stopDone]

/-- the full statement about `Stop(true)`: afterwards no command future is pending -/
def stop_returns_and_cancels_full (cfg : Cfg) : Prop :=
  ∀ s, Reachable cfg s → s.stopping = some true → s.phase = .exited →
    ∀ n, futOf (stopTail s true).futs n ≠ some .pending

/-- it holds for the repaired code (rows 16 and 17) -/
theorem stop_returns_and_cancels {cfg : Cfg} (h16 : cfg.fix16 = true) (h17 : cfg.fix17 = true) :
    stop_returns_and_cancels_full cfg := by
  intro s h hst _ n
  have hc := reachable_cfg h
  exact stopTail_nothing_pending (reachable_finv h) (by rw [hc]; exact h16) (by rw [hc]; exact h17)
    ((reachable_phaseInv h).stop (by simp [hst])).1 n

/-- for today's code it fails (row 16): start, no connection, publish, subscribe, Stop(true) —
    Stop returns and both futures are pending for ever -/
theorem stop_returns_and_cancels_full_fails : ¬ stop_returns_and_cancels_full {} := by
  intro hfull
  have hrun : (run { cfg := {} } [.plan .refuse, .start, .sup .run, .call (pubCmd 1 1), .call (subCmd 2),
      .stopCall true, .sup .dying]).isSome = true := by decide
  obtain ⟨⟨s, o⟩, hs⟩ := Option.isSome_iff_exists.mp hrun
  have hr : Reachable {} s := reachable_run _ Reachable.init hs
  have h1 : (run { cfg := {} } [.plan .refuse, .start, .sup .run, .call (pubCmd 1 1), .call (subCmd 2),
      .stopCall true, .sup .dying]).map (fun r => (r.1.stopping, r.1.phase, futOf (stopTail r.1 true).futs 1)) =
      some (some true, .exited, some .pending) := by decide
  rw [hs] at h1
  simp only [Option.map_some, Option.some.injEq, Prod.mk.injEq] at h1
  exact hfull s hr h1.1 h1.2.1 1 h1.2.2

/-- with the store repair alone (row 17), what is pending after `Stop(true)` was still queued:
    every dispatched command's future is resolved -/
theorem stop_returns_and_cancels_partial {cfg : Cfg} (h17 : cfg.fix17 = true) {s : SState} (h : Reachable cfg s)
    (hst : s.stopping = some true) (n : Nat) (hn : futOf (stopTail s true).futs n = some .pending) :
    ∃ c ∈ s.queue, c.n = n :=
  stopTail_pending_queued (reachable_finv h) (by rw [reachable_cfg h]; exact h17)
    ((reachable_phaseInv h).stop (by simp [hst])).1 n hn

/-- without the store repair even a dispatched command's future can be lost (row 17): clean
    session, two QoS 1 publishes around a reconnect share packet id 1, the first future is
    displaced from the store and `Stop(true)` cannot reach it -/
theorem stop_cancels_dispatched_fails :
    (run { cfg := { resubAll := false } } row17Run).map
      (fun r => (futOf r.1.futs 1, futOf r.1.futs 2, r.1.queue.length, r.1.started, r.1.stopping)) =
    some (some .pending, some .cancelled, 0, false, none) := by decide

/-- without the repair of row 9 a Stop can hang for ever: the CONNECT packet cannot be written,
    the supervisor is wedged, and no step of the model ever changes that -/
theorem stop_returns_fails :
    (run { cfg := {} } row9Run).map (fun r => (r.1.phase, r.1.stopping)) = some (.wedged, some true)
    ∧ ∀ s : SState, s.phase = .wedged → s.stopping.isSome = true →
        ∀ e s' o, step s e = some (s', o) → s'.phase = .wedged ∧ s'.stopping = s.stopping := by
  refine ⟨by decide, ?_⟩
  intro s hph hst e s' o hs
  have hmf : mutexFree s = false := by
    unfold mutexFree
    cases h : s.stopping with
    | none => rw [h] at hst; cases hst
    | some _ => rfl
  cases e with
  | fire => rw [step_fire] at hs; simp [fireStep, hph] at hs
  | sup ch => rw [step_sup] at hs; simp [supStep, hph] at hs
  | start => rw [step_start] at hs; simp [hmf] at hs
  | stopCall c => rw [step_stopCall] at hs; simp [hmf] at hs
  | call c => rw [step_call] at hs; simp [hmf] at hs
  | stopRet =>
    rw [step_stopRet] at hs
    split at hs
    · simp [hph] at hs
    · cases hs
  | callTimeout =>
    step_cases hs
    simp [hph]
  | _ =>
    step_cases hs
    all_goals simp [hph]

/-- after a completed Stop the service can be started again -/
theorem restart_enabled {cfg : Cfg} {s : SState} (h : Reachable cfg s) (h1 : s.started = false) (h2 : mutexFree s = true) :
    step s .start = some (startSt s, []) ∧ (startSt s).started = true ∧ (startSt s).phase = .connecting
      ∧ (step (startSt s) (.sup .run)).isSome = true := by
  refine ⟨by rw [step_start]; simp [h2, h1], rfl, rfl, ?_⟩
  rw [step_sup]
  simp [supStep, startSt]

/-! ### non-vacuity -/

/-- the hypotheses are satisfiable: a run that goes online, resubscribes and dispatches -/
example : (run { cfg := { resubAll := false, fix9 := true, fix15 := true, fix16 := true, fix17 := true } }
    [.start, .sup .run, .recv 1 (.connack false 0), .sup .run, .sup .run, .call (subCmd 1), .sup .take,
     .recv 1 (.suback [1] 1)]).map (fun r => (r.1.phase, futOf r.1.futs 1, r.1.store.length)) =
    some (.dispatching, some .completed, 0) := by decide

end C17
