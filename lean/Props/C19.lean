import Proofs.BaseConnTrace
/-
  Props/C19.lean — C19 "Concurrent sends stay whole; close loses nothing; no hang after close or
  error", for the BaseConn LTS of Model/BaseConn.lean.

  Every theorem quantifies over EVERY event sequence: any number of senders (`g : Nat`), any
  interleaving (an interleaving is an order of the atomic events — the mutex discipline that makes
  them atomic is a structural fact checked on the source and exercised by the harness under the
  race detector), any sequence of environment events (peer data, peer close, carrier faults at any
  call, deadline expiry), either delay setting.
-/
namespace C19
open BaseConn BaseConn.Pf

/-! ## 1. the wire is a concatenation of whole packets, in event order -/

/-- While no carrier write has failed, the bytes handed to the carrier followed by the bytes still
    buffered are exactly the concatenation of `enc p` of the sends that returned nil, in the order
    in which the `send` events occurred: every packet intact, nothing interleaved, nothing lost,
    nothing duplicated. -/
theorem wire_is_whole_packets (C : Cfg) (evs : List Event) :
    (run C init evs).1.berr = false →
    (run C init evs).1.wire ++ (run C init evs).1.buf = flat (okSends evs (run C init evs).2) := by
  intro hb
  have i := inv_run (C := C) inv_init evs
  obtain ⟨a, e⟩ := i.healthy hb
  have := okPairs_run C init evs
  rw [e, ← okPart_allOk a, ← flat_okPairs, this]
  simp [init, okPairs, okPart]

/-- In every reachable state (after a write failure too) the wire is a prefix of the accepted
    packets in event order, followed by the packet of the first failing send (of which a head may
    have gone out when it was larger than the buffer).  So a partial packet can only be the very
    last thing on a dead connection. -/
theorem wire_prefix_after_failure (C : Cfg) (evs : List Event) :
    ∃ t, (run C init evs).1.wire ++ t
      = flat (okSends evs (run C init evs).2) ++ firstErrBytes evs (run C init evs).2 := by
  have i := inv_run (C := C) inv_init evs
  obtain ⟨t, ht⟩ := i.prefix
  refine ⟨t, ?_⟩
  have h1 := okPairs_run C init evs
  have h2 := firstErr_run C init (by intro r hr; simp [init] at hr) evs
  rw [ht, ← flat_okPairs, h1, h2]
  simp [init, okPairs, okPart]

/-- the packets of sender `g` that were accepted, in the order `g` issued them (a sender's calls
    are sequential, so their events occur in its program order) -/
def sendsOf (g : Nat) : List Event → List Outcome → List Bytes
  | .send g' bs _ :: es, .ok :: os => if g' = g then bs :: sendsOf g es os else sendsOf g es os
  | _ :: es, _ :: os => sendsOf g es os
  | _, _ => []

theorem sendsOf_eq_filter (g : Nat) (evs : List Event) (outs : List Outcome) :
    sendsOf g evs outs = ((okSends evs outs).filter (fun x => x.1 = g)).map (·.2) := by
  induction evs generalizing outs with
  | nil => simp [sendsOf, okSends]
  | cons e es ih =>
    cases outs with
    | nil => simp [sendsOf, okSends]
    | cons o os =>
      cases e with
      | send g' bs a =>
        cases o with
        | ok =>
          by_cases hg : g' = g
          · simp [sendsOf, okSends, hg, ih]
          · simp [sendsOf, okSends, hg, ih]
        | _ => simp [sendsOf, okSends, ih]
      | _ => simp [sendsOf, okSends, ih]

/-- Corollary: the wire (plus buffer) is `flat L` for a list `L` of whole packets whose
    restriction to any one sender is that sender's accepted packets in its sending order. -/
theorem per_sender_order (C : Cfg) (evs : List Event) (g : Nat) :
    (run C init evs).1.berr = false →
    ∃ L : List (Nat × Bytes),
      (run C init evs).1.wire ++ (run C init evs).1.buf = flat L ∧
      (L.filter (fun x => x.1 = g)).map (·.2) = sendsOf g evs (run C init evs).2 := fun hb =>
  ⟨okSends evs (run C init evs).2, wire_is_whole_packets C evs hb, (sendsOf_eq_filter g evs _).symm⟩

/-- Data never sits in the buffer without a flush timer (unless the writer has failed). -/
theorem buffered_has_timer (C : Cfg) (evs : List Event) :
    (run C init evs).1.buf ≠ [] → (run C init evs).1.timerArmed = true ∨ (run C init evs).1.berr = true :=
  (inv_run (C := C) inv_init evs).timer

/-! ## 2. close delivers everything accepted before it, then closes the carrier -/

/-- `Close` on a connection whose writer is healthy and whose carrier accepts the write: the flush
    half of the event succeeds, leaves the buffer empty and ALL sends accepted so far on the wire
    while the carrier is still open; only then the carrier is closed (the `close` event is the
    carrier close applied to that intermediate state).  A final DISCONNECT / ack is not lost. -/
theorem close_flushes (C : Cfg) (evs : List Event) :
    let s := (run C init evs).1
    s.berr = false → CanWrite s →
    (closeFlush C s).2 = true ∧
    (closeFlush C s).1.buf = [] ∧
    (closeFlush C s).1.wire = flat (okSends evs (run C init evs).2) ∧
    (closeFlush C s).1.closed = false ∧
    (step C s .close).1 = (carrierClose (closeFlush C s).1).1 ∧
    (step C s .close).1.closed = true ∧
    (step C s .close).1.wire = flat (okSends evs (run C init evs).2) ∧
    (step C s .close).1.buf = [] ∧
    ((step C s .close).2 = .ok ↔ (carrierClose (closeFlush C s).1).2 = true) := by
  intro s hb cw
  have i : Inv s := inv_run (C := C) inv_init evs
  obtain ⟨f1, f2, f3, f4, f5, f6⟩ := closeFlush_working (C := C) i hb cw
  have hw := wire_is_whole_packets C evs hb
  have hstep : step C s .close = ((carrierClose (closeFlush C s).1).1,
      if (closeFlush C s).2 && (carrierClose (closeFlush C s).1).2 then .ok else .err) := by
    simp only [step, closeStep]
  have cs := carrierClose_spec (closeFlush C s).1
  refine ⟨f1, f2, by rw [f3]; exact hw, f4, by rw [hstep], by rw [hstep]; exact cs.1,
    by rw [hstep]; simp only; rw [cs.2.1.wire, f3]; exact hw, by rw [hstep]; simp only; rw [cs.2.1.buf]; exact f2, ?_⟩
  rw [hstep, f1]; simp

/-- The timer callback does not take `sendMutex`; it can run between the flush and the carrier
    close of `Close`.  There it commutes with the carrier close, so `close` is atomic. -/
theorem close_atomic_wrt_timer (C : Cfg) (evs : List Event) :
    let s1 := (closeFlush C (run C init evs).1).1
    mercTimer (carrierClose s1).1 = (carrierClose (mercTimer s1)).1 ∧
    (carrierClose (mercTimer s1)).2 = (carrierClose s1).2 := by
  intro s1
  have i : Inv (run C init evs).1 := inv_run (C := C) inv_init evs
  have h := closeFlush_post (C := C) i
  exact ⟨timer_commutes_close h, timer_commutes_close_result h⟩

/-- … and likewise between a failing writer call of `Send` and the carrier close that follows. -/
theorem send_error_atomic_wrt_timer (C : Cfg) (evs : List Event) (bs : Bytes) (fl : Bool) (s1 : State)
    (h : mercWrite C (run C init evs).1 bs fl = (s1, false)) :
    mercTimer (closeCarrier s1) = closeCarrier (mercTimer s1) :=
  timer_commutes_close (Or.inr (sendFail_post (inv_run (C := C) inv_init evs) h))

/-! ## 3. every failing call leaves the carrier closed; the carrier never reopens -/

theorem error_closes_carrier (C : Cfg) (s : State) (e : Event) :
    isCall e = true → (step C s e).2 = .err → (step C s e).1.closed = true := err_closes C s e

theorem closed_forever (C : Cfg) (s : State) (evs : List Event) :
    s.closed = true → (run C s evs).1.closed = true := fun h => closed_run h evs

/-- `Close` always closes the carrier, whatever the state. -/
theorem close_closes (C : Cfg) (s : State) : (step C s .close).1.closed = true := (closeStep_closed C s).1

set_option linter.unusedSimpArgs false in
/-- A receive that meets an expired read deadline fails (and thereby closes the carrier). -/
theorem expired_timeout_fails (C : Cfg) (s : State) (h : Bool) (hn : C.frame s.rbuf = .need h) (hx : s.expired = true) :
    (step C s .receive).2 = .err ∧ (step C s .receive).1.closed = true := by
  have : (step C s .receive).2 = .err := by
    simp only [step, recvStep, hn, carrierRead]
    by_cases hc : s.closed = true
    · simp [hc]
    · cases ht : tick s.rfailIn with
      | mk b c => cases b <;> simp [hc, ht, hx]
  exact ⟨this, err_closes C s .receive rfl this⟩

/-! ## 4. after a close / error / timeout (= carrier closed): nothing blocks, everything fails -/

/-- The model's step function is total — no event is ever disabled — and the only outcome that is
    not a return is `block`, which only a `receive` on an OPEN carrier can have.  There is no
    panic outcome. -/
theorem step_total (C : Cfg) (s : State) (e : Event) :
    ∃ s' o, step C s e = (s', o) ∧ (o = .block → e = .receive ∧ s.closed = false) :=
  ⟨_, _, rfl, block_only_receive C s e⟩

/-- Flushed sends fail at once: every synchronous send after the carrier was closed errs. -/
theorem sync_send_fails_after_close (C : Cfg) (s : State) (evs : List Event) :
    s.closed = true → SyncSendsErr evs (run C s evs).2 := fun h => closed_sync_sends_err h evs

/-- With a zero flush delay every send is a flushed send. -/
theorem delay0_send_fails_after_close (C : Cfg) (s : State) (g : Nat) (bs : Bytes) (a : Bool) :
    s.closed = true → s.delay0 = true → bs ≠ [] → (step C s (.send g bs a)).2 = .err :=
  fun hc hd hne => send_closed_flush_err hc hne g a (Or.inr hd)

/-- A buffered send after the close either fails at once or is accepted — then its bytes sit in
    the buffer with the flush timer armed, and the connection is `Doomed`. -/
theorem async_send_after_close (C : Cfg) (s : State) (g : Nat) (bs : Bytes) :
    s.closed = true → bs ≠ [] →
    (step C s (.send g bs true)).2 = .err ∨
    ((step C s (.send g bs true)).2 = .ok ∧ (step C s (.send g bs true)).1.timerArmed = true
      ∧ Doomed (step C s (.send g bs true)).1 ∧ (step C s (.send g bs true)).1.wire = s.wire) := by
  intro hc hne
  rcases (sendStep_closed C s g bs true).2.2.1 with h | h
  · right
    obtain ⟨h1, h2, h3⟩ := send_closed_async_ok hc hne g true h
    exact ⟨h, h2, ⟨(sendStep_closed C s g bs true).1 hc, Or.inl h1⟩, h3⟩
  · left; exact h

/-- Once `Doomed`, whatever happens next (`evs1`), after the next `timerFire` every send — buffered
    or flushed — fails, for ever (the `bufio.Writer` error is sticky). -/
theorem doomed_sends_fail_after_timer (C : Cfg) (s : State) (evs1 evs2 : List Event) :
    Doomed s → SendsErr evs2 (run C (run C s (evs1 ++ [.timerFire])).1 evs2).2 := by
  intro d
  have d1 := doomed_run (C := C) d evs1
  have hb : (run C s (evs1 ++ [.timerFire])).1.berr = true := by
    rw [run_append]; simp only [run_cons, run_nil, step]; exact doomed_timer d1
  exact (berr_sends_err hb evs2).1

/-- Once the writer has failed every later send fails. -/
theorem failed_writer_sticky (C : Cfg) (s : State) (evs : List Event) :
    s.berr = true → SendsErr evs (run C s evs).2 := fun h => (berr_sends_err h evs).1

/-- `receive` on a closed carrier never waits; it fails at once when `SetReadDeadline` fails on a
    closed carrier (TCP, WebSocket) — even if a whole packet was already buffered (the code drops
    it). -/
theorem receive_after_close (C : Cfg) (s : State) (evs : List Event) :
    s.closed = true → RecvsReturn C.dlClosedFails evs (run C s evs).2 := fun h => closed_recvs_return h evs

/-- For ANY carrier: after the close at most the data already buffered in the reader is handed
    out — each delivered packet strictly consumes it — so receives fail no later than when the
    buffered input is used up. -/
theorem receive_bounded_after_close (C : Cfg) (fs : FrameSound C) (s : State) (evs : List Event) :
    s.closed = true → pktCount (run C s evs).2 ≤ s.rbuf.length := by
  intro h; have := closed_pkt_bound fs h evs; omega

/-- The full statement of "after a close, an error or an expired timeout". -/
def after_close_or_error_full : Prop :=
  ∀ (C : Cfg) (s : State), s.closed = true →
    (∀ evs, (run C s evs).1.closed = true) ∧
    (∀ evs, SyncSendsErr evs (run C s evs).2) ∧
    (∀ g bs, bs ≠ [] → (step C s (.send g bs true)).2 = .err ∨
        ((step C s (.send g bs true)).2 = .ok ∧ (step C s (.send g bs true)).1.timerArmed = true ∧
          ∀ evs1 evs2, SendsErr evs2 (run C (run C (step C s (.send g bs true)).1 (evs1 ++ [.timerFire])).1 evs2).2)) ∧
    (∀ evs, RecvsReturn C.dlClosedFails evs (run C s evs).2) ∧
    (FrameSound C → ∀ evs, pktCount (run C s evs).2 ≤ s.rbuf.length) ∧
    (∀ e, (step C s e).2 ≠ .block)

theorem after_close_or_error : after_close_or_error_full := by
  intro C s hc
  refine ⟨fun evs => closed_run hc evs, fun evs => closed_sync_sends_err hc evs, fun g bs hne => ?_,
    fun evs => closed_recvs_return hc evs, fun fs evs => receive_bounded_after_close C fs s evs hc, fun e hb => ?_⟩
  · rcases async_send_after_close C s g bs hc hne with h | ⟨h1, h2, h3, _⟩
    · exact Or.inl h
    · exact Or.inr ⟨h1, h2, fun evs1 evs2 => doomed_sends_fail_after_timer C _ evs1 evs2 h3⟩
  · have := (block_only_receive C s e hb).2; rw [hc] at this; simp at this

/-! ## 5. close unblocks a pending receive -/

/-- After `close` (and whatever else happens afterwards) a `receive` returns: it does not wait for
    `peerData`.  A `Receive` that was blocked when `Close` ran is this same call resumed. -/
theorem close_unblocks_receive (C : Cfg) (s : State) (evs : List Event) :
    (step C (run C (step C s .close).1 evs).1 .receive).2 ≠ .block ∧
    (C.dlClosedFails = true → (step C (run C (step C s .close).1 evs).1 .receive).2 = .err) := by
  have hc : (run C (step C s .close).1 evs).1.closed = true := closed_run (close_closes C s) evs
  exact ⟨(recvStep_ok C _).no_block hc, (recvStep_ok C _).closed_err hc⟩

/-! ## 6. non-vacuity -/

/-- a toy framing: the first byte is the length of the packet (0 = malformed) -/
def toyFrame (b : Bytes) : FrameRes :=
  match b with
  | [] => .need false
  | n :: tl => if n = 0 then .bad tl else if n.toNat ≤ b.length then .pkt (b.take n.toNat) (b.drop n.toNat) else .need true

def Cex : Cfg := { cap := 8, dlClosedFails := true, frame := toyFrame }

theorem toyFrame_sound : FrameSound Cex := by
  constructor
  · intro b p rest h
    simp only [Cex, toyFrame] at h
    split at h
    · simp at h
    · rename_i n tl
      split at h
      · simp at h
      · rename_i hn
        split at h
        · simp at h; obtain ⟨_, rfl⟩ := h
          have : n.toNat ≠ 0 := fun h0 => hn (by
            apply UInt8.toNat_inj.mp; simpa using h0)
          simp only [List.length_drop, List.length_cons]; omega
        · simp at h
  · intro b rest h
    simp only [Cex, toyFrame] at h
    split at h
    · simp at h
    · split at h
      · simp at h; subst h; simp
      · split at h <;> simp at h

/-- three senders interleaved with a timer flush and a close; then sends and a receive after it -/
def exTrace : List Event :=
  [ .setDelay false,
    .send 1 [2, 0xa1] true, .send 2 [2, 0xb1] true, .send 3 [2, 0xc1] false,   -- sync: flushes all three
    .send 1 [2, 0xa2] true, .timerFire,                                        -- timer flush
    .send 2 [2, 0xb2] true, .peerData [2, 0x77],
    .close,                                                                    -- flushes b2, closes
    .send 3 [2, 0xc2] false,                                                   -- sync after close: err
    .send 1 [2, 0xa3] true,                                                    -- sticky: err
    .timerFire, .receive ]

example : (run Cex init exTrace).2 =
    [.ok, .ok, .ok, .ok, .ok, .ok, .ok, .ok, .ok, .err, .err, .ok, .err] := by decide

example : (run Cex init exTrace).1.wire = [2, 0xa1, 2, 0xb1, 2, 0xc1, 2, 0xa2, 2, 0xb2] := by decide

example : sendsOf 1 exTrace (run Cex init exTrace).2 = [[2, 0xa1], [2, 0xa2]] := by decide

/-- Appendix B: a buffered send that is the first call after the close is accepted and fails only
    at the timer flush; the next send gets the parked error, later ones the sticky one. -/
example : (run Cex init [.setDelay false, .close, .send 1 [2, 1] true, .send 2 [2, 2] true, .timerFire,
      .send 1 [2, 3] true, .send 2 [2, 4] true, .send 2 [2, 5] false]).2
    = [.ok, .ok, .ok, .ok, .ok, .err, .err, .err] := by decide

/-- Appendix B: after a local close an already buffered packet is not handed out. -/
example : (run Cex init [.peerData [2, 1, 2, 2], .receive, .close, .receive]).2
    = [.ok, .pkt [2, 1], .ok, .err] := by decide

/-- a receive that waits, then is released by the close -/
example : (run Cex init [.receive, .close, .receive]).2 = [.block, .ok, .err] := by decide

/-- a read timeout closes the carrier; the next send and receive fail at once -/
example : (run Cex init [.setReadTimeout true, .receive, .deadlineExpire, .receive, .send 1 [2, 1] false, .receive]).2
    = [.ok, .block, .ok, .err, .err, .err] := by decide

/-- a packet larger than the buffer whose second half fails: a head of it is on the wire -/
example : (run Cex init [.setDelay false, .send 1 [2, 1] true, .carrierFail .write 1,
      .send 2 [18, 0, 0, 0, 0, 0, 0, 0, 0, 0, 0, 0, 0, 0, 0, 0, 0, 0] true]).1.wire = [2, 1, 18, 0, 0, 0, 0, 0] := by decide

/-- the hypotheses of `close_flushes` hold in a state with buffered data -/
example : let s := (run Cex init [.setDelay false, .send 1 [2, 1] true]).1
    s.berr = false ∧ CanWrite s ∧ s.buf ≠ [] := by
  intro s; exact ⟨by decide, ⟨by decide, by decide⟩, by decide⟩

/-- a `Doomed` state exists -/
example : Doomed (run Cex init [.setDelay false, .close, .send 1 [2, 1] true]).1 :=
  ⟨by decide, Or.inl (by decide)⟩

end C19
