import Model.Session
import Proofs.Session
/-
  Props/C18.lean — property C18: packet ids are never zero and 65535 consecutive allocations are
  pairwise distinct from every starting value (closed form, not enumeration); the packet store is,
  per direction, a map id → last packet saved; directions are independent; id-less packets ignored.
-/
namespace C18

/-- the id handed out by the k-th allocation (k = 0,1,…) starting from counter state `c` -/
def idAt (c : IDCounter) : Nat → UInt16
  | 0 => c.nextID.1
  | k + 1 => idAt c.nextID.2 k

theorem nextID_ne_zero (c : IDCounter) : c.nextID.1 ≠ 0 := by
  intro h
  have h1 := c.nextID_fst_toNat
  have h2 := c.normNat_pos
  rw [h] at h1
  have : (0 : UInt16).toNat = 0 := rfl
  omega

/-- closed form: ids run through 1..65535 cyclically -/
theorem idAt_closed (c : IDCounter) (k : Nat) :
    (idAt c k).toNat = ((if c.next = 0 then 1 else c.next.toNat) - 1 + k) % 65535 + 1 := by
  show (idAt c k).toNat = (c.normNat - 1 + k) % 65535 + 1
  induction k generalizing c with
  | zero =>
    have h1 := c.normNat_pos
    have h2 := c.normNat_le
    show c.nextID.1.toNat = _
    rw [c.nextID_fst_toNat]
    omega
  | succ k ih =>
    have h1 := c.normNat_pos
    have h2 := c.normNat_le
    show (idAt c.nextID.2 k).toNat = _
    rw [ih, c.nextID_snd_normNat]
    omega

theorem ids_distinct (c : IDCounter) (i j : Nat) (hij : i < j) (hj : j < 65535) :
    idAt c i ≠ idAt c j := by
  intro h
  have hi := idAt_closed c i
  have hj' := idAt_closed c j
  rw [h] at hi
  rw [hi] at hj'
  change (c.normNat - 1 + i) % 65535 + 1 = (c.normNat - 1 + j) % 65535 + 1 at hj'
  have h1 := c.normNat_pos
  have h2 := c.normNat_le
  omega

theorem reset_restarts_at_one (c : IDCounter) : (c.reset.nextID).1 = 1 := rfl

/-! non-vacuity (counter): the wrap 65535 → 1 skips 0, a zero counter starts at 1, and the bound
    65535 in `ids_distinct` is sharp (the 65536-th allocation repeats the first) -/
example : idAt ⟨65535⟩ 0 = 65535 ∧ idAt ⟨65535⟩ 1 = 1 ∧ idAt ⟨65535⟩ 2 = 2 := by decide
example : idAt ⟨0⟩ 0 = 1 ∧ idAt ⟨0⟩ 1 = 2 := by decide
example : idAt IDCounter.new 0 ≠ idAt IDCounter.new 1 := ids_distinct _ 0 1 (by omega) (by omega)
example (c : IDCounter) : idAt c 65535 = idAt c 0 := by
  rw [← UInt16.toNat_inj, idAt_closed, idAt_closed]
  have h1 := c.normNat_pos
  have h2 := c.normNat_le
  change (c.normNat - 1 + 65535) % 65535 + 1 = (c.normNat - 1 + 0) % 65535 + 1
  omega
example : (IDCounter.reset ⟨777⟩).nextID.1 = 1 := reset_restarts_at_one _

/-! the packet store as a map -/

/-- the specification: a function from id to the last packet saved -/
abbrev IdMap := UInt16 → Option Packet

inductive SOp where
  | save (p : Packet) | delete (id : UInt16) | reset

def applyS (s : PacketStore) : SOp → PacketStore
  | .save p => s.save p
  | .delete id => s.delete id
  | .reset => s.reset

def specS (m : IdMap) : SOp → IdMap
  | .save p => (match p.getID with | some id => fun k => if k = id then some p else m k | none => m)
  | .delete id => fun k => if k = id then none else m k
  | .reset => fun _ => none

/-- after any history: lookup agrees with the map for every id; the listing holds exactly the
    map's range, each id once -/
theorem store_refines (ops : List SOp) (id : UInt16) :
    (ops.foldl applyS {}).lookup id = (ops.foldl specS (fun _ => none)) id := by
  suffices H : ∀ (s : PacketStore) (m : IdMap), (∀ k, s.lookup k = m k) →
      ∀ k, (ops.foldl applyS s).lookup k = (ops.foldl specS m) k from
    H {} (fun _ => none) (fun _ => rfl) id
  induction ops with
  | nil => intro s m h; exact h
  | cons op ops ih =>
    intro s m h
    rw [List.foldl_cons, List.foldl_cons]
    apply ih
    intro k
    cases op with
    | save p =>
      cases hp : p.getID with
      | none => simp only [applyS, specS, hp, PacketStore.save_of_none s p hp]; exact h k
      | some i => simp only [applyS, specS, hp, PacketStore.lookup_save s p i k hp, h k]
    | delete i => simp only [applyS, specS, PacketStore.lookup_delete, h k]
    | reset => rfl

/-- `NewPacketStoreWithPackets`: the store rebuilt from a list of packets (what a persistent backend kept) -/
def restore (ps : List Packet) : PacketStore := ps.foldl PacketStore.save {}

theorem restore_eq_saves (ps : List Packet) : restore ps = (ps.map SOp.save).foldl applyS {} := by
  unfold restore
  suffices H : ∀ s : PacketStore, ps.foldl PacketStore.save s = (ps.map SOp.save).foldl applyS s from H {}
  induction ps with
  | nil => intro s; rfl
  | cons p ps ih => intro s; simp only [List.foldl_cons, List.map_cons, applyS]; exact ih _

/-- a restored store, used further in any way, is the map that the same saves followed by the same history give —
    whatever the restore list holds (ids repeated: the later packet wins, once; id-less packets: ignored) -/
theorem restore_then_history_refines (ps : List Packet) (ops : List SOp) (id : UInt16) :
    (ops.foldl applyS (restore ps)).lookup id = ((ps.map SOp.save ++ ops).foldl specS (fun _ => none)) id := by
  rw [restore_eq_saves, ← List.foldl_append]
  exact store_refines _ id

theorem store_keys_nodup (ops : List SOp) : ((ops.foldl applyS {}).entries.map (·.1)).Nodup := by
  suffices H : ∀ s : PacketStore, s.KeysNodup → (ops.foldl applyS s).KeysNodup from
    H {} PacketStore.keysNodup_empty
  induction ops with
  | nil => intro s h; exact h
  | cons op ops ih =>
    intro s h
    rw [List.foldl_cons]
    apply ih
    cases op with
    | save p => exact PacketStore.keysNodup_save s p h
    | delete i => exact PacketStore.keysNodup_delete s i h
    | reset => exact PacketStore.keysNodup_reset s

theorem store_all_exact (ops : List SOp) (p : Packet) :
    p ∈ (ops.foldl applyS {}).all ↔ ∃ id, (ops.foldl specS (fun _ => none)) id = some p := by
  rw [PacketStore.mem_all_iff _ (store_keys_nodup ops)]
  simp only [store_refines]

theorem restore_keys_nodup (ps : List Packet) (ops : List SOp) :
    ((ops.foldl applyS (restore ps)).entries.map (·.1)).Nodup := by
  rw [restore_eq_saves, ← List.foldl_append]
  exact store_keys_nodup _

example : (restore [.pubrel 1, .pingreq, .pubrel 1, .puback 2]).all = [.pubrel 1, .puback 2] := by decide

theorem save_ignores_idless (s : PacketStore) (p : Packet) (h : p.getID = none) : s.save p = s :=
  PacketStore.save_of_none s p h

/-- the listing is in the order of (re)saving: saving appends, re-saving moves to the end -/
theorem save_appends (s : PacketStore) (p : Packet) (id : UInt16) (h : p.getID = some id) :
    (s.save p).all = (s.delete id).all ++ [p] := by
  rw [PacketStore.save_of_some s p id h]
  simp [PacketStore.all, PacketStore.delete]

/-- the two directions never influence each other -/
theorem directions_independent (s : MemorySession) (d d' : Direction) (hd : d ≠ d') (p : Packet) (id : UInt16) :
    (s.savePacket d p).store d' = s.store d' ∧ (s.deletePacket d id).store d' = s.store d' := by
  cases d <;> cases d' <;>
    first
      | exact absurd rfl hd
      | exact ⟨rfl, rfl⟩

/-! non-vacuity (store): re-saving id 1 replaces the packet and moves it behind id 2; delete and
    reset remove; an id-less packet changes nothing; the directions are separate stores -/
example :
    let s := [SOp.save (.puback 1), .save (.puback 2), .save (.pubrel 1)].foldl applyS {}
    s.all = [.puback 2, .pubrel 1] ∧ s.lookup 1 = some (.pubrel 1) ∧ s.lookup 2 = some (.puback 2)
      ∧ s.lookup 3 = none := by decide
example :
    ([SOp.save (.puback 1), .save (.puback 2)].foldl applyS {}).all = [.puback 1, .puback 2] := by
  decide
example :
    let m := [SOp.save (.puback 1), .save (.puback 2), .save (.pubrel 1), .delete 2].foldl specS
      (fun _ => none)
    m 1 = some (.pubrel 1) ∧ m 2 = none := by decide
example :
    ([SOp.save (.puback 1), .save (.puback 2), .delete 1].foldl applyS {}).all = [.puback 2]
    ∧ ([SOp.save (.puback 1), .save (.puback 2), .reset].foldl applyS {}).all = [] := by decide
example : Packet.pingreq.getID = none ∧ (Packet.puback 7).getID = some 7 := by decide
example :
    let s := ({} : MemorySession).savePacket .incoming (.puback 1)
    s.allPackets .incoming = [.puback 1] ∧ s.allPackets .outgoing = []
      ∧ (s.deletePacket .outgoing 1).allPackets .incoming = [.puback 1] := by decide

end C18
