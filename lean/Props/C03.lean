import Model.Stream
import Proofs.StreamRead
import Proofs.StreamRT
import Proofs.StreamWrite
import Proofs.StreamWs
/-
  Props/C03.lean — property C03: stream framing.  Any fragmentation of the byte stream yields the
  same packets; the bytes on the wire are exactly the concatenation of the encodings; a packet above
  the read limit is refused before its body is read; a stream ending inside a packet yields an
  error, never a packet.  ONLY property theorems and non-vacuity examples; lemmas are in
  Proofs/Stream{Read,RT,Write,Ws}.lean.

  Vocabulary (Model/Stream.lean): a `Reader` is a `bufio.Reader` over an underlying reader given by
  the chunks its `Read` calls return; `Reader.new cs fin dataFin` is the fresh one; `r.stream` is
  every byte not yet handed out.  `StreamS1.WF r` ("`bufio`'s recorded error is only set once the
  underlying reader is exhausted") holds for every fresh reader and is preserved by every operation.
-/
namespace C03
open Framing StreamS1

/-! ## the receiving side -/

/-- `Peek(n)` depends on the remaining byte stream only (not on how it is chunked, nor on whether EOF
    arrives together with the last data) -/
theorem peek_chunk_invariant (n : Nat) (r₁ r₂ : Reader) (h₁ : WF r₁) (h₂ : WF r₂)
    (hs : r₁.stream = r₂.stream) :
    (r₁.peek n).1 = (r₂.peek n).1 ∧ (r₁.peek n).2.1 = (r₂.peek n).2.1 ∧
      (r₁.peek n).2.2.stream = (r₂.peek n).2.2.stream ∧ WF (r₁.peek n).2.2 := by
  obtain ⟨a, ha, ea⟩ := peek_spec n r₁ h₁
  obtain ⟨b, hb, eb⟩ := peek_spec n r₂ h₂
  rw [ea, eb, hs]
  split
  · exact ⟨rfl, rfl, by rw [ha.stream, hb.stream, hs], ha.wf⟩
  · exact ⟨rfl, rfl, by rw [ha.stream, hb.stream, hs], ha.wf⟩

/-- `io.ReadFull` of `n` bytes likewise -/
theorem readFull_chunk_invariant (n : Nat) (r₁ r₂ : Reader) (h₁ : WF r₁) (h₂ : WF r₂)
    (hs : r₁.stream = r₂.stream) (hf : r₁.fin = r₂.fin) :
    (r₁.readFull n).1 = (r₂.readFull n).1 ∧
      (r₁.readFull n).2.stream = (r₂.readFull n).2.stream ∧ WF (r₁.readFull n).2 := by
  obtain ⟨a, ea, sa, wa, _⟩ := readFull_spec n r₁ h₁
  obtain ⟨b, eb, sb, _, _⟩ := readFull_spec n r₂ h₂
  rw [ea, eb, hs, hf]
  exact ⟨rfl, by rw [sa, sb, hs], wa⟩

/-- one `Decoder.Read`: same result, same stream left -/
theorem read_step_chunk_invariant (limit : Nat) (r₁ r₂ : Reader) (h₁ : WF r₁) (h₂ : WF r₂)
    (hs : r₁.stream = r₂.stream) (hf : r₁.fin = r₂.fin) :
    (read limit r₁).1 = (read limit r₂).1 ∧ (read limit r₁).2.stream = (read limit r₂).2.stream ∧
      WF (read limit r₁).2 ∧ (read limit r₁).2.fin = (read limit r₂).2.fin := by
  obtain ⟨a1, a2, a3, a4, _⟩ := read_refines limit r₁ h₁
  obtain ⟨b1, b2, _, b4, _⟩ := read_refines limit r₂ h₂
  rw [a1, a2, b1, b2, hs, hf, a4, b4, hf]
  exact ⟨rfl, rfl, a3, rfl⟩

/-- **read_chunk_invariant**: the packets obtained from a connection and the error that ends the
    sequence depend on the byte stream only — any two fragmentations `cs`, `cs'` of the same bytes
    (and either way of delivering the terminal error) give identical results -/
theorem read_chunk_invariant (limit : Nat) (fin : Fin) (cs cs' : List Bytes) (df df' : Bool)
    (h : cs.flatten = cs'.flatten) :
    readAll limit (Reader.new cs fin df) = readAll limit (Reader.new cs' fin df') := by
  rw [readAll_refines limit _ (WF_new cs fin df), readAll_refines limit _ (WF_new cs' fin df'),
    stream_new, stream_new, h]
  rfl

/-- the fuel in the definition of `readAll` never runs out, and `Decode` never panics -/
theorem readAll_total (limit : Nat) (fin : Fin) (cs : List Bytes) (df : Bool) :
    (readAll limit (Reader.new cs fin df)).2 ≠ .noFuel ∧
    (readAll limit (Reader.new cs fin df)).2 ≠ .panic := by
  rw [readAll_refines limit _ (WF_new cs fin df)]
  exact readAllS_fuel limit _ _ _ (by omega)

theorem map_ok_inj : ∀ {l l' : List Bytes}, l.map (Except.ok (ε := GoErr)) = l'.map Except.ok → l = l'
  | [], [], _ => rfl
  | [], _ :: _, h => by simp at h
  | _ :: _, [], h => by simp at h
  | a :: l, b :: l', h => by
    simp only [List.map_cons, List.cons.injEq] at h
    rw [Except.ok.inj h.1, map_ok_inj h.2]

/-- **readAll_encode**: the encodings of well-formed packets, concatenated and cut into chunks in
    ANY way, are read back as exactly those packets (CONNECT with the version default applied, as
    `Encode` itself leaves it), in order, followed by a clean `io.EOF`.  With a read limit `L` this
    holds when no packet is longer than `L`. -/
theorem readAll_encode (limit : Nat) (ps : List Packet) (hwf : ∀ p ∈ ps, p.WF = true)
    (hlim : ∀ p ∈ ps, limit = 0 ∨ p.len ≤ limit)
    (bss : List Bytes) (henc : ps.map encode = bss.map Except.ok)
    (cs : List Bytes) (df : Bool) (hcs : cs.flatten = bss.flatten) :
    readAll limit (Reader.new cs .eof df) = (ps.map Packet.norm, .eof) := by
  have hb : bss = ps.map wire := by
    rw [map_encode_wire ps hwf] at henc; exact (map_ok_inj henc).symm
  have hS : cs.flatten = ps.flatMap wire := by rw [hcs, hb, List.flatMap_def]
  rw [readAll_refines limit _ (WF_new cs .eof df), stream_new, hS]
  have hlen := flatMap_wire_length ps hwf
  show readAllS limit Fin.eof _ _ = _
  have key := readAllS_wires limit .eof ps [] ((ps.flatMap wire).length - ps.length + 1)
    (fun p hp => ⟨hwf p hp, hlim p hp⟩)
  have e : ps.length + ((ps.flatMap wire).length - ps.length + 1) = (ps.flatMap wire).length + 1 := by omega
  rw [List.append_nil, e] at key
  rw [key, readAllS_succ, readS_nil]
  simp

/-- **truncated_stream_no_packet**: if the stream ends inside a packet (after a proper, non-empty
    prefix `pre` of its encoding) the complete packets before it are returned and then
    `io.ErrUnexpectedEOF` — never a further packet, never a clean end -/
theorem truncated_stream_no_packet (limit : Nat) (ps : List Packet) (p : Packet)
    (hwf : ∀ q ∈ p :: ps, q.WF = true) (hlim : ∀ q ∈ p :: ps, limit = 0 ∨ q.len ≤ limit)
    (bss : List Bytes) (henc : ps.map encode = bss.map Except.ok)
    (pre suf : Bytes) (hpre : pre ≠ []) (hsuf : suf ≠ []) (hp : encode p = .ok (pre ++ suf))
    (cs : List Bytes) (df : Bool) (hcs : cs.flatten = bss.flatten ++ pre) :
    readAll limit (Reader.new cs .eof df) = (ps.map Packet.norm, .unexpectedEOF) := by
  have hwfp := hwf p (by simp)
  have hwfps : ∀ q ∈ ps, q.WF = true := fun q hq => hwf q (by simp [hq])
  have hb : bss = ps.map wire := by
    rw [map_encode_wire ps hwfps] at henc; exact (map_ok_inj henc).symm
  have hw : wire p = pre ++ suf := by
    rw [encode_wire p hwfp] at hp; exact Except.ok.inj hp
  have hS : cs.flatten = ps.flatMap wire ++ pre := by rw [hcs, hb, List.flatMap_def]
  rw [readAll_refines limit _ (WF_new cs .eof df), stream_new, hS]
  have hlen := flatMap_wire_length ps hwfps
  show readAllS limit Fin.eof _ _ = _
  have key := readAllS_wires limit .eof ps pre ((ps.flatMap wire).length + pre.length - ps.length + 1)
    (fun q hq => ⟨hwfps q hq, hlim q (by simp [hq])⟩)
  have e : ps.length + ((ps.flatMap wire).length + pre.length - ps.length + 1)
      = (ps.flatMap wire ++ pre).length + 1 := by rw [List.length_append]; omega
  rw [e] at key
  rw [key, readAllS_succ]
  -- the read that meets the truncated packet
  have hfull := readS_wire limit .eof p hwfp [] (hlim p (by simp))
  rw [List.append_nil] at hfull
  have hpl : pre.length < (wire p).length - ([] : Bytes).length := by
    rw [hw]; simp
    exact List.length_pos_iff.mpr hsuf
  have := readLoopS_prefix limit .eof 4 2 (wire p) [] p.norm pre.length hfull hpl
  have htk : (wire p).take pre.length = pre := by rw [hw]; exact List.take_left' rfl
  rw [htk] at this
  have hne : pre.length ≠ 0 := fun h => hpre (List.eq_nil_of_length_eq_zero h)
  rcases hr : readS limit .eof pre with ⟨res, s'⟩
  unfold readS at hr
  rw [hr] at this
  simp only [finErr, hne, ne_eq, not_false_eq_true, if_true] at this
  subst this
  simp

/-- **limit_refuses_before_buffering**: with a read limit `L > 0`, as soon as the fixed header
    announces a packet longer than `L` (`rest`, whatever has or has not arrived of the body, plays no
    role) `Decoder.Read` answers `ErrReadLimitExceeded`, and the reader is then exactly in the state
    a `Peek(k)`, `k ≤ 5`, leaves it in: no byte has been consumed from the stream (`stream` is
    unchanged: `Peek` does not advance), no body read was started, and the only chunks taken from the
    underlying reader (`pulled`) are those requested while fewer than `k ≤ 5` bytes were buffered. -/
theorem limit_refuses_before_buffering (L : Nat) (hL : 0 < L) (r : Reader) (hwf : WF r)
    (b0 : UInt8) (rl : Nat) (hrl : rl ≤ maxVarint) (rest : Bytes)
    (hs : r.stream = b0 :: (putUvarint rl ++ rest)) (hbig : L < 1 + varintLen rl + rl) :
    ∃ k, 2 ≤ k ∧ k ≤ 5 ∧ read L r = (.err .readLimit, r.pull k) ∧
      (r.pull k).stream = r.stream ∧
      ∃ pulled, r.chunks = pulled ++ (r.pull k).chunks ∧ (r.pull k).buf = r.buf ++ pulled.flatten ∧
        ∀ pre last, pulled = pre ++ [last] → (r.buf ++ pre.flatten).length < k := by
  obtain ⟨h1, _⟩ := read_refines L r hwf
  rw [hs, readS_detected L r.fin b0 rl hrl rest] at h1
  have hvl := varintLen_eq_length' rl hrl
  simp only [] at h1
  rw [if_pos ⟨hL, by omega⟩] at h1
  have h1' : (read L r).1 = .err .readLimit := h1
  obtain ⟨k, hk1, hk2, hk3⟩ := readLoop_limit_state L 4 2 r (read L r).2 (Prod.ext h1' rfl)
  refine ⟨k, hk1, by omega, ?_, (pull_spec k r hwf).1.stream, pull_minimal k r⟩
  rw [← hk3]
  exact Prod.ext h1' rfl

/-- **detection_overflow_iff**: `ErrDetectionOverflow` is returned exactly when five bytes are
    available at a packet boundary and the four after the type byte are all continuation bytes -/
theorem detection_overflow_iff (limit : Nat) (r : Reader) (hwf : WF r) :
    (read limit r).1 = .err .detectionOverflow ↔
      ∃ b0 v1 v2 v3 v4 rest, r.stream = b0 :: v1 :: v2 :: v3 :: v4 :: rest ∧
        128 ≤ v1.toNat ∧ 128 ≤ v2.toNat ∧ 128 ≤ v3.toNat ∧ 128 ≤ v4.toNat := by
  rw [(read_refines limit r hwf).1]
  exact readS_overflow_iff limit r.fin r.stream

/-! ## the sending side -/

/-- **wire_eq_concat**: for every sequence of sends (async or sync), flushes, timer firings and
    delay changes, with well-formed packets and a working carrier: every call succeeds, and what the
    carrier has received followed by what is still buffered is exactly the concatenation of the
    packets' encodings in send order (any buffer size) -/
theorem wire_eq_concat (cap : Nat) (evs : List Ev) (hnf : noFail evs = true)
    (hwf : ∀ p ∈ written evs, p.WF = true) :
    (run { cap := cap } evs).2.all id = true ∧
    ∃ bss : List Bytes, (written evs).map encode = bss.map Except.ok ∧
      (run { cap := cap } evs).1.wire.flatten ++ (run { cap := cap } evs).1.buf = bss.flatten := by
  obtain ⟨_, hb, hok, _⟩ := run_ok evs { cap := cap } (healthy_init cap) (evOK_of evs hnf hwf)
  refine ⟨hok, (written evs).map wire, map_encode_wire _ hwf, ?_⟩
  have : wbytes ({ cap := cap } : Writer) = [] := rfl
  rw [this, List.nil_append, evBytes_written] at hb
  exact hb

/-- nothing stays buffered after a synchronous send, a `Flush`, or the timer firing -/
theorem flushed_after (cap : Nat) (evs : List Ev) (e : Ev) (hnf : noFail (evs ++ [e]) = true)
    (hwf : ∀ p ∈ written (evs ++ [e]), p.WF = true)
    (he : (∃ p, e = .write p false) ∨ e = .flush ∨ e = .timerFire) :
    (run { cap := cap } (evs ++ [e])).1.buf = [] := by
  have hall := evOK_of _ hnf hwf
  obtain ⟨hh, _, _, _⟩ := run_ok evs { cap := cap } (healthy_init cap)
    (fun x hx => hall x (by simp [hx]))
  obtain ⟨w', hs, _, _, hf, _⟩ := step_ok _ hh e (hall e (by simp))
  rw [run_append, hs]
  apply hf
  rcases he with ⟨p, rfl⟩ | rfl | rfl <;> rfl

/-- also when the carrier starts failing at any point (`carrierFail` anywhere in the sequence): what it
    has received is always a prefix of the concatenation of the encodings in send order — never
    reordered, duplicated or foreign bytes -/
theorem wire_prefix_always (cap : Nat) (evs : List Ev) (hwf : ∀ p ∈ written evs, p.WF = true) :
    ∃ bss : List Bytes, (written evs).map encode = bss.map Except.ok ∧
      (run { cap := cap } evs).1.wire.flatten <+: bss.flatten := by
  have hinit : Inv ({ cap := cap } : Writer) [] :=
    ⟨fun _ => ⟨healthy_init cap, rfl⟩, fun h => by cases h⟩
  have := run_inv evs _ _ hinit (evWF_of evs hwf)
  rw [List.nil_append, evBytes_written] at this
  refine ⟨(written evs).map wire, map_encode_wire _ hwf, ?_⟩
  cases hd : (run { cap := cap } evs).1.down with
  | true => exact this.2 hd
  | false =>
    obtain ⟨_, hb⟩ := this.1 hd
    rw [← hb]
    exact List.prefix_append _ _

/-! ## WebSocket -/

theorem clean_iff (c : Ws.Conn) : Ws.clean c = true ↔ cleanConn c := by
  unfold Ws.clean cleanConn cleanCur cleanMsgs
  rw [Bool.and_eq_true, List.all_eq_true]
  constructor
  · rintro ⟨h1, h2⟩
    refine ⟨?_, fun m hm => by simpa using h2 m hm⟩
    cases hc : c.cur with
    | none => trivial
    | some p => obtain ⟨fr, ewd⟩ := p; rw [hc] at h1; simpa using h1
  · rintro ⟨h1, h2⟩
    refine ⟨?_, fun m hm => by simpa using h2 m hm⟩
    cases hc : c.cur with
    | none => rfl
    | some p => obtain ⟨fr, ewd⟩ := p; rw [hc] at h1; simpa using h1

/-- **ws_stitch**: binary messages, message readers that report EOF on their own (gorilla's
    contract): for every sequence of read sizes the chunks `wsStream.Read` returns, followed by the
    payload still pending, are the pending payload before — bytes come out in order, none lost, none
    invented; and when the reads end with an error every payload byte has been delivered before. -/
theorem ws_stitch (c : Ws.Conn) (hc : Ws.clean c = true) (sizes : List Nat) :
    (Ws.drain sizes c).1.flatten ++ (Ws.drain sizes c).2.2.pending = c.pending ∧
    ((Ws.drain sizes c).2.1 ≠ .ok →
      (Ws.drain sizes c).1.flatten = c.pending ∧
      (Ws.drain sizes c).2.1 = (match c.fin with | .close => .eof | .error => .error)) := by
  obtain ⟨h1, h2⟩ := drain_spec sizes c ((clean_iff c).mp hc)
  refine ⟨h1, fun h => ?_⟩
  obtain ⟨a, b⟩ := h2 h
  rw [a, List.append_nil] at h1
  refine ⟨h1, ?_⟩
  rw [b]; cases c.fin <;> rfl

/-- packets split across, or packed into, WebSocket messages decode the same: two message
    sequences with the same concatenated payload, read with any buffer sizes until the peer's close,
    give the same packets and the same final error as the payload in one piece -/
theorem ws_fragmentation_irrelevant (limit : Nat) (ms ms' : List Ws.Msg)
    (hm : Ws.clean { msgs := ms } = true) (hm' : Ws.clean { msgs := ms' } = true)
    (hp : (ms.map Ws.Msg.payload).flatten = (ms'.map Ws.Msg.payload).flatten)
    (sizes sizes' : List Nat)
    (he : (Ws.drain sizes { msgs := ms }).2.1 = .eof) (he' : (Ws.drain sizes' { msgs := ms' }).2.1 = .eof) :
    readAll limit (Reader.new (Ws.drain sizes { msgs := ms }).1)
      = readAll limit (Reader.new (Ws.drain sizes' { msgs := ms' }).1) ∧
    readAll limit (Reader.new (Ws.drain sizes { msgs := ms }).1)
      = readAll limit (Reader.new [(ms.map Ws.Msg.payload).flatten]) := by
  obtain ⟨a, _⟩ := (ws_stitch { msgs := ms } hm sizes).2 (by rw [he]; simp)
  obtain ⟨a', _⟩ := (ws_stitch { msgs := ms' } hm' sizes').2 (by rw [he']; simp)
  have e1 : (Ws.Conn.pending { msgs := ms }) = (ms.map Ws.Msg.payload).flatten := by
    simp [Ws.Conn.pending]
  have e2 : (Ws.Conn.pending { msgs := ms' }) = (ms'.map Ws.Msg.payload).flatten := by
    simp [Ws.Conn.pending]
  constructor
  · exact read_chunk_invariant limit .eof _ _ false false (by rw [a, a', e1, e2, hp])
  · exact read_chunk_invariant limit .eof _ _ false false (by rw [a, e1]; simp)

/-- the statement without the hypothesis on the message readers, kept visible: it is FALSE for the
    code as written — a reader that reports `io.EOF` together with the last bytes of the last message
    makes `wsStream.Read` `continue`, and when `NextReader` then fails the bytes already copied are
    dropped (`return 0, io.EOF`).  gorilla/websocket v1.4.1 over TCP never does this. -/
def ws_stitch_full : Prop :=
  ∀ (c : Ws.Conn) (sizes : List Nat), (∀ m ∈ c.msgs, m.binary = true) → c.cur = none →
    (Ws.drain sizes c).2.1 = .eof → (Ws.drain sizes c).1.flatten = c.pending

theorem ws_stitch_full_fails : ¬ ws_stitch_full := by
  intro h
  have := h { msgs := [{ frames := [[1, 2]], eofWithData := true }] } [10] (by simp) rfl (by decide)
  revert this
  decide

/-! ## non-vacuity -/

/-- PINGREQ `c0 00`, then PUBLISH topic "a" payload "hi" `30 05 00 01 61 68 69` -/
def ex_ps : List Packet := [.pingreq, .publish ⟨[0x61], [0x68, 0x69], 0, false⟩ false 0]

example : ∀ p ∈ ex_ps, p.WF = true := by decide

example : ex_ps.map encode = [[0xc0, 0x00], [0x30, 0x05, 0x00, 0x01, 0x61, 0x68, 0x69]].map Except.ok := by
  simp [ex_ps, encode, encodeHeader, Packet.rlen, maxVarint, PType.code, PType.defaultFlags, putUvarint_lt,
    writeLP, be16, qosOK]
  rfl

/-- split inside the second packet's fixed header (`30 | 05`) and inside its body, one byte
    delivered with EOF: the same two packets, then a clean EOF -/
example : readAll 0 (Reader.new [[0xc0], [0x00, 0x30], [0x05, 0x00], [0x01, 0x61, 0x68], [0x69]] .eof true)
    = (ex_ps, .eof) := by decide

example : readAll 0 (Reader.new [[0xc0, 0x00, 0x30, 0x05, 0x00, 0x01, 0x61, 0x68, 0x69]]) = (ex_ps, .eof) := by
  decide

/-- the stream cut inside the header and inside the body of the second packet -/
example : readAll 0 (Reader.new [[0xc0], [0x00, 0x30]]) = ([.pingreq], .unexpectedEOF) := by decide
example : readAll 0 (Reader.new [[0xc0, 0x00, 0x30, 0x05], [0x00, 0x01]]) = ([.pingreq], .unexpectedEOF) := by
  decide

/-- read limit 6 < 7: refused with only the header byte and one length byte peeked, the body
    still in the underlying reader -/
example : read 6 (Reader.new [[0x30], [0x05], [0x00, 0x01, 0x61, 0x68, 0x69]])
    = (.err .readLimit, { buf := [0x30, 0x05], chunks := [[0x00, 0x01, 0x61, 0x68, 0x69]] }) := by decide

example : (read 0 (Reader.new [[0xc0, 0xff], [0xff, 0xff, 0x80, 0x00]])).1 = .err .detectionOverflow := by
  decide

/-- sends: async PINGREQ buffered, sync PUBLISH flushes both in one carrier write -/
example : (run {} [.setDelay false, .write .pingreq true,
      .write (.publish ⟨[0x61], [0x68, 0x69], 0, false⟩ false 0) false]).1.wire
    = [[0xc0, 0x00, 0x30, 0x05, 0x00, 0x01, 0x61, 0x68, 0x69]] := by decide +kernel

/-- a packet split over three WebSocket messages, the next one packed into the last message -/
example : (Ws.drain [4096, 4096, 4096, 4096, 1] { msgs := [{ frames := [[0x30, 0x05]] }, { frames := [[0x00], [0x01, 0x61]] },
      { frames := [[0x68, 0x69, 0xc0, 0x00]] }] }) =
    ([[0x30, 0x05], [0x00], [0x01, 0x61], [0x68, 0x69, 0xc0, 0x00]], .eof, { msgs := [] }) := by decide

end C03
