import Model.Broker
import Props.C04
import Props.C05
import Props.C06
import Proofs.BrokerFan
import Proofs.BrokerB1
import Proofs.BrokerB1Reach
/-
  Props/C11.lean — property C11: the retained set is, per topic, the last retained publish with a
  non-empty payload not since cleared; publishes without the flag never change it; a subscription
  is handed exactly the retained messages whose topics its filter matches, flagged as retained;
  the live copy of a retained publish travels with the flag cleared.
  The replayed copies are capped when they are QUEUED by the grant `MatchFirst` finds in the
  session's tree after the SUBSCRIBE (`sess.applyQOS(value)`; `replay_capped`,
  `recv_subscribe_replay_capped`), and once more at delivery (C06.delivered_qos).
  The retained store of the model is `retained : Node` (topic ↦ [index]) plus `rmsgs` (the messages);
  `stored retained p` is the abstraction of the trie (Proofs/TopicBasic.lean).
-/
namespace C11
open BState Node

/-- the retained store after `Backend.Publish` (whatever the fan-out outcome) -/
def retainedAfter (s : BState) (m : Message) : Node × List Message :=
  if m.retain then
    (if m.payload.length > 0 then (Tree.set m.topic s.rmsgs.length s.retained, s.rmsgs ++ [m])
     else (Tree.emptyTopic m.topic s.retained, s.rmsgs))
  else (s.retained, s.rmsgs)

theorem publish_retained (s s' : BState) (c : ConnId) (m : Message)
    (h : backendPublish s c m = .ok s' ∨ backendPublish s c m = .queueFull s') :
    (s'.retained, s'.rmsgs) = retainedAfter s m := by
  rcases h with h | h
  · obtain ⟨_, _, h3⟩ := BrokerB1.backendPublish_ok s s' c m h
    rw [h3]; rfl
  · obtain ⟨t, st, h3⟩ := BrokerB1.backendPublish_full s s' c m h
    rw [h3]; rfl

/-- a retained publish with payload: its topic now holds exactly this message, every other topic
    keeps what it had (the seed's hypothesis `s.retained.WF` is not needed) -/
theorem retained_set (s : BState) (m : Message) (hr : m.retain = true) (hp : m.payload.length > 0)
    (p : List Level) :
    stored (retainedAfter s m).1 p = (if p = walk m.topic then [s.rmsgs.length] else stored s.retained p)
    ∧ (retainedAfter s m).2[s.rmsgs.length]? = some m := by
  unfold retainedAfter
  rw [if_pos hr, if_pos hp]
  refine ⟨?_, by simp⟩
  show stored (Tree.set m.topic s.rmsgs.length s.retained) p = _
  unfold Tree.set
  rw [BrokerB1.stored_set]

/-- a retained publish with empty payload clears its topic and nothing else (as an equation on
    the stored lists; the seed's hypothesis `NoDupVals` is not needed) -/
theorem retained_clear (s : BState) (hw : s.retained.WF) (m : Message)
    (hr : m.retain = true) (hp : m.payload.length = 0) (p : List Level) :
    stored (retainedAfter s m).1 p = (if p = walk m.topic then [] else stored s.retained p)
    ∧ (retainedAfter s m).2 = s.rmsgs := by
  unfold retainedAfter
  have : ¬ m.payload.length > 0 := by omega
  rw [if_pos hr, if_neg this]
  refine ⟨?_, rfl⟩
  show stored (Tree.emptyTopic m.topic s.retained) p = _
  unfold Tree.emptyTopic
  rw [BrokerB1.stored_remove_none _ _ hw]

/-- a publish without the flag never changes the retained set -/
theorem not_retained_unchanged (s : BState) (m : Message) (hr : m.retain = false) :
    retainedAfter s m = (s.retained, s.rmsgs) := by
  unfold retainedAfter
  simp [hr]

/-- a subscription filter finds exactly the retained entries whose topic it matches -/
theorem search_retained (r : Node) (hw : r.WF) (f : Bytes) (hf : ValidFilter (walk f)) (i : Val) :
    i ∈ Tree.search f r ↔ ∃ nm, i ∈ stored r nm ∧ tmatches (walk f) nm = true := by
  unfold Tree.search clean
  rw [List.mem_eraseDups]
  exact C04.search_correct r hw (walk f) hf i

/-- … and those messages, exactly and only those — each capped by the session's grant, `applyQOS` —
    are appended to the subscriber's temporary queue -/
theorem queueRetained_exact (cfg : Cfg) (b b' : BSess) (ms : List Message) (g : Nat)
    (h : queueRetained cfg b ms g = some b') :
    b'.tempQ = b.tempQ ++ ms.map (fun m => (g, applyQOS b m)) ∧ b'.storedQ = b.storedQ ∧ b'.subs = b.subs ∧ b'.sess = b.sess := by
  obtain ⟨h1, h2, h3, h4, _⟩ := BrokerB1.queueRetained_ok cfg ms g b b' h
  exact ⟨h1, h2, h3, h4⟩

/-! ### the history theorem: "at every moment the broker retains, per topic, the most recent …" -/

/-- the retained store after a history of publishes, starting from the empty store -/
def retainedHist (ms : List Message) : Node × List Message :=
  ms.foldl (fun st m => retainedAfter { retained := st.1, rmsgs := st.2 } m) (Node.empty, [])

/-- SPECIFICATION, one publish: with the flag and a payload it becomes the retained message of its
    topic, with the flag and an empty payload it clears its topic, without the flag nothing changes -/
def specStep (f : List Level → Option Message) (m : Message) : List Level → Option Message :=
  if m.retain then
    (if m.payload.length > 0 then fun p => if p = walk m.topic then some m else f p
     else fun p => if p = walk m.topic then none else f p)
  else f

/-- SPECIFICATION: the retained message of each topic after a history of publishes -/
def specRetained (ms : List Message) : List Level → Option Message :=
  ms.foldl specStep (fun _ => none)

/-- the relation between store and specification maintained along every history -/
def Agrees (st : Node × List Message) (f : List Level → Option Message) : Prop :=
  st.1.WF ∧ ∀ p, (match f p with
    | some m => ∃ i, stored st.1 p = [i] ∧ st.2[i]? = some m
    | none => stored st.1 p = [])

/-- for EVERY history of publishes and every topic: the trie holds exactly one index under the
    topic, pointing to the message the specification names — or nothing, when it names none -/
theorem retained_history (ms : List Message) (p : List Level) :
    (∀ m, specRetained ms p = some m ↔
        ∃ i, stored (retainedHist ms).1 p = [i] ∧ (retainedHist ms).2[i]? = some m) ∧
    (specRetained ms p = none ↔ stored (retainedHist ms).1 p = []) := by
  -- the invariant, generalised over the starting point of the fold
  have key : ∀ (ms : List Message) (st : Node × List Message) (f : List Level → Option Message),
      Agrees st f →
      Agrees (ms.foldl (fun st m => retainedAfter { retained := st.1, rmsgs := st.2 } m) st)
        (ms.foldl specStep f) := by
    intro ms
    induction ms with
    | nil => intro st f h; exact h
    | cons m rest ih =>
      intro st f h
      simp only [List.foldl_cons]
      apply ih
      obtain ⟨hw, hf⟩ := h
      unfold retainedAfter specStep
      by_cases hr : m.retain = true
      · by_cases hp : m.payload.length > 0
        · simp only [hr, hp, if_true]
          refine ⟨WF_set _ _ _ hw, ?_⟩
          intro q
          show (match (if q = walk m.topic then some m else f q) with
            | some m' => ∃ i, stored (Tree.set m.topic st.2.length st.1) q = [i] ∧ (st.2 ++ [m])[i]? = some m'
            | none => stored (Tree.set m.topic st.2.length st.1) q = [])
          unfold Tree.set
          rw [BrokerB1.stored_set]
          by_cases e : q = walk m.topic
          · simp only [e, if_true]
            exact ⟨st.2.length, rfl, by simp⟩
          · simp only [e, if_false]
            have := hf q
            cases hq : f q with
            | none => rw [hq] at this; exact this
            | some m' =>
              rw [hq] at this
              obtain ⟨i, h1, h2⟩ := this
              refine ⟨i, h1, ?_⟩
              have hlt : i < st.2.length := by
                cases hlt : decide (i < st.2.length) with
                | true => simpa using hlt
                | false =>
                  have : st.2.length ≤ i := by simpa using hlt
                  rw [List.getElem?_eq_none this] at h2; cases h2
              rw [List.getElem?_append_left hlt]; exact h2
        · simp only [hr, hp, if_true, if_false]
          refine ⟨WF_remove _ _ _ hw, ?_⟩
          intro q
          show (match (if q = walk m.topic then none else f q) with
            | some m' => ∃ i, stored (Tree.emptyTopic m.topic st.1) q = [i] ∧ st.2[i]? = some m'
            | none => stored (Tree.emptyTopic m.topic st.1) q = [])
          unfold Tree.emptyTopic
          rw [BrokerB1.stored_remove_none _ _ hw]
          by_cases e : q = walk m.topic
          · simp only [e, if_true]
          · simp only [e, if_false]
            exact hf q
      · simp only [hr, Bool.false_eq_true, if_false]
        exact ⟨hw, hf⟩
  have h0 : Agrees (Node.empty, []) (fun _ => none) := ⟨WF_empty, by intro q; simp⟩
  have := (key ms _ _ h0).2 p
  unfold specRetained retainedHist
  generalize (ms.foldl specStep (fun _ => none)) p = o at this
  cases o with
  | none =>
    simp only at this
    refine ⟨?_, ?_⟩
    · intro m
      constructor
      · intro h; cases h
      · rintro ⟨i, h1, _⟩; rw [this] at h1; cases h1
    · exact ⟨fun _ => this, fun _ => rfl⟩
  | some m0 =>
    simp only at this
    obtain ⟨i, h1, h2⟩ := this
    refine ⟨?_, ?_⟩
    · intro m
      constructor
      · intro h; cases h; exact ⟨i, h1, h2⟩
      · rintro ⟨j, h3, h4⟩
        rw [h1] at h3
        have : i = j := by simpa using h3
        subst this
        rw [h2] at h4; exact h4
    · constructor
      · intro h; cases h
      · intro h; rw [h1] at h; cases h

/-- the fold really is what the broker does: `retainedAfter` looks at the retained store only -/
theorem retainedAfter_congr (s₁ s₂ : BState) (h₁ : s₁.retained = s₂.retained) (h₂ : s₁.rmsgs = s₂.rmsgs)
    (m : Message) : retainedAfter s₁ m = retainedAfter s₂ m := by
  unfold retainedAfter
  rw [h₁, h₂]

/-! ### the same, keyed by the topic STRING (the property's own wording), on NUL-free topics -/

/-- the explicit, decidable domain predicate: MQTT topic names never contain U+0000 -/
def NulFree (t : Bytes) : Prop := (0 : UInt8) ∉ t

instance (t : Bytes) : Decidable (NulFree t) := by unfold NulFree; infer_instance

def specStepT (f : Bytes → Option Message) (m : Message) : Bytes → Option Message :=
  if m.retain then
    (if m.payload.length > 0 then fun t => if t = m.topic then some m else f t
     else fun t => if t = m.topic then none else f t)
  else f

/-- SPECIFICATION keyed by topic string: the last retained publish with payload to that very topic
    that was not cleared since -/
def specRetainedT (ms : List Message) : Bytes → Option Message :=
  ms.foldl specStepT (fun _ => none)

/-- on NUL-free topics a topic string and its level list determine each other, so the two
    specifications coincide … -/
theorem specRetainedT_eq (ms : List Message) (hms : ∀ m ∈ ms, NulFree m.topic) (t : Bytes) (ht : NulFree t) :
    specRetainedT ms t = specRetained ms (walk t) := by
  have key : ∀ (ms : List Message) (f : Bytes → Option Message) (g : List Level → Option Message),
      (∀ m ∈ ms, NulFree m.topic) → (∀ t, NulFree t → f t = g (walk t)) →
      ∀ t, NulFree t → ms.foldl specStepT f t = ms.foldl specStep g (walk t) := by
    intro ms
    induction ms with
    | nil => intro f g _ hfg t ht; exact hfg t ht
    | cons m rest ih =>
      intro f g hms hfg t ht
      simp only [List.foldl_cons]
      apply ih _ _ (fun m' hm' => hms m' (List.mem_cons_of_mem _ hm')) _ t ht
      intro u hu
      have hm : NulFree m.topic := hms m (List.mem_cons_self ..)
      have hiff : (u = m.topic) ↔ (walk u = walk m.topic) :=
        ⟨fun e => by rw [e], fun e => BrokerB1.walk_inj u m.topic hu hm e⟩
      unfold specStepT specStep
      by_cases hr : m.retain = true
      · by_cases hp : m.payload.length > 0
        · simp only [hr, hp, if_true]
          by_cases e : u = m.topic
          · simp [e]
          · have e' : ¬ walk u = walk m.topic := fun h => e (hiff.2 h)
            simp only [e, e', if_false]; exact hfg u hu
        · simp only [hr, hp, if_true, if_false]
          by_cases e : u = m.topic
          · simp [e]
          · have e' : ¬ walk u = walk m.topic := fun h => e (hiff.2 h)
            simp only [e, e', if_false]; exact hfg u hu
      · simp only [hr, Bool.false_eq_true, if_false]; exact hfg u hu
  exact key ms (fun _ => none) (fun _ => none) hms (fun _ _ => rfl) t ht

/-- … and the history theorem reads: after EVERY history of publishes to NUL-free topics, for every
    NUL-free topic `t`, the store holds under `t` exactly (one index to) the message the
    specification names, or nothing when it names none -/
theorem retained_history_topics (ms : List Message) (hms : ∀ m ∈ ms, NulFree m.topic) (t : Bytes)
    (ht : NulFree t) :
    (∀ m, specRetainedT ms t = some m ↔
        ∃ i, stored (retainedHist ms).1 (walk t) = [i] ∧ (retainedHist ms).2[i]? = some m) ∧
    (specRetainedT ms t = none ↔ stored (retainedHist ms).1 (walk t) = []) := by
  rw [specRetainedT_eq ms hms t ht]
  exact retained_history ms (walk t)

/-! ### the invariant of the retained store -/

/-- every stored message carries the retain flag and a payload; every index in the trie points to a
    stored message published to exactly that topic; the trie is well formed -/
def RetainedOK (r : Node) (rm : List Message) : Prop :=
  r.WF ∧ (∀ m ∈ rm, m.retain = true ∧ m.payload.length > 0) ∧
  ∀ p i, i ∈ stored r p → ∃ m, rm[i]? = some m ∧ walk m.topic = p

theorem retainedOK_init : RetainedOK Node.empty [] := BrokerB1.RetOK_empty

/-- `Backend.Publish` (any outcome that returns) preserves the invariant; in particular
    `∀ m ∈ rmsgs, m.retain = true` -/
theorem retainedOK_publish (s s' : BState) (c : ConnId) (m : Message)
    (h : backendPublish s c m = .ok s' ∨ backendPublish s c m = .queueFull s')
    (hinv : RetainedOK s.retained s.rmsgs) : RetainedOK s'.retained s'.rmsgs := by
  have h1 := publish_retained s s' c m h
  have h2 := BrokerB1.RetOK_retAfter s.retained s.rmsgs m hinv
  have e : retainedAfter s m = BrokerB1.retAfter s.retained s.rmsgs m := rfl
  rw [e] at h1
  rw [← h1] at h2
  exact h2

/-- … hence along every history of publishes -/
theorem retainedOK_history (ms : List Message) : RetainedOK (retainedHist ms).1 (retainedHist ms).2 := by
  have key : ∀ (ms : List Message) (st : Node × List Message), RetainedOK st.1 st.2 →
      RetainedOK (ms.foldl (fun st m => retainedAfter { retained := st.1, rmsgs := st.2 } m) st).1
        (ms.foldl (fun st m => retainedAfter { retained := st.1, rmsgs := st.2 } m) st).2 := by
    intro ms
    induction ms with
    | nil => intro st h; exact h
    | cons m rest ih =>
      intro st h
      simp only [List.foldl_cons]
      exact ih _ (BrokerB1.RetOK_retAfter st.1 st.2 m h)
  exact key ms _ retainedOK_init

/-! ### replay on subscribe -/

/-- the retained messages one filter is handed -/
def replayOne (s : BState) (f : Bytes) : List Message :=
  (Tree.search f s.retained).filterMap (fun i => s.rmsgs[i]?)

/-- everything one SUBSCRIBE appends to the temporary queue: one (unordered) group per filter, each
    message capped by the grant of session `b` (whose tree holds the subscriptions of the SUBSCRIBE) -/
def replay (s : BState) (b : BSess) : Nat → List Subscription → List (Nat × Message)
  | _, [] => []
  | g, sub :: rest => (replayOne s sub.topic).map (fun m => (g, applyQOS b m)) ++ replay s b (g + 1) rest

/-- `Subscribe`, second loop: the session's temporary queue is extended by exactly the replay of
    the packet's filters, in order; nothing else about the session, the retained store or the
    connections changes -/
theorem subscribe_replays_exactly (s s' : BState) (c : ConnId) (subs : List Subscription) (b : BSess)
    (hb : s.sessOf c = some b) (h : subscribeRetained s c subs = .ok s') :
    ∃ b', s'.sessOf c = some b' ∧ b'.tempQ = b.tempQ ++ replay s b s.nextGroup subs ∧
      b'.storedQ = b.storedQ ∧ b'.subs = b.subs ∧ b'.sess = b.sess ∧
      s'.conns = s.conns ∧ s'.retained = s.retained ∧ s'.rmsgs = s.rmsgs := by
  -- the two definitions of `replay` coincide
  have hrep : ∀ (subs : List Subscription) (g : Nat), BrokerB1.replay s b g subs = replay s b g subs := by
    intro subs
    induction subs with
    | nil => intro g; rfl
    | cons sub rest ih =>
      intro g
      show _ ++ BrokerB1.replay s b (g + 1) rest = _ ++ replay s b (g + 1) rest
      rw [ih]; rfl
  obtain ⟨b', r1, r2, r3, r4, r5, _, r7, r8, r9, _⟩ := BrokerB1.subscribeRetained_ok c subs s s' b hb h
  refine ⟨b', r1, ?_, r3, r4, r5, r7, r8, r9⟩
  rw [r2, hrep]

/-- one filter -/
theorem subscribe_replays_one (s s' : BState) (c : ConnId) (sub : Subscription) (b : BSess)
    (hb : s.sessOf c = some b) (h : subscribeRetained s c [sub] = .ok s') :
    ∃ b', s'.sessOf c = some b' ∧
      b'.tempQ = b.tempQ ++ (replayOne s sub.topic).map (fun m => (s.nextGroup, applyQOS b m)) := by
  obtain ⟨b', h1, h2, _⟩ := subscribe_replays_exactly s s' c [sub] b hb h
  exact ⟨b', h1, by simpa [replay] using h2⟩

/-- what a filter is handed = exactly the currently retained messages whose own topic it matches
    (§4.7), each of them once -/
theorem replay_exact (s : BState) (hinv : RetainedOK s.retained s.rmsgs) (f : Bytes)
    (hf : ValidFilter (walk f)) (m : Message) :
    m ∈ replayOne s f ↔
      ∃ i, i ∈ stored s.retained (walk m.topic) ∧ s.rmsgs[i]? = some m ∧
        tmatches (walk f) (walk m.topic) = true :=
  BrokerB1.mem_replayOne s hinv f hf m

/-- no retained entry is replayed twice for one filter -/
theorem replay_indices_nodup (s : BState) (f : Bytes) : (Tree.search f s.retained).Nodup :=
  C04.search_nodup f s.retained

/-- replayed messages are flagged as retained -/
theorem replay_flagged (s : BState) (hinv : RetainedOK s.retained s.rmsgs) (f : Bytes) (m : Message)
    (hm : m ∈ replayOne s f) : m.retain = true :=
  BrokerB1.replayOne_retain s hinv f m hm

/-! ### the replayed copies are capped when they are queued -/

/-- every entry of a replay is `applyQOS b` of a retained message one of the filters found: topic,
    payload and retain flag of the retained message, QoS never higher, and equal to
    min(retained QoS, q) when `MatchFirst` finds the grant `q` for the message's topic in `b` -/
theorem mem_replay_capped (s : BState) (b : BSess) (subs : List Subscription) :
    ∀ (g : Nat) (e : Nat × Message), e ∈ replay s b g subs →
      ∃ sub r, sub ∈ subs ∧ r ∈ replayOne s sub.topic ∧ e.2 = applyQOS b r ∧
        e.2.topic = r.topic ∧ e.2.payload = r.payload ∧ e.2.retain = r.retain ∧
        e.2.qos.toNat ≤ r.qos.toNat ∧
        ∀ q, subQos b r.topic = some q → e.2.qos.toNat = min r.qos.toNat q := by
  induction subs with
  | nil => intro g e he; cases he
  | cons sub rest ih =>
    intro g e he
    simp only [replay, List.mem_append, List.mem_map] at he
    rcases he with ⟨r, hr, rfl⟩ | he
    · obtain ⟨a1, a2, a3, a4⟩ := C06.applyQOS_le b r
      exact ⟨sub, r, List.mem_cons_self .., hr, rfl, a2, a3, a4, a1,
        fun q hq => (C06.applyQOS_min b r q hq).1⟩
    · obtain ⟨sub', r, h1, h2⟩ := ih (g + 1) e he
      exact ⟨sub', r, List.mem_cons_of_mem _ h1, h2⟩

/-- CAP AT ENQUEUE for retained replays (`Subscribe`, second loop): what is appended to the
    temporary queue is, entry by entry, a retained message found by one of the filters, capped by
    the grant `MatchFirst` finds in the session's tree `b'.subs` — the tree AFTER the SUBSCRIBE (the
    loop does not touch it: `b'.subs = b.subs`, and `b` already holds the new subscriptions, see
    `recv_subscribe_replay_capped`) —, topic and payload intact, retain flag kept -/
theorem replay_capped (s s' : BState) (c : ConnId) (subs : List Subscription) (b : BSess)
    (hb : s.sessOf c = some b) (h : subscribeRetained s c subs = .ok s') :
    ∃ b', s'.sessOf c = some b' ∧ b'.subs = b.subs ∧
      b'.tempQ = b.tempQ ++ replay s b' s.nextGroup subs ∧
      ∀ e ∈ replay s b' s.nextGroup subs,
        ∃ sub r, sub ∈ subs ∧ r ∈ replayOne s sub.topic ∧ e.2 = applyQOS b' r ∧
          e.2.topic = r.topic ∧ e.2.payload = r.payload ∧ e.2.retain = r.retain ∧
          e.2.qos.toNat ≤ r.qos.toNat ∧
          ∀ q, subQos b' r.topic = some q → e.2.qos.toNat = min r.qos.toNat q := by
  obtain ⟨b', h1, h2, _, h4, _⟩ := subscribe_replays_exactly s s' c subs b hb h
  have hcongr : ∀ (subs : List Subscription) (g : Nat), replay s b g subs = replay s b' g subs := by
    intro subs
    induction subs with
    | nil => intro g; rfl
    | cons sub rest ih =>
      intro g
      have e : ∀ m, applyQOS b m = applyQOS b' m := fun m => BrokerFan.applyQOS_congr h4.symm m
      simp only [replay, ih, e]
  refine ⟨b', h1, h4, by rw [h2, hcongr], fun e he => mem_replay_capped s b' subs _ e he⟩

/-- the SUBSCRIBE packet as the processor handles it: in every successor in which the connection is
    still alive the session's tree is the fold of `Set` over the packet (C06.recv_subscribe_subs) and
    the temporary queue was extended by the replay capped by THAT tree: a retained message whose topic
    `MatchFirst` maps to the grant `q` in the tree after the SUBSCRIBE is queued with
    QoS = min(retained QoS, q) -/
theorem recv_subscribe_replay_capped (s : BState) (c : ConnId) (x : BConn) (b : BSess)
    (subs : List Subscription) (id : UInt16) (hc : s.conn? c = some x) (ha : x.alive = true)
    (hp : x.phase = .connected) (ht : x.subTok ≠ 0) (hb : s.sessOf c = some b) (ss : List BState)
    (h : recv s c (.subscribe subs id) = .ok ss) (s' : BState) (hm : s' ∈ ss) (x' : BConn)
    (hc' : s'.conn? c = some x') (ha' : x'.alive = true) :
    ∃ b', s'.sessOf c = some b' ∧
      b'.subs = subs.foldl (fun n sub => Tree.set sub.topic sub.qos.toNat n) b.subs ∧
      b'.storedQ = b.storedQ ∧
      b'.tempQ = b.tempQ ++ replay s b' s.nextGroup subs ∧
      ∀ e ∈ replay s b' s.nextGroup subs,
        ∃ sub r, sub ∈ subs ∧ r ∈ replayOne s sub.topic ∧ e.2 = applyQOS b' r ∧
          e.2.topic = r.topic ∧ e.2.payload = r.payload ∧ e.2.retain = r.retain ∧
          e.2.qos.toNat ≤ r.qos.toNat ∧
          ∀ q, subQos b' r.topic = some q → e.2.qos.toNat = min r.qos.toNat q := by
  obtain ⟨b', h1, h2, h3, h4, _⟩ := BrokerB1.recv_subscribe s c x b subs id hc ha hp ht hb ss h s' hm x' hc' ha'
  have hrep : ∀ (subs : List Subscription) (g : Nat), BrokerB1.replay s b' g subs = replay s b' g subs := by
    intro subs
    induction subs with
    | nil => intro g; rfl
    | cons sub rest ih =>
      intro g
      show _ ++ BrokerB1.replay s b' (g + 1) rest = _ ++ replay s b' (g + 1) rest
      rw [ih]; rfl
  exact ⟨b', h1, h2, h4, by rw [h3, hrep], fun e he => mem_replay_capped s b' subs _ e he⟩

/-! ### the live copy -/

/-- what `Backend.Publish` queues for the current subscribers has the retain flag cleared (and
    topic and payload of the publish; the QoS is the published one capped by the session's grant,
    `applyQOS`, C06.enqueued_copy_capped): every entry of a session's queues after the publish was
    there before or is that copy -/
theorem live_copy_flag_cleared (s s' : BState) (c : ConnId) (m : Message)
    (h : backendPublish s c m = .ok s') (c' : ConnId) (b : BSess) (hb : s.sessOf c' = some b) :
    ∃ b', s'.sessOf c' = some b' ∧
      (∀ x ∈ b'.storedQ, x ∈ b.storedQ ∨
        (x = applyQOS b { m with retain := false } ∧
         x.retain = false ∧ x.topic = m.topic ∧ x.payload = m.payload ∧ x.qos.toNat ≤ m.qos.toNat)) ∧
      (∀ e ∈ b'.tempQ, e ∈ b.tempQ ∨
        (e.2 = applyQOS b { m with retain := false } ∧
         e.2.retain = false ∧ e.2.topic = m.topic ∧ e.2.payload = m.payload ∧ e.2.qos.toNat ≤ m.qos.toNat)) := by
  obtain ⟨b', h1, _, h2⟩ := C06.publish_session s s' c m h c' b hb
  refine ⟨b', h1, ?_⟩
  have hsame : b' = b → (∀ x ∈ b'.storedQ, x ∈ b.storedQ ∨
        (x = applyQOS b { m with retain := false } ∧
         x.retain = false ∧ x.topic = m.topic ∧ x.payload = m.payload ∧ x.qos.toNat ≤ m.qos.toNat)) ∧
      (∀ e ∈ b'.tempQ, e ∈ b.tempQ ∨
        (e.2 = applyQOS b { m with retain := false } ∧
         e.2.retain = false ∧ e.2.topic = m.topic ∧ e.2.payload = m.payload ∧ e.2.qos.toNat ≤ m.qos.toNat)) := by
    intro e; subst e
    exact ⟨fun x hx => Or.inl hx, fun e he => Or.inl he⟩
  obtain ⟨a1, a2, a3, a4⟩ := C06.applyQOS_le b { m with retain := false }
  split at h2
  · rcases h2 with h2 | ⟨_, _, h2⟩
    · obtain ⟨h3, _⟩ := C06.enqueue_one_copy _ _ _ _ _ h2
      split at h3
      · rw [h3.1, h3.2]
        refine ⟨fun x hx => Or.inl hx, ?_⟩
        intro e he
        rcases List.mem_append.1 he with he | he
        · exact Or.inl he
        · simp only [List.mem_singleton] at he; subst he
          exact Or.inr ⟨rfl, a4, a2, a3, a1⟩
      · rw [h3.1, h3.2]
        refine ⟨?_, fun e he => Or.inl he⟩
        intro x hx
        rcases List.mem_append.1 hx with hx | hx
        · exact Or.inl hx
        · simp only [List.mem_singleton] at hx; subst hx
          exact Or.inr ⟨rfl, a4, a2, a3, a1⟩
    · exact hsame h2
  · exact hsame h2

/-! ### every reachable state of the broker ("at every moment") -/

/-- in every state the broker LTS can reach — whatever connects, subscribes, publishes, wills,
    takeovers, failing sends, deferred acknowledgements and observations led there — the retained
    store is the fold of `retainedAfter` over a history of publishes: nothing but
    `Backend.Publish` ever touches it -/
theorem reachable_retained_hist (cfg : Cfg) (s : BState) (h : Reachable cfg s) :
    ∃ ms, (s.retained, s.rmsgs) = retainedHist ms :=
  BrokerB1.reachable_hist h

/-- … hence it answers, per topic, as the specification does for that history -/
theorem reachable_retained_spec (cfg : Cfg) (s : BState) (h : Reachable cfg s) :
    ∃ ms, ∀ p,
      (∀ m, specRetained ms p = some m ↔ ∃ i, stored s.retained p = [i] ∧ s.rmsgs[i]? = some m) ∧
      (specRetained ms p = none ↔ stored s.retained p = []) := by
  obtain ⟨ms, hms⟩ := reachable_retained_hist cfg s h
  refine ⟨ms, fun p => ?_⟩
  have h1 : s.retained = (retainedHist ms).1 := congrArg Prod.fst hms
  have h2 : s.rmsgs = (retainedHist ms).2 := congrArg Prod.snd hms
  rw [h1, h2]
  exact retained_history ms p

/-- … and satisfies the invariant, so that `replay_exact` / `replay_flagged` apply to it -/
theorem reachable_retainedOK (cfg : Cfg) (s : BState) (h : Reachable cfg s) :
    RetainedOK s.retained s.rmsgs := by
  obtain ⟨ms, hms⟩ := reachable_retained_hist cfg s h
  have h1 : s.retained = (retainedHist ms).1 := congrArg Prod.fst hms
  have h2 : s.rmsgs = (retainedHist ms).2 := congrArg Prod.snd hms
  rw [h1, h2]
  exact retainedOK_history ms

/-- in every reachable state a subscription filter is handed exactly the retained messages whose
    own topic it matches, each flagged as retained -/
theorem reachable_replay_exact (cfg : Cfg) (s : BState) (h : Reachable cfg s) (f : Bytes)
    (hf : ValidFilter (walk f)) (m : Message) :
    m ∈ replayOne s f ↔
      (∃ i, i ∈ stored s.retained (walk m.topic) ∧ s.rmsgs[i]? = some m ∧
        tmatches (walk f) (walk m.topic) = true) ∧ m.retain = true := by
  have hinv := reachable_retainedOK cfg s h
  constructor
  · intro hm
    exact ⟨(replay_exact s hinv f hf m).1 hm, replay_flagged s hinv f m hm⟩
  · rintro ⟨hm, _⟩
    exact (replay_exact s hinv f hf m).2 hm

/-! ### non-vacuity -/

/-- "a/b" retained with payload, then "c" retained, then "a/b" cleared, then a plain publish to "c" -/
def exM1 : Message := ⟨[97, 47, 98], [1], 1, true⟩
def exM2 : Message := ⟨[99], [2], 0, true⟩
def exM3 : Message := ⟨[97, 47, 98], [], 0, true⟩
def exM4 : Message := ⟨[99], [3], 2, false⟩

example : specRetained [exM1, exM2] (walk [97, 47, 98]) = some exM1 := by decide
example : specRetained [exM1, exM2, exM3, exM4] (walk [97, 47, 98]) = none := by decide
example : specRetained [exM1, exM2, exM3, exM4] (walk [99]) = some exM2 := by decide
example : specRetainedT [exM1, exM2, exM3, exM4] [99] = some exM2 := by decide
example : ∀ m ∈ [exM1, exM2, exM3, exM4], NulFree m.topic := by decide
example : stored (retainedHist [exM1, exM2, exM3, exM4]).1 (walk [99]) = [1] ∧
    (retainedHist [exM1, exM2, exM3, exM4]).2[1]? = some exM2 ∧
    stored (retainedHist [exM1, exM2, exM3, exM4]).1 (walk [97, 47, 98]) = [] := by decide

/-- the broker state after the first two publishes, one connected client with a temporary session -/
def exState : BState :=
  { retained := (retainedHist [exM1, exM2]).1, rmsgs := (retainedHist [exM1, exM2]).2,
    conns := [(0, { phase := .connected, sref := .temp, running := true, subTok := 10 })],
    temp := [(0, { active := some 0 })] }

example : RetainedOK exState.retained exState.rmsgs := retainedOK_history [exM1, exM2]
/-- "a/+" is handed the retained message of "a/b", "b/#" is not -/
example : exM1 ∈ replayOne exState [97, 47, 43] :=
  (replay_exact exState (retainedOK_history [exM1, exM2]) [97, 47, 43]
    (by rw [show walk [97, 47, 43] = [[97], [43]] by decide]; exact ⟨by decide, trivial⟩) exM1).2
    ⟨0, by decide, by decide, by decide⟩
example : exM1 ∉ replayOne exState [98, 47, 35] := by
  intro h
  obtain ⟨_, _, _, h3⟩ := (replay_exact exState (retainedOK_history [exM1, exM2]) [98, 47, 35]
    (by rw [show walk [98, 47, 35] = [[98], [35]] by decide]; exact ⟨by decide, trivial⟩) exM1).1 h
  revert h3; decide
/-- the publish that clears "a/b" is accepted in that state -/
example : ∃ s', backendPublish exState 0 exM3 = .ok s' := ⟨_, rfl⟩
theorem exSearch : Tree.search [97, 47, 43] exState.retained = [0] := by
  have e : (retainedHist [exM1, exM2]).1 =
      Node.mk [] [([97], Node.mk [] [([98], Node.mk [0] [])]), ([99], Node.mk [1] [])] := rfl
  show Tree.search [97, 47, 43] (retainedHist [exM1, exM2]).1 = [0]
  rw [e]
  unfold Tree.search
  rw [show walk [97, 47, 43] = [[97], [43]] by decide]
  simp [searchAll, searchKids, child?, wildSome, wildOne, clean, values]
  rfl

/-- SUBSCRIBE "a/+" in that state: accepted, the retained message of "a/b" is queued (the second loop
    of `Subscribe` alone, on a session without subscriptions: nothing to cap with) -/
example : ∃ s', subscribeRetained exState 0 [⟨[97, 47, 43], 1⟩] = .ok s' ∧
    s'.sessOf 0 = some { active := some 0, tempQ := [(0, exM1)] } := by
  simp only [subscribeRetained, exSearch]
  exact ⟨_, rfl, rfl⟩

/-- the session of connection 0 holding "a/+" @ 0 -/
def exSess0 : BSess := { subs := Tree.set [97, 47, 43] 0 Node.empty, active := some 0 }

/-- cap at enqueue, concretely: with "a/+" granted at QoS 0 in the tree, the retained QoS-1 message of
    "a/b" is queued as a QoS-0 copy, retain flag kept -/
example : subQos exSess0 exM1.topic = some 0 := by decide
example : applyQOS exSess0 exM1 = { exM1 with qos := 0 } := by decide
example : ∃ s', subscribeRetained { exState with temp := [(0, exSess0)] } 0 [⟨[97, 47, 43], 0⟩] = .ok s' ∧
    s'.sessOf 0 = some { exSess0 with tempQ := [(0, ⟨[97, 47, 98], [1], 0, true⟩)] } := by
  have h : Tree.search [97, 47, 43] ({ exState with temp := [(0, exSess0)] } : BState).retained = [0] := exSearch
  simp only [subscribeRetained, h]
  exact ⟨_, rfl, rfl⟩
/-- … and the hypotheses of `recv_subscribe_replay_capped` hold in `exState`: connection 0 is connected,
    alive, has a subscribe token and a session -/
example : ∃ x b, exState.conn? 0 = some x ∧ x.alive = true ∧ x.phase = .connected ∧ x.subTok ≠ 0 ∧
    exState.sessOf 0 = some b := ⟨_, _, rfl, rfl, rfl, by decide, rfl⟩
/-- the whole SUBSCRIBE "a/+" @ 0 as processed by `recv`: one successor, connection alive, the
    subscription stored and the retained QoS-1 message queued as a QoS-0 copy -/
example : ∃ s', recv exState 0 (.subscribe [⟨[97, 47, 43], 0⟩] 5) = .ok [s'] ∧
    (∃ x', s'.conn? 0 = some x' ∧ x'.alive = true) ∧
    s'.sessOf 0 = some { exSess0 with tempQ := [(0, ⟨[97, 47, 98], [1], 0, true⟩)] } := by
  have h : Tree.search [97, 47, 43] (retainedHist [exM1, exM2]).fst = [0] := exSearch
  simp [recv, exState, conn?, Assoc.get, Assoc.set, setConn, sessOf, setSessOf, ackVia, updConn,
    subscribeRetained, Res.one, exSess0]
  rw [h]
  exact ⟨_, rfl, ⟨_, ⟨_, rfl⟩, rfl⟩, rfl⟩

/-- a reachable state holding a retained message: connect, CONNECT (clean, no client id), retained publish -/
example : ∃ s, Reachable {} s ∧ s.rmsgs = [exM1] ∧ stored s.retained (walk exM1.topic) = [0] := by
  have r0 : Reachable {} ({ cfg := {} } : BState) := .init
  have r1 := Reachable.step r0 (Step.stim (.conn 0) _ rfl (List.mem_singleton.2 rfl))
  have r2 := Reachable.step r1 (Step.stim (.send 0 (.connect [] 0 [] [] true none 4)) _ rfl (List.mem_singleton.2 rfl))
  have r3 := Reachable.step r2 (Step.stim (.send 0 (.publish exM1 false 1)) _ rfl (List.mem_singleton.2 rfl))
  exact ⟨_, r3, rfl, rfl⟩

end C11
