import Model.Service
import Proofs.ServiceInv
import Proofs.ServiceArrival
/-
  Props/C15c.lean — the client-library clauses of property C15: the client hands inbound
  messages of one QoS level to the application in arrival order, and the service executes
  queued commands first-in first-out.  (The broker clauses of C15 are in Model/Broker.lean.)
-/
namespace C15c
open Svc Svc.SState SvcK2

/-- queued service commands are executed first-in first-out: what left the queue so far is a
    prefix of what was issued, the rest is the queue, and what the dispatchers took is a
    subsequence of it in the same order -/
theorem commands_fifo {cfg : Cfg} {s : SState} (h : Reachable cfg s) :
    s.issued = s.handled ++ s.queue ∧ s.taken.Sublist s.issued := by
  have hf := reachable_fifo h
  refine ⟨hf, ?_⟩
  rw [hf]
  exact (reachable_orderInv h).taken.trans (List.sublist_append_left _ _)

/-- the packets of the commands are written to the connections in the order issued -/
theorem commands_written_in_order {cfg : Cfg} {s : SState} (h : Reachable cfg s) :
    (s.handed.map (·.2)).Sublist (s.issued.map (·.n)) :=
  (reachable_orderInv h).handed.trans (List.Sublist.map _ (commands_fifo h).2)

/-- messages reach the application in arrival order: the callback history grows only when the
    (single) processor handles an inbound packet, by at most the one message that packet
    releases — the PUBLISH itself for QoS 0 / 1, the PUBLISH stored under the PUBREL's id for
    QoS 2 — and the packet is appended to the arrival history in the same step.  Hence the
    callback history is, message for message, in the order of the releasing arrivals. -/
theorem callback_in_arrival_order {s s' : SState} {e : Ev} {o : List Obs} (h : step s e = some (s', o)) :
    (s'.callbacks = s.callbacks ∧ s'.arrivals = s.arrivals)
    ∨ ∃ c p, e = .recv c p ∧ s'.arrivals = s.arrivals ++ [p]
        ∧ s'.callbacks = s.callbacks ++ (released s.sess p).toList := by
  cases step_arr h with
  | inl h1 => exact Or.inl ⟨h1.callbacks, h1.arrivals⟩
  | inr h1 =>
    obtain ⟨c, p, he, ha⟩ := h1
    exact Or.inr ⟨c, p, he, ha.arrivals, ha.callbacks⟩

/-- over whole runs: the number of callbacks never exceeds the number of arrivals handled -/
theorem callbacks_le_arrivals {cfg : Cfg} {s : SState} (h : Reachable cfg s) :
    s.callbacks.length ≤ s.arrivals.length := by
  induction h with
  | init => simp
  | @step s0 s1 e o _ hs ih =>
    cases callback_in_arrival_order hs with
    | inl h1 => rw [h1.1, h1.2]; exact ih
    | inr h1 =>
      obtain ⟨c, p, _, ha, hc⟩ := h1
      rw [ha, hc, List.length_append, List.length_append]
      have : (released s0.sess p).toList.length ≤ 1 := by cases released s0.sess p <;> simp
      simp only [List.length_cons, List.length_nil]
      omega

/-- non-vacuity: two QoS 1 messages and a QoS 2 message released in between arrive in order -/
example : (run { cfg := { resubAll := false } }
    [.start, .sup .run, .recv 1 (.connack false 0), .sup .run, .sup .run,
     .recv 1 (.publish ⟨[97], [49], 1, false⟩ false 7), .recv 1 (.publish ⟨[97], [50], 2, false⟩ false 8),
     .recv 1 (.publish ⟨[97], [51], 1, false⟩ false 9), .recv 1 (.pubrel 8)]).map
      (fun r => r.1.callbacks.map (·.payload)) = some [[49], [51], [50]] := by decide

end C15c
