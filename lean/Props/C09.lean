import Proofs.ClientAlloc
/-
  Props/C09.lean — C09: the client keeps QoS ≥ 1 publishes until acknowledged; futures resolve
  truthfully and always; close/disconnect return; accessors are total.

  Model: `Model/Client.lean` (`Cl.step`), the client as a transition system at the granularity of
  the real lock coverage.  `Cl.Fix.repaired` is the code with the four `fix:` patches of this
  property family (defects 9, 10+11, 14, 15) applied; `Cl.Fix.legacy` the code as it was found.
  Theorems that do not mention a `Fix` hold for every combination.
-/
open Cl Cl.St ClientK1 ClientK3
namespace C09

/-! ### stored before sent -/

/-- Whenever an exported method hands a QoS ≥ 1 PUBLISH to the connection (every reachable state,
    every history `tr` that leads to it), the last thing that call did to the session was the
    successful `SavePacket(Outgoing, ·)` of exactly that packet. -/
theorem stored_before_send {fx : Fix} {s s' : St} {tr : List Label} {m : Message} {dup : Bool} {id : UInt16}
    {ok : Bool} (hr : ReachT fx s tr) (h : step fx s (.send .api (.publish m dup id) ok) = some s')
    (hq : m.qos ≠ 0) : savedNow tr = some (.publish m dup id) :=
  stored_before_send_trace hr h hq

/-! ### kept until acknowledged; PUBREC replaces the PUBLISH by the PUBREL -/

/-- In one step (any state, any label) the packet stored for an outgoing id changes — up to the
    duplicate flag — only by: the deletion inside the handler of an acknowledgement for that id,
    the PUBREL replacing it inside the PUBREC handler for that id, a new request being stored
    under that id, or a session reset. -/
theorem kept_until_acked {fx : Fix} {s s' : St} {l : Label} (h : step fx s l = some s') (id : UInt16) :
    outAt s'.sess id = outAt s.sess id ∨ Releases s l id :=
  step_outAt h id

/-- … and the acknowledgement handler for `id` is entered only by reading PUBACK / PUBCOMP /
    SUBACK / UNSUBACK with that id. -/
theorem release_only_after_ack {fx : Fix} {s s' : St} {l : Label} {k : AckK} {id : UInt16}
    (h : step fx s l = some s') (hp : s'.proc = .aDel k id) (hne : s.proc ≠ .aDel k id) :
    ∃ p, l = .recv p ∧ AckFor k id p :=
  step_enter_aDel h hp hne

/-- The PUBREC handler is entered only by reading PUBREC `id`; inside it the only thing the
    processor can do is `SavePacket(Outgoing, PUBREL id)`; if that succeeds the session holds the
    PUBREL for `id`, and the next thing the processor does is hand PUBREL `id` to the connection. -/
theorem pubrec_replaces_by_pubrel {fx : Fix} {s s' : St} {l : Label} {id : UInt16} :
    (step fx s l = some s' → s'.proc = .recSave id → s.proc ≠ .recSave id → l = .recv (.pubrec id)) ∧
    (s.proc = .recSave id → stepProc fx s l = some s' →
      ∃ ok, l = .sSave .proc .outgoing (.pubrel id) ok ∧
        (ok = true → outAt s'.sess id = some (.pubrel id) ∧ s'.proc = .recSend id) ∧
        (ok = false → s'.sess = s.sess ∧ s'.proc = .die (mkDie true .exit))) ∧
    (s.proc = .recSend id → stepProc fx s l = some s' →
      ∃ ok, l = .send .proc (.pubrel id) ok ∧ s'.out = s.out ++ [(.pubrel id, ok)]) :=
  ⟨fun h hp hne => step_enter_recSave h hp hne, fun hp h => pubrec_then_store hp h, fun hp h => pubrel_then_send hp h⟩

/-! ### packet ids: an id that is still in use is not handed out (MQTT 3.1.1 §2.3.1) -/

/-- The id a request is stored and sent under is not a key of the outgoing store at allocation
    time: in every state, an exported method that needs a packet id reaches `Put` with `id` (from
    where it registers its future, stores and sends its packet under that id, `id_kept_through_call`)
    only through `LookupPacket(Outgoing, id)` finding nothing — no packet is stored under `id`, `id`
    is the key of no entry — and that step leaves the session as it is. -/
theorem fresh_id_unused {fx : Fix} {s s' : St} {l : Label} {r : Req} {id : UInt16}
    (h : step fx s l = some s') (hp : s'.api = .rPut r id) (hne : s.api ≠ .rPut r id) (hn : r.needsID = true) :
    (∃ n, s.api = .rLook r id n) ∧ l = .sLookup .outgoing id (.found none) ∧
      s.sess.lookupPacket .outgoing id = none ∧ outAt s.sess id = none ∧
      (∀ k p, (k, p) ∈ s.sess.outgoing.entries → k ≠ id) ∧ s'.sess = s.sess := by
  obtain ⟨hs, hc⟩ := step_enter_rPut h hp hne
  rcases hc with ⟨n, ha, hl, hk⟩ | ⟨_, _, hz⟩
  · refine ⟨⟨n, ha⟩, hl, hk, by simp [outAt, hk], ?_, hs⟩
    intro k p hm
    exact PacketStore.not_mem_of_lookup_none (st := s.sess.outgoing) hk hm
  · rw [hn] at hz; cases hz

/-- From `Put` until it returns a call works with the request and the id it allocated: the packet
    it stores (`rSave`) and hands to the connection (`rSend`) is `r.pkt id` for that id. -/
theorem id_kept_through_call {fx : Fix} {s s' : St} {l : Label} {r : Req} {id : UInt16}
    (h : step fx s l = some s') (hp : apiReq s'.api = some (r, id)) :
    apiReq s.api = some (r, id) ∨ s'.api = .rPut r id :=
  apiReq_step h hp

/-- The loop of `Client.nextID`, run without interference and without a failing session operation,
    is `MemorySession.freshID` (the allocator of the broker model, Proofs/SessionFresh): it ends at
    `Put` with the id `freshID` computes, or — `freshID` = 0 — returns `ErrPacketIDsExhausted`. -/
theorem allocation_is_freshID (fx : Fix) (r : Req) (s : St) (ha : s.api = .rID r 65535) :
    ∃ s', run fx s (allocLabels 65535 s.sess) = some s' ∧ s'.sess = s.sess.freshID.2 ∧
      (s.sess.freshID.1 ≠ 0 → s'.api = .rPut r s.sess.freshID.1) ∧
      (s.sess.freshID.1 = 0 → s'.api = .ret .errExhausted) :=
  alloc_run fx r 65534 s ha

/-- … so the undisturbed allocation fails only when the session holds a packet for every id there
    is (65535 stored outgoing packets) -/
theorem exhausted_only_when_full (fx : Fix) (r : Req) (s : St) (ha : s.api = .rID r 65535)
    (hlt : s.sess.outgoing.entries.length < 65535) :
    ∃ s', run fx s (allocLabels 65535 s.sess) = some s' ∧ s'.api = .rPut r s.sess.freshID.1 ∧
      s.sess.lookupPacket .outgoing s.sess.freshID.1 = none := by
  obtain ⟨s', hr, _, h1, _⟩ := allocation_is_freshID fx r s ha
  have hne := MemorySession.freshID_ne_zero_of_lt s.sess hlt
  exact ⟨s', hr, h1 hne, MemorySession.freshID_unused s.sess hne⟩

def cpk : Packet := .connect [99] 0 [] [] false none 4
def msg1 : Message := ⟨[116], [109], 1, false⟩
def pubA : Packet := .publish msg1 false 1

/-- the situation after a wrap of the id counter: the counter is back at 1 while the PUBLISH sent
    under id 1 is still unacknowledged -/
def wrapped : St :=
  { state := .connected, proc := .recv false, tombStarted := true, conn := .opened,
    sess := { counter := ⟨1⟩, outgoing := ⟨[(1, pubA)]⟩ }, futs := [.pending], fstore := [(1, 0)], rets := [0] }

/-- the repaired allocation steps over id 1: the new publish is stored and sent under id 2, the
    unacknowledged one stays stored and its future stays pending (before `Client.nextID` the new
    publish took id 1: `SavePacket` replaced the stored PUBLISH and `Put` cancelled its future —
    reproduced on the real client by the `id-wrap` run of clienttrace) -/
theorem id_reuse_repaired :
    (run Fix.repaired wrapped [.aReq (.pub msg1), .tau .api, .sNextID 1, .sLookup .outgoing 1 (.found (some pubA)),
      .sNextID 2, .sLookup .outgoing 2 (.found none), .tau .api, .tau .api,
      .sSave .api .outgoing (.publish msg1 false 2) true, .send .api (.publish msg1 false 2) true, .aRet .fut]).map
      (fun s => (s.sess.allPackets .outgoing, s.futs, s.fstore)) =
      some ([pubA, .publish msg1 false 2], [.pending, .pending], [(1, 0), (2, 1)]) := by decide

/-! ### retransmission after CONNACK -/

/-- After an accepting CONNACK the processor reads all stored outgoing packets (`sAll`), in the
    order the store keeps them (C18: the order in which they were saved), and then can do nothing
    but hand them to the connection one by one, each PUBLISH flagged as duplicate; the complete
    retransmission is always possible and produces exactly that list. -/
theorem resend_on_connack {fx : Fix} :
    (∀ {s s' : St} {l : Label}, s.proc = .ckAll → stepProc fx s l = some s' →
      ∃ ok, l = .sAll ok ∧ s'.sess = s.sess ∧ (ok = true → s'.proc = .ckResend (s.sess.allPackets .outgoing))) ∧
    (∀ {s s' : St} {l : Label} {p : Packet} {rest : List Packet}, s.proc = .ckResend (p :: rest) →
      stepProc fx s l = some s' →
      ∃ ok, l = .send .proc (dupOf p) ok ∧ s'.out = s.out ++ [(dupOf p, ok)] ∧
        (ok = true → s'.proc = .ckResend rest) ∧ (ok = false → s'.proc = .die (mkDie false .cont))) ∧
    (∀ (ps : List Packet) (s : St), s.proc = .ckResend ps →
      ∃ s', run fx s (ps.map (fun p => Label.send .proc (dupOf p) true) ++ [.tau .proc]) = some s' ∧
        s'.proc = .recv false ∧ s'.out = s.out ++ ps.map (fun p => (dupOf p, true))) :=
  ⟨fun hp h => connack_then_all hp h, fun hp h => resend_step hp h, fun ps s hp => resend_all_run fx ps s hp⟩

/-- a session that is not reset keeps everything: a new client with the same session (`newClient`)
    starts with the session the old one left behind -/
theorem session_survives_reconnect {fx : Fix} {s s' : St} (h : step fx s .newClient = some s') : s'.sess = s.sess := by
  simp [step, threadOf] at h
  obtain ⟨_, rfl⟩ := h
  rfl

/-! ### futures are truthful -/

/-- In every run, a future turns from pending to completed only
    (a) the connect future: by the processor, the packet read last being an accepting CONNACK;
    (b) a request future: by the processor inside the handler of an acknowledgement for the id under
        which it found that future in the store, that acknowledgement being the packet read last;
    (c) the future of a QoS 0 publish: by the exported method itself, directly after the
        connection accepted that PUBLISH. -/
theorem future_truthful {fx : Fix} {s s' : St} {tr : List Label} {l : Label} {i : Nat} {r : FRes}
    (hr : ReachT fx s tr) (h : step fx s l = some s')
    (hp : s.futs[i]? = some .pending) (hc : s'.futs[i]? = some (.completed r)) : Truthful s tr i r :=
  future_truthful_trace hr h hp hc

/-! ### every future is resolved at the end -/

/-- With the re-check after `Put` (defect 14 repaired): in every state reachable within one
    client lifetime — any initial session, every interleaving of the exported methods' micro-steps
    with the processor's, every failure of send / session operation / callback — in which the
    client is `disconnected`, no exported method is running and the processor is not running, no
    future that was ever created (the connect future included) is pending.

    Hypotheses of `Reach1` (`Well`): no keep-alive pinger (see `all_resolved_at_end_full_fails`), and
    the id `Client.nextID` settles on is not in the *future* store nor the id whose acknowledgement
    is being finished (fewer than 65535 requests in flight).  Since `Client.nextID` steps over ids
    with a stored packet (`fresh_id_unused`) this is required only of the id the allocation ends
    with, no longer of every id `NextID` returns; it cannot be dropped: the future store is not the
    packet store (SUBSCRIBE / UNSUBSCRIBE are never stored in the session, and `processSuback` & co.
    read and delete their future-store entry in two steps). -/
theorem all_resolved_at_end_partial {fx : Fix} {s : St} (hfx : FixOK fx) (hr : Reach1 fx s)
    (hst : s.state = .disconnected) (hapi : s.api = .idle)
    (hproc : s.proc = .notStarted ∨ ∃ b, s.proc = .exited b) :
    ∀ h : Nat, s.futs[h]? ≠ some FSt.pending :=
  all_resolved hfx hr hst hapi hproc

/-- the statement without the restrictions of `Well` (any reachable state of the repaired code) -/
def all_resolved_at_end_full : Prop :=
  ∀ s : St, Reach Fix.repaired s → s.api = .idle → (∃ b, s.proc = .exited b) →
    (s.ping = .notStarted ∨ s.ping = .exited) → ∀ h : Nat, s.futs[h]? ≠ some FSt.pending


/-- defect 14 (`Fix.legacy`): `Publish` passes its state check, the connection is lost and
    `cleanup` clears the future store, then `Publish` registers its future and sends into the
    closed connection -/
def race14 : List Label :=
  [.aConnect cpk false true false, .tau .api, .dial true, .tau .api, .send .api cpk true, .tau .api, .aRet .fut,
   .recv (.connack false 0), .tau .proc, .tau .proc, .tau .proc, .tau .proc, .sAll true, .tau .proc,
   .aReq (.pub msg1), .tau .api,
   .recvErr, .tau .proc, .tau .proc, .tau .proc, .tau .proc, .tau .proc, .cbErr .proc,
   .sNextID 1, .sLookup .outgoing 1 (.found none), .tau .api,
   .sSave .api .outgoing (.publish msg1 false 1) true, .send .api (.publish msg1 false 1) true,
   .aRet .fut]

/-- the code as it was found leaves the caller with `err == nil` and a future nobody resolves -/
theorem legacy_race_leaves_pending :
    (run Fix.legacy {} race14).map (fun s => (s.state, s.api, s.proc, s.futs[1]?)) =
      some (.disconnected, .idle, .exited true, some .pending) := by decide

/-- the same interleaving against the repaired code: the call returns `ErrClientNotConnected`
    and its future is cancelled -/
theorem repaired_race_cancels :
    (run Fix.repaired {} (race14.take 26 ++ [.tau .api, .aRet .errNotConnected])).map
      (fun s => (s.state, s.api, s.proc, s.futs[1]?)) =
      some (.disconnected, .idle, .exited true, some (.cancelled .nil)) := by decide

/-- found with the model, not reproduced on the real code (no handle to hold the processor between
    two atomic accesses): with keep-alive, the pinger may run `die(ErrClientMissingPong)` while the
    processor is between the state check and the unconditional `state := connacked/connected` of
    `processConnack`.  The client ends up `connected` with every goroutine gone (the processor's
    own `die` is swallowed by `finish sync.Once`), and a later `Publish` gets a future that nobody
    resolves. -/
def racePinger : List Label :=
  [.aConnect cpk false true true, .tau .api, .dial true, .tau .api, .send .api cpk true, .tau .api, .aRet .fut,
   .recv (.connack false 0), .tau .proc,
   .kMissing, .tau .ping, .tau .ping, .tau .ping, .close .ping true, .tau .ping, .cbErr .ping,
   .tau .proc, .tau .proc, .tau .proc, .sAll true, .tau .proc,
   .aReq (.pub msg1), .tau .api, .sNextID 1, .sLookup .outgoing 1 (.found none), .tau .api, .tau .api,
   .sSave .api .outgoing (.publish msg1 false 1) true, .send .api (.publish msg1 false 1) true, .aRet .fut,
   .recvErr, .tau .proc, .tau .proc, .tau .proc]

theorem racePinger_outcome :
    (run Fix.repaired {} racePinger).map (fun s => (s.state, s.api, s.proc, s.ping, s.futs[1]?)) =
      some (.connected, .idle, .exited true, .exited, some .pending) := by decide

theorem all_resolved_at_end_full_fails : ¬ all_resolved_at_end_full := by
  intro hall
  have hrun : (run Fix.repaired {} racePinger).isSome = true := by decide
  obtain ⟨s, hs⟩ := Option.isSome_iff_exists.mp hrun
  have ho := racePinger_outcome
  rw [hs] at ho
  simp at ho
  obtain ⟨_, hapi, hproc, hping, hfut⟩ := ho
  exact hall s (reach_of_run _ _ _ .init hs) hapi ⟨true, hproc⟩ (Or.inr hping) 1 hfut

/-- non-vacuity: the hypotheses of `all_resolved_at_end_partial` hold in a state reached by a run
    in which a publish raced the loss of the connection (and its future is cancelled) -/
example : ∃ s : St, Reach1 Fix.repaired s ∧ s.state = .disconnected ∧ s.api = .idle ∧
    (∃ b, s.proc = .exited b) ∧ s.futs.length = 2 := by
  have hrun : (run1 Fix.repaired {} (race14.take 26 ++ [.tau .api, .aRet .errNotConnected])).isSome = true := by decide
  obtain ⟨s, hs⟩ := Option.isSome_iff_exists.mp hrun
  have ho : (run1 Fix.repaired {} (race14.take 26 ++ [.tau .api, .aRet .errNotConnected])).map
      (fun s => (s.state, s.api, s.proc, s.futs.length)) = some (.disconnected, .idle, .exited true, 2) := by decide
  rw [hs] at ho
  simp at ho
  exact ⟨s, reach1_of_run1 _ _ _ (.init {}) hs, ho.1, ho.2.1, ⟨true, ho.2.2.1⟩, ho.2.2.2⟩

/-- `FixOK` is satisfied by the repaired code -/
example : FixOK Fix.repaired := ⟨rfl, rfl⟩

/-! ### close and disconnect return -/

/-- the repaired `end()` never waits for a tomb that did not run a goroutine: no reachable state
    has an exported method blocked for good -/
theorem close_returns {s : St} (h : Reach Fix.repaired s) : s.api ≠ .blocked := by
  induction h with
  | init => simp
  | step l _ hs ih => exact step_not_blocked hs rfl ih

/-- … and the wait inside `end()` is over as soon as the goroutines of the client have returned
    (or were never started) -/
theorem close_wait_enabled {s : St} {err : Bool} (ha : s.api = .wait err)
    (hg : s.tombStarted = true → s.procGone = true ∧ s.pingGone = true) :
    ∃ s', step Fix.repaired s (.tau .api) = some s' ∧ s'.api = .ret (if err then .err else .ok) := by
  by_cases ht : s.tombStarted = true
  · obtain ⟨h1, h2⟩ := hg ht
    refine ⟨{ s with api := .ret (if err then .err else .ok) }, ?_, rfl⟩
    simp [step, threadOf, stepApi, ha, ht, h1, h2]
  · refine ⟨{ s with api := .ret (if err then .err else .ok) }, ?_, rfl⟩
    simp [step, threadOf, stepApi, ha, ht, Fix.repaired]

/-- defect 9 (`Fix.legacy`): CONNECT cannot be sent, then `Close()` blocks for ever in `tomb.Wait` -/
theorem legacy_close_blocks :
    (run Fix.legacy {} [.aConnect cpk false true false, .tau .api, .dial true, .tau .api, .send .api cpk false,
      .tau .api, .tau .api, .tau .api, .aRet .err,
      .aClose, .tau .api, .tau .api, .tau .api, .close .api true, .tau .api, .tau .api, .tau .api]).map (·.api)
      = some .blocked := by decide

/-! ### accessors -/

/-- the accessors of connect / subscribe futures return a value in every state of the future -/
theorem accessors_total (f : FSt) :
    accSessionPresent f ≠ .panic ∧ accReturnCode f ≠ .panic ∧ accReturnCodes f ≠ .panic := by
  refine ⟨?_, ?_, ?_⟩ <;> simp only [accSessionPresent, accReturnCode, accReturnCodes] <;> split <;> simp

/-- before `fix:` 37c0610 (unchecked type assertion) a cancelled future made the accessor panic -/
theorem unchecked_accessor_panics : accSessionPresentUnchecked (.cancelled .nil) = .panic := rfl

end C09
