import Model.Broker
import Proofs.BrokerProc
import Proofs.BrokerSetup
import Proofs.BrokerClean
import Proofs.BrokerB5Ack
/-
  Props/C20.lean — property C20: nothing is processed before an accepted CONNECT; each request
  gets its response.  Statements are about the processor `BState.recv` of the broker model, for
  every state `s` (reachable or not); `BrokerB2.Succ r t` says that `t` is one of the possible
  successor states of the outcome `r`.
-/
namespace C20
open BState BrokerB2

def isConnect : Packet → Bool
  | .connect .. => true
  | _ => false

/-- CONNACK, SUBACK, UNSUBACK, PINGRESP: packets only a server sends -/
def isServerOnly : Packet → Bool
  | .connack .. | .suback .. | .unsuback _ | .pingresp => true
  | _ => false

/-- Before the CONNECT any other packet only closes the connection. -/
theorem nothing_before_connect (s : BState) (c : ConnId) (x : BConn) (p : Packet)
    (h : s.conn? c = some x) (ha : x.alive = true) (hp : x.phase = .connecting)
    (hn : isConnect p = false) : recv s c p = kill s c := by
  unfold recv
  simp only [h, ha, hp]
  cases p <;> simp_all [isConnect]

/-- … and closing a connection that never got as far as its CONNECT is silent: no reply, no backend
    call (no Setup, no will, no Terminate), no session or subscription touched. -/
theorem kill_before_connect_silent (s t : BState) (c : ConnId) (x : BConn)
    (h : s.conn? c = some x) (ha : x.alive = true) (hp : x.phase = .connecting) (hr : x.running = false)
    (ht : Succ (kill s c) t) :
    t.bevents = s.bevents ∧ t.stored = s.stored ∧ t.temp = s.temp ∧ t.retained = s.retained ∧
    t.rmsgs = s.rmsgs ∧ t.activeClients = s.activeClients ∧ t.pendingAcks = s.pendingAcks ∧
    (∀ c', c' ≠ c → t.conn? c' = s.conn? c') ∧
    ∃ x', t.conn? c = some x' ∧ x'.alive = false ∧ x'.procOut = x.procOut ∧ x'.ackOut = x.ackOut ∧
      x'.phase = .connecting := by
  rw [kill_connecting s c x h ha hp hr, succ_one] at ht
  subst ht
  refine ⟨rfl, rfl, rfl, rfl, rfl, rfl, rfl, fun c' hc => conn?_setConn_other _ _ _ _ hc, closedRec x, by simp, by simp, by simp, by simp, by simp [hp]⟩

theorem authenticate_setConn (s : BState) (c : ConnId) (x : BConn) (u pw : Bytes) :
    authenticate (s.setConn c x) u pw = authenticate s u pw := rfl

/-- Failed authentication: exactly one CONNACK "not authorised", the connection is closed, and
    nothing more — no Setup, no session, no subscription, no will, no Terminate. -/
theorem auth_fail_stops (s t : BState) (c : ConnId) (x : BConn)
    (id : Bytes) (ka : UInt16) (u pw : Bytes) (clean : Bool) (will : Option Message) (v : UInt8)
    (h : s.conn? c = some x) (ha : x.alive = true) (hp : x.phase = .connecting) (hr : x.running = false)
    (hcl : s.closing = false) (hauth : authenticate s u pw = false)
    (ht : Succ (recv s c (.connect id ka u pw clean will v)) t) :
    t.bevents = s.bevents ∧ t.stored = s.stored ∧ t.temp = s.temp ∧ t.retained = s.retained ∧
    t.rmsgs = s.rmsgs ∧ t.activeClients = s.activeClients ∧ t.pendingAcks = s.pendingAcks ∧
    (∀ c', c' ≠ c → t.conn? c' = s.conn? c') ∧
    ∃ x', t.conn? c = some x' ∧ x'.alive = false ∧ x'.procOut = x.procOut ++ [.connack false 5] ∧
      x'.ackOut = x.ackOut ∧ x'.phase = .connecting ∧ x'.sref = x.sref ∧ x'.will = x.will := by
  obtain ⟨ph, al, xid, xw, xs, xp, xa, pt, st, dc, dh, rn, cs, stl, zb⟩ := x
  simp only at ha hp hr
  subst ha hp hr
  unfold recv at ht
  simp only [h, setConn_closing, hcl, authenticate_setConn, hauth] at ht
  simp only [Bool.not_false, Bool.not_true, if_true, if_false, Bool.false_eq_true] at ht
  have h' := conn?_setConn_same (s.setConn c ⟨.connecting, true, id, xw, xs, xp, xa, pt, st, dc, dh, false, cs, stl, zb⟩) c
    ⟨.connecting, true, id, xw, xs, xp ++ [.connack false 5], xa, pt, st, dc, dh, false, cs, stl, zb⟩
  have hk := kill_connecting _ c _ h' rfl rfl rfl
  rw [hk, succ_one] at ht
  subst ht
  refine ⟨rfl, rfl, rfl, rfl, rfl, rfl, rfl, ?_, _, conn?_setConn_same _ _ _, by simp, by simp, by simp, by simp, by simp, by simp⟩
  intro c' hc
  rw [conn?_setConn_other _ _ _ _ hc, conn?_setConn_other _ _ _ _ hc, conn?_setConn_other _ _ _ _ hc]

/-- While the backend is shutting down a CONNECT is not even answered. -/
theorem connect_while_closing (s : BState) (c : ConnId) (x : BConn)
    (id : Bytes) (ka : UInt16) (u pw : Bytes) (clean : Bool) (will : Option Message) (v : UInt8)
    (h : s.conn? c = some x) (ha : x.alive = true) (hp : x.phase = .connecting) (hcl : s.closing = true) :
    recv s c (.connect id ka u pw clean will v) = kill (s.setConn c { x with id := id }) c := by
  unfold recv
  simp [h, ha, hp, hcl]

/-- A second CONNECT closes the connection. -/
theorem second_connect_closes (s : BState) (c : ConnId) (x : BConn) (p : Packet)
    (h : s.conn? c = some x) (ha : x.alive = true) (hp : x.phase = .connected)
    (hc : isConnect p = true) : recv s c p = kill s c := by
  unfold recv
  simp only [h, ha, hp]
  cases p <;> simp_all [isConnect]

/-- A packet only a server may send (CONNACK, SUBACK, UNSUBACK, PINGRESP) closes the connection. -/
theorem server_packets_close (s : BState) (c : ConnId) (x : BConn) (p : Packet)
    (h : s.conn? c = some x) (ha : x.alive = true) (hp : x.phase = .connected)
    (hc : isServerOnly p = true) : recv s c p = kill s c := by
  unfold recv
  simp only [h, ha, hp]
  cases p <;> simp_all [isServerOnly]

/-- Every SUBSCRIBE is answered by a SUBACK with the same id and one return code per requested
    filter, in request order (the backend acknowledging synchronously). The SUBACK goes to the
    acknowledgement queue of this connection; nothing else is queued for it. -/
theorem suback_matches (s t : BState) (c : ConnId) (x : BConn) (b : BSess) (subs : List Subscription) (id : UInt16)
    (h : s.conn? c = some x) (ha : x.alive = true) (hp : x.phase = .connected) (hs : s.sessOf c = some b)
    (htok : x.subTok > 0) (hl : s.lateAck = false) (hn : s.neverAck = false)
    (ht : Succ (recv s c (.subscribe subs id)) t) :
    ∃ x', t.conn? c = some x' ∧ x'.ackOut = x.ackOut ++ [.suback (subs.map (·.qos)) id] ∧
      x'.procOut = x.procOut := by
  obtain ⟨ph, al, xid, xw, xs, xp, xa, pt, st, dc, dh, rn, cs, stl, zb⟩ := x
  simp only at ha hp htok
  subst ha hp
  unfold recv at ht
  simp only [h, Nat.ne_of_gt htok] at ht
  simp only [Bool.not_true, Bool.false_eq_true, if_false] at ht
  rw [sessOf_setConn_same s c _ ⟨.connected, true, xid, xw, xs, xp, xa, pt, st - 1, dc, dh, rn, cs, stl, zb⟩ h rfl, hs] at ht
  simp only [] at ht
  rw [ackVia_sync _ _ _ _ (by simpa using hl) (by simpa using hn)] at ht
  rw [updConn_of_some _ _ _ _ (by rw [setSessOf_conn?]; exact conn?_setConn_same _ _ _)] at ht
  simp only [pushAck, if_true] at ht
  split at ht
  · rename_i s4 hsr
    rw [succ_one] at ht; subst ht
    have f := subscribeRetained_frame _ _ _ _ (Or.inl hsr)
    exact ⟨_, (f.conn? c).trans (conn?_setConn_same _ _ _), rfl, rfl⟩
  · rename_i s4 hsr
    have f := subscribeRetained_frame _ _ _ _ (Or.inr hsr)
    obtain ⟨x', hx', _, h2, h3, _⟩ := kill_conn_after s4 t c _ ((f.conn? c).trans (conn?_setConn_same _ _ _)) ht
    exact ⟨x', hx', h3, h2⟩
  · exact absurd ht (not_succ_unsupported _ _)

/-- Every UNSUBSCRIBE is answered by an UNSUBACK with the same id. -/
theorem unsuback_matches (s t : BState) (c : ConnId) (x : BConn) (b : BSess) (topics : List Bytes) (id : UInt16)
    (h : s.conn? c = some x) (ha : x.alive = true) (hp : x.phase = .connected) (hs : s.sessOf c = some b)
    (htok : x.subTok > 0) (hl : s.lateAck = false) (hn : s.neverAck = false)
    (ht : Succ (recv s c (.unsubscribe topics id)) t) :
    ∃ x', t.conn? c = some x' ∧ x'.alive = true ∧ x'.ackOut = x.ackOut ++ [.unsuback id] ∧
      x'.procOut = x.procOut := by
  obtain ⟨ph, al, xid, xw, xs, xp, xa, pt, st, dc, dh, rn, cs, stl, zb⟩ := x
  simp only at ha hp htok
  subst ha hp
  unfold recv at ht
  simp only [h, Nat.ne_of_gt htok] at ht
  simp only [Bool.not_true, Bool.false_eq_true, if_false] at ht
  rw [sessOf_setConn_same s c _ ⟨.connected, true, xid, xw, xs, xp, xa, pt, st - 1, dc, dh, rn, cs, stl, zb⟩ h rfl, hs] at ht
  simp only [] at ht
  rw [ackVia_sync _ _ _ _ (by simpa using hl) (by simpa using hn)] at ht
  rw [updConn_of_some _ _ _ _ (by rw [setSessOf_conn?]; exact conn?_setConn_same _ _ _)] at ht
  simp only [pushAck, if_true] at ht
  rw [succ_one] at ht; subst ht
  exact ⟨_, conn?_setConn_same _ _ _, rfl, rfl, rfl⟩

/-- Every PINGREQ is answered by a PINGRESP, written by the processor itself. -/
theorem pingresp_matches (s t : BState) (c : ConnId) (x : BConn)
    (h : s.conn? c = some x) (ha : x.alive = true) (hp : x.phase = .connected)
    (ht : Succ (recv s c .pingreq) t) :
    ∃ x', t.conn? c = some x' ∧ x'.alive = true ∧ x'.procOut = x.procOut ++ [.pingresp] ∧
      x'.ackOut = x.ackOut ∧ t.bevents = s.bevents := by
  unfold recv at ht
  simp only [h, ha, hp] at ht
  simp only [Bool.not_true, Bool.false_eq_true, if_false] at ht
  rw [updConn_of_some _ _ _ _ h, succ_one] at ht
  subst ht
  exact ⟨_, conn?_setConn_same _ _ _, ha, rfl, rfl, rfl⟩

/-- With a backend that acknowledges late the SUBACK waits among the pending acknowledgements;
    `ackRelease` then queues it (see `ackRelease_queues`). -/
theorem suback_late (s t : BState) (c : ConnId) (x : BConn) (b : BSess) (subs : List Subscription) (id : UInt16)
    (h : s.conn? c = some x) (ha : x.alive = true) (hp : x.phase = .connected) (hs : s.sessOf c = some b)
    (htok : x.subTok > 0) (hl : s.lateAck = true) (hn : s.neverAck = false)
    (ht : Succ (recv s c (.subscribe subs id)) t) :
    t.pendingAcks = s.pendingAcks ++ [⟨c, .suback (subs.map (·.qos)) id⟩] := by
  obtain ⟨ph, al, xid, xw, xs, xp, xa, pt, st, dc, dh, rn, cs, stl, zb⟩ := x
  simp only at ha hp htok
  subst ha hp
  unfold recv at ht
  simp only [h, Nat.ne_of_gt htok] at ht
  simp only [Bool.not_true, Bool.false_eq_true, if_false] at ht
  rw [sessOf_setConn_same s c _ ⟨.connected, true, xid, xw, xs, xp, xa, pt, st - 1, dc, dh, rn, cs, stl, zb⟩ h rfl, hs] at ht
  simp only [] at ht
  rw [ackVia_late _ _ _ _ (by simpa using hl) (by simpa using hn)] at ht
  split at ht
  · rename_i s4 hsr
    rw [succ_one] at ht; subst ht
    have f := subscribeRetained_frame _ _ _ _ (Or.inl hsr)
    rw [f.pendingAcks]; simp
  · rename_i s4 hsr
    have f := subscribeRetained_frame _ _ _ _ (Or.inr hsr)
    have hx4 : s4.conn? c = some _ := (f.conn? c).trans
      (show BState.conn? { ((s.setConn c _).setSessOf c _) with pendingAcks := _ } c = _ from
        (setSessOf_conn? _ _ _ _).trans (conn?_setConn_same _ _ _))
    have k := kill_frame s4 t c _ hx4 rfl ht
    rw [k.pendingAcks, f.pendingAcks]; simp
  · exact absurd ht (not_succ_unsupported _ _)

/-! ### at most one CONNACK -/

/-- number of CONNACKs connection `c` still has to write -/
def connacksOf (s : BState) (c : ConnId) : Nat :=
  match outsOf s c with
  | some (lp, la) => lp.countP isConnack + la.countP isConnack
  | none => 0

theorem connacksOf_push (s t : BState) (c : ConnId) (lp la : List Packet) (h : OutsPush s t c lp la) (c' : ConnId) :
    connacksOf t c' = connacksOf s c' + (if c' = c then lp.countP isConnack + la.countP isConnack else 0) := by
  by_cases hc : c' = c
  · subst hc
    obtain ⟨x, x', e1, e2, e3, e4, _⟩ := h.same
    simp only [connacksOf, outsOf, e1, e2, Option.map_some, e3, e4, List.countP_append, if_true]
    omega
  · simp only [connacksOf, (h.other c' hc).1, hc, if_false, Nat.add_zero]

theorem respOf_not_connack (p q : Packet) (hq : q ∈ respOf p) : isConnack q = false := by
  cases p with
  | publish m d id =>
    by_cases h0 : m.qos = 0
    · simp [respOf, h0] at hq
    · by_cases h1 : m.qos = 1
      · simp [respOf, h1] at hq; subst hq; rfl
      · simp [respOf, h0, h1] at hq; subst hq; rfl
  | subscribe => simp [respOf] at hq; subst hq; rfl
  | unsubscribe => simp [respOf] at hq; subst hq; rfl
  | pubrel => simp [respOf] at hq; subst hq; rfl
  | pubrec => simp [respOf] at hq; subst hq; rfl
  | pingreq => simp [respOf] at hq; subst hq; rfl
  | connect => simp [respOf] at hq
  | connack => simp [respOf] at hq
  | puback => simp [respOf] at hq
  | pubcomp => simp [respOf] at hq
  | suback => simp [respOf] at hq
  | unsuback => simp [respOf] at hq
  | pingresp => simp [respOf] at hq
  | disconnect => simp [respOf] at hq

/-- Once a connection is past its CONNECT (accepted, cleanly disconnected or closed) no packet it
    sends makes the broker queue a CONNACK — for it or for anybody else. -/
theorem no_connack_after_connect (s t : BState) (c : ConnId) (x : BConn) (p : Packet)
    (h : s.conn? c = some x) (hp : x.phase ≠ .connecting) (ht : Succ (recv s c p) t) (c' : ConnId) :
    connacksOf t c' = connacksOf s c' := by
  cases ha : x.alive with
  | false =>
    have : recv s c p = .one s := by simp [recv, h, ha]
    rw [this, succ_one] at ht; subst ht; rfl
  | true =>
    cases hph : x.phase with
    | connecting => exact absurd hph hp
    | disconnected =>
      have : recv s c p = .one s := by simp [recv, h, ha, hph]
      rw [this, succ_one] at ht; subst ht; rfl
    | connected =>
      obtain ⟨lp, la, hpush, hresp⟩ := recv_connected_outs s t c x p h ha hph ht
      rw [connacksOf_push s t c lp la hpush c']
      have : lp.countP isConnack + la.countP isConnack = 0 := by
        rw [← List.countP_append]
        rcases hresp with h0 | ⟨q, hq, h1⟩
        · rw [h0]; rfl
        · rw [h1]
          simp [respOf_not_connack p q hq]
      simp [this]

/-- A packet on a connection that is still waiting for its CONNECT makes the broker queue at most
    one CONNACK, for that connection, and none for anybody else. (`NotOwner`: the connection does not
    own a session yet; `OutClean`: no stored outgoing packet store contains a CONNACK — both hold for
    a connection just handed to the broker, see the examples; `OutClean` is kept by `kill`,
    `BrokerB2.kill_outClean`.) With `no_connack_after_connect`: never more than one CONNACK. -/
theorem at_most_one_connack (s t : BState) (c : ConnId) (x : BConn) (p : Packet)
    (h : s.conn? c = some x) (ha : x.alive = true) (hp : x.phase = .connecting) (hown : NotOwner s c)
    (hclean : OutClean s) (ht : Succ (recv s c p) t) (c' : ConnId) :
    connacksOf t c' ≤ connacksOf s c' + (if c' = c then 1 else 0) := by
  obtain ⟨lp, hpush, hlp⟩ := recv_connecting_outs s t c x p h ha hp hown hclean ht
  rw [connacksOf_push s t c lp [] hpush c']
  by_cases hc : c' = c
  · simp only [hc, if_true, List.countP_nil, Nat.add_zero]
    have : lp.countP isConnack ≤ 1 := by
      rcases hlp with rfl | rfl | ⟨sp, extra, rfl, hex⟩
      · simp
      · simp [isConnack]
      · have : extra.countP isConnack = 0 := by
          rw [List.countP_eq_zero]
          intro q hq; simp [hex q hq]
        simp [List.countP_cons, isConnack, this]
    omega
  · simp [hc]

/-- On an accepted connection a packet is answered by at most one packet, queued for the same
    connection, and it is the response MQTT prescribes for that packet (`respOf`): SUBACK with the id
    and one code per filter, UNSUBACK / PUBACK / PUBREC / PUBREL / PUBCOMP with the id, PINGRESP. -/
theorem response_matches (s t : BState) (c : ConnId) (x : BConn) (p : Packet)
    (h : s.conn? c = some x) (ha : x.alive = true) (hp : x.phase = .connected) (ht : Succ (recv s c p) t) :
    ∃ lp la, OutsPush s t c lp la ∧ (lp ++ la = [] ∨ ∃ q, q ∈ respOf p ∧ lp ++ la = [q]) :=
  recv_connected_outs s t c x p h ha hp ht

/-! ### non-vacuity: concrete states built by running the model -/

/-- first successor of a stimulus (the runs below are deterministic) -/
def run1 (s : BState) (st : Stim) : BState :=
  match stim s st with
  | .ok (t :: _) => t
  | _ => s

/-- connection 0 was handed to the broker (phase `connecting`) -/
def sConn : BState := run1 {} (.conn 0)
/-- the same on a broker that knows the credentials user "u" / password "p" -/
def sAuth : BState := run1 { cfg := { creds := some [([117], [112])] } } (.conn 0)
/-- connection 0 after an accepted CONNECT with a clean session -/
def sUp : BState := run1 sConn (.send 0 (.connect [97] 0 [] [] true none 4))

example : ∃ x, sConn.conn? 0 = some x ∧ x.alive = true ∧ x.phase = .connecting ∧ x.running = false ∧
    isConnect .pingreq = false := ⟨_, rfl, rfl, rfl, rfl, rfl⟩
example : stim sConn (.send 0 .pingreq) = kill sConn 0 := nothing_before_connect sConn 0 _ .pingreq rfl rfl rfl rfl

/-- wrong password: hypotheses of `auth_fail_stops`, and what it yields here -/
example : ∃ x, sAuth.conn? 0 = some x ∧ x.alive = true ∧ x.phase = .connecting ∧ x.running = false ∧
    sAuth.closing = false ∧ authenticate sAuth [117] [120] = false := ⟨_, rfl, rfl, rfl, rfl, rfl, by decide⟩
example (t : BState) (ht : Succ (recv sAuth 0 (.connect [97] 0 [117] [120] true none 4)) t) :
    t.bevents = [] ∧ t.stored = [] ∧ t.temp = [] ∧ (t.conn? 0).map (·.procOut) = some [.connack false 5] ∧
    (t.conn? 0).map (·.alive) = some false := by
  obtain ⟨e1, e2, e3, _, _, _, _, _, x', hx', a1, a2, _⟩ :=
    auth_fail_stops sAuth t 0 _ [97] 0 [117] [120] true none 4 rfl rfl rfl rfl rfl (by decide) ht
  exact ⟨e1, e2, e3, by rw [hx']; simp [a2], by rw [hx']; simp [a1]⟩

/-- `sUp`: hypotheses of `suback_matches` / `unsuback_matches` / `pingresp_matches` / `response_matches` -/
example : ∃ x b, sUp.conn? 0 = some x ∧ x.alive = true ∧ x.phase = .connected ∧ sUp.sessOf 0 = some b ∧
    x.subTok > 0 ∧ sUp.lateAck = false ∧ sUp.neverAck = false := ⟨_, _, rfl, rfl, rfl, rfl, by decide, rfl, rfl⟩
/-- two filters, id 7: the SUBACK has id 7 and the two granted QoS values in request order -/
example (t : BState) (ht : Succ (recv sUp 0 (.subscribe [⟨[97], 1⟩, ⟨[98], 0⟩] 7)) t) :
    (t.conn? 0).map (·.ackOut) = some [.suback [1, 0] 7] := by
  obtain ⟨x', hx', a1, _⟩ := suback_matches sUp t 0 _ _ [⟨[97], 1⟩, ⟨[98], 0⟩] 7 rfl rfl rfl rfl (by decide) rfl rfl ht
  rw [hx']; simp [a1]; rfl

/-- `sConn` satisfies the hypotheses of `at_most_one_connack` -/
example : NotOwner sConn 0 ∧ OutClean sConn := by
  refine ⟨⟨?_, ?_⟩, ?_⟩
  · intro e he; have : sConn.stored = [] := rfl; rw [this] at he; cases he
  · intro e he; have : sConn.temp = [] := rfl; rw [this] at he; cases he
  · intro cid b hb; have : sConn.stored = [] := rfl; rw [this] at hb; cases hb

/-! ### global forms: every history, every reachable state

  `BrokerB5.RunC cfg s n`: `s` is reached from the empty broker by steps of the model in an
  environment that never reuses a connection identifier (`BrokerB4.StepF`, the assumption of C14
  `terminate_once`: identifiers stand for `*Client` pointers), and `n c` is the ghost counter
  "number of CONNACK packets ever appended to `procOut` / `ackOut` of connection `c`": every step adds
  `BrokerB5.connacksPushed s s' c`, the CONNACKs behind the old contents of the two queues.
  `connack_counter_exact` / `observation_only_removes` show that this is an honest count: a stimulus
  only appends to the queues (and the counter grows by the CONNACKs among what was appended), an
  observation only removes.  (With identifiers reused the statements fail for an uninteresting
  reason: `conn c` on an old identifier starts a new connection under the old name, which
  legitimately gets its own CONNACK and may find deferred acknowledgements of its predecessor.) -/

/-- the runs of `RunC` are exactly the runs of `BrokerB4.RunG` (C14), hence reachable states -/
theorem runC_iff_runG {cfg : Cfg} {s : BState} :
    (∃ n, BrokerB5.RunC cfg s n) ↔ ∃ log, BrokerB4.RunG cfg s log :=
  ⟨fun ⟨_, h⟩ => BrokerB5.runG_of_runC h, fun ⟨_, h⟩ => BrokerB5.runC_of_runG h⟩

theorem runC_reachable {cfg : Cfg} {s : BState} {n : ConnId → Nat} (h : BrokerB5.RunC cfg s n) :
    Reachable cfg s := h.reachable

/-- Over every history: at most one CONNACK is ever appended to the output queues of a connection. -/
theorem at_most_one_connack_run {cfg : Cfg} {s : BState} {n : ConnId → Nat} (h : BrokerB5.RunC cfg s n)
    (c : ConnId) : n c ≤ 1 := BrokerB5.connacks_le_one h c

/-- the counter is exact: a stimulus only appends to the two queues of a connection, and the counter
    grows by the number of CONNACKs among the appended packets … -/
theorem connack_counter_exact {cfg : Cfg} {s s' : BState} {n : ConnId → Nat} (h : BrokerB5.RunC cfg s n) (st : Stim)
    (hfresh : ∀ c, st = .conn c → s.conn? c = none) (ss : List BState) (hst : stim s st = .ok ss) (hm : s' ∈ ss)
    (c : ConnId) (x : BConn) (hx : s.conn? c = some x) :
    ∃ x' lp la, s'.conn? c = some x' ∧ x'.procOut = x.procOut ++ lp ∧ x'.ackOut = x.ackOut ++ la ∧
      BrokerB5.connacksPushed s s' c = (lp ++ la).countP isConnack :=
  BrokerB5.stim_only_appends h st hfresh ss hst hm c x hx

/-- … and an observation (a packet written, a failed write, `closed`, a backend call seen) only removes -/
theorem observation_only_removes {s s' : BState} (o : Obs) (hm : s' ∈ observe s o) (c : ConnId) (x : BConn)
    (hx : s.conn? c = some x) :
    ∃ x' k j, s'.conn? c = some x' ∧ x'.procOut = x.procOut.drop k ∧ x'.ackOut = x.ackOut.drop j ∧
      BrokerB5.connacksPushed s s' c = 0 :=
  BrokerB5.obs_only_removes o hm c x hx

/-- In every state of every history a connection that still waits for its CONNECT (phase `connecting`)
    has nothing in its acknowledgement queue, no deferred acknowledgement is parked for it, and its
    processor output is empty — or, once it is closed, the one CONNACK(5) of a refused authentication;
    while it is alive no CONNACK has ever been queued for it.  No reply of any kind precedes an
    accepted CONNECT. -/
theorem nothing_sent_before_accept_run {cfg : Cfg} {s : BState} {n : ConnId → Nat} (h : BrokerB5.RunC cfg s n)
    (c : ConnId) (x : BConn) (hx : s.conn? c = some x) (hp : x.phase = .connecting) :
    x.ackOut = [] ∧ (x.procOut = [] ∨ (x.alive = false ∧ x.procOut = [.connack false 5])) ∧
    (∀ a ∈ s.pendingAcks, a.conn ≠ c) ∧ (x.alive = true → x.procOut = [] ∧ n c = 0) := by
  obtain ⟨hci, hgi⟩ := BrokerB5.runC_inv h
  obtain ⟨a1, a2⟩ := hci.k1 c x hx hp
  refine ⟨a1, a2, ?_, ?_⟩
  · intro a ha heq
    obtain ⟨_, y, hy, hpy⟩ := hci.k2 a ha
    rw [heq, hx] at hy; cases hy; exact hpy hp
  · intro hal
    have := hgi c
    rw [hx] at this
    refine ⟨?_, this.2 hp hal⟩
    rcases a2 with a2 | ⟨a2, _⟩
    · exact a2
    · rw [hal] at a2; cases a2

/-- the two side conditions of the per-step theorem `at_most_one_connack` hold in every state of every
    history: no stored outgoing packet store contains a CONNACK (`OutClean`), and no deferred
    acknowledgement is a CONNACK or belongs to a connection that has not been accepted -/
theorem outClean_run {cfg : Cfg} {s : BState} {n : ConnId → Nat} (h : BrokerB5.RunC cfg s n) : OutClean s :=
  (BrokerB5.runC_inv h).1.k3

theorem pending_acks_run {cfg : Cfg} {s : BState} {n : ConnId → Nat} (h : BrokerB5.RunC cfg s n)
    (a : PendingAck) (ha : a ∈ s.pendingAcks) :
    isConnack a.pkt = false ∧ ∃ x, s.conn? a.conn = some x ∧ x.phase ≠ .connecting :=
  (BrokerB5.runC_inv h).1.k2 a ha

/-! non-vacuity of the global forms: concrete histories -/

theorem stepF_of_stim (s : BState) (st : Stim) (s' : BState) (hfresh : ∀ c, st = .conn c → s.conn? c = none)
    (h : stim s st = .ok [s']) : BrokerB4.StepF s s' :=
  BrokerB4.StepF.stim st hfresh [s'] h (List.mem_singleton.2 rfl)

/-- an accepted CONNECT: the counter of connection 0 is 1, the CONNACK is in the processor's output -/
example : ∃ n, BrokerB5.RunC {} sUp n ∧ n 0 = 1 ∧ n 1 = 0 ∧
    (sUp.conn? 0).map (·.procOut) = some [.connack false 0] := by
  have r0 : BrokerB5.RunC {} ({ cfg := {} } : BState) _ := .init
  have r1 := BrokerB5.RunC.step r0 (stepF_of_stim _ (.conn 0) sConn (fun _ _ => rfl) rfl)
  have r2 := BrokerB5.RunC.step r1 (stepF_of_stim sConn (.send 0 (.connect [97] 0 [] [] true none 4)) sUp
    (fun _ h => by cases h) rfl)
  exact ⟨_, r2, by decide, by decide, rfl⟩

/-- a refused CONNECT (wrong password): counter 1, the connection is closed in phase `connecting` with
    exactly the CONNACK(5) queued — the second alternative of `nothing_sent_before_accept_run` -/
example : ∃ s n, BrokerB5.RunC { creds := some [([117], [112])] } s n ∧ n 0 = 1 ∧
    ∃ x, s.conn? 0 = some x ∧ x.phase = .connecting ∧ x.alive = false ∧ x.procOut = [.connack false 5] ∧ x.ackOut = [] := by
  have r0 : BrokerB5.RunC { creds := some [([117], [112])] } ({ cfg := { creds := some [([117], [112])] } } : BState) _ := .init
  have r1 := BrokerB5.RunC.step r0 (stepF_of_stim _ (.conn 0) sAuth (fun _ _ => rfl) rfl)
  have r2 := BrokerB5.RunC.step r1 (stepF_of_stim sAuth (.send 0 (.connect [97] 0 [117] [120] true none 4)) _
    (fun _ h => by cases h) rfl)
  exact ⟨_, _, r2, by decide, _, rfl, rfl, rfl, rfl, rfl⟩

/-- a connection waiting for its CONNECT, alive: the first alternative -/
example : ∃ n, BrokerB5.RunC {} sConn n ∧ ∃ x, sConn.conn? 0 = some x ∧ x.phase = .connecting ∧ x.alive = true :=
  ⟨_, BrokerB5.RunC.step .init (stepF_of_stim _ (.conn 0) sConn (fun _ _ => rfl) rfl), _, rfl, rfl, rfl⟩

/-- why the global forms assume that connection identifiers are not reused: with reuse, a reachable
    state in which a connection waiting for its CONNECT has a PUBACK in its acknowledgement queue —
    connection 0 is accepted, publishes with QoS 1 while the backend acknowledges late, then the
    identifier 0 is handed to the broker again (a new connection under the old name), and the
    deferred acknowledgement of its predecessor is released -/
example : ∃ s x, Reachable {} s ∧ s.conn? 0 = some x ∧ x.phase = .connecting ∧ x.alive = true ∧
    x.ackOut = [.puback 7] := by
  have r0 : Reachable {} ({ cfg := {} } : BState) := .init
  have r1 := Reachable.step r0 (Step.stim (.conn 0) _ rfl (List.mem_singleton.2 rfl))
  have r2 := Reachable.step r1 (Step.stim (.send 0 (.connect [97] 0 [] [] true none 4)) _ rfl (List.mem_singleton.2 rfl))
  have r3 := Reachable.step r2 (Step.ackMode true false)
  have r4 := Reachable.step r3 (Step.stim (.send 0 (.publish ⟨[116], [1], 1, false⟩ false 7)) _ rfl (List.mem_singleton.2 rfl))
  have r5 := Reachable.step r4 (Step.stim (.conn 0) _ rfl (List.mem_singleton.2 rfl))
  have r6 := Reachable.step r5 (Step.stim .ackRelease _ rfl (List.mem_singleton.2 rfl))
  exact ⟨_, _, r6, rfl, rfl, rfl, rfl⟩

end C20
