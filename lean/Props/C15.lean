import Model.Broker
import Proofs.BrokerOut
import Proofs.BrokerOutKeep
import Props.C08
import Props.C18
import Proofs.BrokerFan
/-
  Props/C15.lean — property C15, broker clauses: order.
  * QoS>0: the stored queue of a session is a FIFO — a publish appends at the tail, the dequeuer (alive
    or dying) only ever takes the head; one publish is one atomic fan-out, so two publishes are queued
    in publish order in every session.
  * QoS 0 / retained: the temporary queue is ordered by groups; a publish uses a fresh, strictly larger
    group number and the dequeuer only takes a member of the first group — only the retained batch found
    by ONE subscription filter (one group) is unordered.
  * resume: the resend list is the outgoing store in store order; a delivery appends to the store,
    deletions keep the relative order, so the retransmitted PUBLISH packets come in the order of their
    first transmission (a PUBREL is re-saved on PUBREC and therefore moves behind: PUBRELs come in the
    order the PUBRECs arrived, MQTT-4.6.0-1 and MQTT-4.6.0-3).
-/
namespace C15
open BState BrokerB3

/-! ### the stored queue is a FIFO -/

/-- a publish appends (the copy capped by the session's grant, `applyQOS`) at the tail of the queue
    of the message's class — chosen by the published QoS — and touches nothing else -/
theorem enqueue_appends {cfg : Cfg} {b b' : BSess} {m : Message} {g : Nat}
    (h : enqueue cfg b m g = .ok b') :
    (if m.qos = 0 then b'.tempQ = b.tempQ ++ [(g, applyQOS b m)] ∧ b'.storedQ = b.storedQ
     else b'.storedQ = b.storedQ ++ [applyQOS b m] ∧ b'.tempQ = b.tempQ) ∧
    b'.subs = b.subs ∧ b'.sess = b.sess ∧ b'.active = b.active := by
  unfold enqueue at h
  by_cases hq : m.qos = 0
  · rw [if_pos hq] at h
    rw [if_pos hq]
    split at h
    · cases h; simp
    · cases h
  · rw [if_neg hq] at h
    rw [if_neg hq]
    split at h
    · cases h; simp
    · cases h

/-- The dequeuer takes only the head of the stored queue (which becomes the tail) or a member of the
    FIRST group of the temporary queue; the other queue is untouched. -/
theorem stored_queue_fifo {s : BState} {c : ConnId} {x : BConn} {b : BSess} {m : Message}
    {id : UInt16} {s' : BState} (hx : s.conn? c = some x) (hb : s.sessOf c = some b)
    (h : acceptDelivery s c x b m id = some s') :
    ∃ b', s'.sessOf c = some b' ∧
      ((∃ hd, b.storedQ = hd :: b'.storedQ ∧ applyQOS b hd = m ∧ b'.tempQ = b.tempQ) ∨
       (b'.storedQ = b.storedQ ∧ ∃ g m0 tl e, b.tempQ = (g, m0) :: tl ∧ e ∈ b.tempQ ∧ e.1 = g ∧
          applyQOS b e.2 = m ∧ b'.tempQ = b.tempQ.erase e)) := by
  obtain ⟨bq, b', hp, hs, e1, e2⟩ := C08.qos2_no_second_fresh_offer hx hb h
  refine ⟨b', hs, ?_⟩
  rw [e1, e2]
  exact hp.queues

/-- the same for the dying dequeuer inside `kill` -/
theorem lastDequeue_fifo {s : BState} {c : ConnId} {x : BConn} {s1 : BState}
    (h : s1 ∈ lastDequeue s c x) :
    s1 = s ∨ ∃ b b1 m, s.sessOf c = some b ∧ s1 = s.setSessOf c b1 ∧ b1.subs = b.subs ∧
      ((∃ hd, b.storedQ = hd :: b1.storedQ ∧ applyQOS b hd = m ∧ b1.tempQ = b.tempQ) ∨
       (b1.storedQ = b.storedQ ∧ ∃ g m0 tl e, b.tempQ = (g, m0) :: tl ∧ e ∈ b.tempQ ∧ e.1 = g ∧
          applyQOS b e.2 = m ∧ b1.tempQ = b.tempQ.erase e)) := by
  rcases lastDequeue_cases h with rfl | ⟨_, _, b, out, bq, hb, hp, rfl⟩
  · exact Or.inl rfl
  · obtain ⟨b1, e, _, q1, q2, hsub, _⟩ := lastTake_take1 s c hp
    refine Or.inr ⟨b, b1, out, hb, e, hsub, ?_⟩
    rw [q1, q2]
    exact hp.queues

theorem backendPublish_frame {s : BState} {c : ConnId} {m : Message} {s' : BState}
    (h : backendPublish s c m = .ok s') :
    s'.cfg = s.cfg ∧ s'.nextGroup = s.nextGroup + 1 ∧ s'.conns = s.conns := by
  obtain ⟨temp', stored', rfl, _, _, _⟩ := backendPublish_cases (full := false) h
  exact ⟨pubPre_cfg s c m, pubPre_nextGroup s c m, pubPre_conns s c m⟩

/-- Two publishes (by anybody — in particular by one publisher — one after the other; each is one
    atomic fan-out): a stored session that matches both with QoS>0 and has room gets them at the tail
    of its stored queue in publish order. -/
theorem publish_order {s s1 s2 : BState} {c1 c2 : ConnId} {m1 m2 : Message} {cid : ClientId} {b : BSess}
    (h1 : backendPublish s c1 m1 = .ok s1) (h2 : backendPublish s1 c2 m2 = .ok s2)
    (hb : Assoc.get s.stored cid = some b)
    (hs1 : (subQos b m1.topic).isSome = true) (hs2 : (subQos b m2.topic).isSome = true)
    (hq1 : m1.qos ≠ 0) (hq2 : m2.qos ≠ 0) (hroom : b.storedQ.length + 1 < s.cfg.queue) :
    ∃ b2, Assoc.get s2.stored cid = some b2 ∧
      b2.storedQ = b.storedQ ++ [applyQOS b { m1 with retain := false }, applyQOS b { m2 with retain := false }] := by
  obtain ⟨b1, hb1, q1, _, hsub⟩ := C08.offline_queued h1 hb hs1 hq1 (by omega)
  obtain ⟨hcfg, _, _⟩ := backendPublish_frame h1
  obtain ⟨b2, hb2, q2, _, _⟩ := C08.offline_queued h2 hb1 (by rw [subQos, hsub]; exact hs2) hq2
    (by rw [q1, hcfg]; simp; omega)
  exact ⟨b2, hb2, by rw [q2, q1, BrokerFan.applyQOS_congr hsub]; simp⟩

/-! ### the temporary queue: ordered by groups -/

/-- a completed publish puts a QoS 0 message at the tail of the temporary queue of a matching
    session (temporary or stored) under the publish's own group number `s.nextGroup`; the next
    publish / retained batch gets a strictly larger one (`backendPublish_frame`) -/
theorem publish_temp_group {cfg : Cfg} {b : BSess} {m : Message} {g : Nat}
    (hsub : (subQos b m.topic).isSome = true) (hq : m.qos = 0) (hroom : b.tempQ.length < cfg.queue) :
    (fanOne cfg m g b).tempQ = b.tempQ ++ [(g, applyQOS b m)] ∧ (fanOne cfg m g b).storedQ = b.storedQ := by
  simp [fanOne, hsub, enqueue, hq, hroom]

/-- two consecutive QoS 0 publishes end up in different, increasing groups, in publish order -/
theorem publish_order_qos0 {s s1 s2 : BState} {c1 c2 : ConnId} {m1 m2 : Message} {cid : ClientId}
    {b : BSess} (h1 : backendPublish s c1 m1 = .ok s1) (h2 : backendPublish s1 c2 m2 = .ok s2)
    (hb : Assoc.get s.stored cid = some b)
    (hs1 : (subQos b m1.topic).isSome = true) (hs2 : (subQos b m2.topic).isSome = true)
    (hq1 : m1.qos = 0) (hq2 : m2.qos = 0) (hroom : b.tempQ.length + 1 < s.cfg.queue) :
    ∃ b2, Assoc.get s2.stored cid = some b2 ∧
      b2.tempQ = b.tempQ ++ [(s.nextGroup, applyQOS b { m1 with retain := false }),
                              (s.nextGroup + 1, applyQOS b { m2 with retain := false })] := by
  obtain ⟨hcfg, hng, _⟩ := backendPublish_frame h1
  have e1 := C08.backendPublish_stored h1 cid
  rw [hb] at e1
  obtain ⟨t1, _⟩ := publish_temp_group (cfg := s.cfg) (b := b) (m := { m1 with retain := false })
    (g := s.nextGroup) hs1 hq1 (by omega)
  have hsub1 : (fanOne s.cfg { m1 with retain := false } s.nextGroup b).subs = b.subs := by
    simp [fanOne, hs1, enqueue, hq1, show b.tempQ.length < s.cfg.queue by omega]
  have e2 := C08.backendPublish_stored h2 cid
  rw [e1] at e2
  obtain ⟨t2, _⟩ := publish_temp_group (cfg := s1.cfg)
    (b := fanOne s.cfg { m1 with retain := false } s.nextGroup b) (m := { m2 with retain := false })
    (g := s1.nextGroup) (by rw [subQos, hsub1]; exact hs2) hq2 (by rw [t1, hcfg]; simp; omega)
  refine ⟨_, e2, ?_⟩
  rw [t2, t1, hng, BrokerFan.applyQOS_congr hsub1]
  simp

/-- A delivery that leaves the stored queue alone took a member of the FIRST group of the temporary
    queue (an entry whose group is the group of the queue's head): entries of later groups wait until
    the earlier groups are drained.  Only the members of one group — the retained messages found by one
    subscription filter — may overtake each other. -/
theorem temp_queue_group_order {s : BState} {c : ConnId} {x : BConn} {b : BSess} {m : Message}
    {id : UInt16} {s' : BState} {b' : BSess} (hx : s.conn? c = some x) (hb : s.sessOf c = some b)
    (h : acceptDelivery s c x b m id = some s') (hb' : s'.sessOf c = some b')
    (hst : b'.storedQ = b.storedQ) :
    ∃ g m0 tl e, b.tempQ = (g, m0) :: tl ∧ e ∈ b.tempQ ∧ e.1 = g ∧ applyQOS b e.2 = m ∧
      b'.tempQ = b.tempQ.erase e := by
  obtain ⟨b2, hb2, hq⟩ := stored_queue_fifo hx hb h
  rw [hb'] at hb2
  cases hb2
  rcases hq with ⟨hd, e, _⟩ | ⟨_, g, m0, tl, e, h1, h2, h3, h4, h5⟩
  · rw [hst] at e
    have := congrArg List.length e
    simp at this
  · exact ⟨g, m0, tl, e, h1, h2, h3, h4, h5⟩

/-! ### resume: original order -/

/-- deleting an id keeps the relative order of the remaining entries -/
theorem erase_sublist (l : List (UInt16 × Packet)) (id : UInt16) : (PacketStore.erase l id).Sublist l :=
  List.filter_sublist

/-- The packets written on resume are the outgoing store in store order (C08 `resend_on_resume`),
    and the store order is the order of (re)saving (C18 `save_appends`): a delivery appends its PUBLISH
    as the newest entry (C08 `saved_before_sent`), an acknowledgement deletes (`erase_sublist`), PUBREC
    re-saves as PUBREL at the end.  Hence: the retransmitted PUBLISH packets come in the order of
    their first transmission. -/
theorem resend_in_original_order (s : BState) (c : ConnId) (x : BConn) (id : ClientId)
    (will : Option Message) (b : BSess) :
    (∃ x', (resumeFinal s c x id will b).conn? c = some x' ∧
      x'.procOut = x.procOut ++ [.connack true 0] ++ b.sess.outgoing.all.map C08.markDup) ∧
    (∀ (st : PacketStore) (p : Packet) (k : UInt16), p.getID = some k →
      (st.save p).all = (st.delete k).all ++ [p]) ∧
    (∀ (st : PacketStore) (k : UInt16), (st.delete k).entries.Sublist st.entries) := by
  refine ⟨?_, fun st p k h => C18.save_appends st p k h, fun st k => erase_sublist _ _⟩
  obtain ⟨x', _, h1, h2, _⟩ := C08.resend_on_resume s c x id will b
  refine ⟨x', h1, ?_⟩
  rw [h2]
  simp [C08.resendList, PacketStore.all, List.map_map]

/-- a delivery appends: every older entry keeps its place relative to the others, the new PUBLISH is
    last — so position in the store = order of first transmission -/
theorem delivery_appends {s : BState} {c : ConnId} {x : BConn} {b : BSess} {m : Message}
    {id : UInt16} {s' : BState} (hx : s.conn? c = some x) (hb : s.sessOf c = some b)
    (h : acceptDelivery s c x b m id = some s') (hq : m.qos ≠ 0) :
    ∃ b' old, s'.sessOf c = some b' ∧ old.Sublist b.sess.outgoing.entries ∧
      b'.sess.outgoing.entries = old ++ [(id, .publish m false id)] := by
  obtain ⟨_, b', hb', _, he⟩ := C08.saved_before_sent hx hb h hq
  exact ⟨b', _, hb', erase_sublist _ _, he⟩

/-! ### non-vacuity -/

/-- a session with two queued QoS 1 messages and two temporary groups -/
def exSess : BSess :=
  { storedQ := [⟨[116], [1], 1, false⟩, ⟨[116], [2], 1, false⟩],
    tempQ := [(0, ⟨[116], [3], 0, false⟩), (1, ⟨[116], [4], 0, false⟩)], active := some 0 }

def exState : BState :=
  { conns := [(0, { phase := .connected, sref := .stored [97], running := true, deqChan := 9, deqHand := true })],
    stored := [([97], exSess)] }

/-- the head of the stored queue can be delivered (id 1), the second message cannot (yet) -/
example : ∃ x b, exState.conn? 0 = some x ∧ exState.sessOf 0 = some b ∧
    (acceptDelivery exState 0 x b ⟨[116], [1], 1, false⟩ 1).isSome = true ∧
    (acceptDelivery exState 0 x b ⟨[116], [2], 1, false⟩ 1).isSome = false :=
  ⟨_, _, rfl, rfl, rfl, rfl⟩

/-- the member of the first temporary group can be delivered, the one of the second group cannot -/
example : ∃ x b, exState.conn? 0 = some x ∧ exState.sessOf 0 = some b ∧
    (acceptDelivery exState 0 x b ⟨[116], [3], 0, false⟩ 0).isSome = true ∧
    (acceptDelivery exState 0 x b ⟨[116], [4], 0, false⟩ 0).isSome = false :=
  ⟨_, _, rfl, rfl, rfl, rfl⟩

end C15
