import Model.Broker
import Proofs.BrokerLife
import Proofs.BrokerInv
import Proofs.BrokerIso
import Proofs.BrokerOld
/-
  Props/C13.lean — property C13: at most one live connection per client id; take-over keeps the session.

  On the broker model `Model/Broker.lean` (with `backendTerminate` removing the active-client entry only
  if it still names the terminating connection — the repaired `MemoryBackend.Terminate`):
  * `unique_active`         in every reachable state two live accepted connections with the same non-empty
                            client id are the same connection (no hypothesis: stalled connections, failed
                            take-overs and reused connection ids included);
  * `takeover_order`        when the newcomer survives `Setup`, the old holder is dead and the backend saw,
                            in this order: the old one's will, its `Terminate`, the newcomer's `Setup`; the
                            CONNACK is queued only in that state;
  * `session_handover`      an unclean CONNECT gets exactly the stored session that is there once the old
                            holder has terminated (`resumedSess`: subscriptions, stored queue, incoming
                            store, id counter kept, outgoing packets kept in order with PUBLISH flagged dup,
                            temporary queue emptied), and what the old holder's death did to that session;
  * `takeover_stalled_old`  an old holder that cannot finish dying makes the newcomer fail, both are closed;
  * `one_winner`            any number of CONNECTs with one id, processed one after the other: the last one
                            is connected, all earlier ones are closed.
-/
namespace C13
open BState BrokerB4

/-! ### at most one live connection per client id -/

theorem unique_active {cfg : Cfg} {s : BState} (hr : Reachable cfg s) (c₁ c₂ : ConnId) (x₁ x₂ : BConn)
    (h₁ : s.conn? c₁ = some x₁) (h₂ : s.conn? c₂ = some x₂)
    (a₁ : x₁.alive = true) (a₂ : x₂.alive = true)
    (p₁ : x₁.phase = .connected) (p₂ : x₂.phase = .connected)
    (hid : x₁.id = x₂.id) (hne : x₁.id ≠ []) : c₁ = c₂ :=
  unique_of_inv (inv_reachable hr) h₁ h₂ a₁ a₂ p₁ p₂ hid hne

/-- the invariant behind it is inductive: it holds initially and every step keeps it -/
theorem invariant_inductive (cfg : Cfg) :
    BrokerB4.Inv { cfg := cfg } ∧ ∀ s s', BrokerB4.Inv s → Step s s' → BrokerB4.Inv s' :=
  ⟨inv_init cfg, fun _ _ h hs => inv_step h hs⟩

/-- Why the model has the repaired `Terminate`: with the old one (`backendTerminateOld`: the active-client
    entry of the id is deleted unconditionally) the invariant is not inductive — in the state `sOld`
    (connection 2 failed its take-over and is being terminated, connection 3 is connected with the same id)
    the old function destroys the entry of the live connection 3, the repaired one does not.  Full witness
    of two connected connections with one id, for the old code: conn 1; CONNECT(a,clean); stall 1; conn 2;
    CONNECT(a); conn 3; CONNECT(a,clean); unstall 1; conn 4; CONNECT(a,clean). -/
theorem old_terminate_breaks_invariant :
    InvW sOld ∧ ¬ InvW (backendTerminateOld sOld 2) ∧ InvW (backendTerminate sOld 2) :=
  ⟨sOld_inv.1, terminateOld_breaks_invariant, terminateNew_keeps_invariant⟩

/-! ### order of events in a take-over -/

/-- `processConnect` after authentication, any outcome `s'` in which the newcomer `c` is alive:
    its CONNACK has been appended to the processor's output in this very state (it was not there before);
    and if a live connection `oc ≠ c` held the session of `id`, that connection was not stalled, is dead
    (cleanup done) in `s'`, and the backend calls appended are exactly: the will of `oc` (if it was
    accepted, has one and did not DISCONNECT), `terminate oc`, `setup c _` — in this order. -/
theorem takeover_order (s : BState) (c : ConnId) (x : BConn) (id : ClientId) (clean : Bool)
    (will : Option Message) (hid : id ≠ []) (ss : List BState)
    (h : setupAndConnack s c x id clean will = .ok ss) (s' : BState) (hs' : s' ∈ ss)
    (x' : BConn) (hx' : s'.conn? c = some x') (ha' : x'.alive = true) :
    (∃ sp rest, x'.procOut = x.procOut ++ Packet.connack sp 0 :: rest) ∧
    ∀ oc xo, holder s id = some oc → oc ≠ c → s.conn? oc = some xo → xo.alive = true →
      xo.stalled = false ∧ s'.conn? oc = some (deadRec xo) ∧
      ∃ r, s'.bevents = s.bevents ++ willEvents oc xo ++ termEvents oc xo ++ [BEvent.setup c r] := by
  have hsh := RAll_ok (setup_shape s c x id clean will) h s' hs'
  cases hsh with
  | closing _ hm =>
    have := (RAll_of_RMem (kill_conns _ c) hm).not_alive hx'
    rw [this] at ha'; cases ha'
  | anon _ hlen _ => exact absurd (List.eq_nil_of_length_eq_zero hlen) hid
  | refused s2 _ _ _ _ hm =>
    have := (RAll_of_RMem (kill_conns _ c) hm).not_alive hx'
    rw [this] at ha'; cases ha'
  | installed s2 _ _ hto hns he =>
    subst he
    obtain ⟨x0, sr, sp, hr, _, hconn⟩ := installNamed_conn s2 c (acceptedRec x id) id clean will
    rw [hconn, if_pos rfl] at hx'; cases hx'
    obtain ⟨rest, hrest⟩ := hr.procOut
    refine ⟨⟨sp, rest, hrest⟩, ?_⟩
    intro oc xo ho hoc hxo hao
    have ho1 : holder (s.setConn c (acceptedRec x id)) id = some oc := ho
    have hxo1 : (s.setConn c (acceptedRec x id)).conn? oc = some xo := by simp [hoc, hxo]
    unfold TakeOver at hto
    rw [ho1] at hto hns
    simp only at hto
    have hk := RAll_of_RMem (kill_conns _ oc) hto
    have he := RAll_of_RMem (kill_eff hxo1 hao) hto
    have hrec := hk.live xo hxo1 hao
    -- not stuck, hence not stalled
    have hst : xo.stalled = false := by
      cases hst : xo.stalled with
      | false => rfl
      | true =>
        simp only [stuck, hrec, hst, if_true, zombieRec] at hns
        cases hns
    refine ⟨hst, ?_, ?_⟩
    · rw [hconn, if_neg hoc, hrec]; simp [hst]
    · refine ⟨(!clean && (Assoc.get s2.stored id).isSome), ?_⟩
      rw [installNamed_bevents, he.bevents]
      simp [hst]

/-! ### the session is handed over -/

/-- what a resumed connection finds: everything persistent of the stored session `b` as it was -/
theorem resumedSess_spec (b : BSess) (c : ConnId) :
    (resumedSess b c).subs = b.subs ∧
    (resumedSess b c).storedQ = b.storedQ ∧
    (resumedSess b c).sess.incoming = b.sess.incoming ∧
    (resumedSess b c).sess.counter = b.sess.counter ∧
    (resumedSess b c).sess.outgoing.entries.map (·.1) = b.sess.outgoing.entries.map (·.1) ∧
    (resumedSess b c).sess.outgoing.entries.length = b.sess.outgoing.entries.length ∧
    (∀ e ∈ (resumedSess b c).sess.outgoing.entries, ∀ m dup id, e.2 = .publish m dup id → dup = true) ∧
    (resumedSess b c).tempQ = [] ∧
    (resumedSess b c).active = some c := by
  refine ⟨rfl, rfl, rfl, rfl, ?_, ?_, ?_, rfl, rfl⟩
  · simp only [resumedSess, List.map_map]
    apply List.map_congr_left
    intro e _
    simp only [Function.comp]
    split <;> rfl
  · simp [resumedSess]
  · intro e he m dup id hp
    simp only [resumedSess, List.mem_map] at he
    obtain ⟨e0, _, rfl⟩ := he
    split at hp
    · cases hp; rfl
    · rename_i hne
      exact absurd hp (by intro hh; exact hne _ _ _ hh)

/-- the resent packets are the stored ones, same ids, same order, PUBLISH only flagged dup -/
theorem resumedSess_outgoing (b : BSess) (c : ConnId) :
    (resumedSess b c).sess.outgoing.entries =
      b.sess.outgoing.entries.map (fun e =>
        match e.2 with
        | .publish m _ id => (e.1, Packet.publish m true id)
        | p => (e.1, p)) := rfl

/-- Unclean CONNECT, newcomer alive afterwards: there is the state `s2` after the take-over (the old
    holder, if any, closed and terminated) such that the stored session installed for the newcomer is
    `resumedSess b2 c` for the session `b2` stored in `s2` (CONNACK session-present), or a new one if none
    is stored; nothing else of the stored sessions changes in the installation. -/
theorem session_handover (s : BState) (c : ConnId) (x : BConn) (id : ClientId) (will : Option Message)
    (hid : id ≠ []) (ss : List BState) (h : setupAndConnack s c x id false will = .ok ss) (s' : BState)
    (hs' : s' ∈ ss) (x' : BConn) (hx' : s'.conn? c = some x') (ha' : x'.alive = true) :
    ∃ s2, TakeOver (s.setConn c (acceptedRec x id)) id s2 ∧
      x'.sref = .stored id ∧
      Assoc.get s'.stored id = some (match Assoc.get s2.stored id with
                                     | some b2 => resumedSess b2 c
                                     | none => newSess c) ∧
      (∀ k, k ≠ id → Assoc.get s'.stored k = Assoc.get s2.stored k) := by
  have hsh := RAll_ok (setup_shape s c x id false will) h s' hs'
  cases hsh with
  | closing _ hm =>
    have := (RAll_of_RMem (kill_conns _ c) hm).not_alive hx'
    rw [this] at ha'; cases ha'
  | anon _ hlen _ => exact absurd (List.eq_nil_of_length_eq_zero hlen) hid
  | refused s2 _ _ _ _ hm =>
    have := (RAll_of_RMem (kill_conns _ c) hm).not_alive hx'
    rw [this] at ha'; cases ha'
  | installed s2 _ _ hto hns he =>
    subst he
    refine ⟨s2, hto, ?_, installNamed_stored_unclean s2 c _ id will, ?_⟩
    · unfold installNamed at hx'
      simp only [Bool.false_eq_true, if_false] at hx'
      split at hx'
      · rw [installResume_conn, if_pos rfl] at hx'; cases hx'
        exact (instRec_resumed _ _ _ _ _ _).sref
      · rw [installFresh_conn, if_pos rfl] at hx'; cases hx'
        exact (instRec_started _ _ _ _).sref
    · intro k hk
      unfold installNamed
      simp only [Bool.false_eq_true, if_false]
      split
      · rw [installResume_stored, get_set_other _ _ _ _ hk]
      · rw [installFresh_stored, get_set_other _ _ _ _ hk]

/-- … and what the take-over did to that stored session: if a live, not stalled connection `oc` used it
    (`sref = stored id`, as the invariant says of the holder), then in `s2` it is the session `b` of before,
    after at most one last dequeue (`DeqStep`: at most one queued message moved to the outgoing store with
    the next id — or dropped if QoS 0), with possibly the will appended to a queue (`SessExt`), released
    (`active := none`): subscriptions, incoming store, and — up to that one message — queues and outgoing
    store are those of `b`. -/
theorem takeover_keeps_session (s1 : BState) (id : ClientId) (s2 : BState) (hto : TakeOver s1 id s2)
    (oc : ConnId) (xo : BConn) (b : BSess) (ho : holder s1 id = some oc) (hxo : s1.conn? oc = some xo)
    (hao : xo.alive = true) (hst : xo.stalled = false) (hph : xo.phase ≠ .connecting)
    (hsr : xo.sref = .stored id) (hb : Assoc.get s1.stored id = some b) :
    ∃ b1 b2, DeqStep b b1 ∧ SessExt b1 b2 ∧ Assoc.get s2.stored id = some { b2 with active := none } := by
  unfold TakeOver at hto
  rw [ho] at hto
  simp only at hto
  obtain ⟨b1, b2, h1, h2, h3⟩ := (RAll_of_RMem (kill_eff hxo hao) hto).storedOwn id b hsr hb
  exact ⟨b1, b2, h1, h2, by rw [h3, if_pos ⟨hst, hph⟩]⟩

/-- resuming a stored session nobody holds: exactly one outcome, the session as it was stored -/
theorem session_resume (s : BState) (c : ConnId) (x : BConn) (id : ClientId) (will : Option Message)
    (hid : id ≠ []) (hcl : s.closing = false) (b : BSess) (hb : Assoc.get s.stored id = some b)
    (hact : b.active = none) (ss : List BState) (h : setupAndConnack s c x id false will = .ok ss)
    (s' : BState) (hs' : s' ∈ ss) :
    s' = installResume (s.setConn c (acceptedRec x id)) c (acceptedRec x id) id will b ∧
    Assoc.get s'.stored id = some (resumedSess b c) ∧
    s'.bevents = s.bevents ++ [BEvent.setup c true] := by
  have hsh := RAll_ok (setup_shape s c x id false will) h s' hs'
  have hho : holder (s.setConn c (acceptedRec x id)) id = none := by
    show holder s id = none
    simp [holder, hb, hact]
  cases hsh with
  | closing hc _ => rw [setConn_closing, hcl] at hc; cases hc
  | anon _ hlen _ => exact absurd (List.eq_nil_of_length_eq_zero hlen) hid
  | refused s2 _ _ _ hst _ => rw [hho] at hst; simp [stuck] at hst
  | installed s2 _ _ hto _ he =>
    unfold TakeOver at hto
    rw [hho] at hto; simp only at hto
    subst hto
    have hb1 : Assoc.get (s.setConn c (acceptedRec x id)).stored id = some b := hb
    have : s' = installResume (s.setConn c (acceptedRec x id)) c (acceptedRec x id) id will b := by
      rw [he]; unfold installNamed
      simp only [Bool.false_eq_true, if_false, hb1]
    refine ⟨this, ?_, ?_⟩
    · rw [this, installResume_stored, get_set_same]
    · rw [this, installResume_bevents]; rfl

/-! ### an old holder that cannot finish dying -/

/-- The holder `oc` of the session is alive but its goroutines are held up (or it is already a zombie):
    `Setup` gives up after `KillTimeout` — in every outcome the newcomer is closed and the old connection
    is closed too (a zombie until its cleanup can run); nobody is connected with that id. -/
theorem takeover_stalled_old (s : BState) (c : ConnId) (x : BConn) (id : ClientId) (clean : Bool)
    (will : Option Message) (hid : id ≠ []) (hcl : s.closing = false)
    (oc : ConnId) (xo : BConn) (ho : holder s id = some oc) (hoc : oc ≠ c) (hxo : s.conn? oc = some xo)
    (hstall : (xo.alive = true ∧ xo.stalled = true) ∨ (xo.alive = false ∧ xo.zombie = true))
    (ss : List BState) (h : setupAndConnack s c x id clean will = .ok ss) (s' : BState) (hs' : s' ∈ ss) :
    (∀ x', s'.conn? c = some x' → x'.alive = false) ∧
    (∃ xo', s'.conn? oc = some xo' ∧ xo'.alive = false ∧ xo'.zombie = true) := by
  have hsh := RAll_ok (setup_shape s c x id clean will) h s' hs'
  have ho1 : holder (s.setConn c (acceptedRec x id)) id = some oc := ho
  have hxo1 : (s.setConn c (acceptedRec x id)).conn? oc = some xo := by simp [hoc, hxo]
  -- the old connection after the take-over attempt: a zombie
  have zomb : ∀ s2, TakeOver (s.setConn c (acceptedRec x id)) id s2 →
      ∃ xo', s2.conn? oc = some xo' ∧ xo'.alive = false ∧ xo'.zombie = true := by
    intro s2 hto
    unfold TakeOver at hto
    rw [ho1] at hto; simp only at hto
    have hk := RAll_of_RMem (kill_conns _ oc) hto
    rcases hstall with ⟨ha, hst⟩ | ⟨ha, hz⟩
    · exact ⟨_, hk.live xo hxo1 ha, by simp [hst, zombieRec], by simp [hst, zombieRec]⟩
    · exact ⟨_, hk.dead xo hxo1 ha, ha, hz⟩
  cases hsh with
  | closing hc _ => rw [setConn_closing, hcl] at hc; cases hc
  | anon _ hlen _ => exact absurd (List.eq_nil_of_length_eq_zero hlen) hid
  | refused s2 _ _ hto _ hm =>
    have hk := RAll_of_RMem (kill_conns _ c) hm
    refine ⟨fun x' hx' => hk.not_alive hx', ?_⟩
    obtain ⟨xo', h1, h2, h3⟩ := zomb s2 hto
    exact ⟨xo', by rw [hk.other oc hoc]; exact h1, h2, h3⟩
  | installed s2 _ _ hto hns _ =>
    obtain ⟨xo', h1, _, h3⟩ := zomb s2 hto
    rw [ho1] at hns
    simp [stuck, h1, h3] at hns

/-! ### any number of contenders: one winner -/

/-- one CONNECT attempt: the connection and the fields of its CONNECT packet other than the client id -/
structure Contender where
  c : ConnId
  ka : UInt16 := 0
  u : Bytes := []
  pw : Bytes := []
  clean : Bool := true
  will : Option Message := none
  v : UInt8 := 4

def Contender.pkt (id : ClientId) (k : Contender) : Packet := .connect id k.ka k.u k.pw k.clean k.will k.v

/-- the CONNECTs of the contenders processed one after the other (any outcome of each) -/
inductive RunConnects (id : ClientId) : BState → List Contender → BState → Prop where
  | nil (s : BState) : RunConnects id s [] s
  | cons {s s1 s' : BState} {k : Contender} {rest : List Contender} :
      RMem s1 (recv s k.c (k.pkt id)) → RunConnects id s1 rest s' → RunConnects id s (k :: rest) s'

theorem run_dead_stays {id : ClientId} {s s' : BState} {l : List Contender} (h : RunConnects id s l s')
    (e : ConnId) (y : BConn) (hne : ∀ k ∈ l, k.c ≠ e) (hy : s.conn? e = some y) (hd : y.alive = false) :
    s'.conn? e = some y := by
  induction h with
  | nil => exact hy
  | @cons s0 s1 s2 k rest hm _ ih =>
    have h1 : s1.conn? e = some y :=
      RAll_of_RMem (recv_dead_stays (fun h => hne k (by simp) h.symm) hy hd) hm
    exact ih (fun k' hk' => hne k' (List.mem_cons_of_mem _ hk')) h1

theorem run_absent_stays {id : ClientId} {s s' : BState} {l : List Contender} (h : RunConnects id s l s')
    (e : ConnId) (hne : ∀ k ∈ l, k.c ≠ e) (hy : s.conn? e = none) : s'.conn? e = none := by
  induction h with
  | nil => exact hy
  | @cons s0 s1 s2 k rest hm _ ih =>
    apply ih (fun k' hk' => hne k' (List.mem_cons_of_mem _ hk'))
    have hrc := RAll_of_RMem (recv_conns s0 k.c (k.pkt id)) hm
    rcases hrc.other e (fun h => hne k (by simp) h.symm) with h | ⟨_, _, _, _, _, _, _, _, _, z', hz', _, _⟩
    · rw [h]; exact hy
    · rw [hy] at hz'; cases hz'

/-- the preconditions on the contenders in state `s` -/
structure Contest (s : BState) (id : ClientId) (l : List Contender) : Prop where
  closing : s.closing = false
  noStall : NoStall s
  nodup : (l.map (·.c)).Nodup
  fresh : ∀ k ∈ l, ∃ x, s.conn? k.c = some x ∧ x.alive = true ∧ x.phase = .connecting ∧ holder s id ≠ some k.c
  auth : ∀ k ∈ l, authenticate s k.u k.pw = true

theorem one_winner_aux (id : ClientId) (hid : id ≠ []) : ∀ (l : List Contender) (w : Contender) (s s' : BState),
    Contest s id (l ++ [w]) → RunConnects id s (l ++ [w]) s' →
    (∃ x', s'.conn? w.c = some x' ∧ x'.alive = true ∧ x'.phase = .connected ∧ x'.id = id) ∧
    (∀ k ∈ l, ∀ y, s'.conn? k.c = some y → y.alive = false) ∧
    (∀ e, holder s id = some e → (∀ k ∈ l ++ [w], k.c ≠ e) → ∀ y, s'.conn? e = some y → y.alive = false) := by
  intro l
  induction l with
  | nil =>
    intro w s s' hc hr
    simp only [List.nil_append] at hc hr
    cases hr with
    | cons hm hrest =>
      cases hrest
      obtain ⟨x, hx, ha, hp, hnh⟩ := hc.fresh w (by simp)
      have hw := RAll_of_RMem (connect_wins w.ka w.u w.pw w.clean w.will w.v hx ha hp hid hc.closing
        (hc.auth w (by simp)) hc.noStall hnh) hm
      refine ⟨hw.winner, fun k hk => by simp at hk, ?_⟩
      intro e he hne y hy
      exact hw.old e (fun h => hne w (by simp) h.symm) he y hy
  | cons k rest ih =>
    intro w s s' hc hr
    simp only [List.cons_append] at hc hr
    cases hr with
    | cons hm hrest =>
      rename_i s1
      obtain ⟨x, hx, ha, hp, hnh⟩ := hc.fresh k (by simp)
      have hw := RAll_of_RMem (connect_wins k.ka k.u k.pw k.clean k.will k.v hx ha hp hid hc.closing
        (hc.auth k (by simp)) hc.noStall hnh) hm
      have hnd := hc.nodup
      simp only [List.map_cons, List.nodup_cons] at hnd
      -- the remaining contenders are still fresh in `s1`
      have hc1 : Contest s1 id (rest ++ [w]) := by
        refine ⟨hw.closing, hw.noStall, hnd.2, ?_, ?_⟩
        · intro k' hk'
          obtain ⟨x', hx', ha', hp', hnh'⟩ := hc.fresh k' (List.mem_cons_of_mem _ hk')
          have hne : k'.c ≠ k.c := by
            intro h; apply hnd.1; rw [← h]; exact List.mem_map.2 ⟨k', hk', rfl⟩
          refine ⟨x', by rw [hw.others k'.c hne hnh']; exact hx', ha', hp', ?_⟩
          rw [hw.holder]; intro h; exact hne (Option.some.inj h).symm
        · intro k' hk'
          rw [authenticate_cfg hw.cfg]; exact hc.auth k' (List.mem_cons_of_mem _ hk')
      obtain ⟨h1, h2, h3⟩ := ih w s1 s' hc1 hrest
      have hknot : ∀ k' ∈ rest ++ [w], k'.c ≠ k.c := by
        intro k' hk' h; apply hnd.1; rw [← h]; exact List.mem_map.2 ⟨k', hk', rfl⟩
      refine ⟨h1, ?_, ?_⟩
      · intro k' hk' y hy
        rcases List.mem_cons.1 hk' with hk' | hk'
        · subst hk'
          exact h3 k'.c hw.holder hknot y hy
        · exact h2 k' hk' y hy
      · intro e he hne y hy
        -- the original holder died in the first step and stays dead
        have hek : e ≠ k.c := fun h => hne k (by simp) h.symm
        cases hy1 : s1.conn? e with
        | none =>
          rw [run_absent_stays hrest e (fun k' hk' => hne k' (List.mem_cons_of_mem _ hk')) hy1] at hy
          cases hy
        | some y1 =>
          have hd1 := hw.old e hek he y1 hy1
          have := run_dead_stays hrest e y1 (fun k' hk' => hne k' (List.mem_cons_of_mem _ hk')) hy1 hd1
          rw [this] at hy; cases hy; exact hd1

/-- `n ≥ 1` connections present the same non-empty client id, one after the other (any order, any mix of
    clean / unclean, any wills), nobody's goroutines held up, the backend not closing, all pass
    authentication: afterwards the last one is connected, every earlier contender is closed, and so is the
    connection that held the session before. With `unique_active` (the invariant): exactly one connection
    with that id is connected. -/
theorem one_winner (id : ClientId) (hid : id ≠ []) (l : List Contender) (w : Contender) (s s' : BState)
    (hc : Contest s id (l ++ [w])) (hr : RunConnects id s (l ++ [w]) s') (hinv : BrokerB4.Inv s') :
    (∃ x', s'.conn? w.c = some x' ∧ x'.alive = true ∧ x'.phase = .connected ∧ x'.id = id) ∧
    (∀ k ∈ l, ∀ y, s'.conn? k.c = some y → y.alive = false) ∧
    (∀ e y, s'.conn? e = some y → y.alive = true → y.phase = .connected → y.id = id → e = w.c) := by
  obtain ⟨h1, h2, _⟩ := one_winner_aux id hid l w s s' hc hr
  refine ⟨h1, h2, ?_⟩
  intro e y hy ha hp hi
  obtain ⟨x', hx', ha', hp', hi'⟩ := h1
  exact unique_of_inv hinv hy hx' ha ha' hp hp' (hi.trans hi'.symm) (hi ▸ hid)

/-- the run keeps the invariant, so `one_winner` applies to every run from a reachable state -/
theorem run_inv {id : ClientId} {s s' : BState} {l : List Contender} (h : RunConnects id s l s')
    (hinv : BrokerB4.Inv s) : BrokerB4.Inv s' := by
  induction h with
  | nil => exact hinv
  | cons hm _ ih => exact ih (RAll_of_RMem (recv_inv hinv _ _) hm)

/-! ### non-vacuity -/

def cnA (clean : Bool) : Packet := .connect [97] 0 [] [] clean none 4

/-- a broker with one accepted client "a" (connection 1, clean session) -/
def sOne : BState :=
  match stim {} (.conn 1) with
  | .ok [s1] => (match stim s1 (.send 1 (cnA true)) with
                 | .ok [s2] => s2
                 | _ => {})
  | _ => {}

example : Reachable {} sOne := by
  have h1 : Step ({} : BState) (({} : BState).setConn 1 {}) := Step.stim (.conn 1) _ rfl (by simp)
  have h2 : Step (({} : BState).setConn 1 {}) sOne :=
    Step.stim (.send 1 (cnA true)) [sOne] rfl (by simp)
  exact Reachable.step (Reachable.step Reachable.init h1) h2

/-- the hypotheses of `unique_active` are satisfiable: connection 1 is alive, accepted, id "a" -/
example : ∃ x, sOne.conn? 1 = some x ∧ x.alive = true ∧ x.phase = .connected ∧ x.id = [97] ∧ x.id ≠ [] :=
  ⟨_, rfl, rfl, rfl, rfl, by decide⟩

/-- a take-over with a live holder: connection 2 presents "a" while 1 holds it; `takeover_order` and
    `session_handover` apply to the (single) outcome, in which 2 is alive and 1 dead -/
example : ∃ ss s', setupAndConnack (sOne.setConn 2 {}) 2 {} [97] false none = .ok ss ∧ s' ∈ ss ∧
    holder (sOne.setConn 2 {}) [97] = some 1 ∧
    (∃ x', s'.conn? 2 = some x' ∧ x'.alive = true) ∧ (∃ x1, s'.conn? 1 = some x1 ∧ x1.alive = false) :=
  ⟨_, _, rfl, List.mem_singleton.2 rfl, rfl, ⟨_, rfl, rfl⟩, ⟨_, rfl, rfl⟩⟩

/-- a stalled holder: `takeover_stalled_old` applies (connection 1 alive and stalled, holder of "a") -/
example : ∃ xo, holder ((sOne.updConn 1 fun x => { x with stalled := true }).setConn 2 {}) [97] = some 1 ∧
    ((sOne.updConn 1 fun x => { x with stalled := true }).setConn 2 {}).conn? 1 = some xo ∧
    xo.alive = true ∧ xo.stalled = true :=
  ⟨_, rfl, rfl, rfl, rfl⟩

/-- the preconditions of `one_winner` hold for two fresh connections 2, 3 next to the connected client 1 -/
def sThree : BState := (sOne.setConn 2 {}).setConn 3 {}

example : Contest sThree [97] ([{ c := 2 }] ++ [{ c := 3, clean := false }]) := by
  refine ⟨rfl, ?_, by decide, ?_, ?_⟩
  · intro c x hx
    have h3 : c = 3 ∨ c = 2 ∨ c = 1 ∨ sThree.conn? c = none := by
      by_cases h3 : c = 3
      · exact Or.inl h3
      · by_cases h2 : c = 2
        · exact Or.inr (Or.inl h2)
        · by_cases h1 : c = 1
          · exact Or.inr (Or.inr (Or.inl h1))
          · right; right; right
            simp only [sThree, conn?_setConn, h3, h2, if_false]
            unfold BState.conn?
            show Assoc.get [(1, _)] c = none
            rw [get_cons, get_nil]; simp; exact fun h => h1 h.symm
    rcases h3 with h | h | h | h
    · subst h; cases hx; exact ⟨rfl, rfl⟩
    · subst h; cases hx; exact ⟨rfl, rfl⟩
    · subst h; cases hx; exact ⟨rfl, rfl⟩
    · rw [h] at hx; cases hx
  · intro k hk
    simp only [List.cons_append, List.nil_append, List.mem_cons, List.not_mem_nil, or_false] at hk
    rcases hk with rfl | rfl
    · exact ⟨_, rfl, rfl, rfl, by decide⟩
    · exact ⟨_, rfl, rfl, rfl, by decide⟩
  · intro k _; rfl

end C13
