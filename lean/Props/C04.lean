import Model.Topic
import Model.TopicSpec
import Proofs.TopicBasic
import Proofs.TopicMatch
/-
  Props/C04.lean — property C04: topic matching follows MQTT 3.1.1 §4.7 in both directions, and
  the directions agree.  Quantifies over every trie (any depth, any alphabet), every name/filter.
  `tmatches` (Model/TopicSpec.lean) is the five-line §4.7 relation on level lists.
-/
namespace C04
open Node

/-- for NUL-free topics the sentinel-driven walk of the Go code is plain splitting on "/" -/
theorem walk_eq_split (t : Bytes) (h : (0 : UInt8) ∉ t) : walk t = splitLevels t :=
  walk_eq_splitLevels t h

/-- name → filters: looking a wildcard-free name up yields exactly the values stored under
    filters that match it -/
theorem match_correct (n : Node) (hw : n.WF) (name : List Level) (hn : NoWild name) (v : Val) :
    v ∈ matchAll name n ↔ ∃ f, v ∈ stored n f ∧ tmatches f name = true :=
  matchAll_spec n hw name hn v

/-- filter → names: querying with a valid filter yields exactly the values stored under names
    (arbitrary level lists) that the filter matches -/
theorem search_correct (n : Node) (hw : n.WF) (filter : List Level) (hf : ValidFilter filter) (v : Val) :
    v ∈ searchAll filter n ↔ ∃ nm, v ∈ stored n nm ∧ tmatches filter nm = true :=
  searchAll_spec n hw filter hf v

/-- each value once -/
theorem match_nodup (t : Bytes) (root : Node) : (Tree.match t root).Nodup :=
  eraseDups_nodup _
theorem search_nodup (t : Bytes) (root : Node) : (Tree.search t root).Nodup :=
  eraseDups_nodup _

/-- the two directions define the same relation: a filter stored in one tree is found by a name
    iff the name stored in another tree is found by the filter -/
theorem match_search_agree (f name : List Level) (hf : ValidFilter f) (hn : NoWild name) (v : Val) :
    v ∈ matchAll name (Node.add v f Node.empty) ↔ v ∈ searchAll f (Node.add v name Node.empty) :=
  matchAll_searchAll_agree f name hf hn v

/-- first-match variants: non-nil exactly when the full result is non-empty, and a member of it -/
theorem matchFirst_some_iff (name : List Level) (n : Node) :
    (matchFirst name n none).isSome = !(matchAll name n).isEmpty := by
  simpa using matchFirst_isSome name n none
theorem matchFirst_mem (name : List Level) (n : Node) (v : Val) (h : matchFirst name n none = some v) :
    v ∈ matchAll name n := by
  rcases matchFirst_mem_or name n none v h with h | h
  · exact h
  · cases h

/-- non-vacuity: "a/+" and "a/#" both match "a/b"; "a/#" matches the parent "a"; "a/+" does not -/
example : tmatches [[97], wildOne] [[97], [98]] = true ∧ tmatches [[97], wildSome] [[97]] = true
    ∧ tmatches [[97], wildOne] [[97]] = false := by decide

end C04
