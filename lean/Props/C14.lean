import Model.Broker
import Proofs.BrokerLife
import Proofs.BrokerInv
import Proofs.BrokerIso
import Proofs.BrokerTotal
import Proofs.BrokerOnce
/-
  Props/C14.lean — property C14: no client can crash or stall the broker or disturb any other client.

  On the broker model `Model/Broker.lean` (one stimulus = everything the code does up to quiescence):
  * `recv_isolation`   one packet from connection `c` leaves every other connection record untouched —
                       except the connection that holds the session of the client id a CONNECT presents
                       (take-over, C13), which is closed — and touches sessions other than `c`'s own
                       only by appending to their queues;
  * `offender_closed`  out-of-protocol input closes the sender (`recv = kill`), and `kill_frame`:
                       closing a connection changes no other connection record and no other session
                       (except by queueing its will);
  * `terminate_once`   `Terminate` is called exactly once for a connection for which `Setup` had been
                       attempted, never for one that was refused before, never twice — per step
                       (`terminate_once_step`) and over whole histories with a ghost log (`terminate_once`);
  * `closed_fires`     at accepted quiescence every dead connection has given its closed signal, and the
                       signal is enabled exactly for a dead connection, once;
  * `model_total`      the only non-`ok` outcome of the model is `unsupported`, and that arises only in
                       the documented situations (`stim_unsupported_cases`).
-/
namespace C14
open BState BrokerB4

/-! ### isolation -/

/-- `s'.conn? e` is `s.conn? e` closed by a take-over: it held the session for the client id the
    CONNECT presented (`BrokerB4.holder` = what `MemoryBackend.Setup` looks up) -/
def TakenOver (s : BState) (p : Packet) (e : ConnId) (s' : BState) : Prop :=
  ∃ id ka u pw clean will v, p = .connect id ka u pw clean will v ∧ holder s id = some e ∧
    ∃ x, s.conn? e = some x ∧ x.alive = true ∧
      s'.conn? e = some (if x.stalled then zombieRec x else deadRec x)

/-- One packet `p` received on connection `c`, any outcome `s'`:
    (1) every other connection record is literally unchanged — all of `alive`, `phase`, `id`, `will`,
        `sref`, `procOut`, `ackOut`, tokens … — unless `p` is a CONNECT and that connection holds the
        session of the presented client id: then it is closed (`alive := false`, nothing else but
        `running`/`zombie` changes);
    (2) every stored session other than `c`'s own (and, for a CONNECT, the one of the presented id and
        the one the old holder refers to) still exists with the same subscriptions, packet stores,
        id counter and owner; its queues have at most grown at the tail;
    (3) the same for the temporary sessions other than `c`'s (and the old holder's). -/
theorem recv_isolation (s : BState) (c : ConnId) (p : Packet) (ss : List BState)
    (h : recv s c p = .ok ss) (s' : BState) (hs' : s' ∈ ss) :
    (∀ e, e ≠ c → s'.conn? e = s.conn? e ∨ TakenOver s p e s') ∧
    (∀ k, ¬ exemptStored s c p k → ORel SessExt (Assoc.get s.stored k) (Assoc.get s'.stored k)) ∧
    (∀ k, ¬ exemptTemp s c p k → ORel SessExt (Assoc.get s.temp k) (Assoc.get s'.temp k)) := by
  have h1 := RAll_ok (recv_conns s c p) h s' hs'
  have h2 := RAll_ok (recv_sessions s c p) h s' hs'
  refine ⟨fun e he => ?_, h2.1, h2.2⟩
  rcases h1.other e he with h | ⟨id, ka, u, pw, clean, will, v, hp, hv⟩
  · exact Or.inl h
  · exact Or.inr ⟨id, ka, u, pw, clean, will, v, hp, hv.1, hv.2⟩

/-- a packet that is no CONNECT touches no other connection at all -/
theorem recv_isolation_plain (s : BState) (c : ConnId) (p : Packet) (hp : isConnect p = false)
    (ss : List BState) (h : recv s c p = .ok ss) (s' : BState) (hs' : s' ∈ ss) (e : ConnId) (he : e ≠ c) :
    s'.conn? e = s.conn? e := by
  rcases (recv_isolation s c p ss h s' hs').1 e he with h | ⟨id, ka, u, pw, clean, will, v, hpk, _⟩
  · exact h
  · subst hpk; simp [isConnect] at hp

/-! ### the offender is closed, nobody else -/

/-- a first packet that is no CONNECT: the connection is closed -/
theorem offender_closed_first (s : BState) (c : ConnId) (x : BConn) (p : Packet)
    (hc : s.conn? c = some x) (ha : x.alive = true) (hp : x.phase = .connecting) (hnc : isConnect p = false) :
    recv s c p = kill s c := by
  cases p <;> first
    | (simp [isConnect] at hnc; done)
    | (unfold recv; simp only [hc, ha, hp, Bool.not_true, Bool.false_eq_true, if_false])

/-- packets only a server sends, or a second CONNECT, on an accepted connection: closed -/
def serverOnly : Packet → Bool
  | .connect .. | .connack .. | .suback .. | .unsuback _ | .pingresp => true
  | _ => false

theorem offender_closed_later (s : BState) (c : ConnId) (x : BConn) (p : Packet)
    (hc : s.conn? c = some x) (ha : x.alive = true) (hp : x.phase = .connected) (hso : serverOnly p = true) :
    recv s c p = kill s c := by
  cases p <;> first
    | (simp [serverOnly] at hso; done)
    | (unfold recv; simp only [hc, ha, hp, Bool.not_true, Bool.false_eq_true, if_false])

/-- closing connection `c` leaves every other connection record literally unchanged, every stored
    session other than the one `c` refers to and every temporary session other than `c`'s only grows
    at its queue tails (the will) -/
theorem kill_frame (s : BState) (c : ConnId) (ss : List BState) (h : kill s c = .ok ss) (s' : BState)
    (hs' : s' ∈ ss) :
    (∀ e, e ≠ c → s'.conn? e = s.conn? e) ∧
    (∀ k, ¬ ownKey s c k → ORel SessExt (Assoc.get s.stored k) (Assoc.get s'.stored k)) ∧
    (∀ k, k ≠ c → ORel SessExt (Assoc.get s.temp k) (Assoc.get s'.temp k)) := by
  have h1 := RAll_ok (kill_conns s c) h s' hs'
  have h2 := RAll_ok (kill_sessFrame s c) h s' hs'
  exact ⟨h1.other, h2.1, h2.2⟩

/-- … and the closed connection itself is not alive afterwards -/
theorem kill_closes (s : BState) (c : ConnId) (ss : List BState) (h : kill s c = .ok ss) (s' : BState)
    (hs' : s' ∈ ss) (x' : BConn) (hx' : s'.conn? c = some x') : x'.alive = false :=
  (RAll_ok (kill_conns s c) h s' hs').not_alive hx'

/-! ### `Terminate` exactly once -/

/-- closing a connection that is not alive any more does nothing at all -/
theorem kill_dead_id (s : BState) (c : ConnId) (x : BConn) (hc : s.conn? c = some x) (ha : x.alive = false) :
    kill s c = .ok [s] := by
  unfold kill; simp only [hc, ha, Bool.not_false, if_true]; rfl

theorem kill_unknown_id (s : BState) (c : ConnId) (hc : s.conn? c = none) : kill s c = .ok [s] := by
  unfold kill; simp only [hc]; rfl

/-- Closing a live connection whose goroutines are not held up appends exactly: the will publish (if
    the client was accepted, has a will and did not DISCONNECT) and then — iff `Setup` had been attempted
    (`phase ≠ connecting`: `processConnect` sets `state = connected` *before* it calls `Setup`, so a
    failed `Setup` is covered) — exactly one `terminate c`; and the connection is dead afterwards. -/
theorem terminate_once_step (s : BState) (c : ConnId) (x : BConn) (hc : s.conn? c = some x)
    (ha : x.alive = true) (hns : x.stalled = false) (ss : List BState) (h : kill s c = .ok ss)
    (s' : BState) (hs' : s' ∈ ss) :
    s'.bevents = s.bevents ++ willEvents c x ++ termEvents c x ∧
    (willEvents c x ++ termEvents c x).count (BEvent.terminate c) = (if x.phase ≠ .connecting then 1 else 0) ∧
    (∀ e, e ≠ c → BEvent.terminate e ∉ willEvents c x ++ termEvents c x) ∧
    s'.conn? c = some (deadRec x) := by
  have he := RAll_ok (kill_eff hc ha) h s' hs'
  have hk := RAll_ok (kill_conns s c) h s' hs'
  refine ⟨by rw [he.bevents]; simp [hns], ?_, ?_, by rw [hk.live x hc ha]; simp [hns]⟩
  · unfold willEvents termEvents
    by_cases hp : x.phase ≠ .connecting
    · rw [if_pos hp, if_pos hp]
      split <;> simp
    · rw [if_neg hp, if_neg hp]
      split <;> simp
  · intro e hec
    unfold willEvents termEvents
    intro hm
    rcases List.mem_append.1 hm with hm | hm
    · split at hm <;> simp at hm
    · split at hm
      · simp at hm; exact hec hm
      · simp at hm

/-- a connection whose goroutines are held up is only marked: no backend call yet -/
theorem kill_stalled_step (s : BState) (c : ConnId) (x : BConn) (hc : s.conn? c = some x)
    (ha : x.alive = true) (hst : x.stalled = true) (ss : List BState) (h : kill s c = .ok ss)
    (s' : BState) (hs' : s' ∈ ss) :
    s'.bevents = s.bevents ∧ s'.conn? c = some (zombieRec x) := by
  have he := RAll_ok (kill_eff hc ha) h s' hs'
  have hk := RAll_ok (kill_conns s c) h s' hs'
  exact ⟨by rw [he.bevents]; simp [hst], by rw [hk.live x hc ha]; simp [hst]⟩

/-- GLOBAL form.  `RunG cfg s log`: `s` is reached from the empty broker by steps of the model in an
    environment that never reuses a connection identifier (they stand for `*Client` pointers), `log` = all
    backend events ever issued (observed or not).  For every connection: `Terminate` was called at most
    once, and exactly once iff the connection is closed, its cleanup has run (not a zombie), and `Setup`
    had been attempted for it (`phase ≠ connecting`) — never for a connection that is still alive, still
    waiting for its cleanup, or was refused before `Setup`. -/
theorem terminate_once {cfg : Cfg} {s : BState} {log : List BEvent} (h : RunG cfg s log) (c : ConnId) :
    log.count (BEvent.terminate c) ≤ 1 ∧
    (log.count (BEvent.terminate c) = 1 ↔
      ∃ x, s.conn? c = some x ∧ x.alive = false ∧ x.zombie = false ∧ x.phase ≠ .connecting) := by
  have hg := (runG_inv h).2.2 c
  have hst : status (s.conn? c) = .done ↔
      ∃ x, s.conn? c = some x ∧ x.alive = false ∧ x.zombie = false ∧ x.phase ≠ .connecting := by
    cases hc : s.conn? c with
    | none => simp [status]
    | some x =>
      simp only [status, Option.some.injEq, exists_eq_left']
      cases ha : x.alive <;> cases hz : x.zombie <;> by_cases hp : x.phase = .connecting <;> simp [hp]
  rw [hg]
  constructor
  · split <;> omega
  · rw [← hst]
    split <;> simp_all

/-- every `RunG` state is reachable (the ghost log and the freshness assumption only restrict) -/
theorem runG_reachable {cfg : Cfg} {s : BState} {log : List BEvent} (h : RunG cfg s log) : Reachable cfg s :=
  h.reachable

/-! ### the closed signal -/

/-- quiescence is accepted only if every dead connection has given its closed signal -/
theorem closed_fires (s : BState) (h : settle s = none) (c : ConnId) (x : BConn)
    (hc : s.conn? c = some x) (ha : x.alive = false) : x.closedSeen = true := by
  unfold settle at h
  split at h
  · cases h
  · have hm : (c, x) ∈ s.conns := mem_of_get _ _ _ hc
    have := (List.findSome?_eq_none_iff.1 h) (c, x) hm
    unfold settleConn at this
    simp only [ha, Bool.not_false, if_true] at this
    split at this
    · cases this
    · rename_i hcs; simpa using hcs

/-- the closed signal is enabled exactly for a dead connection that has not given it yet … -/
theorem closed_enabled_iff (s : BState) (c : ConnId) (s' : BState) :
    s' ∈ observe s (.closed c) ↔
      ∃ x, s.conn? c = some x ∧ x.alive = false ∧ x.closedSeen = false ∧
        s' = s.setConn c { x with closedSeen := true } := by
  simp only [observe]
  cases hc : s.conn? c with
  | none => simp
  | some x =>
    simp only []
    by_cases hh : (!x.alive ∧ !x.closedSeen)
    · rw [if_pos hh]
      simp only [List.mem_singleton]
      constructor
      · intro h; exact ⟨x, rfl, by simpa using hh.1, by simpa using hh.2, h⟩
      · rintro ⟨y, hy, _, _, h⟩; cases hy; exact h
    · rw [if_neg hh]
      simp only [List.not_mem_nil, false_iff]
      rintro ⟨y, hy, h1, h2, _⟩
      cases hy; apply hh; simp [h1, h2]

/-- … and only once -/
theorem closed_once (s : BState) (c : ConnId) (s' : BState) (h : s' ∈ observe s (.closed c)) :
    observe s' (.closed c) = [] := by
  obtain ⟨x, _, _, _, rfl⟩ := (closed_enabled_iff s c s').1 h
  simp [observe]

/-! ### totality: the only non-`ok` outcome is `unsupported`, and only where documented -/

/-- `Res` has exactly two outcomes: a list of successor states, or `unsupported` — there is no panic
    outcome, and every function of the model is a total Lean function -/
theorem model_total (s : BState) (st : Stim) : (∃ ss, stim s st = .ok ss) ∨ (∃ w, stim s st = .unsupported w) := by
  cases h : stim s st with
  | ok ss => exact Or.inl ⟨ss, rfl⟩
  | unsupported w => exact Or.inr ⟨w, rfl⟩

/-- `unsupported` arises only in the documented situations (`BrokerB4.Documented`): unknown connection,
    tokens exhausted, no session, token timeout of a dequeuer that is not blocked, or a publish that would
    block on a full queue of another online client -/
theorem stim_unsupported_cases (s : BState) (st : Stim) (w : String) (h : stim s st = .unsupported w) :
    Documented s st w := stim_why s st w h

/-- the blocking case, exactly: `Backend.Publish` is `unsupported` only if some *other* client's
    session subscribes to the topic and its queue is full (`BrokerB4.WouldBlock`) -/
theorem publish_unsupported_only_if_blocked (s : BState) (c : ConnId) (m : Message) (e : String)
    (h : backendPublish s c m = .unsupported e) : e = blockMsg ∧ WouldBlock s c m :=
  backendPublish_why s c m e h

/-- in a reachable state every live accepted connection has a session: "no session" cannot happen -/
theorem reachable_has_session {cfg : Cfg} {s : BState} (hr : Reachable cfg s) (c : ConnId) (x : BConn)
    (hc : s.conn? c = some x) (ha : x.alive = true) (hp : x.phase = .connected) :
    ∃ b, s.sessOf c = some b := by
  have hi := inv_reachable hr
  have hn := hi.2 c x hc ha hp
  rw [sessOf_of_conn hc]
  cases hs : x.sref with
  | none => exact absurd hs hn
  | temp => obtain ⟨⟨b, hb, _⟩, _⟩ := hi.1.tm c x hc (Or.inl ha) hs; exact ⟨b, hb⟩
  | stored i => obtain ⟨_, b, hb, _⟩ := hi.1.st c x i hc (Or.inl ha) hs; exact ⟨b, hb⟩

/-- the envelope of a stimulus: the connection it names exists, the tokens the packet needs are there,
    a token timeout is injected only for a blocked dequeuer -/
def InEnvelope (s : BState) : Stim → Prop
  | .send c p => ∃ x, s.conn? c = some x ∧
      (isSubUnsub p = true → x.subTok ≠ 0) ∧ (∀ m dup id, p = .publish m dup id → m.qos ≠ 0 → x.pubTok ≠ 0)
  | .unstall c => ∃ x, s.conn? c = some x
  | .tokenTimeout c => ∃ x, s.conn? c = some x ∧ (x.alive ∧ x.running ∧ !x.deqHand ∧ x.deqChan = 0)
  | _ => True

/-- inside the envelope, from a reachable state, the model answers every stimulus unless a publish
    would block on another online client's full queue -/
theorem stim_supported {cfg : Cfg} {s : BState} (hr : Reachable cfg s) (st : Stim) (he : InEnvelope s st)
    (w : String) (h : stim s st = .unsupported w) : w = blockMsg := by
  have hd := stim_why s st w h
  cases hd with
  | unknown_send c p hn => obtain ⟨x, hx, _⟩ := he; rw [hn] at hx; cases hx
  | unknown_unstall c hn => obtain ⟨x, hx⟩ := he; rw [hn] at hx; cases hx
  | unknown_timeout c hn => obtain ⟨x, hx, _⟩ := he; rw [hn] at hx; cases hx
  | not_blocked c x hx hnb => obtain ⟨y, hy, hb⟩ := he; rw [hx] at hy; cases hy; exact absurd hb hnb
  | sub_tokens c x p hx _ _ ht hsu => obtain ⟨y, hy, h1, _⟩ := he; rw [hx] at hy; cases hy; exact absurd ht (h1 hsu)
  | pub_tokens c x m dup id hx _ _ ht hq =>
    obtain ⟨y, hy, _, h2⟩ := he; rw [hx] at hy; cases hy; exact absurd ht (h2 m dup id rfl hq)
  | no_session c x p hx ha hp hn =>
    obtain ⟨b, hb⟩ := reachable_has_session hr c x hx ha hp
    rw [hn] at hb; cases hb
  | would_block => rfl

/-! ### non-vacuity -/

/-- two accepted clients: 1 = "a" (clean session), 2 = "b" (persistent session) -/
def sTwo : BState :=
  let run (s : BState) (st : Stim) : BState := match stim s st with | .ok [s'] => s' | _ => s
  [Stim.conn 1, .send 1 (.connect [97] 0 [] [] true none 4),
   .conn 2, .send 2 (.connect [98] 0 [] [] false (some ⟨[119], [120], 0, false⟩) 4)].foldl run {}

/-- `recv_isolation`, `offender_closed_later`, `terminate_once_step`: a second CONNECT on the accepted
    connection 2 (with a will) closes it — will publish, then exactly one `terminate 2` — while connection 1
    is untouched -/
example : ∃ x s', sTwo.conn? 2 = some x ∧ x.alive = true ∧ x.phase = .connected ∧ x.stalled = false ∧
    recv sTwo 2 (.connect [98] 0 [] [] true none 4) = .ok [s'] ∧
    s'.conn? 1 = sTwo.conn? 1 ∧
    s'.bevents = sTwo.bevents ++ [BEvent.publish 2 ⟨[119], [120], 0, false⟩, BEvent.terminate 2] :=
  ⟨_, _, rfl, rfl, rfl, rfl, rfl, rfl, rfl⟩

/-- `offender_closed_first`: a first packet that is no CONNECT; no `Terminate` (Setup never attempted) -/
example : ∃ x s', (sTwo.setConn 3 {}).conn? 3 = some x ∧ x.alive = true ∧ x.phase = .connecting ∧
    recv (sTwo.setConn 3 {}) 3 .pingreq = .ok [s'] ∧ s'.bevents = sTwo.bevents ∧
    (∃ x', s'.conn? 3 = some x' ∧ x'.alive = false) :=
  ⟨_, _, rfl, rfl, rfl, rfl, rfl, _, rfl, rfl⟩

/-- `closed_fires` / `closed_enabled_iff`: after the closed signal of the dead connection (and the backend
    events) have been observed, quiescence is accepted -/
example : ∃ s1 s2, recv (({} : BState).setConn 3 {}) 3 .pingreq = .ok [s1] ∧ settle s1 ≠ none ∧
    s2 ∈ observe s1 (.closed 3) ∧ settle s2 = none :=
  ⟨_, _, rfl, by decide, List.mem_singleton.2 rfl, by decide⟩

/-- `stim_supported`: the envelope holds for a SUBSCRIBE by connection 1 in `sTwo` -/
example : InEnvelope sTwo (.send 1 (.subscribe [⟨[97], 1⟩] 7)) :=
  ⟨_, rfl, fun _ => by decide, fun _ _ _ h => by cases h⟩

/-- … and `unsupported` does occur outside: a packet for an unknown connection -/
example : stim sTwo (.send 9 .pingreq) = .unsupported "unknown connection" := rfl

/-- `terminate_once`: a history conn 1 · CONNECT · drop, with ghost log; `terminate 1` occurs once -/
example : ∃ s log, RunG {} s log ∧ log.count (BEvent.terminate 1) = 1 ∧
    ∃ x, s.conn? 1 = some x ∧ x.alive = false ∧ x.zombie = false ∧ x.phase ≠ .connecting := by
  have r0 : RunG {} ({} : BState) [] := RunG.init
  have r1 := r0.step (StepF.stim (s' := ({} : BState).setConn 1 {}) (.conn 1) (fun c h => by cases h; rfl) _ rfl
    (List.mem_singleton.2 rfl))
  have r2 := r1.step (StepF.stim (.send 1 (.connect [97] 0 [] [] true none 4)) (fun c h => by cases h) _ rfl
    (List.mem_singleton.2 rfl))
  have r3 := r2.step (StepF.stim (.drop 1) (fun c h => by cases h) _ rfl (List.mem_singleton.2 rfl))
  exact ⟨_, _, r3, by decide, _, rfl, rfl, rfl, by decide⟩

end C14
