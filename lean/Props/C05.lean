import Model.Topic
import Model.TopicSpec
import Proofs.TopicBasic
import Proofs.TopicOps
/-
  Props/C05.lean — property C05: after any history of add/set/remove/empty/clear/reset the tree
  answers every query as a plain map from topic to duplicate-free value list would; emptied
  branches leave no observable trace.
  The abstraction is `stored root path` (Proofs/TopicBasic.lean); the specification is `TopicMap`
  (Model/TopicSpec.lean).  `Op` / `applyOp` / `specOp` below are the histories quantified over.
-/
namespace C05
open Node

inductive Op where
  | add (p : List Level) (v : Val) | set (p : List Level) (v : Val) | remove (p : List Level) (v : Val)
  | empty (p : List Level) | clear (v : Val) | reset

def applyOp (n : Node) : Op → Node
  | .add p v => Node.add v p n
  | .set p v => Node.set v p n
  | .remove p v => (Node.remove (some v) p n).1
  | .empty p => (Node.remove none p n).1
  | .clear v => (Node.clear v n).1
  | .reset => Node.empty

def specOp (m : TopicMap) : Op → TopicMap
  | .add p v => m.add p v
  | .set p v => m.set p v
  | .remove p v => m.remove p v
  | .empty p => m.emptyTopic p
  | .clear v => m.clear v
  | .reset => []

/-- the refinement relation: same value *set* under every path, the trie invariants, and the
    map holds every key once (an invariant of `TopicMap.put`) -/
def Refines (n : Node) (m : TopicMap) : Prop :=
  n.WF ∧ n.NoDupVals ∧ m.KeysNodup ∧ ∀ p v, v ∈ stored n p ↔ v ∈ m.lookup p

/-- one step -/
theorem step_refines (n : Node) (m : TopicMap) (h : Refines n m) (op : Op) :
    Refines (applyOp n op) (specOp m op) := by
  obtain ⟨hw, hd, hk, hs⟩ := h
  cases op with
  | add p v =>
    refine ⟨WF_add v p n hw, NoDupVals_add v p n hd, ?_, ?_⟩
    · simp only [specOp, TopicMap.add]
      split
      · exact hk
      · exact TopicMap.KeysNodup_put _ _ hk
    · intro q x
      simp only [applyOp, specOp, TopicMap.add]
      rw [mem_stored_add, hs]
      by_cases hc : (m.lookup p).contains v = true
      · rw [if_pos hc]
        have hc' : v ∈ m.lookup p := by simpa using hc
        constructor
        · rintro (h1 | ⟨h1, h2⟩)
          · exact h1
          · subst h1; subst h2; exact hc'
        · exact Or.inl
      · rw [if_neg hc, TopicMap.lookup_put _ _ _ hk]
        by_cases e : q = p
        · subst e; simp
        · simp [e]
  | set p v =>
    refine ⟨WF_set v p n hw, NoDupVals_set v p n hd, TopicMap.KeysNodup_put _ _ hk, ?_⟩
    intro q x
    simp only [applyOp, specOp, TopicMap.set]
    rw [mem_stored_set, hs, TopicMap.lookup_put _ _ _ hk]
    by_cases e : q = p
    · subst e; simp
    · simp [e]
  | remove p v =>
    refine ⟨WF_remove _ p n hw, NoDupVals_remove _ p n hd, TopicMap.KeysNodup_put _ _ hk, ?_⟩
    intro q x
    simp only [applyOp, specOp, TopicMap.remove]
    rw [mem_stored_remove _ p n hw hd, hs, TopicMap.lookup_put _ _ _ hk]
    by_cases e : q = p
    · subst e; simp [keepOf]
    · simp [e]
  | empty p =>
    refine ⟨WF_remove _ p n hw, NoDupVals_remove _ p n hd, TopicMap.KeysNodup_put _ _ hk, ?_⟩
    intro q x
    simp only [applyOp, specOp, TopicMap.emptyTopic]
    rw [mem_stored_remove _ p n hw hd, hs, TopicMap.lookup_put _ _ _ hk]
    by_cases e : q = p
    · subst e; simp [keepOf]
    · simp [e]
  | clear v =>
    refine ⟨WF_clear v n hw, NoDupVals_clear v n hd, TopicMap.KeysNodup_clear v hk, ?_⟩
    intro q x
    simp only [applyOp, specOp]
    rw [mem_stored_clear v n hw hd, TopicMap.mem_lookup_clear v hk, hs]
  | reset =>
    refine ⟨WF_empty, NoDupVals_empty, by simp [specOp, TopicMap.KeysNodup], ?_⟩
    intro q x
    simp [applyOp, specOp, TopicMap.lookup_nil]

/-- the empty trie refines the empty map -/
theorem refines_empty : Refines Node.empty [] :=
  ⟨WF_empty, NoDupVals_empty, by simp [TopicMap.KeysNodup], by simp [TopicMap.lookup_nil]⟩

/-- every history, from any pair of related states -/
theorem refines_foldl (ops : List Op) (n : Node) (m : TopicMap) (h : Refines n m) :
    Refines (ops.foldl applyOp n) (ops.foldl specOp m) := by
  induction ops generalizing n m with
  | nil => exact h
  | cons op rest ih => exact ih _ _ (step_refines n m h op)

/-- every history -/
theorem refines_all (ops : List Op) :
    Refines (ops.foldl applyOp Node.empty) (ops.foldl specOp []) :=
  refines_foldl ops _ _ refines_empty

/-- one step keeps the trie pruned -/
theorem step_pruned (n : Node) (h : n.Pruned) (op : Op) : (applyOp n op).Pruned := by
  cases op with
  | add p v => exact Pruned_add v p n h
  | set p v => exact Pruned_set v p n h
  | remove p v => exact Pruned_remove _ p n h
  | empty p => exact Pruned_remove _ p n h
  | clear v => exact Pruned_clear v n
  | reset => exact Pruned_empty

theorem pruned_foldl (ops : List Op) (n : Node) (h : n.Pruned) : (ops.foldl applyOp n).Pruned := by
  induction ops generalizing n with
  | nil => exact h
  | cons op rest ih => exact ih _ (step_pruned n h op)

/-- pruning: emptied branches are removed (no history leaves an empty non-root node behind) -/
theorem pruned_all (ops : List Op) : (ops.foldl applyOp Node.empty).Pruned :=
  pruned_foldl ops _ Pruned_empty

/-- queries answer as the map does (as sets; order inside a result comes from Go map iteration) -/
theorem get_eq (n : Node) (m : TopicMap) (h : Refines n m) (p : List Level) (v : Val) :
    v ∈ stored n p ↔ v ∈ m.lookup p := h.2.2.2 p v

theorem all_eq (n : Node) (m : TopicMap) (h : Refines n m) (v : Val) :
    v ∈ subtreeVals n ↔ v ∈ m.all := by
  obtain ⟨hw, _, hk, hs⟩ := h
  rw [mem_subtreeVals_o n hw, TopicMap.mem_all hk]
  constructor
  · rintro ⟨p, hp⟩; exact ⟨p, (hs p v).mp hp⟩
  · rintro ⟨p, hp⟩; exact ⟨p, (hs p v).mpr hp⟩

/-- one step keeps the map's value lists duplicate free -/
theorem step_valsNodup (m : TopicMap) (h : m.ValsNodup) (op : Op) : (specOp m op).ValsNodup := by
  cases op with
  | add p v =>
    simp only [specOp, TopicMap.add]
    by_cases hc : (m.lookup p).contains v = true
    · rw [if_pos hc]; exact h
    · rw [if_neg hc]
      have hc' : v ∉ m.lookup p := by simpa using hc
      refine TopicMap.ValsNodup_put _ _ h ?_
      rw [List.nodup_append]
      refine ⟨TopicMap.nodup_lookup h p, by simp, ?_⟩
      intro a ha b hb e
      simp at hb; subst hb; subst e; exact hc' ha
  | set p v => exact TopicMap.ValsNodup_put _ _ h (by simp)
  | remove p v =>
    exact TopicMap.ValsNodup_put _ _ h (List.Nodup.sublist List.filter_sublist (TopicMap.nodup_lookup h p))
  | empty p => exact TopicMap.ValsNodup_put _ _ h (by simp)
  | clear v => exact TopicMap.ValsNodup_clear v h
  | reset => intro kv hkv; cases hkv

theorem valsNodup_foldl (ops : List Op) (m : TopicMap) (h : m.ValsNodup) :
    (ops.foldl specOp m).ValsNodup := by
  induction ops generalizing m with
  | nil => exact h
  | cons op rest ih => exact ih _ (step_valsNodup m h op)

/-- Count = number of (topic, value) pairs, for duplicate-free contents -/
theorem count_eq (ops : List Op) :
    Node.count (ops.foldl applyOp Node.empty) = TopicMap.count (ops.foldl specOp []) := by
  obtain ⟨hw, hd, hk, hs⟩ := refines_all ops
  exact count_eq_of_same_contents _ _ hw hd hk
    (valsNodup_foldl ops [] (fun kv hkv => by cases hkv)) hs

/-- non-vacuity: the relation holds of the initial states, of a concrete non-trivial history, and
    it does distinguish (a trie holding a value does not refine the empty map) -/
example : Refines Node.empty [] := refines_empty

example : Refines (Node.add 7 [[97], [98]] Node.empty) (TopicMap.add [] [[97], [98]] 7) :=
  refines_all [.add [[97], [98]] 7]

example : ¬ Refines (Node.mk [1] []) [] := by
  intro h
  have := (h.2.2.2 [] 1).mp (by simp)
  simp [TopicMap.lookup_nil] at this

end C05
