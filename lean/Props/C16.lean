import Model.Broker
import Proofs.BrokerOut
import Proofs.BrokerOutInv
import Proofs.BrokerOutKeep
/-
  Props/C16.lean — property C16: the inflight window is respected (retransmissions after a resume
  included), QoS 0 deliveries occupy no slot, every completed handshake returns its slot, and at
  quiescence a queued message is delivered whenever a slot is free.

  Shape of the invariant (`BrokerB3.Inv`, Proofs/BrokerOutInv.lean).  The brief's
      deqChan + hand + |outgoing| ≤ window      for every live connection with a session
  is clause `conn` (even without the `running` hypothesis).  It is not inductive on its own; three
  more clauses make it so:
    * `stored`: every stored session holds at most `window` unacknowledged packets (the resend loop
      of a later resume charges one token per packet and does not block when they run out);
    * `owner`: a live / not yet cleaned-up connection that uses a stored session is that session's
      active client (so two live connections never count against one store);
    * `nz`: a live connection is not a zombie.
  The bookkeeping is `≤`, not `=`: tokens are deliberately dropped when the channel is full.
-/
namespace C16
open BState BrokerB3

/-- the window invariant as stated in the brief -/
def WindowInv (s : BState) : Prop :=
  ∀ c x b, s.conn? c = some x → x.running = true → x.alive = true → s.sessOf c = some b →
    x.deqChan + (if x.deqHand then 1 else 0) + b.sess.outgoing.entries.length ≤ s.cfg.window

/-- the subscriber only acknowledges what it received -/
abbrev AcksKnown := BrokerB3.AcksKnown

/-- steps whose stimuli satisfy `AcksKnown` -/
abbrev GoodStep := BrokerB3.GoodStep

/-- states reachable from the empty broker by well-behaved steps -/
inductive GoodReachable (cfg : Cfg) : BState → Prop where
  | init : GoodReachable cfg { cfg := cfg }
  | step {s s' : BState} : GoodReachable cfg s → GoodStep s s' → GoodReachable cfg s'

theorem GoodReachable.reachable {cfg : Cfg} {s : BState} (h : GoodReachable cfg s) : Reachable cfg s := by
  induction h with
  | init => exact Reachable.init
  | step _ hs ih => exact Reachable.step ih hs.toStep

theorem inv_windowInv {s : BState} (h : Inv s) : WindowInv s :=
  fun c x b hx _ ha hb => h.conn c x b hx ha hb

/-! ### per-function preservation -/

/-- the dequeuer: one token is spent per QoS>0 delivery, none for QoS 0 -/
theorem acceptDelivery_window {s : BState} {c : ConnId} {x : BConn} {b : BSess} {m : Message}
    {id : UInt16} {s' : BState} (hI : Inv s) (hx : s.conn? c = some x) (ha : x.alive = true)
    (hb : s.sessOf c = some b) (h : acceptDelivery s c x b m id = some s') : Inv s' :=
  BrokerB3.acceptDelivery_window hI hx ha hb h

theorem recv_puback_eq {s : BState} {c : ConnId} {x : BConn} {b : BSess} (id : UInt16)
    (hx : s.conn? c = some x) (ha : x.alive = true) (hp : x.phase = .connected)
    (hb : s.sessOf c = some b) : recv s c (.puback id) = .one (afterAck s c b id) := by
  unfold recv afterAck
  simp only [hx, ha, hp, hb, Bool.not_true, Bool.false_eq_true, if_false, setSessOf_cfg]

theorem recv_pubcomp_eq {s : BState} {c : ConnId} {x : BConn} {b : BSess} (id : UInt16)
    (hx : s.conn? c = some x) (ha : x.alive = true) (hp : x.phase = .connected)
    (hb : s.sessOf c = some b) : recv s c (.pubcomp id) = .one (afterAck s c b id) := by
  unfold recv afterAck
  simp only [hx, ha, hp, hb, Bool.not_true, Bool.false_eq_true, if_false, setSessOf_cfg]

theorem recv_pubrec_eq {s : BState} {c : ConnId} {x : BConn} {b : BSess} (id : UInt16)
    (hx : s.conn? c = some x) (ha : x.alive = true) (hp : x.phase = .connected)
    (hb : s.sessOf c = some b) : recv s c (.pubrec id) = .one (afterPubrec s c b id) := by
  unfold recv afterPubrec
  simp only [hx, ha, hp, hb, Bool.not_true, Bool.false_eq_true, if_false]

/-- PUBACK / PUBCOMP for an id that is in flight -/
theorem recv_puback_window {s : BState} {c : ConnId} {x : BConn} {b : BSess} {id : UInt16}
    (hI : Inv s) (hx : s.conn? c = some x) (ha : x.alive = true) (hb : s.sessOf c = some b)
    (hk : id ∈ b.sess.outgoing.entries.map (·.1)) : Inv (afterAck s c b id) :=
  BrokerB3.recv_puback_window hI hx ha hb hk

/-- PUBREC for an id that is in flight: the PUBLISH is replaced, the slot stays occupied -/
theorem recv_pubrec_window {s : BState} {c : ConnId} {x : BConn} {b : BSess} {id : UInt16}
    (hI : Inv s) (hx : s.conn? c = some x) (ha : x.alive = true) (hb : s.sessOf c = some b)
    (hk : id ∈ b.sess.outgoing.entries.map (·.1)) : Inv (afterPubrec s c b id) :=
  BrokerB3.recv_pubrec_window hI hx ha hb hk

/-- session resumption (and every other outcome of `processConnect` after authentication) -/
theorem resume_window {s : BState} {c : ConnId} {x : BConn} (hI : Inv s) (hx : s.conn? c = some x)
    (id : ClientId) (clean : Bool) (will : Option Message) :
    RAll Inv (setupAndConnack s c x id clean will) :=
  setup_inv hI hx rfl id clean will

/-- a dying connection, its dying dequeuer, the will, `Terminate` -/
theorem kill_window {s : BState} (c : ConnId) (hI : Inv s) : RAll Inv (kill s c) := kill_inv c hI

/-- every packet the processor handles -/
theorem recv_window {s : BState} {c : ConnId} {p : Packet} (hI : Inv s) (hk : AckOK s c p) :
    RAll Inv (recv s c p) := recv_inv hI hk

/-- every observation -/
theorem observe_window {s : BState} {o : Obs} {s' : BState} (hI : Inv s) (h : s' ∈ observe s o) :
    Inv s' := observe_inv hI h

/-! ### the invariant -/

theorem window_inv_init (cfg : Cfg) : Inv { cfg := cfg } := init_inv cfg

/-- every well-behaved step preserves the invariant -/
theorem window_inv_step {s s' : BState} (hI : Inv s) (h : GoodStep s s') : Inv s' := step_inv hI h

theorem window_inv_reachable {cfg : Cfg} {s : BState} (h : GoodReachable cfg s) : Inv s := by
  induction h with
  | init => exact window_inv_init cfg
  | step _ hs ih => exact window_inv_step ih hs

/-- In every state reachable by well-behaved steps: tokens + unacknowledged packets ≤ window for
    every live connection (`WindowInv`); in particular the number of QoS>0 packets stored as sent and
    not acknowledged never exceeds the window — for live connections and for every stored session
    (whose packets are what a resume retransmits). -/
theorem window_respected {cfg : Cfg} {s : BState} (h : GoodReachable cfg s) :
    WindowInv s ∧
    (∀ c x b, s.conn? c = some x → x.alive = true → s.sessOf c = some b →
      b.sess.outgoing.entries.length ≤ s.cfg.window) ∧
    (∀ id b, Assoc.get s.stored id = some b → b.sess.outgoing.entries.length ≤ s.cfg.window) := by
  have hI := window_inv_reachable h
  refine ⟨inv_windowInv hI, fun c x b hx ha hb => ?_, fun id b hb => hI.stored id b hb⟩
  have := hI.conn c x b hx ha hb
  simp only [outLen] at this
  omega

/-- no step changes the configuration, so the bound is the configured `ClientInflightMessages` -/
theorem cfg_constant {cfg : Cfg} {s : BState} (h : Reachable cfg s) : s.cfg = cfg := reachable_cfg h

/-- `window_respected` with the configured window -/
theorem window_respected_cfg {cfg : Cfg} {s : BState} (h : GoodReachable cfg s) :
    (∀ c x b, s.conn? c = some x → x.alive = true → s.sessOf c = some b →
      x.deqChan + (if x.deqHand then 1 else 0) + b.sess.outgoing.entries.length ≤ cfg.window) ∧
    (∀ id b, Assoc.get s.stored id = some b → b.sess.outgoing.entries.length ≤ cfg.window) := by
  have hI := window_inv_reachable h
  have hc := cfg_constant h.reachable
  rw [← hc]
  exact ⟨fun c x b hx ha hb => hI.conn c x b hx ha hb, fun id b hb => hI.stored id b hb⟩

/-! ### why `AcksKnown` is needed: a spurious PUBACK widens the sender's own window -/

/-- window 1, one packet (id 1) in flight, no token left -/
def spuriousState : BState :=
  { cfg := { window := 1 },
    conns := [(0, { phase := .connected, sref := .temp, running := true, deqChan := 0, deqHand := false })],
    temp := [(0, { active := some 0,
                   sess := { outgoing := ⟨[(1, .publish ⟨[116], [], 1, false⟩ false 1)]⟩ } })] }

theorem spuriousState_inv : Inv spuriousState := by
  refine ⟨?_, ?_, ?_, ?_⟩
  · intro c x b hx ha hb
    by_cases hc : c = 0
    · subst hc
      simp only [spuriousState, conn?, get_cons, if_true, Option.some.injEq] at hx
      subst hx
      simp only [spuriousState, sessOf, conn?, get_cons, if_true, Option.some.injEq] at hb
      subst hb
      decide
    · have : ¬ 0 = c := fun e => hc e.symm
      simp [spuriousState, conn?, get_cons, this, get_nil] at hx
  · intro id b hb
    simp [spuriousState, get_nil] at hb
  · intro c x id hx _ hs
    by_cases hc : c = 0
    · subst hc
      simp only [spuriousState, conn?, get_cons, if_true, Option.some.injEq] at hx
      subst hx
      cases hs
    · have : ¬ 0 = c := fun e => hc e.symm
      simp [spuriousState, conn?, get_cons, this, get_nil] at hx
  · intro c x hx _
    by_cases hc : c = 0
    · subst hc
      simp only [spuriousState, conn?, get_cons, if_true, Option.some.injEq] at hx
      subst hx
      rfl
    · have : ¬ 0 = c := fun e => hc e.symm
      simp [spuriousState, conn?, get_cons, this, get_nil] at hx

/-- A PUBACK for id 2 (never sent) hands the dequeuer a token although the packet with id 1 is
    still unacknowledged: the invariant holds before and fails after.  The client has widened its
    own window; no other client is affected. -/
theorem spurious_ack_widens :
    Inv spuriousState ∧ ¬ AcksKnown spuriousState (.send 0 (.puback 2)) ∧
    ∃ s', stim spuriousState (.send 0 (.puback 2)) = .ok [s'] ∧ ¬ WindowInv s' := by
  refine ⟨spuriousState_inv, ?_, ?_⟩
  · intro h
    have := h _ (rfl : spuriousState.sessOf 0 = some _)
    revert this
    decide
  · refine ⟨_, rfl, ?_⟩
    intro h
    have := h 0 _ _ rfl rfl rfl rfl
    revert this
    decide

/-! ### QoS 0 takes no slot; a completed handshake returns exactly one -/

/-- a QoS 0 delivery puts its token straight back and leaves the outgoing store alone -/
theorem qos0_no_slot {s : BState} {c : ConnId} {x : BConn} {b : BSess} {m : Message}
    {id : UInt16} {s' : BState} (hx : s.conn? c = some x) (hb : s.sessOf c = some b)
    (h : acceptDelivery s c x b m id = some s') (hq : m.qos = 0)
    (hroom : x.deqChan + (if x.deqHand then 1 else 0) ≤ s.cfg.window) :
    ∃ x' b', s'.conn? c = some x' ∧ s'.sessOf c = some b' ∧
      x'.deqChan + (if x'.deqHand then 1 else 0) = x.deqChan + (if x.deqHand then 1 else 0) ∧
      b'.sess = b.sess :=
  acceptDelivery_qos0 hx hb h hq hroom

/-- PUBACK / PUBCOMP for an id in flight: one token more, one stored packet less — the sum is
    conserved (`hw` is the window invariant for this connection, `hn` the store's key uniqueness,
    C18 `store_keys_nodup`) -/
theorem no_token_leak {s : BState} {c : ConnId} {x : BConn} {b : BSess} {id : UInt16}
    (hx : s.conn? c = some x) (hb : s.sessOf c = some b)
    (hw : x.deqChan + (if x.deqHand then 1 else 0) + b.sess.outgoing.entries.length ≤ s.cfg.window)
    (hn : b.sess.outgoing.KeysNodup)
    (hk : id ∈ b.sess.outgoing.entries.map (·.1)) :
    ∃ x' b', (afterAck s c b id).conn? c = some x' ∧ (afterAck s c b id).sessOf c = some b' ∧
      x'.deqChan + (if x'.deqHand then 1 else 0) = x.deqChan + (if x.deqHand then 1 else 0) + 1 ∧
      b'.sess.outgoing.entries.length + 1 = b.sess.outgoing.entries.length := by
  rw [afterAck_eq b id hx]
  refine ⟨_, _, conn?_setConn_same _ _ _, sessOf_upd_same _ hx hb (putDeq_sref _ _), ?_, ?_⟩
  · have := tok_putDeq s.cfg x
    have hlt := length_erase_lt _ _ hk
    simp only [tok] at this
    rw [this]
    split
    · rfl
    · omega
  · simp only [deletePacket_outgoing, delete_entries]
    exact length_erase_of_nodup _ _ hn hk

/-! ### progress -/

/-- the dequeuer takes a token whenever one is available -/
theorem retake_takes (x : BConn) (hr : x.running = true) (ha : x.alive = true) (hc : x.deqChan > 0) :
    (retake x).deqHand = true := by
  unfold retake
  cases hh : x.deqHand
  · simp [hr, ha, hc]
  · simp [hh]

/-- after a token was returned the dequeuer holds one (window > 0) -/
theorem putDeq_takes (cfg : Cfg) (x : BConn) (hr : x.running = true) (ha : x.alive = true)
    (hw : cfg.window > 0) : (putDeq cfg x).deqHand = true := by
  unfold putDeq
  split
  · exact retake_takes _ hr ha (by simp)
  · exact retake_takes _ hr ha (by omega)

/-- at quiescence: a live running connection that holds a token has nothing queued — a queued
    message is delivered whenever a token is free -/
theorem progress {s : BState} {c : ConnId} {x : BConn} {b : BSess} (hs : settleConn s c x = none)
    (ha : x.alive = true) (hr : x.running = true) (hb : s.sessOf c = some b) :
    ¬ (x.deqHand = true ∧ (b.storedQ ≠ [] ∨ b.tempQ ≠ [])) := by
  rintro ⟨hh, hq⟩
  unfold settleConn at hs
  simp only [ha, Bool.not_true, Bool.false_eq_true, if_false, hb, hr, hh, true_and] at hs
  split at hs
  · cases hs
  · split at hs
    · cases hs
    · split at hs
      · cases hs
      · rename_i hn
        apply hn
        rcases hq with h | h
        · left
          cases hq' : b.storedQ with
          | nil => exact absurd hq' h
          | cons _ _ => simp
        · right
          cases hq' : b.tempQ with
          | nil => exact absurd hq' h
          | cons _ _ => simp

/-- … and the delivery of the head of the stored queue is then an enabled output: with a token in
    hand and nothing else pending, `observe` accepts the PUBLISH carrying the next unused packet id
    (`MemorySession.freshID`, the broker's `Client.nextID`) — provided there is one (`hfree`; by
    `MemorySession.freshID_ne_zero_of_lt` that is the case whenever the outgoing store holds fewer than
    65535 packets, see `delivery_enabled_of_room`) -/
theorem delivery_enabled {s : BState} {c : ConnId} {x : BConn} {b : BSess} {h : Message}
    {rest : List Message} (hx : s.conn? c = some x) (hb : s.sessOf c = some b)
    (ha : x.alive = true) (hcs : x.closedSeen = false) (hp : x.procOut = []) (hao : x.ackOut = [])
    (hh : x.deqHand = true) (hq : b.storedQ = h :: rest) (hfree : b.sess.freshID.1 ≠ 0) :
    ∃ id s', observe s (.sent c (.publish (applyQOS b h) false id)) = [s'] := by
  refine ⟨if (applyQOS b h).qos = 0 then 0 else b.sess.freshID.1, ?_⟩
  simp only [observe, observeSent, hx, hcs, hp, hao, popIf, hb, ha, acceptDelivery, hh, hq,
    Bool.false_eq_true, if_false, Bool.not_true, if_true]
  by_cases h0 : (applyQOS b h).qos = 0
  · simp [h0]
  · simp [h0, hfree]

/-- `hfree` is not an extra assumption in the states the broker reaches with well-behaved subscribers
    (`GoodReachable`: acknowledgements name stored ids) and a window below 65535 (`ClientInflightMessages`,
    default 10): the outgoing store then holds at most `window` packets (`window_respected`), so an
    unused packet id exists (`MemorySession.freshID_ne_zero_of_lt`, pigeonhole over the 65535 ids) -/
theorem delivery_enabled_reachable {cfg : Cfg} {s : BState} (hr : GoodReachable cfg s) (hw : cfg.window < 65535)
    {c : ConnId} {x : BConn} {b : BSess} {h : Message} {rest : List Message}
    (hx : s.conn? c = some x) (hb : s.sessOf c = some b)
    (ha : x.alive = true) (hcs : x.closedSeen = false) (hp : x.procOut = []) (hao : x.ackOut = [])
    (hh : x.deqHand = true) (hq : b.storedQ = h :: rest) :
    ∃ id s', observe s (.sent c (.publish (applyQOS b h) false id)) = [s'] := by
  have hlen := (window_respected hr).2.1 c x b hx ha hb
  rw [cfg_constant hr.reachable] at hlen
  exact delivery_enabled hx hb ha hcs hp hao hh hq (MemorySession.freshID_ne_zero_of_lt _ (by omega))

/-! ### non-vacuity: a reachable state with a resumed session, packets in flight -/

/-- the hypothesis `hfree` of `delivery_enabled` holds in ordinary states: a new session, and a session
    whose counter has wrapped onto an id still in flight (there the allocator steps over it: id 2) -/
example : ({} : MemorySession).freshID.1 = 1 ∧
    ({ counter := ⟨1⟩, outgoing := ⟨[(1, .pubrel 1)]⟩ } : MemorySession).freshID.1 = 2 := by decide

example : Inv spuriousState ∧ WindowInv spuriousState := ⟨spuriousState_inv, inv_windowInv spuriousState_inv⟩

/-- the hypotheses of `no_token_leak` are satisfiable: PUBACK 1 in `spuriousState` -/
example : ∃ x b, spuriousState.conn? 0 = some x ∧ spuriousState.sessOf 0 = some b ∧
    x.deqChan + (if x.deqHand then 1 else 0) + b.sess.outgoing.entries.length ≤ spuriousState.cfg.window ∧
    b.sess.outgoing.KeysNodup ∧ (1 : UInt16) ∈ b.sess.outgoing.entries.map (·.1) ∧
    AcksKnown spuriousState (.send 0 (.puback 1)) :=
  ⟨_, _, rfl, rfl, by decide, by unfold PacketStore.KeysNodup; decide, by decide, fun b hb => by
    have : spuriousState.sessOf 0 = some _ := rfl
    rw [this] at hb
    cases hb
    decide⟩

/-- one good step from the initial state exists (a connection is handed to the broker) -/
example : GoodReachable {} (({ cfg := {} } : BState).setConn 0 {}) :=
  GoodReachable.step GoodReachable.init (BrokerB3.GoodStep.stim (.conn 0) _ trivial rfl List.mem_cons_self)

end C16
