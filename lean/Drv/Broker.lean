import Model.Broker
import Model.Wire
/- Drv/Broker.lean — line protocol of the broker domain (C06–C08, C11–C16, C20). -/
namespace Drv.Broker
open Wire BState

structure St where
  s : BState := {}

def res (st : St) (r : Res) : St × String :=
  match r with
  | .ok s => ({ s := s }, "ok")
  | .queueFull s => ({ s := s }, "ok")
  | .unsupported why => (st, "unsupported: " ++ why)

def obs (st : St) (o : Obs) : St × String :=
  match observe st.s o with
  | some s => ({ s := s }, "ok")
  | none => (st, "reject")

def pCred (s : String) : Option (Bytes × Bytes) :=
  match s.splitOn ":" with
  | [u, p] => do some (← pHx u, ← pHx p)
  | _ => none

def handle (st : St) (toks : List String) : Option (St × String) :=
  match toks with
  | ["new", w, q, creds] => do
    let w ← w.toNat?; let q ← q.toNat?
    let cr ← (if creds == "-" then some none else (pList pCred creds).map some)
    some ({ s := { cfg := { window := w, queue := q, creds := cr } } }, "ok")
  | ["conn", c] => do let c ← c.toNat?; some (res st (stim st.s (.conn c)))
  | "send" :: c :: rest => do
    let c ← c.toNat?; let p ← parsePacket rest
    some (res st (stim st.s (.send c p)))
  | ["drop", c] => do let c ← c.toNat?; some (res st (stim st.s (.drop c)))
  | ["ackmode", m] =>
    (match m with
     | "sync" => some ({ s := { st.s with lateAck := false, neverAck := false } }, "ok")
     | "late" => some ({ s := { st.s with lateAck := true, neverAck := false } }, "ok")
     | "never" => some ({ s := { st.s with lateAck := false, neverAck := true } }, "ok")
     | _ => none)
  | ["ackrelease"] => some (res st (stim st.s .ackRelease))
  | ["bclose"] => some (res st (stim st.s .backendClose))
  | ["toktimeout", c] => do let c ← c.toNat?; some (res st (stim st.s (.tokenTimeout c)))
  | "obs" :: "sent" :: c :: rest => do
    let c ← c.toNat?; let p ← parsePacket rest
    some (obs st (.sent c p))
  | "obs" :: "sendfail" :: c :: rest => do
    let c ← c.toNat?; let p ← parsePacket rest
    some (obs st (.sendFail c p))
  | ["obs", "closed", c] => do let c ← c.toNat?; some (obs st (.closed c))
  | ["obs", "bpublish", c, m] => do
    let c ← c.toNat?; let m ← pMessage m
    some (obs st (.backend (.publish c m)))
  | ["obs", "terminate", c] => do let c ← c.toNat?; some (obs st (.backend (.terminate c)))
  | ["obs", "setup", c, r] => do
    let c ← c.toNat?; let r ← pBool r
    some (obs st (.backend (.setup c r)))
  | ["settle"] =>
    some (st, match settle st.s with | none => "ok" | some why => "reject: " ++ why)
  | _ => none

end Drv.Broker
