import Model.Broker
import Model.Wire
/- Drv/Broker.lean — line protocol of the broker domain (C06–C08, C11–C16, C20). -/
namespace Drv.Broker
open Wire BState

structure St where
  ss : List BState := [{}]

/-- keep the candidate set small: drop states that print alike -/
def prune (ss : List BState) : List BState :=
  if ss.length ≤ 4 then ss else
  let keyed := ss.map (fun s => (toString (repr s), s))
  let rec go : List (String × BState) → List String → List BState → List BState
    | [], _, acc => acc.reverse
    | (k, s) :: rest, seen, acc => if seen.contains k then go rest seen acc else go rest (k :: seen) (s :: acc)
  (go keyed [] []).take 256

def applyStim (st : St) (f : BState → Res) : St × String :=
  let rs := st.ss.map f
  let oks := rs.flatMap (fun r => match r with | .ok ss => ss | .unsupported _ => [])
  match oks with
  | [] =>
    (match rs.findSome? (fun r => match r with | .unsupported w => some w | _ => none) with
     | some w => (st, "unsupported: " ++ w)
     | none => (st, "reject"))
  | _ => ({ ss := prune oks }, "ok")

def obs (st : St) (o : Obs) : St × String :=
  match st.ss.flatMap (fun s => observe s o) with
  | [] => (st, "reject")
  | ss => ({ ss := prune ss }, "ok")

def mapAll (st : St) (f : BState → BState) : St := { ss := st.ss.map f }

def pCred (s : String) : Option (Bytes × Bytes) :=
  match s.splitOn ":" with
  | [u, p] => do some (← pHx u, ← pHx p)
  | _ => none

def handle (st : St) (toks : List String) : Option (St × String) :=
  match toks with
  | ["new", w, q, creds] => do
    let w ← w.toNat?; let q ← q.toNat?
    let cr ← (if creds == "-" then some none else (pList pCred creds).map some)
    some ({ ss := [{ cfg := { window := w, queue := q, creds := cr } }] }, "ok")
  | ["defaults", w, pp, ps, q] => do
    -- the defaults of broker.NewMemoryBackend() as the harness reads them from the real package: the model's `Cfg`
    -- defaults (used for every field a script does not set) must be the same numbers
    let w ← w.toNat?; let pp ← pp.toNat?; let ps ← ps.toNat?; let q ← q.toNat?
    let d : Cfg := {}
    some (st, if d.window = w ∧ d.parPub = pp ∧ d.parSub = ps ∧ d.queue = q then "ok" else "reject")
  | ["conn", c] => do let c ← c.toNat?; some (applyStim st (fun s => stim s (.conn c)))
  | "send" :: c :: rest => do
    let c ← c.toNat?; let p ← parsePacket rest
    some (applyStim st (fun s => stim s (.send c p)))
  | ["drop", c] => do let c ← c.toNat?; some (applyStim st (fun s => stim s (.drop c)))
  | ["ackmode", m] =>
    (match m with
     | "sync" => some (mapAll st (fun s => { s with lateAck := false, neverAck := false }), "ok")
     | "late" => some (mapAll st (fun s => { s with lateAck := true, neverAck := false }), "ok")
     | "never" => some (mapAll st (fun s => { s with lateAck := false, neverAck := true }), "ok")
     | _ => none)
  | ["ackrelease"] => some (applyStim st (fun s => stim s .ackRelease))
  | ["bclose"] => some (applyStim st (fun s => stim s .backendClose))
  | ["stall", c] => do let c ← c.toNat?; some (applyStim st (fun s => stim s (.stall c)))
  | ["unstall", c] => do let c ← c.toNat?; some (applyStim st (fun s => stim s (.unstall c)))
  | ["toktimeout", c] => do let c ← c.toNat?; some (applyStim st (fun s => stim s (.tokenTimeout c)))
  | "obs" :: "sent" :: c :: rest => do
    let c ← c.toNat?; let p ← parsePacket rest
    some (obs st (.sent c p))
  | "obs" :: "sendfail" :: c :: rest => do
    let c ← c.toNat?; let p ← parsePacket rest
    some (obs st (.sendFail c p))
  | ["obs", "closed", c] => do let c ← c.toNat?; some (obs st (.closed c))
  | ["obs", "bpublish", c, m] => do
    let c ← c.toNat?; let m ← pMessage m
    some (obs st (.backend (.publish c m)))
  | ["obs", "terminate", c] => do let c ← c.toNat?; some (obs st (.backend (.terminate c)))
  | ["obs", "setup", c, r] => do
    let c ← c.toNat?; let r ← pBool r
    some (obs st (.backend (.setup c r)))
  | ["settle"] =>
    (match st.ss.filter (fun s => (settle s).isNone) with
     | [] => some (st, "reject: " ++ ((st.ss.head?.bind settle).getD "?"))
     | ss => some ({ ss := ss }, "ok"))
  | ["worlds"] => some (st, toString st.ss.length)
  | _ => none

end Drv.Broker
