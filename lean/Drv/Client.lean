import Model.Client
import Model.Wire
/- Drv/Client.lean — line protocol of the client domain (C09, C10): every line is one visible
   event of a real `client.Client` run; the answer is `ok` iff it is an enabled next step of
   `Model/Client.lean` in one of the candidate states (hidden steps are searched). -/
namespace Drv.Client
open Wire Cl

structure CSt where
  fx : Fix := Fix.repaired
  ss : List St := [{}]

def pTh (s : String) : Option Th :=
  match s with | "a" => some .api | "p" => some .proc | "k" => some .ping | _ => none

def pDir (s : String) : Option Direction :=
  match s with | "in" => some .incoming | "out" => some .outgoing | _ => none

def pFix (s : String) : Option Fix :=
  match s.toList with
  | [a, b, c, d] =>
    let f (x : Char) : Option Bool := if x = '1' then some true else if x = '0' then some false else none
    do some ⟨← f a, ← f b, ← f c, ← f d⟩
  | _ => none

def pRetK (s : String) : Option RetK :=
  match s with
  | "fut" => some .fut | "ok" => some .ok | "already" => some .errAlready | "dial" => some .errDial
  | "notconnected" => some .errNotConnected | "err" => some .err | "exhausted" => some .errExhausted | _ => none

def pRes (toks : List String) : Option FRes :=
  match toks with
  | ["nil"] => some .nil
  | ["connack", sp, code] => do some (.connack (← pBool sp) (← pU8 code))
  | ["suback", cs] => do some (.suback (← pList pU8 cs))
  | _ => none

def pFSt (toks : List String) : Option FSt :=
  match toks with
  | ["pending"] => some .pending
  | "completed" :: r => do some (.completed (← pRes r))
  | "cancelled" :: r => do some (.cancelled (← pRes r))
  | _ => none

/-- accept one visible label -/
def fire (st : CSt) (l : Label) : CSt × String :=
  let cl := closureOf st.fx st.ss
  match cl.filterMap (fun s => step st.fx s l) with
  | [] => ({ st with ss := cl }, "reject")
  | ss => ({ st with ss := ss }, "ok")

def check (st : CSt) (f : St → Bool) : CSt × String :=
  let cl := closureOf st.fx st.ss
  match cl.filter f with
  | [] => ({ st with ss := cl }, "reject")
  | ss => ({ st with ss := ss }, "ok")

def futOf (s : St) (n : Nat) : Option FSt := do
  let h ← s.rets[n]?
  s.futs[h]?

def handle (st : CSt) (toks : List String) : Option (CSt × String) :=
  match toks with
  | ["new", fx] => do some ({ fx := ← pFix fx, ss := [{}] }, "ok")
  | ["newclient"] => some (fire st .newClient)
  | "connect" :: early :: validate :: ka :: rest => do
    let p ← parsePacket rest
    some (fire st (.aConnect p (← pBool early) (← pBool validate) (← pBool ka)))
  | ["dial", ok] => do some (fire st (.dial (← pBool ok)))
  | ["pub", m] => do some (fire st (.aReq (.pub (← pMessage m))))
  | ["sub", ss] => do some (fire st (.aReq (.sub (← pList pSub ss))))
  | ["unsub", ts] => do some (fire st (.aReq (.unsub (← pList pHx ts))))
  | ["disconnect", aw] => do some (fire st (.aDisconnect (← pBool aw)))
  | ["close"] => some (fire st .aClose)
  | ["ret", k] => do some (fire st (.aRet (← pRetK k)))
  | ["nextid", id] => do some (fire st (.sNextID (← pU16 id)))
  | "save" :: t :: d :: ok :: rest => do
    some (fire st (.sSave (← pTh t) (← pDir d) (← parsePacket rest) (← pBool ok)))
  | ["lookup", d, id, "fail"] => do some (fire st (.sLookup (← pDir d) (← pU16 id) .fail))
  | ["lookup", d, id, "none"] => do some (fire st (.sLookup (← pDir d) (← pU16 id) (.found none)))
  | "lookup" :: d :: id :: rest => do
    some (fire st (.sLookup (← pDir d) (← pU16 id) (.found (some (← parsePacket rest)))))
  | ["del", t, d, id, ok] => do some (fire st (.sDel (← pTh t) (← pDir d) (← pU16 id) (← pBool ok)))
  | ["all", ok] => do some (fire st (.sAll (← pBool ok)))
  | ["reset", t, ok] => do some (fire st (.sReset (← pTh t) (← pBool ok)))
  | "send" :: t :: ok :: rest => do some (fire st (.send (← pTh t) (← parsePacket rest) (← pBool ok)))
  | ["closec", t, ok] => do some (fire st (.close (← pTh t) (← pBool ok)))
  | "recv" :: rest => do some (fire st (.recv (← parsePacket rest)))
  | ["recverr"] => some (fire st .recvErr)
  | ["cb", ok, m] => do some (fire st (.cb (← pMessage m) (← pBool ok)))
  | ["cberr", t] => do some (fire st (.cbErr (← pTh t)))
  | "fut" :: n :: rest => do
    let n ← n.toNat?; let f ← pFSt rest
    some (check st (fun s => futOf s n == some f))
  | ["acc", n, which, v] => do
    let n ← n.toNat?
    let want : Acc ← (match which with
      | "sp" => (pBool v).map Acc.bool
      | "rc" => (pU8 v).map Acc.code
      | "rcs" => if v == "nil" then some (Acc.codes none) else (pList pU8 v).map (fun l => Acc.codes (some l))
      | _ => none)
    some (check st (fun s =>
      match futOf s n with
      | some f => (match which with
                   | "sp" => accSessionPresent f == want
                   | "rc" => accReturnCode f == want
                   | _ => accReturnCodes f == want)
      | none => false))
  | ["settle"] => some (check st (fun s => blockedThread st.fx s .api && blockedThread st.fx s .proc && blockedThread st.fx s .ping))
  | ["settle", t] => do
    let t ← pTh t
    some (check st (fun s => [Th.api, Th.proc, Th.ping].all (fun u => u == t || blockedThread st.fx s u)))
  | ["hang", _] => some (check st (fun s => s.api == .blocked))
  | ["worlds"] => some (st, toString st.ss.length)
  | ["dump"] => some (st, toString (repr (st.ss.map (fun s => (s.state, s.api, s.proc, s.ping)))))
  | _ => none

end Drv.Client
