import Model.Session
import Model.Wire
/- Drv/Session.lean — line protocol of the session domain (C18). -/
namespace Drv.Session
open Wire

structure St where
  sess : MemorySession := {}

def pDir (s : String) : Option Direction :=
  if s == "in" then some .incoming else if s == "out" then some .outgoing else none

def handle (st : St) (toks : List String) : Option (St × String) :=
  match toks with
  | ["new"] => some ({}, "ok")
  | ["counter", n] => do
    let n ← pU16 n
    some ({ sess := { st.sess with counter := ⟨n⟩ } }, "ok")
  | ["creset"] => some ({ sess := { st.sess with counter := st.sess.counter.reset } }, "ok")
  | ["nextid"] =>
    let (id, s) := st.sess.nextID
    some ({ sess := s }, toString id.toNat)
  | ["nextids", k] => do
    -- k allocations; prints first, last, and whether all were non-zero and pairwise distinct
    let k ← k.toNat?
    let rec go : Nat → MemorySession → List Nat → MemorySession × List Nat
      | 0, s, acc => (s, acc)
      | n + 1, s, acc => let (id, s') := s.nextID; go n s' (id.toNat :: acc)
    let (s, ids) := go k st.sess []
    let sum := ids.foldl (· + ·) 0
    let xs := ids.foldl (fun a b => (a * 31 + b) % 1000000007) 7
    some ({ sess := s }, s!"{ids.getLast?.getD 0} {ids.head?.getD 0} {sum} {xs}")
  | "save" :: d :: rest => do
    let d ← pDir d; let p ← parsePacket rest
    some ({ sess := st.sess.savePacket d p }, "ok")
  | ["lookup", d, id] => do
    let d ← pDir d; let id ← pU16 id
    some (st, match st.sess.lookupPacket d id with | some p => showPacket p | none => "nil")
  | ["delete", d, id] => do
    let d ← pDir d; let id ← pU16 id
    some ({ sess := st.sess.deletePacket d id }, "ok")
  | ["all", d] => do
    -- C18 treats the listing as a set: canonical (sorted) order
    let d ← pDir d
    let l := ((st.sess.allPackets d).map showPacket).toArray.qsort (· < ·)
    some (st, "[" ++ " | ".intercalate l.toList ++ "]")
  | ["allord", d] => do
    -- C15: the listing in the order of (re)saving
    let d ← pDir d
    some (st, "[" ++ " | ".intercalate ((st.sess.allPackets d).map showPacket) ++ "]")
  | ["clear", d] => do
    -- the store of one direction starts again from nothing (the saves that follow rebuild it: NewPacketStoreWithPackets)
    let d ← pDir d
    some ({ sess := st.sess.setStore d {} }, "ok")
  | ["reset"] => some ({ sess := st.sess.reset }, "ok")
  | _ => none

end Drv.Session
