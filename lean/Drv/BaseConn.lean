import Model.BaseConn
import Model.Codec
import Model.Wire
import Std.Data.HashSet
/-
  Drv/BaseConn.lean — line protocol of the BaseConn LTS (C19).

  Scripted operations (one real call at quiescence) are answered with the model's canonical
  outcome and the observable part of the state:

      <outcome> w=<bytes newly on the wire> b=<bytes buffered in the writer> r=<#bytes buffered in
      the reader> f=<berr><werr><timer armed><carrier closed>

      bc new <delayMs> <cap> <dlClosedFails 0|1>
      bc send <g> <hex> async|sync        bc sendbad <g>       bc close        bc recv
      bc advance      (the flush delay elapses: the timer fires if armed)
      bc expire       (the read timeout elapses: timer first, then the deadline)
      bc peerdata <hex>   bc peerclose   bc fail write|read|deadline|close <k>
      bc rtimeout 0|1     bc delay <ms>

  Concurrent operations: all calls that returned within one instant of the fake clock form a
  group; their order is unknown.  `bc g <gid> <op…> <observed outcome>` queues a call (answer
  `ok`), `bc endg <t> w=… b=… r=… f=…` asks whether SOME interleaving of the queued calls (program
  order kept per goroutine, timer callbacks that are due at `t` interleaved at will) gives every
  call its observed outcome and ends in the observed state: `ok` or `reject`.  The model is an
  acceptor there: scheduling freedom of the code is freedom of the model.
-/
namespace Drv.BC
open BaseConn Wire

/-- `Decoder.Read` minus the I/O, on the MQTT fixed header: detection with 2..5 bytes, type check,
    whole packet, decode (Model.Codec) -/
def mqttFrameAt (b : Bytes) : Nat → Nat → FrameRes
  | _, 0 => .bad b
  | dl, fuel + 1 =>
    if b.length < dl then .need false
    else
      let d := detectPacket (b.take dl)
      if d.1 ≤ 0 then (if dl ≥ 5 then .bad b else mqttFrameAt b (dl + 1) fuel)
      else
        match PType.ofCode? d.2 with
        | none => .bad b
        | some ty =>
          let n := d.1.toNat
          if b.length < n then .need true
          else match decode ty (b.take n) with
            | .ok _ _ => .pkt (b.take n) (b.drop n)
            | .err _ _ => .bad (b.drop n)

def mqttFrame (b : Bytes) : FrameRes := mqttFrameAt b 2 4

inductive GOp where
  | send (g : Nat) (bs : Bytes) (async : Bool)
  | sendBad (g : Nat)
  | close
  | recv
  deriving Repr

def GOp.ev : GOp → Event
  | .send g bs a => .send g bs a
  | .sendBad g => .sendInvalid g
  | .close => .close
  | .recv => .receive

structure GItem where
  gid : Nat
  op : GOp
  obs : Outcome
  deriving Repr

structure St where
  cfg : Cfg := { cap := 4096, dlClosedFails := true, frame := mqttFrame }
  s : State := {}
  delayMs : Nat := 0
  seen : Nat := 0            -- length of the wire already reported
  dues : List Nat := []      -- instants at which a flush timer armed earlier comes due
  grp : List GItem := []     -- queued calls of the current group, in arrival order
  pending : Bool := false    -- scripted mode: a `Receive` is waiting; it is resumed after every operation
  alts : List State := []    -- concurrent mode: the other states the groups so far may have ended in — interleavings that
                             -- end in the same observable state can differ in what is not observable (carrier writes left
                             -- until an injected failure, …); the next group may start from any of them

def b01 (b : Bool) : String := if b then "1" else "0"

/-- `r` is not reported while a `Receive` waits: the waiting call has already moved part of a
    packet out of the reader into its own buffer (`io.ReadFull`), which the model keeps in `rbuf` -/
def suffix (seen : Nat) (s : State) (waiting : Bool := false) : String :=
  let r := if waiting then "-" else toString s.rbuf.length
  s!"w={hx (s.wire.drop seen)} b={hx s.buf} r={r} f={b01 s.berr}{b01 s.werr}{b01 s.timerArmed}{b01 s.closed}"

def showOutcome : Outcome → String
  | .ok => "ok"
  | .err => "err"
  | .pkt p => "pkt " ++ hx p
  | .block => "block"

def pOutcome : List String → Option Outcome
  | ["ok"] => some .ok
  | ["err"] => some .err
  | ["block"] => some .block
  | ["pkt", h] => (pHx h).map .pkt
  | _ => none

/-- the driver does not keep what it has already reported: `step` only ever appends to `wire` and
    to the ghost history, it never reads them -/
def forget (s : State) : State := { s with wire := [], hist := [] }

/-- scripted mode: after an operation a waiting `Receive` is the same call resumed -/
def finish (st : St) (seen0 : Nat) (out : String) : St × String :=
  if st.pending then
    let r := step st.cfg st.s .receive
    ({ st with s := forget r.1, seen := 0, pending := r.2 == .block },
      out ++ " & recv " ++ showOutcome r.2 ++ " " ++ suffix seen0 r.1 (r.2 == .block))
  else ({ st with s := forget st.s, seen := 0 }, out ++ " " ++ suffix seen0 st.s)

/-- apply one event, answer canonically -/
def apply (st : St) (e : Event) : St × String :=
  let r := step st.cfg st.s e
  match e with
  | .receive =>
    ({ st with s := forget r.1, seen := 0, pending := r.2 == .block },
      showOutcome r.2 ++ " " ++ suffix st.seen r.1 (r.2 == .block))
  | _ => finish { st with s := r.1 } st.seen (showOutcome r.2)

def applyMany (st : St) (es : List Event) : St × String :=
  let s' := es.foldl (fun s e => (step st.cfg s e).1) st.s
  finish { st with s := s' } st.seen "ok"

def pKind : String → Option FailKind
  | "write" => some .write | "read" => some .read | "deadline" => some .deadline | "close" => some .close
  | _ => none

def pGOp : List String → Option (GOp × List String)
  | "send" :: g :: h :: m :: rest => do
    let g ← g.toNat?; let bs ← pHx h
    let a ← (if m == "async" then some true else if m == "sync" then some false else none)
    some (.send g bs a, rest)
  | "sendbad" :: g :: rest => do some (.sendBad (← g.toNat?), rest)
  | "close" :: rest => some (.close, rest)
  | "recv" :: rest => some (.recv, rest)
  | _ => none

/-! ### the group acceptor: depth-first search over interleavings, bounded by fuel -/

structure Snap where
  w : Bytes
  b : Bytes
  r : Option Nat
  berr : Bool
  werr : Bool
  timer : Bool
  closed : Bool

structure Node where
  s : State
  dues : List Nat
  qs : List (List GItem)

def isPrefix : Bytes → Bytes → Bool
  | [], _ => true
  | _ :: _, [] => false
  | a :: as, b :: bs => a == b && isPrefix as bs

/-- can this state still lead to the observed one?  `wire ++ buf` only ever grows by appending
    (and is frozen once the writer has failed), the flags `berr` / `closed` never go back -/
def feasible (seen : Nat) (t : Snap) (s : State) : Bool :=
  let d := s.wire.drop seen
  isPrefix d t.w && isPrefix (d ++ s.buf) (t.w ++ t.b) && (!s.closed || t.closed) && (!s.berr || t.berr)
    && (!s.berr || (d == t.w && s.buf == t.b))

def matchesSnap (seen : Nat) (t : Snap) (s : State) : Bool :=
  s.wire.drop seen == t.w && s.buf == t.b && (match t.r with | some n => s.rbuf.length == n | none => true) && s.berr == t.berr && s.werr == t.werr
    && s.timerArmed == t.timer && s.closed == t.closed

/-- children of a node: the next call of any goroutine whose model outcome equals the observed
    one, or a timer callback that is due now -/
def children (C : Cfg) (seen now _delay : Nat) (t : Snap) (recvFails : Bool) (n : Node) : List Node :=
  let rec calls (pre : List (List GItem)) : List (List GItem) → List Node
    | [] => []
    | [] :: post => calls (pre ++ [[]]) post
    | (it :: rest) :: post =>
      let r := step C n.s it.op.ev
      let here :=
        if r.2 == it.obs && feasible seen t r.1 then
          [{ s := r.1, dues := n.dues, qs := pre ++ [rest] ++ post : Node }]
        else []
      here ++ calls (pre ++ [it :: rest]) post
  let timer :=
    if n.dues.contains now then
      let s' := mercTimer n.s
      if feasible seen t s' then [{ s := s', dues := n.dues, qs := n.qs : Node }] else []
    else []
  -- `Receive`'s error path closes the carrier outside `sendMutex`: that close can land between two
  -- carrier writes of one `Send`, or between the flush and the carrier close of `Close`.  For the
  -- sender side this is the carrier refusing the second write / the close call, i.e. the
  -- environment events `carrierFail write 1` / `carrierFail close 0` right before the call.
  let mid :=
    if recvFails && t.closed && !n.s.closed then
      (if n.s.wfailIn.isNone then [{ n with s := { n.s with wfailIn := some 1 } }] else [])
      ++ (if n.s.cfailIn.isNone then [{ n with s := { n.s with cfailIn := some 0 } }] else [])
    else []
  calls [] n.qs ++ timer ++ mid

def ob (b : Bool) : Nat := if b then 1 else 0
def oo : Option Nat → Nat
  | none => 0
  | some k => k + 1

/-- what distinguishes two nodes of one search (given feasibility, lengths determine contents) -/
def Node.key (n : Node) : List Nat :=
  let s := n.s
  [s.wire.length, s.buf.length, s.rbuf.length, s.inbox.length, ob s.berr, ob s.werr, ob s.timerArmed, ob s.closed,
   ob s.expired, ob s.deadlineArmed, ob s.peerClosed, oo s.wfailIn, oo s.rfailIn, oo s.dfailIn, oo s.cfailIn]
  ++ n.qs.map (·.length) ++ [0] ++ n.dues

def search (C : Cfg) (seen now delay : Nat) (t : Snap) (rf : Bool) : Nat → Std.HashSet (List Nat) → List Node → Option Node
  | 0, _, _ => none
  | _, _, [] => none
  | fuel + 1, vis, n :: stack =>
    if n.qs.all (·.isEmpty) && matchesSnap seen t n.s then some n
    else
      let k := n.key
      if vis.contains k then search C seen now delay t rf fuel vis stack
      else search C seen now delay t rf fuel (vis.insert k) (children C seen now delay t rf n ++ stack)

/-- every end state some interleaving reaches (distinct by `Node.key`, at most 24 of them), not just the first -/
def searchAll (C : Cfg) (seen now delay : Nat) (t : Snap) (rf : Bool) :
    Nat → Std.HashSet (List Nat) → List Node → List Node → List Node
  | 0, _, _, acc => acc
  | _, _, [], acc => acc
  | fuel + 1, vis, n :: stack, acc =>
    let k := n.key
    if vis.contains k then searchAll C seen now delay t rf fuel vis stack acc
    else if n.qs.all (·.isEmpty) && matchesSnap seen t n.s then
      searchAll C seen now delay t rf fuel (vis.insert k) stack (if acc.length < 24 then acc ++ [n] else acc)
    else searchAll C seen now delay t rf fuel (vis.insert k) (children C seen now delay t rf n ++ stack) acc

/-- queue the calls per goroutine, keeping arrival order inside each -/
def byGoroutine (items : List GItem) : List (List GItem) :=
  let gids := items.foldl (fun acc it => if acc.contains it.gid then acc else acc ++ [it.gid]) ([] : List Nat)
  gids.map (fun g => items.filter (·.gid == g))

def pSnap (toks : List String) : Option Snap :=
  match toks with
  | [w, b, r, f] => do
    let w ← (if w.startsWith "w=" then pHx (w.drop 2).toString else none)
    let b ← (if b.startsWith "b=" then pHx (b.drop 2).toString else none)
    let r ← (if r == "r=-" then some none else if r.startsWith "r=" then (r.drop 2).toString.toNat?.map some else none)
    match (f.drop 2).toString.toList with
    | [f1, f2, f3, f4] =>
      if f.startsWith "f=" then
        some { w := w, b := b, r := r, berr := f1 == '1', werr := f2 == '1', timer := f3 == '1', closed := f4 == '1' }
      else none
    | _ => none
  | _ => none

def handle (st : St) (toks : List String) : Option (St × String) :=
  match toks with
  | ["new", d, cap, dl] => do
    let d ← d.toNat?; let cap ← cap.toNat?; let dl ← pBool dl
    some ({ cfg := { cap := cap, dlClosedFails := dl, frame := mqttFrame }, s := { delay0 := d == 0 }, delayMs := d }, "ok")
  | ["advance"] => some (if st.s.timerArmed then applyMany st [.timerFire] else applyMany st [])
  | ["expire"] => some (applyMany st ((if st.s.timerArmed then [.timerFire] else []) ++ [.deadlineExpire]))
  | ["peerdata", h] => do let bs ← pHx h; some (apply st (.peerData bs))
  | ["peerclose"] => some (apply st .peerClose)
  | ["fail", k, n] => do let k ← pKind k; let n ← n.toNat?; some (apply st (.carrierFail k n))
  | ["rtimeout", b] => do let b ← pBool b; some (apply st (.setReadTimeout b))
  | ["delay", d] => do
    let d ← d.toNat?
    let (st', out) := apply st (.setDelay (d == 0))
    some ({ st' with delayMs := d }, out)
  | ["env", "peerdata", h] => do let bs ← pHx h; some ({ st with s := (step st.cfg st.s (.peerData bs)).1, alts := st.alts.map (fun a => (step st.cfg a (.peerData bs)).1) }, "ok")
  | ["env", "peerclose"] => some ({ st with s := (step st.cfg st.s .peerClose).1, alts := st.alts.map (fun a => (step st.cfg a .peerClose).1) }, "ok")
  | ["env", "dexpire"] => some ({ st with s := (step st.cfg st.s .deadlineExpire).1, alts := st.alts.map (fun a => (step st.cfg a .deadlineExpire).1) }, "ok")
  | ["env", "fail", k, n] => do
    let k ← pKind k; let n ← n.toNat?
    some ({ st with s := (step st.cfg st.s (.carrierFail k n)).1, alts := st.alts.map (fun a => (step st.cfg a (.carrierFail k n)).1) }, "ok")
  | ["env", "rtimeout", b] => do let b ← pBool b; some ({ st with s := (step st.cfg st.s (.setReadTimeout b)).1, alts := st.alts.map (fun a => (step st.cfg a (.setReadTimeout b)).1) }, "ok")
  | "g" :: gid :: rest => do
    let gid ← gid.toNat?
    let (op, obs) ← pGOp rest
    let o ← pOutcome obs
    some ({ st with grp := st.grp ++ [{ gid := gid, op := op, obs := o }] }, "ok")
  | "endg" :: t :: snap => do
    let now ← t.toNat?
    let sn ← pSnap snap
    let dues := st.dues.filter (· ≥ now)
    let roots : List Node := (st.s :: st.alts).map (fun s0 => { s := s0, dues := dues, qs := byGoroutine st.grp })
    let rf := st.grp.any (fun it => match it.op, it.obs with | .recv, .err => true | _, _ => false)
    match searchAll st.cfg st.seen now st.delayMs sn rf 400000 {} roots [] with
    | n :: more =>
      -- which callbacks are pending is not observable (a callback that lost the race against
      -- `Stop` clears `w.timer` while a newer timer is still running): any instant at which a send
      -- was accepted may have armed a timer
      let armed := st.grp.any (fun it => match it.op, it.obs with | .send _ _ _, .ok => true | _, _ => false)
      let dues' := if armed && st.delayMs > 0 then (now + st.delayMs) :: dues else dues
      some ({ st with s := forget n.s, alts := more.map (fun m => forget m.s), seen := 0, dues := dues', grp := [] }, "ok")
    | [] => some ({ st with grp := [] }, "reject " ++ suffix st.seen st.s)
  | _ => do
    let (op, rest) ← pGOp toks
    if rest.isEmpty then some (apply st op.ev) else none

end Drv.BC
