import Model.Codec
import Model.Ref
import Model.Wire
/- Drv/Codec.lean — line-protocol operations of the codec domain (C01, C02). -/
namespace Drv.Codec
open Wire

def showR (src : Bytes) (r : R Packet) : String :=
  match r with
  | .ok p _ => s!"n={consumed src r} ok {showPacket p}"
  | .err .err _ => s!"n={consumed src r} err"
  | .err .panic _ => "panic"

def showGoM (r : GoM Bytes) : String :=
  match r with
  | .ok b => s!"ok {hx b}"
  | .error .err => "err"
  | .error .panic => "panic"

def handle (toks : List String) : Option String :=
  match toks with
  | "enc" :: rest => do
    let p ← parsePacket rest
    some s!"len={p.len} {showGoM (encode p)}"
  | "encinto" :: cap :: rest => do
    let p ← parsePacket rest
    some (showGoM (encodeInto (← cap.toNat?) p))
  | "encwr" :: rest => do
    let p ← parsePacket rest
    some (showGoM (encode p))
  | ["enchdr", "publish", flags, rl, k, topicLP] => do
    -- maximal packets: header (and the first `k` bytes) only; body = topicLP ++ zeros
    let rl ← rl.toNat?
    let k ← k.toNat?
    let flags ← flags.toNat?
    let tl ← pHx topicLP
    some (match encodeHeader .publish flags rl with
      | .ok h => s!"len={Packet.headerLen rl + rl} ok {Packet.headerLen rl + rl} {hx ((h ++ tl ++ List.replicate k 0).take k)}"
      | .error _ => s!"len={Packet.headerLen rl + rl} err")
  | "norm" :: rest => do
    let p ← parsePacket rest
    some (showPacket p.norm)
  | "refenc" :: rest => do
    let p ← parsePacket rest
    some (match Ref.encode p with | some b => s!"ok {hx b}" | none => "err")
  | ["dec", t, h] => do
    let t ← pType t
    let b ← pHx h
    some (showR b (decode t b))
  | ["refdec", t, h] => do
    let t ← pType t
    let b ← pHx h
    some (match Ref.decode t b with | some p => s!"ok {showPacket p}" | none => "err")
  | ["detect", h] => do
    let b ← pHx h
    let (l, t) := detectPacket b
    some s!"{l} {t}"
  | ["uvarint", h] => do
    let b ← pHx h
    let (v, n) := uvarint b
    some s!"{v} {n}"
  | ["typenew", n] => do
    -- `Type.New()`: a packet value for the 14 defined types, an error for the two reserved nibbles — never a panic
    let n ← n.toNat?
    some (if 1 ≤ n ∧ n ≤ 14 then "ok" else "err")
  | ["putuvarint", n] => do some (hx (putUvarint (← n.toNat?)))
  | ["varintlen", n] => do some (toString (varintLen (← n.toNat?)))
  | "getid" :: rest => do
    let p ← parsePacket rest
    some (match p.getID with | some i => s!"{i.toNat} true" | none => "0 false")
  | _ => none

end Drv.Codec
