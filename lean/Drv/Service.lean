import Model.Service
import Model.Wire
/-
  Drv/Service.lean — line protocol of the service domain (C17, client clauses of C15).

  The harness runs the real `client.Service` on a fake clock.  Stimulus lines are events of the
  LTS in Model/Service.lean; the driver applies them with `Svc.step`, then lets the supervisor
  run (`sup …`) as long as exactly one continuation is enabled.  `sleep d` fires the timers
  that fall due, in order.  Every output of a step is queued as an expected observation with
  its fake time; an `obs` line must be the head of the queue of its class:
    P  processor goroutine   (msg, error callback)
    C  closed                (whichever goroutine closes the connection first)
    S  supervisor goroutine  (everything else)
    A  API caller            (ret, stopret)
  `settle` demands that nothing expected is left.  Durations (ms) are part of `new`.
-/
namespace Drv.Service
open Wire Svc

structure Tm where
  minD : Nat := 50
  maxD : Nat := 400
  connTO : Nat := 5000
  resubTO : Nat := 7000
  discTO : Nat := 11000
  queueTO : Nat := 3001
  awaitFix : Bool := true   -- `Store.Await` gives up at its deadline even when the timeout is 0 (repair 18)
  deriving Repr

structure St where
  s : SState := {}
  tm : Tm := {}
  now : Nat := 0
  supDl : Option Nat := none
  callDl : Option Nat := none
  expP : List (Nat × Obs) := []
  expC : List (Nat × Obs) := []
  expS : List (Nat × Obs) := []
  expA : List (Nat × Obs) := []
  futSeen : List (Nat × FutSt) := []
  bad : Option String := none

def showPlan : PlanKind → String
  | .ok => "ok" | .refuse => "refuse" | .sendfail => "sendfail"

def showSys : Sys → String
  | .connect => "connect" | .callback => "callback" | .resubscribe => "resubscribe"
  | .subscribe => "subscribe" | .unsubscribe => "unsubscribe" | .publish => "publish"
  | .disconnect => "disconnect"

def showObs : Obs → String
  | .dial c k => s!"dial {c} {showPlan k}"
  | .sent c p => s!"sent {c} {showPacket p}"
  | .sendfail c p => s!"sendfail {c} {showPacket p}"
  | .closed c => s!"closed {c}"
  | .online sp => s!"online {bool sp}"
  | .offline => "offline"
  | .error sys => s!"error {showSys sys}"
  | .msg m => s!"msg {showMessage m}"
  | .stopret b => s!"stopret {bool b}"
  | .ret n q => s!"ret {n} {if q then "queued" else "timeout"}"

inductive Cls where | P | C | S | A

def classOf : Obs → Cls
  | .msg _ => .P
  | .error .callback => .P
  | .closed _ => .C
  | .stopret _ => .A
  | .ret _ _ => .A
  | _ => .S

def pushObs (st : St) (t : Nat) (os : List Obs) : St :=
  os.foldl (fun st o =>
    match classOf o with
    | .P => { st with expP := st.expP ++ [(t, o)] }
    | .C => { st with expC := st.expC ++ [(t, o)] }
    | .S => { st with expS := st.expS ++ [(t, o)] }
    | .A => { st with expA := st.expA ++ [(t, o)] }) st

def backoffDur (tm : Tm) (attempt : Nat) : Nat :=
  if tm.minD ≥ tm.maxD then tm.maxD else Nat.min (tm.minD * 2 ^ attempt) tm.maxD

/-- the deadline of the wait the supervisor has just entered -/
def newDeadline (tm : Tm) (s : SState) (t : Nat) : Option Nat :=
  match s.phase with
  | .backoff => some (t + backoffDur tm (s.attempt - 1))
  | .connWait => some (t + tm.connTO)
  | .resubWait _ => some (t + tm.resubTO)
  | .discAwait =>
    -- today `Await(0)` calls `Wait(0)`, which waits for ever (until the store is empty)
    if tm.discTO = 0 && !tm.awaitFix then none else some (t + tm.discTO)
  | _ => none

def timed : Phase → Bool
  | .backoff | .connWait | .resubWait _ | .discAwait => true
  | _ => false

/-- apply one event at fake time `t` -/
def apply (st : St) (t : Nat) (e : Ev) : Option St :=
  match step st.s e with
  | none => none
  | some (s', os) =>
    let st1 := pushObs { st with s := s' } t os
    let dl := if s'.epoch != st.s.epoch then newDeadline st.tm s' t
              else if timed s'.phase then st.supDl else none
    some { st1 with supDl := dl }

/-- which continuations of the supervisor are enabled -/
def supEnabled (s : SState) : List SupChoice :=
  [SupChoice.run, .take, .dying, .kill].filter fun ch => (supStep s ch).isSome

/-- let the supervisor run until it waits -/
def runSup : Nat → St → Nat → St
  | 0, st, _ => { st with bad := some "supervisor does not come to rest" }
  | fuel + 1, st, t =>
    match supEnabled st.s with
    | [] =>
      -- the supervisor has ended: a pending Stop returns
      if st.s.stopping.isSome && st.s.phase == .exited then
        (match apply st t .stopRet with
         | some st' => st'
         | none => st)
      else st
    | [ch] =>
      (match apply st t (.sup ch) with
       | some st' => runSup fuel st' t
       | none => st)
    | _ => { st with bad := some "race: several continuations of the supervisor are enabled" }

def fuelFor (st : St) (d : Nat) : Nat := 4 * (d / (if st.tm.minD = 0 then 1 else st.tm.minD)) + 64

/-- advance the fake clock to `target`, firing what falls due; with `untilUnblocked` stop as
    soon as the blocked API caller got through or gave up -/
def advance : Nat → St → Nat → Bool → St
  | 0, st, _, _ => { st with bad := some "timer loop does not end" }
  | fuel + 1, st, target, untilUnblocked =>
    if untilUnblocked && st.s.blocked.isNone then st
    else
      let supDue := match st.supDl with | some d => if d ≤ target then some d else none | none => none
      let callDue := match st.callDl with
        | some d => if d ≤ target && st.s.blocked.isSome then some d else none
        | none => none
      let pick : Option (Bool × Nat) := match supDue, callDue with
        | none, none => none
        | some d, none => some (true, d)
        | none, some dc => some (false, dc)
        | some d, some dc => if d ≤ dc then some (true, d) else some (false, dc)
      -- (ties are excluded by the choice of durations; the supervisor would go first)
      match pick with
      | none => { st with now := if untilUnblocked then st.now else target }
      | some (true, d) =>
        (match apply { st with now := d } d .fire with
         | some st' => advance fuel (runSup 1000 st' d) target untilUnblocked
         | none => { st with bad := some "fire not enabled" })
      | some (false, dc) =>
        (match apply { st with now := dc, callDl := none } dc .callTimeout with
         | some st' => advance fuel st' target untilUnblocked
         | none => { st with bad := some "callTimeout not enabled" })

def answer (st : St) (ok : String) : St × String :=
  match st.bad with
  | some w => ({ st with bad := none }, "unsupported: " ++ w)
  | none => (st, ok)

/-- a stimulus at the current time, then the supervisor runs -/
def stim (st : St) (e : Ev) : St × String :=
  match apply st st.now e with
  | none => (st, "reject")
  | some st' =>
    let st' := runSup 1000 st' st'.now
    answer (advance 64 st' st'.now false) "ok"     -- (a zero timeout is due at once)

def popIf (q : List (Nat × Obs)) (t : Nat) (txt : String) : Option (List (Nat × Obs)) × String :=
  match q with
  | [] => (none, "reject: nothing expected")
  | (t', o) :: rest =>
    if t' = t && showObs o = txt then (some rest, "ok")
    else (none, s!"reject: expected @{t'} {showObs o}")

def clsOfText (toks : List String) : Cls :=
  match toks with
  | "msg" :: _ => .P
  | ["error", "callback"] => .P
  | "closed" :: _ => .C
  | "stopret" :: _ => .A
  | "ret" :: _ => .A
  | _ => .S

def obsLine (st : St) (t : Nat) (toks : List String) : St × String :=
  let txt := " ".intercalate toks
  match clsOfText toks with
  | .P => (match popIf st.expP t txt with | (some r, a) => ({ st with expP := r }, a) | (none, a) => (st, a))
  | .C => (match popIf st.expC t txt with | (some r, a) => ({ st with expC := r }, a) | (none, a) => (st, a))
  | .S => (match popIf st.expS t txt with | (some r, a) => ({ st with expS := r }, a) | (none, a) => (st, a))
  | .A => (match popIf st.expA t txt with | (some r, a) => ({ st with expA := r }, a) | (none, a) => (st, a))

def showFut : FutSt → String
  | .pending => "p" | .completed => "c" | .cancelled => "x"

def sortPairs (l : List (Nat × String)) : List (Nat × String) := (l.toArray.qsort (fun a b => a.1 < b.1)).toList

def futsLine (st : St) : St × String :=
  let changed := st.s.futs.filterMap fun (n, f) =>
    if f != .pending && futOf st.futSeen n != some f then some (n, showFut f) else none
  ({ st with futSeen := st.s.futs }, commaList ((sortPairs changed).map fun (n, f) => s!"{n}:{f}"))

def sortStr (l : List String) : List String := (l.toArray.qsort (· < ·)).toList

def stateLine (st : St) : String :=
  let s := st.s
  let ids := (s.store.map (·.1.toNat)).toArray.qsort (· < ·) |>.toList
  let subs := s.resubList.map fun x => s!"{hx x.topic}:{x.qos.toNat}"
  s!"started={bool s.started} q={s.queue.length} store={commaList (ids.map toString)} subs={commaList subs}"

def pFix (s : String) (cfg : Cfg) : Option Cfg :=
  if s == "-" then some cfg else
  (s.splitOn ",").foldlM (fun cfg f =>
    match f with
    | "9" => some { cfg with fix9 := true }
    | "15" => some { cfg with fix15 := true }
    | "16" => some { cfg with fix16 := true }
    | "17" => some { cfg with fix17 := true }
    | "18" => some cfg
    | _ => none) cfg

def handle (st : St) (toks : List String) : Option (St × String) :=
  match toks with
  | ["new", cap, resub, validate, clean, cid, fixes, minD, maxD, connTO, resubTO, discTO, queueTO] => do
    let cfg : Cfg := { cap := ← cap.toNat?, resubAll := ← pBool resub, validate := ← pBool validate,
                       clean := ← pBool clean, clientID := ← pHx cid }
    let cfg ← pFix fixes cfg
    let tm : Tm := { minD := ← minD.toNat?, maxD := ← maxD.toNat?, connTO := ← connTO.toNat?,
                     resubTO := ← resubTO.toNat?, discTO := ← discTO.toNat?, queueTO := ← queueTO.toNat?,
                     awaitFix := (fixes.splitOn ",").contains "18" }
    some ({ s := { cfg := cfg }, tm := tm }, "ok")
  | ["start"] =>
    let was := st.s.started
    (match apply st st.now .start with
     | none => some (st, "reject")
     | some st' => some (answer (runSup 1000 st' st'.now) (if was then "false" else "true")))
  | ["stopcall", clear] => do some (stim st (.stopCall (← pBool clear)))
  | ["stopret"] => some (stim st .stopRet)
  | "call" :: kind :: n :: rest => do
    let n ← n.toNat?
    let k ← (match kind, rest with
      | "pub", [m] => do some (CmdKind.publish (← pMessage m))
      | "sub", [ss] => do some (CmdKind.subscribe (← pList pSub ss))
      | "unsub", [ts] => do some (CmdKind.unsubscribe (← pList pHx ts))
      | _, _ => none)
    (match apply st st.now (.call ⟨n, k⟩) with
     | none => some (st, "reject")
     | some st' =>
       let st' := runSup 1000 st' st'.now
       if st'.s.blocked.isSome then
         let st' := { st' with callDl := some (st'.now + st'.tm.queueTO) }
         some (answer (advance (fuelFor st' st'.tm.queueTO) st' (st'.now + st'.tm.queueTO) true) "ok")
       else some (answer st' "ok"))
  | ["plan", k] =>
    (match k with
     | "ok" => some (stim st (.plan .ok))
     | "refuse" => some (stim st (.plan .refuse))
     | "sendfail" => some (stim st (.plan .sendfail))
     | _ => none)
  | "recv" :: c :: rest => do
    let c ← c.toNat?; let p ← parsePacket rest
    some (stim st (.recv c p))
  | ["drop", c] => do some (stim st (.drop (← c.toNat?)))
  | ["failnext", c] => do some (stim st (.failNext (← c.toNat?)))
  | ["procfail", c] => do some (stim st (.procFail (← c.toNat?)))
  | ["sleep", d] => do
    let d ← d.toNat?
    some (answer (advance (fuelFor st d) st (st.now + d) false) "ok")
  | "obs" :: t :: rest => do
    let t ← t.toNat?
    some (obsLine st t rest)
  | ["settle"] =>
    (match st.expP ++ st.expC ++ st.expS ++ st.expA with
     | [] => some (st, "ok")
     | (t, o) :: _ => some ({ st with expP := [], expC := [], expS := [], expA := [] }, s!"reject: missing @{t} {showObs o}"))
  | ["futs"] => some (futsLine st)
  | ["state"] => some (st, stateLine st)
  | ["now"] => some (st, toString st.now)
  | _ => none

end Drv.Service
