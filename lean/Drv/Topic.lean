import Model.Topic
import Model.TopicSpec
import Model.Wire
/- Drv/Topic.lean — line-protocol operations of the topic-tree domain (C04, C05). -/
namespace Drv.Topic
open Wire

structure St where
  root : Node := Node.empty
  spec : TopicMap := []

def sortNat (l : List Nat) : List Nat := (l.toArray.qsort (· < ·)).toList

def showList (l : List Nat) : String := "[" ++ ",".intercalate (l.map toString) ++ "]"
def showSorted (l : List Nat) : String := showList (sortNat l.eraseDups)

def handle (st : St) (toks : List String) : Option (St × String) :=
  match toks with
  | ["reset"] => some ({ root := Node.empty, spec := [] }, "ok")
  | ["add", t, v] => do
    let t ← pHx t; let v ← v.toNat?
    some ({ root := Tree.add t v st.root, spec := st.spec.add (walk t) v }, "ok")
  | ["set", t, v] => do
    let t ← pHx t; let v ← v.toNat?
    some ({ root := Tree.set t v st.root, spec := st.spec.set (walk t) v }, "ok")
  | ["remove", t, v] => do
    let t ← pHx t; let v ← v.toNat?
    some ({ root := Tree.remove t v st.root, spec := st.spec.remove (walk t) v }, "ok")
  | ["empty", t] => do
    let t ← pHx t
    some ({ root := Tree.emptyTopic t st.root, spec := st.spec.emptyTopic (walk t) }, "ok")
  | ["clear", v] => do
    let v ← v.toNat?
    some ({ root := Tree.clear v st.root, spec := st.spec.clear v }, "ok")
  | ["get", t] => do let t ← pHx t; some (st, showList (Tree.get t st.root))
  | ["match", t] => do let t ← pHx t; some (st, showSorted (Tree.match t st.root))
  | ["matchfirst", t] => do
    let t ← pHx t
    some (st, match Tree.matchFirst t st.root with | some v => toString v | none => "nil")
  | ["search", t] => do let t ← pHx t; some (st, showSorted (Tree.search t st.root))
  | ["searchfirst", t] => do
    let t ← pHx t
    some (st, if (Tree.search t st.root).isEmpty then "nil" else "some")
  | ["all"] => some (st, showSorted (Tree.all st.root))
  | ["count"] => some (st, toString (Tree.count st.root))
  -- the specification's answers (plain map + §4.7 matching on split levels)
  | ["specget", t] => do let t ← pHx t; some (st, showSorted (st.spec.lookup (splitLevels t)))
  | ["specmatch", t] => do let t ← pHx t; some (st, showSorted (st.spec.matchName (splitLevels t)))
  | ["specsearch", t] => do let t ← pHx t; some (st, showSorted (st.spec.searchFilter (splitLevels t)))
  | ["specall"] => some (st, showSorted st.spec.all)
  | ["speccount"] => some (st, toString st.spec.count)
  | ["walk", t] => do
    let t ← pHx t
    some (st, ",".intercalate ((walk t).map hx) ++ " " ++ ",".intercalate ((splitLevels t).map hx))
  | _ => none

end Drv.Topic
