import Model.Stream
import Model.Wire
/-
  Drv/Stream.lean — line-protocol operations of the stream domain (C03).

    stream read <limit> <eof|err> <0|1 dataFin> <chunk>,<chunk>,…      chunk = x<hex>, no chunks = -
        → pkts=[<packet text>;…] err=<enum>
    stream enc <cap> <ev> | <ev> | …      ev = wa <packet> | ws <packet> | f | t | d0 | d1 | x
        → steps=<ok|err>:<carrier writes so far>:<bytes on the wire so far>:<bytes buffered>,… wire=<chunk>,… buffered=x<hex>
    stream ws <limit> <close|error> <size>,<size>,… <msg>,<msg>,…     msg = b<frame>/<frame>… | t<frame>/… ; sizes used cyclically
        → out=<eof|notBinary|error> pkts=[…] err=<enum>
-/
namespace Drv.Stream
open Wire Framing

def showErr : Err → String
  | .eof => "eof" | .unexpectedEOF => "unexpectedEOF" | .detectionOverflow => "detectionOverflow"
  | .readLimit => "readLimit" | .invalidType => "invalidType" | .decodeErr => "decodeErr"
  | .ioErr => "ioErr" | .panic => "panic" | .noFuel => "noFuel"

def showAll (r : List Packet × Err) : String :=
  s!"pkts=[{";".intercalate (r.1.map showPacket)}] err={showErr r.2}"

def pChunks (s : String) : Option (List Bytes) := pList pHx s

def pFin (s : String) : Option Fin :=
  if s == "eof" then some .eof else if s == "err" then some .other else none

/-- split a token list at the `|` tokens -/
def splitBar : List String → List (List String)
  | [] => [[]]
  | t :: ts =>
    match splitBar ts with
    | [] => [[t]]
    | g :: gs => if t == "|" then [] :: g :: gs else (t :: g) :: gs

def pEv (toks : List String) : Option Ev :=
  match toks with
  | "wa" :: rest => do some (.write (← parsePacket rest) true)
  | "ws" :: rest => do some (.write (← parsePacket rest) false)
  | ["f"] => some .flush
  | ["t"] => some .timerFire
  | ["d0"] => some (.setDelay true)
  | ["d1"] => some (.setDelay false)
  | ["x"] => some .carrierFail
  | _ => none

def showStep (ok : Bool) (nw nb : Nat) (w : Writer) : String :=
  s!"{if ok then "ok" else "err"}:{nw}:{nb}:{w.buf.length}"

/-- run the events; `nw`/`nb` = carrier writes / bytes so far (kept incrementally: `wire` only grows) -/
def runShow (w : Writer) (nw nb : Nat) : List Ev → Writer × List String
  | [] => (w, [])
  | e :: es =>
    match step w e with
    | (w', ok) =>
      let added := w'.wire.drop nw
      let nw' := nw + added.length
      let nb' := added.foldl (fun a c => a + c.length) nb
      match runShow w' nw' nb' es with
      | (w'', out) => (w'', showStep ok nw' nb' w' :: out)

def pMsg (s : String) : Option Ws.Msg :=
  let bin := s.startsWith "b"
  if !bin && !s.startsWith "t" then none else
  let body := (s.drop 1).toString
  if body == "-" then some { binary := bin, frames := [] } else do
    let fr ← (body.splitOn "/").mapM pHx
    some { binary := bin, frames := fr }

/-- read with the sizes cyclically until the first error -/
def wsDrainAll : Nat → List Nat → List Nat → Ws.Conn → List Bytes × Ws.Out × Nat
  | 0, _, _, _ => ([], .error, 0)
  | fuel + 1, all, [], c => if all.isEmpty then ([], .error, 0) else wsDrainAll fuel all all c
  | fuel + 1, all, s :: ss, c =>
    match Ws.read s c with
    | (bs, .ok, c') =>
      (match wsDrainAll fuel all ss c' with
       | (cs, o, n) => (bs :: cs, o, n + 1))
    | (_, o, _) => ([], o, 1)

def showOut : Ws.Out → String
  | .ok => "ok" | .eof => "eof" | .notBinary => "notBinary" | .error => "error"

def handle (toks : List String) : Option String :=
  match toks with
  | ["read", limit, fin, df, chunks] => do
    let cs ← pChunks chunks
    let r := Reader.new cs (← pFin fin) (← pBool df)
    some (showAll (readAll (← limit.toNat?) r))
  | "enc" :: cap :: script => do
    let evs ← (splitBar script).mapM pEv
    let (w, steps) := runShow { cap := (← cap.toNat?) } 0 0 evs
    some s!"steps={commaList steps} wire={commaList (w.wire.map hx)} buffered={hx w.buf}"
  | ["ws", limit, fin, sizes, msgs] => do
    let fin ← (if fin == "close" then some Ws.End.close else if fin == "error" then some Ws.End.error else none)
    let sizes ← pList String.toNat? sizes
    if sizes.any (· == 0) then none
    let ms ← pList pMsg msgs
    let c : Ws.Conn := { msgs := ms, fin := fin }
    let fuel := 2 * (c.pending.length + ms.length) + 4
    let (cs, o, n) := wsDrainAll fuel sizes sizes c
    let r := Reader.new cs (if o == .eof then .eof else .other)
    let _ := n
    some s!"out={showOut o} {showAll (readAll (← limit.toNat?) r)}"
  | _ => none

end Drv.Stream
