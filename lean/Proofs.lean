import Proofs.CodecRT
import Proofs.CodecDec
import Proofs.TopicBasic
import Proofs.TopicMatch
import Proofs.TopicOps
import Proofs.Session
