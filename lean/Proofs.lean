import Proofs.CodecRT
import Proofs.TopicBasic
import Proofs.TopicMatch
import Proofs.TopicOps
import Proofs.Session
