import Proofs.TopicBasic
import Proofs.Session
