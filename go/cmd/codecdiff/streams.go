package main

import (
	"bytes"
	"fmt"
	"io"
	"sync"

	"github.com/256dpi/gomqtt/packet"
)

// What a stream decoder returns depends only on that stream's bytes (C02: "the result of decoding a packet depends
// only on that packet's own bytes"), also while other streams of the process encode and decode: one decoder reads
// PUBLISH packets filled with 0xAA while several goroutines write PUBLISH packets filled with 0x55 on streams of their
// own.  Implementation only (the model has no shared buffers); bounded to a fraction of a second.
func streamsDoNotInterfere(shard int) {
	if shard != 0 {
		return
	}
	const size = 1 << 20
	mine := &packet.Publish{Message: packet.Message{Topic: "inbound/topic", Payload: bytes.Repeat([]byte{0xAA}, size)}}
	one := make([]byte, mine.Len())
	mine.Encode(one)
	const n = 150
	var parts []io.Reader
	for i := 0; i < n; i++ {
		parts = append(parts, bytes.NewReader(one))
	}
	stop := make(chan struct{})
	var wg sync.WaitGroup
	for g := 0; g < 32; g++ {
		wg.Add(1)
		go func() {
			defer wg.Done()
			other := &packet.Publish{Message: packet.Message{Topic: "outbound/topic", Payload: bytes.Repeat([]byte{0x55}, size)}}
			enc := packet.NewEncoder(io.Discard)
			for {
				select {
				case <-stop:
					return
				default:
				}
				enc.Write(other, false)
			}
		}()
	}
	dec := packet.NewDecoder(io.MultiReader(parts...))
	bad := ""
	for i := 0; i < n && bad == ""; i++ {
		pkt, err := dec.Read()
		if err != nil {
			bad = fmt.Sprintf("packet %d: %v", i, err)
			break
		}
		p, ok := pkt.(*packet.Publish)
		if !ok || p.Message.Topic != "inbound/topic" || len(p.Message.Payload) != size {
			bad = fmt.Sprintf("packet %d decoded as %T topic %q, %d payload bytes", i, pkt, p.Message.Topic, len(p.Message.Payload))
			break
		}
		for j, b := range p.Message.Payload {
			if b != 0xAA {
				bad = fmt.Sprintf("packet %d: payload byte %d is 0x%02x, the stream only carries 0xaa (0x55 is what the other streams write)", i, j, b)
				break
			}
		}
	}
	close(stop)
	wg.Wait()
	w.Count("streams/interference-run")
	if bad != "" {
		w.Monitor("C02", "decode-depends-on-other-streams", "a stream decoder returned a packet that its own bytes do not explain while other streams of the process were encoding: "+bad,
			[]string{"one Decoder reads 150 PUBLISH packets of 1 MiB filled with 0xaa", "32 goroutines Encoder.Write PUBLISH packets of 1 MiB filled with 0x55 to io.Discard"})
	}
}
