// codecdiff — correspondence harness for the packet codec (properties C01, C02).
// It drives the real packet package from /repo and writes, line for line, the model
// operations and the implementation's canonical answers (see internal/out).
package main

import (
	"bytes"
	"encoding/binary"
	"flag"
	"fmt"
	"os"
	"strings"

	"github.com/256dpi/gomqtt/packet"

	"verifharness/lib/gen"
	"verifharness/lib/out"
	"verifharness/lib/wire"
)

var w *out.W

func encLine(p packet.Generic, cap int, dirty bool) (line string, enc []byte, ok bool) {
	defer func() {
		if r := recover(); r != nil {
			line, ok = "panic", false
		}
	}()
	buf := make([]byte, cap)
	if dirty {
		for i := range buf {
			buf[i] = 0xAA
		}
	}
	n, err := p.Encode(buf)
	if err != nil {
		return "err", nil, false
	}
	return "ok " + wire.Hx(buf[:n]), buf[:n], true
}

func decode(t packet.Type, src []byte) (line string, pkt packet.Generic, n int, ok bool) {
	defer func() {
		if r := recover(); r != nil {
			line, ok = "panic", false
		}
	}()
	pkt, err := t.New()
	if err != nil {
		return "bad-type", nil, 0, false
	}
	n, err = pkt.Decode(src)
	if err != nil {
		return fmt.Sprintf("n=%d err", n), nil, n, false
	}
	return fmt.Sprintf("n=%d ok %s", n, wire.ShowPacket(pkt)), pkt, n, true
}

func rlClass(rl int) string {
	switch {
	case rl < 128:
		return "rl1"
	case rl < 16384:
		return "rl2"
	case rl < 2097152:
		return "rl3"
	}
	return "rl4"
}

// one well-formed packet: all C01 operations
func c01Packet(r *gen.Rng, p packet.Generic, big bool) {
	text := wire.ShowPacket(p)
	tn := wire.TypeName(p.Type())
	l := p.Len()
	w.Count("c01/type/" + tn)
	w.Count("c01/" + rlClass(l-2))
	w.Distinct(text)
	w.Sample("enc " + text)

	line, enc, ok := encLine(p, l, false)
	w.Op("codec enc "+text, fmt.Sprintf("len=%d %s", l, line))
	if !ok {
		w.Monitor("C01", "encode-fails/"+tn, "well-formed packet not encodable", []string{"codec enc " + text})
		return
	}
	if len(enc) != l {
		w.Monitor("C01", "len-mismatch/"+tn, fmt.Sprintf("Len()=%d written=%d", l, len(enc)), []string{"codec enc " + text})
	}
	w.Op("codec refenc "+text, line)
	after := wire.ShowPacket(p) // CONNECT: version normalised by Encode
	dl, dp, n, dok := decode(p.Type(), enc)
	w.Op("codec dec "+tn+" "+wire.Hx(enc), dl)
	if !dok || wire.ShowPacket(dp) != after || n != len(enc) {
		w.Monitor("C01", "roundtrip/"+tn, "decode(encode p) != p or bytes left over: "+dl, []string{"codec enc " + text, "codec dec " + tn + " " + wire.Hx(enc)})
	}
	if big {
		return
	}
	// oversized dirty buffer, one byte too short
	extra := 1 + r.Intn(9)
	line2, enc2, ok2 := encLine(p, l+extra, true)
	w.Op(fmt.Sprintf("codec encinto %d %s", l+extra, text), line2)
	if !ok2 || !bytes.Equal(enc2, enc) {
		w.Monitor("C01", "encode-buffer-dependent/"+tn, "encoding depends on destination buffer", []string{fmt.Sprintf("codec encinto %d %s", l+extra, text)})
	}
	line3, _, _ := encLine(p, l-1, true)
	w.Op(fmt.Sprintf("codec encinto %d %s", l-1, text), line3)
	// Encoder.Write after a larger packet went through the pooled buffer
	var sink bytes.Buffer
	e := packet.NewEncoder(&sink)
	filler := &packet.Publish{Message: packet.Message{Topic: "stale", Payload: bytes.Repeat([]byte{0xEE}, l+17)}}
	e.Write(filler, false)
	sink.Reset()
	err := e.Write(p, r.Bool())
	e.Flush()
	if err != nil {
		w.Op("codec encwr "+text, "err")
	} else {
		w.Op("codec encwr "+text, "ok "+wire.Hx(sink.Bytes()))
	}
	if id, has := packet.GetID(p); true {
		w.Op("codec getid "+text, fmt.Sprintf("%d %v", id, has))
	}
}

func c01(r *gen.Rng, tier string, shard, nshard int) {
	n := 600
	if tier == "thorough" {
		n = 40000
	}
	n = n / nshard
	for _, t := range packet.Types() {
		for i := 0; i < n; i++ {
			c01Packet(r, r.Packet(t), false)
		}
		// malformed stream: exactly one clause violated
		for i := 0; i < n/4+1; i++ {
			p, why := r.Break(t)
			if why == "none" || (strings.HasSuffix(why, "-long") && r.Intn(8) != 0) {
				continue
			}
			text := wire.ShowPacket(p)
			tn := wire.TypeName(t)
			w.Count("c01/malformed/" + tn + "/" + why)
			l := p.Len()
			line, _, ok := encLine(p, l+4, false)
			if why == "empty-list" {
				// Encode accepts an empty list (Decode does not): compared with the model only
				w.Op(fmt.Sprintf("codec encinto %d %s", l+4, text), line)
				continue
			}
			w.Op(fmt.Sprintf("codec encinto %d %s", l+4, text), line)
			w.Op("codec refenc "+text, line)
			if ok {
				w.Monitor("C01", "malformed-encoded/"+tn+"/"+why, "a packet violating "+why+" was encoded", []string{"codec enc " + text})
			}
		}
	}
	// remaining lengths around every varint boundary
	rls := []int{0, 1, 2, 3, 4, 5, 126, 127, 128, 129, 130, 16382, 16383, 16384, 16385, 16386}
	if tier == "thorough" {
		rls = append(rls, 2097150, 2097151, 2097152, 2097153)
	} else {
		// the three-/four-byte boundary is part of every run (PUBLISH and SUBACK only, one packet each)
		rls = append(rls, 2097151, 2097152)
	}
	k := 0
	for _, rl := range rls {
		for _, t := range []packet.Type{packet.PUBLISH, packet.SUBACK, packet.SUBSCRIBE, packet.UNSUBSCRIBE, packet.CONNECT} {
			k++
			if k%nshard != shard {
				continue
			}
			reps := 3
			if rl > 100000 {
				reps = 1
				if t != packet.PUBLISH && (t != packet.SUBACK || tier != "thorough") {
					continue
				}
			}
			for j := 0; j < reps; j++ {
				if p, ok := r.PacketWithRL(t, rl); ok {
					w.Count(fmt.Sprintf("c01/boundary-rl/%d", rl))
					c01Packet(r, p, rl > 100000)
				}
			}
		}
	}
	// the maximal remaining length: header and Len only (the body is too large for the text protocol)
	if tier == "thorough" && shard == 0 {
		for _, rl := range []int{268435454, 268435455, 268435456} {
			p := &packet.Publish{Message: packet.Message{Topic: "t", Payload: make([]byte, rl-3)}}
			l := p.Len()
			buf := make([]byte, l)
			n, err := p.Encode(buf)
			res := "err"
			if err == nil {
				res = fmt.Sprintf("ok %d %s", n, wire.Hx(buf[:8]))
				// body check done here: topic and zero payload
				for _, b := range buf[8:n] {
					if b != 0 {
						w.Monitor("C01", "roundtrip/publish", "payload corrupted in maximal packet", nil)
						break
					}
				}
			}
			w.Op(fmt.Sprintf("codec enchdr publish 0 %d 8 x000174", rl), fmt.Sprintf("len=%d %s", l, res))
			w.Count(fmt.Sprintf("c01/boundary-rl/%d", rl))
		}
	}
}

// ---------------------------------------------------------------- C02

func c02Bytes(r *gen.Rng, t packet.Type, src []byte, class string) {
	tn := wire.TypeName(t)
	w.Count("c02/class/" + class)
	if class != "hdr1" && class != "hdr2" {
		w.Sample("dec " + wire.TypeName(t) + " " + wire.Hx(src))
	}
	hx := wire.Hx(src)
	dlen, dtype := packet.DetectPacket(src)
	w.Op("codec detect "+hx, fmt.Sprintf("%d %d", dlen, dtype))
	line, pkt, n, ok := decode(t, src)
	w.Op("codec dec "+tn+" "+hx, line)
	if ok {
		w.Count("c02/outcome/ok/" + tn)
		w.Distinct(tn + hx)
	} else {
		w.Count("c02/outcome/" + strings.Fields(line + " x")[len(strings.Fields(line+" x"))-2])
	}
	if line == "panic" {
		w.Monitor("C02", "panic/"+tn, "Decode panicked", []string{"codec dec " + tn + " " + hx})
	}
	if n > len(src) {
		w.Monitor("C02", "consumed-gt-len/"+tn, fmt.Sprintf("reported %d of %d", n, len(src)), []string{"codec dec " + tn + " " + hx})
	}
	if ok {
		checkOwned(t, src, pkt)
		checkReencodable(pkt, "codec dec "+tn+" "+hx)
	}
	// framed / embedded
	if dlen > 0 && dlen <= len(src) && int(dtype) == int(t) {
		framed := src[:dlen]
		fl, _, _, fok := decode(t, framed)
		w.Op("codec dec "+tn+" "+wire.Hx(framed), fl)
		w.Op("codec refdec "+tn+" "+wire.Hx(framed), refLine(fl))
		w.Count("c02/framed/" + tn)
		tail := r.Bytes(1 + r.Intn(12))
		emb := append(append([]byte{}, framed...), tail...)
		el, _, _, eok := decode(t, emb)
		w.Op("codec dec "+tn+" "+wire.Hx(emb), el)
		if fok != eok || (fok && fl != el) {
			w.Monitor("C02", "decode-local/"+tn, "framed: "+fl+" | embedded: "+el, []string{"codec dec " + tn + " " + wire.Hx(framed), "codec dec " + tn + " " + wire.Hx(emb)})
		}
	}
}

// refLine strips the consumed count: the reference decoder only says ok/err
func refLine(l string) string {
	if i := strings.Index(l, " "); i >= 0 && strings.HasPrefix(l, "n=") {
		return l[i+1:]
	}
	return l
}

// the decoded packet must own its data: rewriting the source buffer must not change it
func checkOwned(t packet.Type, src []byte, _ packet.Generic) {
	cp := append([]byte{}, src...)
	p, _ := t.New()
	if _, err := p.Decode(cp); err != nil {
		return
	}
	before := wire.ShowPacket(p)
	for i := range cp {
		cp[i] ^= 0xFF
	}
	if wire.ShowPacket(p) != before {
		w.Monitor("C02", "aliasing/"+wire.TypeName(t), "decoded packet changed when the input buffer was rewritten", []string{"codec dec " + wire.TypeName(t) + " " + wire.Hx(src)})
	}
}

// every admitted application message (publish or will) must be encodable again
func checkReencodable(g packet.Generic, replay string) {
	var out packet.Generic
	switch p := g.(type) {
	case *packet.Publish:
		q := &packet.Publish{Message: p.Message, ID: 1}
		out = q
	case *packet.Connect:
		if p.Will == nil {
			return
		}
		out = &packet.Publish{Message: *p.Will, ID: 1}
	default:
		return
	}
	buf := make([]byte, out.Len())
	if _, err := out.Encode(buf); err != nil {
		w.Monitor("C02", "not-reencodable/"+wire.TypeName(g.Type()), err.Error(), []string{replay})
	}
}

func mutate(r *gen.Rng, enc []byte) ([]byte, string) {
	m := append([]byte{}, enc...)
	if len(m) == 0 {
		return m, "empty"
	}
	switch r.Intn(9) {
	case 0:
		i := r.Intn(len(m))
		m[i] ^= 1 << uint(r.Intn(8))
		return m, "bitflip"
	case 1:
		if len(m) > 1 {
			m[1] = byte(int(m[1]) + r.Pick(-2, -1, 1, 2))
		}
		return m, "rl-edit"
	case 2:
		if len(m) > 1 {
			m[1] = m[1] * 2
		}
		return m, "rl-double"
	case 3:
		return m[:r.Intn(len(m))], "truncate"
	case 4:
		return append(m, r.Bytes(1+r.Intn(8))...), "extend"
	case 5:
		i := r.Intn(len(m))
		m[i] = byte(r.Pick(0, 1, 2, 0x7f, 0x80, 0xff))
		return m, "byte-set"
	case 6:
		// edit a 16-bit length field somewhere after the header
		if len(m) > 4 {
			i := 2 + r.Intn(len(m)-3)
			m[i+1] = byte(int(m[i+1]) + r.Pick(-1, 1, 2, 16))
		}
		return m, "lp-edit"
	case 7:
		// non-minimal remaining length: 0x80|rl, 0x00
		if len(m) > 1 && m[1] < 0x80 {
			m = append([]byte{m[0], m[1] | 0x80, 0x00}, m[2:]...)
		}
		return m, "nonminimal-rl"
	default:
		i := r.Intn(len(m) + 1)
		return append(append(append([]byte{}, m[:i]...), byte(r.U64())), m[i:]...), "insert"
	}
}

func c02(r *gen.Rng, tier string, shard, nshard int) {
	// (a) exhaustive short headers
	for b0 := 0; b0 < 256; b0++ {
		if b0%nshard != shard {
			continue
		}
		t := packet.Type(b0 >> 4)
		if !t.Valid() {
			t = packet.Type(1 + b0%14)
		}
		c02Bytes(r, t, []byte{byte(b0)}, "hdr1")
		for b1 := 0; b1 < 256; b1++ {
			c02Bytes(r, t, []byte{byte(b0), byte(b1)}, "hdr2")
			if b1 <= 24 {
				c02Bytes(r, t, append([]byte{byte(b0), byte(b1)}, make([]byte, b1)...), "hdr2+zeros")
			}
			if tier == "thorough" {
				for b2 := 0; b2 < 256; b2++ {
					src := []byte{byte(b0), byte(b1), byte(b2)}
					d, ty := packet.DetectPacket(src)
					w.Op("codec detect "+wire.Hx(src), fmt.Sprintf("%d %d", d, ty))
					if b2%16 == b1%16 {
						c02Bytes(r, t, src, "hdr3")
					}
				}
			}
		}
	}
	w.Extra["hdr1_hdr2_exhaustive"] = true
	if shard == 0 {
		// Type.New() for every type nibble (the stream decoder calls it on whatever the peer sends first)
		for n := 0; n < 16; n++ {
			res := func() (res string) {
				defer func() {
					if x := recover(); x != nil {
						res = "panic"
					}
				}()
				if _, err := packet.Type(n).New(); err != nil {
					return "err"
				}
				return "ok"
			}()
			w.Op(fmt.Sprintf("codec typenew %d", n), res)
			if res == "panic" {
				w.Monitor("C02", "panic/type-new", fmt.Sprintf("Type(%d).New() panicked", n), []string{fmt.Sprintf("codec typenew %d", n)})
			}
		}
		// every CONNECT flags byte with a body that is consistent with it (will fields iff the will flag, user name /
		// password iff their flags): the reference decoder decides which of the 256 combinations are legal
		for fl := 0; fl < 256; fl++ {
			body := []byte{0, 4, 'M', 'Q', 'T', 'T', 4, byte(fl), 0, 10, 0, 1, 'c'}
			if fl&0x04 != 0 {
				body = append(body, 0, 1, 'w', 0, 1, 'p')
			}
			if fl&0x80 != 0 {
				body = append(body, 0, 1, 'u')
			}
			if fl&0x40 != 0 {
				body = append(body, 0, 1, 's')
			}
			pkt := append([]byte{0x10, byte(len(body))}, body...)
			c02Bytes(r, packet.CONNECT, pkt, "connect-flags")
		}
	}
	// one valid packet whose remaining length needs four bytes (the header enumeration above only reaches the body-less cases)
	if shard == 0 {
		if p, ok := r.PacketWithRL(packet.PUBLISH, 2097152); ok {
			buf := make([]byte, p.Len())
			if n, err := p.Encode(buf); err == nil {
				c02Bytes(r, packet.PUBLISH, buf[:n], "valid-rl4")
			}
		}
	}
	n3 := 30000
	if tier == "thorough" {
		n3 = 300000
	}
	groups := []byte{0, 1, 0x7e, 0x7f}
	for i := 0; i < n3/nshard; i++ {
		// 3..11 byte headers: type x flags x continuation pattern x 7-bit groups
		l := 2 + r.Intn(5)
		if r.Intn(6) == 0 {
			l = 6 + r.Intn(6)
		}
		src := make([]byte, 1+l)
		src[0] = byte(r.Intn(256))
		for j := 1; j <= l; j++ {
			src[j] = groups[r.Intn(4)]
			if r.Bool() {
				src[j] |= 0x80
			}
		}
		t := packet.Type(src[0] >> 4)
		if !t.Valid() {
			t = packet.Type(1 + r.Intn(14))
		}
		c02Bytes(r, t, src, "hdrN")
		v, n := binary.Uvarint(src[1:])
		w.Op("codec uvarint "+wire.Hx(src[1:]), fmt.Sprintf("%d %d", v, n))
	}
	for _, v := range []uint64{0, 1, 127, 128, 16383, 16384, 2097151, 2097152, 268435455, 268435456, 1<<63 - 1, 1 << 63, 1<<64 - 1} {
		buf := make([]byte, 10)
		n := binary.PutUvarint(buf, v)
		w.Op(fmt.Sprintf("codec putuvarint %d", v), wire.Hx(buf[:n]))
		vv, nn := binary.Uvarint(buf[:n])
		w.Op("codec uvarint "+wire.Hx(buf[:n]), fmt.Sprintf("%d %d", vv, nn))
	}
	// (b) random bytes
	nr := 8000
	nm := 40000
	if tier == "thorough" {
		nr, nm = 400000, 3000000
	}
	for i := 0; i < nr/nshard; i++ {
		src := r.Bytes(r.Intn(40))
		if len(src) > 0 && r.Bool() {
			src[0] = byte((1+r.Intn(14))<<4) | byte(r.Pick(0, 0, 2, r.Intn(16)))
		}
		t := packet.Type(1 + r.Intn(14))
		if len(src) > 0 && packet.Type(src[0]>>4).Valid() && r.Intn(4) != 0 {
			t = packet.Type(src[0] >> 4)
		}
		c02Bytes(r, t, src, "random")
	}
	// (c) structure-aware mutations of valid encodings, splices
	types := packet.Types()
	for i := 0; i < nm/nshard; i++ {
		t := types[r.Intn(len(types))]
		p := r.Packet(t)
		if p.Len() > 600 {
			continue
		}
		buf := make([]byte, p.Len())
		if _, err := p.Encode(buf); err != nil {
			continue
		}
		switch r.Intn(8) {
		case 0:
			c02Bytes(r, t, buf, "valid")
		case 1:
			q := r.Packet(types[r.Intn(len(types))])
			if q.Len() > 600 {
				continue
			}
			b2 := make([]byte, q.Len())
			q.Encode(b2)
			cut := r.Intn(len(buf) + 1)
			c02Bytes(r, t, append(append([]byte{}, buf[:cut]...), b2...), "splice")
		default:
			m, kind := mutate(r, buf)
			if r.Intn(3) == 0 {
				m, _ = mutate(r, append(m, 0)[:len(m)+0])
				kind = "double"
			}
			tt := t
			if r.Intn(10) == 0 {
				tt = types[r.Intn(len(types))]
			}
			c02Bytes(r, tt, m, "mut/"+kind)
		}
	}
}

func main() {
	prop := flag.String("prop", "C01", "C01 or C02")
	seed := flag.Uint64("seed", 1, "seed")
	tier := flag.String("tier", "quick", "quick|thorough")
	dir := flag.String("out", "", "output directory")
	shard := flag.Int("shard", 0, "shard index")
	nshard := flag.Int("nshard", 1, "number of shards")
	flag.Parse()
	if *dir == "" {
		fmt.Fprintln(os.Stderr, "need -out")
		os.Exit(2)
	}
	w = out.New(*dir)
	r := gen.New(*seed*1000003 + uint64(*shard))
	switch *prop {
	case "C01":
		c01(r, *tier, *shard, *nshard)
	case "C02":
		c02(r, *tier, *shard, *nshard)
		streamsDoNotInterfere(*shard)
	default:
		fmt.Fprintln(os.Stderr, "unknown -prop")
		os.Exit(2)
	}
	w.Close()
}
