// sessiondiff — correspondence harness for session.IDCounter / PacketStore / MemorySession (C18).
package main

import (
	"flag"
	"fmt"
	"os"
	"sort"
	"strings"
	"sync"

	"github.com/256dpi/gomqtt/packet"
	"github.com/256dpi/gomqtt/session"

	"verifharness/lib/gen"
	"verifharness/lib/out"
	"verifharness/lib/wire"
)

var w *out.W

func dirName(d session.Direction) string {
	if d == session.Incoming {
		return "in"
	}
	return "out"
}

type S struct {
	s        *session.MemorySession
	ref      map[session.Direction]map[packet.ID]string // the property's own spec: a map id -> last packet
	trace    []string
	listings []listing // earlier AllPackets results, still held by their caller
}

type listing struct {
	live []packet.Generic
	then string
}

func newS() *S {
	x := &S{s: session.NewMemorySession(), ref: map[session.Direction]map[packet.ID]string{session.Incoming: {}, session.Outgoing: {}}}
	x.op("sess new", "ok")
	return x
}

func (x *S) op(line, res string) {
	x.trace = append(x.trace, line)
	w.Op(line, res)
}

func (x *S) hit(kind, detail string) {
	w.Monitor("C18", kind, detail, append([]string{}, x.trace...))
}

func (x *S) save(d session.Direction, p packet.Generic) {
	other := session.Outgoing - d
	before, _ := x.s.AllPackets(other)
	x.s.SavePacket(d, p)
	x.op("sess save "+dirName(d)+" "+wire.ShowPacket(p), "ok")
	if id, ok := packet.GetID(p); ok {
		x.ref[d][id] = wire.ShowPacket(p)
	}
	after, _ := x.s.AllPackets(other)
	if len(before) != len(after) {
		x.hit("directions-interfere", "save changed the other direction")
	}
	w.Count("store/save/" + wire.TypeName(p.Type()))
}

func (x *S) lookup(d session.Direction, id packet.ID) {
	p, _ := x.s.LookupPacket(d, id)
	res := "nil"
	if p != nil {
		res = wire.ShowPacket(p)
	}
	x.op(fmt.Sprintf("sess lookup %s %d", dirName(d), id), res)
	want, ok := x.ref[d][id]
	if !ok {
		want = "nil"
	}
	if want != res {
		x.hit("store-not-a-map", fmt.Sprintf("lookup %s %d = %s, map says %s", dirName(d), id, res, want))
	}
	w.Count("store/lookup")
}

func (x *S) del(d session.Direction, id packet.ID) {
	x.s.DeletePacket(d, id)
	delete(x.ref[d], id)
	x.op(fmt.Sprintf("sess delete %s %d", dirName(d), id), "ok")
	w.Count("store/delete")
}

// a listing is a value: what was returned earlier does not change when the store is used again
func (x *S) checkListings() {
	for _, l := range x.listings {
		var now []string
		for _, p := range l.live {
			if p == nil {
				now = append(now, "<nil>")
			} else {
				now = append(now, wire.ShowPacket(p))
			}
		}
		if strings.Join(now, " | ") != l.then {
			x.hit("listing-altered", fmt.Sprintf("a listing returned earlier as [%s] now reads [%s]", l.then, strings.Join(now, " | ")))
		}
	}
	x.listings = nil
}

func (x *S) all(d session.Direction) {
	x.checkListings()
	ps, _ := x.s.AllPackets(d)
	{
		var then []string
		for _, p := range ps {
			then = append(then, wire.ShowPacket(p))
		}
		if len(ps) > 0 {
			x.listings = append(x.listings, listing{ps, strings.Join(then, " | ")})
		}
	}
	var ss []string
	seen := map[string]bool{}
	for _, p := range ps {
		ss = append(ss, wire.ShowPacket(p))
		seen[wire.ShowPacket(p)] = true
	}
	x.op("sess allord "+dirName(d), "["+strings.Join(ss, " | ")+"]")
	sort.Strings(ss)
	x.op("sess all "+dirName(d), "["+strings.Join(ss, " | ")+"]")
	if len(ps) != len(x.ref[d]) {
		x.hit("store-not-a-map", fmt.Sprintf("all %s has %d packets, map has %d", dirName(d), len(ps), len(x.ref[d])))
	}
	for _, v := range x.ref[d] {
		if !seen[v] {
			x.hit("store-not-a-map", "all misses "+v)
		}
	}
	w.Count("store/all")
}

func (x *S) reset() {
	x.s.Reset()
	x.ref[session.Incoming], x.ref[session.Outgoing] = map[packet.ID]string{}, map[packet.ID]string{}
	x.op("sess reset", "ok")
	id := x.s.NextID()
	x.op("sess nextid", fmt.Sprint(id))
	if id != 1 {
		x.hit("reset-not-one", fmt.Sprintf("first id after reset is %d", id))
	}
}

type sop struct {
	kind string
	d    session.Direction
	id   packet.ID
	alt  int
}

func mkPkt(id packet.ID, alt int) packet.Generic {
	switch alt % 4 {
	case 0:
		return &packet.Publish{ID: id, Message: packet.Message{Topic: "t", QOS: 1, Payload: []byte{byte(alt)}}}
	case 1:
		return &packet.Pubrel{ID: id}
	case 2:
		return &packet.Publish{ID: id, Message: packet.Message{Topic: "u", QOS: 2}, Dup: true}
	}
	return &packet.Subscribe{ID: id, Subscriptions: []packet.Subscription{{Topic: "s", QOS: 1}}}
}

// restore replaces the store of one direction by one rebuilt from a list of packets (NewPacketStoreWithPackets: what
// a persistent backend does with the packets it kept) — ids may repeat in the list (a PUBLISH and the PUBREL that
// superseded it), id-less packets may occur; the result is the map the same saves would have produced
func (x *S) restore(d session.Direction, ps []packet.Generic) {
	st := session.NewPacketStoreWithPackets(ps)
	if d == session.Incoming {
		x.s.Incoming = st
	} else {
		x.s.Outgoing = st
	}
	x.ref[d] = map[packet.ID]string{}
	x.op("sess clear "+dirName(d), "ok")
	for _, p := range ps {
		x.op("sess save "+dirName(d)+" "+wire.ShowPacket(p), "ok")
		if id, ok := packet.GetID(p); ok {
			x.ref[d][id] = wire.ShowPacket(p)
		}
	}
	w.Count("store/restore")
}

func (x *S) apply(o sop) {
	switch o.kind {
	case "restore":
		// o.alt selects the list: repeated ids, id-less packets, the empty list
		var ps []packet.Generic
		for i := 0; i < o.alt%5; i++ {
			ps = append(ps, mkPkt(packet.ID(1+(int(o.id)+i*(o.alt/5))%3), o.alt+i))
			if (o.alt+i)%4 == 0 {
				ps = append(ps, &packet.Pingreq{})
			}
		}
		x.restore(o.d, ps)
	case "save":
		x.save(o.d, mkPkt(o.id, o.alt))
	case "lookup":
		x.lookup(o.d, o.id)
	case "delete":
		x.del(o.d, o.id)
	case "all":
		x.all(o.d)
	case "reset":
		x.reset()
	case "idless":
		x.save(o.d, []packet.Generic{&packet.Connect{ClientID: "c", CleanSession: true, Version: 4}, &packet.Connack{}, &packet.Pingreq{}, &packet.Pingresp{}, &packet.Disconnect{}}[o.alt%5])
	}
}

func run(r *gen.Rng, tier string, shard, nshard int) {
	// (1) all 65536 counter states x 3 calls
	w.Case("counter-states")
	for n := 0; n < 65536; n++ {
		if n%nshard != shard {
			continue
		}
		c := session.NewIDCounterWithNext(packet.ID(n))
		w.Op(fmt.Sprintf("sess counter %d", n), "ok")
		for k := 0; k < 3; k++ {
			id := c.NextID()
			w.Op("sess nextid", fmt.Sprint(id))
			if id == 0 {
				w.Monitor("C18", "id-zero", fmt.Sprintf("counter state %d call %d returned 0", n, k), []string{fmt.Sprintf("sess counter %d", n), "sess nextid", "sess nextid", "sess nextid"})
			}
		}
	}
	w.Extra["counter_states_exhaustive"] = true
	// (2) full 65535-allocation runs from selected start states
	starts := []int{0, 1, 2, 32767, 32768, 65534, 65535, 4242}
	if tier == "thorough" {
		for i := 0; i < 256; i++ {
			starts = append(starts, r.Intn(65536))
		}
	}
	for i, st := range starts {
		if i%nshard != shard {
			continue
		}
		w.Case(fmt.Sprintf("full-cycle start=%d", st))
		c := session.NewIDCounterWithNext(packet.ID(st))
		w.Op(fmt.Sprintf("sess counter %d", st), "ok")
		seen := make([]bool, 65536)
		sum, xs, first, last := 0, 7, 0, 0
		for k := 0; k < 65535; k++ {
			id := int(c.NextID())
			if k == 0 {
				first = id
			}
			last = id
			if id == 0 || seen[id] {
				w.Monitor("C18", "id-repeat", fmt.Sprintf("start %d: id %d at allocation %d is zero or repeated", st, id, k), []string{fmt.Sprintf("sess counter %d", st), "sess nextids 65535"})
				break
			}
			seen[id] = true
			sum += id
		}
		// the model prints (first, last, sum, order hash): recompute the hash in allocation order
		c2 := session.NewIDCounterWithNext(packet.ID(st))
		ids := make([]int, 65535)
		for k := range ids {
			ids[k] = int(c2.NextID())
		}
		for k := len(ids) - 1; k >= 0; k-- {
			xs = (xs*31 + ids[k]) % 1000000007
		}
		w.Op("sess nextids 65535", fmt.Sprintf("%d %d %d %d", first, last, sum, xs))
		w.Count("counter/full-cycle")
		w.Distinct(fmt.Sprintf("cycle%d", st))
	}
	// (2b) a counter restored at any value restarts at 1 after Reset, like a new one
	for i, st := range []int{0, 1, 2, 300, 32768, 65535, 1 + r.Intn(65535)} {
		if i%nshard != shard {
			continue
		}
		w.Case(fmt.Sprintf("counter-reset start=%d", st))
		c := session.NewIDCounterWithNext(packet.ID(st))
		w.Op(fmt.Sprintf("sess counter %d", st), "ok")
		for k, n := 0, r.Intn(4); k < n; k++ {
			w.Op("sess nextid", fmt.Sprint(c.NextID()))
		}
		c.Reset()
		w.Op("sess creset", "ok")
		id := c.NextID()
		w.Op("sess nextid", fmt.Sprint(id))
		if id != 1 {
			w.Monitor("C18", "reset-not-one", fmt.Sprintf("counter restored at %d: first id after Reset is %d, not 1", st, id), []string{fmt.Sprintf("sess counter %d", st), "sess creset", "sess nextid"})
		}
		w.Count("counter/reset")
	}
	// (2c) the session's allocator is the counter, whatever its stores hold: a full run of 65535 allocations on a
	// MemorySession with packets stored in both directions
	if shard == 1%nshard {
		w.Case("full-cycle session with stored packets")
		x := newS()
		for _, id := range []packet.ID{3, 4, 70, 65535} {
			x.save(session.Outgoing, mkPkt(id, int(id)))
		}
		x.save(session.Incoming, mkPkt(5, 2))
		seen := make([]bool, 65536)
		ids := make([]int, 65535)
		sum := 0
		for k := range ids {
			id := int(x.s.NextID())
			ids[k] = id
			sum += id
			if id == 0 || seen[id] {
				x.hit("id-repeat", fmt.Sprintf("session with stored packets: id %d at allocation %d is zero or repeated", id, k))
				break
			}
			seen[id] = true
		}
		xs := 7
		for k := len(ids) - 1; k >= 0; k-- {
			xs = (xs*31 + ids[k]) % 1000000007
		}
		x.op("sess nextids 65535", fmt.Sprintf("%d %d %d %d", ids[0], ids[len(ids)-1], sum, xs))
		w.Count("counter/full-cycle-session")
	}
	// (3) bounded-exhaustive store histories: 2 directions x ids {1,2,65535} x ops
	var alpha []sop
	for _, d := range []session.Direction{session.Incoming, session.Outgoing} {
		for _, id := range []packet.ID{1, 2, 65535} {
			alpha = append(alpha, sop{"save", d, id, 0}, sop{"save", d, id, 1}, sop{"lookup", d, id, 0}, sop{"delete", d, id, 0})
		}
		alpha = append(alpha, sop{"all", d, 0, 0}, sop{"idless", d, 0, 2})
	}
	alpha = append(alpha, sop{"reset", 0, 0, 0}, sop{"restore", session.Outgoing, 1, 3}, sop{"restore", session.Incoming, 1, 12})
	depth := 3
	if tier == "thorough" {
		depth = 4
	}
	w.Extra["store_alphabet"] = len(alpha)
	w.Extra["store_exhaustive_depth"] = depth
	idx := 0
	var rec func(seq []sop)
	rec = func(seq []sop) {
		if len(seq) == depth {
			idx++
			if idx%nshard != shard {
				return
			}
			w.Case("store-exhaustive")
			x := newS()
			key := ""
			for _, o := range seq {
				x.apply(o)
				key += fmt.Sprintf("%s%d%d%d;", o.kind, o.d, o.id, o.alt)
			}
			x.all(session.Incoming)
			x.all(session.Outgoing)
			for _, id := range []packet.ID{1, 2, 65535} {
				x.lookup(session.Incoming, id)
				x.lookup(session.Outgoing, id)
			}
			w.Distinct(key)
			return
		}
		for _, o := range alpha {
			rec(append(append([]sop{}, seq...), o))
		}
	}
	rec(nil)
	// (4) random long histories
	n := 30
	if tier == "thorough" {
		n = 1000
	}
	kinds := []string{"save", "save", "save", "lookup", "delete", "all", "idless", "reset", "restore"}
	for i := 0; i < n/nshard+1; i++ {
		w.Case("store-random")
		x := newS()
		l := 10 + r.Intn(300)
		w.Sample(fmt.Sprintf("random store history of %d ops over 12 ids, both directions", l))
		for j := 0; j < l; j++ {
			k := kinds[r.Intn(len(kinds))]
			if (k == "reset" || k == "restore") && r.Intn(8) != 0 {
				k = "save"
			}
			x.apply(sop{k, session.Direction(r.Intn(2)), packet.ID(r.Pick(1, 2, 3, 4, 5, 6, 7, 8, 255, 256, 65534, 65535)), r.Intn(8)})
		}
		x.all(session.Incoming)
		x.all(session.Outgoing)
	}
	// (5) concurrent allocation: ids handed to 2..16 goroutines are pairwise distinct (implementation only)
	if shard == 0 {
		for _, g := range []int{2, 4, 16} {
			s := session.NewMemorySession()
			per := 65535 / g
			res := make([][]packet.ID, g)
			var wg sync.WaitGroup
			for i := 0; i < g; i++ {
				wg.Add(1)
				go func(i int) {
					defer wg.Done()
					for k := 0; k < per; k++ {
						res[i] = append(res[i], s.NextID())
					}
				}(i)
			}
			wg.Wait()
			seen := make([]bool, 65536)
			for _, l := range res {
				for _, id := range l {
					if id == 0 || seen[id] {
						w.Monitor("C18", "id-repeat-concurrent", fmt.Sprintf("%d goroutines: id %d zero or handed out twice", g, id), nil)
					}
					seen[id] = true
				}
			}
			w.Count(fmt.Sprintf("counter/concurrent-%d", g))
		}
	}
}

func main() {
	_ = flag.String("prop", "C18", "C18")
	seed := flag.Uint64("seed", 1, "seed")
	tier := flag.String("tier", "quick", "quick|thorough")
	dir := flag.String("out", "", "output directory")
	shard := flag.Int("shard", 0, "shard index")
	nshard := flag.Int("nshard", 1, "number of shards")
	flag.Parse()
	if *dir == "" {
		os.Exit(2)
	}
	w = out.New(*dir)
	run(gen.New(*seed*1000003+uint64(*shard)+99), *tier, *shard, *nshard)
	w.Close()
}
