// lockfacts recomputes, from /repo's current source files, the structural facts the Lean models
// assume when they treat a public method as one atomic event (DESIGN.md §3.4, fact F-lock):
//
//	for every struct type with a sync.Mutex / sync.RWMutex field, every exported method
//	  * takes one of the receiver's mutexes in its first statement and releases the same mutex by
//	    `defer` in its second statement;
//	  * if it only takes the read lock, neither it nor any unexported method of the receiver it
//	    (transitively) calls assigns to a field, an element or through a pointer (writes to plain
//	    local identifiers are fine).
//
// The extractor matches on types (a field whose type is sync.Mutex/RWMutex), not on names.
// Output: one JSON object per method on stdout; exit status 0 always (the check script judges).
package main

import (
	"encoding/json"
	"fmt"
	"go/ast"
	"go/parser"
	"go/token"
	"os"
	"path/filepath"
	"sort"
	"strings"
)

type fact struct {
	Pkg      string `json:"pkg"`
	Type     string `json:"type"`
	Method   string `json:"method"`
	Exported bool   `json:"exported"`
	Lock     string `json:"lock"`  // "Lock", "RLock" or "" (none as first statement)
	Mutex    string `json:"mutex"` // field name
	Defer    bool   `json:"defer_unlock"`
	Writes   bool   `json:"writes_state"` // for RLock methods: a write to non-local state is reachable
	Pos      string `json:"pos"`
}

func recvInfo(fd *ast.FuncDecl) (name, typ string) {
	if fd.Recv == nil || len(fd.Recv.List) == 0 {
		return "", ""
	}
	f := fd.Recv.List[0]
	if len(f.Names) > 0 {
		name = f.Names[0].Name
	}
	t := f.Type
	if s, ok := t.(*ast.StarExpr); ok {
		t = s.X
	}
	if id, ok := t.(*ast.Ident); ok {
		typ = id.Name
	}
	return
}

// lockCall recognises `recv.<field>.<op>()`
func lockCall(e ast.Expr, recv string) (field, op string, ok bool) {
	c, ok1 := e.(*ast.CallExpr)
	if !ok1 || len(c.Args) != 0 {
		return
	}
	s, ok1 := c.Fun.(*ast.SelectorExpr)
	if !ok1 {
		return
	}
	s2, ok1 := s.X.(*ast.SelectorExpr)
	if !ok1 {
		return
	}
	id, ok1 := s2.X.(*ast.Ident)
	if !ok1 || id.Name != recv {
		return
	}
	return s2.Sel.Name, s.Sel.Name, true
}

func isLocalTarget(e ast.Expr) bool {
	switch x := e.(type) {
	case *ast.Ident:
		return true
	case *ast.ParenExpr:
		return isLocalTarget(x.X)
	}
	return false
}

func main() {
	root := "/repo"
	if len(os.Args) > 1 {
		root = os.Args[1]
	}
	pkgs := []string{"topic", "session", "client/future", "transport", "broker", "client"}
	var facts []fact
	for _, p := range pkgs {
		fset := token.NewFileSet()
		dir := filepath.Join(root, p)
		parsed, err := parser.ParseDir(fset, dir, func(fi os.FileInfo) bool { return !strings.HasSuffix(fi.Name(), "_test.go") }, 0)
		if err != nil {
			fmt.Fprintln(os.Stderr, "parse", dir, err)
			os.Exit(2)
		}
		for _, pkg := range parsed {
			mutexFields := map[string]map[string]bool{} // type -> mutex field names
			methods := map[string]map[string]*ast.FuncDecl{}
			for _, f := range pkg.Files {
				for _, d := range f.Decls {
					switch x := d.(type) {
					case *ast.GenDecl:
						for _, sp := range x.Specs {
							ts, ok := sp.(*ast.TypeSpec)
							if !ok {
								continue
							}
							st, ok := ts.Type.(*ast.StructType)
							if !ok {
								continue
							}
							for _, fl := range st.Fields.List {
								if se, ok := fl.Type.(*ast.SelectorExpr); ok {
									if id, ok := se.X.(*ast.Ident); ok && id.Name == "sync" && (se.Sel.Name == "Mutex" || se.Sel.Name == "RWMutex") {
										for _, n := range fl.Names {
											if mutexFields[ts.Name.Name] == nil {
												mutexFields[ts.Name.Name] = map[string]bool{}
											}
											mutexFields[ts.Name.Name][n.Name] = true
										}
									}
								}
							}
						}
					case *ast.FuncDecl:
						_, typ := recvInfo(x)
						if typ != "" {
							if methods[typ] == nil {
								methods[typ] = map[string]*ast.FuncDecl{}
							}
							methods[typ][x.Name.Name] = x
						}
					}
				}
			}
			for typ, mf := range mutexFields {
				// does fd (or an unexported receiver method it calls) write non-local state?
				var writes func(fd *ast.FuncDecl, seen map[string]bool) bool
				writes = func(fd *ast.FuncDecl, seen map[string]bool) bool {
					if fd.Body == nil || seen[fd.Name.Name] {
						return false
					}
					seen[fd.Name.Name] = true
					recv, _ := recvInfo(fd)
					w := false
					ast.Inspect(fd.Body, func(n ast.Node) bool {
						switch x := n.(type) {
						case *ast.AssignStmt:
							for _, l := range x.Lhs {
								if !isLocalTarget(l) {
									w = true
								}
							}
						case *ast.IncDecStmt:
							if !isLocalTarget(x.X) {
								w = true
							}
						case *ast.CallExpr:
							if s, ok := x.Fun.(*ast.SelectorExpr); ok {
								if id, ok := s.X.(*ast.Ident); ok && id.Name == recv {
									if callee := methods[typ][s.Sel.Name]; callee != nil && writes(callee, seen) {
										w = true
									}
								}
								// delete(m, k) is a builtin, handled below
							}
							if id, ok := x.Fun.(*ast.Ident); ok && id.Name == "delete" {
								w = true
							}
						}
						return true
					})
					return w
				}
				names := make([]string, 0, len(methods[typ]))
				for n := range methods[typ] {
					names = append(names, n)
				}
				sort.Strings(names)
				for _, n := range names {
					fd := methods[typ][n]
					recv, _ := recvInfo(fd)
					ft := fact{Pkg: p, Type: typ, Method: n, Exported: ast.IsExported(n), Pos: fset.Position(fd.Pos()).String()}
					body := []ast.Stmt{}
					if fd.Body != nil {
						body = fd.Body.List
					}
					// leading argument guards of the form `if … { panic(…) }` do not touch shared state
					for len(body) > 0 {
						is, ok := body[0].(*ast.IfStmt)
						if !ok || is.Else != nil || len(is.Body.List) != 1 {
							break
						}
						es, ok := is.Body.List[0].(*ast.ExprStmt)
						if !ok {
							break
						}
						c, ok := es.X.(*ast.CallExpr)
						if !ok {
							break
						}
						if id, ok := c.Fun.(*ast.Ident); !ok || id.Name != "panic" {
							break
						}
						body = body[1:]
					}
					if len(body) >= 1 {
						if es, ok := body[0].(*ast.ExprStmt); ok {
							if f, op, ok := lockCall(es.X, recv); ok && mf[f] && (op == "Lock" || op == "RLock") {
								ft.Lock, ft.Mutex = op, f
								if len(body) >= 2 {
									if ds, ok := body[1].(*ast.DeferStmt); ok {
										want := "Unlock"
										if op == "RLock" {
											want = "RUnlock"
										}
										if f2, op2, ok := lockCall(ds.Call, recv); ok && f2 == f && op2 == want {
											ft.Defer = true
										}
									}
								}
							}
						}
					}
					if ft.Lock == "RLock" {
						ft.Writes = writes(fd, map[string]bool{})
					}
					facts = append(facts, ft)
				}
			}
		}
	}
	sort.Slice(facts, func(i, j int) bool {
		a, b := facts[i], facts[j]
		return a.Pkg+"."+a.Type+"."+a.Method < b.Pkg+"."+b.Type+"."+b.Method
	})
	enc := json.NewEncoder(os.Stdout)
	for _, f := range facts {
		enc.Encode(f)
	}
}
