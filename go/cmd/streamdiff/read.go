package main

import (
	"encoding/binary"
	"errors"
	"fmt"
	"hash/fnv"
	"io"
	"runtime"
	"strings"
	"time"

	"github.com/256dpi/gomqtt/packet"

	"verifharness/lib/gen"
	"verifharness/lib/wire"
)

// ---------------------------------------------------------------- the underlying reader

var errChunk = errors.New("streamdiff: chunk reader failed")

// chunkReader returns exactly the given chunks, one per Read call (a chunk longer than len(p) is
// continued by the next call: still the same byte stream), an empty chunk is a (0, nil) read; then
// the terminal error for ever (together with the last chunk if dataFin).
type chunkReader struct {
	chunks  [][]byte
	i       int
	cur     []byte
	have    bool
	fin     error
	dataFin bool
}

func (c *chunkReader) Read(p []byte) (int, error) {
	if !c.have {
		if c.i >= len(c.chunks) {
			return 0, c.fin
		}
		c.cur, c.have = c.chunks[c.i], true
		c.i++
	}
	n := copy(p, c.cur)
	c.cur = c.cur[n:]
	if len(c.cur) == 0 {
		c.have = false
		if c.dataFin && c.i >= len(c.chunks) {
			return n, c.fin
		}
	}
	return n, nil
}

// halfReader hands out half of what was asked for (iotest.HalfReader) and records what it returned.
type halfReader struct {
	data []byte
	fin  error
	rec  [][]byte
}

func (h *halfReader) Read(p []byte) (int, error) {
	if len(h.data) == 0 {
		return 0, h.fin
	}
	n := (len(p) + 1) / 2
	if n > len(h.data) {
		n = len(h.data)
	}
	copy(p, h.data[:n])
	h.rec = append(h.rec, h.data[:n])
	h.data = h.data[n:]
	return n, nil
}

// ---------------------------------------------------------------- running the decoder

func classify(err error, loop bool) string {
	var pe *packet.Error
	switch {
	case err == io.EOF:
		return "eof"
	case err == io.ErrUnexpectedEOF:
		return "unexpectedEOF"
	case err == packet.ErrDetectionOverflow:
		return "detectionOverflow"
	case err == packet.ErrReadLimitExceeded:
		return "readLimit"
	case err == packet.ErrInvalidPacketType:
		return "invalidType"
	case err == errChunk:
		return "ioErr"
	case errors.As(err, &pe):
		return "decodeErr"
	case loop:
		// whatever the carrier reported (ErrNotBinary, a websocket protocol error, a net error)
		return "ioErr"
	}
	return fmt.Sprintf("other(%T)", err)
}

type readRes struct {
	texts []string
	err   string
	panic string
}

func (r readRes) line() string {
	if r.panic != "" {
		return "panic"
	}
	return "pkts=[" + strings.Join(r.texts, ";") + "] err=" + r.err
}

// readAll: NewDecoder, SetReadLimit, Read until the first error.  The texts are computed after all
// reads finished (pooled-buffer aliasing would show).
func readAll(rd io.Reader, limit int64) (res readRes) {
	var pkts []packet.Generic
	defer func() {
		if x := recover(); x != nil {
			res.panic = fmt.Sprint(x)
		}
	}()
	d := packet.NewDecoder(rd)
	d.SetReadLimit(limit)
	for {
		p, err := d.Read()
		if err != nil {
			res.err = classify(err, false)
			break
		}
		pkts = append(pkts, p)
	}
	for _, p := range pkts {
		res.texts = append(res.texts, wire.ShowPacket(p))
	}
	return res
}

func showChunks(chunks [][]byte) string {
	if len(chunks) == 0 {
		return "-"
	}
	var b strings.Builder
	for i, c := range chunks {
		if i > 0 {
			b.WriteByte(',')
		}
		b.WriteString(wire.Hx(c))
	}
	return b.String()
}

func readOp(chunks [][]byte, limit int64, fin string, dataFin bool) string {
	df := "0"
	if dataFin {
		df = "1"
	}
	return fmt.Sprintf("stream read %d %s %s %s", limit, fin, df, showChunks(chunks))
}

func finErr(fin string) error {
	if fin == "eof" {
		return io.EOF
	}
	return errChunk
}

// ---------------------------------------------------------------- streams

// a byte stream, with the packets it was built from when it is a (prefix of a) well-formed one
type pstream struct {
	fam    string
	pkts   []packet.Generic
	texts  []string
	lens   []int
	hdrs   []int
	data   []byte
	oracle bool
	base   map[string][2]string // (cut,limit,fin) → first answer and its op: fragmentation independence
	nops   int
}

func varintLen(b []byte) int {
	_, n := binary.Uvarint(b)
	return n
}

func build(fam string, pkts []packet.Generic) *pstream {
	s := &pstream{fam: fam, pkts: pkts, oracle: true, base: map[string][2]string{}}
	for _, p := range pkts {
		buf := make([]byte, p.Len())
		n, err := p.Encode(buf)
		if err != nil || n != len(buf) {
			panic(fmt.Sprintf("generator: unencodable packet %s: %v", wire.ShowPacket(p), err))
		}
		s.texts = append(s.texts, wire.ShowPacket(p)) // after Encode: CONNECT version normalised
		s.lens = append(s.lens, n)
		s.hdrs = append(s.hdrs, 1+varintLen(buf[1:]))
		s.data = append(s.data, buf...)
		w.Count("read/pkt-type/" + wire.TypeName(p.Type()))
		w.Count("read/pkt-len/" + lenClass(n))
	}
	w.Count("read/stream-len/" + lenClass(len(s.data)))
	w.Count("read/stream-npkts/" + cntClass(len(pkts)))
	return s
}

func raw(fam string, data []byte) *pstream {
	w.Count("read/stream-len/" + lenClass(len(data)))
	return &pstream{fam: fam, data: data, base: map[string][2]string{}}
}

// what the property demands for the first `cut` bytes of a well-formed stream (independent of the
// Lean model): number of packets delivered, then the error.
func (s *pstream) expect(cut int, limit int64, fin string) (int, string) {
	end, short := "eof", "unexpectedEOF"
	if fin != "eof" {
		end, short = "ioErr", "ioErr"
	}
	off := 0
	for i := range s.pkts {
		avail := cut - off
		switch {
		case avail <= 0:
			return i, end
		case avail < s.hdrs[i]:
			return i, short
		case limit > 0 && int64(s.lens[i]) > limit:
			return i, "readLimit"
		case avail < s.lens[i]:
			return i, short
		}
		off += s.lens[i]
	}
	return len(s.pkts), end
}

func (s *pstream) onBoundary(cut int) bool {
	off := 0
	for _, l := range s.lens {
		if off == cut {
			return true
		}
		off += l
	}
	return off == cut
}

// one op on the first `cut` bytes of the stream, delivered as `chunks`
func (s *pstream) op(chunking string, chunks [][]byte, cut int, limit int64, fin string, dataFin bool) {
	res := readAll(&chunkReader{chunks: chunks, fin: finErr(fin), dataFin: dataFin}, limit)
	s.record(chunking, readOp(chunks, limit, fin, dataFin), res, chunks, cut, limit, fin)
}

func (s *pstream) record(chunking, op string, res readRes, chunks [][]byte, cut int, limit int64, fin string) {
	line := res.line()
	w.Op(op, line)
	s.nops++
	w.Count("read/family/" + s.fam)
	w.Count("read/chunking/" + chunking)
	w.Count("read/err/" + res.err)
	w.Count("read/fin/" + fin)
	if limit > 0 {
		w.Count("read/limited")
	}
	if len(chunks) > 1 {
		h := fnv.New64a()
		h.Write(s.data[:cut])
		k := fmt.Sprintf("%x", h.Sum64())
		h.Reset()
		for _, c := range chunks {
			fmt.Fprintf(h, "%d,", len(c))
		}
		w.Distinct(fmt.Sprintf("%s/%x/%d/%s", k, h.Sum64(), limit, fin))
	}
	if s.nops <= 2 {
		w.Sample(op + " → " + line)
	}
	if res.panic != "" {
		w.Monitor(prop, "panic", "Decoder.Read panicked: "+res.panic, []string{op})
		return
	}
	// fragmentation independence
	key := fmt.Sprintf("%d/%d/%s", cut, limit, fin)
	if b, ok := s.base[key]; !ok {
		s.base[key] = [2]string{line, op}
	} else if b[0] != line {
		w.Monitor(prop, "fragmentation-dependent", fmt.Sprintf("same bytes, different chunking: %s | %s", short(b[0]), short(line)), []string{b[1], op})
	}
	if !s.oracle {
		return
	}
	en, ee := s.expect(cut, limit, fin)
	okPk := len(res.texts) == en
	if okPk {
		for i := range res.texts {
			if res.texts[i] != s.texts[i] {
				okPk = false
			}
		}
	}
	if okPk && res.err == ee {
		return
	}
	detail := fmt.Sprintf("expected the first %d packets then %s; got %d then %s", en, ee, len(res.texts), res.err)
	kind := "roundtrip-mismatch"
	switch {
	case cut < len(s.data) && len(res.texts) > en:
		kind = "truncated-yields-packet"
	case cut < len(s.data) && !s.onBoundary(cut) && res.err == "eof":
		kind = "truncated-clean-eof"
	case limit > 0 && (ee == "readLimit" || res.err == "readLimit"):
		kind = "limit-wrong"
	}
	w.Monitor(prop, kind, detail, []string{op})
}

func short(s string) string {
	if len(s) > 160 {
		return s[:160] + "…"
	}
	return s
}

// ---------------------------------------------------------------- chunkings

func one(data []byte) [][]byte {
	if len(data) == 0 {
		return nil
	}
	return [][]byte{data}
}

func bytewise(data []byte) [][]byte {
	out := make([][]byte, len(data))
	for i := range data {
		out[i] = data[i : i+1]
	}
	return out
}

func randChunks(r *gen.Rng, data []byte, k int) [][]byte {
	var out [][]byte
	for len(data) > 0 {
		n := 1 + r.Intn(k)
		if n > len(data) {
			n = len(data)
		}
		out = append(out, data[:n])
		data = data[n:]
	}
	return out
}

// a few (0, nil) reads in between (never 100 in a row: bufio gives up with io.ErrNoProgress there,
// which the model does not describe)
func withEmpties(r *gen.Rng, chunks [][]byte) [][]byte {
	var out [][]byte
	for i := 0; i <= len(chunks); i++ {
		if r.Intn(3) == 0 || len(chunks) == 0 {
			for j, n := 0, 1+r.Intn(3); j < n; j++ {
				out = append(out, []byte{})
			}
		}
		if i < len(chunks) {
			out = append(out, chunks[i])
		}
	}
	return out
}

// ---------------------------------------------------------------- generators

var types = packet.Types()

func tinyPacket(r *gen.Rng) packet.Generic {
	switch r.Intn(10) {
	case 0:
		return &packet.Pingreq{}
	case 1:
		return &packet.Pingresp{}
	case 2:
		return &packet.Disconnect{}
	case 3:
		return &packet.Puback{ID: r.ID()}
	case 4:
		return &packet.Connack{SessionPresent: r.Bool(), ReturnCode: packet.ConnackCode(r.Intn(6))}
	case 5:
		return &packet.Suback{ID: r.ID(), ReturnCodes: []packet.QOS{packet.QOS(r.Pick(0, 1, 2, 0x80))}}
	case 6:
		return &packet.Unsubscribe{ID: r.ID(), Topics: []string{string(r.Bytes(1 + r.Intn(4)))}}
	case 7:
		return &packet.Subscribe{ID: r.ID(), Subscriptions: []packet.Subscription{{Topic: string(r.Bytes(1 + r.Intn(4))), QOS: r.QOS()}}}
	case 8:
		p := packet.NewConnect()
		p.ClientID = string(r.Bytes(1 + r.Intn(4)))
		p.Version = byte(r.Pick(0, 3, 4))
		return p
	}
	p, _ := r.PacketWithRL(packet.PUBLISH, 10+r.Intn(12))
	return p
}

// a PUBLISH whose whole encoding is n bytes long
func publishOfLen(r *gen.Rng, n int) packet.Generic {
	for _, hl := range []int{2, 3, 4, 5} {
		rl := n - hl
		if rl < 9 {
			continue
		}
		var tmp [10]byte
		if 1+binary.PutUvarint(tmp[:], uint64(rl)) != hl {
			continue
		}
		if p, ok := r.PacketWithRL(packet.PUBLISH, rl); ok {
			return p
		}
	}
	p, _ := r.PacketWithRL(packet.PUBLISH, 16)
	return p
}

// lengths around the bufio buffer size and the varint boundaries
func boundaryLen(r *gen.Rng, big bool) int {
	switch r.Intn(12) {
	case 0, 1, 2, 3:
		return 4090 + r.Intn(11)
	case 4, 5:
		return 8186 + r.Intn(13)
	case 6:
		return 126 + r.Intn(8) // header grows from 2 to 3 bytes at 130
	case 7:
		return 16380 + r.Intn(10)
	case 8:
		if big {
			return r.Pick(20000, 70000, 12288, 2*4096*4) + r.Intn(3)
		}
		return 9000 + r.Intn(3000)
	case 9:
		return 4096*r.Pick(1, 2, 3) - r.Intn(6)
	}
	return 300 + r.Intn(3500)
}

func genPackets(r *gen.Rng, n int, big bool, maxTotal int) []packet.Generic {
	var ps []packet.Generic
	total := 0
	for i := 0; i < n; i++ {
		var p packet.Generic
		switch r.Intn(8) {
		case 0, 1:
			p = publishOfLen(r, boundaryLen(r, big))
		case 2:
			p = tinyPacket(r)
		default:
			p = r.Packet(types[r.Intn(len(types))])
		}
		if total+p.Len() > maxTotal && len(ps) > 0 {
			p = tinyPacket(r)
		}
		total += p.Len()
		ps = append(ps, p)
	}
	return ps
}

// ---------------------------------------------------------------- family a: short streams, exhaustive

func readShort(r *gen.Rng, n int) {
	for c := 0; c < n; c++ {
		var ps []packet.Generic
		total := 0
		for i, k := 0, 1+r.Intn(4); i < k; i++ {
			p := tinyPacket(r)
			if total+p.Len() > 64 {
				break
			}
			total += p.Len()
			ps = append(ps, p)
		}
		if len(ps) == 0 {
			ps = append(ps, &packet.Pingreq{})
		}
		w.Case(fmt.Sprintf("short stream, %d packets", len(ps)))
		s := build("a-short", ps)
		d := s.data
		N := len(d)
		s.op("one", one(d), N, 0, "eof", false)
		s.op("bytewise", bytewise(d), N, 0, "eof", false)
		for i := 1; i < N; i++ {
			s.op("split2", [][]byte{d[:i], d[i:]}, N, 0, "eof", false)
			for j := i + 1; j < N; j++ {
				s.op("split3", [][]byte{d[:i], d[i:j], d[j:]}, N, 0, "eof", r.Intn(8) == 0)
			}
		}
		for i := 0; i < 12; i++ {
			s.op("empties", withEmpties(r, randChunks(r, d, 1+r.Intn(8))), N, 0, "eof", r.Bool())
		}
		s.op("one", one(d), N, 0, "err", false)
		s.op("one", one(d), N, 0, "err", true)
		s.op("one", one(d), N, 0, "eof", true)
		// every truncation
		for cut := 0; cut < N; cut++ {
			s.op("one", one(d[:cut]), cut, 0, "eof", false)
			s.op("bytewise", bytewise(d[:cut]), cut, 0, "eof", false)
			switch cut % 3 {
			case 0:
				s.op("one", one(d[:cut]), cut, 0, "err", false)
			case 1:
				s.op("bytewise", bytewise(d[:cut]), cut, 0, "err", true)
			default:
				s.op("empties", withEmpties(r, bytewise(d[:cut])), cut, 0, "eof", true)
			}
		}
		// every small limit on the whole stream
		for L := 1; L <= 8 && L < N+2; L++ {
			s.op("one", one(d), N, int64(L), "eof", false)
			s.op("bytewise", bytewise(d), N, int64(L), "eof", false)
		}
		for _, l := range s.lens {
			for _, L := range []int{l - 1, l, l + 1} {
				if L > 0 {
					s.op("rand", randChunks(r, d, 3), N, int64(L), "eof", false)
				}
			}
		}
	}
}

// ---------------------------------------------------------------- families b, c, d: long streams

func pickTier(thorough bool, q, t int) int {
	if thorough {
		return t
	}
	return q
}

var ks = []int{1, 2, 3, 5, 7, 16, 100, 1000, 4095, 4096, 4097, 10000}

func readLong(r *gen.Rng, n int, big bool) {
	for c := 0; c < n; c++ {
		np := 1 + r.Intn(8)
		if r.Intn(4) == 0 {
			np = 1 + r.Intn(40)
		}
		maxTotal := pickTier(big, 20000, 40000)
		if big && r.Intn(10) == 0 {
			maxTotal = 300000
		}
		ps := genPackets(r, np, big, maxTotal)
		w.Case(fmt.Sprintf("long stream, %d packets", len(ps)))
		s := build("b-long", ps)
		d := s.data
		N := len(d)
		// b: the intact stream under many chunkings
		s.op("one", one(d), N, 0, "eof", false)
		for _, k := range ks {
			// (keeps ops.txt small: tiny chunks only on moderate streams)
			if (k == 1 && N > 2000) || (k < 16 && N > pickTier(big, 5000, 20000)) {
				continue
			}
			if !big && r.Intn(3) != 0 {
				continue // quick tier: a third of the chunk-size classes per stream
			}
			name := fmt.Sprintf("rand%d", k)
			if k == 1 {
				name = "bytewise"
			}
			s.op(name, randChunks(r, d, k), N, 0, "eof", false)
		}
		h := &halfReader{data: d, fin: io.EOF}
		res := readAll(h, 0)
		s.record("half", readOp(append(h.rec, one(h.data)...), 0, "eof", false), res, h.rec, N, 0, "eof")
		s.op("one", one(d), N, 0, "eof", true)
		s.op("rand4096", randChunks(r, d, 4096), N, 0, "eof", true)
		s.op("empties", withEmpties(r, randChunks(r, d, r.Pick(50, 2000, 5000))), N, 0, "eof", r.Bool())
		s.op("one", one(d), N, 0, "err", false)
		s.op("rand1000", randChunks(r, d, 1000), N, 0, "err", r.Bool())
		// a limit that every packet passes
		mx := 0
		for _, l := range s.lens {
			if l > mx {
				mx = l
			}
		}
		s.op("rand4096", randChunks(r, d, 4096), N, int64(mx+r.Intn(3)), "eof", false)

		// c: truncations
		s.fam = "c-truncated"
		for i, m := 0, pickTier(big, 3, 6); i < m; i++ {
			j := r.Intn(len(ps))
			off := 0
			for _, l := range s.lens[:j] {
				off += l
			}
			var cut int
			switch r.Intn(5) {
			case 0:
				cut = off + 1 // after the type byte
			case 1:
				cut = off + 1 + r.Intn(s.hdrs[j]) // inside the header (possibly inside the varint)
			case 2:
				cut = off + s.hdrs[j] // header complete, no body
			case 3:
				cut = off + s.lens[j] - 1 // last byte missing
			default:
				cut = off + r.Intn(s.lens[j]+1) // anywhere, including the boundary
			}
			if cut > N {
				cut = N
			}
			fin := "eof"
			if r.Intn(4) == 0 {
				fin = "err"
			}
			s.op("one", one(d[:cut]), cut, 0, fin, false)
			k := ks[2+r.Intn(len(ks)-2)]
			s.op(fmt.Sprintf("rand%d", k), randChunks(r, d[:cut], k), cut, 0, fin, r.Intn(4) == 0)
			if cut <= 1500 {
				s.op("bytewise", bytewise(d[:cut]), cut, 0, fin, false)
			}
		}

		// d: read limits around the packet lengths
		s.fam = "d-limit"
		for i, m := 0, pickTier(big, 1, 3); i < m; i++ {
			j := r.Intn(len(ps))
			for _, L := range []int{s.lens[j] - 1, s.lens[j], s.lens[j] + 1} {
				if L <= 0 {
					continue
				}
				if big || r.Bool() {
					s.op("one", one(d), N, int64(L), "eof", false)
				}
				k := ks[2+r.Intn(len(ks)-2)]
				s.op(fmt.Sprintf("rand%d", k), randChunks(r, d, k), N, int64(L), "eof", false)
			}
		}
		L := int64(r.Pick(1, 2, 3, 4, 5, 100, 4095, 4096, 4097))
		s.op("one", one(d), N, L, "eof", false)
		// limit and truncation together: header of the offending packet incomplete
		j := r.Intn(len(ps))
		off := 0
		for _, l := range s.lens[:j] {
			off += l
		}
		cut := off + 1 + r.Intn(s.hdrs[j])
		s.op("rand100", randChunks(r, d[:cut], 100), cut, int64(s.lens[j]-1+r.Intn(2)), "eof", false)
	}
}

// the limit must refuse before the body is read: a header declaring a huge remaining length, followed
// by a few bytes only.  (Without a limit the decoder would allocate the declared length.)
func readHuge(r *gen.Rng) {
	for _, rl := range []int{200 * 1000 * 1000, 268435455, 2097152, 1 << 20} {
		ps := genPackets(r, r.Intn(4), false, 3000)
		w.Case(fmt.Sprintf("huge declared length %d behind %d packets", rl, len(ps)))
		s := build("d-huge", ps)
		hdr := []byte{0x30}
		var tmp [10]byte
		hdr = append(hdr, tmp[:binary.PutUvarint(tmp[:], uint64(rl))]...)
		tail := append(hdr, r.Bytes(10)...)
		s.data = append(s.data, tail...)
		// oracle by hand: the packets, then readLimit
		s.oracle = false
		N := len(s.data)
		for _, lim := range []int64{1000, 4096, int64(rl + len(hdr) - 1)} {
			for _, ch := range [][][]byte{one(s.data), bytewise(s.data), randChunks(r, s.data, 7)} {
				rd := &chunkReader{chunks: ch, fin: io.EOF}
				res := readAll(rd, lim)
				op := readOp(ch, lim, "eof", false)
				s.record("huge", op, res, ch, N, lim, "eof")
				want := 0 // the leading packets that pass the limit
				for want < len(s.lens) && int64(s.lens[want]) <= lim {
					want++
				}
				ok := res.err == "readLimit" && len(res.texts) == want
				for i := 0; i < want; i++ {
					ok = ok && i < len(res.texts) && res.texts[i] == s.texts[i]
				}
				if !ok {
					w.Monitor(prop, "limit-wrong", fmt.Sprintf("declared length %d above the limit %d: expected %d packets then readLimit, got %d then %s", rl+len(hdr), lim, want, len(res.texts), res.err), []string{op})
				}
			}
		}
	}
}

// ---------------------------------------------------------------- family e: garbage

// a limit that keeps the decoder from allocating a huge declared length on garbage
func safeLimit(data []byte, limit int64) int64 {
	const cap = 4 << 20
	if limit > 0 && limit <= cap {
		return limit
	}
	for off := 0; off < len(data); {
		end := off + 5
		if end > len(data) {
			end = len(data)
		}
		l, _ := packet.DetectPacket(data[off:end])
		if l <= 0 {
			break
		}
		if l > cap {
			return 1 << 20
		}
		off += l
	}
	return limit
}

func mutateStream(r *gen.Rng, d []byte) ([]byte, string) {
	m := append([]byte{}, d...)
	if len(m) == 0 {
		return m, "empty"
	}
	i := r.Intn(len(m))
	switch r.Intn(6) {
	case 0:
		m[i] ^= 1 << uint(r.Intn(8))
		return m, "bitflip"
	case 1:
		return append(append(append([]byte{}, m[:i]...), byte(r.U64())), m[i:]...), "insert"
	case 2:
		return append(m[:i:i], m[i+1:]...), "delete"
	case 3:
		m[i] = byte(r.Pick(0, 1, 0x7f, 0x80, 0xff, 0xf0))
		return m, "byte-set"
	case 4:
		return append(m, r.Bytes(1+r.Intn(8))...), "extend"
	}
	// non-minimal remaining length of the first packet
	if len(m) > 1 && m[1] < 0x80 {
		return append([]byte{m[0], m[1] | 0x80, 0x00}, m[2:]...), "nonminimal-rl"
	}
	m[0] = byte(r.Pick(0x00, 0x0f, 0xf0, 0xff))
	return m, "type-set"
}

func readGarbage(r *gen.Rng, n int) {
	fixed := [][]byte{
		{}, {0x00}, {0xf0}, {0x00, 0x00}, {0xf0, 0x00}, {0x0f, 0x00}, {0xff, 0x00},
		{0x30, 0x80, 0x00}, {0xc0, 0x80, 0x00}, {0xc0, 0x80, 0x80, 0x00}, {0xc0, 0x80, 0x80, 0x80, 0x00},
		{0xc0, 0xff, 0xff, 0xff, 0xff}, {0xc0, 0xff, 0xff, 0xff, 0xff, 0x7f}, {0xc0, 0x80, 0x80, 0x80, 0x80, 0x00},
		{0xc0, 0xff, 0xff, 0xff}, {0xc0, 0xff, 0xff}, {0xc0, 0xff}, {0x30, 0xff, 0xff, 0xff},
		{0xc0, 0x00, 0xc0}, {0xc0, 0x00, 0x00, 0x00}, {0xc0, 0x00, 0xf0, 0x00}, {0xc0, 0x01, 0x00}, {0xd0, 0x00, 0xe0, 0x01},
		{0x20, 0x02, 0x00, 0x06}, {0x40, 0x02, 0x00, 0x00}, {0x62, 0x02, 0x00, 0x01}, {0x60, 0x02, 0x00, 0x01},
	}
	for c := 0; c < n; c++ {
		var data []byte
		var kind string
		switch k := r.Intn(10); {
		case c < len(fixed):
			data, kind = fixed[c], "fixed"
		case k == 0:
			data, kind = r.Bytes(r.Intn(200)), "random"
		case k == 1:
			// type byte, continuation bytes, maybe an end
			data = []byte{byte(r.Intn(256))}
			for i, m := 0, 1+r.Intn(5); i < m; i++ {
				data = append(data, byte(0x80|r.Intn(128)))
			}
			if r.Bool() {
				data = append(data, byte(r.Intn(128)))
			}
			kind = "continuation"
		case k == 2:
			data = append([]byte{byte(r.Pick(0x00, 0x0f, 0xf0, 0xff, 0x05, 0xf2)), byte(r.Intn(6))}, r.Bytes(r.Intn(8))...)
			kind = "invalid-type"
		case k == 3:
			s := build("e-garbage", genPackets(r, 1+r.Intn(5), false, 3000))
			data, kind = append(s.data, r.Bytes(1+r.Intn(20))...), "valid+garbage"
		default:
			ps := genPackets(r, 1+r.Intn(4), false, 2500)
			if r.Bool() {
				ps = []packet.Generic{tinyPacket(r), tinyPacket(r), tinyPacket(r)}
			}
			s := build("e-garbage", ps)
			data, kind = mutateStream(r, s.data)
			if r.Intn(4) == 0 {
				data, _ = mutateStream(r, data)
				kind = "double"
			}
			kind = "mut/" + kind
		}
		w.Case("garbage " + kind)
		w.Count("read/garbage/" + kind)
		s := raw("e-garbage", data)
		N := len(data)
		lim := safeLimit(data, int64(r.Pick(0, 0, 0, 0, 5, 100, 5000)))
		fin := "eof"
		if r.Intn(6) == 0 {
			fin = "err"
		}
		s.op("one", one(data), N, lim, fin, false)
		s.op("rand", randChunks(r, data, r.Pick(1, 2, 3, 7, 100)), N, lim, fin, r.Intn(4) == 0)
		if N <= 300 {
			s.op("bytewise", bytewise(data), N, lim, fin, false)
		} else {
			s.op("rand4097", randChunks(r, data, 4097), N, lim, fin, false)
		}
	}
}

// gated reader: Read blocks until released, then hands out what it was given
type gatedReader struct {
	gate chan struct{}
	data []byte
	off  int
}

func (g *gatedReader) Read(p []byte) (int, error) {
	<-g.gate
	if g.off >= len(g.data) {
		return 0, io.EOF
	}
	n := copy(p, g.data[g.off:])
	g.off += n
	return n, nil
}

// the read limit in force when the packet arrives decides, also when it was set while Read was already waiting
// (a connection's limit is set by another goroutine than the one that receives)
func limitWhileWaiting(r *gen.Rng, n int) {
	for i := 0; i < n; i++ {
		p := &packet.Publish{Message: packet.Message{Topic: "t", Payload: make([]byte, 100+r.Intn(400))}}
		buf := make([]byte, p.Len())
		if _, err := p.Encode(buf); err != nil {
			continue
		}
		g := &gatedReader{gate: make(chan struct{}), data: buf}
		d := packet.NewDecoder(g)
		d.SetReadLimit(0)
		type res struct {
			pkt packet.Generic
			err error
		}
		done := make(chan res, 1)
		go func() {
			pkt, err := d.Read()
			done <- res{pkt, err}
		}()
		// let Read reach the blocked reader, then lower the limit below the packet's length, then deliver the bytes
		for j := 0; j < 50; j++ {
			runtime.Gosched()
		}
		time.Sleep(2 * time.Millisecond)
		d.SetReadLimit(64)
		close(g.gate)
		x := <-done
		w.Count("read/limit-while-waiting")
		if x.err != packet.ErrReadLimitExceeded {
			w.Monitor(prop, "limit-wrong", fmt.Sprintf("SetReadLimit(64) returned while Read was waiting for data; the %d-byte packet that arrived afterwards was not refused (err=%v)", len(buf), x.err),
				[]string{"NewDecoder(gated reader); go Read(); SetReadLimit(64); deliver " + fmt.Sprint(len(buf)) + " bytes"})
		}
	}
}
