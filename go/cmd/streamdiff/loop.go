package main

import (
	"errors"
	"fmt"
	"net"
	"strings"
	"time"

	"github.com/256dpi/gomqtt/packet"
	"github.com/256dpi/gomqtt/transport"
	"github.com/gorilla/websocket"

	"verifharness/lib/gen"
	"verifharness/lib/wire"
)

const ioTimeout = 10 * time.Second

type loopEnv struct {
	ws, tcp         transport.Server
	wsAddr, tcpAddr string
}

func accept(srv transport.Server) (transport.Conn, error) {
	type res struct {
		c   transport.Conn
		err error
	}
	ch := make(chan res, 1)
	go func() {
		c, err := srv.Accept()
		ch <- res{c, err}
	}()
	select {
	case x := <-ch:
		return x.c, x.err
	case <-time.After(ioTimeout):
		return nil, errors.New("accept timed out")
	}
}

// Receive until the first error; the texts are computed afterwards
func receiveAll(c transport.Conn, limit int64) (res readRes, timeout bool) {
	var pkts []packet.Generic
	defer func() {
		if x := recover(); x != nil {
			res.panic = fmt.Sprint(x)
		}
	}()
	c.SetReadLimit(limit)
	c.SetReadTimeout(ioTimeout)
	for {
		p, err := c.Receive()
		if err != nil {
			var ne net.Error
			if errors.As(err, &ne) && ne.Timeout() {
				timeout = true
			}
			res.err = classify(err, true)
			break
		}
		pkts = append(pkts, p)
	}
	for _, p := range pkts {
		res.texts = append(res.texts, wire.ShowPacket(p))
	}
	return res, timeout
}

// ---------------------------------------------------------------- raw WebSocket client frames

func wsFrame(fin bool, opcode byte, payload []byte, key [4]byte) []byte {
	b0 := opcode
	if fin {
		b0 |= 0x80
	}
	out := []byte{b0}
	n := len(payload)
	switch {
	case n < 126:
		out = append(out, 0x80|byte(n))
	case n < 65536:
		out = append(out, 0x80|126, byte(n>>8), byte(n))
	default:
		out = append(out, 0x80|127, 0, 0, 0, 0, byte(n>>24), byte(n>>16), byte(n>>8), byte(n))
	}
	out = append(out, key[:]...)
	for i, b := range payload {
		out = append(out, b^key[i%4])
	}
	return out
}

type wsMsg struct {
	text   bool
	frames [][]byte
}

func (m wsMsg) show() string {
	k := "b"
	if m.text {
		k = "t"
	}
	if len(m.frames) == 0 {
		return k + "-"
	}
	fs := make([]string, len(m.frames))
	for i, f := range m.frames {
		fs[i] = wire.Hx(f)
	}
	return k + strings.Join(fs, "/")
}

// the frames of one message as the client puts them on the wire (an empty frame list is one empty
// final frame)
func (m wsMsg) wireBytes(r *gen.Rng) []byte {
	op := byte(websocket.BinaryMessage)
	if m.text {
		op = websocket.TextMessage
	}
	key := func() [4]byte { u := r.U64(); return [4]byte{byte(u), byte(u >> 8), byte(u >> 16), byte(u >> 24)} }
	if len(m.frames) == 0 {
		return wsFrame(true, op, nil, key())
	}
	var out []byte
	for i, f := range m.frames {
		o := op
		if i > 0 {
			o = 0 // continuation
		}
		out = append(out, wsFrame(i == len(m.frames)-1, o, f, key())...)
	}
	return out
}

// ---------------------------------------------------------------- cases

func loopStream(r *gen.Rng, big bool) (s *pstream, cut int, limit int64) {
	np := 1 + r.Intn(6)
	if r.Intn(5) == 0 {
		np = 1 + r.Intn(30)
	}
	s = build("loop", genPackets(r, np, big, 60000))
	cut = len(s.data)
	switch r.Intn(8) {
	case 0:
		cut = r.Intn(len(s.data) + 1) // truncated anywhere
	case 1:
		j := r.Intn(len(s.lens))
		limit = int64(s.lens[j] + r.Pick(-1, 0, 1))
		if limit < 0 {
			limit = 0
		}
	case 2:
		// garbage: no oracle, only the model
		s.data, _ = mutateStream(r, s.data)
		s.oracle = false
		cut = len(s.data)
		limit = safeLimit(s.data, 0)
	}
	return s, cut, limit
}

// server side of a WebSocket connection fed by a raw client
func (e *loopEnv) wsCase(r *gen.Rng, big bool) {
	s, cut, limit := loopStream(r, big)
	data := s.data[:cut]
	// cut the stream into messages, the messages into frames
	var msgs []wsMsg
	k := r.Pick(1, 2, 5, 50, 500, 5000, 70000)
	for _, m := range randChunks(r, data, k) {
		if r.Intn(6) == 0 {
			msgs = append(msgs, wsMsg{}) // an empty message in between
		}
		var fr [][]byte
		switch r.Intn(3) {
		case 0:
			fr = [][]byte{m}
		case 1:
			fr = randChunks(r, m, 1+len(m)/2)
		default:
			fr = withEmpties(r, randChunks(r, m, 1+len(m)))
		}
		msgs = append(msgs, wsMsg{frames: fr})
	}
	mode := []string{"close", "drop", "error"}[r.Intn(3)]
	textAt := -1
	if r.Intn(4) == 0 {
		textAt = r.Intn(len(msgs) + 1)
		tm := wsMsg{text: true, frames: [][]byte{[]byte("hello")}}
		msgs = append(msgs[:textAt:textAt], append([]wsMsg{tm}, msgs[textAt:]...)...)
	}
	var sizes []string
	for i, n := 0, 1+r.Intn(4); i < n; i++ {
		sz := 1 + r.Intn(5000)
		if len(data) > 2000 && sz < 512 {
			sz += 512 // keep the number of model-side reads moderate on big streams
		}
		sizes = append(sizes, fmt.Sprint(sz))
	}
	ms := make([]string, len(msgs))
	for i, m := range msgs {
		ms[i] = m.show()
	}
	if len(ms) == 0 {
		ms = []string{"b-"}
		msgs = []wsMsg{{}}
	}
	end := "close" // a dropped TCP connection is a *websocket.CloseError (1006) for gorilla as well
	if mode == "error" {
		end = "error"
	}
	op := fmt.Sprintf("stream ws %d %s %s %s", limit, end, strings.Join(sizes, ","), strings.Join(ms, ","))
	w.Case("loopback ws server, client ends with " + mode)
	w.Count("loop/ws-server/" + mode)
	w.Count("loop/ws-msgs/" + cntClass(len(msgs)))

	// what the server must see: the payload of the binary messages before the first text message
	outc, fin, seen := "eof", "eof", cut
	if mode == "error" {
		outc, fin = "error", "err"
	}
	if textAt >= 0 {
		outc, fin, seen = "notBinary", "err", 0
		for _, m := range msgs[:textAt] {
			for _, f := range m.frames {
				seen += len(f)
			}
		}
	}

	var wireData [][]byte
	for _, m := range msgs {
		wireData = append(wireData, m.wireBytes(r))
	}
	switch mode {
	case "close":
		wireData = append(wireData, wsFrame(true, websocket.CloseMessage, []byte{0x03, 0xe8}, [4]byte{1, 2, 3, 4}))
	case "error":
		// reserved bit set: a protocol error for gorilla (not a CloseError)
		wireData = append(wireData, wsFrame(true, 0x40|websocket.BinaryMessage, []byte{0}, [4]byte{1, 2, 3, 4}))
	}
	slow := r.Intn(4) == 0

	d := websocket.Dialer{HandshakeTimeout: ioTimeout, Subprotocols: []string{"mqtt"}}
	cc, _, err := d.Dial("ws://"+e.wsAddr+"/", nil)
	if err != nil {
		w.Monitor(prop, "loopback-timeout", "dial: "+err.Error(), []string{op})
		return
	}
	defer cc.Close()
	sc, err := accept(e.ws)
	if err != nil {
		w.Monitor(prop, "loopback-timeout", "accept: "+err.Error(), []string{op})
		return
	}
	defer sc.Close()
	rawc := cc.UnderlyingConn()
	done := make(chan struct{})
	go func() {
		defer close(done)
		rawc.SetWriteDeadline(time.Now().Add(ioTimeout))
		for _, b := range wireData {
			if _, err := rawc.Write(b); err != nil {
				return // the server gave up early (limit, decode error)
			}
			if slow && len(wireData) < 200 {
				time.Sleep(300 * time.Microsecond)
			}
		}
		if mode == "drop" {
			rawc.Close()
		}
	}()
	res, timeout := receiveAll(sc, limit)
	sc.Close()
	cc.Close()
	<-done
	line := "out=" + outc + " " + res.line()
	w.Op(op, line)
	w.Count("loop/err/" + res.err)
	w.Sample(short(op) + " → " + short(line))
	e.judge(s, op, res, timeout, seen, limit, fin)
}

func (e *loopEnv) judge(s *pstream, op string, res readRes, timeout bool, seen int, limit int64, fin string) {
	if res.panic != "" {
		w.Monitor(prop, "panic", res.panic, []string{op})
		return
	}
	if timeout {
		w.Monitor(prop, "loopback-timeout", "Receive ran into the 10 s read timeout", []string{op})
		return
	}
	if !s.oracle {
		return
	}
	en, ee := s.expect(seen, limit, fin)
	ok := len(res.texts) == en && res.err == ee
	for i := 0; ok && i < en; i++ {
		ok = res.texts[i] == s.texts[i]
	}
	if !ok {
		w.Monitor(prop, "loopback-mismatch", fmt.Sprintf("expected the first %d packets then %s; got %d then %s", en, ee, len(res.texts), res.err), []string{op})
	}
}

// server side of a TCP connection fed by a raw client writing arbitrary segments
func (e *loopEnv) tcpCase(r *gen.Rng, big bool) {
	s, cut, limit := loopStream(r, big)
	data := s.data[:cut]
	k := r.Pick(7, 100, 1460, 4096, 65536)
	if len(data) <= 300 && r.Bool() {
		k = 1
	}
	segs := randChunks(r, data, k)
	op := readOp(segs, limit, "eof", false)
	w.Case("loopback tcp server")
	w.Count("loop/tcp-server")
	slow := r.Intn(4) == 0
	cc, err := net.DialTimeout("tcp", e.tcpAddr, ioTimeout)
	if err != nil {
		w.Monitor(prop, "loopback-timeout", "dial: "+err.Error(), []string{op})
		return
	}
	defer cc.Close()
	sc, err := accept(e.tcp)
	if err != nil {
		w.Monitor(prop, "loopback-timeout", "accept: "+err.Error(), []string{op})
		return
	}
	defer sc.Close()
	done := make(chan struct{})
	go func() {
		defer close(done)
		cc.SetWriteDeadline(time.Now().Add(ioTimeout))
		for _, b := range segs {
			if _, err := cc.Write(b); err != nil {
				break
			}
			if slow && len(segs) < 200 {
				time.Sleep(200 * time.Microsecond)
			}
		}
		cc.Close()
	}()
	res, timeout := receiveAll(sc, limit)
	sc.Close()
	<-done
	w.Op(op, res.line())
	w.Count("loop/err/" + res.err)
	e.judge(s, op, res, timeout, cut, limit, "eof")
}

// transport.Dial client sending packets (random async flags, Close flushes), server receiving
func (e *loopEnv) reverseCase(r *gen.Rng, scheme string, big bool) {
	np := 1 + r.Intn(8)
	s := build("loop", genPackets(r, np, big, 60000))
	op := readOp(one(s.data), 0, "eof", false)
	w.Case("loopback " + scheme + " client sends, server receives")
	w.Count("loop/reverse/" + scheme)
	addr, srv := e.tcpAddr, e.tcp
	if scheme == "ws" {
		addr, srv = e.wsAddr, e.ws
	}
	cc, err := transport.Dial(scheme + "://" + addr + "/")
	if err != nil {
		w.Monitor(prop, "loopback-timeout", "dial: "+err.Error(), []string{op})
		return
	}
	defer cc.Close()
	sc, err := accept(srv)
	if err != nil {
		w.Monitor(prop, "loopback-timeout", "accept: "+err.Error(), []string{op})
		return
	}
	defer sc.Close()
	switch r.Intn(3) {
	case 0:
		cc.SetMaxWriteDelay(2 * time.Millisecond)
	case 1:
		cc.SetMaxWriteDelay(time.Hour)
	}
	flags := make([]bool, len(s.pkts))
	for i := range flags {
		flags[i] = r.Bool()
	}
	done := make(chan error, 1)
	go func() {
		for i, p := range s.pkts {
			if err := cc.Send(p, flags[i]); err != nil {
				done <- err
				return
			}
		}
		done <- cc.Close()
	}()
	res, timeout := receiveAll(sc, 0)
	sc.Close()
	if err := <-done; err != nil {
		w.Monitor(prop, "loopback-mismatch", "client Send/Close failed: "+err.Error(), []string{op})
	}
	w.Op(op, res.line())
	w.Count("loop/err/" + res.err)
	e.judge(s, op, res, timeout, len(s.data), 0, "eof")
}

func loopback(r *gen.Rng, n int, big bool) {
	if n == 0 {
		return
	}
	e := &loopEnv{}
	var err error
	if e.ws, err = transport.Launch("ws://localhost:0"); err != nil {
		w.Monitor(prop, "loopback-timeout", "launch ws: "+err.Error(), nil)
		return
	}
	defer e.ws.Close()
	if e.tcp, err = transport.Launch("tcp://localhost:0"); err != nil {
		w.Monitor(prop, "loopback-timeout", "launch tcp: "+err.Error(), nil)
		return
	}
	defer e.tcp.Close()
	e.wsAddr, e.tcpAddr = e.ws.Addr().String(), e.tcp.Addr().String()
	for c := 0; c < n; c++ {
		switch c % 8 {
		case 0, 1, 2, 3:
			e.wsCase(r, big)
		case 4, 5:
			e.tcpCase(r, big)
		case 6:
			e.reverseCase(r, "tcp", big)
		default:
			e.reverseCase(r, "ws", big)
		}
	}
}
