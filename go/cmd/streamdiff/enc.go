package main

import (
	"bytes"
	"errors"
	"fmt"
	"hash/fnv"
	"strings"
	"sync"
	"time"

	"github.com/256dpi/gomqtt/packet"

	"verifharness/lib/gen"
	"verifharness/lib/wire"
)

// ---------------------------------------------------------------- the recording carrier

var errCarrier = errors.New("streamdiff: carrier failed")

type recorder struct {
	mu       sync.Mutex
	writes   [][]byte
	nbytes   int
	attempts int // Write calls including the failed ones
	down     bool
}

func (c *recorder) Write(p []byte) (int, error) {
	c.mu.Lock()
	defer c.mu.Unlock()
	c.attempts++
	if c.down {
		return 0, errCarrier
	}
	c.writes = append(c.writes, append([]byte{}, p...))
	c.nbytes += len(p)
	return len(p), nil
}

func (c *recorder) snap() (writes, nbytes, attempts int) {
	c.mu.Lock()
	defer c.mu.Unlock()
	return len(c.writes), c.nbytes, c.attempts
}

func (c *recorder) fail() {
	c.mu.Lock()
	c.down = true
	c.mu.Unlock()
}

// ---------------------------------------------------------------- the buffer convention after a failure
//
// Once the carrier fails, "bytes still buffered" is not observable on the implementation.  The
// model's convention (Model/Stream.lean, bwrite/bflush: a failed carrier write drops nothing, the
// bufio error is sticky, a failed timer flush is reported once by the next call) is reproduced here,
// on bytes; it is used ONLY for the buffered figure after an `x` event (and by the generator to aim at
// the 4096 boundary).  ok/err and the carrier's counts always come from the real calls.
type simW struct {
	buf                           []byte
	bufErr, pendErr, delay0, down bool
}

const bufCap = 4096

func (s *simW) bflush() bool {
	if s.bufErr {
		return false
	}
	if len(s.buf) == 0 {
		return true
	}
	if s.down {
		s.bufErr = true
		return false
	}
	s.buf = nil
	return true
}

func (s *simW) direct() bool {
	if s.down {
		s.bufErr = true
		return false
	}
	return true
}

func (s *simW) bwrite(p []byte) bool {
	if s.bufErr {
		return false
	}
	if len(p) <= bufCap-len(s.buf) {
		s.buf = append(s.buf[:len(s.buf):len(s.buf)], p...)
		return true
	}
	if len(s.buf) == 0 {
		return s.direct()
	}
	k := bufCap - len(s.buf)
	s.buf = append(s.buf[:len(s.buf):len(s.buf)], p[:k]...)
	if !s.bflush() {
		return false
	}
	if rest := p[k:]; len(rest) <= bufCap {
		s.buf = append([]byte{}, rest...)
		return true
	}
	return s.direct()
}

func (s *simW) mwrite(p []byte, flush bool) bool {
	if s.pendErr {
		s.pendErr = false
		return false
	}
	if len(p) > 0 && !s.bwrite(p) {
		return false
	}
	if (flush || s.delay0) && !s.bflush() {
		return false
	}
	return true
}

func (s *simW) timerFire() {
	if !s.bflush() {
		s.pendErr = true
	}
}

// ---------------------------------------------------------------- scripts

type ev struct {
	kind   string // wa ws f t d0 d1 x
	p      packet.Generic
	broken bool
}

func ownEncode(p packet.Generic) (b []byte, ok bool) {
	defer func() {
		if recover() != nil {
			b, ok = nil, false
		}
	}()
	buf := make([]byte, p.Len())
	n, err := p.Encode(buf)
	if err != nil {
		return nil, false
	}
	return buf[:n], true
}

func safely(f func() error) (err error, panicked string) {
	defer func() {
		if x := recover(); x != nil {
			panicked = fmt.Sprint(x)
		}
	}()
	return f(), ""
}

// runScript drives one Encoder through the events.  timerDelay = 0: `d1` is time.Hour and the script
// holds no `t`; otherwise `d1` is that small delay and every buffered async write is followed by `t`.
func runScript(fam string, evs []ev, timerDelay time.Duration) {
	rec := &recorder{}
	enc := packet.NewEncoder(rec)
	var (
		parts     []string
		steps     []string
		expected  []byte // own encodings of the accepted packets, in order
		failed    bool   // after x
		delay0    = true
		sim       simW
		verified  int // writes already checked against expected
		wirePos   int
		mons      [][2]string
		hasT      bool
		attBefore int
	)
	mon := func(kind, detail string) { mons = append(mons, [2]string{kind, detail}) }
	buffered := 0
	for _, e := range evs {
		part := e.kind
		ok := true
		racy := false // timer mode: the timer may fire before we look
		wBefore, bBefore, aBefore := rec.snap()
		switch e.kind {
		case "wa", "ws":
			part += " " + wire.ShowPacket(e.p)
			own, encodable := ownEncode(e.p)
			async := e.kind == "wa"
			if async {
				attBefore = aBefore
			}
			err, pn := safely(func() error { return enc.Write(e.p, async) })
			if pn != "" {
				mon("panic", "Encoder.Write panicked: "+pn)
			}
			ok = err == nil && pn == ""
			w.Count("enc/pkt-type/" + wire.TypeName(e.p.Type()))
			w.Count("enc/pkt-len/" + lenClass(len(own)))
			if ok {
				if !encodable {
					mon("wire-mismatch", "a packet its own Encode rejects was written")
				}
				expected = append(expected, own...)
				racy = timerDelay > 0 && async && !delay0 && len(own) <= bufCap
			} else if encodable && !failed {
				mon("write-failed", fmt.Sprintf("Encoder.Write of a well-formed packet failed: %v", err))
			}
			if failed && encodable {
				sim.mwrite(own, !async)
			}
			if racy {
				buffered += len(own)
			}
		case "f":
			err, pn := safely(enc.Flush)
			if pn != "" {
				mon("panic", "Encoder.Flush panicked: "+pn)
			}
			ok = err == nil && pn == ""
			if failed {
				sim.mwrite(nil, true)
			} else if !ok {
				mon("write-failed", fmt.Sprintf("Flush failed: %v", err))
			}
		case "d0":
			enc.SetMaxWriteDelay(0)
			delay0, sim.delay0 = true, true
		case "d1":
			if timerDelay > 0 {
				enc.SetMaxWriteDelay(timerDelay)
			} else {
				enc.SetMaxWriteDelay(time.Hour)
			}
			delay0, sim.delay0 = false, false
		case "x":
			_, nb, _ := rec.snap()
			sim = simW{buf: append([]byte{}, expected[nb:]...), delay0: delay0, down: true}
			rec.fail()
			failed = true
		case "t":
			// wait for the timer flush: all accepted bytes on the wire, or (carrier down) one more
			// failed carrier call
			hasT = true
			deadline := time.Now().Add(10 * time.Second)
			for {
				_, nb, at := rec.snap()
				if (!failed && nb == len(expected)) || (failed && at > attBefore) {
					break
				}
				if time.Now().After(deadline) {
					mon("timer-timeout", "the delayed flush did not happen within 10 s")
					break
				}
				time.Sleep(200 * time.Microsecond)
			}
			if failed {
				sim.timerFire()
			}
		}
		nw, nb, _ := rec.snap()
		if racy {
			nw, nb = wBefore, bBefore
		} else if failed {
			buffered = len(sim.buf)
		} else {
			buffered = len(expected) - nb
		}
		st := "ok"
		if !ok {
			st = "err"
		}
		steps = append(steps, fmt.Sprintf("%s:%d:%d:%d", st, nw, nb, buffered))
		parts = append(parts, part)
		w.Count("enc/event/" + e.kind + "/" + st)
		if failed || racy {
			continue
		}
		// the wire is always a prefix of what was accepted
		rec.mu.Lock()
		for ; verified < len(rec.writes); verified++ {
			wr := rec.writes[verified]
			if wirePos+len(wr) > len(expected) || !bytes.Equal(expected[wirePos:wirePos+len(wr)], wr) {
				mon("wire-not-prefix", fmt.Sprintf("carrier write %d is not the continuation of the accepted packets", verified))
			}
			wirePos += len(wr)
		}
		rec.mu.Unlock()
		if ok && buffered != 0 && (e.kind == "ws" || e.kind == "f" || e.kind == "t" || (e.kind == "wa" && delay0)) {
			mon("not-flushed", fmt.Sprintf("%d bytes still buffered after %s", buffered, e.kind))
		}
	}
	// final answer
	rec.mu.Lock()
	wr := showChunks(rec.writes)
	var all []byte
	for _, c := range rec.writes {
		all = append(all, c...)
	}
	rec.mu.Unlock()
	var left []byte
	if failed {
		left = sim.buf
	} else {
		left = expected[len(all):]
		if len(evs) > 0 && evs[len(evs)-1].kind == "f" && !bytes.Equal(all, expected) {
			mon("wire-mismatch", fmt.Sprintf("after the final flush the wire holds %d bytes, the packets encode to %d", len(all), len(expected)))
		}
	}
	op := fmt.Sprintf("stream enc %d %s", bufCap, strings.Join(parts, " | "))
	line := fmt.Sprintf("steps=%s wire=%s buffered=%s", strings.Join(steps, ","), wr, wire.Hx(left))
	w.Op(op, line)
	w.Count("enc/family/" + fam)
	w.Count("enc/script-len/" + cntClass(len(evs)))
	w.Count("enc/carrier-writes/" + cntClass(len(rec.writes)))
	if hasT {
		w.Count("enc/with-timer")
	}
	hh := fnv.New64a()
	hh.Write([]byte(op))
	w.Distinct(fmt.Sprintf("enc/%x", hh.Sum64()))
	w.Sample(op + " → " + line)
	for _, m := range mons {
		w.Monitor(prop, m[0], m[1], []string{op})
	}
}

// ---------------------------------------------------------------- generators

func encPacket(r *gen.Rng, fill int, big bool) packet.Generic {
	switch r.Intn(12) {
	case 0:
		return tinyPacket(r)
	case 1, 2:
		return publishOfLen(r, 400+r.Intn(2200))
	case 3:
		return publishOfLen(r, 4090+r.Intn(11))
	case 4:
		return publishOfLen(r, boundaryLen(r, big))
	case 5, 6:
		// aim at the space left in the 4096-byte buffer
		if n := bufCap - fill + r.Pick(-2, -1, 0, 0, 1, 2); n >= 12 {
			return publishOfLen(r, n)
		}
		return tinyPacket(r)
	}
	p := r.Packet(types[r.Intn(len(types))])
	if !big && p.Len() > 20000 {
		return tinyPacket(r)
	}
	return p
}

func brokenPacket(r *gen.Rng) (packet.Generic, bool) {
	for i := 0; i < 20; i++ {
		p, why := r.Break(types[r.Intn(len(types))])
		if why == "none" || why == "empty-list" || strings.HasSuffix(why, "-long") {
			continue
		}
		if _, ok := ownEncode(p); ok {
			continue
		}
		return p, true
	}
	return nil, false
}

// a script without failure; the generator follows the buffer fill to aim at the boundary
func genScript(r *gen.Rng, n int, big bool, nbroken int) []ev {
	var evs []ev
	var g simW
	g.delay0 = true
	mode := r.Intn(3)
	if mode == 1 {
		evs = append(evs, ev{kind: "d1"})
		g.delay0 = false
	}
	for len(evs) < n {
		k := r.Intn(20)
		switch {
		case nbroken > 0 && k == 0:
			if p, ok := brokenPacket(r); ok {
				nbroken--
				kind := "ws"
				if r.Bool() {
					kind = "wa"
				}
				evs = append(evs, ev{kind: kind, p: p, broken: true})
			}
		case k < 13:
			async := r.Bool()
			if mode == 1 {
				async = r.Intn(8) != 0
			} else if mode == 2 {
				async = r.Intn(4) == 0
			}
			p := encPacket(r, len(g.buf), big)
			own, _ := ownEncode(p)
			g.mwrite(own, !async)
			kind := "ws"
			if async {
				kind = "wa"
			}
			evs = append(evs, ev{kind: kind, p: p})
		case k < 15:
			g.mwrite(nil, true)
			evs = append(evs, ev{kind: "f"})
		case k < 17:
			g.delay0 = true
			evs = append(evs, ev{kind: "d0"})
		default:
			g.delay0 = false
			evs = append(evs, ev{kind: "d1"})
		}
	}
	return evs
}

func scriptLen(r *gen.Rng) int {
	if r.Bool() {
		return 1 + r.Intn(8)
	}
	return 1 + r.Intn(40)
}

func encScripts(r *gen.Rng, n, nx, nbroken int, big bool) {
	for c := 0; c < n; c++ {
		w.Case("encoder script")
		evs := append(genScript(r, scriptLen(r), big, 0), ev{kind: "f"})
		runScript("plain", evs, 0)
	}
	for c := 0; c < nbroken; c++ {
		w.Case("encoder script with packets Encode rejects")
		evs := append(genScript(r, scriptLen(r), big, 1+r.Intn(2)), ev{kind: "f"})
		runScript("broken", evs, 0)
	}
	for c := 0; c < nx; c++ {
		w.Case("encoder script, carrier fails")
		evs := genScript(r, r.Intn(13), big, 0)
		evs = append(evs, ev{kind: "x"})
		tail := genScript(r, 1+r.Intn(5), big, 0)
		if len(tail) > 0 && tail[0].kind == "d1" && r.Bool() {
			tail = tail[1:]
		}
		evs = append(evs, tail...)
		if r.Bool() {
			evs = append(evs, ev{kind: "f"})
		}
		runScript("carrier-fails", evs, 0)
	}
}

// scripts with a real (small) flush delay: every async write that leaves data buffered is followed
// by `t`, for which the harness waits until the timer has flushed.
func encTimerScripts(r *gen.Rng, n int) {
	const delay = 2 * time.Millisecond
	for c := 0; c < n; c++ {
		w.Case("encoder script with timer")
		evs := []ev{{kind: "d1"}}
		delay0 := false
		for i, m := 0, 2+r.Intn(6); i < m; i++ {
			switch k := r.Intn(10); {
			case k < 6:
				p := encPacket(r, 0, false)
				evs = append(evs, ev{kind: "wa", p: p})
				if !delay0 {
					evs = append(evs, ev{kind: "t"})
				}
			case k == 6:
				evs = append(evs, ev{kind: "ws", p: encPacket(r, 0, false)})
			case k == 7:
				evs = append(evs, ev{kind: "f"})
			case k == 8:
				evs = append(evs, ev{kind: "d0"})
				delay0 = true
			default:
				evs = append(evs, ev{kind: "d1"})
				delay0 = false
			}
		}
		fam := "timer"
		if c%3 == 2 {
			// the carrier fails, a buffered async write, the timer flush fails: reported once by the
			// next call, then the bufio error is sticky (no further timer is ever armed)
			fam = "timer-carrier-fails"
			if delay0 {
				evs = append(evs, ev{kind: "d1"})
			}
			evs = append(evs, ev{kind: "x"}, ev{kind: "wa", p: publishOfLen(r, 12+r.Intn(4000))}, ev{kind: "t"})
			for i, m := 0, 1+r.Intn(4); i < m; i++ {
				switch r.Intn(3) {
				case 0:
					evs = append(evs, ev{kind: "f"})
				case 1:
					evs = append(evs, ev{kind: "ws", p: encPacket(r, 0, false)})
				default:
					evs = append(evs, ev{kind: "wa", p: encPacket(r, 0, false)})
				}
			}
		} else {
			evs = append(evs, ev{kind: "f"})
		}
		runScript(fam, evs, delay)
	}
}

// busyWriter is a carrier under back-pressure: it takes a large write in two halves, and between the halves the
// process does other MQTT work (another stream decodes and encodes a packet of its own).  It never keeps p.
type busyWriter struct {
	wire    bytes.Buffer
	between func()
}

func (b *busyWriter) Write(p []byte) (int, error) {
	if len(p) < 1024 {
		return b.wire.Write(p)
	}
	h := len(p) / 2
	b.wire.Write(p[:h])
	b.between()
	b.wire.Write(p[h:])
	return len(p), nil
}

// what the encoder hands to its writer stays the packet's encoding until the writer has taken it, whatever other
// streams of the process do meanwhile (packets larger than the write buffer go to the carrier directly; so does the
// rest of a packet that did not fit behind buffered ones)
func encWhileOthersWork(r *gen.Rng, n int) {
	for i := 0; i < n; i++ {
		size := 4200 + r.Intn(6000)
		out := &packet.Publish{Message: packet.Message{Topic: "out", Payload: bytes.Repeat([]byte{0xAA}, size)}}
		other := &packet.Publish{Message: packet.Message{Topic: "other", Payload: bytes.Repeat([]byte{0xBB}, size+r.Intn(200))}}
		enc := func(p packet.Generic) []byte {
			b := make([]byte, p.Len())
			p.Encode(b)
			return b
		}
		otherWire, want := enc(other), enc(out)
		bw := &busyWriter{}
		bw.between = func() {
			packet.NewDecoder(bytes.NewReader(otherWire)).Read()
			var sink bytes.Buffer
			e := packet.NewEncoder(&sink)
			e.Write(other, false)
		}
		e := packet.NewEncoder(bw)
		script := "Write(large, flushed)"
		if r.Bool() {
			small := &packet.Publish{Message: packet.Message{Topic: "s", Payload: []byte{1, 2, 3}}}
			e.SetMaxWriteDelay(10 * time.Second)
			e.Write(small, true)
			want = append(enc(small), want...)
			script = "Write(small, buffered); Write(large, buffered); Flush"
			e.Write(out, true)
			e.Flush()
		} else {
			e.Write(out, false)
		}
		w.Count("enc/while-others-work")
		if got := bw.wire.Bytes(); !bytes.Equal(got, want) {
			at := 0
			for at < len(got) && at < len(want) && got[at] == want[at] {
				at++
			}
			w.Monitor(prop, "wire-not-concat", fmt.Sprintf("%s with a carrier that takes the %d-byte packet in two halves while another stream decodes and encodes a packet: the wire differs from the encoding at offset %d of %d", script, len(want), at, len(want)),
				[]string{script, "carrier: first half, other stream Read + Write, second half"})
		}
	}
}
