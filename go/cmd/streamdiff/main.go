// streamdiff — correspondence harness for stream framing (property C03):
// packet.Decoder / packet.Encoder (+ mercury Writer) of /repo, the WebSocket and TCP carriers of
// /repo/transport.  It drives the real code and writes, line for line, the model operations
// (`stream read|enc|ws …`, see lean/Drv/Stream.lean) and the implementation's canonical answers.
//
//	read.go  op 1  `stream read`  in-memory decoder under every kind of fragmentation
//	enc.go   op 2  `stream enc`   encoder scripts against a recording carrier
//	loop.go  op 3  `stream ws` and loopback variants of op 1 over real sockets
package main

import (
	"flag"
	"fmt"
	"os"
	"time"

	"verifharness/lib/gen"
	"verifharness/lib/out"
)

const prop = "C03"

var w *out.W

func lenClass(n int) string {
	switch {
	case n == 0:
		return "0"
	case n <= 64:
		return "1-64"
	case n < 4096:
		return "65-4095"
	case n <= 4096*2:
		return "4096-8192"
	case n <= 65536:
		return "8193-65536"
	}
	return ">65536"
}

func cntClass(n int) string {
	switch {
	case n <= 3:
		return fmt.Sprint(n)
	case n <= 10:
		return "4-10"
	}
	return ">10"
}

// per-tier sizes: totals over all shards (divided by nshard below)
type sizes struct {
	short, long, garbage, enc, encX, encBroken, timer, loop int
	big                                                     bool
}

func main() {
	p := flag.String("prop", prop, "C03")
	seed := flag.Uint64("seed", 1, "seed")
	tier := flag.String("tier", "quick", "quick|thorough")
	dir := flag.String("out", "", "output directory")
	shard := flag.Int("shard", 0, "shard index")
	nshard := flag.Int("nshard", 1, "number of shards")
	only := flag.String("only", "", "debug: run only read|enc|loop")
	flag.Parse()
	if *dir == "" {
		fmt.Fprintln(os.Stderr, "need -out")
		os.Exit(2)
	}
	if *p != prop {
		fmt.Fprintln(os.Stderr, "unknown -prop")
		os.Exit(2)
	}
	if *nshard < 1 || *shard < 0 || *shard >= *nshard {
		fmt.Fprintln(os.Stderr, "bad -shard/-nshard")
		os.Exit(2)
	}
	w = out.New(*dir)
	r := gen.New(*seed*1000003 + uint64(*shard))

	// (the Lean driver processes about 2 MB of ops per second: quick ≈ 20 MB, thorough ≈ 220 MB per shard)
	sz := sizes{short: 48, long: 88, garbage: 1600, enc: 1000, encX: 320, encBroken: 120, timer: 12, loop: 64}
	if *tier == "thorough" {
		sz = sizes{short: 1600, long: 1400, garbage: 160000, enc: 30000, encX: 8000, encBroken: 4800, timer: 640, loop: 4800, big: true}
	}
	per := func(n int) int {
		k := n / *nshard
		if k*(*nshard)+*shard < n {
			k++
		}
		return k
	}
	start := time.Now()
	tm := map[string]interface{}{}
	run := func(name string, f func()) {
		if *only != "" && *only != name {
			return
		}
		t0 := time.Now()
		f()
		tm[name+"_seconds"] = time.Since(t0).Seconds()
	}
	// each part draws from its own fork so that -only reproduces the same cases
	rRead, rEnc, rLoop := r.Fork(), r.Fork(), r.Fork()
	run("read", func() {
		readShort(rRead, per(sz.short))
		readLong(rRead, per(sz.long), sz.big)
		readHuge(rRead)
		readGarbage(rRead, per(sz.garbage))
		limitWhileWaiting(rRead, 3)
	})
	run("enc", func() {
		encScripts(rEnc, per(sz.enc), per(sz.encX), per(sz.encBroken), sz.big)
		encTimerScripts(rEnc, per(sz.timer))
		encWhileOthersWork(rEnc, 6)
	})
	run("loop", func() {
		loopback(rLoop, per(sz.loop), sz.big)
	})
	tm["total_seconds"] = time.Since(start).Seconds()
	w.Extra["timing"] = tm
	w.Close()
}
