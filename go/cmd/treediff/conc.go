package main

// Concurrent use of topic.Tree (C05, "each operation takes effect atomically … and no data race occurs").
// Several goroutines issue operations on one shared tree; every call is recorded with its call and
// return instants; porcupine then decides whether the history is linearizable with respect to a plain
// map topic -> value set with an independent MQTT §4.7 matcher (written here, not taken from the tree
// or from the Lean model).  This supports the correspondence (the Lean model is sequential; the step
// "mutex ⇒ each public method is one atomic event" is fact F-lock); with the race detector (thorough
// tier builds this harness with -race) it is also the search for a failing schedule when F-lock breaks.

import (
	"fmt"
	"sort"
	"strings"
	"sync"
	"time"

	"github.com/anishathalye/porcupine"

	"github.com/256dpi/gomqtt/topic"

	"verifharness/lib/gen"
)

type cin struct {
	kind string
	tp   string
	v    int
}

func (c cin) String() string { return fmt.Sprintf("%s(%q,%d)", c.kind, c.tp, c.v) }

// ---- the sequential specification: canonical string <-> map

func decState(s string) map[string][]int {
	m := map[string][]int{}
	if s == "" {
		return m
	}
	for _, e := range strings.Split(s, ";") {
		kv := strings.SplitN(e, "=", 2)
		for _, x := range strings.Split(kv[1], ",") {
			var v int
			fmt.Sscan(x, &v)
			m[kv[0]] = append(m[kv[0]], v)
		}
	}
	return m
}

func encState(m map[string][]int) string {
	var ks []string
	for k, vs := range m {
		if len(vs) > 0 {
			ks = append(ks, k)
		}
	}
	sort.Strings(ks)
	var es []string
	for _, k := range ks {
		vs := append([]int{}, m[k]...)
		sort.Ints(vs)
		var ss []string
		for _, v := range vs {
			ss = append(ss, fmt.Sprint(v))
		}
		es = append(es, k+"="+strings.Join(ss, ","))
	}
	return strings.Join(es, ";")
}

// MQTT 3.1.1 §4.7 on "/"-separated levels
func specMatches(filter, name []string) bool {
	if len(filter) == 0 {
		return len(name) == 0
	}
	if filter[0] == "#" {
		return len(filter) == 1
	}
	if len(name) == 0 {
		return false
	}
	if filter[0] == "+" || filter[0] == name[0] {
		if len(filter) == 2 && filter[1] == "#" && len(name) == 1 {
			return true // "a/#" also matches the parent level "a"
		}
		return specMatches(filter[1:], name[1:])
	}
	return false
}

func setStr(vs []int) string {
	sort.Ints(vs)
	out := []int{}
	for i, v := range vs {
		if i == 0 || v != vs[i-1] {
			out = append(out, v)
		}
	}
	var ss []string
	for _, v := range out {
		ss = append(ss, fmt.Sprint(v))
	}
	return "[" + strings.Join(ss, ",") + "]"
}

func specStep(state string, in cin) (string, string) {
	m := decState(state)
	has := func(tp string, v int) bool {
		for _, x := range m[tp] {
			if x == v {
				return true
			}
		}
		return false
	}
	del := func(tp string, v int) {
		var r []int
		for _, x := range m[tp] {
			if x != v {
				r = append(r, x)
			}
		}
		m[tp] = r
	}
	switch in.kind {
	case "add":
		if !has(in.tp, in.v) {
			m[in.tp] = append(m[in.tp], in.v)
		}
		return encState(m), "ok"
	case "set":
		m[in.tp] = []int{in.v}
		return encState(m), "ok"
	case "remove":
		del(in.tp, in.v)
		return encState(m), "ok"
	case "empty":
		delete(m, in.tp)
		return encState(m), "ok"
	case "clear":
		for tp := range m {
			del(tp, in.v)
		}
		return encState(m), "ok"
	case "reset":
		return "", "ok"
	case "get":
		return state, setStr(append([]int{}, m[in.tp]...))
	case "match":
		var r []int
		for f, vs := range m {
			if specMatches(strings.Split(f, "/"), strings.Split(in.tp, "/")) {
				r = append(r, vs...)
			}
		}
		return state, setStr(r)
	case "search":
		var r []int
		for n, vs := range m {
			if specMatches(strings.Split(in.tp, "/"), strings.Split(n, "/")) {
				r = append(r, vs...)
			}
		}
		return state, setStr(r)
	case "count":
		n := 0
		for _, vs := range m {
			n += len(vs)
		}
		return state, fmt.Sprint(n)
	case "all":
		var r []int
		for _, vs := range m {
			r = append(r, vs...)
		}
		return state, setStr(r)
	}
	panic("unknown op " + in.kind)
}

func toInts(vs []interface{}) []int {
	var is []int
	for _, v := range vs {
		is = append(is, v.(int))
	}
	return is
}

func implStep(tr *topic.Tree, in cin) string {
	switch in.kind {
	case "add":
		tr.Add(in.tp, in.v)
	case "set":
		tr.Set(in.tp, in.v)
	case "remove":
		tr.Remove(in.tp, in.v)
	case "empty":
		tr.Empty(in.tp)
	case "clear":
		tr.Clear(in.v)
	case "reset":
		tr.Reset()
	case "get":
		return setStr(toInts(tr.Get(in.tp)))
	case "match":
		return setStr(toInts(tr.Match(in.tp)))
	case "search":
		return setStr(toInts(tr.Search(in.tp)))
	case "count":
		return fmt.Sprint(tr.Count())
	case "all":
		return setStr(toInts(tr.All()))
	}
	return "ok"
}

var concModel = porcupine.Model{
	Init: func() interface{} { return "" },
	Step: func(state, input, output interface{}) (bool, interface{}) {
		ns, want := specStep(state.(string), input.(cin))
		return want == output.(string), ns
	},
	Equal:             func(a, b interface{}) bool { return a.(string) == b.(string) },
	DescribeOperation: func(in, out interface{}) string { return fmt.Sprintf("%v -> %v", in, out) },
	DescribeState:     func(s interface{}) string { return "{" + s.(string) + "}" },
}

var concRounds int

func c05Concurrent(r *gen.Rng, tier string, shard, nshard int) {
	rounds, maxG, perG := 150, 4, 7
	if tier == "thorough" {
		rounds, maxG, perG = 4000, 16, 6
	}
	if concRounds > 0 {
		rounds = concRounds
	}
	// filters and names are both used as stored topics, queries use them in both roles
	stored := []string{"a", "a/b", "a/+", "a/#", "+/b", "#", "b"}
	names := []string{"a", "a/b", "b", "a/b/c"}
	kinds := []string{"add", "add", "set", "remove", "empty", "clear", "get", "get", "match", "match", "search", "count", "all", "reset"}
	start := time.Now()
	for i := 0; i < rounds/nshard+1; i++ {
		g := 2 + r.Intn(maxG-1)
		progs := make([][]cin, g)
		for c := range progs {
			for j := 0; j < perG; j++ {
				k := kinds[r.Intn(len(kinds))]
				if k == "reset" && r.Intn(4) != 0 {
					k = "add"
				}
				in := cin{kind: k, v: 1 + r.Intn(3)}
				switch k {
				case "match":
					in.tp = names[r.Intn(len(names))]
				case "count", "all", "reset", "clear":
				default:
					in.tp = stored[r.Intn(len(stored))]
				}
				progs[c] = append(progs[c], in)
			}
		}
		tr := topic.NewStandardTree()
		var mu sync.Mutex
		var hist []porcupine.Operation
		var wg sync.WaitGroup
		gate := make(chan struct{})
		for c := range progs {
			wg.Add(1)
			go func(c int) {
				defer wg.Done()
				<-gate
				for _, in := range progs[c] {
					call := time.Since(start).Nanoseconds()
					out := implStep(tr, in)
					ret := time.Since(start).Nanoseconds()
					mu.Lock()
					hist = append(hist, porcupine.Operation{ClientId: c, Input: in, Call: call, Output: out, Return: ret})
					mu.Unlock()
				}
			}(c)
		}
		close(gate)
		wg.Wait()
		res := porcupine.CheckOperationsTimeout(concModel, hist, 20*time.Second)
		w.Count(fmt.Sprintf("concurrent/%d-goroutines", g))
		w.Count("concurrent/" + string(res))
		if res == porcupine.Illegal {
			sort.Slice(hist, func(a, b int) bool { return hist[a].Call < hist[b].Call })
			var rep []string
			for _, o := range hist {
				rep = append(rep, fmt.Sprintf("g%d call=%d ret=%d %v -> %v", o.ClientId, o.Call, o.Return, o.Input, o.Output))
			}
			w.Monitor("C05", "not-linearizable", fmt.Sprintf("%d goroutines x %d ops on one tree: no order of the operations consistent with their call/return instants gives these answers on a plain topic->value-set map", g, perG), rep)
		}
		if i == 0 {
			w.Sample(fmt.Sprintf("concurrent round: %d goroutines x %d ops, e.g. %v", g, perG, progs[0]))
		}
	}
}
